/-
  Lemmas about the EA core model (`TFV.Model.EA`) used by `TFV.Properties.EA`.
-/
import TFV.Model.EA

namespace TFV.EA
variable {G P : Type}

/-! ## argmax -/

theorem argmaxAux_mem (b : Ind G P) (xs : List (Ind G P)) : argmaxAux b xs ∈ b :: xs := by
  induction xs generalizing b with
  | nil => simp [argmaxAux]
  | cons x xs ih =>
    unfold argmaxAux
    split
    · have := ih x
      simp only [List.mem_cons] at this ⊢
      exact Or.inr this
    · have := ih b
      simp only [List.mem_cons] at this ⊢
      rcases this with h | h
      · exact Or.inl h
      · exact Or.inr (Or.inr h)

theorem argmaxAux_ge (b : Ind G P) (xs : List (Ind G P)) :
    ∀ y ∈ b :: xs, y.fit ≤ (argmaxAux b xs).fit := by
  induction xs generalizing b with
  | nil => intro y hy; simp at hy; subst hy; simp [argmaxAux]
  | cons x xs ih =>
    intro y hy
    unfold argmaxAux
    split
    next hlt =>
      have h := ih x
      simp only [List.mem_cons] at hy
      rcases hy with rfl | hy
      · have := h x (by simp); omega
      · exact h y (by simpa using hy)
    next hlt =>
      have h := ih b
      simp only [List.mem_cons] at hy
      rcases hy with rfl | rfl | hy
      · exact h _ (by simp)
      · have := h b (by simp); omega
      · exact h y (by simp [hy])

theorem argmaxFirst_some {pop : List (Ind G P)} {m : Ind G P} (h : argmaxFirst pop = some m) :
    m ∈ pop ∧ ∀ x ∈ pop, x.fit ≤ m.fit := by
  cases pop with
  | nil => simp [argmaxFirst] at h
  | cons x xs =>
    simp only [argmaxFirst, Option.some.injEq] at h
    subst h
    exact ⟨argmaxAux_mem x xs, argmaxAux_ge x xs⟩

theorem argmaxFirst_ne_nil {pop : List (Ind G P)} (h : pop ≠ []) :
    ∃ m, argmaxFirst pop = some m := by
  cases pop with
  | nil => exact absurd rfl h
  | cons x xs => exact ⟨_, rfl⟩

/-! ## `Rec.update` -/

/-- complete case description of `Rec.update` on a non-empty population -/
theorem update_cases (r : Rec G P) {pop : List (Ind G P)} (hne : pop ≠ []) :
    ∃ m, m ∈ pop ∧ (∀ x ∈ pop, x.fit ≤ m.fit) ∧
      ((r.fit < m.fit ∧ r.update pop = { best := some m, fit := m.fit, noUpd := 0 }) ∨
       (m.fit ≤ r.fit ∧ r.update pop = { r with noUpd := r.noUpd + 1 })) := by
  obtain ⟨m, hm⟩ := argmaxFirst_ne_nil hne
  obtain ⟨h1, h2⟩ := argmaxFirst_some hm
  refine ⟨m, h1, h2, ?_⟩
  unfold Rec.update
  rw [hm]
  by_cases hlt : r.fit < m.fit
  · left; simp [hlt]
  · right; simp [hlt]; omega

theorem update_nil (r : Rec G P) : r.update [] = r := rfl

theorem update_fit_ge (r : Rec G P) (pop : List (Ind G P)) : r.fit ≤ (r.update pop).fit := by
  by_cases hne : pop = []
  · subst hne; simp [update_nil]
  · obtain ⟨m, _, _, h | h⟩ := update_cases r hne
    · rw [h.2]; simp; omega
    · rw [h.2]; simp

theorem update_fit_ge_pop (r : Rec G P) (pop : List (Ind G P)) :
    ∀ x ∈ pop, x.fit ≤ (r.update pop).fit := by
  intro x hx
  have hne : pop ≠ [] := by intro h; subst h; simp at hx
  obtain ⟨m, _, hmax, h | h⟩ := update_cases r hne
  · rw [h.2]; exact hmax x hx
  · rw [h.2]; have := hmax x hx; simp; omega

/-- the record after an update is either the old one, or a maximal member of the population -/
theorem update_best (r : Rec G P) (pop : List (Ind G P)) :
    ((r.update pop).best = r.best ∧ (r.update pop).fit = r.fit) ∨
    (∃ m ∈ pop, (r.update pop).best = some m ∧ (r.update pop).fit = m.fit ∧ r.fit < m.fit) := by
  by_cases hne : pop = []
  · subst hne; left; simp [update_nil]
  · obtain ⟨m, hm, _, h | h⟩ := update_cases r hne
    · right; exact ⟨m, hm, by rw [h.2], by rw [h.2], h.1⟩
    · left; rw [h.2]; simp

theorem update_best_fit (r : Rec G P) (pop : List (Ind G P))
    (hb : ∀ b, r.best = some b → b.fit = r.fit) :
    ∀ b, (r.update pop).best = some b → b.fit = (r.update pop).fit := by
  intro b hbs
  rcases update_best r pop with ⟨h1, h2⟩ | ⟨m, _, h1, h2, _⟩
  · rw [h2]; exact hb b (h1 ▸ hbs)
  · rw [h1] at hbs; cases hbs; exact h2.symm

theorem C03_stagnation_aux (r : Rec G P) (pop : List (Ind G P)) (hne : pop ≠ []) :
    (r.fit < (r.update pop).fit → (r.update pop).noUpd = 0) ∧
    (¬ r.fit < (r.update pop).fit → (r.update pop).noUpd = r.noUpd + 1 ∧ (r.update pop).best = r.best) ∧
    (r.fit < (r.update pop).fit ↔ ∃ x ∈ pop, r.fit < x.fit) := by
  obtain ⟨m, hm, hmax, ⟨hlt, h⟩ | ⟨hle, h⟩⟩ := update_cases r hne
  · rw [h]
    refine ⟨fun _ => rfl, fun hn => absurd hlt hn, fun _ => ⟨m, hm, hlt⟩, fun _ => hlt⟩
  · rw [h]
    refine ⟨fun hl => absurd hl (Int.lt_irrefl _), fun _ => ⟨rfl, rfl⟩,
      fun hl => absurd hl (Int.lt_irrefl _), ?_⟩
    rintro ⟨x, hx, hlt⟩
    have := hmax x hx
    exact absurd (show r.fit < r.fit by omega) (Int.lt_irrefl _)

/-! ## `setLast`, `merge`, `lastD` -/

theorem setLast_length {α : Type} (l : List α) (b : α) : (setLast l b).length = l.length := by
  fun_induction setLast l b <;> simp_all

theorem setLast_mem {α : Type} (l : List α) (b : α) : ∀ x ∈ setLast l b, x ∈ l ∨ x = b := by
  fun_induction setLast l b <;> simp_all
  grind

theorem setLast_getLast? {α : Type} (l : List α) (b : α) (h : l ≠ []) :
    (setLast l b).getLast? = some b := by
  fun_induction setLast l b
  · exact absurd rfl h
  · rfl
  · rename_i x y xs b ih
    have := ih (by simp)
    cases hsl : setLast (y :: xs) b with
    | nil => rw [hsl] at this; simp at this
    | cons z zs => rw [hsl] at this; simpa [List.getLast?_cons_cons] using this

theorem setLast_getElem?_lt {α : Type} (l : List α) (b : α) (i : Nat) (h : i + 1 < l.length) :
    (setLast l b)[i]? = l[i]? := by
  fun_induction setLast l b generalizing i
  · rfl
  · simp at h
  · rename_i x y xs b ih
    cases i with
    | zero => rfl
    | succ i => simpa using ih i (by simpa using h)

theorem setLast_getElem?_last {α : Type} (l : List α) (b : α) (i : Nat) (h : i + 1 = l.length) :
    (setLast l b)[i]? = some b := by
  fun_induction setLast l b generalizing i
  · simp at h
  · simp at h; subst h; rfl
  · rename_i x y xs b ih
    cases i with
    | zero => simp at h
    | succ i => simpa using ih i (by simpa using h)

theorem merge_length (ps ts : List (Ind G P)) : (merge ps ts).length = ps.length := by
  fun_induction merge ps ts <;> simp_all

theorem merge_mem (ps ts : List (Ind G P)) : ∀ x ∈ merge ps ts, x ∈ ps ∨ x ∈ ts := by
  fun_induction merge ps ts <;> simp_all
  grind

/-- every trial is dominated by the merged individual of its slot -/
theorem merge_dom (ps ts : List (Ind G P)) (h : ts.length ≤ ps.length) :
    ∀ t ∈ ts, ∃ y ∈ merge ps ts, t.fit ≤ y.fit := by
  fun_induction merge ps ts
  · rename_i p ps t ts ih
    intro x hx
    simp only [List.mem_cons] at hx
    rcases hx with rfl | hx
    · by_cases hc : p.fit ≤ x.fit
      · exact ⟨x, by simp [hc], Int.le_refl _⟩
      · exact ⟨p, by simp [hc], by omega⟩
    · obtain ⟨y, hy, hle⟩ := ih (by simpa using h) x hx
      exact ⟨y, List.mem_cons_of_mem _ hy, hle⟩
  · simp
  · rename_i ts hts
    cases ts with
    | nil => simp
    | cons t ts => simp at h

theorem merge_getElem? (ps ts : List (Ind G P)) (i : Nat) (p t : Ind G P)
    (hp : ps[i]? = some p) (ht : ts[i]? = some t) :
    (merge ps ts)[i]? = some (if p.fit ≤ t.fit then t else p) := by
  fun_induction merge ps ts generalizing i
  · rename_i p' ps t' ts ih
    cases i with
    | zero => simp at hp ht; subst hp; subst ht; simp
    | succ i => simp at hp ht; simpa using ih i hp ht
  · simp at ht
  · simp at hp

theorem lastD_eq {α : Type} (l : List α) (d : α) : lastD l d = l.getLast?.getD d := by
  induction l generalizing d with
  | nil => rfl
  | cons x xs ih =>
    rw [lastD, ih]
    cases xs with
    | nil => rfl
    | cons y ys =>
      rw [List.getLast?_cons_cons, List.getLast?_eq_some_getLast (List.cons_ne_nil y ys)]
      rfl

theorem lastD_getLast? {α : Type} (l : List α) (d : α) (h : l ≠ []) :
    l.getLast? = some (lastD l d) := by
  rw [lastD_eq]
  cases hl : l.getLast? with
  | none => rw [List.getLast?_eq_none_iff] at hl; exact absurd hl h
  | some x => rfl

theorem lastD_mem {α : Type} (l : List α) (d : α) (h : l ≠ []) : lastD l d ∈ l :=
  List.mem_of_getLast? (lastD_getLast? l d h)


/-! ## `eval` -/

theorem eval_length (c : Cfg G P) (gs : List G) : (c.eval gs).length = gs.length := by
  simp [Cfg.eval]

theorem eval_ok (c : Cfg G P) (gs : List G) :
    ∀ x ∈ c.eval gs, x.ph = c.g2p x.g ∧ x.fit = c.fitOf x.ph := by
  intro x hx
  simp only [Cfg.eval, List.mem_map] at hx
  obtain ⟨g, _, rfl⟩ := hx
  exact ⟨rfl, rfl⟩

theorem eval_map_g (c : Cfg G P) (gs : List G) : (c.eval gs).map (·.g) = gs := by
  simp [Cfg.eval, Function.comp_def]

/-! ## projections of `record` -/

/-- the elitism write of `record` -/
def recPop (c : Cfg G P) (rk : Rec G P) (pop : List (Ind G P)) : List (Ind G P) :=
  match c.elitism, rk.best with
  | true, some b => setLast pop b
  | _, _ => pop

theorem record_pop (c : Cfg G P) (s : St G P) (pop : List (Ind G P)) :
    (c.record s pop).pop = recPop c (s.rk.update pop) pop := rfl
theorem record_rk (c : Cfg G P) (s : St G P) (pop : List (Ind G P)) :
    (c.record s pop).rk = s.rk.update pop := rfl
theorem record_log (c : Cfg G P) (s : St G P) (pop : List (Ind G P)) :
    (c.record s pop).log = s.log := rfl
theorem record_calls (c : Cfg G P) (s : St G P) (pop : List (Ind G P)) :
    (c.record s pop).calls = s.calls := rfl
theorem record_gens (c : Cfg G P) (s : St G P) (pop : List (Ind G P)) :
    (c.record s pop).gens = s.gens + 1 := rfl
theorem record_callbacks (c : Cfg G P) (s : St G P) (pop : List (Ind G P)) :
    (c.record s pop).callbacks = s.callbacks := rfl
theorem record_stats (c : Cfg G P) (s : St G P) (pop : List (Ind G P)) :
    (c.record s pop).stats =
      if c.keepHistory then s.stats ++ [{ pop := pop, maxInd := argmaxFirst pop }] else s.stats := rfl

theorem recPop_cases (c : Cfg G P) (rk : Rec G P) (pop : List (Ind G P)) :
    (c.elitism = true ∧ ∃ b, rk.best = some b ∧ recPop c rk pop = setLast pop b) ∨
    recPop c rk pop = pop := by
  unfold recPop
  split
  · rename_i b he hb
    exact Or.inl ⟨he, b, hb, rfl⟩
  · exact Or.inr rfl

theorem recPop_length (c : Cfg G P) (rk : Rec G P) (pop : List (Ind G P)) :
    (recPop c rk pop).length = pop.length := by
  rcases recPop_cases c rk pop with ⟨_, b, _, h⟩ | h
  · rw [h, setLast_length]
  · rw [h]

theorem recPop_mem (c : Cfg G P) (rk : Rec G P) (pop : List (Ind G P)) :
    ∀ x ∈ recPop c rk pop, x ∈ pop ∨ rk.best = some x := by
  intro x hx
  rcases recPop_cases c rk pop with ⟨_, b, hb, h⟩ | h
  · rw [h] at hx
    rcases setLast_mem pop b x hx with h' | h'
    · exact Or.inl h'
    · subst h'; exact Or.inr hb
  · rw [h] at hx; exact Or.inl hx

theorem recPop_getLast? (c : Cfg G P) (rk : Rec G P) (pop : List (Ind G P)) (b : Ind G P)
    (he : c.elitism = true) (hb : rk.best = some b) (hne : pop ≠ []) :
    (recPop c rk pop).getLast? = some b := by
  unfold recPop
  rw [he, hb]
  exact setLast_getLast? pop b hne

/-! ## generic trajectory lemmas -/

/-- one iteration of the main loop (variation, evaluation, record, callback) -/
def Cfg.next (c : Cfg G P) (fl : Flavour) (oracle : St G P → List G) (s : St G P) : St G P :=
  { c.step fl s (oracle s) with callbacks := (c.step fl s (oracle s)).callbacks + 1 }

theorem trajFrom_zero (c : Cfg G P) (fl : Flavour) (oracle : St G P → List G) (s : St G P) :
    c.trajFrom fl oracle 0 s = [s] := rfl

theorem trajFrom_succ (c : Cfg G P) (fl : Flavour) (oracle : St G P → List G) (n : Nat) (s : St G P) :
    c.trajFrom fl oracle (n + 1) s =
      if c.stop s then [s] else s :: c.trajFrom fl oracle n (c.next fl oracle s) := rfl

theorem trajFrom_forall (c : Cfg G P) (fl : Flavour) (oracle : St G P → List G)
    (I : St G P → Prop) (hstep : ∀ s, I s → I (c.next fl oracle s)) :
    ∀ n s, I s → ∀ x ∈ c.trajFrom fl oracle n s, I x := by
  intro n
  induction n with
  | zero =>
    intro s hs x hx
    rw [trajFrom_zero] at hx
    simp only [List.mem_singleton] at hx
    subst hx; exact hs
  | succ n ih =>
    intro s hs x hx
    rw [trajFrom_succ] at hx
    split at hx
    · simp only [List.mem_singleton] at hx
      subst hx; exact hs
    · simp only [List.mem_cons] at hx
      rcases hx with rfl | hx
      · exact hs
      · exact ih _ (hstep s hs) x hx

theorem trajFrom_reach (c : Cfg G P) (fl : Flavour) (oracle : St G P → List G)
    (R : St G P → St G P → Prop) (htrans : ∀ a b d, R a b → R b d → R a d)
    (hstep : ∀ s, R s (c.next fl oracle s)) :
    ∀ n s, ∀ x ∈ c.trajFrom fl oracle n s, x = s ∨ R s x := by
  intro n
  induction n with
  | zero =>
    intro s x hx
    rw [trajFrom_zero] at hx
    simp only [List.mem_singleton] at hx
    exact Or.inl hx
  | succ n ih =>
    intro s x hx
    rw [trajFrom_succ] at hx
    split at hx
    · simp only [List.mem_singleton] at hx
      exact Or.inl hx
    · simp only [List.mem_cons] at hx
      rcases hx with rfl | hx
      · exact Or.inl rfl
      · rcases ih _ x hx with rfl | h
        · exact Or.inr (hstep s)
        · exact Or.inr (htrans _ _ _ (hstep s) h)

theorem trajFrom_pairwise (c : Cfg G P) (fl : Flavour) (oracle : St G P → List G)
    (R : St G P → St G P → Prop) (htrans : ∀ a b d, R a b → R b d → R a d)
    (hstep : ∀ s, R s (c.next fl oracle s)) :
    ∀ n s, (c.trajFrom fl oracle n s).Pairwise R := by
  intro n
  induction n with
  | zero => intro s; rw [trajFrom_zero]; simp
  | succ n ih =>
    intro s
    rw [trajFrom_succ]
    split
    · simp
    · rw [List.pairwise_cons]
      refine ⟨?_, ih _⟩
      intro x hx
      rcases trajFrom_reach c fl oracle R htrans hstep n _ x hx with rfl | h
      · exact hstep s
      · exact htrans _ _ _ (hstep s) h

theorem trajFrom_index (c : Cfg G P) (fl : Flavour) (oracle : St G P → List G)
    (J : Nat → St G P → Prop) (hstep : ∀ j s, J j s → J (j + 1) (c.next fl oracle s)) :
    ∀ n s j, J j s → ∀ k x, (c.trajFrom fl oracle n s)[k]? = some x → J (j + k) x := by
  intro n
  induction n with
  | zero =>
    intro s j hj k x hx
    rw [trajFrom_zero] at hx
    cases k with
    | zero => simp at hx; subst hx; exact hj
    | succ k => simp at hx
  | succ n ih =>
    intro s j hj k x hx
    rw [trajFrom_succ] at hx
    split at hx
    · cases k with
      | zero => simp at hx; subst hx; exact hj
      | succ k => simp at hx
    · cases k with
      | zero => simp at hx; subst hx; exact hj
      | succ k =>
        simp only [List.getElem?_cons_succ] at hx
        have := ih _ (j + 1) (hstep j s hj) k x hx
        have e : j + 1 + k = j + (k + 1) := by omega
        rw [e] at this
        exact this

theorem trajFrom_length_le (c : Cfg G P) (fl : Flavour) (oracle : St G P → List G) :
    ∀ n s, (c.trajFrom fl oracle n s).length ≤ n + 1 := by
  intro n
  induction n with
  | zero => intro s; simp [trajFrom_zero]
  | succ n ih =>
    intro s
    rw [trajFrom_succ]
    split
    · simp
    · have := ih (c.next fl oracle s)
      simp only [List.length_cons]; omega

theorem trajFrom_ne_nil (c : Cfg G P) (fl : Flavour) (oracle : St G P → List G) (n : Nat)
    (s : St G P) : c.trajFrom fl oracle n s ≠ [] := by
  cases n with
  | zero => simp [trajFrom_zero]
  | succ n => rw [trajFrom_succ]; split <;> simp

theorem trajFrom_stop_false (c : Cfg G P) (fl : Flavour) (oracle : St G P → List G) :
    ∀ n s k x, (c.trajFrom fl oracle n s)[k]? = some x →
      k + 1 < (c.trajFrom fl oracle n s).length → c.stop x = false := by
  intro n
  induction n with
  | zero => intro s k x _ hk; simp [trajFrom_zero] at hk
  | succ n ih =>
    intro s k x hx hk
    rw [trajFrom_succ] at hx hk
    split at hx
    · rename_i hs; simp [hs] at hk
    · rename_i hs
      simp only [hs, Bool.false_eq_true, ↓reduceIte, List.length_cons] at hk
      cases k with
      | zero => simp at hx; subst hx; simpa using hs
      | succ k =>
        simp only [List.getElem?_cons_succ] at hx
        exact ih _ k x hx (by omega)

theorem trajFrom_len_or_stop (c : Cfg G P) (fl : Flavour) (oracle : St G P → List G) :
    ∀ n s d, (c.trajFrom fl oracle n s).length = n + 1 ∨
      c.stop (lastD (c.trajFrom fl oracle n s) d) = true := by
  intro n
  induction n with
  | zero => intro s d; left; simp [trajFrom_zero]
  | succ n ih =>
    intro s d
    rw [trajFrom_succ]
    split
    · rename_i hs; right; simpa [lastD] using hs
    · rcases ih (c.next fl oracle s) s with h | h
      · left; simp [h]
      · right; simpa [lastD] using h

theorem traj_ne_nil (c : Cfg G P) (fl : Flavour) (init : List G) (oracle : St G P → List G) :
    c.traj fl init oracle ≠ [] := trajFrom_ne_nil _ _ _ _ _

theorem run_mem_traj (c : Cfg G P) (fl : Flavour) (init : List G) (oracle : St G P → List G) :
    c.run fl init oracle ∈ c.traj fl init oracle :=
  lastD_mem _ _ (traj_ne_nil c fl init oracle)

theorem C03_stop_exact_aux (c : Cfg G P) (fl : Flavour) (init : List G) (oracle : St G P → List G) :
    let t := c.traj fl init oracle
    (∀ k (hk : k + 1 < t.length), c.stop (t[k]'(by omega)) = false) ∧
    (t.length = max c.iters 1 ∨ c.stop (c.run fl init oracle) = true) ∧
    t ≠ [] ∧ t.getLast? = some (c.run fl init oracle) := by
  intro t
  refine ⟨?_, ?_, traj_ne_nil c fl init oracle, lastD_getLast? _ _ (traj_ne_nil c fl init oracle)⟩
  · intro k hk
    have hk' : k + 1 < (c.trajFrom fl oracle (c.iters - 1) (c.first init)).length := hk
    exact trajFrom_stop_false c fl oracle _ _ k _ (List.getElem?_eq_getElem (by omega)) hk'
  · rcases trajFrom_len_or_stop c fl oracle (c.iters - 1) (c.first init) (c.first init) with h | h
    · left
      show (c.trajFrom fl oracle (c.iters - 1) (c.first init)).length = _
      rw [h]; omega
    · right; exact h


/-! ## the main invariant -/

/-- what holds at every generation boundary of a regular run -/
structure Inv (c : Cfg G P) (s : St G P) : Prop where
  best : ∃ b, s.rk.best = some b ∧ b.fit = s.rk.fit ∧ b ∈ s.log
  logmax : ∀ x ∈ s.log, x.fit ≤ s.rk.fit
  logok : ∀ x ∈ s.log, x.ph = c.g2p x.g ∧ x.fit = c.fitOf x.ph
  len : s.pop.length = c.popSize
  popmem : ∀ x ∈ s.pop, x ∈ s.log
  elite : c.elitism = true → ∃ b, s.rk.best = some b ∧ s.pop.getLast? = some b

theorem record_inv (c : Cfg G P) (s : St G P) (pop : List (Ind G P)) (hpop : 0 < c.popSize)
    (h1 : ∀ b, s.rk.best = some b → b.fit = s.rk.fit ∧ b ∈ s.log)
    (h2 : s.rk.best = none → ∀ x ∈ pop, s.rk.fit < x.fit)
    (h3 : ∀ x ∈ s.log, x.fit ≤ s.rk.fit ∨ ∃ y ∈ pop, x.fit ≤ y.fit)
    (h4 : ∀ x ∈ pop, x ∈ s.log)
    (h5 : pop.length = c.popSize)
    (h6 : ∀ x ∈ s.log, x.ph = c.g2p x.g ∧ x.fit = c.fitOf x.ph) :
    Inv c (c.record s pop) := by
  have hne : pop ≠ [] := by
    intro h; subst h; simp at h5; omega
  have hbest : ∃ b, (s.rk.update pop).best = some b ∧ b.fit = (s.rk.update pop).fit ∧ b ∈ s.log := by
    rcases update_best s.rk pop with ⟨e1, e2⟩ | ⟨m, hm, e1, e2, _⟩
    · cases hb : s.rk.best with
      | none =>
        obtain ⟨x, hx⟩ := List.exists_mem_of_ne_nil pop hne
        have l1 := h2 hb x hx
        have l2 := update_fit_ge_pop s.rk pop x hx
        rw [e2] at l2
        omega
      | some b =>
        exact ⟨b, e1.trans hb, by rw [e2]; exact (h1 b hb).1, (h1 b hb).2⟩
    · exact ⟨m, e1, e2.symm, h4 m hm⟩
  refine ⟨hbest, ?_, h6, ?_, ?_, ?_⟩
  · intro x hx
    rw [record_rk]
    rw [record_log] at hx
    rcases h3 x hx with h | ⟨y, hy, hle⟩
    · have := update_fit_ge s.rk pop; omega
    · have := update_fit_ge_pop s.rk pop y hy; omega
  · rw [record_pop, recPop_length, h5]
  · intro x hx
    rw [record_pop] at hx
    rw [record_log]
    rcases recPop_mem c _ pop x hx with h | h
    · exact h4 x h
    · obtain ⟨b, hb, _, hmem⟩ := hbest
      rw [hb] at h; cases h; exact hmem
  · intro he
    obtain ⟨b, hb, _, _⟩ := hbest
    exact ⟨b, hb, recPop_getLast? c _ pop b he hb hne⟩

theorem first_inv (c : Cfg G P) (init : List G) (hpop : 0 < c.popSize)
    (hinit : init.length = c.popSize) (hfloor : ∀ p, c.floor < c.fitOf p) :
    Inv c (c.first init) := by
  unfold Cfg.first Cfg.stepGen
  apply record_inv c _ _ hpop
  · intro b hb; simp [St.init] at hb
  · intro _ x hx
    rw [(eval_ok c init x hx).2]
    exact hfloor _
  · intro x hx
    right
    exact ⟨x, by simpa [St.init] using hx, Int.le_refl _⟩
  · intro x hx; simpa [St.init] using hx
  · rw [eval_length, hinit]
  · intro x hx
    exact eval_ok c init x (by simpa [St.init] using hx)

theorem stepGen_inv (c : Cfg G P) (s : St G P) (gs : List G) (hpop : 0 < c.popSize)
    (hgs : gs.length = c.popSize) (h : Inv c s) : Inv c (c.stepGen s gs) := by
  unfold Cfg.stepGen
  obtain ⟨b, hb, hbf, hbm⟩ := h.best
  apply record_inv c _ _ hpop
  · intro b' hb'
    have : b' = b := by
      have : s.rk.best = some b' := hb'
      rw [hb] at this; cases this; rfl
    subst this
    exact ⟨hbf, List.mem_append_left _ hbm⟩
  · intro hn
    have : s.rk.best = none := hn
    rw [hb] at this; cases this
  · intro x hx
    have hx' : x ∈ s.log ++ c.eval gs := hx
    rcases List.mem_append.mp hx' with hx' | hx'
    · exact Or.inl (h.logmax x hx')
    · exact Or.inr ⟨x, hx', Int.le_refl _⟩
  · intro x hx; exact List.mem_append_right _ hx
  · rw [eval_length, hgs]
  · intro x hx
    have hx' : x ∈ s.log ++ c.eval gs := hx
    rcases List.mem_append.mp hx' with hx' | hx'
    · exact h.logok x hx'
    · exact eval_ok c gs x hx'

theorem stepGreedy_inv (c : Cfg G P) (s : St G P) (gs : List G) (hpop : 0 < c.popSize)
    (hgs : gs.length = c.popSize) (h : Inv c s) : Inv c (c.stepGreedy s gs) := by
  unfold Cfg.stepGreedy
  obtain ⟨b, hb, hbf, hbm⟩ := h.best
  apply record_inv c _ _ hpop
  · intro b' hb'
    have : b' = b := by
      have : s.rk.best = some b' := hb'
      rw [hb] at this; cases this; rfl
    subst this
    exact ⟨hbf, List.mem_append_left _ hbm⟩
  · intro hn
    have : s.rk.best = none := hn
    rw [hb] at this; cases this
  · intro x hx
    have hx' : x ∈ s.log ++ c.eval gs := hx
    rcases List.mem_append.mp hx' with hx' | hx'
    · exact Or.inl (h.logmax x hx')
    · exact Or.inr (merge_dom s.pop (c.eval gs) (by rw [eval_length, hgs, h.len]; exact Nat.le_refl _) x hx')
  · intro x hx
    rcases merge_mem _ _ x hx with hx' | hx'
    · exact List.mem_append_left _ (h.popmem x hx')
    · exact List.mem_append_right _ hx'
  · rw [merge_length, h.len]
  · intro x hx
    have hx' : x ∈ s.log ++ c.eval gs := hx
    rcases List.mem_append.mp hx' with hx' | hx'
    · exact h.logok x hx'
    · exact eval_ok c gs x hx'

theorem next_inv (c : Cfg G P) (fl : Flavour) (oracle : St G P → List G) (hpop : 0 < c.popSize)
    (horacle : ∀ s, (oracle s).length = c.popSize) (s : St G P) (h : Inv c s) :
    Inv c (c.next fl oracle s) := by
  have h' : Inv c (c.step fl s (oracle s)) := by
    cases fl
    · exact stepGen_inv c s _ hpop (horacle s) h
    · exact stepGreedy_inv c s _ hpop (horacle s) h
  exact ⟨h'.best, h'.logmax, h'.logok, h'.len, h'.popmem, h'.elite⟩

theorem traj_inv (c : Cfg G P) (fl : Flavour) (init : List G) (oracle : St G P → List G)
    (hpop : 0 < c.popSize) (hinit : init.length = c.popSize)
    (horacle : ∀ s, (oracle s).length = c.popSize) (hfloor : ∀ p, c.floor < c.fitOf p) :
    ∀ s ∈ c.traj fl init oracle, Inv c s :=
  trajFrom_forall c fl oracle (Inv c) (next_inv c fl oracle hpop horacle) _ _
    (first_inv c init hpop hinit hfloor)

/-! ## C01, C02 -/

theorem C01_best_is_max_aux (c : Cfg G P) (fl : Flavour) (init : List G) (oracle : St G P → List G)
    (hpop : 0 < c.popSize) (hinit : init.length = c.popSize)
    (horacle : ∀ s, (oracle s).length = c.popSize) (hfloor : ∀ p, c.floor < c.fitOf p) :
    ∀ s ∈ c.traj fl init oracle,
      ∃ b, s.rk.best = some b ∧ b.fit = s.rk.fit ∧ b ∈ s.log ∧ (∀ x ∈ s.log, x.fit ≤ b.fit) ∧
        b.ph = c.g2p b.g ∧ b.fit = c.fitOf b.ph := by
  intro s hs
  have h := traj_inv c fl init oracle hpop hinit horacle hfloor s hs
  obtain ⟨b, hb, hbf, hbm⟩ := h.best
  refine ⟨b, hb, hbf, hbm, ?_, (h.logok b hbm).1, (h.logok b hbm).2⟩
  intro x hx
  rw [hbf]; exact h.logmax x hx

theorem next_rk_fit_ge (c : Cfg G P) (fl : Flavour) (oracle : St G P → List G) (s : St G P) :
    s.rk.fit ≤ (c.next fl oracle s).rk.fit := by
  cases fl
  · exact update_fit_ge s.rk _
  · exact update_fit_ge s.rk _

theorem C02_best_monotone_aux (c : Cfg G P) (fl : Flavour) (init : List G) (oracle : St G P → List G) :
    (c.traj fl init oracle).Pairwise (fun a b => a.rk.fit ≤ b.rk.fit) :=
  trajFrom_pairwise c fl oracle (fun a b => a.rk.fit ≤ b.rk.fit)
    (fun _ _ _ h1 h2 => Int.le_trans h1 h2) (next_rk_fit_ge c fl oracle) _ _

theorem C02_elite_present_aux (c : Cfg G P) (fl : Flavour) (init : List G) (oracle : St G P → List G)
    (hpop : 0 < c.popSize) (hinit : init.length = c.popSize)
    (horacle : ∀ s, (oracle s).length = c.popSize) (hfloor : ∀ p, c.floor < c.fitOf p)
    (he : c.elitism = true) :
    ∀ s ∈ c.traj fl init oracle, ∃ b, s.rk.best = some b ∧ s.pop.getLast? = some b :=
  fun s hs => (traj_inv c fl init oracle hpop hinit horacle hfloor s hs).elite he

theorem C02_slot_consistent_aux (c : Cfg G P) (fl : Flavour) (init : List G) (oracle : St G P → List G)
    (hpop : 0 < c.popSize) (hinit : init.length = c.popSize)
    (horacle : ∀ s, (oracle s).length = c.popSize) (hfloor : ∀ p, c.floor < c.fitOf p) :
    ∀ s ∈ c.traj fl init oracle, s.pop.length = c.popSize ∧
      ∀ x ∈ s.pop, x.ph = c.g2p x.g ∧ x.fit = c.fitOf x.ph ∧ x ∈ s.log := by
  intro s hs
  have h := traj_inv c fl init oracle hpop hinit horacle hfloor s hs
  refine ⟨h.len, fun x hx => ?_⟩
  have hm := h.popmem x hx
  exact ⟨(h.logok x hm).1, (h.logok x hm).2, hm⟩

theorem C02_record_dominates_aux (c : Cfg G P) (fl : Flavour) (init : List G) (oracle : St G P → List G)
    (hpop : 0 < c.popSize) (hinit : init.length = c.popSize)
    (horacle : ∀ s, (oracle s).length = c.popSize) (hfloor : ∀ p, c.floor < c.fitOf p) :
    ∀ s ∈ c.traj fl init oracle,
      (∀ x ∈ s.pop, x.fit ≤ s.rk.fit) ∧ (∀ b, s.rk.best = some b → b.fit = s.rk.fit) := by
  intro s hs
  have h := traj_inv c fl init oracle hpop hinit horacle hfloor s hs
  refine ⟨fun x hx => h.logmax x (h.popmem x hx), fun b hb => ?_⟩
  obtain ⟨b', hb', hbf, _⟩ := h.best
  rw [hb] at hb'; cases hb'; exact hbf


/-! ## C02 slot monotonicity (greedy flavour) -/

theorem slot_aux (c : Cfg G P) (r : Rec G P) (ps ts : List (Ind G P)) (hlen : ts.length = ps.length)
    (hbest : ∀ b, r.best = some b → b.fit = r.fit) (M Q : List (Ind G P))
    (hM : M = merge ps ts) (hQ : Q = recPop c (r.update M) M) :
    Q.length = ps.length ∧
    ∀ i (hi : i < ps.length) (hi' : i < Q.length),
      ps[i].fit ≤ Q[i].fit ∧
      (Q[i] = ps[i] ∨
       (∃ hg : i < ts.length, Q[i] = ts[i] ∧ ps[i].fit ≤ ts[i].fit) ∨
       (c.elitism = true ∧ i + 1 = ps.length ∧ (r.update M).best = some Q[i])) := by
  have hMlen : M.length = ps.length := by rw [hM, merge_length]
  have hQlen : Q.length = ps.length := by rw [hQ, recPop_length, hMlen]
  refine ⟨hQlen, ?_⟩
  intro i hi hi'
  have hg : i < ts.length := by omega
  have hMi : i < M.length := by omega
  have hmi : M[i] = if ps[i].fit ≤ ts[i].fit then ts[i] else ps[i] := by
    have := merge_getElem? ps ts i _ _ (List.getElem?_eq_getElem hi) (List.getElem?_eq_getElem hg)
    rw [← hM, List.getElem?_eq_getElem hMi] at this
    exact Option.some.inj this
  have hmfit : ps[i].fit ≤ M[i].fit := by
    rw [hmi]; split <;> omega
  have hmcase : M[i] = ps[i] ∨ (M[i] = ts[i] ∧ ps[i].fit ≤ ts[i].fit) := by
    rw [hmi]; split
    · rename_i h; exact Or.inr ⟨rfl, h⟩
    · exact Or.inl rfl
  -- a slot of `Q` that is a slot of `M`
  have key : Q[i] = M[i] → ps[i].fit ≤ Q[i].fit ∧
      (Q[i] = ps[i] ∨
       (∃ hg : i < ts.length, Q[i] = ts[i] ∧ ps[i].fit ≤ ts[i].fit) ∨
       (c.elitism = true ∧ i + 1 = ps.length ∧ (r.update M).best = some Q[i])) := by
    intro e
    rw [e]
    refine ⟨hmfit, ?_⟩
    rcases hmcase with h | ⟨h1, h2⟩
    · exact Or.inl h
    · exact Or.inr (Or.inl ⟨hg, h1, h2⟩)
  rcases recPop_cases c (r.update M) M with ⟨he, b, hb, h⟩ | h
  · by_cases hlast : i + 1 = ps.length
    · have e : Q[i] = b := by
        have h2 : Q[i]? = some b := by
          rw [hQ, h]; exact setLast_getElem?_last M b i (by omega)
        rw [List.getElem?_eq_getElem hi'] at h2
        exact Option.some.inj h2
      have hbf : b.fit = (r.update M).fit := update_best_fit r M hbest b hb
      have hle : M[i].fit ≤ (r.update M).fit := update_fit_ge_pop r M _ (List.getElem_mem hMi)
      rw [e]
      exact ⟨by omega, Or.inr (Or.inr ⟨he, hlast, hb⟩)⟩
    · apply key
      have h2 : Q[i]? = M[i]? := by
        rw [hQ, h]; exact setLast_getElem?_lt M b i (by omega)
      rw [List.getElem?_eq_getElem hi', List.getElem?_eq_getElem hMi] at h2
      exact Option.some.inj h2
  · apply key
    have h2 : Q[i]? = M[i]? := by rw [hQ, h]
    rw [List.getElem?_eq_getElem hi', List.getElem?_eq_getElem hMi] at h2
    exact Option.some.inj h2

theorem C02_slot_monotone_aux (c : Cfg G P) (s : St G P) (gs : List G)
    (hl : gs.length = s.pop.length)
    (_hrk : ∀ x ∈ s.pop, x.fit ≤ s.rk.fit) (hbest : ∀ b, s.rk.best = some b → b.fit = s.rk.fit) :
    let s' := c.stepGreedy s gs
    s'.pop.length = s.pop.length ∧
    ∀ i (hi : i < s.pop.length) (hi' : i < s'.pop.length),
      s.pop[i].fit ≤ s'.pop[i].fit ∧
      (s'.pop[i] = s.pop[i] ∨
       (∃ hg : i < (c.eval gs).length, s'.pop[i] = (c.eval gs)[i] ∧ s.pop[i].fit ≤ (c.eval gs)[i].fit) ∨
       (c.elitism = true ∧ i + 1 = s.pop.length ∧ s'.rk.best = some s'.pop[i])) :=
  slot_aux c s.rk s.pop (c.eval gs) (by rw [eval_length, hl]) hbest _ _ rfl rfl

/-! ## C03 accounting -/

theorem next_gens (c : Cfg G P) (fl : Flavour) (oracle : St G P → List G) (s : St G P) :
    (c.next fl oracle s).gens = s.gens + 1 := by
  cases fl <;> rfl

theorem next_callbacks (c : Cfg G P) (fl : Flavour) (oracle : St G P → List G) (s : St G P) :
    (c.next fl oracle s).callbacks = s.callbacks + 1 := by
  cases fl <;> rfl

theorem next_calls (c : Cfg G P) (fl : Flavour) (oracle : St G P → List G)
    (horacle : ∀ s, (oracle s).length = c.popSize) (s : St G P) :
    (c.next fl oracle s).calls = s.calls + c.popSize := by
  cases fl
  · show s.calls + (c.eval (oracle s)).length = _
    rw [eval_length, horacle]
  · show s.calls + (c.eval (oracle s)).length = _
    rw [eval_length, horacle]

theorem next_log_length (c : Cfg G P) (fl : Flavour) (oracle : St G P → List G)
    (horacle : ∀ s, (oracle s).length = c.popSize) (s : St G P) :
    (c.next fl oracle s).log.length = s.log.length + c.popSize := by
  cases fl
  · show (s.log ++ c.eval (oracle s)).length = _
    rw [List.length_append, eval_length, horacle]
  · show (s.log ++ c.eval (oracle s)).length = _
    rw [List.length_append, eval_length, horacle]

theorem C03_calls_aux (c : Cfg G P) (fl : Flavour) (init : List G) (oracle : St G P → List G)
    (_hpop : 0 < c.popSize) (hinit : init.length = c.popSize)
    (horacle : ∀ s, (oracle s).length = c.popSize) :
    (c.traj fl init oracle).length ≤ max c.iters 1 ∧
    ∀ k (hk : k < (c.traj fl init oracle).length),
      let s := (c.traj fl init oracle)[k]
      s.gens = k + 1 ∧ s.calls = (k + 1) * c.popSize ∧ s.log.length = s.calls ∧ s.callbacks = k ∧
      c.remains s = (c.iters * c.popSize : Nat) - ((k + 1) * c.popSize : Nat) := by
  constructor
  · have := trajFrom_length_le c fl oracle (c.iters - 1) (c.first init)
    show (c.trajFrom fl oracle (c.iters - 1) (c.first init)).length ≤ _
    omega
  · intro k hk s
    have hJ := trajFrom_index c fl oracle
      (fun j s => s.gens = j + 1 ∧ s.calls = (j + 1) * c.popSize ∧ s.log.length = s.calls ∧
        s.callbacks = j)
      (by
        intro j s ⟨h1, h2, h3, h4⟩
        refine ⟨?_, ?_, ?_, ?_⟩
        · rw [next_gens, h1]
        · rw [next_calls c fl oracle horacle, h2, Nat.succ_mul (j + 1)]
        · rw [next_log_length c fl oracle horacle, next_calls c fl oracle horacle, h3]
        · rw [next_callbacks, h4])
      (c.iters - 1) (c.first init) 0
      (by
        refine ⟨rfl, ?_, ?_, rfl⟩
        · show 0 + (c.eval init).length = _
          rw [eval_length, hinit]; omega
        · show ([] ++ c.eval init).length = 0 + (c.eval init).length
          simp)
      k s (List.getElem?_eq_getElem hk)
    simp only [Nat.zero_add] at hJ
    obtain ⟨h1, h2, h3, h4⟩ := hJ
    refine ⟨h1, h2, h3, h4, ?_⟩
    unfold Cfg.remains
    rw [h2, Nat.mul_comm c.popSize c.iters]

/-! ## C05 duality -/

/-- the maximisation problem with the negated objective -/
def Cfg.dual (c : Cfg G P) : Cfg G P :=
  { c with minimization := false, obj := fun p => - c.obj p }

theorem dual_fitOf (c : Cfg G P) (hmin : c.minimization = true) : c.dual.fitOf = c.fitOf := by
  funext p
  simp [Cfg.fitOf, Cfg.dual, hmin]

theorem dual_eval (c : Cfg G P) (hmin : c.minimization = true) (gs : List G) :
    c.dual.eval gs = c.eval gs := by
  simp only [Cfg.eval, dual_fitOf c hmin]
  rfl

theorem dual_step (c : Cfg G P) (hmin : c.minimization = true) (fl : Flavour) (s : St G P)
    (gs : List G) : c.dual.step fl s gs = c.step fl s gs := by
  cases fl
  · show c.dual.stepGen s gs = c.stepGen s gs
    unfold Cfg.stepGen
    rw [dual_eval c hmin]
    rfl
  · show c.dual.stepGreedy s gs = c.stepGreedy s gs
    unfold Cfg.stepGreedy
    rw [dual_eval c hmin]
    rfl

theorem dual_next (c : Cfg G P) (hmin : c.minimization = true) (fl : Flavour)
    (oracle : St G P → List G) (s : St G P) : c.dual.next fl oracle s = c.next fl oracle s := by
  unfold Cfg.next
  rw [dual_step c hmin]

theorem dual_trajFrom (c : Cfg G P) (hmin : c.minimization = true) (fl : Flavour)
    (oracle : St G P → List G) : ∀ n s, c.dual.trajFrom fl oracle n s = c.trajFrom fl oracle n s := by
  intro n
  induction n with
  | zero => intro s; rfl
  | succ n ih =>
    intro s
    rw [trajFrom_succ, trajFrom_succ, dual_next c hmin, ih]
    rfl

theorem C05_dual_aux (c : Cfg G P) (fl : Flavour) (init : List G) (oracle : St G P → List G)
    (hmin : c.minimization = true) :
    c.traj fl init oracle =
      ({ c with minimization := false, obj := fun p => - c.obj p } : Cfg G P).traj fl init oracle := by
  show c.traj fl init oracle = c.dual.traj fl init oracle
  unfold Cfg.traj
  rw [dual_trajFrom c hmin]
  have : c.dual.first init = c.first init := dual_step c hmin .gen (St.init c) init
  rw [this]
  rfl

/-! ## C17 history -/

theorem next_stats (c : Cfg G P) (fl : Flavour) (oracle : St G P → List G) (s : St G P) :
    ∃ pop, (c.next fl oracle s).stats =
      if c.keepHistory then s.stats ++ [{ pop := pop, maxInd := argmaxFirst pop }] else s.stats := by
  cases fl <;> exact ⟨_, rfl⟩

theorem first_stats (c : Cfg G P) (init : List G) :
    (c.first init).stats =
      if c.keepHistory then [{ pop := c.eval init, maxInd := argmaxFirst (c.eval init) }] else [] := by
  show (if c.keepHistory then [] ++ [_] else []) = _
  simp

theorem C17_history_aux (c : Cfg G P) (fl : Flavour) (init : List G) (oracle : St G P → List G) :
    (∀ s ∈ c.traj fl init oracle,
      s.stats.length = (if c.keepHistory then s.gens else 0) ∧
      ∀ e ∈ s.stats, e.maxInd = argmaxFirst e.pop) ∧
    (c.traj fl init oracle).Pairwise (fun a b => a.stats <+: b.stats) := by
  constructor
  · apply trajFrom_forall c fl oracle
      (fun s => s.stats.length = (if c.keepHistory then s.gens else 0) ∧
        ∀ e ∈ s.stats, e.maxInd = argmaxFirst e.pop)
    · intro s ⟨h1, h2⟩
      obtain ⟨pop, hst⟩ := next_stats c fl oracle s
      rw [hst, next_gens]
      cases hk : c.keepHistory
      · rw [hk] at h1
        simp only [Bool.false_eq_true, if_false] at h1 ⊢
        exact ⟨h1, h2⟩
      · simp only [hk, if_true] at h1
        refine ⟨by simp [h1], ?_⟩
        intro e he
        simp only [if_true, List.mem_append, List.mem_singleton] at he
        rcases he with he | rfl
        · exact h2 e he
        · rfl
    · rw [first_stats]
      have hg : (c.first init).gens = 1 := rfl
      rw [hg]
      cases hk : c.keepHistory <;> simp
  · apply trajFrom_pairwise c fl oracle (fun a b => a.stats <+: b.stats)
    · intro a b d h1 h2; exact List.IsPrefix.trans h1 h2
    · intro s
      obtain ⟨pop, hst⟩ := next_stats c fl oracle s
      show s.stats <+: (c.next fl oracle s).stats
      rw [hst]
      split
      · exact List.prefix_append _ _
      · exact List.prefix_refl _

theorem C17_first_entry_aux (c : Cfg G P) (fl : Flavour) (init : List G) (oracle : St G P → List G)
    (hk : c.keepHistory = true) :
    ∀ s ∈ c.traj fl init oracle, ∃ e, s.stats.head? = some e ∧ e.pop.map (·.g) = init := by
  apply trajFrom_forall c fl oracle
    (fun s => ∃ e, s.stats.head? = some e ∧ e.pop.map (·.g) = init)
  · intro s ⟨e, he, hinit⟩
    obtain ⟨pop, hst⟩ := next_stats c fl oracle s
    refine ⟨e, ?_, hinit⟩
    rw [hst, hk]
    simp [List.head?_append, he]
  · rw [first_stats, hk]
    exact ⟨_, rfl, eval_map_g c init⟩

end TFV.EA
