/-
  TFV.Lemmas.Estim — lemmas behind C18 (label coding, arg-max, sigmoid pair, reserved arguments).
-/
import TFV.Model.Estim

namespace TFV.Estim

/-! ### label coding -/

theorem mem_insertLabel (l x : Nat) (cs : List Nat) :
    x ∈ insertLabel l cs ↔ x = l ∨ x ∈ cs := by
  induction cs with
  | nil => simp [insertLabel]
  | cons c cs ih =>
    unfold insertLabel
    split
    · simp
    · split
      · subst l
        simp
      · simp only [List.mem_cons, ih]
        constructor
        · rintro (h | h | h) <;> simp [h]
        · rintro (h | h | h) <;> simp [h]

theorem sorted_insertLabel (l : Nat) (cs : List Nat) (h : cs.Pairwise (· < ·)) :
    (insertLabel l cs).Pairwise (· < ·) := by
  induction cs with
  | nil => simp [insertLabel]
  | cons c cs ih =>
    rw [List.pairwise_cons] at h
    unfold insertLabel
    split
    · rename_i hlc
      rw [List.pairwise_cons]
      refine ⟨?_, List.pairwise_cons.2 h⟩
      intro a ha
      rcases List.mem_cons.1 ha with rfl | ha
      · exact hlc
      · exact Nat.lt_trans hlc (h.1 a ha)
    · split
      · exact List.pairwise_cons.2 h
      · rename_i h1 h2
        rw [List.pairwise_cons]
        refine ⟨?_, ih h.2⟩
        intro a ha
        rcases (mem_insertLabel l a cs).1 ha with rfl | ha
        · omega
        · exact h.1 a ha

theorem classes_spec (y : List Nat) :
    (classes y).Pairwise (· < ·) ∧ (∀ l, l ∈ classes y ↔ l ∈ y) := by
  induction y with
  | nil => simp [classes]
  | cons a y ih =>
    have e : classes (a :: y) = insertLabel a (classes y) := rfl
    rw [e]
    refine ⟨sorted_insertLabel _ _ ih.1, ?_⟩
    intro l
    rw [mem_insertLabel, ih.2 l, List.mem_cons]

/-- in a strictly sorted list, the entry at position `i` is found at position `i` -/
theorem idxOf?_getElem_of_sorted (cs : List Nat) (h : cs.Pairwise (· < ·)) (i : Nat)
    (hi : i < cs.length) : cs.idxOf? cs[i] = some i := by
  rw [List.idxOf?_eq_some_iff]
  refine ⟨hi, rfl, ?_⟩
  intro j hj
  have := (List.pairwise_iff_getElem.1 h) j i (Nat.lt_trans hj hi) hi hj
  omega

/-- every member of a list has a code, and the code decodes to it -/
theorem encode_of_mem (cs : List Nat) (l : Nat) (hl : l ∈ cs) :
    ∃ i, encode cs l = some i ∧ i < cs.length ∧ decode cs i = some l := by
  unfold encode decode
  cases hx : cs.idxOf? l with
  | none => exact absurd hl (List.idxOf?_eq_none_iff.1 hx)
  | some i =>
    obtain ⟨hi, hv, -⟩ := List.idxOf?_eq_some_iff.1 hx
    exact ⟨i, rfl, hi, by rw [List.getElem?_eq_getElem hi, hv]⟩

/-- in a strictly sorted list every valid code decodes to a member that encodes back -/
theorem decode_of_lt (cs : List Nat) (h : cs.Pairwise (· < ·)) (i : Nat) (hi : i < cs.length) :
    ∃ l, decode cs i = some l ∧ l ∈ cs ∧ encode cs l = some i :=
  ⟨cs[i], by unfold decode; exact List.getElem?_eq_getElem hi, List.getElem_mem hi,
    idxOf?_getElem_of_sorted cs h i hi⟩

theorem label_roundtrip (y : List Nat) :
    (∀ l ∈ y, ∃ i, encode (classes y) l = some i ∧ i < (classes y).length ∧
      decode (classes y) i = some l) ∧
    (∀ i, i < (classes y).length → ∃ l, decode (classes y) i = some l ∧ l ∈ y ∧
      encode (classes y) l = some i) := by
  obtain ⟨hs, hm⟩ := classes_spec y
  constructor
  · intro l hl
    exact encode_of_mem _ l ((hm l).2 hl)
  · intro i hi
    obtain ⟨l, h1, h2, h3⟩ := decode_of_lt _ hs i hi
    exact ⟨l, h1, (hm l).1 h2, h3⟩

/-! ### arg-max -/

/-- `m` is the value at `r`, it bounds every entry, and strictly bounds every entry before `r` -/
def IsFirstMax (l : List Int) (m : Int) (r : Nat) : Prop :=
  l[r]? = some m ∧ (∀ x ∈ l, x ≤ m) ∧ ∀ j, j < r → ∀ v, l[j]? = some v → v < m

theorem argmaxAux_spec (xs : List Int) : ∀ (pre : List Int) (b : Int) (bi : Nat),
    IsFirstMax pre b bi → ∃ m, IsFirstMax (pre ++ xs) m (argmaxAux b bi pre.length xs) := by
  induction xs with
  | nil =>
    intro pre b bi h
    exact ⟨b, by simpa [argmaxAux] using h⟩
  | cons x xs ih =>
    intro pre b bi h
    obtain ⟨h1, h2, h3⟩ := h
    have hbi : bi < pre.length := by
      rcases Nat.lt_or_ge bi pre.length with hlt | hge
      · exact hlt
      · rw [List.getElem?_eq_none hge] at h1; cases h1
    have key : ∀ (b' : Int) (bi' : Nat), IsFirstMax (pre ++ [x]) b' bi' →
        ∃ m, IsFirstMax (pre ++ x :: xs) m (argmaxAux b' bi' (pre.length + 1) xs) := by
      intro b' bi' h'
      have := ih (pre ++ [x]) b' bi' h'
      simpa [List.append_assoc] using this
    unfold argmaxAux
    split
    · rename_i hbx
      apply key
      refine ⟨by simp, ?_, ?_⟩
      · intro a ha
        rcases List.mem_append.1 ha with ha | ha
        · have := h2 a ha; omega
        · simp at ha; omega
      · intro j hj v hv
        rw [List.getElem?_append_left hj] at hv
        have := h2 v (List.mem_of_getElem? hv)
        omega
    · rename_i hbx
      apply key
      refine ⟨by rw [List.getElem?_append_left hbi]; exact h1, ?_, ?_⟩
      · intro a ha
        rcases List.mem_append.1 ha with ha | ha
        · exact h2 a ha
        · simp at ha; omega
      · intro j hj v hv
        rw [List.getElem?_append_left (Nat.lt_trans hj hbi)] at hv
        exact h3 j hj v hv

theorem argmax_spec (row : List Int) (hne : row ≠ []) :
    argmax row < row.length ∧ (∀ x ∈ row, x ≤ row.getD (argmax row) 0) ∧
    (∀ j, j < argmax row → row.getD j 0 < row.getD (argmax row) 0) := by
  cases row with
  | nil => exact absurd rfl hne
  | cons x xs =>
    have h0 : IsFirstMax [x] x 0 := by
      refine ⟨rfl, ?_, ?_⟩
      · intro a ha; simp at ha; omega
      · intro j hj; omega
    obtain ⟨m, h1, h2, h3⟩ := argmaxAux_spec xs [x] x 0 h0
    have e : argmax (x :: xs) = argmaxAux x 0 1 xs := rfl
    rw [e]
    simp only [List.length_singleton, List.singleton_append] at h1 h2 h3
    have hlt : argmaxAux x 0 1 xs < (x :: xs).length := by
      rcases Nat.lt_or_ge (argmaxAux x 0 1 xs) (x :: xs).length with hlt | hge
      · exact hlt
      · rw [List.getElem?_eq_none hge] at h1; cases h1
    refine ⟨hlt, ?_, ?_⟩
    · intro a ha
      rw [List.getD_eq_getElem?_getD, h1]
      exact h2 a ha
    · intro j hj
      have hj' : j < (x :: xs).length := Nat.lt_trans hj hlt
      rw [List.getD_eq_getElem?_getD, List.getD_eq_getElem?_getD, h1,
        List.getElem?_eq_getElem hj']
      exact h3 j hj _ (List.getElem?_eq_getElem hj')

theorem predict_label (y : List Nat) (row : List Int) (hne : y ≠ [])
    (hl : row.length = (classes y).length) :
    ∃ l, predictLabel (classes y) row = some l ∧ l ∈ y ∧
      encode (classes y) l = some (argmax row) := by
  have hrow : row ≠ [] := by
    intro h
    subst h
    cases y with
    | nil => exact hne rfl
    | cons a y =>
      have : a ∈ classes (a :: y) := ((classes_spec (a :: y)).2 a).2 (List.mem_cons_self)
      have hnil : classes (a :: y) = [] := List.eq_nil_of_length_eq_zero hl.symm
      rw [hnil] at this
      cases this
  have hlt := (argmax_spec row hrow).1
  rw [hl] at hlt
  exact (label_roundtrip y).2 _ hlt

/-! ### sigmoid pair -/

theorem pair_simplex (p : Rat) (h0 : 0 ≤ p) (h1 : p ≤ 1) :
    (∀ q ∈ pair p, 0 ≤ q ∧ q ≤ 1) ∧ (pair p).sum = 1 := by
  unfold pair
  constructor
  · intro q hq
    simp only [List.mem_cons, List.not_mem_nil, or_false] at hq
    rcases hq with rfl | rfl
    · constructor <;> grind
    · exact ⟨h0, h1⟩
  · simp only [List.sum_cons, List.sum_nil]
    grind

/-! ### reserved optimizer arguments -/

theorem checkArgs_spec (reserved args : List String) :
    (checkArgs reserved args = false ↔ ∃ a ∈ args, a ∈ reserved) ∧
    (checkArgs reserved args = true ↔ ∀ a ∈ args, a ∉ reserved) := by
  unfold checkArgs
  constructor
  · rw [List.all_eq_false]
    simp
  · rw [List.all_eq_true]
    simp

end TFV.Estim
