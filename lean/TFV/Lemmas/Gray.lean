/-
  TFV.Lemmas.Gray — proofs for C10 (binary / Gray grid coding).
-/
import TFV.Model.Gray
import Mathlib.Tactic.Linarith
import Mathlib.Tactic.FieldSimp
import Mathlib.Tactic.Ring
import Mathlib.Tactic.Positivity
import Mathlib.Data.Rat.Floor

namespace TFV.Gray

/-! ### bit strings ↔ integers -/

theorem b2n_le (b : Bool) : b2n b ≤ 1 := by cases b <;> simp [b2n]

theorem bitsToNat_nil : bitsToNat [] = 0 := rfl

theorem bitsToNat_snoc (bs : List Bool) (b : Bool) :
    bitsToNat (bs ++ [b]) = 2 * bitsToNat bs + b2n b := by
  simp [bitsToNat, List.foldl_append]

theorem natToBits_zero (n : Nat) : natToBits 0 n = [] := rfl

theorem natToBits_length (w n : Nat) : (natToBits w n).length = w := by
  simp [natToBits]

theorem natToBits_succ (w n : Nat) :
    natToBits (w + 1) n = natToBits w (n / 2) ++ [n.testBit 0] := by
  unfold natToBits
  rw [List.range_succ, List.map_append]
  congr 1
  · apply List.map_congr_left
    intro i hi
    have hi' : i < w := List.mem_range.mp hi
    have : w + 1 - 1 - i = (w - 1 - i) + 1 := by omega
    rw [this, Nat.testBit_succ]
  · simp

theorem b2n_testBit_zero (n : Nat) : b2n (n.testBit 0) = n % 2 := by
  rw [Nat.testBit_zero]
  rcases Nat.mod_two_eq_zero_or_one n with h | h <;> simp [h, b2n]

theorem bits_roundtrip (w n : Nat) (h : n < 2 ^ w) : bitsToNat (natToBits w n) = n := by
  induction w generalizing n with
  | zero =>
    have : n = 0 := by simpa using h
    subst this; rfl
  | succ w ih =>
    rw [natToBits_succ, bitsToNat_snoc, ih (n / 2) (by rw [Nat.pow_succ] at h; omega),
      b2n_testBit_zero]
    omega

theorem testBit_zero_two_mul_add (m : Nat) (b : Bool) : (2 * m + b2n b).testBit 0 = b := by
  rw [Nat.testBit_zero]
  cases b <;> simp [b2n]

theorem two_mul_add_b2n_div (m : Nat) (b : Bool) : (2 * m + b2n b) / 2 = m := by
  have := b2n_le b
  omega

theorem bits_roundtrip' (b : List Bool) : natToBits b.length (bitsToNat b) = b := by
  induction b using List.reverseRecOn with
  | nil => rfl
  | append_singleton bs x ih =>
    rw [List.length_append, List.length_singleton, natToBits_succ, bitsToNat_snoc,
      two_mul_add_b2n_div, testBit_zero_two_mul_add, ih]

theorem bits_lt (b : List Bool) : bitsToNat b < 2 ^ b.length := by
  induction b using List.reverseRecOn with
  | nil => simp [bitsToNat]
  | append_singleton bs x ih =>
    rw [List.length_append, List.length_singleton, bitsToNat_snoc, Nat.pow_succ]
    have := b2n_le x
    omega

/-! ### Gray code -/

theorem grayToBinAux_binToGrayAux (acc : Bool) (b : List Bool) :
    grayToBinAux acc (binToGrayAux acc b) = b := by
  induction b generalizing acc with
  | nil => rfl
  | cons x xs ih =>
    simp only [binToGrayAux, grayToBinAux]
    have : (acc ^^ (acc ^^ x)) = x := by cases acc <;> cases x <;> rfl
    rw [this, ih]

theorem binToGrayAux_grayToBinAux (acc : Bool) (g : List Bool) :
    binToGrayAux acc (grayToBinAux acc g) = g := by
  induction g generalizing acc with
  | nil => rfl
  | cons x xs ih =>
    simp only [binToGrayAux, grayToBinAux]
    have : (acc ^^ (acc ^^ x)) = x := by cases acc <;> cases x <;> rfl
    rw [this, ih]

theorem binToGrayAux_length (acc : Bool) (b : List Bool) :
    (binToGrayAux acc b).length = b.length := by
  induction b generalizing acc with
  | nil => rfl
  | cons x xs ih => simp [binToGrayAux, ih]

theorem grayToBinAux_length (acc : Bool) (g : List Bool) :
    (grayToBinAux acc g).length = g.length := by
  induction g generalizing acc with
  | nil => rfl
  | cons x xs ih => simp [grayToBinAux, ih]

theorem binToGray_length (b : List Bool) : (binToGray b).length = b.length :=
  binToGrayAux_length false b

theorem grayToBin_length (b : List Bool) : (grayToBin b).length = b.length :=
  grayToBinAux_length false b

theorem grayToBin_binToGray (b : List Bool) : grayToBin (binToGray b) = b :=
  grayToBinAux_binToGrayAux false b

theorem binToGray_grayToBin (b : List Bool) : binToGray (grayToBin b) = b :=
  binToGrayAux_grayToBinAux false b

theorem gray_roundtrip (b : List Bool) :
    grayToBin (binToGray b) = b ∧ binToGray (grayToBin b) = b ∧
    (binToGray b).length = b.length ∧ (grayToBin b).length = b.length :=
  ⟨grayToBin_binToGray b, binToGray_grayToBin b, binToGray_length b, grayToBin_length b⟩

/-! ### lengths -/

theorem encode_length (v : Var) (gray : Bool) (x : Rat) : (v.encode gray x).length = v.bits := by
  unfold Var.encode
  cases gray <;> simp [binToGray_length, natToBits_length]

theorem inverse_length (vars : List Var) (gray : Bool) (xs : List Rat)
    (hl : xs.length = vars.length) :
    (inverse vars gray xs).length = (vars.map (·.bits)).sum := by
  unfold inverse
  induction vars generalizing xs with
  | nil => simp
  | cons v vs ih =>
    cases xs with
    | nil => simp at hl
    | cons x xs =>
      simp only [List.zip_cons_cons, List.map_cons, List.flatten_cons, List.length_append,
        List.sum_cons, encode_length]
      rw [ih xs (by simpa using hl)]

/-! ### the grid -/

theorem two_le_pow (n : Nat) (hn : 0 < n) : (2 : Rat) ≤ (2 : Rat) ^ n := by
  have h := pow_le_pow_right₀ (by norm_num : (1 : Rat) ≤ 2) (Nat.succ_le_of_lt hn)
  simpa using h

theorem denom_pos (v : Var) (hbits : 0 < v.bits) : (0 : Rat) < (2 : Rat) ^ v.bits - 1 := by
  have := two_le_pow v.bits hbits
  linarith

theorem h_pos (v : Var) (hlr : v.left < v.right) (hbits : 0 < v.bits) : 0 < v.h := by
  unfold Var.h
  exact div_pos (by linarith) (denom_pos v hbits)

theorem h_mul_denom (v : Var) (hbits : 0 < v.bits) :
    v.h * ((2 : Rat) ^ v.bits - 1) = v.right - v.left := by
  unfold Var.h
  exact div_mul_cancel₀ _ (ne_of_gt (denom_pos v hbits))

/-- the integer a bit string (binary or Gray) stands for -/
def code (gray : Bool) (bs : List Bool) : Nat := bitsToNat (if gray then grayToBin bs else bs)

theorem decode_eq (v : Var) (gray : Bool) (bs : List Bool) :
    v.decode gray bs = v.left + v.h * (code gray bs : Nat) := rfl

theorem code_lt (gray : Bool) (bs : List Bool) : code gray bs < 2 ^ bs.length := by
  unfold code
  cases gray
  · simpa using bits_lt bs
  · simpa [grayToBin_length] using bits_lt (grayToBin bs)

theorem natCast_le_denom (m w : Nat) (h : m < 2 ^ w) : (m : Rat) ≤ (2 : Rat) ^ w - 1 := by
  have h1 : m + 1 ≤ 2 ^ w := h
  have h2 : ((m + 1 : Nat) : Rat) ≤ ((2 ^ w : Nat) : Rat) := by exact_mod_cast h1
  push_cast at h2
  linarith

theorem grayToBinAux_replicate_false (n : Nat) :
    grayToBinAux false (List.replicate n false) = List.replicate n false := by
  induction n with
  | zero => rfl
  | succ n ih => simp [List.replicate_succ, grayToBinAux, ih]

theorem bitsToNat_replicate_false (n : Nat) : bitsToNat (List.replicate n false) = 0 := by
  induction n with
  | zero => rfl
  | succ n ih => rw [List.replicate_succ', bitsToNat_snoc, ih]; rfl

theorem bitsToNat_replicate_true (n : Nat) : bitsToNat (List.replicate n true) + 1 = 2 ^ n := by
  induction n with
  | zero => rfl
  | succ n ih =>
    rw [List.replicate_succ', bitsToNat_snoc, Nat.pow_succ]
    simp only [b2n, if_true]
    omega

theorem code_replicate_false (gray : Bool) (n : Nat) : code gray (List.replicate n false) = 0 := by
  unfold code
  cases gray
  · simpa using bitsToNat_replicate_false n
  · simp only [if_true, grayToBin, grayToBinAux_replicate_false, bitsToNat_replicate_false]

theorem endpoints (v : Var) (hlr : v.left < v.right) (hbits : 0 < v.bits) (gray : Bool) :
    v.decode gray (List.replicate v.bits false) = v.left ∧
    v.decode false (List.replicate v.bits true) = v.right ∧
    ∀ bs : List Bool, bs.length = v.bits →
      v.left ≤ v.decode gray bs ∧ v.decode gray bs ≤ v.right := by
  have hh := h_pos v hlr hbits
  have hd := h_mul_denom v hbits
  refine ⟨?_, ?_, ?_⟩
  · rw [decode_eq, code_replicate_false]; simp
  · rw [decode_eq]
    have h1 : ((code false (List.replicate v.bits true) : Nat) : Rat) = (2 : Rat) ^ v.bits - 1 := by
      have h2 := bitsToNat_replicate_true v.bits
      have h3 : ((bitsToNat (List.replicate v.bits true) + 1 : Nat) : Rat)
          = ((2 ^ v.bits : Nat) : Rat) := by rw [h2]
      push_cast at h3
      have : code false (List.replicate v.bits true) = bitsToNat (List.replicate v.bits true) := by
        simp [code]
      rw [this]
      linarith
    rw [h1, hd]; ring
  · intro bs hl
    rw [decode_eq]
    have h0 : (0 : Rat) ≤ (code gray bs : Nat) := Nat.cast_nonneg _
    have h1 : ((code gray bs : Nat) : Rat) ≤ (2 : Rat) ^ v.bits - 1 :=
      natCast_le_denom _ _ (hl ▸ code_lt gray bs)
    have h2 : v.h * ((code gray bs : Nat) : Rat) ≤ v.h * ((2 : Rat) ^ v.bits - 1) :=
      mul_le_mul_of_nonneg_left h1 (le_of_lt hh)
    have h3 : 0 ≤ v.h * ((code gray bs : Nat) : Rat) := mul_nonneg (le_of_lt hh) h0
    constructor <;> linarith

theorem bitsToNat_injective (a b : List Bool) (hl : a.length = b.length)
    (h : bitsToNat a = bitsToNat b) : a = b := by
  rw [← bits_roundtrip' a, ← bits_roundtrip' b, hl, h]

theorem code_injective (gray : Bool) (a b : List Bool) (hl : a.length = b.length)
    (h : code gray a = code gray b) : a = b := by
  unfold code at h
  cases gray
  · exact bitsToNat_injective a b hl (by simpa using h)
  · have h1 : grayToBin a = grayToBin b :=
      bitsToNat_injective _ _ (by simp [grayToBin_length, hl]) (by simpa using h)
    rw [← binToGray_grayToBin a, ← binToGray_grayToBin b, h1]

theorem decode_injective (v : Var) (hlr : v.left < v.right) (hbits : 0 < v.bits) (gray : Bool)
    (a b : List Bool) (ha : a.length = v.bits) (hb : b.length = v.bits) :
    v.decode gray a = v.decode gray b → a = b := by
  intro h
  rw [decode_eq, decode_eq] at h
  have hh := h_pos v hlr hbits
  have h1 : v.h * ((code gray a : Nat) : Rat) = v.h * ((code gray b : Nat) : Rat) := by linarith
  have h2 : ((code gray a : Nat) : Rat) = ((code gray b : Nat) : Rat) :=
    mul_left_cancel₀ (ne_of_gt hh) h1
  exact code_injective gray a b (ha.trans hb.symm) (by exact_mod_cast h2)

theorem rint_intCast (z : Int) : rint (z : Rat) = z := by
  unfold rint
  simp only [Rat.floor_intCast, sub_self]
  norm_num

theorem rint_natCast (n : Nat) : rint (n : Rat) = n := by
  have := rint_intCast (n : Int)
  simpa using this

theorem encode_code (gray : Bool) (bs : List Bool) :
    (if gray then binToGray (natToBits bs.length (code gray bs))
      else natToBits bs.length (code gray bs)) = bs := by
  unfold code
  cases gray
  · simpa using bits_roundtrip' bs
  · have := bits_roundtrip' (grayToBin bs)
    rw [grayToBin_length] at this
    simp only [if_true, this, binToGray_grayToBin]

theorem encode_decode (v : Var) (hlr : v.left < v.right) (hbits : 0 < v.bits) (gray : Bool)
    (bs : List Bool) (hl : bs.length = v.bits) :
    v.encode gray (v.decode gray bs) = bs := by
  have hh := h_pos v hlr hbits
  have hq : (v.decode gray bs - v.left) / v.h = ((code gray bs : Nat) : Rat) := by
    rw [decode_eq]
    field_simp
    ring
  unfold Var.encode
  simp only [hq, rint_natCast, Int.toNat_natCast]
  rw [← hl]
  exact encode_code gray bs

/-! ### rows -/

theorem row_roundtrip (vars : List Var) (h1 : ∀ v ∈ vars, v.left < v.right)
    (h2 : ∀ v ∈ vars, 0 < v.bits) (gray : Bool) (row : List Bool)
    (hl : row.length = (vars.map (·.bits)).sum) :
    inverse vars gray (transform vars gray row) = row := by
  induction vars generalizing row with
  | nil =>
    have : row = [] := List.length_eq_zero_iff.mp (by simpa using hl)
    subst this
    rfl
  | cons v vs ih =>
    simp only [List.map_cons, List.sum_cons] at hl
    have ht : (row.take v.bits).length = v.bits := by
      rw [List.length_take]; omega
    have hd : (row.drop v.bits).length = (vs.map (·.bits)).sum := by
      rw [List.length_drop]; omega
    have hv := encode_decode v (h1 v (List.mem_cons_self ..)) (h2 v (List.mem_cons_self ..)) gray
      (row.take v.bits) ht
    have hrest := ih (fun u hu => h1 u (List.mem_cons_of_mem _ hu))
      (fun u hu => h2 u (List.mem_cons_of_mem _ hu)) (row.drop v.bits) hd
    unfold inverse transform at *
    simp only [List.map_cons, splitBits, List.zip_cons_cons, List.flatten_cons, hv, hrest,
      List.take_append_drop]

/-! ### Gray adjacency -/

/-- last element of `prev :: bs` -/
def lastOr (prev : Bool) (bs : List Bool) : Bool := bs.foldl (fun _ b => b) prev

theorem lastOr_snoc (prev : Bool) (bs : List Bool) (b : Bool) : lastOr prev (bs ++ [b]) = b := by
  simp [lastOr, List.foldl_append]

theorem lastOr_cons (prev x : Bool) (bs : List Bool) : lastOr prev (x :: bs) = lastOr x bs := rfl

theorem binToGrayAux_snoc (prev : Bool) (bs : List Bool) (b : Bool) :
    binToGrayAux prev (bs ++ [b]) = binToGrayAux prev bs ++ [lastOr prev bs ^^ b] := by
  induction bs generalizing prev with
  | nil => rfl
  | cons x xs ih => simp [binToGrayAux, ih, lastOr_cons]

theorem hamming_self (a : List Bool) : hamming a a = 0 := by
  induction a with
  | nil => rfl
  | cons x xs ih => simp [hamming, ih]

theorem hamming_snoc (as bs : List Bool) (a b : Bool) (hl : as.length = bs.length) :
    hamming (as ++ [a]) (bs ++ [b]) = hamming as bs + (if a = b then 0 else 1) := by
  induction as generalizing bs with
  | nil =>
    cases bs with
    | nil => simp [hamming]
    | cons y ys => simp at hl
  | cons x xs ih =>
    cases bs with
    | nil => simp at hl
    | cons y ys =>
      simp only [List.cons_append, hamming, ih ys (by simpa using hl)]
      omega

theorem lastOr_natToBits (prev : Bool) (w n : Nat) (hw : 0 < w) :
    lastOr prev (natToBits w n) = n.testBit 0 := by
  obtain ⟨w', rfl⟩ : ∃ w', w = w' + 1 := ⟨w - 1, by omega⟩
  rw [natToBits_succ, lastOr_snoc]

theorem gray_adjacent (w n : Nat) (h : n + 1 < 2 ^ w) :
    hamming (binToGray (natToBits w n)) (binToGray (natToBits w (n + 1))) = 1 := by
  induction w generalizing n with
  | zero => simp at h
  | succ w ih =>
    unfold binToGray at *
    rw [natToBits_succ, natToBits_succ, binToGrayAux_snoc, binToGrayAux_snoc,
      hamming_snoc _ _ _ _ (by simp [binToGrayAux_length, natToBits_length])]
    rw [Nat.pow_succ] at h
    rcases Nat.mod_two_eq_zero_or_one n with hn | hn
    · -- n even: same high part, last bit flips
      have e : (n + 1) / 2 = n / 2 := by omega
      have t0 : n.testBit 0 = false := by rw [Nat.testBit_zero]; simp [hn]
      have t1 : (n + 1).testBit 0 = true := by
        rw [Nat.testBit_zero]; simp; omega
      rw [e, hamming_self, t0, t1]
      simp
    · -- n odd: high part increments, last Gray bit unchanged
      have e : (n + 1) / 2 = n / 2 + 1 := by omega
      have hlt : n / 2 + 1 < 2 ^ w := by omega
      have hw : 0 < w := by
        rcases Nat.eq_zero_or_pos w with h0 | h0
        · subst h0; simp at hlt
        · exact h0
      have t0 : n.testBit 0 = true := by rw [Nat.testBit_zero]; simp [hn]
      have t1 : (n + 1).testBit 0 = false := by
        rw [Nat.testBit_zero]; simp; omega
      rw [e, ih (n / 2) hlt, lastOr_natToBits _ _ _ hw, lastOr_natToBits _ _ _ hw, t0, t1]
      have : (n / 2).testBit 0 = !((n / 2 + 1).testBit 0) := by
        rw [Nat.testBit_zero, Nat.testBit_zero]
        rcases Nat.mod_two_eq_zero_or_one (n / 2) with hm | hm
        · have : (n / 2 + 1) % 2 = 1 := by omega
          simp [hm, this]
        · have : (n / 2 + 1) % 2 = 0 := by omega
          simp [hm, this]
      rw [this]
      cases (n / 2 + 1).testBit 0 <;> simp

/-! ### rounding -/

theorem rint_cases (q : Rat) :
    (rint q = q.floor ∧ q - (q.floor : Rat) ≤ 1 / 2) ∨
    (rint q = q.floor + 1 ∧ 1 / 2 ≤ q - (q.floor : Rat)) := by
  unfold rint
  simp only []
  by_cases h1 : q - (q.floor : Rat) < 1 / 2
  · left; rw [if_pos h1]; exact ⟨rfl, le_of_lt h1⟩
  · rw [if_neg h1]
    by_cases h2 : 1 / 2 < q - (q.floor : Rat)
    · right; rw [if_pos h2]; exact ⟨rfl, le_of_lt h2⟩
    · rw [if_neg h2]
      have he : q - (q.floor : Rat) = 1 / 2 := le_antisymm (not_lt.mp h2) (not_lt.mp h1)
      by_cases h3 : q.floor % 2 = 0
      · left; rw [if_pos h3]; exact ⟨rfl, le_of_eq he⟩
      · right; rw [if_neg h3]; exact ⟨rfl, le_of_eq he.symm⟩

theorem rint_close (q : Rat) : -(1 / 2) ≤ (rint q : Rat) - q ∧ (rint q : Rat) - q ≤ 1 / 2 := by
  have hf := Rat.floor_le q
  have hc := Rat.lt_floor_add_one q
  push_cast at hc
  rcases rint_cases q with ⟨e, h⟩ | ⟨e, h⟩
  · rw [e]; constructor <;> linarith
  · rw [e]; push_cast; constructor <;> linarith

theorem rint_nonneg (q : Rat) (hq : 0 ≤ q) : 0 ≤ rint q := by
  have hf : (0 : Int) ≤ q.floor := Rat.le_floor_iff.mpr (by simpa using hq)
  rcases rint_cases q with ⟨e, _⟩ | ⟨e, _⟩ <;> omega

theorem rint_le (q : Rat) (N : Int) (hq : q ≤ (N : Rat)) : rint q ≤ N := by
  by_cases hlt : q.floor < N
  · rcases rint_cases q with ⟨e, _⟩ | ⟨e, _⟩ <;> omega
  · have h1 : N ≤ q.floor := not_lt.mp hlt
    have h2 : (N : Rat) ≤ q := Rat.le_floor_iff.mp h1
    have h3 : q = (N : Rat) := le_antisymm hq h2
    rw [h3, rint_intCast]

theorem code_encode (gray : Bool) (w k : Nat) (hk : k < 2 ^ w) :
    code gray (if gray then binToGray (natToBits w k) else natToBits w k) = k := by
  unfold code
  cases gray
  · simpa using bits_roundtrip w k hk
  · simp only [if_true, grayToBin_binToGray]
    exact bits_roundtrip w k hk

theorem decode_encode_nearest (v : Var) (hlr : v.left < v.right) (hbits : 0 < v.bits) (gray : Bool)
    (x : Rat) (hx0 : v.left ≤ x) (hx1 : x ≤ v.right) :
    - (v.h / 2) ≤ v.decode gray (v.encode gray x) - x ∧
      v.decode gray (v.encode gray x) - x ≤ v.h / 2 := by
  have hh := h_pos v hlr hbits
  have hd := h_mul_denom v hbits
  -- the integer `2^bits - 1`
  obtain ⟨M, hM⟩ : ∃ M : Nat, M + 1 = 2 ^ v.bits := ⟨2 ^ v.bits - 1, by
    have := Nat.one_le_two_pow (n := v.bits); omega⟩
  have hMq : (M : Rat) = (2 : Rat) ^ v.bits - 1 := by
    have : ((M + 1 : Nat) : Rat) = ((2 ^ v.bits : Nat) : Rat) := by rw [hM]
    push_cast at this
    linarith
  -- the real index
  have hq0 : 0 ≤ (x - v.left) / v.h := div_nonneg (by linarith) (le_of_lt hh)
  have hq1 : (x - v.left) / v.h ≤ ((M : Int) : Rat) := by
    rw [div_le_iff₀ hh, Int.cast_natCast, hMq, mul_comm, hd]
    linarith
  have hxq : x = v.left + v.h * ((x - v.left) / v.h) := by
    field_simp
    ring
  generalize (x - v.left) / v.h = q at hq0 hq1 hxq
  have hk0 := rint_nonneg q hq0
  have hk1 := rint_le q M hq1
  have hclose := rint_close q
  have hkN : (((rint q).toNat : Nat) : Int) = rint q := Int.toNat_of_nonneg hk0
  have hklt : (rint q).toNat < 2 ^ v.bits := by omega
  have hdec : v.decode gray (v.encode gray x) = v.left + v.h * ((rint q : Int) : Rat) := by
    rw [decode_eq]
    have : v.encode gray x = (if gray then binToGray (natToBits v.bits (rint q).toNat)
        else natToBits v.bits (rint q).toNat) := by
      unfold Var.encode
      simp only []
      rw [hxq]
      have : (v.left + v.h * q - v.left) / v.h = q := by
        field_simp
        ring
      rw [this]
    rw [this, code_encode gray _ _ hklt]
    have : (((rint q).toNat : Nat) : Rat) = ((rint q : Int) : Rat) := by
      rw [← Int.cast_natCast, hkN]
    rw [this]
  rw [hdec]
  have e : v.left + v.h * ((rint q : Int) : Rat) - x = v.h * (((rint q : Int) : Rat) - q) := by
    rw [hxq]; ring
  rw [e]
  constructor
  · have := mul_le_mul_of_nonneg_left hclose.1 (le_of_lt hh)
    linarith
  · have := mul_le_mul_of_nonneg_left hclose.2 (le_of_lt hh)
    linarith

/-! ### bits from a step -/

theorem clog2Aux_spec (q : Rat) (fuel b : Nat) (h : q ≤ (2 : Rat) ^ (b + fuel)) :
    q ≤ (2 : Rat) ^ clog2Aux q fuel b := by
  induction fuel generalizing b with
  | zero => simpa [clog2Aux] using h
  | succ fuel ih =>
    unfold clog2Aux
    by_cases hb : q ≤ (2 : Rat) ^ b
    · rw [if_pos hb]; exact hb
    · rw [if_neg hb]
      exact ih (b + 1) (by rw [show b + 1 + fuel = b + (fuel + 1) by omega]; exact h)

theorem clog2_spec (q : Rat) : q ≤ (2 : Rat) ^ clog2 q := by
  unfold clog2
  apply clog2Aux_spec
  have h1 : q ≤ (q.ceil : Rat) := Rat.le_ceil
  have h2 : q.ceil ≤ ((q.ceil.toNat : Nat) : Int) := Int.self_le_toNat _
  have h3 : ((q.ceil : Int) : Rat) ≤ (((q.ceil.toNat : Nat) : Int) : Rat) := by exact_mod_cast h2
  have h4 : q.ceil.toNat + 1 ≤ 2 ^ (q.ceil.toNat + 1) := by
    have := Nat.lt_two_pow_self (n := q.ceil.toNat + 1); omega
  have h5 : ((q.ceil.toNat + 1 : Nat) : Rat) ≤ ((2 ^ (q.ceil.toNat + 1) : Nat) : Rat) := by
    exact_mod_cast h4
  push_cast at h5 h3
  rw [Nat.zero_add]
  linarith

theorem bitsFromH_spec (left right h : Rat) (_hlr : left < right) (hh : 0 < h)
    (hh' : h ≤ right - left) :
    let v : Var := { left := left, right := right, bits := bitsFromH left right h }
    0 < v.bits ∧ v.h ≤ h := by
  intro v
  have hq : (right - left) / h + 1 ≤ (2 : Rat) ^ bitsFromH left right h := clog2_spec _
  have h1 : 1 ≤ (right - left) / h := by
    rw [le_div_iff₀ hh]; linarith
  have hden : (0 : Rat) < (2 : Rat) ^ bitsFromH left right h - 1 := by linarith
  constructor
  · show 0 < bitsFromH left right h
    rcases Nat.eq_zero_or_pos (bitsFromH left right h) with h0 | h0
    · rw [h0] at hq; simp at hq; linarith
    · exact h0
  · show (right - left) / ((2 : Rat) ^ bitsFromH left right h - 1) ≤ h
    rw [div_le_iff₀ hden]
    have h2 : (right - left) / h ≤ (2 : Rat) ^ bitsFromH left right h - 1 := by linarith
    rw [div_le_iff₀ hh] at h2
    linarith

end TFV.Gray
