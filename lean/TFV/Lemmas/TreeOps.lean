/-
  TFV.Lemmas.TreeOps — closure of the GP operators (subtree / concat, standard crossover, the
  mutations, initialisation).  Lemmas behind the C08 theorems of TFV/Properties/Tree.lean.
-/
import TFV.Lemmas.TreeCore

namespace TFV.Tree

/-! ### replacing a subterm -/

theorem mem_flat_of_context {pre post : Flat} {t : RT} {n : Node} (h : n ∈ flat t) :
    n ∈ pre ++ flat t ++ post := by
  simp [h]

/-- plugging a consistent subterm into a well-formed context gives a well-formed list -/
theorem replace_wf (arity : Nat → Nat) (pre post : Flat) (t u : RT)
    (h : WF arity (pre ++ flat t ++ post)) (hu : ∀ n ∈ flat u, n.2 = arity n.1) :
    WF arity (pre ++ flat u ++ post) := by
  refine ⟨?_, ?_⟩
  · rw [wfAux_replace_flat pre post u t]; exact h.1
  · intro n hn
    simp only [List.mem_append] at hn
    rcases hn with (hn | hn) | hn
    · exact h.2 n (by simp [hn])
    · exact hu n hn
    · exact h.2 n (by simp [hn])

theorem subtree_wf (arity : Nat → Nat) (l : Flat) (h : WF arity l) (i : Nat) (hi : i < l.length) :
    WF arity (subtree l i) := by
  obtain ⟨pre, post, t, rfl, rfl⟩ := context l h.1 i hi
  rw [subtree_flat]
  exact ⟨wfAux_flat_self t, fun n hn => h.2 n (mem_flat_of_context hn)⟩

theorem concat_wf (arity : Nat → Nat) (l s : Flat) (h : WF arity l) (hs : WF arity s)
    (i : Nat) (hi : i < l.length) : WF arity (concat l i s) := by
  obtain ⟨pre, post, t, rfl, rfl⟩ := context l h.1 i hi
  obtain ⟨u, rfl⟩ := parse s hs.1
  rw [concat_flat]
  exact replace_wf arity pre post t u h hs.2

theorem depth_concat (l s : Flat) (h : wfAux 1 (arities l) = true) (hs : wfAux 1 (arities s) = true)
    (i : Nat) (hi : i < l.length) :
    depth (concat l i s) ≤ max (depth l) ((levels 0 (arities l)).getD i 0 + depth s) := by
  obtain ⟨pre, post, t, rfl, rfl⟩ := context l h i hi
  obtain ⟨u, rfl⟩ := parse s hs
  rw [concat_flat, depth_flat]
  exact depth_replace_le pre post t u h

/-- level of an index + depth of the subtree rooted there ≤ depth of the tree -/
theorem level_add_depth_subtree_le (l : Flat) (h : wfAux 1 (arities l) = true) (i : Nat)
    (hi : i < l.length) :
    (levels 0 (arities l)).getD i 0 + depth (subtree l i) ≤ depth l := by
  obtain ⟨pre, post, t, rfl, rfl⟩ := context l h i hi
  rw [subtree_flat, depth_flat]
  exact level_add_depth_le pre post t h

/-! ### standard crossover -/

theorem standardX_spec (arity : Nat → Nat) (a b : Flat) (ha : WF arity a) (hb : WF arity b)
    (p q : Nat) (hp : p < a.length) (hq : q < b.length) (coin : Bool) (L : Nat)
    (hda : depth a ≤ L) (hdb : depth b ≤ L) :
    let c := standardX a b p q coin L
    WF arity c ∧ depth c ≤ L ∧
    (c = a ∨ c = b ∨ c = concat b q (subtree a p) ∨ c = concat a p (subtree b q)) := by
  intro c
  cases coin
  · have hc : c = if depth (concat a p (subtree b q)) > L then a else concat a p (subtree b q) := by
      simp [c, standardX]
    by_cases hd : depth (concat a p (subtree b q)) > L
    · rw [if_pos hd] at hc
      rw [hc]; exact ⟨ha, hda, Or.inl rfl⟩
    · rw [if_neg hd] at hc
      rw [hc]
      exact ⟨concat_wf arity a _ ha (subtree_wf arity b hb q hq) p hp, by omega,
        Or.inr (Or.inr (Or.inr rfl))⟩
  · have hc : c = if depth (concat b q (subtree a p)) > L then b else concat b q (subtree a p) := by
      simp [c, standardX]
    by_cases hd : depth (concat b q (subtree a p)) > L
    · rw [if_pos hd] at hc
      rw [hc]; exact ⟨hb, hdb, Or.inr (Or.inl rfl)⟩
    · rw [if_neg hd] at hc
      rw [hc]
      exact ⟨concat_wf arity b _ hb (subtree_wf arity a ha p hp) q hq, by omega,
        Or.inr (Or.inr (Or.inl rfl))⟩

/-! ### point mutation -/

theorem arities_pointMut (l : Flat) (i newSym : Nat) :
    arities (pointMut l i newSym) = arities l := by
  unfold pointMut arities
  rw [List.map_set]
  apply List.ext_getElem
  · simp
  · intro j h1 h2
    rw [List.getElem_set]
    split
    · rename_i hij
      subst hij
      have hj : i < l.length := by simpa using h2
      simp [List.getD_eq_getElem?_getD, List.getElem?_eq_getElem hj]
    · rfl

theorem pointMut_spec (arity : Nat → Nat) (l : Flat) (h : WF arity l) (i : Nat) (_hi : i < l.length)
    (newSym : Nat) (hs : arity newSym = (l.getD i (0, 0)).2) :
    WF arity (pointMut l i newSym) ∧ arities (pointMut l i newSym) = arities l ∧
    depth (pointMut l i newSym) = depth l := by
  have har := arities_pointMut l i newSym
  refine ⟨⟨by rw [har]; exact h.1, ?_⟩, har, by unfold depth; rw [har]⟩
  intro n hn
  rcases List.mem_or_eq_of_mem_set hn with hn | rfl
  · exact h.2 n hn
  · exact hs.symm

/-! ### growing mutation -/

theorem growMut_spec (arity : Nat → Nat) (l g : Flat) (h : WF arity l) (hg : WF arity g)
    (i : Nat) (hi : i < l.length) (hd : depth g ≤ depth (subtree l i)) :
    WF arity (growMut l i g) ∧ depth (growMut l i g) ≤ depth l := by
  unfold growMut
  refine ⟨concat_wf arity l g h hg i hi, ?_⟩
  have h1 := depth_concat l g h.1 hg.1 i hi
  have h2 := level_add_depth_subtree_le l h.1 i hi
  omega

/-! ### the argument subtrees of a node -/

theorem sizeL_take_drop (ks : List RT) (k : Nat) (hk : k < ks.length) :
    sizeL ks = sizeL (ks.take k) + ks[k].size + sizeL (ks.drop (k + 1)) := by
  conv => lhs; rw [← List.take_append_drop k ks, List.drop_eq_getElem_cons hk]
  rw [sizeL_append, sizeL_cons]; omega

/-- the `k`-th kid of the node in the hole sits itself in a context -/
theorem kid_context (pre post : Flat) (s : Nat) (ks : List RT) (k : Nat) (hk : k < ks.length) :
    ∃ pre' post', pre ++ flat (.node s ks) ++ post = pre' ++ flat ks[k] ++ post' ∧
      pre'.length = pre.length + 1 + sizeL (ks.take k) := by
  refine ⟨pre ++ (s, ks.length) :: flatL (ks.take k), flatL (ks.drop (k + 1)) ++ post, ?_, ?_⟩
  · conv => lhs; rw [flat, ← List.take_append_drop k ks, List.drop_eq_getElem_cons hk]
    rw [flatL_append, flatL_cons]
    simp
  · simp [size_flatL]; omega

theorem argsIds_getD (pre post : Flat) (s : Nat) (ks : List RT) (k : Nat) (hk : k < ks.length) :
    (argsIds pre.length (arities (pre ++ flat (.node s ks) ++ post))).getD k 0 =
      pre.length + 1 + sizeL (ks.take k) := by
  rw [argsIds_flat]
  simp [List.getD_eq_getElem?_getD, hk]

theorem subtree_kid (pre post : Flat) (s : Nat) (ks : List RT) (k : Nat) (hk : k < ks.length) :
    subtree (pre ++ flat (.node s ks) ++ post)
      ((argsIds pre.length (arities (pre ++ flat (.node s ks) ++ post))).getD k 0) = flat ks[k] := by
  rw [argsIds_getD pre post s ks k hk]
  obtain ⟨pre', post', h1, h2⟩ := kid_context pre post s ks k hk
  rw [h1, ← h2, subtree_flat]

theorem take_succ_context (pre post : Flat) (s : Nat) (ks : List RT) :
    (pre ++ flat (.node s ks) ++ post).take (pre.length + 1) = pre ++ [(s, ks.length)] := by
  have e : pre ++ flat (.node s ks) ++ post = (pre ++ [(s, ks.length)]) ++ (flatL ks ++ post) := by
    simp [flat]
  rw [e, List.take_left']
  simp

theorem drop_endSub_context (pre post : Flat) (t : RT) :
    (pre ++ flat t ++ post).drop (endSub pre.length (arities (pre ++ flat t ++ post))) = post := by
  rw [endSub_flat, ← size_flat t]
  have : pre.length + (flat t).length = (pre ++ flat t).length := by simp
  rw [this, List.drop_left']
  rfl

/-! ### shrink mutation -/

theorem shrinkMut_spec (arity : Nat → Nat) (l : Flat) (h : WF arity l) (i : Nat) (hi : i < l.length)
    (k : Nat) (hk : k < (l.getD i (0, 0)).2) :
    WF arity (shrinkMut l i k) ∧ depth (shrinkMut l i k) ≤ depth l ∧
    (shrinkMut l i k).length < l.length := by
  obtain ⟨pre, post, t, rfl, rfl⟩ := context l h.1 i hi
  cases t with
  | node s ks =>
    rw [getD_context] at hk
    simp only [RT.kids] at hk
    unfold shrinkMut
    rw [subtree_kid pre post s ks k hk, concat_flat]
    obtain ⟨pre', post', h1, _⟩ := kid_context pre post s ks k hk
    refine ⟨replace_wf arity pre post _ _ h ?_, ?_, ?_⟩
    · intro n hn
      apply h.2 n
      rw [h1]; exact mem_flat_of_context hn
    · have h2 := depth_replace_le pre post (.node s ks) ks[k] h.1
      have h3 := level_add_depth_le pre post (.node s ks) h.1
      have h4 : ks[k].depth + 1 ≤ depthL ks := depth_lt_of_mem (List.getElem_mem hk)
      rw [RT.depth] at h3
      omega
    · have := sizeL_take_drop ks k hk
      simp only [List.length_append, size_flat, size_node]
      omega

/-! ### swap mutation -/

theorem map_getElem_range (ks : List RT) :
    (List.range ks.length).map (fun k => ks.getD k default) = ks := by
  apply List.ext_getElem
  · simp
  · intro j h1 h2
    simp [List.getD_eq_getElem?_getD, h2]

theorem swapMut_spec (arity : Nat → Nat) (l : Flat) (h : WF arity l) (i : Nat) (hi : i < l.length)
    (perm : List Nat) (hperm : perm.Perm (List.range (l.getD i (0, 0)).2)) :
    WF arity (swapMut l i perm) ∧ (swapMut l i perm).Perm l ∧ depth (swapMut l i perm) = depth l := by
  obtain ⟨pre, post, t, rfl, rfl⟩ := context l h.1 i hi
  cases t with
  | node s ks =>
    rw [getD_context] at hperm
    simp only [RT.kids] at hperm
    have hmem : ∀ k ∈ perm, k < ks.length := fun k hk => List.mem_range.1 (hperm.mem_iff.1 hk)
    have hkids : (perm.map fun k => ks.getD k default).Perm ks := by
      have := hperm.map (fun k => ks.getD k default)
      rwa [map_getElem_range] at this
    have hlen : (perm.map fun k => ks.getD k default).length = ks.length := hkids.length_eq
    -- the offspring is the same context around the node with permuted kids
    have hsw : swapMut (pre ++ flat (.node s ks) ++ post) pre.length perm =
        pre ++ flat (.node s (perm.map fun k => ks.getD k default)) ++ post := by
      have hmid : (perm.map fun k => subtree (pre ++ flat (.node s ks) ++ post)
            ((argsIds pre.length (arities (pre ++ flat (.node s ks) ++ post))).getD k 0)) =
          perm.map (flat ∘ fun k => ks.getD k default) := by
        apply List.map_congr_left
        intro k hk
        have hk' := hmem k hk
        rw [subtree_kid pre post s ks k hk']
        simp [List.getD_eq_getElem?_getD, hk']
      have hnode : flat (.node s (perm.map fun k => ks.getD k default)) =
          (s, ks.length) :: (perm.map (flat ∘ fun k => ks.getD k default)).flatten := by
        rw [flat, hlen, flatL_eq_flatMap, List.flatMap_def, List.map_map]
      unfold swapMut
      simp only []
      rw [take_succ_context, drop_endSub_context, hmid, hnode]
      simp
    rw [hsw]
    have hp : (pre ++ flat (.node s (perm.map fun k => ks.getD k default)) ++ post).Perm
        (pre ++ flat (.node s ks) ++ post) := by
      apply List.Perm.append_right
      apply List.Perm.append_left
      rw [flat, flat, hlen]
      apply List.Perm.cons
      rw [flatL_eq_flatMap, flatL_eq_flatMap]
      exact hkids.flatMap_right flat
    refine ⟨replace_wf arity pre post _ _ h ?_, hp, ?_⟩
    · intro n hn
      exact h.2 n (hp.mem_iff.1 (mem_flat_of_context hn))
    · apply depth_replace_eq pre post _ _ h.1
      rw [RT.depth, RT.depth]
      exact depthL_perm hkids

/-! ### initialisation -/

/-- the node written by one iteration of the growing loop -/
def growNode (maxLevel term lv : Nat) (ch : Node) : Node :=
  if lv = maxLevel ∧ ch.2 > 0 then (term, 0) else ch

theorem pushSt_eq_ite_pos (a lv : Nat) (st : List (Nat × Nat)) :
    (if a > 0 then (a, lv) :: st else st) = pushSt a lv st := by
  unfold pushSt
  by_cases ha : a = 0
  · simp [ha]
  · have : a > 0 := Nat.pos_of_ne_zero ha
    simp [ha, this]

theorem growAux_cons (L term c lv : Nat) (st : List (Nat × Nat)) (ch : Node) (rest : List Node)
    (acc : Flat) :
    growAux L term ((c, lv) :: st) (ch :: rest) acc =
      growAux L term (stepSt ((c, lv) :: st) (growNode L term lv ch).2) rest
        (growNode L term lv ch :: acc) := by
  rw [growAux]
  simp only [pushSt_eq_ite_pos, stepSt, growNode]
  rfl

theorem mem_pushSt {c lv : Nat} {st : List (Nat × Nat)} {e : Nat × Nat} (h : e ∈ pushSt c lv st) :
    (e = (c, lv) ∧ c ≠ 0) ∨ e ∈ st := by
  unfold pushSt at h
  split at h
  · exact Or.inr h
  · rcases List.mem_cons.1 h with rfl | h
    · exact Or.inl ⟨rfl, by assumption⟩
    · exact Or.inr h

theorem growAux_inv (arity : Nat → Nat) (L term : Nat) (hterm : arity term = 0)
    (choices : List Node) (st : List (Nat × Nat)) (acc l : Flat)
    (hch : ∀ ch ∈ choices, ch.2 = arity ch.1) (hg : GoodSt st) (hlv : ∀ e ∈ st, e.2 ≤ L)
    (h : growAux L term st choices acc = some l) :
    ∃ out, l = acc.reverse ++ out ∧ (∀ n ∈ out, n.2 = arity n.1) ∧
      wfAux (sumSt st) (arities out) = true ∧ ∀ x ∈ levelsAux st (arities out), x ≤ L := by
  induction choices generalizing st acc with
  | nil =>
    cases st with
    | nil =>
      simp only [growAux, Option.some.injEq] at h
      exact ⟨[], by simp [h], by simp, by simp [sumSt, wfAux], by simp⟩
    | cons e st => simp [growAux] at h
  | cons ch rest ih =>
    cases st with
    | nil =>
      simp only [growAux, Option.some.injEq] at h
      exact ⟨[], by simp [h], by simp, by simp [sumSt, wfAux], by simp⟩
    | cons e st =>
      obtain ⟨c, lv⟩ := e
      rw [growAux_cons] at h
      have hc : 0 < c := hg (c, lv) (by simp)
      have hlvL : lv ≤ L := hlv (c, lv) (by simp)
      have hnode : (growNode L term lv ch).2 = arity (growNode L term lv ch).1 := by
        unfold growNode
        split
        · simp [hterm]
        · exact hch ch (by simp)
      have hlv' : ∀ e ∈ stepSt ((c, lv) :: st) (growNode L term lv ch).2, e.2 ≤ L := by
        intro e he
        simp only [stepSt] at he
        rcases mem_pushSt he with ⟨rfl, hne⟩ | he
        · -- a function node is only written strictly above `maxLevel`
          have : lv ≠ L := by
            intro hEq
            apply hne
            unfold growNode
            by_cases h0 : ch.2 > 0
            · simp [hEq, h0]
            · simp [hEq, h0]; omega
          show lv + 1 ≤ L
          omega
        · rcases mem_pushSt he with ⟨rfl, _⟩ | he
          · exact hlvL
          · exact hlv e (List.mem_cons_of_mem _ he)
      obtain ⟨out, h1, h2, h3, h4⟩ := ih _ _ (fun x hx => hch x (List.mem_cons_of_mem _ hx))
        (goodSt_stepSt _ hg) hlv' h
      refine ⟨growNode L term lv ch :: out, by simp [h1], ?_, ?_, ?_⟩
      · intro n hn
        rcases List.mem_cons.1 hn with rfl | hn
        · exact hnode
        · exact h2 n hn
      · simp only [stepSt, sumSt_pushSt] at h3
        simp only [sumSt, arities_cons]
        obtain ⟨c, rfl⟩ : ∃ c', c = c' + 1 := ⟨c - 1, by omega⟩
        have e1 : c + 1 + sumSt st = (c + sumSt st) + 1 := by omega
        rw [e1, wfAux]
        have e2 : (growNode L term lv ch).2 + (c + 1 - 1 + sumSt st) =
            c + sumSt st + (growNode L term lv ch).2 := by omega
        rw [e2] at h3; exact h3
      · rw [arities_cons, levelsAux_step _ hg]
        intro x hx
        rcases List.mem_append.1 hx with hx | hx
        · simp at hx; omega
        · exact h4 x hx

theorem growInit_spec (arity : Nat → Nat) (L term : Nat) (choices : List Node) (l : Flat)
    (hch : ∀ ch ∈ choices, ch.2 = arity ch.1) (hterm : arity term = 0)
    (h : growInit L term choices = some l) :
    WF arity l ∧ depth l ≤ L := by
  unfold growInit at h
  have hg : GoodSt [(1, 0)] := by intro e he; simp at he; subst he; simp
  have hlv : ∀ e ∈ [((1 : Nat), (0 : Nat))], e.2 ≤ L := by intro e he; simp at he; subst he; simp
  obtain ⟨out, h1, h2, h3, h4⟩ := growAux_inv arity L term hterm choices _ _ l hch hg hlv h
  simp only [List.reverse_nil, List.nil_append] at h1
  subst h1
  refine ⟨⟨by simpa [sumSt] using h3, h2⟩, ?_⟩
  unfold depth levels
  rw [List.drop_zero, listMax_le_iff]
  exact h4

end TFV.Tree
