/-
  TFV.Lemmas.Net — proofs for C12 / C13 (see TFV/Properties/Net.lean).
-/
import TFV.Model.Net
import Mathlib.Algebra.BigOperators.Group.List.Basic
import Mathlib.Algebra.Order.Field.Rat
import Mathlib.Data.List.Sort
import Mathlib.Data.List.Induction
import Mathlib.Tactic.Linarith
import Mathlib.Tactic.FieldSimp

namespace TFV.Net

/-! ## finite-set lists -/

theorem mem_norm {x : Nat} {l : List Nat} : x ∈ norm l ↔ x ∈ l := by
  unfold norm
  rw [List.mem_eraseDups, (List.mergeSort_perm _ _).mem_iff]

theorem mem_union {x : Nat} {a b : List Nat} : x ∈ union a b ↔ x ∈ a ∨ x ∈ b := by
  simp [union, mem_norm]

theorem mem_diff {x : Nat} {a b : List Nat} : x ∈ diff a b ↔ x ∈ a ∧ x ∉ b := by
  simp [diff]

theorem subset_iff {a b : List Nat} : subset a b = true ↔ ∀ x ∈ a, x ∈ b := by
  simp [subset]

/-! ## softmax -/

theorem sum_pos_of_pos (l : List Rat) (h : ∀ y ∈ l, 0 < y) (hne : l ≠ []) : 0 < l.sum := by
  induction l with
  | nil => exact absurd rfl hne
  | cons a t ih =>
    rw [List.sum_cons]
    by_cases ht : t = []
    · subst ht; simpa using h a (by simp)
    · have := ih (fun y hy => h y (by simp [hy])) ht
      have := h a (by simp)
      linarith

theorem sum_map_div (e : Rat → Rat) (s : Rat) (l : List Rat) :
    (l.map fun z => e z / s).sum = (l.map e).sum / s := by
  induction l with
  | nil => simp
  | cons a t ih => simp [List.sum_cons, ih, add_div]

theorem softmax_simplex (e : Rat → Rat) (he : ∀ z, 0 < e z) (l : List Rat) (hne : l ≠ []) :
    let s := (l.map e).sum
    let out := l.map fun z => e z / s
    (∀ y ∈ out, 0 < y) ∧ out.sum = 1 := by
  intro s out
  have hs : 0 < s := sum_pos_of_pos _ (by simpa using fun a _ => he a) (by simpa using hne)
  refine ⟨?_, ?_⟩
  · intro y hy
    simp only [out, List.mem_map] at hy
    obtain ⟨z, _, rfl⟩ := hy
    exact div_pos (he z) hs
  · simp only [out]
    rw [sum_map_div, div_self (ne_of_gt hs)]


theorem pairwise_lt_eraseDups_aux (n : Nat) : ∀ l : List Nat, l.length ≤ n →
    l.Pairwise (· ≤ ·) → l.eraseDups.Pairwise (· < ·) := by
  induction n with
  | zero => intro l hl _; have : l = [] := List.length_eq_zero_iff.mp (by omega); subst this; simp
  | succ n ih =>
    intro l hl hp
    cases l with
    | nil => simp
    | cons a as =>
      rw [List.eraseDups_cons, List.pairwise_cons]
      rw [List.pairwise_cons] at hp
      refine ⟨?_, ih _ ?_ (hp.2.sublist List.filter_sublist)⟩
      · intro b hb
        rw [List.mem_eraseDups, List.mem_filter] at hb
        have h1 := hp.1 b hb.1
        have h2 : b ≠ a := by simpa using hb.2
        omega
      · have := List.length_filter_le (fun b => !b == a) as
        simp at hl; omega

theorem eraseDups_of_nodup_aux (n : Nat) : ∀ l : List Nat, l.length ≤ n → l.Nodup → l.eraseDups = l := by
  induction n with
  | zero => intro l hl _; have : l = [] := List.length_eq_zero_iff.mp (by omega); subst this; simp
  | succ n ih =>
    intro l hl hp
    cases l with
    | nil => simp
    | cons a as =>
      rw [List.nodup_cons] at hp
      have hf : as.filter (fun b => !b == a) = as := by
        rw [List.filter_eq_self]
        intro b hb
        have : b ≠ a := fun h => hp.1 (h ▸ hb)
        simpa using this
      rw [List.eraseDups_cons, hf, ih as (by simp at hl; omega) hp.2]

theorem eraseDups_of_nodup {l : List Nat} (h : l.Nodup) : l.eraseDups = l :=
  eraseDups_of_nodup_aux _ l (Nat.le_refl _) h

theorem norm_sorted (l : List Nat) : (norm l).Pairwise (· < ·) := by
  unfold norm
  apply pairwise_lt_eraseDups_aux _ _ (Nat.le_refl _)
  have := List.pairwise_mergeSort (le := fun a b : Nat => decide (a ≤ b))
    (by intro a b c; simp; omega) (by intro a b; simp; omega) l
  simpa using this

theorem norm_nodup (l : List Nat) : (norm l).Nodup :=
  (norm_sorted l).imp (fun h => Nat.ne_of_lt h)

theorem norm_of_sorted {l : List Nat} (h : l.Pairwise (· < ·)) : norm l = l := by
  unfold norm
  rw [List.mergeSort_of_pairwise (h.imp (by intro a b hab; simp; omega))]
  exact eraseDups_of_nodup (h.imp (fun h => Nat.ne_of_lt h))

theorem eq_of_sorted_of_mem_iff {a b : List Nat} (ha : a.Pairwise (· < ·)) (hb : b.Pairwise (· < ·))
    (h : ∀ x, x ∈ a ↔ x ∈ b) : a = b :=
  List.Subset.antisymm_of_pairwise ha hb (fun x hx => (h x).1 hx) (fun x hx => (h x).2 hx)

theorem norm_eq_of_mem_iff {a b : List Nat} (h : ∀ x, x ∈ a ↔ x ∈ b) : norm a = norm b :=
  eq_of_sorted_of_mem_iff (norm_sorted a) (norm_sorted b) (by simpa [mem_norm] using h)

theorem norm_norm (l : List Nat) : norm (norm l) = norm l := norm_of_sorted (norm_sorted l)


theorem softmax_split_counterexample :
    let n : Net := { inputs := [0, 1], outputs := [2, 3], conns := [(0, 2), (1, 3)], activs := [(2, 5), (3, 5)] }
    let sch : List Group := [⟨[0], [2], [[0]]⟩, ⟨[1], [3], [[1]]⟩]
    validSchedule n sch = true ∧ softmaxTogether n sch = false ∧
    ∀ (sm : List Rat → List Rat) (_ : ∀ z, sm [z] = [1]) (w : List Rat) (v : Nat → Rat),
      runSchedule n (fun _ z => z) sm w sch v 2 + runSchedule n (fun _ z => z) sm w sch v 3 = 2 := by
  intro n sch
  have hni : n.nonInputs = [2, 3] := by
    have h1 : n.hiddens = [] := by
      show norm [] = []
      exact norm_of_sorted List.Pairwise.nil
    show union n.hiddens [2, 3] = [2, 3]
    rw [h1]
    exact norm_of_sorted (l := [2, 3]) (by decide)
  refine ⟨?_, ?_, ?_⟩
  · unfold validSchedule; rw [hni]; decide
  · unfold softmaxTogether; rw [hni]; decide
  · intro sm h w v
    simp [runSchedule, runGroup, n, sch, Net.activ, h, preActGroup]
    norm_num


theorem sumR_eq_sum (l : List Rat) : sumR l = l.sum := rfl

theorem preAct_zip (n : Net) (w : List Rat) (hl : w.length = n.conns.length) (v : Nat → Rat) (t : Nat) :
    preAct n w v t = ((n.conns.zip w).map fun p => if p.1.2 == t then v p.1.1 * p.2 else 0).sum := by
  unfold preAct
  rw [sumR_eq_sum]
  congr 1
  apply List.ext_getElem
  · simp [hl]
  · intro i h1 h2
    simp at h1 h2
    simp [List.getD_eq_getElem?_getD, List.getElem?_eq_getElem (show i < w.length by omega)]

theorem conn_order (n : Net) (w : List Rat) (hl : w.length = n.conns.length)
    (cw' : List ((Nat × Nat) × Rat)) (hp : cw'.Perm (n.conns.zip w)) (v : Nat → Rat) (t : Nat) :
    preAct { n with conns := cw'.map (·.1) } (cw'.map (·.2)) v t = preAct n w v t := by
  rw [preAct_zip _ _ (by simp), preAct_zip n w hl]
  have hz : ∀ l : List ((Nat × Nat) × Rat), (l.map (·.1)).zip (l.map (·.2)) = l := by
    intro l
    induction l with
    | nil => rfl
    | cons a t ih => simpa using ih
  show ((((cw'.map (·.1)).zip (cw'.map (·.2)))).map _).sum = _
  rw [hz cw']
  exact (hp.map _).sum_eq


theorem eraseDups_length_aux {α : Type} [BEq α] [LawfulBEq α] (n : Nat) : ∀ l : List α, l.length ≤ n →
    l.eraseDups.length ≤ l.length ∧ (l.eraseDups.length = l.length → l.Nodup) := by
  induction n with
  | zero => intro l hl; have : l = [] := List.length_eq_zero_iff.mp (by omega); subst this; simp
  | succ n ih =>
    intro l hl
    cases l with
    | nil => simp
    | cons a as =>
      rw [List.eraseDups_cons]
      have hfl := List.length_filter_le (fun b => !b == a) as
      have ⟨h1, h2⟩ := ih (as.filter (fun b => !b == a)) (by simp at hl; omega)
      refine ⟨by simp; omega, ?_⟩
      intro h
      simp only [List.length_cons] at h
      have hfe : (as.filter (fun b => !b == a)).length = as.length := by omega
      have hall := List.length_filter_eq_length_iff.mp hfe
      have hf : as.filter (fun b => !b == a) = as := List.filter_eq_self.mpr hall
      rw [List.nodup_cons]
      refine ⟨?_, ?_⟩
      · intro ha
        have := hall a ha
        simp at this
      · have := h2 (by omega)
        rwa [hf] at this

theorem nodup_of_eraseDups_length {α : Type} [BEq α] [LawfulBEq α] {l : List α}
    (h : l.eraseDups.length = l.length) : l.Nodup :=
  (eraseDups_length_aux _ l (Nat.le_refl _)).2 h

theorem sum_map_ite_zero {β : Type} (p : β → Bool) (f : β → Rat) (l : List β) :
    (l.map fun x => if p x then f x else 0).sum = ((l.filter p).map f).sum := by
  induction l with
  | nil => rfl
  | cons a t ih =>
    by_cases h : p a <;> simp [h, ih]

/-- the facts packed in the `validSchedule` certificate -/
structure VS (n : Net) (sch : List Group) : Prop where
  once : ∀ t ∈ n.nonInputs, (sch.filter fun g => g.dsts.contains t).length = 1
  dnodup : ∀ g ∈ sch, g.dsts.Nodup
  wlen : ∀ g ∈ sch, g.wids.length = g.dsts.length
  dsub : ∀ g ∈ sch, ∀ t ∈ g.dsts, t ∈ n.nonInputs
  recs : ∀ g ∈ sch, ∀ j, j < g.dsts.length →
    (g.wids.getD j []).length = g.srcs.length ∧ (g.wids.getD j []).Nodup ∧
    (∀ p ∈ g.srcs.zip (g.wids.getD j []),
        n.conns.getD p.2 (0, 0) = (p.1, g.dsts.getD j 0) ∧ p.2 < n.conns.length) ∧
    (∀ i (h : i < n.conns.length), n.conns[i].2 = g.dsts.getD j 0 →
        (n.conns[i].1, i) ∈ g.srcs.zip (g.wids.getD j []))
  early : ∀ gi, gi < sch.length → ∀ s ∈ (sch.getD gi ⟨[], [], []⟩).srcs,
    s ∈ n.inputs ∨ ∃ g' ∈ sch.take gi, s ∈ g'.dsts

theorem VS_of_valid {n : Net} {sch : List Group} (hv : validSchedule n sch = true) : VS n sch := by
  unfold validSchedule at hv
  simp only [Bool.and_eq_true, List.all_eq_true, beq_iff_eq, decide_eq_true_eq] at hv
  obtain ⟨⟨⟨h1, h2⟩, h3⟩, h4⟩ := hv
  refine ⟨?_, ?_, ?_, ?_, ?_, ?_⟩
  · intro t ht; exact h1 t ht
  · intro g hg; exact nodup_of_eraseDups_length (h2 g hg).1.1
  · intro g hg; exact (h2 g hg).1.2
  · intro g hg t ht; simpa using (h2 g hg).2 t ht
  · intro g hg j hj
    have h := h3 g hg j (List.mem_range.mpr hj)
    obtain ⟨⟨⟨ha, hb⟩, hc⟩, hd⟩ := h
    have hms : (g.srcs.zip (g.wids.getD j [])).map (·.2) = g.wids.getD j [] :=
      List.map_snd_zip (by omega)
    refine ⟨ha, ?_, ?_, ?_⟩
    · rw [← hms]; apply nodup_of_eraseDups_length; rw [hb]; simp
    · exact hc
    · intro i hi hti
      have := hd (i, n.conns[i]) (by
        rw [List.mem_iff_getElem]
        exact ⟨i, by simpa using hi, by simp⟩)
      simpa [hti] using this
  · intro gi hgi s hs
    have := h4 gi (List.mem_range.mpr hgi) s hs
    simpa using this


theorem preAct_range (n : Net) (w : List Rat) (v : Nat → Rat) (t : Nat) :
    preAct n w v t = (((List.range n.conns.length).filter fun i => (n.conns.getD i (0, 0)).2 == t).map
      fun i => v (n.conns.getD i (0, 0)).1 * w.getD i 0).sum := by
  unfold preAct
  rw [sumR_eq_sum, ← sum_map_ite_zero]
  congr 1
  apply List.ext_getElem
  · simp
  · intro i h1 h2
    simp at h1 h2
    simp [List.getD_eq_getElem?_getD, List.getElem?_eq_getElem h1]

theorem preActGroup_eq_of_VS (n : Net) (sch : List Group) (hv : VS n sch)
    (w : List Rat) (v : Nat → Rat) (g : Group) (hg : g ∈ sch) (j : Nat) (hj : j < g.dsts.length) :
    preActGroup w v g j = preAct n w v (g.dsts.getD j 0) := by
  obtain ⟨hlen, hnd, hrec, hall⟩ := hv.recs g hg j hj
  rw [preAct_range]
  unfold preActGroup
  generalize g.wids.getD j [] = wj at *
  rw [sumR_eq_sum]
  have h1 : (g.srcs.zip wj).map (fun x => match x with | (s, wi) => v s * w.getD wi 0)
      = ((g.srcs.zip wj).map (·.2)).map
          (fun i => v (n.conns.getD i (0, 0)).1 * w.getD i 0) := by
    rw [List.map_map]
    apply List.map_congr_left
    intro p hp
    have := (hrec p hp).1
    obtain ⟨s, wi⟩ := p
    show v s * w.getD wi 0 = v (n.conns.getD wi (0, 0)).1 * w.getD wi 0
    rw [this]
  rw [h1, List.map_snd_zip (by omega)]
  apply List.Perm.sum_eq
  apply List.Perm.map
  rw [List.perm_ext_iff_of_nodup hnd (List.nodup_range.filter _)]
  intro i
  simp only [List.mem_filter, List.mem_range, beq_iff_eq]
  constructor
  · intro hi
    -- i ∈ wids_j, so (s, i) ∈ zip for some s
    obtain ⟨k, hk, rfl⟩ := List.mem_iff_getElem.mp hi
    have hks : k < g.srcs.length := by omega
    have hmem : (g.srcs[k], wj[k]) ∈ g.srcs.zip wj := by
      rw [List.mem_iff_getElem]
      exact ⟨k, by simp; omega, by simp⟩
    have := hrec _ hmem
    exact ⟨this.2, by rw [this.1]⟩
  · intro ⟨hi, ht⟩
    have := hall i hi (by simpa [List.getD_eq_getElem?_getD, List.getElem?_eq_getElem hi] using ht)
    exact (List.of_mem_zip this).2

theorem preActGroup_eq (n : Net) (sch : List Group) (hv : validSchedule n sch = true)
    (w : List Rat) (v : Nat → Rat) (g : Group) (hg : g ∈ sch) (j : Nat) (hj : j < g.dsts.length) :
    preActGroup w v g j = preAct n w v (g.dsts.getD j 0) :=
  preActGroup_eq_of_VS n sch (VS_of_valid hv) w v g hg j hj


/-- the `pre` list of `runGroup` -/
def preList (w : List Rat) (v : Nat → Rat) (g : Group) : List (Nat × Rat) :=
  (List.range g.dsts.length).map fun j => (g.dsts.getD j 0, preActGroup w v g j)

theorem preList_eq_map (w : List Rat) (v : Nat → Rat) (g : Group) (P : Nat → Rat)
    (hP : ∀ j, j < g.dsts.length → preActGroup w v g j = P (g.dsts.getD j 0)) :
    preList w v g = g.dsts.map fun t => (t, P t) := by
  unfold preList
  apply List.ext_getElem
  · simp
  · intro j h1 h2
    simp at h1 h2
    have := hP j h1
    simp only [List.getElem_map, List.getElem_range]
    rw [this]
    simp [List.getD_eq_getElem?_getD, List.getElem?_eq_getElem h1]

theorem find_zip_nodup {β : Type} : ∀ (ks : List Nat) (vals : List β), ks.Nodup → vals.length = ks.length →
    ∀ i (h1 : i < ks.length) (h2 : i < vals.length),
    (ks.zip vals).find? (fun q => q.1 == ks[i]) = some (ks[i], vals[i]) := by
  intro ks
  induction ks with
  | nil => intro vals _ _ i h1; simp at h1
  | cons k ks ih =>
    intro vals hnd hl i h1 h2
    cases vals with
    | nil => simp at h2
    | cons b vals =>
      cases i with
      | zero => simp
      | succ i =>
        rw [List.nodup_cons] at hnd
        have hi : i < ks.length := by simpa using h1
        have hne : ¬ (k = ks[i]) := fun h => hnd.1 (h ▸ List.getElem_mem _)
        simp only [List.zip_cons_cons, List.getElem_cons_succ]
        rw [List.find?_cons_of_neg (by simpa using hne)]
        exact ih vals hnd.2 (by simpa using hl) i _ _

/-- what one group step does, given the pre-activations `P` of its targets -/
theorem runGroup_spec (n : Net) (act : Nat → Rat → Rat) (softmax : List Rat → List Rat)
    (hlen : ∀ l, (softmax l).length = l.length) (w : List Rat) (v : Nat → Rat) (g : Group)
    (hnd : g.dsts.Nodup) (P : Nat → Rat)
    (hP : ∀ j, j < g.dsts.length → preActGroup w v g j = P (g.dsts.getD j 0)) :
    (∀ x, x ∉ g.dsts → runGroup n act softmax w v g x = v x) ∧
    (∀ x ∈ g.dsts, n.activ x ≠ 5 → runGroup n act softmax w v g x = act (n.activ x) (P x)) ∧
    ((g.dsts.filter fun t => n.activ t == 5).map (runGroup n act softmax w v g) =
      softmax ((g.dsts.filter fun t => n.activ t == 5).map P)) := by
  have hpre := preList_eq_map w v g P hP
  unfold preList at hpre
  have hfind : ∀ x ∈ g.dsts, (g.dsts.map fun t => (t, P t)).find? (fun p => p.1 == x) = some (x, P x) := by
    intro x hx
    rw [List.find?_map]
    have : g.dsts.find? ((fun p : Nat × Rat => p.1 == x) ∘ fun t => (t, P t)) = some x := by
      rw [List.find?_eq_some_iff_append]
      obtain ⟨s, t, hst⟩ := List.append_of_mem hx
      refine ⟨by simp, s, t, hst, ?_⟩
      intro a ha
      have : a ≠ x := by
        intro hax; subst hax
        rw [hst] at hnd
        have := List.nodup_append.mp hnd
        exact this.2.2 a ha a (by simp) rfl
      simpa using this
    rw [this]; rfl
  refine ⟨?_, ?_, ?_⟩
  · intro x hx
    unfold runGroup
    simp only [hpre]
    have : (g.dsts.map fun t => (t, P t)).find? (fun p => p.1 == x) = none := by
      rw [List.find?_eq_none]
      intro p hp
      simp only [List.mem_map] at hp
      obtain ⟨t, ht, rfl⟩ := hp
      have : t ≠ x := fun h => hx (h ▸ ht)
      simpa using this
    rw [this]
  · intro x hx h5
    unfold runGroup
    simp only [hpre, hfind x hx]
    have : (n.activ x == 5) = false := by simpa using h5
    simp [this]
  · set sm := g.dsts.filter fun t => n.activ t == 5 with hsm
    have hsmnd : sm.Nodup := hnd.sublist List.filter_sublist
    have hfil : (g.dsts.map fun t => (t, P t)).filter (fun p => n.activ p.1 == 5) = sm.map fun t => (t, P t) := by
      rw [List.filter_map]; rfl
    apply List.ext_getElem
    · simp [hlen]
    · intro i h1 h2
      simp only [List.length_map] at h1
      have hx : sm[i] ∈ g.dsts := (List.mem_filter.mp (List.getElem_mem h1)).1
      have h5 : n.activ sm[i] = 5 := by simpa using (List.mem_filter.mp (List.getElem_mem h1)).2
      rw [List.getElem_map]
      unfold runGroup
      simp only [hpre, hfind _ hx, hfil, List.map_map]
      have e1 : ((fun x : Nat × Rat => x.1) ∘ fun t => (t, P t)) = id := rfl
      have e2 : ((fun x : Nat × Rat => x.2) ∘ fun t => (t, P t)) = P := rfl
      rw [e1, e2, List.map_id]
      have hl2 : (softmax (sm.map P)).length = sm.length := by rw [hlen]; simp
      rw [find_zip_nodup sm (softmax (sm.map P)) hsmnd hl2 i h1 (by omega)]
      simp [h5]


theorem preActGroup_congr (w : List Rat) (v v' : Nat → Rat) (g : Group) (j : Nat)
    (h : ∀ s ∈ g.srcs, v s = v' s) : preActGroup w v g j = preActGroup w v' g j := by
  unfold preActGroup
  congr 1
  apply List.map_congr_left
  intro p hp
  obtain ⟨s, wi⟩ := p
  show v s * _ = v' s * _
  rw [h s (List.of_mem_zip hp).1]

theorem runGroup_not_mem (n : Net) (act : Nat → Rat → Rat) (softmax : List Rat → List Rat)
    (w : List Rat) (v : Nat → Rat) (g : Group) (x : Nat) (hx : x ∉ g.dsts) :
    runGroup n act softmax w v g x = v x := by
  unfold runGroup
  have : ((List.range g.dsts.length).map fun j => (g.dsts.getD j 0, preActGroup w v g j)).find?
      (fun p => p.1 == x) = none := by
    rw [List.find?_eq_none]
    intro p hp
    simp only [List.mem_map, List.mem_range] at hp
    obtain ⟨j, hj, rfl⟩ := hp
    have : g.dsts.getD j 0 ≠ x := by
      intro h
      apply hx
      rw [← h, List.getD_eq_getElem?_getD, List.getElem?_eq_getElem hj]
      exact List.getElem_mem hj
    simpa using this
  simp only [this]

theorem runGroup_congr (n : Net) (act : Nat → Rat → Rat) (softmax : List Rat → List Rat)
    (w : List Rat) (v v' : Nat → Rat) (g : Group) (h : ∀ s ∈ g.srcs, v s = v' s)
    (x : Nat) (hx : x ∈ g.dsts) :
    runGroup n act softmax w v g x = runGroup n act softmax w v' g x := by
  have hpre : ((List.range g.dsts.length).map fun j => (g.dsts.getD j 0, preActGroup w v g j)) =
      ((List.range g.dsts.length).map fun j => (g.dsts.getD j 0, preActGroup w v' g j)) := by
    apply List.map_congr_left
    intro j _
    rw [preActGroup_congr w v v' g j h]
  unfold runGroup
  simp only [hpre]
  cases hf : ((List.range g.dsts.length).map fun j => (g.dsts.getD j 0, preActGroup w v' g j)).find?
      (fun p => p.1 == x) with
  | some p => rfl
  | none =>
    exfalso
    rw [List.find?_eq_none] at hf
    obtain ⟨j, hj, rfl⟩ := List.mem_iff_getElem.mp hx
    have := hf (g.dsts.getD j 0, preActGroup w v' g j) (by
      simp only [List.mem_map, List.mem_range]; exact ⟨j, hj, rfl⟩)
    simp [List.getD_eq_getElem?_getD, List.getElem?_eq_getElem hj] at this

theorem runSchedule_append (n : Net) (act : Nat → Rat → Rat) (softmax : List Rat → List Rat)
    (w : List Rat) (l1 l2 : List Group) (v : Nat → Rat) :
    runSchedule n act softmax w (l1 ++ l2) v = runSchedule n act softmax w l2 (runSchedule n act softmax w l1 v) := by
  simp [runSchedule, List.foldl_append]

theorem runSchedule_cons (n : Net) (act : Nat → Rat → Rat) (softmax : List Rat → List Rat)
    (w : List Rat) (g : Group) (l : List Group) (v : Nat → Rat) :
    runSchedule n act softmax w (g :: l) v = runSchedule n act softmax w l (runGroup n act softmax w v g) := rfl

theorem runSchedule_stable (n : Net) (act : Nat → Rat → Rat) (softmax : List Rat → List Rat)
    (w : List Rat) (l : List Group) (x : Nat) (hx : ∀ g ∈ l, x ∉ g.dsts) (v : Nat → Rat) :
    runSchedule n act softmax w l v x = v x := by
  induction l generalizing v with
  | nil => rfl
  | cons g l ih =>
    rw [runSchedule_cons, ih (fun g' hg' => hx g' (by simp [hg'])),
      runGroup_not_mem _ _ _ _ _ _ _ (hx g (by simp))]

/-- the schedule facts in "decomposition" form -/
theorem VS.split {n : Net} {sch : List Group} (hv : VS n sch) {pre post : List Group} {g : Group}
    (hd : sch = pre ++ g :: post) :
    (∀ t ∈ g.dsts, (∀ g' ∈ pre, t ∉ g'.dsts) ∧ (∀ g' ∈ post, t ∉ g'.dsts)) ∧
    (∀ s ∈ g.srcs, s ∈ n.inputs ∨ ∃ g' ∈ pre, s ∈ g'.dsts) := by
  have hg : g ∈ sch := by rw [hd]; simp
  refine ⟨?_, ?_⟩
  · intro t ht
    have h1 := hv.once t (hv.dsub g hg t ht)
    rw [hd, List.filter_append, List.filter_cons] at h1
    have : g.dsts.contains t = true := by simpa using ht
    simp only [this, if_true, List.length_append, List.length_cons] at h1
    have ha : (pre.filter fun g => g.dsts.contains t).length = 0 := by omega
    have hb : (post.filter fun g => g.dsts.contains t).length = 0 := by omega
    rw [List.length_eq_zero_iff, List.filter_eq_nil_iff] at ha hb
    exact ⟨fun g' hg' => by simpa using ha g' hg', fun g' hg' => by simpa using hb g' hg'⟩
  · intro s hs
    have h := hv.early pre.length (by rw [hd]; simp) s
    have e1 : sch.getD pre.length ⟨[], [], []⟩ = g := by
      rw [hd]; simp [List.getD_eq_getElem?_getD]
    have e2 : sch.take pre.length = pre := by rw [hd]; simp
    rw [e1, e2] at h
    exact h hs


theorem mem_nonInputs_group {n : Net} {sch : List Group} (hv : VS n sch) {t : Nat}
    (ht : t ∈ n.nonInputs) : ∃ g ∈ sch, t ∈ g.dsts := by
  have h1 := hv.once t ht
  have : (sch.filter fun g => g.dsts.contains t) ≠ [] := by
    intro h; rw [h] at h1; simp at h1
  obtain ⟨g, hg⟩ := List.exists_mem_of_ne_nil _ this
  rw [List.mem_filter] at hg
  exact ⟨g, hg.1, by simpa using hg.2⟩

theorem mem_nodes {n : Net} {t : Nat} : t ∈ n.nodes ↔ t ∈ n.inputs ∨ t ∈ n.nonInputs := by
  unfold Net.nodes; exact mem_union

theorem history_prefix (n : Net) (sch : List Group) (hv : VS n sch)
    (act : Nat → Rat → Rat) (softmax : List Rat → List Rat) (w : List Rat) (v0 v1 : Nat → Rat)
    (hx : ∀ i ∈ n.inputs, v0 i = v1 i) :
    ∀ pre post, sch = pre ++ post → ∀ s, (s ∈ n.inputs ∨ ∃ g' ∈ pre, s ∈ g'.dsts) →
      runSchedule n act softmax w pre v0 s = runSchedule n act softmax w pre v1 s := by
  intro pre
  induction pre using List.reverseRecOn with
  | nil =>
    intro post _ s hs
    rcases hs with hs | ⟨g', hg', _⟩
    · exact hx s hs
    · simp at hg'
  | append_singleton p g ih =>
    intro post hd s hs
    have hd' : sch = p ++ g :: post := by rw [hd]; simp
    have hsp := hv.split hd'
    rw [runSchedule_append, runSchedule_append]
    show runGroup n act softmax w _ g s = runGroup n act softmax w _ g s
    by_cases hsg : s ∈ g.dsts
    · apply runGroup_congr _ _ _ _ _ _ _ _ _ hsg
      intro s' hs'
      exact ih (g :: post) hd' s' (hsp.2 s' hs')
    · rw [runGroup_not_mem _ _ _ _ _ _ _ hsg, runGroup_not_mem _ _ _ _ _ _ _ hsg]
      apply ih (g :: post) hd' s
      rcases hs with hs | ⟨g', hg', hs'⟩
      · exact Or.inl hs
      · rw [List.mem_append] at hg'
        rcases hg' with hg' | hg'
        · exact Or.inr ⟨g', hg', hs'⟩
        · simp at hg'; subst hg'; exact absurd hs' hsg

theorem inputs_not_dst {n : Net} {sch : List Group} (hv : VS n sch)
    (hdisj : ∀ i ∈ n.inputs, i ∉ n.nonInputs) : ∀ i ∈ n.inputs, ∀ g ∈ sch, i ∉ g.dsts :=
  fun i hi g hg h => hdisj i hi (hv.dsub g hg i h)

theorem history_independent (n : Net) (sch : List Group) (hv : validSchedule n sch = true)
    (_hdisj : ∀ i ∈ n.inputs, i ∉ n.nonInputs)
    (act : Nat → Rat → Rat) (softmax : List Rat → List Rat) (w : List Rat) (v0 v1 : Nat → Rat)
    (hx : ∀ i ∈ n.inputs, v0 i = v1 i) :
    ∀ t ∈ n.nodes, runSchedule n act softmax w sch v0 t = runSchedule n act softmax w sch v1 t := by
  have hvs := VS_of_valid hv
  intro t ht
  apply history_prefix n sch hvs act softmax w v0 v1 hx sch [] (by simp) t
  rcases mem_nodes.mp ht with h | h
  · exact Or.inl h
  · exact Or.inr (mem_nonInputs_group hvs h)

theorem batch_aux (n : Net) (sch : List Group) (hv : validSchedule n sch = true)
    (hdisj : ∀ i ∈ n.inputs, i ∉ n.nonInputs) (hout : ∀ o ∈ n.outputs, o ∈ n.nodes)
    (act : Nat → Rat → Rat) (softmax : List Rat → List Rat) (x : Nat → Rat) (ws : List (List Rat)) :
    ∀ v : Nat → Rat, (∀ i ∈ n.inputs, v i = x i) →
    forwardBatchAux n act softmax sch v ws =
      ws.map fun w => n.outputs.map (runSchedule n act softmax w sch x) := by
  have hvs := VS_of_valid hv
  induction ws with
  | nil => intro v _; rfl
  | cons w ws ih =>
    intro v hvx
    simp only [forwardBatchAux, List.map_cons]
    congr 1
    · apply List.map_congr_left
      intro o ho
      exact history_independent n sch hv hdisj act softmax w v x hvx o (hout o ho)
    · apply ih
      intro i hi
      rw [runSchedule_stable _ _ _ _ _ _ (inputs_not_dst hvs hdisj i hi)]
      exact hvx i hi

theorem batch_eq (n : Net) (sch : List Group) (hv : validSchedule n sch = true)
    (hdisj : ∀ i ∈ n.inputs, i ∉ n.nonInputs) (hout : ∀ o ∈ n.outputs, o ∈ n.nodes)
    (act : Nat → Rat → Rat) (softmax : List Rat → List Rat) (x junk : Nat → Rat) (ws : List (List Rat)) :
    forwardBatch n act softmax sch x junk ws =
      ws.map fun w => n.outputs.map (runSchedule n act softmax w sch x) := by
  unfold forwardBatch
  apply batch_aux n sch hv hdisj hout
  intro i hi
  simp [hi]


theorem group_final (n : Net) (sch : List Group) (hvs : VS n sch)
    (hdisj : ∀ i ∈ n.inputs, i ∉ n.nonInputs)
    (act : Nat → Rat → Rat) (softmax : List Rat → List Rat) (w : List Rat) (v0 : Nat → Rat)
    (pre post : List Group) (g : Group) (hd : sch = pre ++ g :: post) :
    (∀ j, j < g.dsts.length → preActGroup w (runSchedule n act softmax w pre v0) g j =
        preAct n w (runSchedule n act softmax w sch v0) (g.dsts.getD j 0)) ∧
    (∀ t ∈ g.dsts, runSchedule n act softmax w sch v0 t =
        runGroup n act softmax w (runSchedule n act softmax w pre v0) g t) := by
  have hg : g ∈ sch := by rw [hd]; simp
  have hsp := hvs.split hd
  have hind := inputs_not_dst hvs hdisj
  have hsrc : ∀ s ∈ g.srcs, runSchedule n act softmax w pre v0 s = runSchedule n act softmax w sch v0 s := by
    intro s hs
    rcases hsp.2 s hs with hi | ⟨g', hg', hs'⟩
    · rw [runSchedule_stable _ _ _ _ _ _ (hind s hi),
        runSchedule_stable _ _ _ _ _ _ (fun g' hg' => hind s hi g' (by rw [hd]; simp [hg']))]
    · obtain ⟨p1, p2, hp⟩ := List.append_of_mem hg'
      have hd2 : sch = p1 ++ g' :: (p2 ++ g :: post) := by rw [hd, hp]; simp
      have hsp2 := (hvs.split hd2).1 s hs'
      have e1 : pre = (p1 ++ [g']) ++ p2 := by rw [hp]; simp
      have e2 : sch = (p1 ++ [g']) ++ (p2 ++ g :: post) := by rw [hd2]; simp
      rw [e1, e2, runSchedule_append n act softmax w (p1 ++ [g']) p2,
        runSchedule_append n act softmax w (p1 ++ [g']) (p2 ++ g :: post),
        runSchedule_stable _ _ _ _ _ _ hsp2.2,
        runSchedule_stable _ _ _ _ _ _ (fun g'' hg'' => hsp2.2 g'' (by simp [hg'']))]
  refine ⟨?_, ?_⟩
  · intro j hj
    rw [preActGroup_congr w _ _ g j hsrc]
    exact preActGroup_eq_of_VS n sch hvs w _ g hg j hj
  · intro t ht
    conv => lhs; rw [hd, runSchedule_append, runSchedule_cons]
    exact runSchedule_stable _ _ _ _ _ _ (hsp.1 t ht).2 _

theorem schedule_sound (n : Net) (sch : List Group) (hv : validSchedule n sch = true)
    (hsm : softmaxTogether n sch = true) (hdisj : ∀ i ∈ n.inputs, i ∉ n.nonInputs)
    (act : Nat → Rat → Rat) (softmax : List Rat → List Rat)
    (hlen : ∀ l, (softmax l).length = l.length) (w : List Rat) (x v0 : Nat → Rat)
    (hx : ∀ i ∈ n.inputs, v0 i = x i) :
    ∃ sm : List Nat,
      (∀ i ∈ n.inputs, runSchedule n act softmax w sch v0 i = x i) ∧
      (∀ t ∈ n.nonInputs, n.activ t ≠ 5 → runSchedule n act softmax w sch v0 t =
          act (n.activ t) (preAct n w (runSchedule n act softmax w sch v0) t)) ∧
      (∀ t ∈ n.nonInputs, n.activ t = 5 → t ∈ sm) ∧ (∀ t ∈ sm, t ∈ n.nonInputs ∧ n.activ t = 5) ∧
      (sm ≠ [] → sm.map (runSchedule n act softmax w sch v0) =
          softmax (sm.map (preAct n w (runSchedule n act softmax w sch v0)))) := by
  have hvs := VS_of_valid hv
  have hind := inputs_not_dst hvs hdisj
  -- per-group facts
  have hgrp : ∀ g ∈ sch, ∃ vk : Nat → Rat,
      (∀ j, j < g.dsts.length → preActGroup w vk g j =
        preAct n w (runSchedule n act softmax w sch v0) (g.dsts.getD j 0)) ∧
      (∀ t ∈ g.dsts, runSchedule n act softmax w sch v0 t = runGroup n act softmax w vk g t) := by
    intro g hg
    obtain ⟨pre, post, hd⟩ := List.append_of_mem hg
    exact ⟨_, group_final n sch hvs hdisj act softmax w v0 pre post g hd⟩
  have hin : ∀ i ∈ n.inputs, runSchedule n act softmax w sch v0 i = x i := by
    intro i hi
    rw [runSchedule_stable _ _ _ _ _ _ (hind i hi)]
    exact hx i hi
  have hns : ∀ t ∈ n.nonInputs, n.activ t ≠ 5 → runSchedule n act softmax w sch v0 t =
      act (n.activ t) (preAct n w (runSchedule n act softmax w sch v0) t) := by
    intro t ht h5
    obtain ⟨g, hg, htg⟩ := mem_nonInputs_group hvs ht
    obtain ⟨vk, hP, hfin⟩ := hgrp g hg
    rw [hfin t htg]
    exact (runGroup_spec n act softmax hlen w vk g (hvs.dnodup g hg) _ hP).2.1 t htg h5
  unfold softmaxTogether at hsm
  simp only [List.all_eq_true, Bool.or_eq_true, Bool.not_eq_true', List.any_eq_false, beq_iff_eq,
    bne_iff_ne, ne_eq, decide_eq_true_eq, List.contains_eq_mem] at hsm
  cases hfind : sch.find? (fun g => g.dsts.any fun t => n.activ t == 5) with
  | none =>
    refine ⟨[], hin, hns, ?_, by simp, by simp⟩
    intro t ht h5
    exfalso
    obtain ⟨g, hg, htg⟩ := mem_nonInputs_group hvs ht
    rw [List.find?_eq_none] at hfind
    have := hfind g hg
    simp only [List.any_eq_true, beq_iff_eq, not_exists, not_and] at this
    exact this t htg h5
  | some g =>
    have hg : g ∈ sch := List.mem_of_find?_eq_some hfind
    have hany := List.find?_some hfind
    simp only [List.any_eq_true, beq_iff_eq] at hany
    obtain ⟨t0, ht0, h50⟩ := hany
    have hall : ∀ t ∈ n.nonInputs, n.activ t = 5 → t ∈ g.dsts := by
      rcases hsm g hg with h | h
      · exact absurd h50 (h t0 ht0)
      · intro t ht h5
        rcases h t ht with h' | h'
        · exact absurd h5 h'
        · exact h'
    obtain ⟨vk, hP, hfin⟩ := hgrp g hg
    refine ⟨g.dsts.filter fun t => n.activ t == 5, hin, hns, ?_, ?_, ?_⟩
    · intro t ht h5
      rw [List.mem_filter]
      exact ⟨hall t ht h5, by simpa using h5⟩
    · intro t ht
      rw [List.mem_filter] at ht
      exact ⟨hvs.dsub g hg t ht.1, by simpa using ht.2⟩
    · intro _
      rw [← (runGroup_spec n act softmax hlen w vk g (hvs.dnodup g hg) _ hP).2.2]
      apply List.map_congr_left
      intro t ht
      exact hfin t (List.mem_filter.mp ht).1


/-! ## MLP builder -/

@[simp] theorem norm_nil : norm [] = [] := norm_of_sorted List.Pairwise.nil
@[simp] theorem norm_singleton (b : Nat) : norm [b] = [b] := norm_of_sorted (List.pairwise_singleton _ _)
@[simp] theorem diff_nil (a : List Nat) : diff a [] = a := by simp [diff]
@[simp] theorem product_nil_left (l : List Nat) : product [] l = [] := rfl

theorem union_nil_right {a : List Nat} (h : a.Pairwise (· < ·)) : union a [] = a := by
  simp [union, norm_of_sorted h]
theorem union_nil_left {a : List Nat} (h : a.Pairwise (· < ·)) : union [] a = a := by
  simp [union, norm_of_sorted h]

theorem mem_product {l r : List Nat} {c : Nat × Nat} : c ∈ product l r ↔ c.1 ∈ l ∧ c.2 ∈ r := by
  obtain ⟨a, b⟩ := c
  simp [product]

def ids (e sz : Nat) : List Nat := (List.range sz).map (· + e)

theorem mem_ids {e sz x : Nat} : x ∈ ids e sz ↔ e ≤ x ∧ x < e + sz := by
  simp only [ids, List.mem_map, List.mem_range]
  constructor
  · rintro ⟨a, ha, rfl⟩; omega
  · intro h; exact ⟨x - e, by omega, by omega⟩

theorem range_sorted (n : Nat) : (List.range n).Pairwise (· < ·) := List.pairwise_lt_range

theorem ids_sorted (e sz : Nat) : (ids e sz).Pairwise (· < ·) := by
  unfold ids
  rw [List.pairwise_map]
  exact (range_sorted sz).imp (by intro a b h; omega)

theorem ids_ne_nil {e sz : Nat} (h : 0 < sz) : ids e sz ≠ [] := by
  intro h0
  have : e ∈ ids e sz := mem_ids.mpr ⟨Nat.le_refl _, by omega⟩
  rw [h0] at this; simp at this

theorem mem_hiddens {n : Net} {x : Nat} : x ∈ n.hiddens ↔ ∃ l ∈ n.hidden, x ∈ l := by
  simp [Net.hiddens, mem_norm]

/-- the invariant of the builder loop -/
structure MInv (act nIn : Nat) (net : Net) (e : Nat) (last : List Nat) : Prop where
  inp : net.inputs = List.range nIn
  out : net.outputs = []
  sinks : diff (union net.inputs net.hiddens) (net.conns.map (·.1)) = last
  lt_nodes : ∀ x ∈ union net.inputs net.hiddens, x < e
  lt_src : ∀ c ∈ net.conns, c.1 < e
  act_val : ∀ p ∈ net.activs, p.2 = act ∧ p.1 < e
  act_has : ∀ h ∈ net.hiddens, ∃ p ∈ net.activs, p.1 = h

theorem MInv_init (act nIn : Nat) : MInv act nIn { inputs := List.range nIn } nIn (List.range nIn) := by
  refine ⟨rfl, rfl, ?_, ?_, ?_, ?_, ?_⟩
  · simp [Net.hiddens, union_nil_right (range_sorted nIn)]
  · intro x hx; simpa [Net.hiddens, mem_union] using hx
  · intro c hc; simp at hc
  · intro p hp; simp at hp
  · intro h hh; simp [Net.hiddens] at hh

/-- the generic step: `gtMain net L` for a layer `L` feeding the fresh ids `l` from `bi` -/
theorem gtMain_layer (act nIn : Nat) (net : Net) (e : Nat) (last : List Nat) (hI : MInv act nIn net e last)
    (L : Net) (l bi : List Nat) (hbi : ∀ x ∈ bi, x < nIn) (hLi : L.inputs = bi)
    (hLc : L.conns = product bi l) (hLn : union L.hiddens L.outputs = l)
    (hLo : L.outputs.Pairwise (· < ·)) :
    gtMain net L = { inputs := List.range nIn, hidden := net.hidden ++ L.hidden, outputs := L.outputs,
                     conns := net.conns ++ product bi l ++ product last l,
                     activs := net.activs ++ L.activs } := by
  unfold gtMain
  have h1 : union net.inputs L.inputs = List.range nIn := by
    rw [hI.inp, hLi]
    apply eq_of_sorted_of_mem_iff (norm_sorted _) (range_sorted _)
    intro x
    rw [mem_norm, List.mem_append]
    constructor
    · rintro (h | h)
      · exact h
      · exact List.mem_range.mpr (hbi x h)
    · exact Or.inl
  have h2 : ((product bi l).filter fun c => !L.inputs.contains c.1) = [] := by
    rw [List.filter_eq_nil_iff, hLi]
    intro c hc
    have := (mem_product.mp hc).1
    simpa using this
  have h3 : union net.outputs L.outputs = L.outputs := by
    rw [hI.out]; exact union_nil_left hLo
  simp only [h1, h2, h3, hI.sinks, hLn, hLc, List.map_nil, diff_nil]


def biasIn (offset : Bool) (b : Nat) : List Nat := if offset then [b] else []

/-- a hidden layer as the builder makes it -/
def hidLayer (offset : Bool) (b : Nat) (l : List Nat) (a : Nat) : Net :=
  if offset then gt { inputs := [b] } { hidden := [l], activs := l.map fun i => (i, a) }
  else { hidden := [l], activs := l.map fun i => (i, a) }

def outLayer (offset : Bool) (b : Nat) (l : List Nat) (a : Nat) : Net :=
  if offset then gt { inputs := [b] } { outputs := l, activs := l.map fun i => (i, a) }
  else { outputs := l, activs := l.map fun i => (i, a) }

theorem hidLayer_eq (offset : Bool) (b : Nat) (l : List Nat) (a : Nat) (hl : l.Pairwise (· < ·)) :
    hidLayer offset b l a = { inputs := biasIn offset b, hidden := [l], outputs := [],
                                conns := product (biasIn offset b) l, activs := l.map fun i => (i, a) } := by
  cases offset
  · simp [hidLayer, biasIn]
  · simp [hidLayer, biasIn, gt, gtMain, Net.hiddens, norm_of_sorted hl, union,
      norm_of_sorted (List.pairwise_singleton _ b)]

theorem outLayer_eq (offset : Bool) (b : Nat) (l : List Nat) (a : Nat) (hl : l.Pairwise (· < ·)) :
    outLayer offset b l a = { inputs := biasIn offset b, hidden := [], outputs := l,
                                conns := product (biasIn offset b) l, activs := l.map fun i => (i, a) } := by
  cases offset
  · simp [outLayer, biasIn]
  · simp [outLayer, biasIn, gt, gtMain, Net.hiddens, norm_of_sorted hl, union,
      norm_of_sorted (List.pairwise_singleton _ b)]


theorem gt_eq_gtMain (a b : Net) (h1 : 0 < a.inputs.length)
    (h2 : b.hidden.length ≠ 0 ∨ b.outputs.length ≠ 0) : gt a b = gtMain a b := by
  unfold gt
  simp only
  rw [if_neg (by omega), if_neg (by omega)]

theorem biasIn_lt (offset : Bool) (nIn : Nat) (hin : 0 < nIn) : ∀ x ∈ biasIn offset (nIn - 1), x < nIn := by
  intro x hx
  cases offset <;> simp [biasIn] at hx
  omega

theorem diff_sorted {a : List Nat} (b : List Nat) (h : a.Pairwise (· < ·)) : (diff a b).Pairwise (· < ·) :=
  h.sublist List.filter_sublist

theorem union_sorted (a b : List Nat) : (union a b).Pairwise (· < ·) := norm_sorted _

theorem step_hidden (offset : Bool) (act nIn : Nat) (net : Net) (e : Nat) (last : List Nat)
    (hin : 0 < nIn) (hI : MInv act nIn net e last) (sz : Nat) (hsz : 0 < sz) :
    MInv act nIn (gt net (hidLayer offset (nIn - 1) (ids e sz) act)) (e + sz) (ids e sz) ∧
    (gt net (hidLayer offset (nIn - 1) (ids e sz) act)).conns =
      net.conns ++ product (biasIn offset (nIn - 1)) (ids e sz) ++ product last (ids e sz) := by
  have hls := ids_sorted e sz
  have hnin : nIn ≤ e := by
    have := hI.lt_nodes (nIn - 1) (mem_union.mpr (Or.inl (by rw [hI.inp]; exact List.mem_range.mpr (by omega))))
    omega
  rw [hidLayer_eq _ _ _ _ hls, gt_eq_gtMain _ _ (by rw [hI.inp]; simpa using hin) (Or.inl (by simp))]
  rw [gtMain_layer act nIn net e last hI _ (ids e sz) (biasIn offset (nIn - 1)) (biasIn_lt offset nIn hin) rfl rfl
    (by simp [Net.hiddens, norm_of_sorted hls, union_nil_right hls]) List.Pairwise.nil]
  refine ⟨⟨rfl, rfl, ?_, ?_, ?_, ?_, ?_⟩, rfl⟩
  · apply eq_of_sorted_of_mem_iff (diff_sorted _ (union_sorted _ _)) hls
    intro x
    simp only [mem_diff, mem_union, mem_hiddens, List.mem_map, List.mem_append, List.mem_singleton,
      mem_ids, not_exists, not_and]
    constructor
    · rintro ⟨hx, hns⟩
      by_contra hxl
      have hxold : x ∈ union net.inputs net.hiddens := by
        rw [mem_union, mem_hiddens, hI.inp]
        rcases hx with hx | ⟨l', hl' | hl', hxl'⟩
        · exact Or.inl hx
        · exact Or.inr ⟨l', hl', hxl'⟩
        · subst hl'; exact absurd (mem_ids.mp hxl') hxl
      by_cases hsrc : x ∈ net.conns.map (·.1)
      · obtain ⟨c, hc, rfl⟩ := List.mem_map.mp hsrc
        exact hns c (Or.inl (Or.inl hc)) rfl
      · have hxlast : x ∈ last := by rw [← hI.sinks]; exact mem_diff.mpr ⟨hxold, hsrc⟩
        exact hns (x, e) (Or.inr (mem_product.mpr ⟨hxlast, mem_ids.mpr ⟨Nat.le_refl _, by omega⟩⟩)) rfl
    · intro hx
      refine ⟨Or.inr ⟨ids e sz, Or.inr rfl, mem_ids.mpr hx⟩, ?_⟩
      rintro c ((hc | hc) | hc) rfl
      · have := hI.lt_src c hc; omega
      · have := biasIn_lt offset nIn hin _ (mem_product.mp hc).1; omega
      · have h1 : c.1 ∈ last := (mem_product.mp hc).1
        rw [← hI.sinks] at h1
        have := hI.lt_nodes _ (mem_diff.mp h1).1
        omega
  · intro x hx
    simp only [mem_union, mem_hiddens, List.mem_append, List.mem_singleton] at hx
    rcases hx with hx | ⟨l', hl' | hl', hxl'⟩
    · have := List.mem_range.mp hx; omega
    · have := hI.lt_nodes x (mem_union.mpr (Or.inr (mem_hiddens.mpr ⟨l', hl', hxl'⟩))); omega
    · subst hl'; exact (mem_ids.mp hxl').2
  · intro c hc
    simp only [List.mem_append] at hc
    rcases hc with (hc | hc) | hc
    · have := hI.lt_src c hc; omega
    · have := biasIn_lt offset nIn hin _ (mem_product.mp hc).1; omega
    · have h1 : c.1 ∈ last := (mem_product.mp hc).1
      rw [← hI.sinks] at h1
      have := hI.lt_nodes _ (mem_diff.mp h1).1
      omega
  · intro p hp
    simp only [List.mem_append, List.mem_map] at hp
    rcases hp with hp | ⟨i, hi, rfl⟩
    · have := hI.act_val p hp; exact ⟨this.1, by omega⟩
    · exact ⟨rfl, (mem_ids.mp hi).2⟩
  · intro h hh
    simp only [mem_hiddens, List.mem_append, List.mem_singleton] at hh
    obtain ⟨l', hl' | hl', hxl'⟩ := hh
    · obtain ⟨p, hp, hp1⟩ := hI.act_has h (mem_hiddens.mpr ⟨l', hl', hxl'⟩)
      exact ⟨p, List.mem_append.mpr (Or.inl hp), hp1⟩
    · subst hl'
      exact ⟨(h, act), List.mem_append.mpr (Or.inr (List.mem_map.mpr ⟨h, hxl', rfl⟩)), rfl⟩


theorem activ_eq_of (n : Net) (t a : Nat) (h1 : ∃ p ∈ n.activs, p.1 = t)
    (h2 : ∀ p ∈ n.activs, p.1 = t → p.2 = a) : n.activ t = a := by
  unfold Net.activ
  cases hf : n.activs.reverse.find? (fun p => p.1 == t) with
  | none =>
    exfalso
    rw [List.find?_eq_none] at hf
    obtain ⟨p, hp, hp1⟩ := h1
    have := hf p (List.mem_reverse.mpr hp)
    simp [hp1] at this
  | some p =>
    have hp := List.mem_reverse.mp (List.mem_of_find?_eq_some hf)
    have hp1 := List.find?_some hf
    exact h2 p hp (by simpa using hp1)

def layersFrom : Nat → List Nat → List (List Nat)
  | _, [] => []
  | e, sz :: r => ids e sz :: layersFrom (e + sz) r

theorem mlpLayers_eq (nIn nOut : Nat) (hs : List Nat) :
    mlpLayers nIn nOut hs = List.range nIn :: layersFrom nIn (hs ++ [nOut]) := by
  have key : ∀ (sizes : List Nat) (acc : List (List Nat)) (e : Nat),
      (sizes.foldl (fun (acc : List (List Nat) × Nat) sz =>
        (acc.1 ++ [(List.range sz).map (· + acc.2)], acc.2 + sz)) (acc, e)).1 = acc ++ layersFrom e sizes := by
    intro sizes
    induction sizes with
    | nil => intro acc e; simp [layersFrom]
    | cons sz r ih => intro acc e; simp only [List.foldl_cons, ih, layersFrom, ids]; simp
  unfold mlpLayers
  simp only [key]
  rfl

def biasE (offset : Bool) (b : Nat) (ls : List (List Nat)) : List (Nat × Nat) :=
  if offset then ls.flatMap fun l => product [b] l else []

theorem product_biasIn (offset : Bool) (b : Nat) (l : List Nat) (ls : List (List Nat)) :
    biasE offset b (l :: ls) = product (biasIn offset b) l ++ biasE offset b ls := by
  cases offset <;> simp [biasE, biasIn]

theorem step_out (offset : Bool) (act outAct nIn : Nat) (net : Net) (e : Nat) (last : List Nat)
    (hin : 0 < nIn) (hI : MInv act nIn net e last) (nOut : Nat) (ho : 0 < nOut) :
    (gt net (outLayer offset (nIn - 1) (ids e nOut) outAct)).conns =
      net.conns ++ product (biasIn offset (nIn - 1)) (ids e nOut) ++ product last (ids e nOut) ∧
    (gt net (outLayer offset (nIn - 1) (ids e nOut) outAct)).inputs = List.range nIn ∧
    (gt net (outLayer offset (nIn - 1) (ids e nOut) outAct)).outputs = ids e nOut ∧
    (∀ o ∈ (gt net (outLayer offset (nIn - 1) (ids e nOut) outAct)).outputs,
      (gt net (outLayer offset (nIn - 1) (ids e nOut) outAct)).activ o = outAct) ∧
    (∀ h ∈ (gt net (outLayer offset (nIn - 1) (ids e nOut) outAct)).hiddens,
      (gt net (outLayer offset (nIn - 1) (ids e nOut) outAct)).activ h = act) := by
  have hls := ids_sorted e nOut
  have hne : (ids e nOut).length ≠ 0 := by
    intro h; exact ids_ne_nil ho (List.length_eq_zero_iff.mp h)
  rw [outLayer_eq _ _ _ _ hls, gt_eq_gtMain _ _ (by rw [hI.inp]; simpa using hin) (Or.inr hne)]
  rw [gtMain_layer act nIn net e last hI _ (ids e nOut) (biasIn offset (nIn - 1)) (biasIn_lt offset nIn hin) rfl rfl
    (by simp [Net.hiddens, union_nil_left hls]) hls]
  refine ⟨rfl, rfl, rfl, ?_, ?_⟩
  · intro o ho'
    apply activ_eq_of
    · exact ⟨(o, outAct), List.mem_append.mpr (Or.inr (List.mem_map.mpr ⟨o, ho', rfl⟩)), rfl⟩
    · intro p hp hp1
      simp only [List.mem_append, List.mem_map] at hp
      rcases hp with hp | ⟨i, hi, rfl⟩
      · have := (hI.act_val p hp).2
        have := (mem_ids.mp ho').1
        omega
      · rfl
  · intro h hh
    have hh' : h ∈ net.hiddens := by
      simp only [mem_hiddens, List.append_nil] at hh ⊢
      exact hh
    apply activ_eq_of
    · obtain ⟨p, hp, hp1⟩ := hI.act_has h hh'
      exact ⟨p, List.mem_append.mpr (Or.inl hp), hp1⟩
    · intro p hp hp1
      simp only [List.mem_append, List.mem_map] at hp
      rcases hp with hp | ⟨i, hi, rfl⟩
      · exact (hI.act_val p hp).1
      · have := hI.lt_nodes h (mem_union.mpr (Or.inr hh'))
        have := (mem_ids.mp hi).1
        simp at hp1
        omega


theorem consecutive_cons2 (a b : List Nat) (r : List (List Nat)) :
    consecutive (a :: b :: r) = product a b ++ consecutive (b :: r) := rfl

theorem defineNetAux_cons (offset : Bool) (act nIn sz : Nat) (rest : List Nat) (net : Net) (e : Nat) :
    defineNetAux offset act nIn (sz :: rest) net e =
      defineNetAux offset act nIn rest (gt net (hidLayer offset (nIn - 1) (ids e sz) act)) (e + sz) := by
  cases offset <;> rfl

theorem biasE_nil (offset : Bool) (b : Nat) : biasE offset b [] = [] := by
  cases offset <;> simp [biasE]

theorem mlp_build (offset : Bool) (act outAct nIn nOut : Nat) (hin : 0 < nIn) (ho : 0 < nOut) :
    ∀ (hs : List Nat) (net : Net) (e : Nat) (last : List Nat), MInv act nIn net e last →
    (∀ s ∈ hs, 0 < s) →
    let R := gt (defineNetAux offset act nIn hs net e).1
      (outLayer offset (nIn - 1) (ids (defineNetAux offset act nIn hs net e).2 nOut) outAct)
    R.conns.Perm (net.conns ++ consecutive (last :: layersFrom e (hs ++ [nOut])) ++
      biasE offset (nIn - 1) (layersFrom e (hs ++ [nOut]))) ∧
    R.inputs = List.range nIn ∧ R.outputs = ids (e + hs.sum) nOut ∧
    (∀ o ∈ R.outputs, R.activ o = outAct) ∧ (∀ h ∈ R.hiddens, R.activ h = act) := by
  intro hs
  induction hs with
  | nil =>
    intro net e last hI _
    obtain ⟨h1, h2, h3, h4, h5⟩ := step_out offset act outAct nIn net e last hin hI nOut ho
    refine ⟨?_, h2, by simpa [defineNetAux] using h3, h4, h5⟩
    simp only [defineNetAux] at h1 ⊢
    rw [h1]
    simp only [List.nil_append, layersFrom, consecutive, product_biasIn, biasE_nil, List.append_nil]
    rw [List.perm_iff_count]
    intro a
    simp only [List.count_append]
    omega
  | cons sz rest ih =>
    intro net e last hI hpos
    obtain ⟨hI', hc⟩ := step_hidden offset act nIn net e last hin hI sz (hpos sz (by simp))
    have := ih _ (e + sz) (ids e sz) hI' (fun s hs => hpos s (by simp [hs]))
    simp only [defineNetAux_cons]
    obtain ⟨h1, h2, h3, h4, h5⟩ := this
    refine ⟨?_, h2, by rw [h3]; simp [Nat.add_assoc], h4, h5⟩
    refine h1.trans ?_
    rw [hc]
    simp only [List.cons_append, layersFrom, consecutive_cons2, product_biasIn]
    rw [List.perm_iff_count]
    intro a
    simp only [List.count_append]
    omega

theorem mlp_layers (offset : Bool) (act outAct nIn nOut : Nat) (hs : List Nat)
    (hpos : ∀ s ∈ hs, 0 < s) (hin : 0 < nIn) (ho : 0 < nOut) :
    let n := defineNet offset act outAct nIn nOut hs
    n.conns.Perm (mlpSpec offset nIn nOut hs) ∧ n.inputs = List.range nIn ∧
    n.outputs = (List.range nOut).map (· + (nIn + hs.sum)) ∧
    (∀ o ∈ n.outputs, n.activ o = outAct) ∧ (∀ h ∈ n.hiddens, n.activ h = act) := by
  have hdef : defineNet offset act outAct nIn nOut hs =
      gt (defineNetAux offset act nIn hs { inputs := List.range nIn } nIn).1
        (outLayer offset (nIn - 1) (ids (defineNetAux offset act nIn hs { inputs := List.range nIn } nIn).2 nOut) outAct) := by
    cases offset <;> rfl
  intro n
  have := mlp_build offset act outAct nIn nOut hin ho hs _ nIn _ (MInv_init act nIn) hpos
  simp only [← hdef] at this
  obtain ⟨h1, h2, h3, h4, h5⟩ := this
  refine ⟨?_, h2, h3, h4, h5⟩
  refine h1.trans ?_
  unfold mlpSpec
  simp only [mlpLayers_eq, List.drop_one, List.tail_cons, List.nil_append, biasE]
  exact List.Perm.refl _


/-! ## the evaluation order -/

theorem insertSorted_perm (p : Nat × Nat) (l : List (Nat × Nat)) : (insertSorted p l).Perm (p :: l) := by
  induction l with
  | nil => exact List.Perm.refl _
  | cons q qs ih =>
    unfold insertSorted
    split
    · exact List.Perm.refl _
    · exact (List.Perm.cons q ih).trans (List.Perm.swap p q qs)

theorem insertSorted_sorted (p : Nat × Nat) (l : List (Nat × Nat))
    (h : l.Pairwise fun a b => a.1 ≤ b.1) : (insertSorted p l).Pairwise fun a b => a.1 ≤ b.1 := by
  induction l with
  | nil => simp [insertSorted]
  | cons q qs ih =>
    rw [List.pairwise_cons] at h
    unfold insertSorted
    split
    · rename_i hpq
      rw [List.pairwise_cons]
      refine ⟨?_, List.pairwise_cons.mpr h⟩
      intro a ha
      rcases List.mem_cons.mp ha with rfl | ha
      · exact hpq
      · exact Nat.le_trans hpq (h.1 a ha)
    · rename_i hpq
      rw [List.pairwise_cons]
      refine ⟨?_, ih h.2⟩
      intro a ha
      rcases List.mem_cons.mp ((insertSorted_perm p qs).mem_iff.mp ha) with rfl | ha
      · omega
      · exact h.1 a ha

def srcPairs (conns : List (Nat × Nat)) (t : Nat) : List (Nat × Nat) :=
  (((List.range conns.length).zip conns).filter fun ic => ic.2.2 == t).map fun ic => (ic.2.1, ic.1)

theorem sourcesOf_perm (conns : List (Nat × Nat)) (t : Nat) : (sourcesOf conns t).Perm (srcPairs conns t) := by
  unfold sourcesOf srcPairs
  generalize (List.range conns.length).zip conns = L
  induction L with
  | nil => exact List.Perm.refl _
  | cons ic L ih =>
    simp only [List.foldr_cons, List.filter_cons]
    split
    · simp only [List.map_cons]
      exact (insertSorted_perm _ _).trans (List.Perm.cons _ ih)
    · exact ih

theorem sourcesOf_sorted (conns : List (Nat × Nat)) (t : Nat) :
    (sourcesOf conns t).Pairwise fun a b => a.1 ≤ b.1 := by
  unfold sourcesOf
  generalize (List.range conns.length).zip conns = L
  induction L with
  | nil => simp
  | cons ic L ih =>
    simp only [List.foldr_cons]
    split
    · exact insertSorted_sorted _ _ ih
    · exact ih

theorem mem_range_zip {conns : List (Nat × Nat)} {i : Nat} {c : Nat × Nat} :
    (i, c) ∈ (List.range conns.length).zip conns ↔ ∃ h : i < conns.length, conns[i] = c := by
  rw [List.mem_iff_getElem]
  constructor
  · rintro ⟨k, hk, he⟩
    simp only [List.length_zip, List.length_range, Nat.min_self] at hk
    simp only [List.getElem_zip, List.getElem_range, Prod.mk.injEq] at he
    obtain ⟨rfl, rfl⟩ := he
    exact ⟨hk, rfl⟩
  · rintro ⟨h, rfl⟩
    exact ⟨i, by simpa using h, by simp⟩

theorem mem_srcPairs {conns : List (Nat × Nat)} {t s i : Nat} :
    (s, i) ∈ srcPairs conns t ↔ ∃ h : i < conns.length, conns[i] = (s, t) := by
  unfold srcPairs
  simp only [List.mem_map, List.mem_filter, beq_iff_eq, Prod.mk.injEq, Prod.exists]
  constructor
  · rintro ⟨i', s', t', ⟨hm, rfl⟩, rfl, rfl⟩
    exact mem_range_zip.mp hm
  · rintro ⟨h, he⟩
    exact ⟨i, s, t, ⟨mem_range_zip.mpr ⟨h, he⟩, rfl⟩, rfl, rfl⟩

theorem mem_sourcesOf {conns : List (Nat × Nat)} {t s i : Nat} :
    (s, i) ∈ sourcesOf conns t ↔ ∃ h : i < conns.length, conns[i] = (s, t) := by
  rw [(sourcesOf_perm conns t).mem_iff, mem_srcPairs]

theorem srcPairs_idx_nodup (conns : List (Nat × Nat)) (t : Nat) : ((srcPairs conns t).map (·.2)).Nodup := by
  unfold srcPairs
  rw [List.map_map]
  have h1 : (((List.range conns.length).zip conns).filter fun ic => ic.2.2 == t).map
      ((fun x : Nat × Nat => x.2) ∘ fun ic : Nat × (Nat × Nat) => (ic.2.1, ic.1)) =
      (((List.range conns.length).zip conns).filter fun ic => ic.2.2 == t).map (·.1) := rfl
  rw [h1]
  have h2 : ((List.range conns.length).zip conns).map (·.1) = List.range conns.length :=
    List.map_fst_zip (by simp)
  have := (List.filter_sublist (p := fun ic : Nat × (Nat × Nat) => ic.2.2 == t)
    (l := (List.range conns.length).zip conns)).map (·.1)
  rw [h2] at this
  exact List.nodup_range.sublist this

theorem sourcesOf_idx_nodup (conns : List (Nat × Nat)) (t : Nat) : ((sourcesOf conns t).map (·.2)).Nodup :=
  ((sourcesOf_perm conns t).map _).nodup_iff.mpr (srcPairs_idx_nodup conns t)


def gkey (conns : List (Nat × Nat)) (t : Nat) : List Nat := (sourcesOf conns t).map (·.1)
def gw (conns : List (Nat × Nat)) (t : Nat) : List Nat := (sourcesOf conns t).map (·.2)

def gstep (conns : List (Nat × Nat)) (gs : List Group) (t : Nat) : List Group :=
  if gs.any (fun g => g.srcs == gkey conns t) then
    gs.map fun g => if g.srcs == gkey conns t then
      { g with dsts := g.dsts ++ [t], wids := g.wids ++ [gw conns t] } else g
  else gs ++ [{ srcs := gkey conns t, dsts := [t], wids := [gw conns t] }]

theorem groupsOf_eq (conns : List (Nat × Nat)) :
    groupsOf conns = (norm (conns.map (·.2))).foldl (gstep conns) [] := rfl

structure GInv (conns : List (Nat × Nat)) (p : List Nat) (gs : List Group) : Prop where
  keys : (gs.map (·.srcs)).Nodup
  dsts : ∀ g ∈ gs, g.dsts = p.filter (fun t => gkey conns t == g.srcs)
  ne : ∀ g ∈ gs, g.dsts ≠ []
  wids : ∀ g ∈ gs, g.wids = g.dsts.map (gw conns)
  cover : ∀ t ∈ p, ∃ g ∈ gs, g.srcs = gkey conns t

theorem GInv_step (conns : List (Nat × Nat)) (p : List Nat) (gs : List Group) (t : Nat)
    (h : GInv conns p gs) : GInv conns (p ++ [t]) (gstep conns gs t) := by
  unfold gstep
  split
  · rename_i hany
    simp only [List.any_eq_true, beq_iff_eq] at hany
    have hsr : ∀ g : Group, (if g.srcs == gkey conns t then
        ({ g with dsts := g.dsts ++ [t], wids := g.wids ++ [gw conns t] } : Group) else g).srcs = g.srcs := by
      intro g; split <;> rfl
    refine ⟨?_, ?_, ?_, ?_, ?_⟩
    · rw [List.map_map]
      have : ((fun g : Group => g.srcs) ∘ fun g : Group => if g.srcs == gkey conns t then
        ({ g with dsts := g.dsts ++ [t], wids := g.wids ++ [gw conns t] } : Group) else g) = fun g => g.srcs := by
        funext g; exact hsr g
      rw [this]; exact h.keys
    · intro g' hg'
      obtain ⟨g, hg, rfl⟩ := List.mem_map.mp hg'
      rw [hsr, List.filter_append]
      by_cases hk : g.srcs = gkey conns t
      · have := h.dsts g hg
        rw [hk] at this
        simp [hk, this]
      · have hk' : ¬ gkey conns t = g.srcs := fun e => hk e.symm
        simp [hk, hk', ← h.dsts g hg]
    · intro g' hg'
      obtain ⟨g, hg, rfl⟩ := List.mem_map.mp hg'
      split
      · simp
      · exact h.ne g hg
    · intro g' hg'
      obtain ⟨g, hg, rfl⟩ := List.mem_map.mp hg'
      split
      · simp [h.wids g hg]
      · exact h.wids g hg
    · intro t' ht'
      rcases List.mem_append.mp ht' with ht' | ht'
      · obtain ⟨g, hg, hs⟩ := h.cover t' ht'
        exact ⟨_, List.mem_map.mpr ⟨g, hg, rfl⟩, by rw [hsr]; exact hs⟩
      · simp only [List.mem_singleton] at ht'; subst ht'
        obtain ⟨g, hg, hs⟩ := hany
        exact ⟨_, List.mem_map.mpr ⟨g, hg, rfl⟩, by rw [hsr]; exact hs⟩
  · rename_i hany
    simp only [List.any_eq_true, beq_iff_eq, not_exists, not_and] at hany
    have hpf : p.filter (fun t' => gkey conns t' == gkey conns t) = [] := by
      rw [List.filter_eq_nil_iff]
      intro t' ht' hk
      obtain ⟨g, hg, hs⟩ := h.cover t' ht'
      exact hany g hg (by rw [hs]; simpa using hk)
    refine ⟨?_, ?_, ?_, ?_, ?_⟩
    · rw [List.map_append, List.nodup_append]
      refine ⟨h.keys, by simp, ?_⟩
      intro a ha b hb
      simp only [List.map_cons, List.map_nil, List.mem_singleton] at hb
      subst hb
      obtain ⟨g, hg, rfl⟩ := List.mem_map.mp ha
      exact hany g hg
    · intro g hg
      rcases List.mem_append.mp hg with hg | hg
      · have hk' : ¬ gkey conns t = g.srcs := fun e => hany g hg e.symm
        rw [List.filter_append, ← h.dsts g hg]
        simp [hk']
      · simp only [List.mem_singleton] at hg; subst hg
        rw [List.filter_append, hpf]; simp
    · intro g hg
      rcases List.mem_append.mp hg with hg | hg
      · exact h.ne g hg
      · simp only [List.mem_singleton] at hg; subst hg; simp
    · intro g hg
      rcases List.mem_append.mp hg with hg | hg
      · exact h.wids g hg
      · simp only [List.mem_singleton] at hg; subst hg; simp
    · intro t' ht'
      rcases List.mem_append.mp ht' with ht' | ht'
      · obtain ⟨g, hg, hs⟩ := h.cover t' ht'
        exact ⟨g, List.mem_append.mpr (Or.inl hg), hs⟩
      · simp only [List.mem_singleton] at ht'; subst ht'
        exact ⟨_, List.mem_append.mpr (Or.inr (List.mem_singleton.mpr rfl)), rfl⟩

theorem GInv_foldl (conns : List (Nat × Nat)) : ∀ (l p : List Nat) (gs : List Group),
    GInv conns p gs → GInv conns (p ++ l) (l.foldl (gstep conns) gs) := by
  intro l
  induction l with
  | nil => intro p gs h; simpa using h
  | cons t l ih =>
    intro p gs h
    have := ih (p ++ [t]) _ (GInv_step conns p gs t h)
    simpa using this

theorem GInv_groupsOf (conns : List (Nat × Nat)) :
    GInv conns (norm (conns.map (·.2))) (groupsOf conns) := by
  have := GInv_foldl conns (norm (conns.map (·.2))) [] []
    ⟨by simp, by simp, by simp, by simp, by simp⟩
  simpa [groupsOf_eq] using this


theorem eraseDups_of_nodup_gen {α : Type} [BEq α] [LawfulBEq α] (n : Nat) :
    ∀ l : List α, l.length ≤ n → l.Nodup → l.eraseDups = l := by
  induction n with
  | zero => intro l hl _; have : l = [] := List.length_eq_zero_iff.mp (by omega); subst this; simp
  | succ n ih =>
    intro l hl hp
    cases l with
    | nil => simp
    | cons a as =>
      rw [List.nodup_cons] at hp
      have hf : as.filter (fun b => !b == a) = as := by
        rw [List.filter_eq_self]
        intro b hb
        have : b ≠ a := fun h => hp.1 (h ▸ hb)
        simpa using this
      rw [List.eraseDups_cons, hf, ih as (by simp at hl; omega) hp.2]

/-- the facts packed in the `validNet` certificate -/
structure VN (n : Net) : Prop where
  cnodup : n.conns.Nodup
  ends : ∀ c ∈ n.conns, (c.1 ∈ n.inputs ∨ c.1 ∈ n.hiddens) ∧ (c.2 ∈ n.hiddens ∨ c.2 ∈ n.outputs)
  layer : ∀ c ∈ n.conns, n.layerOf c.1 < n.layerOf c.2
  fed : ∀ t ∈ n.nonInputs, ∃ c ∈ n.conns, c.2 = t
  reach : ∀ h ∈ n.hiddens, reaches n (n.hidden.length + 1) h = true
  hasAct : ∀ t ∈ n.nonInputs, ∃ p ∈ n.activs, p.1 = t
  disj : ∀ i ∈ n.inputs, i ∉ n.nonInputs
  disjHO : ∀ h ∈ n.hiddens, h ∉ n.outputs

theorem validNet_iff (n : Net) : validNet n = true ↔ VN n := by
  unfold validNet
  simp only [Bool.and_eq_true, List.all_eq_true, beq_iff_eq, decide_eq_true_eq, Bool.or_eq_true,
    List.contains_eq_mem, List.any_eq_true, Bool.not_eq_true', decide_eq_false_iff_not]
  constructor
  · rintro ⟨⟨⟨⟨⟨⟨⟨h1, h2⟩, h3⟩, h4⟩, h5⟩, h6⟩, h7⟩, h8⟩
    exact ⟨nodup_of_eraseDups_length h1, h2, h3, fun t ht => by
      obtain ⟨c, hc, he⟩ := h4 t ht; exact ⟨c, hc, he⟩, h5, fun t ht => by
      obtain ⟨c, hc, he⟩ := h6 t ht; exact ⟨c, hc, he⟩, h7, h8⟩
  · intro h
    refine ⟨⟨⟨⟨⟨⟨⟨?_, h.ends⟩, h.layer⟩, ?_⟩, h.reach⟩, ?_⟩, h.disj⟩, h.disjHO⟩
    · rw [eraseDups_of_nodup_gen _ _ (Nat.le_refl _) h.cnodup]
    · intro t ht; obtain ⟨c, hc, he⟩ := h.fed t ht; exact ⟨c, hc, he⟩
    · intro t ht; obtain ⟨c, hc, he⟩ := h.hasAct t ht; exact ⟨c, hc, he⟩

theorem mem_nonInputs {n : Net} {t : Nat} : t ∈ n.nonInputs ↔ t ∈ n.hiddens ∨ t ∈ n.outputs := by
  unfold Net.nonInputs; exact mem_union

theorem targets_eq_nonInputs {n : Net} (h : VN n) : norm (n.conns.map (·.2)) = n.nonInputs := by
  apply eq_of_sorted_of_mem_iff (norm_sorted _) (union_sorted _ _)
  intro t
  rw [mem_norm, List.mem_map]
  constructor
  · rintro ⟨c, hc, rfl⟩
    exact mem_nonInputs.mpr (h.ends c hc).2
  · intro ht
    obtain ⟨c, hc, he⟩ := h.fed t ht
    exact ⟨c, hc, he⟩


structure OInv (n : Net) (GS : List Group) (done_ : List Nat) (sched : List Group) : Prop where
  sorted : done_.Pairwise (· < ·)
  mem : ∀ x, x ∈ done_ ↔ x ∈ n.inputs ∨ ∃ g ∈ sched, x ∈ g.dsts
  sub : ∀ g ∈ sched, g ∈ GS
  nodup : sched.Nodup
  early : ∀ gi, gi < sched.length → ∀ s ∈ (sched.getD gi ⟨[], [], []⟩).srcs,
    s ∈ n.inputs ∨ ∃ g' ∈ sched.take gi, s ∈ g'.dsts

theorem orderPass_nil (done_ : List Nat) (sched : List Group) : orderPass [] done_ sched = (done_, sched) := rfl

theorem orderPass_cons (g : Group) (l : List Group) (done_ : List Nat) (sched : List Group) :
    orderPass (g :: l) done_ sched =
      if subset g.srcs done_ && !subset g.dsts done_ then orderPass l (union done_ g.dsts) (sched ++ [g])
      else orderPass l done_ sched := by
  unfold orderPass
  simp only [List.foldl_cons]
  split <;> rfl

theorem OInv_step {n : Net} {GS : List Group} {done_ : List Nat} {sched : List Group} {g : Group}
    (h : OInv n GS done_ sched) (hg : g ∈ GS) (hs : subset g.srcs done_ = true)
    (hd : subset g.dsts done_ = false) : OInv n GS (union done_ g.dsts) (sched ++ [g]) := by
  refine ⟨union_sorted _ _, ?_, ?_, ?_, ?_⟩
  · intro x
    rw [mem_union, h.mem]
    constructor
    · rintro ((hx | ⟨g', hg', hx⟩) | hx)
      · exact Or.inl hx
      · exact Or.inr ⟨g', List.mem_append.mpr (Or.inl hg'), hx⟩
      · exact Or.inr ⟨g, by simp, hx⟩
    · rintro (hx | ⟨g', hg', hx⟩)
      · exact Or.inl (Or.inl hx)
      · rcases List.mem_append.mp hg' with hg' | hg'
        · exact Or.inl (Or.inr ⟨g', hg', hx⟩)
        · simp only [List.mem_singleton] at hg'; subst hg'; exact Or.inr hx
  · intro g' hg'
    rcases List.mem_append.mp hg' with hg' | hg'
    · exact h.sub g' hg'
    · simp only [List.mem_singleton] at hg'; subst hg'; exact hg
  · rw [List.nodup_append]
    refine ⟨h.nodup, by simp, ?_⟩
    intro a ha b hb
    simp only [List.mem_singleton] at hb; subst hb
    rintro rfl
    have : subset a.dsts done_ = true := by
      rw [subset_iff]; intro x hx; exact (h.mem x).mpr (Or.inr ⟨a, ha, hx⟩)
    rw [this] at hd; exact Bool.noConfusion hd
  · intro gi hgi s hsrc
    simp only [List.length_append, List.length_singleton] at hgi
    by_cases hlt : gi < sched.length
    · have e1 : (sched ++ [g]).getD gi ⟨[], [], []⟩ = sched.getD gi ⟨[], [], []⟩ := by
        simp [List.getD_eq_getElem?_getD, List.getElem?_append_left hlt]
      have e2 : (sched ++ [g]).take gi = sched.take gi := List.take_append_of_le_length (by omega)
      rw [e1] at hsrc; rw [e2]
      exact h.early gi hlt s hsrc
    · have hgi' : gi = sched.length := by omega
      subst hgi'
      have e1 : (sched ++ [g]).getD sched.length ⟨[], [], []⟩ = g := by
        simp [List.getD_eq_getElem?_getD]
      have e2 : (sched ++ [g]).take sched.length = sched := by simp
      rw [e1] at hsrc; rw [e2]
      have := (subset_iff.mp hs) s hsrc
      exact (h.mem s).mp this

theorem pass_inv {n : Net} {GS : List Group} : ∀ (l : List Group), (∀ g ∈ l, g ∈ GS) →
    ∀ (done_ : List Nat) (sched : List Group), OInv n GS done_ sched →
    OInv n GS (orderPass l done_ sched).1 (orderPass l done_ sched).2 := by
  intro l
  induction l with
  | nil => intro _ done_ sched h; exact h
  | cons g l ih =>
    intro hl done_ sched h
    rw [orderPass_cons]
    split
    · rename_i hc
      simp only [Bool.and_eq_true, Bool.not_eq_true'] at hc
      exact ih (fun g' hg' => hl g' (by simp [hg'])) _ _ (OInv_step h (hl g (by simp)) hc.1 hc.2)
    · exact ih (fun g' hg' => hl g' (by simp [hg'])) _ _ h

theorem pass_mono : ∀ (l : List Group) (done_ : List Nat) (sched : List Group),
    ∀ x ∈ done_, x ∈ (orderPass l done_ sched).1 := by
  intro l
  induction l with
  | nil => intro _ _ x hx; exact hx
  | cons g l ih =>
    intro done_ sched x hx
    rw [orderPass_cons]
    split
    · exact ih _ _ x (mem_union.mpr (Or.inl hx))
    · exact ih _ _ x hx

theorem pass_hit : ∀ (l : List Group) (done_ : List Nat) (sched : List Group) (g : Group),
    g ∈ l → subset g.srcs done_ = true → ∀ x ∈ g.dsts, x ∈ (orderPass l done_ sched).1 := by
  intro l
  induction l with
  | nil => intro _ _ g hg; simp at hg
  | cons g0 l ih =>
    intro done_ sched g hg hs x hx
    rw [orderPass_cons]
    rcases List.mem_cons.mp hg with rfl | hg
    · split
      · exact pass_mono _ _ _ x (mem_union.mpr (Or.inr hx))
      · rename_i hc
        simp only [Bool.and_eq_true, Bool.not_eq_true', not_and, Bool.not_eq_false] at hc
        exact pass_mono _ _ _ x (subset_iff.mp (hc hs) x hx)
    · split
      · apply ih _ _ g hg _ x hx
        rw [subset_iff] at hs ⊢
        intro y hy; exact mem_union.mpr (Or.inl (hs y hy))
      · exact ih _ _ g hg hs x hx


theorem exists_min_image (f : Nat → Nat) : ∀ (l : List Nat), l ≠ [] → ∃ x ∈ l, ∀ y ∈ l, f x ≤ f y := by
  intro l
  induction l with
  | nil => intro h; exact absurd rfl h
  | cons a t ih =>
    intro _
    by_cases ht : t = []
    · subst ht; exact ⟨a, by simp, by simp⟩
    · obtain ⟨x, hx, hmin⟩ := ih ht
      by_cases hax : f a ≤ f x
      · refine ⟨a, by simp, ?_⟩
        intro y hy
        rcases List.mem_cons.mp hy with rfl | hy
        · exact Nat.le_refl _
        · exact Nat.le_trans hax (hmin y hy)
      · refine ⟨x, by simp [hx], ?_⟩
        intro y hy
        rcases List.mem_cons.mp hy with rfl | hy
        · omega
        · exact hmin y hy

/-- facts about the groups of a valid net -/
theorem group_of_target {n : Net} (hn : VN n) {t : Nat} (ht : t ∈ n.nonInputs) :
    ∃ g ∈ groupsOf n.conns, t ∈ g.dsts ∧ g.srcs = gkey n.conns t := by
  have hG := GInv_groupsOf n.conns
  rw [targets_eq_nonInputs hn] at hG
  obtain ⟨g, hg, hs⟩ := hG.cover t ht
  refine ⟨g, hg, ?_, hs⟩
  rw [hG.dsts g hg, List.mem_filter]
  exact ⟨ht, by simp [hs]⟩

theorem group_dsts_sub {n : Net} (hn : VN n) {g : Group} (hg : g ∈ groupsOf n.conns) :
    ∀ t ∈ g.dsts, t ∈ n.nonInputs ∧ g.srcs = gkey n.conns t := by
  have hG := GInv_groupsOf n.conns
  rw [targets_eq_nonInputs hn] at hG
  intro t ht
  rw [hG.dsts g hg, List.mem_filter] at ht
  exact ⟨ht.1, (beq_iff_eq.mp ht.2).symm⟩

theorem mem_gkey {conns : List (Nat × Nat)} {t s : Nat} : s ∈ gkey conns t ↔ (s, t) ∈ conns := by
  unfold gkey
  rw [List.mem_map]
  constructor
  · rintro ⟨⟨s', i⟩, hp, rfl⟩
    obtain ⟨h, he⟩ := mem_sourcesOf.mp hp
    rw [← he]; exact List.getElem_mem h
  · intro h
    obtain ⟨i, hi, he⟩ := List.mem_iff_getElem.mp h
    exact ⟨(s, i), mem_sourcesOf.mpr ⟨hi, he⟩, rfl⟩

theorem done_sub_nodes {n : Net} (hn : VN n) {done_ : List Nat} {sched : List Group}
    (h : OInv n (groupsOf n.conns) done_ sched) : ∀ x ∈ done_, x ∈ n.nodes := by
  intro x hx
  rcases (h.mem x).mp hx with hi | ⟨g, hg, hxg⟩
  · exact mem_nodes.mpr (Or.inl hi)
  · exact mem_nodes.mpr (Or.inr (group_dsts_sub hn (h.sub g hg) x hxg).1)

theorem nodes_sorted (n : Net) : n.nodes.Pairwise (· < ·) := union_sorted _ _

theorem pass_progress {n : Net} (hn : VN n) {done_ : List Nat} {sched : List Group}
    (h : OInv n (groupsOf n.conns) done_ sched) (hne : done_ ≠ n.nodes) :
    done_.length < (orderPass (groupsOf n.conns) done_ sched).1.length := by
  have hsub := done_sub_nodes hn h
  -- a missing node
  have hmiss : (n.nodes.filter fun x => !done_.contains x) ≠ [] := by
    intro he
    apply hne
    apply eq_of_sorted_of_mem_iff h.sorted (nodes_sorted n)
    intro x
    refine ⟨hsub x, fun hx => ?_⟩
    rw [List.filter_eq_nil_iff] at he
    have := he x hx
    simpa using this
  obtain ⟨x, hx, hmin⟩ := exists_min_image n.layerOf _ hmiss
  rw [List.mem_filter] at hx
  have hxd : x ∉ done_ := by simpa using hx.2
  have hxni : x ∈ n.nonInputs := by
    rcases mem_nodes.mp hx.1 with hi | hni
    · exact absurd ((h.mem x).mpr (Or.inl hi)) hxd
    · exact hni
  obtain ⟨g, hg, hxg, hsrcs⟩ := group_of_target hn hxni
  have hsd : subset g.srcs done_ = true := by
    rw [subset_iff]
    intro s hs
    rw [hsrcs, mem_gkey] at hs
    by_contra hsd
    have hsn : s ∈ n.nodes := by
      rcases (hn.ends _ hs).1 with hi | hh
      · exact mem_nodes.mpr (Or.inl hi)
      · exact mem_nodes.mpr (Or.inr (mem_nonInputs.mpr (Or.inl hh)))
    have := hmin s (List.mem_filter.mpr ⟨hsn, by simpa using hsd⟩)
    have := hn.layer _ hs
    simp only at this
    omega
  have hx' := pass_hit _ done_ sched g hg hsd x hxg
  have hinv := pass_inv (n := n) _ (fun g hg => hg) done_ sched h
  have hnd : (x :: done_).Nodup := List.nodup_cons.mpr ⟨hxd, h.sorted.imp (fun h => Nat.ne_of_lt h)⟩
  have hss : (x :: done_) ⊆ (orderPass (groupsOf n.conns) done_ sched).1 := by
    intro y hy
    rcases List.mem_cons.mp hy with rfl | hy
    · exact hx'
    · exact pass_mono _ _ _ y hy
  have := (List.subperm_of_subset hnd hss).length_le
  simp only [List.length_cons] at this
  omega

theorem loop_ok {n : Net} (hn : VN n) : ∀ (fuel : Nat) (done_ : List Nat) (sched : List Group),
    OInv n (groupsOf n.conns) done_ sched → n.nodes.length - done_.length ≤ fuel →
    ∃ sch, orderLoop (groupsOf n.conns) n.nodes fuel done_ sched = some sch ∧
      OInv n (groupsOf n.conns) n.nodes sch := by
  intro fuel
  induction fuel with
  | zero =>
    intro done_ sched h hf
    have hsub := done_sub_nodes hn h
    have hnd : done_.Nodup := h.sorted.imp (fun h => Nat.ne_of_lt h)
    have hp := (List.subperm_of_subset hnd hsub).perm_of_length_le (by omega)
    have he : done_ = n.nodes := eq_of_sorted_of_mem_iff h.sorted (nodes_sorted n) (fun x => hp.mem_iff)
    refine ⟨sched, ?_, he ▸ h⟩
    simp [orderLoop, he]
  | succ fuel ih =>
    intro done_ sched h hf
    by_cases he : done_ = n.nodes
    · refine ⟨sched, ?_, he ▸ h⟩
      simp [orderLoop, he]
    · have hprog := pass_progress hn h he
      have hinv := pass_inv (n := n) _ (fun g hg => hg) done_ sched h
      obtain ⟨sch, hs1, hs2⟩ := ih _ _ hinv (by omega)
      refine ⟨sch, ?_, hs2⟩
      rw [orderLoop]
      have : (done_ == n.nodes) = false := by simpa using he
      simp only [this]
      exact hs1

theorem OInv_init (n : Net) (GS : List Group) : OInv n GS (norm n.inputs) [] := by
  refine ⟨norm_sorted _, ?_, by simp, by simp, by simp⟩
  intro x; simp [mem_norm]

theorem getOrder_OInv {n : Net} (hn : VN n) :
    ∃ sch, getOrder n = some sch ∧ OInv n (groupsOf n.conns) n.nodes sch := by
  unfold getOrder
  exact loop_ok hn _ _ _ (OInv_init n _) (by omega)


theorem zip_map_fst_snd {α β : Type} (l : List (α × β)) : (l.map (·.1)).zip (l.map (·.2)) = l := by
  induction l with
  | nil => rfl
  | cons a t ih => simpa using ih

theorem valid_of_VS {n : Net} {sch : List Group} (h : VS n sch) : validSchedule n sch = true := by
  unfold validSchedule
  simp only [Bool.and_eq_true, List.all_eq_true, beq_iff_eq, decide_eq_true_eq]
  refine ⟨⟨⟨h.once, ?_⟩, ?_⟩, ?_⟩
  · intro g hg
    refine ⟨⟨?_, h.wlen g hg⟩, fun t ht => by simpa using h.dsub g hg t ht⟩
    rw [eraseDups_of_nodup_gen _ _ (Nat.le_refl _) (h.dnodup g hg)]
  · intro g hg j hj
    obtain ⟨h1, h2, h3, h4⟩ := h.recs g hg j (List.mem_range.mp hj)
    generalize g.wids.getD j [] = wj at *
    generalize g.dsts.getD j 0 = tj at *
    have hms : (g.srcs.zip wj).map (·.2) = wj := List.map_snd_zip (by omega)
    refine ⟨⟨⟨h1, ?_⟩, h3⟩, ?_⟩
    · rw [hms, eraseDups_of_nodup_gen _ _ (Nat.le_refl _) h2]; simp; omega
    · rintro ⟨i, c⟩ hic
      obtain ⟨hi, rfl⟩ := mem_range_zip.mp hic
      by_cases ht : n.conns[i].2 = tj
      · have := h4 i hi ht
        simp [this]
      · simp [ht]
  · intro gi hgi s hs
    have := h.early gi (List.mem_range.mp hgi) s hs
    simpa using this

theorem OInv_final_VS {n : Net} (hn : VN n) {sch : List Group}
    (h : OInv n (groupsOf n.conns) n.nodes sch) : VS n sch := by
  have hG := GInv_groupsOf n.conns
  rw [targets_eq_nonInputs hn] at hG
  refine ⟨?_, ?_, ?_, ?_, ?_, h.early⟩
  · intro t ht
    obtain ⟨g, hg, htg, hsr⟩ := group_of_target hn ht
    have hmem : g ∈ sch := by
      have : t ∈ n.nodes := mem_nodes.mpr (Or.inr ht)
      rcases (h.mem t).mp this with hi | ⟨g', hg', htg'⟩
      · exact absurd ht (hn.disj t hi)
      · have e := (group_dsts_sub hn (h.sub g' hg') t htg').2
        have : g' = g := List.inj_on_of_nodup_map hG.keys (h.sub g' hg') hg (by rw [e, hsr])
        exact this ▸ hg'
    have hfil : sch.filter (fun g' => g'.dsts.contains t) = sch.filter (fun g' => g' == g) := by
      apply List.filter_congr
      intro g' hg'
      by_cases hc : t ∈ g'.dsts
      · have e := (group_dsts_sub hn (h.sub g' hg') t hc).2
        have : g' = g := List.inj_on_of_nodup_map hG.keys (h.sub g' hg') hg (by rw [e, hsr])
        simp [this, htg]
      · have : g' ≠ g := fun e => hc (e ▸ htg)
        simp [hc, this]
    rw [hfil, ← List.countP_eq_length_filter]
    exact List.count_eq_one_of_mem h.nodup hmem
  · intro g hg
    rw [hG.dsts g (h.sub g hg)]
    exact ((union_sorted _ _).imp (fun h => Nat.ne_of_lt h)).sublist List.filter_sublist
  · intro g hg
    rw [hG.wids g (h.sub g hg)]; simp
  · intro g hg t ht
    exact (group_dsts_sub hn (h.sub g hg) t ht).1
  · intro g hg j hj
    have hgs := h.sub g hg
    have htj : g.dsts.getD j 0 = g.dsts[j] := by
      simp [List.getD_eq_getElem?_getD, List.getElem?_eq_getElem hj]
    have hw : g.wids.getD j [] = gw n.conns g.dsts[j] := by
      simp [List.getD_eq_getElem?_getD, hG.wids g hgs, List.getElem?_eq_getElem hj]
    have hs : g.srcs = gkey n.conns g.dsts[j] := (group_dsts_sub hn hgs _ (List.getElem_mem hj)).2
    rw [htj, hw, hs]
    have hz : (gkey n.conns g.dsts[j]).zip (gw n.conns g.dsts[j]) = sourcesOf n.conns g.dsts[j] :=
      zip_map_fst_snd _
    rw [hz]
    refine ⟨by simp [gw, gkey], sourcesOf_idx_nodup _ _, ?_, ?_⟩
    · rintro ⟨s, i⟩ hp
      obtain ⟨hi, he⟩ := mem_sourcesOf.mp hp
      exact ⟨by simp [List.getD_eq_getElem?_getD, List.getElem?_eq_getElem hi, he], hi⟩
    · intro i hi he
      apply mem_sourcesOf.mpr
      exact ⟨hi, by rw [← he]⟩

theorem getOrder_valid (n : Net) (hv : validNet n = true) :
    ∃ sch, getOrder n = some sch ∧ validSchedule n sch = true := by
  have hn := (validNet_iff n).mp hv
  obtain ⟨sch, h1, h2⟩ := getOrder_OInv hn
  exact ⟨sch, h1, valid_of_VS (OInv_final_VS hn h2)⟩


theorem srcPairs_map_fst (conns : List (Nat × Nat)) (t : Nat) :
    (srcPairs conns t).map (·.1) = (conns.filter fun c => c.2 == t).map (·.1) := by
  unfold srcPairs
  have h2 : ((List.range conns.length).zip conns).map (·.2) = conns := List.map_snd_zip (by simp)
  conv => rhs; rw [← h2]
  rw [List.filter_map, List.map_map, List.map_map]
  rfl

theorem gkey_eq_norm {conns : List (Nat × Nat)} (hn : conns.Nodup) (t : Nat) :
    gkey conns t = norm ((conns.filter fun c => c.2 == t).map (·.1)) := by
  have hperm : (gkey conns t).Perm ((conns.filter fun c => c.2 == t).map (·.1)) := by
    rw [← srcPairs_map_fst]
    exact (sourcesOf_perm conns t).map _
  have hnd : ((conns.filter fun c => c.2 == t).map (·.1)).Nodup := by
    apply List.Nodup.map_on _ (hn.sublist List.filter_sublist)
    intro c hc c' hc' he
    have h1 : c.2 = t := by simpa using (List.mem_filter.mp hc).2
    have h2 : c'.2 = t := by simpa using (List.mem_filter.mp hc').2
    exact Prod.ext he (h1.trans h2.symm)
  have hsorted : (gkey conns t).Pairwise (· < ·) := by
    have h1 : (gkey conns t).Pairwise (· ≤ ·) := by
      unfold gkey; rw [List.pairwise_map]; exact sourcesOf_sorted conns t
    have h2 : (gkey conns t).Pairwise (· ≠ ·) := hperm.nodup_iff.mpr hnd
    exact (h1.and h2).imp (fun h => Nat.lt_of_le_of_ne h.1 h.2)
  apply eq_of_sorted_of_mem_iff hsorted (norm_sorted _)
  intro x
  rw [mem_norm, hperm.mem_iff]

theorem share_all {n : Net} (hs : shareSources n = true) : ∀ o1 ∈ n.outputs, ∀ o2 ∈ n.outputs,
    norm ((n.conns.filter fun c => c.2 == o1).map (·.1)) = norm ((n.conns.filter fun c => c.2 == o2).map (·.1)) := by
  unfold shareSources at hs
  cases ho : n.outputs with
  | nil => intro o1 h1; simp at h1
  | cons o os =>
    rw [ho] at hs
    simp only [List.all_eq_true, beq_iff_eq] at hs
    have key : ∀ o' ∈ o :: os, norm ((n.conns.filter fun c => c.2 == o').map (·.1)) =
        norm ((n.conns.filter fun c => c.2 == o).map (·.1)) := by
      intro o' ho'
      rcases List.mem_cons.mp ho' with rfl | ho'
      · rfl
      · exact hs o' ho'
    intro o1 h1 o2 h2
    rw [key o1 h1, key o2 h2]

theorem softmax_together (n : Net) (sch : List Group) (hv : validNet n = true)
    (hs : shareSources n = true) (h5 : ∀ t ∈ n.nonInputs, n.activ t = 5 → t ∈ n.outputs)
    (ho : getOrder n = some sch) : softmaxTogether n sch = true := by
  have hn := (validNet_iff n).mp hv
  obtain ⟨sch', h1, h2⟩ := getOrder_OInv hn
  rw [ho] at h1
  cases h1
  have hG := GInv_groupsOf n.conns
  rw [targets_eq_nonInputs hn] at hG
  unfold softmaxTogether
  simp only [List.all_eq_true, Bool.or_eq_true, Bool.not_eq_true', List.any_eq_false, beq_iff_eq,
    bne_iff_ne, ne_eq, decide_eq_true_eq, List.contains_eq_mem]
  intro g hg
  by_cases hex : ∃ t ∈ g.dsts, n.activ t = 5
  · right
    obtain ⟨t, ht, ht5⟩ := hex
    have hgs := h2.sub g hg
    obtain ⟨htn, hsr⟩ := group_dsts_sub hn hgs t ht
    have hto := h5 t htn ht5
    intro t' ht'
    by_cases h5' : n.activ t' = 5
    · right
      have hto' := h5 t' ht' h5'
      have : gkey n.conns t' = g.srcs := by
        rw [hsr, gkey_eq_norm hn.cnodup, gkey_eq_norm hn.cnodup]
        exact share_all hs t' hto' t hto
      rw [hG.dsts g hgs, List.mem_filter]
      exact ⟨ht', by simp [this]⟩
    · exact Or.inl h5'
  · left
    intro t ht h
    exact hex ⟨t, ht, h⟩


/-! ## decoding a genotype -/

/-- level of a node w.r.t. a list of hidden blocks (0 = not hidden) -/
def lvlH (H : List (List Nat)) (x : Nat) : Nat :=
  match H.findIdx? (fun l => l.contains x) with
  | some j => j + 1
  | none => 0

theorem layerOf_eq (n : Net) (x : Nat) :
    n.layerOf x = if n.outputs.contains x then n.hidden.length + 1 else lvlH n.hidden x := rfl

theorem lvlH_nil (x : Nat) : lvlH [] x = 0 := rfl

theorem lvlH_cons (a : List Nat) (H : List (List Nat)) (x : Nat) :
    lvlH (a :: H) x = if x ∈ a then 1 else (if lvlH H x = 0 then 0 else lvlH H x + 1) := by
  unfold lvlH
  rw [List.findIdx?_cons]
  by_cases hx : x ∈ a
  · simp [hx]
  · simp only [List.contains_eq_mem, hx, decide_false, Bool.false_eq_true, if_false]
    cases List.findIdx? (fun l => decide (x ∈ l)) H <;> simp

theorem lvlH_le (H : List (List Nat)) (x : Nat) : lvlH H x ≤ H.length := by
  induction H with
  | nil => simp [lvlH_nil]
  | cons a H ih => rw [lvlH_cons]; simp only [List.length_cons]; split <;> [omega; (split <;> omega)]

theorem lvlH_pos_iff (H : List (List Nat)) (x : Nat) : 0 < lvlH H x ↔ x ∈ H.flatten := by
  induction H with
  | nil => simp [lvlH_nil]
  | cons a H ih =>
    rw [lvlH_cons, List.flatten_cons, List.mem_append, ← ih]
    by_cases hx : x ∈ a
    · simp [hx]
    · simp only [hx, if_false, false_or]
      split <;> omega

theorem lvlH_eq_zero {H : List (List Nat)} {x : Nat} (h : x ∉ H.flatten) : lvlH H x = 0 := by
  have := (lvlH_pos_iff H x).not.mpr h
  omega

theorem lvlH_append_left (A B : List (List Nat)) (x : Nat) (h : x ∈ A.flatten) :
    lvlH (A ++ B) x = lvlH A x := by
  induction A with
  | nil => simp at h
  | cons a A ih =>
    rw [List.cons_append, lvlH_cons, lvlH_cons]
    by_cases hx : x ∈ a
    · simp [hx]
    · have hA : x ∈ A.flatten := by
        rw [List.flatten_cons, List.mem_append] at h
        exact h.resolve_left hx
      simp only [hx, if_false]
      rw [ih hA]

theorem lvlH_append_right (A B : List (List Nat)) (x : Nat) (h : x ∉ A.flatten) (hB : x ∈ B.flatten) :
    lvlH (A ++ B) x = lvlH B x + A.length := by
  induction A with
  | nil => simp
  | cons a A ih =>
    rw [List.flatten_cons, List.mem_append, not_or] at h
    rw [List.cons_append, lvlH_cons]
    have hpos := (lvlH_pos_iff B x).mpr hB
    simp only [h.1, if_false, ih h.2, List.length_cons]
    split <;> omega

theorem mem_flatten_zipLayers (A B : List (List Nat)) (x : Nat) :
    x ∈ (zipLayers A B).flatten ↔ x ∈ A.flatten ∨ x ∈ B.flatten := by
  induction A generalizing B with
  | nil => simp [zipLayers]
  | cons a A ih =>
    cases B with
    | nil => simp [zipLayers]
    | cons b B =>
      simp only [zipLayers, List.flatten_cons, List.mem_append, mem_union, ih]
      tauto

theorem lvlH_zip_left (A B : List (List Nat)) (x : Nat) (h : x ∉ B.flatten) :
    lvlH (zipLayers A B) x = lvlH A x := by
  induction A generalizing B with
  | nil =>
    simp only [zipLayers, lvlH_nil]
    exact lvlH_eq_zero h
  | cons a A ih =>
    cases B with
    | nil => simp [zipLayers]
    | cons b B =>
      rw [List.flatten_cons, List.mem_append, not_or] at h
      simp only [zipLayers, lvlH_cons, mem_union, h.1, or_false, ih B h.2]

theorem lvlH_zip_right (A B : List (List Nat)) (x : Nat) (h : x ∉ A.flatten) :
    lvlH (zipLayers A B) x = lvlH B x := by
  induction A generalizing B with
  | nil => simp [zipLayers]
  | cons a A ih =>
    cases B with
    | nil =>
      simp only [zipLayers, lvlH_nil]
      exact lvlH_eq_zero h
    | cons b B =>
      rw [List.flatten_cons, List.mem_append, not_or] at h
      simp only [zipLayers, lvlH_cons, mem_union, h.1, false_or, ih B h.2]

theorem mem_hiddens_flat {n : Net} {x : Nat} : x ∈ n.hiddens ↔ x ∈ n.hidden.flatten := by
  simp [Net.hiddens, mem_norm]


/-- invariant of a stack entry of the decoder (all hidden ids in `[nVars, n)`) -/
structure SInv (nVars : Nat) (net : Net) (n : Nat) : Prop where
  out : net.outputs = []
  inp : ∀ i ∈ net.inputs, i < nVars
  hid : ∀ x ∈ net.hidden.flatten, nVars ≤ x ∧ x < n
  conn : ∀ c ∈ net.conns, (c.1 ∈ net.inputs ∨ c.1 ∈ net.hidden.flatten) ∧ c.2 ∈ net.hidden.flatten ∧
    lvlH net.hidden c.1 < lvlH net.hidden c.2
  act : ∀ h ∈ net.hidden.flatten, ∃ p ∈ net.activs, p.1 = h
  actlt : ∀ p ∈ net.activs, p.1 < n

def Disj (a b : Net) : Prop := ∀ x ∈ a.hidden.flatten, x ∉ b.hidden.flatten

theorem SInv.mono {nVars : Nat} {net : Net} {n m : Nat} (h : SInv nVars net n) (hnm : n ≤ m) :
    SInv nVars net m :=
  ⟨h.out, h.inp, fun x hx => ⟨(h.hid x hx).1, by have := (h.hid x hx).2; omega⟩, h.conn, h.act,
    fun p hp => by have := h.actlt p hp; omega⟩

theorem SInv.inp_not_hid {nVars : Nat} {a b : Net} {n : Nat} (ha : SInv nVars a n) (hb : SInv nVars b n)
    {i : Nat} (hi : i ∈ a.inputs) : i ∉ b.hidden.flatten := by
  intro h
  have := ha.inp i hi
  have := (hb.hid i h).1
  omega

theorem addMain_inv {nVars : Nat} {a b : Net} {n : Nat} (ha : SInv nVars a n) (hb : SInv nVars b n)
    (hd : Disj a b) : SInv nVars (addMain a b) n := by
  have hd' : ∀ x ∈ b.hidden.flatten, x ∉ a.hidden.flatten := fun x hx hxa => hd x hxa hx
  refine ⟨?_, ?_, ?_, ?_, ?_, ?_⟩
  · simp [addMain, ha.out, hb.out, union]
  · intro i hi
    rcases mem_union.mp hi with hi | hi
    · exact ha.inp i hi
    · exact hb.inp i hi
  · intro x hx
    rcases (mem_flatten_zipLayers _ _ x).mp hx with hx | hx
    · exact ha.hid x hx
    · exact hb.hid x hx
  · intro c hc
    show (c.1 ∈ union a.inputs b.inputs ∨ c.1 ∈ (zipLayers a.hidden b.hidden).flatten) ∧
      c.2 ∈ (zipLayers a.hidden b.hidden).flatten ∧
      lvlH (zipLayers a.hidden b.hidden) c.1 < lvlH (zipLayers a.hidden b.hidden) c.2
    simp only [mem_flatten_zipLayers, mem_union]
    rcases List.mem_append.mp hc with hc | hc
    · obtain ⟨h1, h2, h3⟩ := ha.conn c hc
      have e2 : c.2 ∉ b.hidden.flatten := hd _ h2
      have e1 : c.1 ∉ b.hidden.flatten := by
        rcases h1 with h1 | h1
        · exact ha.inp_not_hid hb h1
        · exact hd _ h1
      rw [lvlH_zip_left _ _ _ e1, lvlH_zip_left _ _ _ e2]
      exact ⟨by tauto, Or.inl h2, h3⟩
    · obtain ⟨h1, h2, h3⟩ := hb.conn c hc
      have e2 : c.2 ∉ a.hidden.flatten := hd' _ h2
      have e1 : c.1 ∉ a.hidden.flatten := by
        rcases h1 with h1 | h1
        · exact hb.inp_not_hid ha h1
        · exact hd' _ h1
      rw [lvlH_zip_right _ _ _ e1, lvlH_zip_right _ _ _ e2]
      exact ⟨by tauto, Or.inr h2, h3⟩
  · intro h hh
    show ∃ p ∈ a.activs ++ b.activs, p.1 = h
    rcases (mem_flatten_zipLayers _ _ h).mp hh with hh | hh
    · obtain ⟨p, hp, e⟩ := ha.act h hh; exact ⟨p, List.mem_append.mpr (Or.inl hp), e⟩
    · obtain ⟨p, hp, e⟩ := hb.act h hh; exact ⟨p, List.mem_append.mpr (Or.inr hp), e⟩
  · intro p hp
    rcases List.mem_append.mp hp with hp | hp
    · exact ha.actlt p hp
    · exact hb.actlt p hp

theorem addMain_flat (a b : Net) (x : Nat) :
    x ∈ (addMain a b).hidden.flatten ↔ x ∈ a.hidden.flatten ∨ x ∈ b.hidden.flatten :=
  mem_flatten_zipLayers _ _ x

theorem gtMain_flat (a b : Net) (x : Nat) :
    x ∈ (gtMain a b).hidden.flatten ↔ x ∈ a.hidden.flatten ∨ x ∈ b.hidden.flatten := by
  simp [gtMain]

theorem gtMain_inv {nVars : Nat} {a b : Net} {n : Nat} (ha : SInv nVars a n) (hb : SInv nVars b n)
    (hd : Disj a b) : SInv nVars (gtMain a b) n := by
  have hd' : ∀ x ∈ b.hidden.flatten, x ∉ a.hidden.flatten := fun x hx hxa => hd x hxa hx
  refine ⟨?_, ?_, ?_, ?_, ?_, ?_⟩
  · simp [gtMain, ha.out, hb.out, union]
  · intro i hi
    rcases mem_union.mp hi with hi | hi
    · exact ha.inp i hi
    · exact hb.inp i hi
  · intro x hx
    rcases (gtMain_flat a b x).mp hx with hx | hx
    · exact ha.hid x hx
    · exact hb.hid x hx
  · intro c hc
    show (c.1 ∈ union a.inputs b.inputs ∨ c.1 ∈ (a.hidden ++ b.hidden).flatten) ∧
      c.2 ∈ (a.hidden ++ b.hidden).flatten ∧
      lvlH (a.hidden ++ b.hidden) c.1 < lvlH (a.hidden ++ b.hidden) c.2
    have hc' : c ∈ a.conns ++ b.conns ++ product
        (diff (union a.inputs a.hiddens) (a.conns.map (·.1)))
        (diff (union b.hiddens b.outputs)
          ((b.conns.filter fun c => !b.inputs.contains c.1).map (·.2))) := hc
    simp only [List.flatten_append, List.mem_append, mem_union]
    rcases List.mem_append.mp hc' with hc' | hc'
    · rcases List.mem_append.mp hc' with hc' | hc'
      · obtain ⟨h1, h2, h3⟩ := ha.conn c hc'
        rw [lvlH_append_left _ _ _ h2]
        refine ⟨by tauto, Or.inl h2, ?_⟩
        rcases h1 with h1 | h1
        · have e1 : c.1 ∉ (a.hidden ++ b.hidden).flatten := by
            simp only [List.flatten_append, List.mem_append, not_or]
            exact ⟨ha.inp_not_hid ha h1, ha.inp_not_hid hb h1⟩
          rw [lvlH_eq_zero e1]
          omega
        · rw [lvlH_append_left _ _ _ h1]; exact h3
      · obtain ⟨h1, h2, h3⟩ := hb.conn c hc'
        rw [lvlH_append_right _ _ _ (hd' _ h2) h2]
        refine ⟨by tauto, Or.inr h2, ?_⟩
        rcases h1 with h1 | h1
        · have e1 : c.1 ∉ (a.hidden ++ b.hidden).flatten := by
            simp only [List.flatten_append, List.mem_append, not_or]
            exact ⟨hb.inp_not_hid ha h1, hb.inp_not_hid hb h1⟩
          rw [lvlH_eq_zero e1]
          omega
        · rw [lvlH_append_right _ _ _ (hd' _ h1) h1]; omega
    · obtain ⟨h1, h2⟩ := mem_product.mp hc'
      have h1' := (mem_diff.mp h1).1
      have h2' := (mem_diff.mp h2).1
      rw [hb.out, mem_union, mem_hiddens_flat] at h2'
      have h2b : c.2 ∈ b.hidden.flatten := by simpa using h2'
      rw [mem_union, mem_hiddens_flat] at h1'
      rw [lvlH_append_right _ _ _ (hd' _ h2b) h2b]
      have hpos := (lvlH_pos_iff b.hidden c.2).mpr h2b
      refine ⟨by tauto, Or.inr h2b, ?_⟩
      rcases h1' with h1' | h1'
      · have e1 : c.1 ∉ (a.hidden ++ b.hidden).flatten := by
          simp only [List.flatten_append, List.mem_append, not_or]
          exact ⟨ha.inp_not_hid ha h1', ha.inp_not_hid hb h1'⟩
        rw [lvlH_eq_zero e1]
        omega
      · rw [lvlH_append_left _ _ _ h1']
        have := lvlH_le a.hidden c.1
        omega
  · intro h hh
    show ∃ p ∈ a.activs ++ b.activs, p.1 = h
    rcases (gtMain_flat a b h).mp hh with hh | hh
    · obtain ⟨p, hp, e⟩ := ha.act h hh; exact ⟨p, List.mem_append.mpr (Or.inl hp), e⟩
    · obtain ⟨p, hp, e⟩ := hb.act h hh; exact ⟨p, List.mem_append.mpr (Or.inr hp), e⟩
  · intro p hp
    rcases List.mem_append.mp hp with hp | hp
    · exact ha.actlt p hp
    · exact hb.actlt p hp


theorem Disj.symm {a b : Net} (h : Disj a b) : Disj b a := fun x hx hxa => h x hxa hx

theorem add_cases (a b : Net) : add a b = gtMain a b ∨ add a b = gtMain b a ∨ add a b = addMain a b := by
  unfold add
  simp only
  split
  · exact Or.inl rfl
  · split
    · exact Or.inr (Or.inl rfl)
    · exact Or.inr (Or.inr rfl)

theorem gt_cases (a b : Net) : gt a b = gtMain a b ∨ gt a b = gtMain b a ∨ gt a b = addMain a b := by
  unfold gt
  simp only
  split
  · exact Or.inr (Or.inr rfl)
  · split
    · exact Or.inr (Or.inl rfl)
    · exact Or.inl rfl

theorem comb_inv {nVars : Nat} {a b r : Net} {n : Nat} (ha : SInv nVars a n) (hb : SInv nVars b n)
    (hd : Disj a b) (hr : r = gtMain a b ∨ r = gtMain b a ∨ r = addMain a b) :
    SInv nVars r n ∧ ∀ x, x ∈ r.hidden.flatten ↔ x ∈ a.hidden.flatten ∨ x ∈ b.hidden.flatten := by
  rcases hr with rfl | rfl | rfl
  · exact ⟨gtMain_inv ha hb hd, gtMain_flat a b⟩
  · exact ⟨gtMain_inv hb ha hd.symm, fun x => (gtMain_flat b a x).trans Or.comm⟩
  · exact ⟨addMain_inv ha hb hd, addMain_flat a b⟩

def StackInv (nVars : Nat) (stack : List Net) (n : Nat) : Prop :=
  (∀ e ∈ stack, SInv nVars e n) ∧ stack.Pairwise Disj

def symOK (nVars : Nat) (s : NSym) : Prop :=
  match s with
  | .inp vars => vars ≠ [] ∧ ∀ v ∈ vars, v < nVars
  | .hid size _ => 0 < size
  | _ => True

theorem comb_stack {nVars : Nat} {x y r : Net} {stack : List Net} {n : Nat}
    (h : StackInv nVars (x :: y :: stack) n)
    (hr : r = gtMain x y ∨ r = gtMain y x ∨ r = addMain x y) : StackInv nVars (r :: stack) n := by
  obtain ⟨h1, h2⟩ := h
  rw [List.pairwise_cons, List.pairwise_cons] at h2
  obtain ⟨hx, hy, hst⟩ := h2
  have hxy : Disj x y := hx y (by simp)
  obtain ⟨hr1, hr2⟩ := comb_inv (h1 x (by simp)) (h1 y (by simp)) hxy hr
  refine ⟨?_, ?_⟩
  · intro e he
    rcases List.mem_cons.mp he with rfl | he
    · exact hr1
    · exact h1 e (by simp [he])
  · rw [List.pairwise_cons]
    refine ⟨?_, hst⟩
    intro e he z hz
    rcases (hr2 z).mp hz with hz | hz
    · exact hx e (by simp [he]) z hz
    · exact hy e he z hz

theorem decodeStep_inv {nVars : Nat} {stack : List Net} {n : Nat} (s : NSym)
    (h : StackInv nVars stack n) (hn : nVars ≤ n) (hs : symOK nVars s) :
    StackInv nVars (decodeStep (stack, n) s).1 (decodeStep (stack, n) s).2 ∧
    nVars ≤ (decodeStep (stack, n) s).2 ∧
    (stack ≠ [] → (decodeStep (stack, n) s).1 ≠ []) ∧
    (s.arity = 0 → (decodeStep (stack, n) s).1 ≠ []) := by
  cases s with
  | inp vars =>
    simp only [decodeStep]
    refine ⟨⟨?_, ?_⟩, hn, by simp, by simp⟩
    · intro e he
      rcases List.mem_cons.mp he with rfl | he
      · refine ⟨rfl, ?_, by simp, by simp, by simp, by simp⟩
        intro i hi
        exact hs.2 i (mem_norm.mp hi)
      · exact h.1 e he
    · rw [List.pairwise_cons]
      exact ⟨fun e _ x hx => by simp at hx, h.2⟩
  | hid size activ =>
    simp only [decodeStep]
    refine ⟨⟨?_, ?_⟩, by omega, by simp, by simp⟩
    · intro e he
      rcases List.mem_cons.mp he with rfl | he
      · refine ⟨rfl, by simp, ?_, by simp, ?_, ?_⟩
        · intro x hx
          simp only [List.flatten_cons, List.flatten_nil, List.append_nil, List.mem_map, List.mem_range] at hx
          obtain ⟨a, ha, rfl⟩ := hx
          omega
        · intro x hx
          simp only [List.flatten_cons, List.flatten_nil, List.append_nil] at hx
          exact ⟨(x, activ), List.mem_map.mpr ⟨x, hx, rfl⟩, rfl⟩
        · intro p hp
          simp only [List.mem_map, List.mem_range] at hp
          obtain ⟨a, ⟨b, hb, rfl⟩, rfl⟩ := hp
          simp; omega
      · exact (h.1 e he).mono (by omega)
    · rw [List.pairwise_cons]
      refine ⟨?_, h.2⟩
      intro e he x hx hxe
      simp only [List.flatten_cons, List.flatten_nil, List.append_nil, List.mem_map, List.mem_range] at hx
      obtain ⟨a, ha, rfl⟩ := hx
      have := ((h.1 e he).hid _ hxe).2
      omega
  | plus =>
    match stack, h with
    | [], h => exact ⟨h, hn, by simp, by simp [NSym.arity]⟩
    | [x], h => exact ⟨h, hn, by simp [decodeStep], by simp [NSym.arity]⟩
    | x :: y :: st, h =>
      exact ⟨comb_stack h (add_cases x y), hn, by simp [decodeStep], by simp [decodeStep]⟩
  | gtr =>
    match stack, h with
    | [], h => exact ⟨h, hn, by simp, by simp [NSym.arity]⟩
    | [x], h => exact ⟨h, hn, by simp [decodeStep], by simp [NSym.arity]⟩
    | x :: y :: st, h =>
      exact ⟨comb_stack h (gt_cases x y), hn, by simp [decodeStep], by simp [decodeStep]⟩

theorem decodeFold_inv {nVars : Nat} : ∀ (l : List NSym) (stack : List Net) (n : Nat),
    StackInv nVars stack n → nVars ≤ n → (∀ s ∈ l, symOK nVars s) → stack ≠ [] →
    StackInv nVars (l.foldl decodeStep (stack, n)).1 (l.foldl decodeStep (stack, n)).2 ∧
    nVars ≤ (l.foldl decodeStep (stack, n)).2 ∧ (l.foldl decodeStep (stack, n)).1 ≠ [] := by
  intro l
  induction l with
  | nil => intro stack n h hn _ hne; exact ⟨h, hn, hne⟩
  | cons s l ih =>
    intro stack n h hn hs hne
    obtain ⟨h1, h2, h3, _⟩ := decodeStep_inv s h hn (hs s (by simp))
    rw [List.foldl_cons]
    exact ih _ _ h1 h2 (fun s' hs' => hs s' (by simp [hs'])) (h3 hne)


theorem wfArity_last : ∀ (L : List Nat) (k : Nat), 0 < k → wfArity k L = true →
    ∃ init, L = init ++ [0] := by
  intro L
  induction L with
  | nil => intro k hk h; cases k with
    | zero => omega
    | succ p => simp [wfArity] at h
  | cons a rest ih =>
    intro k hk h
    cases k with
    | zero => omega
    | succ p =>
      simp only [wfArity] at h
      cases rest with
      | nil =>
        cases hpa : p + a with
        | zero => exact ⟨[], by simp; omega⟩
        | succ q => rw [hpa] at h; simp [wfArity] at h
      | cons b rest' =>
        cases hpa : p + a with
        | zero => rw [hpa] at h; simp [wfArity] at h
        | succ q =>
          obtain ⟨init, hi⟩ := ih (p + a) (by omega) h
          exact ⟨a :: init, by rw [hi]; rfl⟩

def outNet (n nOut outAct : Nat) : Net :=
  { outputs := (List.range nOut).map (· + n), activs := ((List.range nOut).map (· + n)).map fun i => (i, outAct) }

theorem decode_top (l : List NSym) (nVars nOut outAct : Nat)
    (hs : ∀ s ∈ l, symOK nVars s) (hw : wfArity 1 (l.map NSym.arity) = true) :
    ∃ top n, decode l nVars nOut outAct = some (fix (gt top (outNet n nOut outAct)) (List.range nVars)) ∧
      SInv nVars top n ∧ nVars ≤ n := by
  obtain ⟨init, hi⟩ := wfArity_last _ 1 (by omega) hw
  -- the last symbol is a terminal
  have hl : ∃ l' s, l = l' ++ [s] ∧ s.arity = 0 := by
    rcases List.eq_nil_or_concat l with rfl | ⟨l', s, rfl⟩
    · simp at hi
    · refine ⟨l', s, by simp, ?_⟩
      simp only [List.concat_eq_append, List.map_append, List.map_cons, List.map_nil] at hi
      have := List.append_inj_right' hi (by simp)
      simpa using this
  obtain ⟨l', s, rfl, hs0⟩ := hl
  have h0 : StackInv nVars [] nVars := ⟨by simp, List.Pairwise.nil⟩
  obtain ⟨h1, h2, _, h4⟩ := decodeStep_inv s h0 (Nat.le_refl _) (hs s (by simp))
  obtain ⟨h5, h6, h7⟩ := decodeFold_inv l'.reverse _ _ h1 h2
    (fun s' hs' => hs s' (by simp [List.mem_reverse.mp hs'])) (h4 hs0)
  unfold decode
  simp only [List.reverse_append, List.reverse_cons, List.reverse_nil, List.nil_append, List.cons_append,
    List.foldl_cons]
  generalize List.foldl decodeStep (decodeStep ([], nVars) s) l'.reverse = res at h5 h6 h7
  obtain ⟨stack, n⟩ := res
  cases stack with
  | nil => exact absurd rfl h7
  | cons top rest =>
    exact ⟨top, n, rfl, h5.1 top (by simp), h6⟩


theorem eraseDups_nodup_aux {α : Type} [BEq α] [LawfulBEq α] (n : Nat) :
    ∀ l : List α, l.length ≤ n → l.eraseDups.Nodup := by
  induction n with
  | zero => intro l hl; have : l = [] := List.length_eq_zero_iff.mp (by omega); subst this; simp
  | succ n ih =>
    intro l hl
    cases l with
    | nil => simp
    | cons a as =>
      rw [List.eraseDups_cons, List.nodup_cons]
      refine ⟨?_, ih _ ?_⟩
      · rw [List.mem_eraseDups, List.mem_filter]
        simp
      · have := List.length_filter_le (fun b => !b == a) as
        simp at hl; omega

theorem sortPairs_nodup (l : List (Nat × Nat)) : (sortPairs l).Nodup :=
  eraseDups_nodup_aux _ _ (Nat.le_refl _)

theorem mem_sortPairs {l : List (Nat × Nat)} {c : Nat × Nat} : c ∈ sortPairs l ↔ c ∈ l := by
  unfold sortPairs
  rw [List.mem_eraseDups, List.mem_mergeSort]

theorem product_nil_right (l : List Nat) : product l [] = [] := by
  induction l with
  | nil => rfl
  | cons a t ih => simp [product]

theorem fix_eq (m : Net) (all : List Nat) :
    fix m all =
      { m with
        inputs := if (diff (union m.hiddens m.outputs) (m.conns.map (·.2))).length > 0 then
            (if m.inputs.length = 0 then all else m.inputs) else m.inputs,
        conns := sortPairs (m.conns ++ product (if m.inputs.length = 0 then all else m.inputs)
            (diff (union m.hiddens m.outputs) (m.conns.map (·.2)))) } := by
  unfold fix
  simp only
  split
  · rfl
  · rename_i h
    have : diff (union m.hiddens m.outputs) (m.conns.map (·.2)) = [] :=
      List.length_eq_zero_iff.mp (by omega)
    simp [this, product_nil_right]

theorem gt_outNet (top : Net) (n nOut outAct : Nat) (hto : top.outputs = []) :
    gt top (outNet n nOut outAct) =
      { inputs := union top.inputs [], hidden := top.hidden ++ [], outputs := ids n nOut,
        conns := top.conns ++ product (diff (union top.inputs top.hiddens) (top.conns.map (·.1))) (ids n nOut),
        activs := top.activs ++ (ids n nOut).map fun i => (i, outAct) } := by
  have hls := ids_sorted n nOut
  unfold gt
  simp only [outNet, List.length_nil]
  rw [if_neg (by omega), if_neg (by omega)]
  unfold gtMain
  simp only [hto, List.filter_nil, List.map_nil, diff_nil, List.append_nil, Net.hiddens, List.flatten_nil,
    norm_nil]
  have e : (List.range nOut).map (· + n) = ids n nOut := rfl
  simp only [e, union_nil_left hls]


theorem reaches_of_layers (N : Net) (L : Nat)
    (hmax : ∀ x, x ∉ N.outputs → N.layerOf x ≤ L)
    (hout : ∀ h ∈ N.hiddens, h ∉ N.outputs →
      ∃ c ∈ N.conns, c.1 = h ∧ (c.2 ∈ N.hiddens ∨ c.2 ∈ N.outputs) ∧ N.layerOf h < N.layerOf c.2) :
    ∀ (k : Nat) (x : Nat), (x ∈ N.hiddens ∨ x ∈ N.outputs) → L + 1 - N.layerOf x ≤ k →
      reaches N k x = true := by
  intro k
  induction k with
  | zero =>
    intro x hx hk
    have : x ∈ N.outputs := by
      by_contra hno
      have := hmax x hno
      omega
    simp [reaches, this]
  | succ k ih =>
    intro x hx hk
    by_cases hxo : x ∈ N.outputs
    · simp [reaches, hxo]
    · have hxh : x ∈ N.hiddens := hx.resolve_right hxo
      obtain ⟨c, hc, hc1, hc2, hlt⟩ := hout x hxh hxo
      have := ih c.2 hc2 (by omega)
      simp only [reaches, Bool.or_eq_true, List.any_eq_true, Bool.and_eq_true, beq_iff_eq]
      exact Or.inr ⟨c, hc, hc1, this⟩

theorem shareSources_of {N : Net}
    (h : ∀ o1 ∈ N.outputs, ∀ o2 ∈ N.outputs, ∀ s, (s, o1) ∈ N.conns → (s, o2) ∈ N.conns) :
    shareSources N = true := by
  unfold shareSources
  cases ho : N.outputs with
  | nil => rfl
  | cons o os =>
    simp only [List.all_eq_true, beq_iff_eq]
    intro o' ho'
    apply norm_eq_of_mem_iff
    intro s
    have key : ∀ t, s ∈ (N.conns.filter fun c => c.2 == t).map (·.1) ↔ (s, t) ∈ N.conns := by
      intro t
      simp only [List.mem_map, List.mem_filter, beq_iff_eq]
      constructor
      · rintro ⟨c, ⟨hc, rfl⟩, rfl⟩; exact hc
      · intro hc; exact ⟨(s, t), ⟨hc, rfl⟩, rfl⟩
    rw [key, key]
    have h1 : o' ∈ N.outputs := by rw [ho]; simp [ho']
    have h2 : o ∈ N.outputs := by rw [ho]; simp
    exact ⟨h o' h1 o h2 s, h o h2 o' h1 s⟩


theorem final_core (nVars nOut outAct : Nat) (ho : 0 < nOut) (top : Net) (n : Nat)
    (ht : SInv nVars top n) (hn : nVars ≤ n) (I ins U F : List Nat)
    (hF : F = diff (union top.inputs top.hiddens) (top.conns.map (·.1)))
    (hins_lt : ∀ x ∈ ins, x < nVars) (hins_ne : ins ≠ [])
    (hI_lt : ∀ x ∈ I, x < nVars) (hMi_I : ∀ x ∈ top.inputs, x ∈ I) (hU_I : U ≠ [] → I = ins)
    (hU : ∀ x, x ∈ U ↔ (x ∈ top.hidden.flatten ∨ x ∈ ids n nOut) ∧
      x ∉ (top.conns ++ product F (ids n nOut)).map (·.2))
    (N : Net)
    (hN : N = { inputs := I, hidden := top.hidden, outputs := ids n nOut,
                conns := sortPairs (top.conns ++ product F (ids n nOut) ++ product ins U),
                activs := top.activs ++ (ids n nOut).map fun i => (i, outAct) }) :
    VN N ∧ shareSources N = true ∧ N.outputs.length = nOut ∧ ∀ o ∈ N.outputs, N.activ o = outAct := by
  have hNi : N.inputs = I := by rw [hN]
  have hNh : N.hidden = top.hidden := by rw [hN]
  have hNo : N.outputs = ids n nOut := by rw [hN]
  have hNa : N.activs = top.activs ++ (ids n nOut).map fun i => (i, outAct) := by rw [hN]
  have hNc : ∀ c, c ∈ N.conns ↔ c ∈ top.conns ∨ c ∈ product F (ids n nOut) ∨ c ∈ product ins U := by
    intro c; rw [hN]; simp only [mem_sortPairs, List.mem_append, or_assoc]
  have hNnd : N.conns.Nodup := by rw [hN]; exact sortPairs_nodup _
  have hhid : ∀ x, x ∈ N.hiddens ↔ x ∈ top.hidden.flatten := by
    intro x; rw [mem_hiddens_flat, hNh]
  have hflat : ∀ x ∈ top.hidden.flatten, nVars ≤ x ∧ x < n := ht.hid
  have hO : ∀ x, x ∈ ids n nOut ↔ n ≤ x ∧ x < n + nOut := fun x => mem_ids
  have hFsub : ∀ x ∈ F, (x ∈ top.inputs ∨ x ∈ top.hidden.flatten) ∧ x ∉ top.conns.map (·.1) := by
    intro x hx
    rw [hF, mem_diff, mem_union, mem_hiddens_flat] at hx
    exact hx
  have hlay : ∀ x, N.layerOf x = if x ∈ ids n nOut then top.hidden.length + 1 else lvlH top.hidden x := by
    intro x
    rw [layerOf_eq, hNo, hNh]
    simp only [List.contains_eq_mem, decide_eq_true_eq]
  have hlay_no : ∀ x, x ∉ ids n nOut → N.layerOf x = lvlH top.hidden x := by
    intro x hx; rw [hlay, if_neg hx]
  have hlay_o : ∀ x, x ∈ ids n nOut → N.layerOf x = top.hidden.length + 1 := by
    intro x hx; rw [hlay, if_pos hx]
  have hin_no : ∀ x, x < nVars → x ∉ ids n nOut := by
    intro x hx h; have := ((hO x).mp h).1; omega
  have hfl_no : ∀ x ∈ top.hidden.flatten, x ∉ ids n nOut := by
    intro x hx h; have := ((hO x).mp h).1; have := (hflat x hx).2; omega
  have hin_nf : ∀ x, x < nVars → x ∉ top.hidden.flatten := by
    intro x hx h; have := (hflat x h).1; omega
  have hn0 : n ∈ ids n nOut := (hO n).mpr ⟨Nat.le_refl _, by omega⟩
  have hvn : VN N := by
    refine ⟨hNnd, ?_, ?_, ?_, ?_, ?_, ?_, ?_⟩
    · -- ends
      intro c hc
      rw [hNi, hhid, hhid, hNo]
      rcases (hNc c).mp hc with hc | hc | hc
      · obtain ⟨h1, h2, _⟩ := ht.conn c hc
        refine ⟨?_, Or.inl h2⟩
        rcases h1 with h1 | h1
        · exact Or.inl (hMi_I _ h1)
        · exact Or.inr h1
      · obtain ⟨h1, h2⟩ := mem_product.mp hc
        refine ⟨?_, Or.inr h2⟩
        rcases (hFsub _ h1).1 with h1 | h1
        · exact Or.inl (hMi_I _ h1)
        · exact Or.inr h1
      · obtain ⟨h1, h2⟩ := mem_product.mp hc
        have hUne : U ≠ [] := List.ne_nil_of_mem h2
        rw [hU_I hUne]
        exact ⟨Or.inl h1, ((hU _).mp h2).1⟩
    · -- layers
      intro c hc
      rcases (hNc c).mp hc with hc | hc | hc
      · obtain ⟨h1, h2, h3⟩ := ht.conn c hc
        have e1 : c.1 ∉ ids n nOut := by
          rcases h1 with h1 | h1
          · exact hin_no _ (ht.inp _ h1)
          · exact hfl_no _ h1
        rw [hlay_no _ e1, hlay_no _ (hfl_no _ h2)]
        exact h3
      · obtain ⟨h1, h2⟩ := mem_product.mp hc
        have e1 : c.1 ∉ ids n nOut := by
          rcases (hFsub _ h1).1 with h1 | h1
          · exact hin_no _ (ht.inp _ h1)
          · exact hfl_no _ h1
        rw [hlay_no _ e1, hlay_o _ h2]
        have := lvlH_le top.hidden c.1
        omega
      · obtain ⟨h1, h2⟩ := mem_product.mp hc
        have hlt := hins_lt _ h1
        rw [hlay_no _ (hin_no _ hlt), lvlH_eq_zero (hin_nf _ hlt)]
        rcases ((hU _).mp h2).1 with h2 | h2
        · rw [hlay_no _ (hfl_no _ h2)]
          exact (lvlH_pos_iff _ _).mpr h2
        · rw [hlay_o _ h2]; omega
    · -- fed
      intro t htn
      rw [mem_nonInputs, hhid, hNo] at htn
      by_cases hfed : t ∈ (top.conns ++ product F (ids n nOut)).map (·.2)
      · obtain ⟨c, hc, rfl⟩ := List.mem_map.mp hfed
        refine ⟨c, (hNc c).mpr ?_, rfl⟩
        rcases List.mem_append.mp hc with hc | hc
        · exact Or.inl hc
        · exact Or.inr (Or.inl hc)
      · obtain ⟨i0, hi0⟩ := List.exists_mem_of_ne_nil _ hins_ne
        exact ⟨(i0, t), (hNc _).mpr (Or.inr (Or.inr (mem_product.mpr ⟨hi0, (hU t).mpr ⟨htn, hfed⟩⟩))), rfl⟩
    · -- reach
      intro h hh
      rw [hNh]
      apply reaches_of_layers N top.hidden.length
      · intro x hx
        rw [hNo] at hx
        rw [hlay_no _ hx]; exact lvlH_le _ _
      · intro h hh _
        rw [hhid] at hh
        by_cases hsrc : h ∈ top.conns.map (·.1)
        · obtain ⟨c, hc, rfl⟩ := List.mem_map.mp hsrc
          obtain ⟨h1, h2, h3⟩ := ht.conn c hc
          refine ⟨c, (hNc c).mpr (Or.inl hc), rfl, Or.inl ((hhid _).mpr h2), ?_⟩
          rw [hlay_no _ (hfl_no _ hh), hlay_no _ (hfl_no _ h2)]
          exact h3
        · have hF' : h ∈ F := by
            rw [hF, mem_diff, mem_union, mem_hiddens_flat]
            exact ⟨Or.inr hh, hsrc⟩
          refine ⟨(h, n), (hNc _).mpr (Or.inr (Or.inl (mem_product.mpr ⟨hF', hn0⟩))), rfl,
            Or.inr (by rw [hNo]; exact hn0), ?_⟩
          rw [hlay_no _ (hfl_no _ hh), hlay_o _ hn0]
          have := lvlH_le top.hidden h
          show lvlH top.hidden h < _
          omega
      · exact Or.inl hh
      · have : h ∈ top.hidden.flatten := (hhid h).mp hh
        have hpos := (lvlH_pos_iff _ _).mpr this
        rw [hlay_no _ (hfl_no _ this)]
        omega
    · -- activations
      intro t htn
      rw [mem_nonInputs, hhid, hNo] at htn
      rw [hNa]
      rcases htn with htn | htn
      · obtain ⟨p, hp, e⟩ := ht.act t htn
        exact ⟨p, List.mem_append.mpr (Or.inl hp), e⟩
      · exact ⟨(t, outAct), List.mem_append.mpr (Or.inr (List.mem_map.mpr ⟨t, htn, rfl⟩)), rfl⟩
    · -- inputs vs others
      intro i hi hni
      rw [hNi] at hi
      rw [mem_nonInputs, hhid, hNo] at hni
      have := hI_lt i hi
      rcases hni with h | h
      · exact hin_nf _ this h
      · exact hin_no _ this h
    · intro h hh hho
      rw [hhid] at hh
      rw [hNo] at hho
      exact hfl_no _ hh hho
  refine ⟨hvn, ?_, ?_, ?_⟩
  · apply shareSources_of
    intro o1 ho1 o2 ho2 s hs
    rw [hNo] at ho1 ho2
    have hnt : ∀ o ∈ ids n nOut, ∀ s', (s', o) ∉ top.conns := by
      intro o hoo s' hc
      exact hfl_no _ (ht.conn _ hc).2.1 hoo
    rcases (hNc _).mp hs with hc | hc | hc
    · exact absurd hc (hnt o1 ho1 s)
    · exact (hNc _).mpr (Or.inr (Or.inl (mem_product.mpr ⟨(mem_product.mp hc).1, ho2⟩)))
    · obtain ⟨h1, h2⟩ := mem_product.mp hc
      have hnf := ((hU _).mp h2).2
      have hFnil : ∀ s', s' ∉ F := by
        intro s' hs'
        apply hnf
        exact List.mem_map.mpr ⟨(s', o1), List.mem_append.mpr (Or.inr (mem_product.mpr ⟨hs', ho1⟩)), rfl⟩
      refine (hNc _).mpr (Or.inr (Or.inr (mem_product.mpr ⟨h1, (hU _).mpr ⟨Or.inr ho2, ?_⟩⟩)))
      intro hm
      obtain ⟨c, hc, he⟩ := List.mem_map.mp hm
      rcases List.mem_append.mp hc with hc | hc
      · obtain ⟨s', t'⟩ := c
        simp only at he; subst he
        exact hnt _ ho2 s' hc
      · exact hFnil _ (mem_product.mp hc).1
  · rw [hNo]; simp [ids]
  · intro o hoo
    rw [hNo] at hoo
    apply activ_eq_of
    · rw [hNa]
      exact ⟨(o, outAct), List.mem_append.mpr (Or.inr (List.mem_map.mpr ⟨o, hoo, rfl⟩)), rfl⟩
    · intro p hp hp1
      rw [hNa] at hp
      rcases List.mem_append.mp hp with hp | hp
      · have := ht.actlt p hp
        have := ((hO o).mp hoo).1
        omega
      · obtain ⟨i, _, rfl⟩ := List.mem_map.mp hp
        rfl


theorem decode_valid (l : List NSym) (nVars nOut outAct : Nat)
    (hw : (∀ s ∈ l, match s with
       | .inp vars => vars ≠ [] ∧ ∀ v ∈ vars, v < nVars
       | .hid size _ => 0 < size
       | _ => True) ∧ wfArity 1 (l.map NSym.arity) = true)
    (hv : 0 < nVars) (ho : 0 < nOut) :
    ∃ n, decode l nVars nOut outAct = some n ∧ validNet n = true ∧ shareSources n = true ∧
      n.outputs.length = nOut ∧ (∀ o ∈ n.outputs, n.activ o = outAct) := by
  have hs : ∀ s ∈ l, symOK nVars s := by
    intro s hs
    have := hw.1 s hs
    cases s <;> exact this
  obtain ⟨top, n, hdec, ht, hn⟩ := decode_top l nVars nOut outAct hs hw.2
  refine ⟨_, hdec, ?_⟩
  let F := diff (union top.inputs top.hiddens) (top.conns.map (·.1))
  let Mi := union top.inputs []
  let U := diff (union (norm top.hidden.flatten) (ids n nOut))
    ((top.conns ++ product F (ids n nOut)).map (·.2))
  let ins := if Mi.length = 0 then List.range nVars else Mi
  let I := if U.length > 0 then ins else Mi
  have hMi : ∀ x, x ∈ Mi ↔ x ∈ top.inputs := by intro x; simp [Mi, mem_union]
  have hins_lt : ∀ x ∈ ins, x < nVars := by
    intro x hx
    simp only [ins] at hx
    split at hx
    · exact List.mem_range.mp hx
    · exact ht.inp x ((hMi x).mp hx)
  have hins_ne : ins ≠ [] := by
    simp only [ins]
    split
    · intro h
      have := congrArg List.length h
      simp at this; omega
    · rename_i h
      intro h'; rw [h'] at h; simp at h
  have hMi_ins : ∀ x ∈ Mi, x ∈ ins := by
    intro x hx
    simp only [ins]
    rw [if_neg]
    · exact hx
    · intro h; rw [List.length_eq_zero_iff.mp h] at hx; simp at hx
  have key := final_core nVars nOut outAct ho top n ht hn I ins U F rfl hins_lt hins_ne
    (by
      intro x hx
      simp only [I] at hx
      split at hx
      · exact hins_lt x hx
      · exact ht.inp x ((hMi x).mp hx))
    (by
      intro x hx
      have hx' := (hMi x).mpr hx
      simp only [I]
      split
      · exact hMi_ins x hx'
      · exact hx')
    (by
      intro hne
      simp only [I]
      rw [if_pos]
      exact List.length_pos_iff.mpr hne)
    (by
      intro x
      simp only [U, mem_diff, mem_union, mem_norm])
    (fix (gt top (outNet n nOut outAct)) (List.range nVars))
    (by
      rw [gt_outNet _ _ _ _ ht.out, fix_eq]
      simp only [List.append_nil, Net.hiddens]
      rfl)
  exact ⟨(validNet_iff _).mpr key.1, key.2⟩

end TFV.Net
