/-
  TFV.Lemmas.Net — proofs for C12 / C13 (see TFV/Properties/Net.lean).
-/
import TFV.Model.Net
import Mathlib.Algebra.BigOperators.Group.List.Basic
import Mathlib.Algebra.Order.Field.Rat
import Mathlib.Data.List.Sort
import Mathlib.Data.List.Induction
import Mathlib.Tactic.Linarith
import Mathlib.Tactic.FieldSimp

namespace TFV.Net

/-! ## finite-set lists -/

theorem mem_norm {x : Nat} {l : List Nat} : x ∈ norm l ↔ x ∈ l := by
  unfold norm
  rw [List.mem_eraseDups, (List.mergeSort_perm _ _).mem_iff]

theorem mem_union {x : Nat} {a b : List Nat} : x ∈ union a b ↔ x ∈ a ∨ x ∈ b := by
  simp [union, mem_norm]

theorem mem_diff {x : Nat} {a b : List Nat} : x ∈ diff a b ↔ x ∈ a ∧ x ∉ b := by
  simp [diff]

theorem subset_iff {a b : List Nat} : subset a b = true ↔ ∀ x ∈ a, x ∈ b := by
  simp [subset]

/-! ## softmax -/

theorem sum_pos_of_pos (l : List Rat) (h : ∀ y ∈ l, 0 < y) (hne : l ≠ []) : 0 < l.sum := by
  induction l with
  | nil => exact absurd rfl hne
  | cons a t ih =>
    rw [List.sum_cons]
    by_cases ht : t = []
    · subst ht; simpa using h a (by simp)
    · have := ih (fun y hy => h y (by simp [hy])) ht
      have := h a (by simp)
      linarith

theorem sum_map_div (e : Rat → Rat) (s : Rat) (l : List Rat) :
    (l.map fun z => e z / s).sum = (l.map e).sum / s := by
  induction l with
  | nil => simp
  | cons a t ih => simp [List.sum_cons, ih, add_div]

theorem softmax_simplex (e : Rat → Rat) (he : ∀ z, 0 < e z) (l : List Rat) (hne : l ≠ []) :
    let s := (l.map e).sum
    let out := l.map fun z => e z / s
    (∀ y ∈ out, 0 < y) ∧ out.sum = 1 := by
  intro s out
  have hs : 0 < s := sum_pos_of_pos _ (by simpa using fun a _ => he a) (by simpa using hne)
  refine ⟨?_, ?_⟩
  · intro y hy
    simp only [out, List.mem_map] at hy
    obtain ⟨z, _, rfl⟩ := hy
    exact div_pos (he z) hs
  · simp only [out]
    rw [sum_map_div, div_self (ne_of_gt hs)]


theorem pairwise_lt_eraseDups_aux (n : Nat) : ∀ l : List Nat, l.length ≤ n →
    l.Pairwise (· ≤ ·) → l.eraseDups.Pairwise (· < ·) := by
  induction n with
  | zero => intro l hl _; have : l = [] := List.length_eq_zero_iff.mp (by omega); subst this; simp
  | succ n ih =>
    intro l hl hp
    cases l with
    | nil => simp
    | cons a as =>
      rw [List.eraseDups_cons, List.pairwise_cons]
      rw [List.pairwise_cons] at hp
      refine ⟨?_, ih _ ?_ (hp.2.sublist List.filter_sublist)⟩
      · intro b hb
        rw [List.mem_eraseDups, List.mem_filter] at hb
        have h1 := hp.1 b hb.1
        have h2 : b ≠ a := by simpa using hb.2
        omega
      · have := List.length_filter_le (fun b => !b == a) as
        simp at hl; omega

theorem eraseDups_of_nodup_aux (n : Nat) : ∀ l : List Nat, l.length ≤ n → l.Nodup → l.eraseDups = l := by
  induction n with
  | zero => intro l hl _; have : l = [] := List.length_eq_zero_iff.mp (by omega); subst this; simp
  | succ n ih =>
    intro l hl hp
    cases l with
    | nil => simp
    | cons a as =>
      rw [List.nodup_cons] at hp
      have hf : as.filter (fun b => !b == a) = as := by
        rw [List.filter_eq_self]
        intro b hb
        have : b ≠ a := fun h => hp.1 (h ▸ hb)
        simpa using this
      rw [List.eraseDups_cons, hf, ih as (by simp at hl; omega) hp.2]

theorem eraseDups_of_nodup {l : List Nat} (h : l.Nodup) : l.eraseDups = l :=
  eraseDups_of_nodup_aux _ l (Nat.le_refl _) h

theorem norm_sorted (l : List Nat) : (norm l).Pairwise (· < ·) := by
  unfold norm
  apply pairwise_lt_eraseDups_aux _ _ (Nat.le_refl _)
  have := List.pairwise_mergeSort (le := fun a b : Nat => decide (a ≤ b))
    (by intro a b c; simp; omega) (by intro a b; simp; omega) l
  simpa using this

theorem norm_nodup (l : List Nat) : (norm l).Nodup :=
  (norm_sorted l).imp (fun h => Nat.ne_of_lt h)

theorem norm_of_sorted {l : List Nat} (h : l.Pairwise (· < ·)) : norm l = l := by
  unfold norm
  rw [List.mergeSort_of_pairwise (h.imp (by intro a b hab; simp; omega))]
  exact eraseDups_of_nodup (h.imp (fun h => Nat.ne_of_lt h))

theorem eq_of_sorted_of_mem_iff {a b : List Nat} (ha : a.Pairwise (· < ·)) (hb : b.Pairwise (· < ·))
    (h : ∀ x, x ∈ a ↔ x ∈ b) : a = b :=
  List.Subset.antisymm_of_pairwise ha hb (fun x hx => (h x).1 hx) (fun x hx => (h x).2 hx)

theorem norm_eq_of_mem_iff {a b : List Nat} (h : ∀ x, x ∈ a ↔ x ∈ b) : norm a = norm b :=
  eq_of_sorted_of_mem_iff (norm_sorted a) (norm_sorted b) (by simpa [mem_norm] using h)

theorem norm_norm (l : List Nat) : norm (norm l) = norm l := norm_of_sorted (norm_sorted l)


theorem softmax_split_counterexample :
    let n : Net := { inputs := [0, 1], outputs := [2, 3], conns := [(0, 2), (1, 3)], activs := [(2, 5), (3, 5)] }
    let sch : List Group := [⟨[0], [2], [[0]]⟩, ⟨[1], [3], [[1]]⟩]
    validSchedule n sch = true ∧ softmaxTogether n sch = false ∧
    ∀ (sm : List Rat → List Rat) (_ : ∀ z, sm [z] = [1]) (w : List Rat) (v : Nat → Rat),
      runSchedule n (fun _ z => z) sm w sch v 2 + runSchedule n (fun _ z => z) sm w sch v 3 = 2 := by
  intro n sch
  have hni : n.nonInputs = [2, 3] := by
    have h1 : n.hiddens = [] := by
      show norm [] = []
      exact norm_of_sorted List.Pairwise.nil
    show union n.hiddens [2, 3] = [2, 3]
    rw [h1]
    exact norm_of_sorted (l := [2, 3]) (by decide)
  refine ⟨?_, ?_, ?_⟩
  · unfold validSchedule; rw [hni]; decide
  · unfold softmaxTogether; rw [hni]; decide
  · intro sm h w v
    simp [runSchedule, runGroup, n, sch, Net.activ, h, preActGroup]
    norm_num


theorem sumR_eq_sum (l : List Rat) : sumR l = l.sum := rfl

theorem preAct_zip (n : Net) (w : List Rat) (hl : w.length = n.conns.length) (v : Nat → Rat) (t : Nat) :
    preAct n w v t = ((n.conns.zip w).map fun p => if p.1.2 == t then v p.1.1 * p.2 else 0).sum := by
  unfold preAct
  rw [sumR_eq_sum]
  congr 1
  apply List.ext_getElem
  · simp [hl]
  · intro i h1 h2
    simp at h1 h2
    simp [List.getD_eq_getElem?_getD, List.getElem?_eq_getElem (show i < w.length by omega)]

theorem conn_order (n : Net) (w : List Rat) (hl : w.length = n.conns.length)
    (cw' : List ((Nat × Nat) × Rat)) (hp : cw'.Perm (n.conns.zip w)) (v : Nat → Rat) (t : Nat) :
    preAct { n with conns := cw'.map (·.1) } (cw'.map (·.2)) v t = preAct n w v t := by
  rw [preAct_zip _ _ (by simp), preAct_zip n w hl]
  have hz : ∀ l : List ((Nat × Nat) × Rat), (l.map (·.1)).zip (l.map (·.2)) = l := by
    intro l
    induction l with
    | nil => rfl
    | cons a t ih => simpa using ih
  show ((((cw'.map (·.1)).zip (cw'.map (·.2)))).map _).sum = _
  rw [hz cw']
  exact (hp.map _).sum_eq


theorem eraseDups_length_aux {α : Type} [BEq α] [LawfulBEq α] (n : Nat) : ∀ l : List α, l.length ≤ n →
    l.eraseDups.length ≤ l.length ∧ (l.eraseDups.length = l.length → l.Nodup) := by
  induction n with
  | zero => intro l hl; have : l = [] := List.length_eq_zero_iff.mp (by omega); subst this; simp
  | succ n ih =>
    intro l hl
    cases l with
    | nil => simp
    | cons a as =>
      rw [List.eraseDups_cons]
      have hfl := List.length_filter_le (fun b => !b == a) as
      have ⟨h1, h2⟩ := ih (as.filter (fun b => !b == a)) (by simp at hl; omega)
      refine ⟨by simp; omega, ?_⟩
      intro h
      simp only [List.length_cons] at h
      have hfe : (as.filter (fun b => !b == a)).length = as.length := by omega
      have hall := List.length_filter_eq_length_iff.mp hfe
      have hf : as.filter (fun b => !b == a) = as := List.filter_eq_self.mpr hall
      rw [List.nodup_cons]
      refine ⟨?_, ?_⟩
      · intro ha
        have := hall a ha
        simp at this
      · have := h2 (by omega)
        rwa [hf] at this

theorem nodup_of_eraseDups_length {α : Type} [BEq α] [LawfulBEq α] {l : List α}
    (h : l.eraseDups.length = l.length) : l.Nodup :=
  (eraseDups_length_aux _ l (Nat.le_refl _)).2 h

theorem sum_map_ite_zero {β : Type} (p : β → Bool) (f : β → Rat) (l : List β) :
    (l.map fun x => if p x then f x else 0).sum = ((l.filter p).map f).sum := by
  induction l with
  | nil => rfl
  | cons a t ih =>
    by_cases h : p a <;> simp [h, ih]

/-- the facts packed in the `validSchedule` certificate -/
structure VS (n : Net) (sch : List Group) : Prop where
  once : ∀ t ∈ n.nonInputs, (sch.filter fun g => g.dsts.contains t).length = 1
  dnodup : ∀ g ∈ sch, g.dsts.Nodup
  wlen : ∀ g ∈ sch, g.wids.length = g.dsts.length
  dsub : ∀ g ∈ sch, ∀ t ∈ g.dsts, t ∈ n.nonInputs
  recs : ∀ g ∈ sch, ∀ j, j < g.dsts.length →
    (g.wids.getD j []).length = g.srcs.length ∧ (g.wids.getD j []).Nodup ∧
    (∀ p ∈ g.srcs.zip (g.wids.getD j []),
        n.conns.getD p.2 (0, 0) = (p.1, g.dsts.getD j 0) ∧ p.2 < n.conns.length) ∧
    (∀ i (h : i < n.conns.length), n.conns[i].2 = g.dsts.getD j 0 →
        (n.conns[i].1, i) ∈ g.srcs.zip (g.wids.getD j []))
  early : ∀ gi, gi < sch.length → ∀ s ∈ (sch.getD gi ⟨[], [], []⟩).srcs,
    s ∈ n.inputs ∨ ∃ g' ∈ sch.take gi, s ∈ g'.dsts

theorem VS_of_valid {n : Net} {sch : List Group} (hv : validSchedule n sch = true) : VS n sch := by
  unfold validSchedule at hv
  simp only [Bool.and_eq_true, List.all_eq_true, beq_iff_eq, decide_eq_true_eq] at hv
  obtain ⟨⟨⟨h1, h2⟩, h3⟩, h4⟩ := hv
  refine ⟨?_, ?_, ?_, ?_, ?_, ?_⟩
  · intro t ht; exact h1 t ht
  · intro g hg; exact nodup_of_eraseDups_length (h2 g hg).1.1
  · intro g hg; exact (h2 g hg).1.2
  · intro g hg t ht; simpa using (h2 g hg).2 t ht
  · intro g hg j hj
    have h := h3 g hg j (List.mem_range.mpr hj)
    obtain ⟨⟨⟨ha, hb⟩, hc⟩, hd⟩ := h
    have hms : (g.srcs.zip (g.wids.getD j [])).map (·.2) = g.wids.getD j [] :=
      List.map_snd_zip (by omega)
    refine ⟨ha, ?_, ?_, ?_⟩
    · rw [← hms]; apply nodup_of_eraseDups_length; rw [hb]; simp
    · exact hc
    · intro i hi hti
      have := hd (i, n.conns[i]) (by
        rw [List.mem_iff_getElem]
        exact ⟨i, by simpa using hi, by simp⟩)
      simpa [hti] using this
  · intro gi hgi s hs
    have := h4 gi (List.mem_range.mpr hgi) s hs
    simpa using this


theorem preAct_range (n : Net) (w : List Rat) (v : Nat → Rat) (t : Nat) :
    preAct n w v t = (((List.range n.conns.length).filter fun i => (n.conns.getD i (0, 0)).2 == t).map
      fun i => v (n.conns.getD i (0, 0)).1 * w.getD i 0).sum := by
  unfold preAct
  rw [sumR_eq_sum, ← sum_map_ite_zero]
  congr 1
  apply List.ext_getElem
  · simp
  · intro i h1 h2
    simp at h1 h2
    simp [List.getD_eq_getElem?_getD, List.getElem?_eq_getElem h1]

theorem preActGroup_eq_of_VS (n : Net) (sch : List Group) (hv : VS n sch)
    (w : List Rat) (v : Nat → Rat) (g : Group) (hg : g ∈ sch) (j : Nat) (hj : j < g.dsts.length) :
    preActGroup w v g j = preAct n w v (g.dsts.getD j 0) := by
  obtain ⟨hlen, hnd, hrec, hall⟩ := hv.recs g hg j hj
  rw [preAct_range]
  unfold preActGroup
  generalize g.wids.getD j [] = wj at *
  rw [sumR_eq_sum]
  have h1 : (g.srcs.zip wj).map (fun x => match x with | (s, wi) => v s * w.getD wi 0)
      = ((g.srcs.zip wj).map (·.2)).map
          (fun i => v (n.conns.getD i (0, 0)).1 * w.getD i 0) := by
    rw [List.map_map]
    apply List.map_congr_left
    intro p hp
    have := (hrec p hp).1
    obtain ⟨s, wi⟩ := p
    show v s * w.getD wi 0 = v (n.conns.getD wi (0, 0)).1 * w.getD wi 0
    rw [this]
  rw [h1, List.map_snd_zip (by omega)]
  apply List.Perm.sum_eq
  apply List.Perm.map
  rw [List.perm_ext_iff_of_nodup hnd (List.nodup_range.filter _)]
  intro i
  simp only [List.mem_filter, List.mem_range, beq_iff_eq]
  constructor
  · intro hi
    -- i ∈ wids_j, so (s, i) ∈ zip for some s
    obtain ⟨k, hk, rfl⟩ := List.mem_iff_getElem.mp hi
    have hks : k < g.srcs.length := by omega
    have hmem : (g.srcs[k], wj[k]) ∈ g.srcs.zip wj := by
      rw [List.mem_iff_getElem]
      exact ⟨k, by simp; omega, by simp⟩
    have := hrec _ hmem
    exact ⟨this.2, by rw [this.1]⟩
  · intro ⟨hi, ht⟩
    have := hall i hi (by simpa [List.getD_eq_getElem?_getD, List.getElem?_eq_getElem hi] using ht)
    exact (List.of_mem_zip this).2

theorem preActGroup_eq (n : Net) (sch : List Group) (hv : validSchedule n sch = true)
    (w : List Rat) (v : Nat → Rat) (g : Group) (hg : g ∈ sch) (j : Nat) (hj : j < g.dsts.length) :
    preActGroup w v g j = preAct n w v (g.dsts.getD j 0) :=
  preActGroup_eq_of_VS n sch (VS_of_valid hv) w v g hg j hj


/-- the `pre` list of `runGroup` -/
def preList (w : List Rat) (v : Nat → Rat) (g : Group) : List (Nat × Rat) :=
  (List.range g.dsts.length).map fun j => (g.dsts.getD j 0, preActGroup w v g j)

theorem preList_eq_map (w : List Rat) (v : Nat → Rat) (g : Group) (P : Nat → Rat)
    (hP : ∀ j, j < g.dsts.length → preActGroup w v g j = P (g.dsts.getD j 0)) :
    preList w v g = g.dsts.map fun t => (t, P t) := by
  unfold preList
  apply List.ext_getElem
  · simp
  · intro j h1 h2
    simp at h1 h2
    have := hP j h1
    simp only [List.getElem_map, List.getElem_range]
    rw [this]
    simp [List.getD_eq_getElem?_getD, List.getElem?_eq_getElem h1]

theorem find_zip_nodup {β : Type} : ∀ (ks : List Nat) (vals : List β), ks.Nodup → vals.length = ks.length →
    ∀ i (h1 : i < ks.length) (h2 : i < vals.length),
    (ks.zip vals).find? (fun q => q.1 == ks[i]) = some (ks[i], vals[i]) := by
  intro ks
  induction ks with
  | nil => intro vals _ _ i h1; simp at h1
  | cons k ks ih =>
    intro vals hnd hl i h1 h2
    cases vals with
    | nil => simp at h2
    | cons b vals =>
      cases i with
      | zero => simp
      | succ i =>
        rw [List.nodup_cons] at hnd
        have hi : i < ks.length := by simpa using h1
        have hne : ¬ (k = ks[i]) := fun h => hnd.1 (h ▸ List.getElem_mem _)
        simp only [List.zip_cons_cons, List.getElem_cons_succ]
        rw [List.find?_cons_of_neg (by simpa using hne)]
        exact ih vals hnd.2 (by simpa using hl) i _ _

/-- what one group step does, given the pre-activations `P` of its targets -/
theorem runGroup_spec (n : Net) (act : Nat → Rat → Rat) (softmax : List Rat → List Rat)
    (hlen : ∀ l, (softmax l).length = l.length) (w : List Rat) (v : Nat → Rat) (g : Group)
    (hnd : g.dsts.Nodup) (P : Nat → Rat)
    (hP : ∀ j, j < g.dsts.length → preActGroup w v g j = P (g.dsts.getD j 0)) :
    (∀ x, x ∉ g.dsts → runGroup n act softmax w v g x = v x) ∧
    (∀ x ∈ g.dsts, n.activ x ≠ 5 → runGroup n act softmax w v g x = act (n.activ x) (P x)) ∧
    ((g.dsts.filter fun t => n.activ t == 5).map (runGroup n act softmax w v g) =
      softmax ((g.dsts.filter fun t => n.activ t == 5).map P)) := by
  have hpre := preList_eq_map w v g P hP
  unfold preList at hpre
  have hfind : ∀ x ∈ g.dsts, (g.dsts.map fun t => (t, P t)).find? (fun p => p.1 == x) = some (x, P x) := by
    intro x hx
    rw [List.find?_map]
    have : g.dsts.find? ((fun p : Nat × Rat => p.1 == x) ∘ fun t => (t, P t)) = some x := by
      rw [List.find?_eq_some_iff_append]
      obtain ⟨s, t, hst⟩ := List.append_of_mem hx
      refine ⟨by simp, s, t, hst, ?_⟩
      intro a ha
      have : a ≠ x := by
        intro hax; subst hax
        rw [hst] at hnd
        have := List.nodup_append.mp hnd
        exact this.2.2 a ha a (by simp) rfl
      simpa using this
    rw [this]; rfl
  refine ⟨?_, ?_, ?_⟩
  · intro x hx
    unfold runGroup
    simp only [hpre]
    have : (g.dsts.map fun t => (t, P t)).find? (fun p => p.1 == x) = none := by
      rw [List.find?_eq_none]
      intro p hp
      simp only [List.mem_map] at hp
      obtain ⟨t, ht, rfl⟩ := hp
      have : t ≠ x := fun h => hx (h ▸ ht)
      simpa using this
    rw [this]
  · intro x hx h5
    unfold runGroup
    simp only [hpre, hfind x hx]
    have : (n.activ x == 5) = false := by simpa using h5
    simp [this]
  · set sm := g.dsts.filter fun t => n.activ t == 5 with hsm
    have hsmnd : sm.Nodup := hnd.sublist List.filter_sublist
    have hfil : (g.dsts.map fun t => (t, P t)).filter (fun p => n.activ p.1 == 5) = sm.map fun t => (t, P t) := by
      rw [List.filter_map]; rfl
    apply List.ext_getElem
    · simp [hlen]
    · intro i h1 h2
      simp only [List.length_map] at h1
      have hx : sm[i] ∈ g.dsts := (List.mem_filter.mp (List.getElem_mem h1)).1
      have h5 : n.activ sm[i] = 5 := by simpa using (List.mem_filter.mp (List.getElem_mem h1)).2
      rw [List.getElem_map]
      unfold runGroup
      simp only [hpre, hfind _ hx, hfil, List.map_map]
      have e1 : ((fun x : Nat × Rat => x.1) ∘ fun t => (t, P t)) = id := rfl
      have e2 : ((fun x : Nat × Rat => x.2) ∘ fun t => (t, P t)) = P := rfl
      rw [e1, e2, List.map_id]
      have hl2 : (softmax (sm.map P)).length = sm.length := by rw [hlen]; simp
      rw [find_zip_nodup sm (softmax (sm.map P)) hsmnd hl2 i h1 (by omega)]
      simp [h5]


theorem preActGroup_congr (w : List Rat) (v v' : Nat → Rat) (g : Group) (j : Nat)
    (h : ∀ s ∈ g.srcs, v s = v' s) : preActGroup w v g j = preActGroup w v' g j := by
  unfold preActGroup
  congr 1
  apply List.map_congr_left
  intro p hp
  obtain ⟨s, wi⟩ := p
  show v s * _ = v' s * _
  rw [h s (List.of_mem_zip hp).1]

theorem runGroup_not_mem (n : Net) (act : Nat → Rat → Rat) (softmax : List Rat → List Rat)
    (w : List Rat) (v : Nat → Rat) (g : Group) (x : Nat) (hx : x ∉ g.dsts) :
    runGroup n act softmax w v g x = v x := by
  unfold runGroup
  have : ((List.range g.dsts.length).map fun j => (g.dsts.getD j 0, preActGroup w v g j)).find?
      (fun p => p.1 == x) = none := by
    rw [List.find?_eq_none]
    intro p hp
    simp only [List.mem_map, List.mem_range] at hp
    obtain ⟨j, hj, rfl⟩ := hp
    have : g.dsts.getD j 0 ≠ x := by
      intro h
      apply hx
      rw [← h, List.getD_eq_getElem?_getD, List.getElem?_eq_getElem hj]
      exact List.getElem_mem hj
    simpa using this
  simp only [this]

theorem runGroup_congr (n : Net) (act : Nat → Rat → Rat) (softmax : List Rat → List Rat)
    (w : List Rat) (v v' : Nat → Rat) (g : Group) (h : ∀ s ∈ g.srcs, v s = v' s)
    (x : Nat) (hx : x ∈ g.dsts) :
    runGroup n act softmax w v g x = runGroup n act softmax w v' g x := by
  have hpre : ((List.range g.dsts.length).map fun j => (g.dsts.getD j 0, preActGroup w v g j)) =
      ((List.range g.dsts.length).map fun j => (g.dsts.getD j 0, preActGroup w v' g j)) := by
    apply List.map_congr_left
    intro j _
    rw [preActGroup_congr w v v' g j h]
  unfold runGroup
  simp only [hpre]
  cases hf : ((List.range g.dsts.length).map fun j => (g.dsts.getD j 0, preActGroup w v' g j)).find?
      (fun p => p.1 == x) with
  | some p => rfl
  | none =>
    exfalso
    rw [List.find?_eq_none] at hf
    obtain ⟨j, hj, rfl⟩ := List.mem_iff_getElem.mp hx
    have := hf (g.dsts.getD j 0, preActGroup w v' g j) (by
      simp only [List.mem_map, List.mem_range]; exact ⟨j, hj, rfl⟩)
    simp [List.getD_eq_getElem?_getD, List.getElem?_eq_getElem hj] at this

theorem runSchedule_append (n : Net) (act : Nat → Rat → Rat) (softmax : List Rat → List Rat)
    (w : List Rat) (l1 l2 : List Group) (v : Nat → Rat) :
    runSchedule n act softmax w (l1 ++ l2) v = runSchedule n act softmax w l2 (runSchedule n act softmax w l1 v) := by
  simp [runSchedule, List.foldl_append]

theorem runSchedule_cons (n : Net) (act : Nat → Rat → Rat) (softmax : List Rat → List Rat)
    (w : List Rat) (g : Group) (l : List Group) (v : Nat → Rat) :
    runSchedule n act softmax w (g :: l) v = runSchedule n act softmax w l (runGroup n act softmax w v g) := rfl

theorem runSchedule_stable (n : Net) (act : Nat → Rat → Rat) (softmax : List Rat → List Rat)
    (w : List Rat) (l : List Group) (x : Nat) (hx : ∀ g ∈ l, x ∉ g.dsts) (v : Nat → Rat) :
    runSchedule n act softmax w l v x = v x := by
  induction l generalizing v with
  | nil => rfl
  | cons g l ih =>
    rw [runSchedule_cons, ih (fun g' hg' => hx g' (by simp [hg'])),
      runGroup_not_mem _ _ _ _ _ _ _ (hx g (by simp))]

/-- the schedule facts in "decomposition" form -/
theorem VS.split {n : Net} {sch : List Group} (hv : VS n sch) {pre post : List Group} {g : Group}
    (hd : sch = pre ++ g :: post) :
    (∀ t ∈ g.dsts, (∀ g' ∈ pre, t ∉ g'.dsts) ∧ (∀ g' ∈ post, t ∉ g'.dsts)) ∧
    (∀ s ∈ g.srcs, s ∈ n.inputs ∨ ∃ g' ∈ pre, s ∈ g'.dsts) := by
  have hg : g ∈ sch := by rw [hd]; simp
  refine ⟨?_, ?_⟩
  · intro t ht
    have h1 := hv.once t (hv.dsub g hg t ht)
    rw [hd, List.filter_append, List.filter_cons] at h1
    have : g.dsts.contains t = true := by simpa using ht
    simp only [this, if_true, List.length_append, List.length_cons] at h1
    have ha : (pre.filter fun g => g.dsts.contains t).length = 0 := by omega
    have hb : (post.filter fun g => g.dsts.contains t).length = 0 := by omega
    rw [List.length_eq_zero_iff, List.filter_eq_nil_iff] at ha hb
    exact ⟨fun g' hg' => by simpa using ha g' hg', fun g' hg' => by simpa using hb g' hg'⟩
  · intro s hs
    have h := hv.early pre.length (by rw [hd]; simp) s
    have e1 : sch.getD pre.length ⟨[], [], []⟩ = g := by
      rw [hd]; simp [List.getD_eq_getElem?_getD]
    have e2 : sch.take pre.length = pre := by rw [hd]; simp
    rw [e1, e2] at h
    exact h hs


theorem mem_nonInputs_group {n : Net} {sch : List Group} (hv : VS n sch) {t : Nat}
    (ht : t ∈ n.nonInputs) : ∃ g ∈ sch, t ∈ g.dsts := by
  have h1 := hv.once t ht
  have : (sch.filter fun g => g.dsts.contains t) ≠ [] := by
    intro h; rw [h] at h1; simp at h1
  obtain ⟨g, hg⟩ := List.exists_mem_of_ne_nil _ this
  rw [List.mem_filter] at hg
  exact ⟨g, hg.1, by simpa using hg.2⟩

theorem mem_nodes {n : Net} {t : Nat} : t ∈ n.nodes ↔ t ∈ n.inputs ∨ t ∈ n.nonInputs := by
  unfold Net.nodes; exact mem_union

theorem history_prefix (n : Net) (sch : List Group) (hv : VS n sch)
    (act : Nat → Rat → Rat) (softmax : List Rat → List Rat) (w : List Rat) (v0 v1 : Nat → Rat)
    (hx : ∀ i ∈ n.inputs, v0 i = v1 i) :
    ∀ pre post, sch = pre ++ post → ∀ s, (s ∈ n.inputs ∨ ∃ g' ∈ pre, s ∈ g'.dsts) →
      runSchedule n act softmax w pre v0 s = runSchedule n act softmax w pre v1 s := by
  intro pre
  induction pre using List.reverseRecOn with
  | nil =>
    intro post _ s hs
    rcases hs with hs | ⟨g', hg', _⟩
    · exact hx s hs
    · simp at hg'
  | append_singleton p g ih =>
    intro post hd s hs
    have hd' : sch = p ++ g :: post := by rw [hd]; simp
    have hsp := hv.split hd'
    rw [runSchedule_append, runSchedule_append]
    show runGroup n act softmax w _ g s = runGroup n act softmax w _ g s
    by_cases hsg : s ∈ g.dsts
    · apply runGroup_congr _ _ _ _ _ _ _ _ _ hsg
      intro s' hs'
      exact ih (g :: post) hd' s' (hsp.2 s' hs')
    · rw [runGroup_not_mem _ _ _ _ _ _ _ hsg, runGroup_not_mem _ _ _ _ _ _ _ hsg]
      apply ih (g :: post) hd' s
      rcases hs with hs | ⟨g', hg', hs'⟩
      · exact Or.inl hs
      · rw [List.mem_append] at hg'
        rcases hg' with hg' | hg'
        · exact Or.inr ⟨g', hg', hs'⟩
        · simp at hg'; subst hg'; exact absurd hs' hsg

theorem inputs_not_dst {n : Net} {sch : List Group} (hv : VS n sch)
    (hdisj : ∀ i ∈ n.inputs, i ∉ n.nonInputs) : ∀ i ∈ n.inputs, ∀ g ∈ sch, i ∉ g.dsts :=
  fun i hi g hg h => hdisj i hi (hv.dsub g hg i h)

theorem history_independent (n : Net) (sch : List Group) (hv : validSchedule n sch = true)
    (_hdisj : ∀ i ∈ n.inputs, i ∉ n.nonInputs)
    (act : Nat → Rat → Rat) (softmax : List Rat → List Rat) (w : List Rat) (v0 v1 : Nat → Rat)
    (hx : ∀ i ∈ n.inputs, v0 i = v1 i) :
    ∀ t ∈ n.nodes, runSchedule n act softmax w sch v0 t = runSchedule n act softmax w sch v1 t := by
  have hvs := VS_of_valid hv
  intro t ht
  apply history_prefix n sch hvs act softmax w v0 v1 hx sch [] (by simp) t
  rcases mem_nodes.mp ht with h | h
  · exact Or.inl h
  · exact Or.inr (mem_nonInputs_group hvs h)

theorem batch_aux (n : Net) (sch : List Group) (hv : validSchedule n sch = true)
    (hdisj : ∀ i ∈ n.inputs, i ∉ n.nonInputs) (hout : ∀ o ∈ n.outputs, o ∈ n.nodes)
    (act : Nat → Rat → Rat) (softmax : List Rat → List Rat) (x : Nat → Rat) (ws : List (List Rat)) :
    ∀ v : Nat → Rat, (∀ i ∈ n.inputs, v i = x i) →
    forwardBatchAux n act softmax sch v ws =
      ws.map fun w => n.outputs.map (runSchedule n act softmax w sch x) := by
  have hvs := VS_of_valid hv
  induction ws with
  | nil => intro v _; rfl
  | cons w ws ih =>
    intro v hvx
    simp only [forwardBatchAux, List.map_cons]
    congr 1
    · apply List.map_congr_left
      intro o ho
      exact history_independent n sch hv hdisj act softmax w v x hvx o (hout o ho)
    · apply ih
      intro i hi
      rw [runSchedule_stable _ _ _ _ _ _ (inputs_not_dst hvs hdisj i hi)]
      exact hvx i hi

theorem batch_eq (n : Net) (sch : List Group) (hv : validSchedule n sch = true)
    (hdisj : ∀ i ∈ n.inputs, i ∉ n.nonInputs) (hout : ∀ o ∈ n.outputs, o ∈ n.nodes)
    (act : Nat → Rat → Rat) (softmax : List Rat → List Rat) (x junk : Nat → Rat) (ws : List (List Rat)) :
    forwardBatch n act softmax sch x junk ws =
      ws.map fun w => n.outputs.map (runSchedule n act softmax w sch x) := by
  unfold forwardBatch
  apply batch_aux n sch hv hdisj hout
  intro i hi
  simp [hi]


theorem group_final (n : Net) (sch : List Group) (hvs : VS n sch)
    (hdisj : ∀ i ∈ n.inputs, i ∉ n.nonInputs)
    (act : Nat → Rat → Rat) (softmax : List Rat → List Rat) (w : List Rat) (v0 : Nat → Rat)
    (pre post : List Group) (g : Group) (hd : sch = pre ++ g :: post) :
    (∀ j, j < g.dsts.length → preActGroup w (runSchedule n act softmax w pre v0) g j =
        preAct n w (runSchedule n act softmax w sch v0) (g.dsts.getD j 0)) ∧
    (∀ t ∈ g.dsts, runSchedule n act softmax w sch v0 t =
        runGroup n act softmax w (runSchedule n act softmax w pre v0) g t) := by
  have hg : g ∈ sch := by rw [hd]; simp
  have hsp := hvs.split hd
  have hind := inputs_not_dst hvs hdisj
  have hsrc : ∀ s ∈ g.srcs, runSchedule n act softmax w pre v0 s = runSchedule n act softmax w sch v0 s := by
    intro s hs
    rcases hsp.2 s hs with hi | ⟨g', hg', hs'⟩
    · rw [runSchedule_stable _ _ _ _ _ _ (hind s hi),
        runSchedule_stable _ _ _ _ _ _ (fun g' hg' => hind s hi g' (by rw [hd]; simp [hg']))]
    · obtain ⟨p1, p2, hp⟩ := List.append_of_mem hg'
      have hd2 : sch = p1 ++ g' :: (p2 ++ g :: post) := by rw [hd, hp]; simp
      have hsp2 := (hvs.split hd2).1 s hs'
      have e1 : pre = (p1 ++ [g']) ++ p2 := by rw [hp]; simp
      have e2 : sch = (p1 ++ [g']) ++ (p2 ++ g :: post) := by rw [hd2]; simp
      rw [e1, e2, runSchedule_append n act softmax w (p1 ++ [g']) p2,
        runSchedule_append n act softmax w (p1 ++ [g']) (p2 ++ g :: post),
        runSchedule_stable _ _ _ _ _ _ hsp2.2,
        runSchedule_stable _ _ _ _ _ _ (fun g'' hg'' => hsp2.2 g'' (by simp [hg'']))]
  refine ⟨?_, ?_⟩
  · intro j hj
    rw [preActGroup_congr w _ _ g j hsrc]
    exact preActGroup_eq_of_VS n sch hvs w _ g hg j hj
  · intro t ht
    conv => lhs; rw [hd, runSchedule_append, runSchedule_cons]
    exact runSchedule_stable _ _ _ _ _ _ (hsp.1 t ht).2 _

theorem schedule_sound (n : Net) (sch : List Group) (hv : validSchedule n sch = true)
    (hsm : softmaxTogether n sch = true) (hdisj : ∀ i ∈ n.inputs, i ∉ n.nonInputs)
    (act : Nat → Rat → Rat) (softmax : List Rat → List Rat)
    (hlen : ∀ l, (softmax l).length = l.length) (w : List Rat) (x v0 : Nat → Rat)
    (hx : ∀ i ∈ n.inputs, v0 i = x i) :
    ∃ sm : List Nat,
      (∀ i ∈ n.inputs, runSchedule n act softmax w sch v0 i = x i) ∧
      (∀ t ∈ n.nonInputs, n.activ t ≠ 5 → runSchedule n act softmax w sch v0 t =
          act (n.activ t) (preAct n w (runSchedule n act softmax w sch v0) t)) ∧
      (∀ t ∈ n.nonInputs, n.activ t = 5 → t ∈ sm) ∧ (∀ t ∈ sm, t ∈ n.nonInputs ∧ n.activ t = 5) ∧
      (sm ≠ [] → sm.map (runSchedule n act softmax w sch v0) =
          softmax (sm.map (preAct n w (runSchedule n act softmax w sch v0)))) := by
  have hvs := VS_of_valid hv
  have hind := inputs_not_dst hvs hdisj
  -- per-group facts
  have hgrp : ∀ g ∈ sch, ∃ vk : Nat → Rat,
      (∀ j, j < g.dsts.length → preActGroup w vk g j =
        preAct n w (runSchedule n act softmax w sch v0) (g.dsts.getD j 0)) ∧
      (∀ t ∈ g.dsts, runSchedule n act softmax w sch v0 t = runGroup n act softmax w vk g t) := by
    intro g hg
    obtain ⟨pre, post, hd⟩ := List.append_of_mem hg
    exact ⟨_, group_final n sch hvs hdisj act softmax w v0 pre post g hd⟩
  have hin : ∀ i ∈ n.inputs, runSchedule n act softmax w sch v0 i = x i := by
    intro i hi
    rw [runSchedule_stable _ _ _ _ _ _ (hind i hi)]
    exact hx i hi
  have hns : ∀ t ∈ n.nonInputs, n.activ t ≠ 5 → runSchedule n act softmax w sch v0 t =
      act (n.activ t) (preAct n w (runSchedule n act softmax w sch v0) t) := by
    intro t ht h5
    obtain ⟨g, hg, htg⟩ := mem_nonInputs_group hvs ht
    obtain ⟨vk, hP, hfin⟩ := hgrp g hg
    rw [hfin t htg]
    exact (runGroup_spec n act softmax hlen w vk g (hvs.dnodup g hg) _ hP).2.1 t htg h5
  unfold softmaxTogether at hsm
  simp only [List.all_eq_true, Bool.or_eq_true, Bool.not_eq_true', List.any_eq_false, beq_iff_eq,
    bne_iff_ne, ne_eq, decide_eq_true_eq, List.contains_eq_mem] at hsm
  cases hfind : sch.find? (fun g => g.dsts.any fun t => n.activ t == 5) with
  | none =>
    refine ⟨[], hin, hns, ?_, by simp, by simp⟩
    intro t ht h5
    exfalso
    obtain ⟨g, hg, htg⟩ := mem_nonInputs_group hvs ht
    rw [List.find?_eq_none] at hfind
    have := hfind g hg
    simp only [List.any_eq_true, beq_iff_eq, not_exists, not_and] at this
    exact this t htg h5
  | some g =>
    have hg : g ∈ sch := List.mem_of_find?_eq_some hfind
    have hany := List.find?_some hfind
    simp only [List.any_eq_true, beq_iff_eq] at hany
    obtain ⟨t0, ht0, h50⟩ := hany
    have hall : ∀ t ∈ n.nonInputs, n.activ t = 5 → t ∈ g.dsts := by
      rcases hsm g hg with h | h
      · exact absurd h50 (h t0 ht0)
      · intro t ht h5
        rcases h t ht with h' | h'
        · exact absurd h5 h'
        · exact h'
    obtain ⟨vk, hP, hfin⟩ := hgrp g hg
    refine ⟨g.dsts.filter fun t => n.activ t == 5, hin, hns, ?_, ?_, ?_⟩
    · intro t ht h5
      rw [List.mem_filter]
      exact ⟨hall t ht h5, by simpa using h5⟩
    · intro t ht
      rw [List.mem_filter] at ht
      exact ⟨hvs.dsub g hg t ht.1, by simpa using ht.2⟩
    · intro _
      rw [← (runGroup_spec n act softmax hlen w vk g (hvs.dnodup g hg) _ hP).2.2]
      apply List.map_congr_left
      intro t ht
      exact hfin t (List.mem_filter.mp ht).1


/-! ## MLP builder -/

@[simp] theorem norm_nil : norm [] = [] := norm_of_sorted List.Pairwise.nil
@[simp] theorem norm_singleton (b : Nat) : norm [b] = [b] := norm_of_sorted (List.pairwise_singleton _ _)
@[simp] theorem diff_nil (a : List Nat) : diff a [] = a := by simp [diff]
@[simp] theorem product_nil_left (l : List Nat) : product [] l = [] := rfl

theorem union_nil_right {a : List Nat} (h : a.Pairwise (· < ·)) : union a [] = a := by
  simp [union, norm_of_sorted h]
theorem union_nil_left {a : List Nat} (h : a.Pairwise (· < ·)) : union [] a = a := by
  simp [union, norm_of_sorted h]

theorem mem_product {l r : List Nat} {c : Nat × Nat} : c ∈ product l r ↔ c.1 ∈ l ∧ c.2 ∈ r := by
  obtain ⟨a, b⟩ := c
  simp [product]

def ids (e sz : Nat) : List Nat := (List.range sz).map (· + e)

theorem mem_ids {e sz x : Nat} : x ∈ ids e sz ↔ e ≤ x ∧ x < e + sz := by
  simp only [ids, List.mem_map, List.mem_range]
  constructor
  · rintro ⟨a, ha, rfl⟩; omega
  · intro h; exact ⟨x - e, by omega, by omega⟩

theorem range_sorted (n : Nat) : (List.range n).Pairwise (· < ·) := List.pairwise_lt_range

theorem ids_sorted (e sz : Nat) : (ids e sz).Pairwise (· < ·) := by
  unfold ids
  rw [List.pairwise_map]
  exact (range_sorted sz).imp (by intro a b h; omega)

theorem ids_ne_nil {e sz : Nat} (h : 0 < sz) : ids e sz ≠ [] := by
  intro h0
  have : e ∈ ids e sz := mem_ids.mpr ⟨Nat.le_refl _, by omega⟩
  rw [h0] at this; simp at this

theorem mem_hiddens {n : Net} {x : Nat} : x ∈ n.hiddens ↔ ∃ l ∈ n.hidden, x ∈ l := by
  simp [Net.hiddens, mem_norm]

/-- the invariant of the builder loop -/
structure MInv (act nIn : Nat) (net : Net) (e : Nat) (last : List Nat) : Prop where
  inp : net.inputs = List.range nIn
  out : net.outputs = []
  sinks : diff (union net.inputs net.hiddens) (net.conns.map (·.1)) = last
  lt_nodes : ∀ x ∈ union net.inputs net.hiddens, x < e
  lt_src : ∀ c ∈ net.conns, c.1 < e
  act_val : ∀ p ∈ net.activs, p.2 = act ∧ p.1 < e
  act_has : ∀ h ∈ net.hiddens, ∃ p ∈ net.activs, p.1 = h

theorem MInv_init (act nIn : Nat) : MInv act nIn { inputs := List.range nIn } nIn (List.range nIn) := by
  refine ⟨rfl, rfl, ?_, ?_, ?_, ?_, ?_⟩
  · simp [Net.hiddens, union_nil_right (range_sorted nIn)]
  · intro x hx; simpa [Net.hiddens, mem_union] using hx
  · intro c hc; simp at hc
  · intro p hp; simp at hp
  · intro h hh; simp [Net.hiddens] at hh

/-- the generic step: `gtMain net L` for a layer `L` feeding the fresh ids `l` from `bi` -/
theorem gtMain_layer (act nIn : Nat) (net : Net) (e : Nat) (last : List Nat) (hI : MInv act nIn net e last)
    (L : Net) (l bi : List Nat) (hbi : ∀ x ∈ bi, x < nIn) (hLi : L.inputs = bi)
    (hLc : L.conns = product bi l) (hLn : union L.hiddens L.outputs = l)
    (hLo : L.outputs.Pairwise (· < ·)) :
    gtMain net L = { inputs := List.range nIn, hidden := net.hidden ++ L.hidden, outputs := L.outputs,
                     conns := net.conns ++ product bi l ++ product last l,
                     activs := net.activs ++ L.activs } := by
  unfold gtMain
  have h1 : union net.inputs L.inputs = List.range nIn := by
    rw [hI.inp, hLi]
    apply eq_of_sorted_of_mem_iff (norm_sorted _) (range_sorted _)
    intro x
    rw [mem_norm, List.mem_append]
    constructor
    · rintro (h | h)
      · exact h
      · exact List.mem_range.mpr (hbi x h)
    · exact Or.inl
  have h2 : ((product bi l).filter fun c => !L.inputs.contains c.1) = [] := by
    rw [List.filter_eq_nil_iff, hLi]
    intro c hc
    have := (mem_product.mp hc).1
    simpa using this
  have h3 : union net.outputs L.outputs = L.outputs := by
    rw [hI.out]; exact union_nil_left hLo
  simp only [h1, h2, h3, hI.sinks, hLn, hLc, List.map_nil, diff_nil]


def biasIn (offset : Bool) (b : Nat) : List Nat := if offset then [b] else []

/-- a hidden layer as the builder makes it -/
def hidLayer (offset : Bool) (b : Nat) (l : List Nat) (a : Nat) : Net :=
  if offset then gt { inputs := [b] } { hidden := [l], activs := l.map fun i => (i, a) }
  else { hidden := [l], activs := l.map fun i => (i, a) }

def outLayer (offset : Bool) (b : Nat) (l : List Nat) (a : Nat) : Net :=
  if offset then gt { inputs := [b] } { outputs := l, activs := l.map fun i => (i, a) }
  else { outputs := l, activs := l.map fun i => (i, a) }

theorem hidLayer_eq (offset : Bool) (b : Nat) (l : List Nat) (a : Nat) (hl : l.Pairwise (· < ·)) :
    hidLayer offset b l a = { inputs := biasIn offset b, hidden := [l], outputs := [],
                                conns := product (biasIn offset b) l, activs := l.map fun i => (i, a) } := by
  cases offset
  · simp [hidLayer, biasIn]
  · simp [hidLayer, biasIn, gt, gtMain, Net.hiddens, norm_of_sorted hl, union,
      norm_of_sorted (List.pairwise_singleton _ b)]

theorem outLayer_eq (offset : Bool) (b : Nat) (l : List Nat) (a : Nat) (hl : l.Pairwise (· < ·)) :
    outLayer offset b l a = { inputs := biasIn offset b, hidden := [], outputs := l,
                                conns := product (biasIn offset b) l, activs := l.map fun i => (i, a) } := by
  cases offset
  · simp [outLayer, biasIn]
  · simp [outLayer, biasIn, gt, gtMain, Net.hiddens, norm_of_sorted hl, union,
      norm_of_sorted (List.pairwise_singleton _ b)]


theorem gt_eq_gtMain (a b : Net) (h1 : 0 < a.inputs.length)
    (h2 : b.hidden.length ≠ 0 ∨ b.outputs.length ≠ 0) : gt a b = gtMain a b := by
  unfold gt
  simp only
  rw [if_neg (by omega), if_neg (by omega)]

theorem biasIn_lt (offset : Bool) (nIn : Nat) (hin : 0 < nIn) : ∀ x ∈ biasIn offset (nIn - 1), x < nIn := by
  intro x hx
  cases offset <;> simp [biasIn] at hx
  omega

theorem diff_sorted {a : List Nat} (b : List Nat) (h : a.Pairwise (· < ·)) : (diff a b).Pairwise (· < ·) :=
  h.sublist List.filter_sublist

theorem union_sorted (a b : List Nat) : (union a b).Pairwise (· < ·) := norm_sorted _

theorem step_hidden (offset : Bool) (act nIn : Nat) (net : Net) (e : Nat) (last : List Nat)
    (hin : 0 < nIn) (hI : MInv act nIn net e last) (sz : Nat) (hsz : 0 < sz) :
    MInv act nIn (gt net (hidLayer offset (nIn - 1) (ids e sz) act)) (e + sz) (ids e sz) ∧
    (gt net (hidLayer offset (nIn - 1) (ids e sz) act)).conns =
      net.conns ++ product (biasIn offset (nIn - 1)) (ids e sz) ++ product last (ids e sz) := by
  have hls := ids_sorted e sz
  have hnin : nIn ≤ e := by
    have := hI.lt_nodes (nIn - 1) (mem_union.mpr (Or.inl (by rw [hI.inp]; exact List.mem_range.mpr (by omega))))
    omega
  rw [hidLayer_eq _ _ _ _ hls, gt_eq_gtMain _ _ (by rw [hI.inp]; simpa using hin) (Or.inl (by simp))]
  rw [gtMain_layer act nIn net e last hI _ (ids e sz) (biasIn offset (nIn - 1)) (biasIn_lt offset nIn hin) rfl rfl
    (by simp [Net.hiddens, norm_of_sorted hls, union_nil_right hls]) List.Pairwise.nil]
  refine ⟨⟨rfl, rfl, ?_, ?_, ?_, ?_, ?_⟩, rfl⟩
  · apply eq_of_sorted_of_mem_iff (diff_sorted _ (union_sorted _ _)) hls
    intro x
    simp only [mem_diff, mem_union, mem_hiddens, List.mem_map, List.mem_append, List.mem_singleton,
      mem_ids, not_exists, not_and]
    constructor
    · rintro ⟨hx, hns⟩
      by_contra hxl
      have hxold : x ∈ union net.inputs net.hiddens := by
        rw [mem_union, mem_hiddens, hI.inp]
        rcases hx with hx | ⟨l', hl' | hl', hxl'⟩
        · exact Or.inl hx
        · exact Or.inr ⟨l', hl', hxl'⟩
        · subst hl'; exact absurd (mem_ids.mp hxl') hxl
      by_cases hsrc : x ∈ net.conns.map (·.1)
      · obtain ⟨c, hc, rfl⟩ := List.mem_map.mp hsrc
        exact hns c (Or.inl (Or.inl hc)) rfl
      · have hxlast : x ∈ last := by rw [← hI.sinks]; exact mem_diff.mpr ⟨hxold, hsrc⟩
        exact hns (x, e) (Or.inr (mem_product.mpr ⟨hxlast, mem_ids.mpr ⟨Nat.le_refl _, by omega⟩⟩)) rfl
    · intro hx
      refine ⟨Or.inr ⟨ids e sz, Or.inr rfl, mem_ids.mpr hx⟩, ?_⟩
      rintro c ((hc | hc) | hc) rfl
      · have := hI.lt_src c hc; omega
      · have := biasIn_lt offset nIn hin _ (mem_product.mp hc).1; omega
      · have h1 : c.1 ∈ last := (mem_product.mp hc).1
        rw [← hI.sinks] at h1
        have := hI.lt_nodes _ (mem_diff.mp h1).1
        omega
  · intro x hx
    simp only [mem_union, mem_hiddens, List.mem_append, List.mem_singleton] at hx
    rcases hx with hx | ⟨l', hl' | hl', hxl'⟩
    · have := List.mem_range.mp hx; omega
    · have := hI.lt_nodes x (mem_union.mpr (Or.inr (mem_hiddens.mpr ⟨l', hl', hxl'⟩))); omega
    · subst hl'; exact (mem_ids.mp hxl').2
  · intro c hc
    simp only [List.mem_append] at hc
    rcases hc with (hc | hc) | hc
    · have := hI.lt_src c hc; omega
    · have := biasIn_lt offset nIn hin _ (mem_product.mp hc).1; omega
    · have h1 : c.1 ∈ last := (mem_product.mp hc).1
      rw [← hI.sinks] at h1
      have := hI.lt_nodes _ (mem_diff.mp h1).1
      omega
  · intro p hp
    simp only [List.mem_append, List.mem_map] at hp
    rcases hp with hp | ⟨i, hi, rfl⟩
    · have := hI.act_val p hp; exact ⟨this.1, by omega⟩
    · exact ⟨rfl, (mem_ids.mp hi).2⟩
  · intro h hh
    simp only [mem_hiddens, List.mem_append, List.mem_singleton] at hh
    obtain ⟨l', hl' | hl', hxl'⟩ := hh
    · obtain ⟨p, hp, hp1⟩ := hI.act_has h (mem_hiddens.mpr ⟨l', hl', hxl'⟩)
      exact ⟨p, List.mem_append.mpr (Or.inl hp), hp1⟩
    · subst hl'
      exact ⟨(h, act), List.mem_append.mpr (Or.inr (List.mem_map.mpr ⟨h, hxl', rfl⟩)), rfl⟩


theorem activ_eq_of (n : Net) (t a : Nat) (h1 : ∃ p ∈ n.activs, p.1 = t)
    (h2 : ∀ p ∈ n.activs, p.1 = t → p.2 = a) : n.activ t = a := by
  unfold Net.activ
  cases hf : n.activs.reverse.find? (fun p => p.1 == t) with
  | none =>
    exfalso
    rw [List.find?_eq_none] at hf
    obtain ⟨p, hp, hp1⟩ := h1
    have := hf p (List.mem_reverse.mpr hp)
    simp [hp1] at this
  | some p =>
    have hp := List.mem_reverse.mp (List.mem_of_find?_eq_some hf)
    have hp1 := List.find?_some hf
    exact h2 p hp (by simpa using hp1)

def layersFrom : Nat → List Nat → List (List Nat)
  | _, [] => []
  | e, sz :: r => ids e sz :: layersFrom (e + sz) r

theorem mlpLayers_eq (nIn nOut : Nat) (hs : List Nat) :
    mlpLayers nIn nOut hs = List.range nIn :: layersFrom nIn (hs ++ [nOut]) := by
  have key : ∀ (sizes : List Nat) (acc : List (List Nat)) (e : Nat),
      (sizes.foldl (fun (acc : List (List Nat) × Nat) sz =>
        (acc.1 ++ [(List.range sz).map (· + acc.2)], acc.2 + sz)) (acc, e)).1 = acc ++ layersFrom e sizes := by
    intro sizes
    induction sizes with
    | nil => intro acc e; simp [layersFrom]
    | cons sz r ih => intro acc e; simp only [List.foldl_cons, ih, layersFrom, ids]; simp
  unfold mlpLayers
  simp only [key]
  rfl

def biasE (offset : Bool) (b : Nat) (ls : List (List Nat)) : List (Nat × Nat) :=
  if offset then ls.flatMap fun l => product [b] l else []

theorem product_biasIn (offset : Bool) (b : Nat) (l : List Nat) (ls : List (List Nat)) :
    biasE offset b (l :: ls) = product (biasIn offset b) l ++ biasE offset b ls := by
  cases offset <;> simp [biasE, biasIn]

theorem step_out (offset : Bool) (act outAct nIn : Nat) (net : Net) (e : Nat) (last : List Nat)
    (hin : 0 < nIn) (hI : MInv act nIn net e last) (nOut : Nat) (ho : 0 < nOut) :
    (gt net (outLayer offset (nIn - 1) (ids e nOut) outAct)).conns =
      net.conns ++ product (biasIn offset (nIn - 1)) (ids e nOut) ++ product last (ids e nOut) ∧
    (gt net (outLayer offset (nIn - 1) (ids e nOut) outAct)).inputs = List.range nIn ∧
    (gt net (outLayer offset (nIn - 1) (ids e nOut) outAct)).outputs = ids e nOut ∧
    (∀ o ∈ (gt net (outLayer offset (nIn - 1) (ids e nOut) outAct)).outputs,
      (gt net (outLayer offset (nIn - 1) (ids e nOut) outAct)).activ o = outAct) ∧
    (∀ h ∈ (gt net (outLayer offset (nIn - 1) (ids e nOut) outAct)).hiddens,
      (gt net (outLayer offset (nIn - 1) (ids e nOut) outAct)).activ h = act) := by
  have hls := ids_sorted e nOut
  have hne : (ids e nOut).length ≠ 0 := by
    intro h; exact ids_ne_nil ho (List.length_eq_zero_iff.mp h)
  rw [outLayer_eq _ _ _ _ hls, gt_eq_gtMain _ _ (by rw [hI.inp]; simpa using hin) (Or.inr hne)]
  rw [gtMain_layer act nIn net e last hI _ (ids e nOut) (biasIn offset (nIn - 1)) (biasIn_lt offset nIn hin) rfl rfl
    (by simp [Net.hiddens, union_nil_left hls]) hls]
  refine ⟨rfl, rfl, rfl, ?_, ?_⟩
  · intro o ho'
    apply activ_eq_of
    · exact ⟨(o, outAct), List.mem_append.mpr (Or.inr (List.mem_map.mpr ⟨o, ho', rfl⟩)), rfl⟩
    · intro p hp hp1
      simp only [List.mem_append, List.mem_map] at hp
      rcases hp with hp | ⟨i, hi, rfl⟩
      · have := (hI.act_val p hp).2
        have := (mem_ids.mp ho').1
        omega
      · rfl
  · intro h hh
    have hh' : h ∈ net.hiddens := by
      simp only [mem_hiddens, List.append_nil] at hh ⊢
      exact hh
    apply activ_eq_of
    · obtain ⟨p, hp, hp1⟩ := hI.act_has h hh'
      exact ⟨p, List.mem_append.mpr (Or.inl hp), hp1⟩
    · intro p hp hp1
      simp only [List.mem_append, List.mem_map] at hp
      rcases hp with hp | ⟨i, hi, rfl⟩
      · exact (hI.act_val p hp).1
      · have := hI.lt_nodes h (mem_union.mpr (Or.inr hh'))
        have := (mem_ids.mp hi).1
        simp at hp1
        omega


theorem consecutive_cons2 (a b : List Nat) (r : List (List Nat)) :
    consecutive (a :: b :: r) = product a b ++ consecutive (b :: r) := rfl

theorem defineNetAux_cons (offset : Bool) (act nIn sz : Nat) (rest : List Nat) (net : Net) (e : Nat) :
    defineNetAux offset act nIn (sz :: rest) net e =
      defineNetAux offset act nIn rest (gt net (hidLayer offset (nIn - 1) (ids e sz) act)) (e + sz) := by
  cases offset <;> rfl

theorem biasE_nil (offset : Bool) (b : Nat) : biasE offset b [] = [] := by
  cases offset <;> simp [biasE]

theorem mlp_build (offset : Bool) (act outAct nIn nOut : Nat) (hin : 0 < nIn) (ho : 0 < nOut) :
    ∀ (hs : List Nat) (net : Net) (e : Nat) (last : List Nat), MInv act nIn net e last →
    (∀ s ∈ hs, 0 < s) →
    let R := gt (defineNetAux offset act nIn hs net e).1
      (outLayer offset (nIn - 1) (ids (defineNetAux offset act nIn hs net e).2 nOut) outAct)
    R.conns.Perm (net.conns ++ consecutive (last :: layersFrom e (hs ++ [nOut])) ++
      biasE offset (nIn - 1) (layersFrom e (hs ++ [nOut]))) ∧
    R.inputs = List.range nIn ∧ R.outputs = ids (e + hs.sum) nOut ∧
    (∀ o ∈ R.outputs, R.activ o = outAct) ∧ (∀ h ∈ R.hiddens, R.activ h = act) := by
  intro hs
  induction hs with
  | nil =>
    intro net e last hI _
    obtain ⟨h1, h2, h3, h4, h5⟩ := step_out offset act outAct nIn net e last hin hI nOut ho
    refine ⟨?_, h2, by simpa [defineNetAux] using h3, h4, h5⟩
    simp only [defineNetAux] at h1 ⊢
    rw [h1]
    simp only [List.nil_append, layersFrom, consecutive, product_biasIn, biasE_nil, List.append_nil]
    rw [List.perm_iff_count]
    intro a
    simp only [List.count_append]
    omega
  | cons sz rest ih =>
    intro net e last hI hpos
    obtain ⟨hI', hc⟩ := step_hidden offset act nIn net e last hin hI sz (hpos sz (by simp))
    have := ih _ (e + sz) (ids e sz) hI' (fun s hs => hpos s (by simp [hs]))
    simp only [defineNetAux_cons]
    obtain ⟨h1, h2, h3, h4, h5⟩ := this
    refine ⟨?_, h2, by rw [h3]; simp [Nat.add_assoc], h4, h5⟩
    refine h1.trans ?_
    rw [hc]
    simp only [List.cons_append, layersFrom, consecutive_cons2, product_biasIn]
    rw [List.perm_iff_count]
    intro a
    simp only [List.count_append]
    omega

theorem mlp_layers (offset : Bool) (act outAct nIn nOut : Nat) (hs : List Nat)
    (hpos : ∀ s ∈ hs, 0 < s) (hin : 0 < nIn) (ho : 0 < nOut) :
    let n := defineNet offset act outAct nIn nOut hs
    n.conns.Perm (mlpSpec offset nIn nOut hs) ∧ n.inputs = List.range nIn ∧
    n.outputs = (List.range nOut).map (· + (nIn + hs.sum)) ∧
    (∀ o ∈ n.outputs, n.activ o = outAct) ∧ (∀ h ∈ n.hiddens, n.activ h = act) := by
  have hdef : defineNet offset act outAct nIn nOut hs =
      gt (defineNetAux offset act nIn hs { inputs := List.range nIn } nIn).1
        (outLayer offset (nIn - 1) (ids (defineNetAux offset act nIn hs { inputs := List.range nIn } nIn).2 nOut) outAct) := by
    cases offset <;> rfl
  intro n
  have := mlp_build offset act outAct nIn nOut hin ho hs _ nIn _ (MInv_init act nIn) hpos
  simp only [← hdef] at this
  obtain ⟨h1, h2, h3, h4, h5⟩ := this
  refine ⟨?_, h2, h3, h4, h5⟩
  refine h1.trans ?_
  unfold mlpSpec
  simp only [mlpLayers_eq, List.drop_one, List.tail_cons, List.nil_append, biasE]
  exact List.Perm.refl _

end TFV.Net
