/-
  TFV.Lemmas.SelfConf — proofs for C14 (self-configuration keeps operator probabilities a
  distribution and uses them).
-/
import TFV.Model.SelfConf
import Mathlib.Tactic.Linarith
import Mathlib.Tactic.FieldSimp
import Mathlib.Tactic.Ring
import Mathlib.Tactic.Positivity

namespace TFV.SelfConf

/-! ### sums of rational lists -/

theorem sum_nonneg' (l : List Rat) (h : ∀ a ∈ l, 0 ≤ a) : 0 ≤ l.sum := by
  induction l with
  | nil => simp
  | cons a as ih =>
    rw [List.sum_cons]
    have h1 := h a (List.mem_cons_self ..)
    have h2 := ih fun x hx => h x (List.mem_cons_of_mem _ hx)
    linarith

theorem sum_map_div (l : List Rat) (c : Rat) : (l.map (· / c)).sum = l.sum / c := by
  induction l with
  | nil => simp
  | cons a as ih => simp only [List.map_cons, List.sum_cons, ih]; ring

theorem sum_map_le_add (f : Rat → Rat) (c : Rat) (l : List Rat) (h : ∀ x ∈ l, f x ≤ x + c) :
    (l.map f).sum ≤ l.sum + (l.length : Rat) * c := by
  induction l with
  | nil => simp
  | cons a as ih =>
    have h1 := h a (List.mem_cons_self ..)
    have h2 := ih fun x hx => h x (List.mem_cons_of_mem _ hx)
    simp only [List.map_cons, List.sum_cons, List.length_cons, Nat.cast_add, Nat.cast_one]
    linarith

theorem sum_le_sum_map (f : Rat → Rat) (l : List Rat) (h : ∀ x ∈ l, x ≤ f x) :
    l.sum ≤ (l.map f).sum := by
  induction l with
  | nil => simp
  | cons a as ih =>
    have h1 := h a (List.mem_cons_self ..)
    have h2 := ih fun x hx => h x (List.mem_cons_of_mem _ hx)
    simp only [List.map_cons, List.sum_cons]
    linarith

theorem sum_map_affine (l : List Rat) (a c : Rat) :
    (l.map fun x => a + x * c).sum = (l.length : Rat) * a + l.sum * c := by
  induction l with
  | nil => simp
  | cons y ys ih =>
    simp only [List.map_cons, List.sum_cons, List.length_cons, Nat.cast_add, Nat.cast_one, ih]
    ring

/-! ### clip -/

theorem clip_ge (lo hi x : Rat) (h : lo ≤ hi) : lo ≤ clip lo hi x := by
  unfold clip; split_ifs <;> linarith

theorem clip_le (lo hi x : Rat) (h : lo ≤ hi) : clip lo hi x ≤ hi := by
  unfold clip; split_ifs <;> linarith

theorem clip_ge_self (lo hi x : Rat) (h : x ≤ hi) : x ≤ clip lo hi x := by
  unfold clip; split_ifs <;> linarith

theorem clip_of_gt (lo hi x : Rat) (h : lo ≤ hi) (hx : hi < x) : clip lo hi x = hi := by
  unfold clip
  rw [if_neg (by linarith), if_pos hx]

theorem clip_le_add (lo hi x e : Rat) (hlo : 0 ≤ lo) (he0 : 0 ≤ e) (he : -e ≤ x) :
    clip lo hi x ≤ x + (lo + e) := by
  unfold clip; split_ifs <;> linarith

/-! ### the bump -/

/-- sum of an indexed bump with an index offset -/
theorem sum_mapIdx_bump (l : List Rat) (o w : Nat) (d c : Rat) :
    (l.mapIdx fun i x => (if i + o = w then x + d else x) - c).sum =
      l.sum + (if o ≤ w ∧ w < o + l.length then d else 0) - (l.length : Rat) * c := by
  induction l generalizing o with
  | nil => simp
  | cons a as ih =>
    rw [List.mapIdx_cons, List.sum_cons]
    have e : (fun i x => (if (i + 1) + o = w then x + d else x) - c)
        = (fun i (x : Rat) => (if i + (o + 1) = w then x + d else x) - c) := by
      funext i x
      have : (i + 1) + o = i + (o + 1) := by omega
      rw [this]
    rw [e, ih (o + 1)]
    simp only [List.sum_cons, List.length_cons, Nat.cast_add, Nat.cast_one, Nat.zero_add]
    by_cases h0 : o = w
    · subst h0
      rw [if_pos rfl, if_neg (by omega), if_pos (by omega)]
      ring
    · rw [if_neg h0]
      by_cases h1 : o + 1 ≤ w ∧ w < o + 1 + as.length
      · rw [if_pos h1, if_pos (by omega)]; ring
      · rw [if_neg h1, if_neg (by omega)]; ring

theorem bumped_sum (p : List Rat) (winner : Nat) (K : Rat) (iters : Nat)
    (hw : winner < p.length) (hi : 0 < iters) :
    (bumped p winner K iters).sum = p.sum := by
  unfold bumped
  have e : (fun i x => (if i = winner then x + K / (iters : Rat) else x)
        - K / ((p.length : Rat) * (iters : Rat)))
      = (fun i (x : Rat) => (if i + 0 = winner then x + K / (iters : Rat) else x)
        - K / ((p.length : Rat) * (iters : Rat))) := by
    funext i x; simp
  rw [e, sum_mapIdx_bump, if_pos (by omega)]
  have hz : (p.length : Rat) ≠ 0 := by
    have : (0 : Rat) < (p.length : Rat) := by exact_mod_cast (by omega : 0 < p.length)
    exact ne_of_gt this
  have hi' : (iters : Rat) ≠ 0 := by
    have : (0 : Rat) < (iters : Rat) := by exact_mod_cast hi
    exact ne_of_gt this
  field_simp
  ring

theorem bumped_length (p : List Rat) (winner : Nat) (K : Rat) (iters : Nat) :
    (bumped p winner K iters).length = p.length := by simp [bumped]

theorem bumped_ge (p : List Rat) (winner : Nat) (K : Rat) (iters : Nat)
    (hpos : ∀ x ∈ p, 0 ≤ x) (hK : 0 ≤ K) :
    ∀ y ∈ bumped p winner K iters, -(K / ((p.length : Rat) * (iters : Rat))) ≤ y := by
  intro y hy
  unfold bumped at hy
  obtain ⟨i, hi, rfl⟩ := List.mem_mapIdx.mp hy
  have hx := hpos _ (List.getElem_mem hi)
  have hd : 0 ≤ K / (iters : Rat) := div_nonneg hK (by positivity)
  split_ifs <;> linarith

/-! ### SelfC update -/

theorem one_le_sum_clip_of_gt (thr : Rat) (ht : 0 ≤ thr) (ht1 : thr ≤ 1) (b : List Rat) (x : Rat)
    (hx : x ∈ b) (h1 : 1 < x) : 1 ≤ (b.map (clip thr 1)).sum := by
  induction b with
  | nil => simp at hx
  | cons a as ih =>
    simp only [List.map_cons, List.sum_cons]
    rcases List.mem_cons.mp hx with rfl | hx'
    · rw [clip_of_gt thr 1 x ht1 h1]
      have : 0 ≤ (as.map (clip thr 1)).sum := sum_nonneg' _ (by
        intro y hy
        obtain ⟨z, _, rfl⟩ := List.mem_map.mp hy
        exact le_trans ht (clip_ge thr 1 z ht1))
      linarith
    · have := ih hx'
      have h2 := clip_ge thr 1 a ht1
      linarith

theorem one_le_sum_clip (thr : Rat) (ht : 0 ≤ thr) (ht1 : thr ≤ 1) (b : List Rat) (hb : b.sum = 1) :
    1 ≤ (b.map (clip thr 1)).sum := by
  by_cases h : ∃ x ∈ b, 1 < x
  · obtain ⟨x, hx, h1⟩ := h
    exact one_le_sum_clip_of_gt thr ht ht1 b x hx h1
  · have h' : ∀ x ∈ b, x ≤ 1 := fun x hx => le_of_not_gt fun h1 => h ⟨x, hx, h1⟩
    have := sum_le_sum_map (clip thr 1) b fun x hx => clip_ge_self thr 1 x (h' x hx)
    linarith

theorem newProba_dist (p : List Rat) (winner : Nat) (K : Rat) (iters : Nat) (thr : Rat)
    (hp : p.sum = 1) (hpos : ∀ x ∈ p, 0 ≤ x) (hw : winner < p.length) (hK : 0 ≤ K) (hi : 0 < iters)
    (ht : 0 < thr) (ht1 : thr ≤ 1) :
    let q := newProba p winner K iters thr
    let S := (clipped p winner K iters thr).sum
    q.length = p.length ∧ q.sum = 1 ∧ (∀ x ∈ q, 0 < x ∧ thr / S ≤ x ∧ x ≤ 1) ∧
    1 ≤ S ∧ S ≤ 1 + (p.length : Rat) * thr + K / (iters : Rat) := by
  intro q S
  have hbs : (bumped p winner K iters).sum = 1 := by rw [bumped_sum p winner K iters hw hi, hp]
  have hS1 : 1 ≤ S := one_le_sum_clip thr (le_of_lt ht) ht1 _ hbs
  have hS0 : 0 < S := by linarith
  have hq : q = (clipped p winner K iters thr).map (· / S) := rfl
  have hz : (p.length : Rat) ≠ 0 := by
    have : (0 : Rat) < (p.length : Rat) := by exact_mod_cast (by omega : 0 < p.length)
    exact ne_of_gt this
  have hi' : (iters : Rat) ≠ 0 := by
    have : (0 : Rat) < (iters : Rat) := by exact_mod_cast hi
    exact ne_of_gt this
  refine ⟨?_, ?_, ?_, hS1, ?_⟩
  · rw [hq]; simp [clipped, bumped_length]
  · rw [hq, sum_map_div]; exact div_self (ne_of_gt hS0)
  · intro x hx
    rw [hq] at hx
    obtain ⟨c, hc, rfl⟩ := List.mem_map.mp hx
    unfold clipped at hc
    obtain ⟨y, _, rfl⟩ := List.mem_map.mp hc
    have c1 := clip_ge thr 1 y ht1
    have c2 := clip_le thr 1 y ht1
    refine ⟨div_pos (by linarith) hS0, ?_, ?_⟩
    · exact div_le_div_of_nonneg_right c1 (le_of_lt hS0)
    · show clip thr 1 y / S ≤ 1
      rw [div_le_iff₀ hS0]; linarith
  · have h := sum_map_le_add (clip thr 1) (thr + K / ((p.length : Rat) * (iters : Rat)))
      (bumped p winner K iters) (fun y hy =>
        clip_le_add thr 1 y _ (le_of_lt ht) (div_nonneg hK (by positivity)) (bumped_ge p winner K iters hpos hK y hy))
    rw [hbs, bumped_length] at h
    have e : (p.length : Rat) * (thr + K / ((p.length : Rat) * (iters : Rat)))
        = (p.length : Rat) * thr + K / (iters : Rat) := by
      field_simp
    show (clipped p winner K iters thr).sum ≤ _
    unfold clipped
    linarith

theorem newProba_rule (p : List Rat) (winner : Nat) (K : Rat) (iters : Nat) (thr : Rat) (i : Nat)
    (hi : i < p.length) :
    (newProba p winner K iters thr).getD i 0 =
      clip thr 1 ((if i = winner then p.getD i 0 + K / (iters : Rat) else p.getD i 0)
        - K / ((p.length : Rat) * (iters : Rat))) / (clipped p winner K iters thr).sum := by
  have hq : newProba p winner K iters thr
      = (clipped p winner K iters thr).map (· / (clipped p winner K iters thr).sum) := rfl
  rw [hq]
  simp only [List.getD_eq_getElem?_getD, List.getElem?_map]
  unfold clipped bumped
  simp only [List.getElem?_map, List.getElem?_mapIdx, List.getElem?_eq_getElem hi,
    Option.map_some, Option.getD_some]

/-! ### the fittest operator -/

/-- with equally long lists, an operator that occurs has a non-empty group -/
theorem exists_zip_of_mem {α : Type} (ops : List Nat) (ys : List α) (hl : ops.length = ys.length)
    (k : Nat) (hk : k ∈ ops) : ∃ y, (k, y) ∈ ops.zip ys := by
  induction ops generalizing ys with
  | nil => simp at hk
  | cons o os ih =>
    cases ys with
    | nil => simp at hl
    | cons y ys' =>
      rcases List.mem_cons.mp hk with rfl | hk'
      · exact ⟨y, by simp⟩
      · obtain ⟨z, hz⟩ := ih ys' (by simpa using hl) hk'
        exact ⟨z, by simp [hz]⟩

theorem filt_ne_nil_iff {α : Type} (ops : List Nat) (ys : List α) (hl : ops.length = ys.length)
    (k : Nat) :
    (((ops.zip ys).filter fun (o, _) => o == k).map (·.2)) ≠ [] ↔ k ∈ ops := by
  constructor
  · intro h
    have h' : ((ops.zip ys).filter fun (o, _) => o == k) ≠ [] := by
      intro e; apply h; rw [e]; rfl
    obtain ⟨⟨o, y⟩, hm⟩ := List.exists_mem_of_ne_nil _ h'
    obtain ⟨hz, ho⟩ := List.mem_filter.mp hm
    have : o = k := by simpa using ho
    subst this
    exact (List.of_mem_zip hz).1
  · intro hk
    obtain ⟨y, hy⟩ := exists_zip_of_mem ops ys hl k hk
    have hm : (k, y) ∈ (ops.zip ys).filter fun (o, _) => o == k :=
      List.mem_filter.mpr ⟨hy, by simp⟩
    intro e
    have := List.mem_map_of_mem (f := (·.2)) hm
    rw [e] at this
    simp at this

theorem group_ne_nil_iff (ops : List Nat) (fit : List Rat) (hl : ops.length = fit.length) (k : Nat) :
    group ops fit k ≠ [] ↔ k ∈ ops := filt_ne_nil_iff ops fit hl k

theorem fittestAux_spec (ops : List Nat) (fit : List Rat) (ks : List Nat) (best : Option (Nat × Rat))
    (hv : ∀ bk bm, best = some (bk, bm) → bm = meanOf (group ops fit bk) ∧ group ops fit bk ≠ [])
    (hn : best = none → ∃ k ∈ ks, group ops fit k ≠ []) :
    ∃ k m, fittestAux ops fit ks best = some (k, m) ∧ m = meanOf (group ops fit k) ∧
      group ops fit k ≠ [] ∧ (∀ k' ∈ ks, group ops fit k' ≠ [] → meanOf (group ops fit k') ≤ m) ∧
      (∀ bk bm, best = some (bk, bm) → bm ≤ m) := by
  induction ks generalizing best with
  | nil =>
    cases best with
    | none => obtain ⟨k, hk, _⟩ := hn rfl; simp at hk
    | some b =>
      obtain ⟨bk, bm⟩ := b
      obtain ⟨h1, h2⟩ := hv bk bm rfl
      refine ⟨bk, bm, rfl, h1, h2, by simp, ?_⟩
      intro bk' bm' e
      have : bm' = bm := by
        have := Option.some.inj e; exact (congrArg Prod.snd this).symm
      rw [this]
  | cons k ks ih =>
    unfold fittestAux
    simp only
    by_cases hg : (group ops fit k).isEmpty = true
    · rw [if_pos hg]
      have hg' : group ops fit k = [] := List.isEmpty_iff.mp hg
      obtain ⟨k0, m0, e, h1, h2, h3, h4⟩ := ih best hv (by
        intro hb
        obtain ⟨k1, hk1, hne⟩ := hn hb
        rcases List.mem_cons.mp hk1 with rfl | hk1'
        · exact absurd hg' hne
        · exact ⟨k1, hk1', hne⟩)
      refine ⟨k0, m0, e, h1, h2, ?_, h4⟩
      intro k' hk' hne
      rcases List.mem_cons.mp hk' with rfl | hk''
      · exact absurd hg' hne
      · exact h3 k' hk'' hne
    · rw [if_neg hg]
      have hg' : group ops fit k ≠ [] := fun e => hg (List.isEmpty_iff.mpr e)
      cases best with
      | none =>
        simp only
        obtain ⟨k0, m0, e, h1, h2, h3, h4⟩ := ih (some (k, meanOf (group ops fit k)))
          (by
            intro bk bm hb
            have := Option.some.inj hb
            have e1 : k = bk := congrArg Prod.fst this
            have e2 : meanOf (group ops fit k) = bm := congrArg Prod.snd this
            subst e1; exact ⟨e2.symm, hg'⟩)
          (by intro hb; cases hb)
        refine ⟨k0, m0, e, h1, h2, ?_, by intro _ _ hb; cases hb⟩
        intro k' hk' hne
        rcases List.mem_cons.mp hk' with rfl | hk''
        · exact h4 _ _ rfl
        · exact h3 k' hk'' hne
      | some b =>
        obtain ⟨bk, bm⟩ := b
        simp only
        obtain ⟨hb1, hb2⟩ := hv bk bm rfl
        by_cases hlt : bm < meanOf (group ops fit k)
        · rw [if_pos hlt]
          obtain ⟨k0, m0, e, h1, h2, h3, h4⟩ := ih (some (k, meanOf (group ops fit k)))
            (by
              intro bk' bm' hb
              have := Option.some.inj hb
              have e1 : k = bk' := congrArg Prod.fst this
              have e2 : meanOf (group ops fit k) = bm' := congrArg Prod.snd this
              subst e1; exact ⟨e2.symm, hg'⟩)
            (by intro hb; cases hb)
          have hk0 := h4 _ _ rfl
          refine ⟨k0, m0, e, h1, h2, ?_, ?_⟩
          · intro k' hk' hne
            rcases List.mem_cons.mp hk' with rfl | hk''
            · exact hk0
            · exact h3 k' hk'' hne
          · intro bk' bm' hb
            have := Option.some.inj hb
            have e2 : bm = bm' := congrArg Prod.snd this
            rw [← e2]; linarith
        · rw [if_neg hlt]
          obtain ⟨k0, m0, e, h1, h2, h3, h4⟩ := ih (some (bk, bm)) hv (by intro hb; cases hb)
          have hk0 := h4 _ _ rfl
          refine ⟨k0, m0, e, h1, h2, ?_, h4⟩
          intro k' hk' hne
          rcases List.mem_cons.mp hk' with rfl | hk''
          · have := le_of_not_gt hlt; linarith
          · exact h3 k' hk'' hne

theorem fittest_spec (nOps : Nat) (ops : List Nat) (fit : List Rat) (hl : ops.length = fit.length)
    (hne : ops ≠ []) (hr : ∀ o ∈ ops, o < nOps) :
    let w := fittestOperator nOps ops fit
    w ∈ ops ∧ ∀ k ∈ ops, meanOf (group ops fit k) ≤ meanOf (group ops fit w) := by
  intro w
  obtain ⟨o, ho⟩ := List.exists_mem_of_ne_nil ops hne
  obtain ⟨k0, m0, e, h1, h2, h3, _⟩ := fittestAux_spec ops fit (List.range nOps) none
    (by intro _ _ hb; cases hb)
    (fun _ => ⟨o, List.mem_range.mpr (hr o ho), (group_ne_nil_iff ops fit hl o).mpr ho⟩)
  have hw : w = k0 := by
    show fittestOperator nOps ops fit = k0
    unfold fittestOperator; rw [e]
  rw [hw]
  refine ⟨(group_ne_nil_iff ops fit hl k0).mp h2, ?_⟩
  intro k hk
  rw [← h1]
  exact h3 k (List.mem_range.mpr (hr k hk)) ((group_ne_nil_iff ops fit hl k).mpr hk)

/-! ### PDP -/

theorem rValue_nonneg (ops : List Nat) (succ : List Bool) (k : Nat) : 0 ≤ rValue ops succ k := by
  unfold rValue
  simp only
  split_ifs
  · exact le_refl _
  · positivity

theorem rValue_pos (ops : List Nat) (succ : List Bool) (hl : ops.length = succ.length) (k : Nat)
    (hk : k ∈ ops) : 0 < rValue ops succ k := by
  have hne := (filt_ne_nil_iff ops succ hl k).mpr hk
  unfold rValue
  simp only
  rw [if_neg (by rw [List.isEmpty_iff]; exact hne)]
  positivity

theorem rValue_unused (ops : List Nat) (succ : List Bool) (k : Nat)
    (hk : k ∉ ops) : rValue ops succ k = 0 := by
  have he : (((ops.zip succ).filter fun (o, _) => o == k).map (·.2)) = [] := by
    rw [List.map_eq_nil_iff, List.filter_eq_nil_iff]
    rintro ⟨o, s⟩ hm
    have := (List.of_mem_zip hm).1
    simp only [beq_iff_eq]
    rintro rfl
    exact hk this
  unfold rValue
  simp only
  rw [if_pos (by rw [List.isEmpty_iff]; exact he)]

theorem sum_pos_of_mem (l : List Rat) (h : ∀ a ∈ l, 0 ≤ a) (x : Rat) (hx : x ∈ l) (hp : 0 < x) :
    0 < l.sum := by
  induction l with
  | nil => simp at hx
  | cons a as ih =>
    rw [List.sum_cons]
    have h1 := h a (List.mem_cons_self ..)
    have h2 := sum_nonneg' as fun y hy => h y (List.mem_cons_of_mem _ hy)
    rcases List.mem_cons.mp hx with rfl | hx'
    · linarith
    · have := ih (fun y hy => h y (List.mem_cons_of_mem _ hy)) hx'
      linarith

theorem pdp_dist (n : Nat) (ops : List Nat) (succ : List Bool) (thr : Rat)
    (hl : ops.length = succ.length) (hne : ops ≠ []) (hr : ∀ o ∈ ops, o < n)
    (_ht : 0 ≤ thr) (hnt : (n : Rat) * thr ≤ 1) :
    let q := pdpProba n ops succ thr
    q.length = n ∧ q.sum = 1 ∧ (∀ x ∈ q, thr ≤ x) ∧
    (∀ k, k < n → k ∉ ops → q.getD k 0 = thr) := by
  intro q
  have hq : q = ((List.range n).map (rValue ops succ)).map fun rk =>
      thr + rk * ((1 - (n : Rat) * thr) / ((List.range n).map (rValue ops succ)).sum) := rfl
  obtain ⟨o, ho⟩ := List.exists_mem_of_ne_nil ops hne
  have hrn : ∀ a ∈ (List.range n).map (rValue ops succ), 0 ≤ a := by
    intro a ha
    obtain ⟨k, _, rfl⟩ := List.mem_map.mp ha
    exact rValue_nonneg ops succ k
  have hS : 0 < ((List.range n).map (rValue ops succ)).sum :=
    sum_pos_of_mem _ hrn (rValue ops succ o)
      (List.mem_map_of_mem (List.mem_range.mpr (hr o ho))) (rValue_pos ops succ hl o ho)
  have hc : 0 ≤ (1 - (n : Rat) * thr) / ((List.range n).map (rValue ops succ)).sum :=
    div_nonneg (by linarith) (le_of_lt hS)
  refine ⟨by rw [hq]; simp, ?_, ?_, ?_⟩
  · rw [hq, sum_map_affine]
    simp only [List.length_map, List.length_range]
    rw [mul_div_cancel₀ _ (ne_of_gt hS)]
    ring
  · intro x hx
    rw [hq] at hx
    obtain ⟨rk, hrk, rfl⟩ := List.mem_map.mp hx
    have := mul_nonneg (hrn rk hrk) hc
    linarith
  · intro k hk hko
    rw [hq]
    simp only [List.getD_eq_getElem?_getD, List.getElem?_map, List.getElem?_range hk,
      Option.map_some, Option.getD_some]
    rw [rValue_unused ops succ k hko]
    ring

/-! ### drawing operators -/

theorem drawAux_spec (v : Rat) (xs : List Rat) (acc : Rat) (h1 : acc < v) (h2 : v ≤ acc + xs.sum) :
    drawAux v acc xs < xs.length ∧ acc + (xs.take (drawAux v acc xs)).sum < v ∧
      v ≤ acc + (xs.take (drawAux v acc xs + 1)).sum := by
  induction xs generalizing acc with
  | nil => simp at h2; linarith
  | cons x xs ih =>
    unfold drawAux
    by_cases h : v ≤ acc + x
    · rw [if_pos h]
      simp
      exact ⟨h1, h⟩
    · rw [if_neg h]
      rw [List.sum_cons] at h2
      obtain ⟨i1, i2, i3⟩ := ih (acc + x) (lt_of_not_ge h) (by linarith)
      have e : 1 + drawAux v (acc + x) xs = drawAux v (acc + x) xs + 1 := Nat.add_comm _ _
      rw [e]
      simp only [List.length_cons, List.take_succ_cons, List.sum_cons]
      exact ⟨by omega, by linarith, by linarith⟩

theorem sum_pos'' (l : List Rat) (hne : l ≠ []) (h : ∀ a ∈ l, 0 < a) : 0 < l.sum := by
  obtain ⟨x, hx⟩ := List.exists_mem_of_ne_nil l hne
  exact sum_pos_of_mem l (fun a ha => le_of_lt (h a ha)) x hx (h x hx)

theorem draw_interval (p : List Rat) (u : Rat) (hp : ∀ x ∈ p, 0 < x) (hne : p ≠ [])
    (hu : 0 < u ∧ u < 1) :
    let k := drawOp p u
    (p.take k).sum < u * p.sum ∧ u * p.sum ≤ (p.take (k + 1)).sum := by
  intro k
  have hS := sum_pos'' p hne hp
  have h1 : (0 : Rat) < u * p.sum := mul_pos hu.1 hS
  have h2 : u * p.sum ≤ 0 + p.sum := by
    have : u * p.sum ≤ 1 * p.sum := mul_le_mul_of_nonneg_right (le_of_lt hu.2) (le_of_lt hS)
    linarith
  obtain ⟨i1, i2, i3⟩ := drawAux_spec (u * p.sum) p 0 h1 h2
  have hk : k = drawAux (u * p.sum) 0 p := by
    show drawOp p u = _
    unfold drawOp
    simp only
    rw [if_pos i1]
  rw [hk]
  exact ⟨by linarith, by linarith⟩

theorem drawOp_lt (p : List Rat) (u : Rat) (hne : p ≠ []) : drawOp p u < p.length := by
  have : 0 < p.length := List.length_pos_of_ne_nil hne
  unfold drawOp
  simp only
  split_ifs with h
  · exact h
  · omega

theorem draw_support (p : List Rat) (us : List Rat) (_hp : ∀ x ∈ p, 0 < x) (hne : p ≠ [])
    (_hu : ∀ u ∈ us, 0 < u ∧ u < 1) :
    (chooseOperators p us).length = us.length ∧ ∀ k ∈ chooseOperators p us, k < p.length := by
  unfold chooseOperators
  refine ⟨by simp, ?_⟩
  intro k hk
  obtain ⟨u, _, rfl⟩ := List.mem_map.mp hk
  exact drawOp_lt p u hne

/-! ### all generations -/

theorem invariant (p0 : List Rat) (hp : p0.sum = 1) (hpos : ∀ x ∈ p0, 0 < x) (hne : p0 ≠ [])
    (K : Rat) (iters : Nat) (thr : Rat) (hK : 0 ≤ K) (hi : 0 < iters) (ht : 0 < thr) (ht1 : thr ≤ 1)
    (winners : List Nat) (hw : ∀ w ∈ winners, w < p0.length) :
    let p := winners.foldl (fun p w => newProba p w K iters thr) p0
    p.length = p0.length ∧ p.sum = 1 ∧ ∀ x ∈ p, 0 < x := by
  induction winners generalizing p0 with
  | nil => exact ⟨rfl, hp, hpos⟩
  | cons w ws ih =>
    obtain ⟨d1, d2, d3, _, _⟩ := newProba_dist p0 w K iters thr hp
      (fun x hx => le_of_lt (hpos x hx)) (hw w (List.mem_cons_self ..)) hK hi ht ht1
    have hne' : newProba p0 w K iters thr ≠ [] := by
      intro e
      rw [e] at d1
      exact hne (List.length_eq_zero_iff.mp d1.symm)
    obtain ⟨i1, i2, i3⟩ := ih (newProba p0 w K iters thr) d2 (fun x hx => (d3 x hx).1) hne'
      (fun w' hw' => by rw [d1]; exact hw w' (List.mem_cons_of_mem _ hw'))
    simp only [List.foldl_cons]
    exact ⟨by rw [i1, d1], i2, i3⟩

end TFV.SelfConf
