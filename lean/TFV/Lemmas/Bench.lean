/-
  TFV.Lemmas.Bench — proofs for C20 (benchmark problems).
-/
import TFV.Model.Bench
import Mathlib.Tactic.Linarith
import Mathlib.Tactic.Ring
import Mathlib.Tactic.FieldSimp
import Mathlib.Tactic.Positivity
import Mathlib.Tactic.NormNum

namespace TFV.Bench

/-! ### purity of the shift bookkeeping -/

theorem runCalls_nil (step : Vec → Nat → Vec × Vec) (t : Vec) : runCalls step t [] = (t, []) := rfl

theorem runCalls_cons (step : Vec → Nat → Vec × Vec) (t : Vec) (D : Nat) (rest : List Nat) :
    runCalls step t (D :: rest) =
      ((runCalls step (step t D).1 rest).1, (step t D).2 :: (runCalls step (step t D).1 rest).2) := rfl

theorem pure_copy (write : Vec → Nat → Vec) (pristine : Vec) (history : List Nat) :
    (runCalls (stepCopy write) pristine history).1 = pristine ∧
    (runCalls (stepCopy write) pristine history).2 = history.map (effCopy write pristine) := by
  induction history with
  | nil => simp [runCalls_nil]
  | cons D rest ih =>
    rw [runCalls_cons]
    simp only [stepCopy, List.map_cons]
    exact ⟨ih.1, by rw [ih.2]⟩

theorem inplace_history (write : Vec → Nat → Vec) (pristine : Vec) (history : List Nat) (D : Nat) :
    ((runCalls (stepInPlace write) pristine (history ++ [D])).2.getLast?) =
      some (effInPlace write pristine history D) := by
  induction history generalizing pristine with
  | nil => simp [runCalls_cons, runCalls_nil, stepInPlace, effInPlace]
  | cons E rest ih =>
    rw [List.cons_append, runCalls_cons]
    have h := ih (write pristine E)
    simp only [stepInPlace] at h ⊢
    cases hr : (runCalls (stepInPlace write) (write pristine E) (rest ++ [D])).2 with
    | nil => rw [hr] at h; simp at h
    | cons a l =>
      rw [hr] at h
      rw [List.getLast?_cons_cons, h]
      simp [effInPlace]


theorem fillWhere_getElem? (t : Vec) (lo hi : Nat) (p : Nat → Bool) (v : Rat) (i : Nat) :
    (fillWhere t lo hi p v)[i]? = t[i]?.map (fun x => if lo ≤ i ∧ i < hi ∧ p i then v else x) := by
  simp [fillWhere, List.getElem?_mapIdx]

theorem fillWhere_length (t : Vec) (lo hi : Nat) (p : Nat → Bool) (v : Rat) :
    (fillWhere t lo hi p v).length = t.length := by simp [fillWhere]

theorem f8Write_getElem? (t : Vec) (D i : Nat) :
    (f8Write t D)[i]? = t[i]?.map (fun x => if i < D ∧ i % 2 = 0 then -32 else x) := by
  simp [f8Write, fillWhere_getElem?]

theorem f8Write_absorb (t : Vec) (E D : Nat) :
    (f8Write (f8Write t E) D).take D = (f8Write t D).take D := by
  apply List.ext_getElem?
  intro i
  simp only [List.getElem?_take, f8Write_getElem?]
  split
  · cases t[i]? with
    | none => rfl
    | some x => simp only [Option.map_some]; grind
  · rfl

theorem f8_history_independent (pristine : Vec) (history : List Nat) (D : Nat) :
    effInPlace f8Write pristine history D = effCopy f8Write pristine D := by
  induction history generalizing pristine with
  | nil => rfl
  | cons E rest ih =>
    have h := ih (f8Write pristine E)
    simp only [effInPlace, effCopy, List.foldl_cons] at h ⊢
    rw [h, f8Write_absorb]

theorem f5_inplace_counterexample :
    effInPlace f5Write (List.replicate 30 0) [10] 30 ≠ effCopy f5Write (List.replicate 30 0) 30 := by
  decide

theorem f20_inplace_counterexample :
    effInPlace f20Write (List.replicate 50 0) [50] 10 ≠ effCopy f20Write (List.replicate 50 0) 10 := by
  decide

theorem f5_shift (t : Vec) (D : Nat) (hD : D ≤ t.length) (i : Nat) (hi : i < D) :
    (effCopy f5Write t D).getD i 0 =
      if i < (D + 3) / 4 then -100 else if 3 * D / 4 - 1 ≤ i then 100 else t.getD i 0 := by
  have hi' : i < t.length := by omega
  simp only [effCopy, f5Write, List.getD_eq_getElem?_getD, List.getElem?_take, fillWhere_getElem?, hi,
    if_true, List.getElem?_eq_getElem hi', Option.map_some, Option.getD_some]
  grind

/-! ### sums and products -/

@[simp] theorem sum_nil : sum [] = 0 := rfl
@[simp] theorem sum_cons (a : Rat) (l : Vec) : sum (a :: l) = a + sum l := rfl
@[simp] theorem prod_nil : prod [] = 1 := rfl
@[simp] theorem prod_cons (a : Rat) (l : Vec) : prod (a :: l) = a * prod l := rfl

theorem sum_nonneg (l : Vec) (h : ∀ a ∈ l, 0 ≤ a) : 0 ≤ sum l := by
  induction l with
  | nil => simp
  | cons a l ih =>
    have h1 := h a (by simp)
    have h2 := ih (fun b hb => h b (by simp [hb]))
    rw [sum_cons]; linarith

theorem sum_eq_zero_of_forall (l : Vec) (h : ∀ a ∈ l, a = 0) : sum l = 0 := by
  induction l with
  | nil => simp
  | cons a l ih =>
    have h1 := h a (by simp)
    have h2 := ih (fun b hb => h b (by simp [hb]))
    rw [sum_cons, h1, h2]; norm_num

theorem sum_eq_zero_iff (l : Vec) (h : ∀ a ∈ l, 0 ≤ a) : sum l = 0 ↔ ∀ a ∈ l, a = 0 := by
  constructor
  · induction l with
    | nil => simp
    | cons a l ih =>
      intro hs
      have h1 := h a (by simp)
      have hl : ∀ b ∈ l, 0 ≤ b := fun b hb => h b (by simp [hb])
      have h2 := sum_nonneg l hl
      rw [sum_cons] at hs
      have ha : a = 0 := by linarith
      have hsl : sum l = 0 := by linarith
      intro b hb
      rcases List.mem_cons.1 hb with rfl | hb
      · exact ha
      · exact ih hl hsl b hb
  · exact sum_eq_zero_of_forall l

theorem sum_replicate (n : Nat) (c : Rat) : sum (List.replicate n c) = (n : Rat) * c := by
  induction n with
  | zero => simp
  | succ n ih => rw [List.replicate_succ, sum_cons, ih]; push_cast; ring

theorem sum_replicate_zero (n : Nat) : sum (List.replicate n 0) = 0 := by
  rw [sum_replicate]; ring

theorem sum_map_ge (x : Vec) (F : Rat → Rat) (S : Rat) (h : ∀ a, S ≤ F a) :
    (x.length : Rat) * S ≤ sum (x.map F) := by
  induction x with
  | nil => simp
  | cons a l ih =>
    have := h a
    simp only [List.map_cons, sum_cons, List.length_cons]; push_cast; linarith

theorem sum_mapIdx_le (l : Vec) (f g : Nat → Rat → Rat) (h : ∀ i, ∀ a ∈ l, f i a ≤ g i a) :
    sum (l.mapIdx f) ≤ sum (l.mapIdx g) := by
  induction l generalizing f g with
  | nil => simp
  | cons a l ih =>
    have h1 := h 0 a (by simp)
    have h2 := ih (fun i => f (i + 1)) (fun i => g (i + 1)) (fun i b hb => h (i + 1) b (by simp [hb]))
    simp only [List.mapIdx_cons, sum_cons]; linarith

theorem prod_bounded (l : Vec) (h : ∀ a ∈ l, -1 ≤ a ∧ a ≤ 1) : -1 ≤ prod l ∧ prod l ≤ 1 := by
  induction l with
  | nil => simp
  | cons a l ih =>
    obtain ⟨ha1, ha2⟩ := h a (by simp)
    obtain ⟨hp1, hp2⟩ := ih (fun b hb => h b (by simp [hb]))
    rw [prod_cons]
    constructor
    · nlinarith [mul_nonneg (sub_nonneg.2 ha2) (sub_nonneg.2 hp2),
        mul_nonneg (show (0:Rat) ≤ 1 + a by linarith) (show (0:Rat) ≤ 1 + prod l by linarith)]
    · nlinarith [mul_nonneg (sub_nonneg.2 ha2) (show (0:Rat) ≤ 1 + prod l by linarith),
        mul_nonneg (show (0:Rat) ≤ 1 + a by linarith) (sub_nonneg.2 hp2)]

theorem prod_eq_one_of_forall (l : Vec) (h : ∀ a ∈ l, a = 1) : prod l = 1 := by
  induction l with
  | nil => simp
  | cons a l ih =>
    have h1 := h a (by simp)
    have h2 := ih (fun b hb => h b (by simp [hb]))
    rw [prod_cons, h1, h2]; norm_num

/-! ### basic functions -/

theorem sphere_spec (x : Vec) : 0 ≤ sphere x ∧ (sphere x = 0 ↔ ∀ a ∈ x, a = 0) := by
  have hnn : ∀ b ∈ x.map (fun a => a * a), 0 ≤ b := by
    intro b hb
    obtain ⟨a, _, rfl⟩ := List.mem_map.1 hb
    exact mul_self_nonneg a
  refine ⟨sum_nonneg _ hnn, ?_⟩
  unfold sphere
  rw [sum_eq_zero_iff _ hnn]
  constructor
  · intro h a ha
    exact mul_self_eq_zero.1 (h (a * a) (List.mem_map.2 ⟨a, ha, rfl⟩))
  · intro h b hb
    obtain ⟨a, ha, rfl⟩ := List.mem_map.1 hb
    rw [h a ha]; norm_num

theorem accumulate_zero (n : Nat) : accumulate 0 (List.replicate n 0) = List.replicate n 0 := by
  induction n with
  | zero => rfl
  | succ n ih =>
    rw [List.replicate_succ, accumulate]
    have : (0 : Rat) + 0 = 0 := by norm_num
    rw [this, ih]

theorem schwefel12_spec (x : Vec) : 0 ≤ schwefel12 x ∧ schwefel12 (List.replicate x.length 0) = 0 := by
  constructor
  · apply sum_nonneg
    intro b hb
    obtain ⟨a, _, rfl⟩ := List.mem_map.1 hb
    exact mul_self_nonneg a
  · unfold schwefel12
    rw [accumulate_zero]
    apply sum_eq_zero_of_forall
    intro b hb
    obtain ⟨a, ha, rfl⟩ := List.mem_map.1 hb
    rw [(List.mem_replicate.1 ha).2]; norm_num

theorem elliptic_spec (c : Nat → Rat) (hc : ∀ i, 0 < c i) (x : Vec) :
    0 ≤ elliptic c x ∧ elliptic c (List.replicate x.length 0) = 0 := by
  constructor
  · apply sum_nonneg
    intro b hb
    obtain ⟨i, hi, rfl⟩ := List.mem_mapIdx.1 hb
    exact mul_nonneg (le_of_lt (hc i)) (mul_self_nonneg _)
  · apply sum_eq_zero_of_forall
    intro b hb
    obtain ⟨i, hi, rfl⟩ := List.mem_mapIdx.1 hb
    rw [List.getElem_replicate]; norm_num

theorem rosenbrock_nonneg (x : Vec) : 0 ≤ rosenbrock x := by
  fun_induction rosenbrock x with
  | case1 a b rest ih =>
    nlinarith [mul_self_nonneg (a * a - b), mul_self_nonneg (a - 1)]
  | case2 => exact le_refl _

theorem rosenbrock_ones (n : Nat) : rosenbrock (1 :: List.replicate n 1) = 0 := by
  induction n with
  | zero => simp [rosenbrock]
  | succ n ih => rw [List.replicate_succ, rosenbrock, ih]; norm_num

theorem rosenbrock_spec (x : Vec) : 0 ≤ rosenbrock x ∧ rosenbrock (List.replicate x.length 1) = 0 := by
  refine ⟨rosenbrock_nonneg x, ?_⟩
  cases x with
  | nil => simp [rosenbrock]
  | cons a l => rw [List.length_cons, List.replicate_succ]; exact rosenbrock_ones _

theorem rastrigin_spec (cs : Rat → Rat) (h1 : ∀ a, cs a ≤ 1) (h0 : cs 0 = 1) (x : Vec) :
    0 ≤ rastrigin cs x ∧ rastrigin cs (List.replicate x.length 0) = 0 := by
  constructor
  · apply sum_nonneg
    intro b hb
    obtain ⟨a, _, rfl⟩ := List.mem_map.1 hb
    nlinarith [mul_self_nonneg a, h1 a]
  · apply sum_eq_zero_of_forall
    intro b hb
    obtain ⟨a, ha, rfl⟩ := List.mem_map.1 hb
    rw [(List.mem_replicate.1 ha).2, h0]; norm_num

theorem griewank_spec (cs : Nat → Rat → Rat) (h1 : ∀ i a, -1 ≤ cs i a ∧ cs i a ≤ 1)
    (h0 : ∀ i, cs i 0 = 1) (x : Vec) :
    0 ≤ griewank cs x ∧ griewank cs (List.replicate x.length 0) = 0 := by
  constructor
  · have hs : 0 ≤ sum (x.map fun a => a * a / 4000) := by
      apply sum_nonneg
      intro b hb
      obtain ⟨a, _, rfl⟩ := List.mem_map.1 hb
      exact div_nonneg (mul_self_nonneg a) (by norm_num)
    have hp := (prod_bounded (x.mapIdx fun i a => cs i a) (by
      intro b hb
      obtain ⟨i, hi, rfl⟩ := List.mem_mapIdx.1 hb
      exact h1 i _)).2
    unfold griewank; linarith
  · have hs : sum ((List.replicate x.length (0:Rat)).map fun a => a * a / 4000) = 0 := by
      apply sum_eq_zero_of_forall
      intro b hb
      obtain ⟨a, ha, rfl⟩ := List.mem_map.1 hb
      rw [(List.mem_replicate.1 ha).2]; norm_num
    have hp : prod ((List.replicate x.length (0:Rat)).mapIdx fun i a => cs i a) = 1 := by
      apply prod_eq_one_of_forall
      intro b hb
      obtain ⟨i, hi, rfl⟩ := List.mem_mapIdx.1 hb
      rw [List.getElem_replicate]; exact h0 i
    unfold griewank; rw [hs, hp]; norm_num

theorem weierstrass_spec (ak : List Rat) (hak : ∀ a ∈ ak, 0 ≤ a) (cs : Nat → Rat → Rat)
    (hmin : ∀ k z, cs k (1 / 2) ≤ cs k z) (x : Vec) :
    0 ≤ weierstrass ak cs x ∧ weierstrass ak cs (List.replicate x.length 0) = 0 := by
  constructor
  · have h := sum_map_ge x (fun xi => sum (ak.mapIdx fun k a => a * cs k (xi + 1 / 2)))
      (sum (ak.mapIdx fun k a => a * cs k (1 / 2))) (by
        intro xi
        apply sum_mapIdx_le
        intro k a ha
        exact mul_le_mul_of_nonneg_left (hmin k _) (hak a ha))
    unfold weierstrass; linarith
  · unfold weierstrass
    have : (0 : Rat) + 1 / 2 = 1 / 2 := by norm_num
    rw [List.map_replicate, sum_replicate, List.length_replicate, this]; ring

/-! ### shifted and composed problems -/

theorem vsub_self (o : Vec) : vsub o o = List.replicate o.length 0 := by
  induction o with
  | nil => rfl
  | cons a l ih =>
    unfold vsub at ih ⊢
    rw [List.zipWith_cons_cons, ih, List.length_cons, List.replicate_succ, sub_self]

theorem shifted_spec (f : Vec → Rat) (o : Vec) (bias : Rat) (hf : ∀ z, 0 ≤ f z)
    (h0 : f (List.replicate o.length 0) = 0) :
    (∀ x, bias ≤ shifted f o bias x) ∧ shifted f o bias o = bias := by
  constructor
  · intro x; have := hf (vsub x o); unfold shifted; linarith
  · unfold shifted; rw [vsub_self, h0]; norm_num

theorem zipWith_add_nonneg (l1 l2 : Vec) (h1 : ∀ a ∈ l1, 0 ≤ a) (h2 : ∀ a ∈ l2, 0 ≤ a) :
    ∀ a ∈ List.zipWith (· + ·) l1 l2, 0 ≤ a := by
  induction l1 generalizing l2 with
  | nil => simp
  | cons a l ih =>
    cases l2 with
    | nil => simp
    | cons b m =>
      intro c hc
      rw [List.zipWith_cons_cons] at hc
      rcases List.mem_cons.1 hc with rfl | hc
      · exact add_nonneg (h1 a (by simp)) (h2 b (by simp))
      · exact ih m (fun x hx => h1 x (by simp [hx])) (fun x hx => h2 x (by simp [hx])) c hc

theorem sum_zipWith_mul_nonneg (l1 l2 : Vec) (h1 : ∀ a ∈ l1, 0 ≤ a) (h2 : ∀ a ∈ l2, 0 ≤ a) :
    0 ≤ sum (List.zipWith (· * ·) l1 l2) := by
  induction l1 generalizing l2 with
  | nil => simp
  | cons a l ih =>
    cases l2 with
    | nil => simp
    | cons b m =>
      rw [List.zipWith_cons_cons, sum_cons]
      have := ih m (fun x hx => h1 x (by simp [hx])) (fun x hx => h2 x (by simp [hx]))
      have := mul_nonneg (h1 a (by simp)) (h2 b (by simp))
      linarith

theorem compose_lower (w fit bias : Vec) (fbias : Rat) (_hl : w.length = fit.length)
    (_hl' : fit.length = bias.length) (hw : ∀ a ∈ w, 0 ≤ a) (hsum : 0 < sum w)
    (hfit : ∀ a ∈ fit, 0 ≤ a) (hb : ∀ a ∈ bias, 0 ≤ a) : fbias ≤ compose w fit bias fbias := by
  have h := sum_zipWith_mul_nonneg (w.map (· / sum w)) (List.zipWith (· + ·) fit bias) (by
      intro b hb'
      obtain ⟨a, ha, rfl⟩ := List.mem_map.1 hb'
      exact div_nonneg (hw a ha) (le_of_lt hsum))
    (zipWith_add_nonneg fit bias hfit hb)
  unfold compose; linarith

theorem sum_zipWith_zero_mul (n : Nat) (l : Vec) :
    sum (List.zipWith (· * ·) (List.replicate n 0) l) = 0 := by
  induction n generalizing l with
  | zero => simp
  | succ n ih =>
    cases l with
    | nil => simp
    | cons b m => rw [List.replicate_succ, List.zipWith_cons_cons, sum_cons, ih]; norm_num

theorem compose_at_optimum (n : Nat) (fit bias : Vec) (fbias : Rat) (hf : fit.length = n + 1)
    (hb : bias.length = n + 1) (hf0 : fit.head? = some 0) (hb0 : bias.head? = some 0) :
    compose (1 :: List.replicate n 0) fit bias fbias = fbias := by
  cases fit with
  | nil => simp at hf
  | cons f0 fit' =>
    cases bias with
    | nil => simp at hb
    | cons b0 bias' =>
      simp only [List.head?_cons, Option.some.injEq] at hf0 hb0
      subst hf0 hb0
      unfold compose
      have hz : ∀ c : Rat, (0 : Rat) / c = 0 := fun c => zero_div c
      rw [sum_cons, sum_replicate_zero, List.map_cons, List.map_replicate, hz,
        List.zipWith_cons_cons, List.zipWith_cons_cons, sum_cons, sum_zipWith_zero_mul]
      norm_num

theorem damp_one (w : Vec) : ∀ a ∈ damp w 1, a = 0 ∨ a = 1 := by
  intro a ha
  obtain ⟨wi, _, rfl⟩ := List.mem_map.1 ha
  split
  · right; assumption
  · left; norm_num

/-! ### Ackley, Scaffer, Schwefel 2.6 / 2.13, F8F2 -/

theorem sum_map_le (x : Vec) (F : Rat → Rat) (S : Rat) (h : ∀ a, F a ≤ S) :
    sum (x.map F) ≤ (x.length : Rat) * S := by
  induction x with
  | nil => simp
  | cons a l ih =>
    have := h a
    simp only [List.map_cons, sum_cons, List.length_cons]; push_cast; linarith

theorem ackley_spec (E R cs : Rat → Rat) (a b : Rat) (ha : 0 ≤ a) (hb : 0 ≤ b)
    (hEmono : ∀ u v, u ≤ v → E u ≤ E v) (hE0 : E 0 = 1) (hR : ∀ u, 0 ≤ u → 0 ≤ R u) (hR0 : R 0 = 0)
    (hc : ∀ z, cs z ≤ 1) (hc0 : cs 0 = 1) (x : Vec) (hne : x ≠ []) :
    0 ≤ ackley E R cs a b x ∧ ackley E R cs a b (List.replicate x.length 0) = 0 := by
  have hlen : 0 < x.length := List.length_pos_iff.2 hne
  have hD : (0 : Rat) < (x.length : Rat) := by exact_mod_cast hlen
  constructor
  · have hq : 0 ≤ sum (x.map fun z => z * z) / (x.length : Rat) := by
      apply div_nonneg _ (le_of_lt hD)
      apply sum_nonneg
      intro c hc'
      obtain ⟨z, _, rfl⟩ := List.mem_map.1 hc'
      exact mul_self_nonneg z
    have hu : - b * R (sum (x.map fun z => z * z) / (x.length : Rat)) ≤ 0 := by
      have := mul_nonneg hb (hR _ hq); linarith
    have hE1 : E (- b * R (sum (x.map fun z => z * z) / (x.length : Rat))) ≤ 1 := by
      rw [← hE0]; exact hEmono _ _ hu
    have haE := mul_le_mul_of_nonneg_left hE1 ha
    have hcs : sum (x.map cs) / (x.length : Rat) ≤ 1 := by
      rw [div_le_one hD]
      have := sum_map_le x cs 1 hc; linarith
    have hE2 := hEmono _ _ hcs
    unfold ackley; simp only; linarith
  · have hD' : (x.length : Rat) ≠ 0 := ne_of_gt hD
    unfold ackley
    simp only [List.map_replicate, sum_replicate, List.length_replicate, hc0]
    have h1 : (x.length : Rat) * (0 * 0) / (x.length : Rat) = 0 := by norm_num
    have h2 : (x.length : Rat) * 1 / (x.length : Rat) = 1 := by field_simp
    have h3 : -b * (0 : Rat) = 0 := by ring
    rw [h1, h2, hR0, h3, hE0]; ring

theorem scafferPair_nonneg (sn2 : Rat → Rat) (h01 : ∀ s, 0 ≤ sn2 s ∧ sn2 s ≤ 1) (x y : Rat) :
    0 ≤ scafferPair sn2 x y := by
  have hs : 0 ≤ x * x + y * y := add_nonneg (mul_self_nonneg x) (mul_self_nonneg y)
  have h1 : (1 : Rat) ≤ 1 + (x * x + y * y) / 1000 := by
    have : 0 ≤ (x * x + y * y) / 1000 := div_nonneg hs (by norm_num)
    linarith
  have hd : (1 : Rat) ≤ (1 + (x * x + y * y) / 1000) * (1 + (x * x + y * y) / 1000) := by
    nlinarith
  have hd0 : (0 : Rat) < (1 + (x * x + y * y) / 1000) * (1 + (x * x + y * y) / 1000) := by linarith
  have hsn := (h01 (x * x + y * y)).1
  have : -(1 / 2 : Rat) ≤ (sn2 (x * x + y * y) - 1 / 2) /
      ((1 + (x * x + y * y) / 1000) * (1 + (x * x + y * y) / 1000)) := by
    rw [le_div_iff₀ hd0]; nlinarith
  unfold scafferPair; simp only; linarith

theorem scafferPair_zero (sn2 : Rat → Rat) (h0 : sn2 0 = 0) : scafferPair sn2 0 0 = 0 := by
  unfold scafferPair
  have : (0 : Rat) * 0 + 0 * 0 = 0 := by norm_num
  simp only [this, h0]; norm_num

theorem cyclicPairs_replicate (n : Nat) (c : Rat) :
    ∀ p ∈ cyclicPairs (List.replicate n c), p = (c, c) := by
  intro p hp
  obtain ⟨p1, p2⟩ := p
  have h := List.of_mem_zip hp
  have h1 : p1 = c := (List.mem_replicate.1 h.1).2
  have h2 : p2 = c := by
    rcases List.mem_append.1 h.2 with h' | h'
    · exact (List.mem_replicate.1 (List.mem_of_mem_drop h')).2
    · exact (List.mem_replicate.1 (List.mem_of_mem_take h')).2
  rw [h1, h2]

theorem scaffer_spec (sn2 : Rat → Rat) (h01 : ∀ s, 0 ≤ sn2 s ∧ sn2 s ≤ 1) (h0 : sn2 0 = 0) (x : Vec) :
    0 ≤ scaffer sn2 x ∧ scaffer sn2 (List.replicate x.length 0) = 0 := by
  constructor
  · apply sum_nonneg
    intro c hc
    obtain ⟨p, _, rfl⟩ := List.mem_map.1 hc
    exact scafferPair_nonneg sn2 h01 _ _
  · apply sum_eq_zero_of_forall
    intro c hc
    obtain ⟨p, hp, rfl⟩ := List.mem_map.1 hc
    rw [cyclicPairs_replicate _ _ p hp]
    exact scafferPair_zero sn2 h0

theorem le_foldl_max (l : Vec) (init : Rat) : init ≤ l.foldl max init := by
  induction l generalizing init with
  | nil => exact le_refl _
  | cons a l ih => rw [List.foldl_cons]; exact le_trans (le_max_left _ _) (ih _)

theorem absR_zero : absR 0 = 0 := by simp [absR]

theorem schwefel26_self (ao : Vec) : schwefel26 ao ao = 0 := by
  unfold schwefel26
  induction ao with
  | nil => rfl
  | cons a l ih =>
    rw [List.zipWith_cons_cons, List.foldl_cons, sub_self, absR_zero, max_self]; exact ih

theorem schwefel26_spec (ax ao : Vec) : 0 ≤ schwefel26 ax ao ∧ schwefel26 ao ao = 0 :=
  ⟨le_foldl_max _ 0, schwefel26_self ao⟩

theorem schwefel213_nonneg (A B : Vec) : 0 ≤ schwefel213 A B := by
  unfold schwefel213
  induction A generalizing B with
  | nil => simp
  | cons a l ih =>
    cases B with
    | nil => simp
    | cons b m =>
      rw [List.zipWith_cons_cons, sum_cons]
      have := ih m
      have := mul_self_nonneg (a - b)
      linarith

theorem schwefel213_self (A : Vec) : schwefel213 A A = 0 := by
  unfold schwefel213
  induction A with
  | nil => rfl
  | cons a l ih => rw [List.zipWith_cons_cons, sum_cons, ih]; ring

theorem schwefel213_spec (A B : Vec) : 0 ≤ schwefel213 A B ∧ schwefel213 A A = 0 :=
  ⟨schwefel213_nonneg A B, schwefel213_self A⟩

theorem rosenbrock_one_one : rosenbrock [1, 1] = 0 := by
  simp [rosenbrock]

theorem f8f2_spec (g : Rat → Rat) (hg : ∀ u, 0 ≤ g u) (hg0 : g 0 = 0) (x : Vec) :
    0 ≤ f8f2 g x ∧ f8f2 g (List.replicate x.length 1) = 0 := by
  constructor
  · apply sum_nonneg
    intro c hc
    obtain ⟨p, _, rfl⟩ := List.mem_map.1 hc
    exact hg _
  · apply sum_eq_zero_of_forall
    intro c hc
    obtain ⟨p, hp, rfl⟩ := List.mem_map.1 hc
    rw [cyclicPairs_replicate _ _ p hp]
    simp only [rosenbrock_one_one, hg0]


end TFV.Bench
