/-
  TFV.Lemmas.Select — proofs for the C11 selection / sampling contracts.
-/
import TFV.Model.Select
import Mathlib.Logic.Function.Iterate

namespace TFV.Select

/-! ### binary search -/

theorem getD_eq_getElem {α : Type} (l : List α) (i : Nat) (d : α) (h : i < l.length) :
    l.getD i d = l[i] := by
  simp [List.getD, h]

/-- nondecreasing, index form on `getD` -/
theorem mono_getD (cum : List Int) (hm : List.Pairwise (· ≤ ·) cum) (i j : Nat)
    (hij : i ≤ j) (hj : j < cum.length) : cum.getD i 0 ≤ cum.getD j 0 := by
  rw [getD_eq_getElem cum i 0 (by omega), getD_eq_getElem cum j 0 hj]
  rcases Nat.eq_or_lt_of_le hij with h | h
  · subst h; exact Int.le_refl _
  · exact (List.pairwise_iff_getElem.mp hm) i j (by omega) hj h

/-- loop invariant of the binary search -/
theorem bsLoop_spec (v : Int) (cum : List Int) :
    ∀ (fuel left right : Nat), left < right → right - left ≤ fuel →
      cum.getD left 0 < v → v ≤ cum.getD right 0 →
      let r := bsLoop v cum fuel left right
      left < r ∧ r ≤ right ∧ v ≤ cum.getD r 0 ∧ cum.getD (r - 1) 0 < v := by
  intro fuel
  induction fuel with
  | zero => intro left right h1 h2; omega
  | succ fuel ih =>
    intro left right hlr hfuel hl hr
    simp only [bsLoop]
    by_cases hgap : right - left > 1
    · simp only [hgap, if_true]
      by_cases hmid : v ≤ cum.getD ((left + right) / 2) 0
      · simp only [hmid, if_true]
        have := ih left ((left + right) / 2) (by omega) (by omega) hl hmid
        simp only at this
        refine ⟨this.1, by omega, this.2.2.1, this.2.2.2⟩
      · simp only [hmid, if_false]
        have := ih ((left + right) / 2) right (by omega) (by omega) (by omega) hr
        simp only at this
        refine ⟨by omega, this.2.1, this.2.2.1, this.2.2.2⟩
    · simp only [hgap, if_false]
      have : right - 1 = left := by omega
      refine ⟨hlr, Nat.le_refl _, hr, ?_⟩
      rw [this]; exact hl

theorem getLastD_eq_getD (cum : List Int) (hne : cum ≠ []) :
    cum.getLastD 0 = cum.getD (cum.length - 1) 0 := by
  have hlen : 0 < cum.length := List.length_pos_iff.mpr hne
  rw [getD_eq_getElem cum _ 0 (by omega)]
  rw [List.getLastD_eq_getLast?, List.getLast?_eq_getElem?]
  rw [List.getElem?_eq_getElem (by omega)]; rfl

/-- the characterising property of the returned index -/
def IsCut (v : Int) (cum : List Int) (k : Nat) : Prop :=
  k < cum.length ∧ v ≤ cum.getD k 0 ∧ ∀ j, j < k → cum.getD j 0 < v

theorem isCut_unique (v : Int) (cum : List Int) (k k' : Nat)
    (h : IsCut v cum k) (h' : IsCut v cum k') : k' = k := by
  rcases Nat.lt_trichotomy k k' with hlt | heq | hgt
  · have := h'.2.2 k hlt; have := h.2.1; omega
  · exact heq.symm
  · have := h.2.2 k' hgt; have := h'.2.1; omega

theorem bsearch_isCut (v : Int) (cum : List Int) (hm : List.Pairwise (· ≤ ·) cum) (hne : cum ≠ [])
    (hv : v ≤ cum.getLastD 0) : IsCut v cum (bsearch v cum) := by
  have hlen : 0 < cum.length := List.length_pos_iff.mpr hne
  rw [getLastD_eq_getD cum hne] at hv
  unfold bsearch
  by_cases h0 : v ≤ cum.getD 0 0
  · simp only [h0, if_true]
    exact ⟨hlen, h0, fun j hj => by omega⟩
  · simp only [h0, if_false]
    have hlt : 0 < cum.length - 1 := by
      rcases Nat.eq_zero_or_pos (cum.length - 1) with h | h
      · rw [h] at hv; omega
      · exact h
    have := bsLoop_spec v cum cum.length 0 (cum.length - 1) hlt (by omega) (by omega) hv
    simp only at this
    obtain ⟨h1, h2, h3, h4⟩ := this
    refine ⟨by omega, h3, fun j hj => ?_⟩
    have := mono_getD cum hm j (bsLoop v cum cum.length 0 (cum.length - 1) - 1) (by omega) (by omega)
    omega

theorem firstGe_isCut (v : Int) (cum : List Int) (hne : cum ≠ [])
    (hv : v ≤ cum.getLastD 0) : IsCut v cum (firstGe v cum) := by
  induction cum with
  | nil => exact absurd rfl hne
  | cons c cs ih =>
    unfold firstGe
    by_cases hc : v ≤ c
    · simp only [hc, if_true]
      exact ⟨by simp, by simpa [List.getD] using hc, fun j hj => by omega⟩
    · simp only [hc, if_false]
      have hcs : cs ≠ [] := by
        intro h; subst h; simp [List.getLastD] at hv; omega
      have hv' : v ≤ cs.getLastD 0 := by
        cases cs with
        | nil => exact absurd rfl hcs
        | cons d ds => simpa [List.getLastD] using hv
      obtain ⟨h1, h2, h3⟩ := ih hcs hv'
      refine ⟨by simp; omega, ?_, ?_⟩
      · rw [Nat.add_comm]; simpa [List.getD] using h2
      · intro j hj
        cases j with
        | zero => simp [List.getD]; omega
        | succ j =>
          have := h3 j (by omega)
          simpa [List.getD] using this

theorem bsearch_eq_firstGe (v : Int) (cum : List Int) (hm : List.Pairwise (· ≤ ·) cum)
    (hne : cum ≠ []) (hv : v ≤ cum.getLastD 0) : bsearch v cum = firstGe v cum :=
  isCut_unique v cum _ _ (firstGe_isCut v cum hne hv) (bsearch_isCut v cum hm hne hv)

theorem bsearch_interval (v : Int) (cum : List Int) (hm : List.Pairwise (· ≤ ·) cum)
    (hne : cum ≠ []) (hv : v ≤ cum.getLastD 0) :
    let k := bsearch v cum
    k < cum.length ∧ v ≤ cum.getD k 0 ∧ (∀ j, j < k → cum.getD j 0 < v) ∧
    (∀ k', k' < cum.length → v ≤ cum.getD k' 0 → (∀ j, j < k' → cum.getD j 0 < v) → k' = k) := by
  intro k
  have h := bsearch_isCut v cum hm hne hv
  exact ⟨h.1, h.2.1, h.2.2, fun k' a b c => isCut_unique v cum k k' h ⟨a, b, c⟩⟩

/-! ### cumulative sums -/

theorem cumsumFrom_length (acc : Int) (w : List Int) : (cumsumFrom acc w).length = w.length := by
  induction w generalizing acc with
  | nil => rfl
  | cons x xs ih => simp [cumsumFrom, ih]

theorem cumsumFrom_getD_zero (acc : Int) (w : List Int) (h : 0 < w.length) :
    (cumsumFrom acc w).getD 0 0 = acc + w.getD 0 0 := by
  cases w with
  | nil => simp at h
  | cons x xs => simp [cumsumFrom, List.getD]

theorem cumsumFrom_getD_succ (acc : Int) (w : List Int) (k : Nat) (h : k + 1 < w.length) :
    (cumsumFrom acc w).getD (k + 1) 0 = (cumsumFrom acc w).getD k 0 + w.getD (k + 1) 0 := by
  induction w generalizing acc k with
  | nil => simp at h
  | cons x xs ih =>
    cases k with
    | zero =>
      have hx : 0 < xs.length := by simp at h; omega
      have := cumsumFrom_getD_zero (acc + x) xs hx
      simpa [cumsumFrom, List.getD] using this
    | succ k =>
      have := ih (acc + x) k (by simp at h; omega)
      simpa [cumsumFrom, List.getD] using this

theorem cumsumFrom_mono (acc : Int) (w : List Int) (hw : ∀ x ∈ w, 0 ≤ x) :
    List.Pairwise (· ≤ ·) (cumsumFrom acc w) ∧ ∀ y ∈ cumsumFrom acc w, acc ≤ y := by
  induction w generalizing acc with
  | nil => simp [cumsumFrom]
  | cons x xs ih =>
    have hx : 0 ≤ x := hw x (by simp)
    obtain ⟨h1, h2⟩ := ih (acc + x) (fun y hy => hw y (by simp [hy]))
    refine ⟨?_, ?_⟩
    · simp only [cumsumFrom, List.pairwise_cons]
      exact ⟨h2, h1⟩
    · intro y hy
      simp only [cumsumFrom, List.mem_cons] at hy
      rcases hy with rfl | hy
      · omega
      · have := h2 y hy; omega

theorem cumsum_length (w : List Int) : (cumsum w).length = w.length := cumsumFrom_length 0 w

theorem cumsum_mono (w : List Int) (hw : ∀ x ∈ w, 0 ≤ x) : List.Pairwise (· ≤ ·) (cumsum w) :=
  (cumsumFrom_mono 0 w hw).1

theorem cumsum_ne_nil (w : List Int) (hne : w ≠ []) : cumsum w ≠ [] := by
  intro h
  have := cumsum_length w
  rw [h] at this
  exact hne (List.length_eq_zero_iff.mp this.symm)

/-- `cum[k] - w[k]` is the previous cumulative value (0 in front of the array) -/
theorem cumsum_prev (w : List Int) (k : Nat) (hk : k < w.length) :
    (cumsum w).getD k 0 - w.getD k 0 = if k = 0 then 0 else (cumsum w).getD (k - 1) 0 := by
  cases k with
  | zero =>
    have := cumsumFrom_getD_zero 0 w hk
    simp only [cumsum, if_true]; omega
  | succ k =>
    have := cumsumFrom_getD_succ 0 w k hk
    simp only [cumsum, Nat.add_sub_cancel]
    simp only [Nat.add_one_ne_zero, if_false]; omega

theorem weight_measure (w : List Int) (hw : ∀ x ∈ w, 0 ≤ x) (k : Nat) (hk : k < w.length) (v : Int)
    (hv0 : 0 < v) (hv : v ≤ (cumsum w).getLastD 0) :
    bsearch v (cumsum w) = k ↔
      ((cumsum w).getD k 0 - w.getD k 0 < v ∧ v ≤ (cumsum w).getD k 0) := by
  have hne : w ≠ [] := by intro h; subst h; simp at hk
  have hcut := bsearch_isCut v (cumsum w) (cumsum_mono w hw) (cumsum_ne_nil w hne) hv
  have hprev := cumsum_prev w k hk
  constructor
  · intro h
    rw [h] at hcut
    refine ⟨?_, hcut.2.1⟩
    rw [hprev]
    by_cases h0 : k = 0
    · simp only [h0, if_true]; exact hv0
    · simp only [h0, if_false]; exact hcut.2.2 (k - 1) (by omega)
  · rintro ⟨h1, h2⟩
    refine isCut_unique v (cumsum w) k _ ⟨by rw [cumsum_length]; exact hk, h2, ?_⟩ hcut
    intro j hj
    have h0 : k ≠ 0 := by omega
    rw [hprev] at h1
    simp only [h0, if_false] at h1
    have := mono_getD (cumsum w) (cumsum_mono w hw) j (k - 1) (by omega)
      (by rw [cumsum_length]; omega)
    omega

theorem weight_positive (w : List Int) (v : Int) (hw : ∀ x ∈ w, 0 ≤ x) (hne : w ≠ [])
    (hv0 : 0 < v) (hv : v ≤ (cumsum w).getLastD 0) :
    bsearch v (cumsum w) < w.length ∧ 0 < w.getD (bsearch v (cumsum w)) 0 := by
  have hcut := bsearch_isCut v (cumsum w) (cumsum_mono w hw) (cumsum_ne_nil w hne) hv
  have hk : bsearch v (cumsum w) < w.length := by
    have := hcut.1; rw [cumsum_length] at this; exact this
  refine ⟨hk, ?_⟩
  have := (weight_measure w hw _ hk v hv0 hv).mp rfl
  omega

/-! ### sampling -/

theorem nodup_reverse' {l : List Nat} (h : l.Nodup) : l.reverse.Nodup := by
  unfold List.Nodup at *
  rw [List.pairwise_reverse]
  exact h.imp (fun h => Ne.symm h)

theorem sampleNoRepl_aux (draws : List Nat) :
    ∀ (k : Nat) (acc r : List Nat), acc.Nodup → sampleNoRepl draws k acc = some r →
      r.length = acc.length + k ∧ r.Nodup ∧ ∀ x ∈ r, x ∈ acc ∨ x ∈ draws := by
  induction draws with
  | nil =>
    intro k acc r hnd h
    cases k with
    | zero =>
      simp only [sampleNoRepl, Option.some.injEq] at h
      subst h
      exact ⟨by simp, nodup_reverse' hnd, fun x hx => Or.inl (List.mem_reverse.mp hx)⟩
    | succ k => simp [sampleNoRepl] at h
  | cons d ds ih =>
    intro k acc r hnd h
    cases k with
    | zero =>
      simp only [sampleNoRepl, Option.some.injEq] at h
      subst h
      exact ⟨by simp, nodup_reverse' hnd, fun x hx => Or.inl (List.mem_reverse.mp hx)⟩
    | succ k =>
      simp only [sampleNoRepl] at h
      by_cases hc : acc.contains d = true
      · simp only [hc, if_true] at h
        obtain ⟨h1, h2, h3⟩ := ih (k + 1) acc r hnd h
        refine ⟨h1, h2, fun x hx => ?_⟩
        rcases h3 x hx with h | h
        · exact Or.inl h
        · exact Or.inr (List.mem_cons_of_mem _ h)
      · simp only [hc] at h
        have hd : d ∉ acc := by simpa using hc
        obtain ⟨h1, h2, h3⟩ := ih k (d :: acc) r (List.nodup_cons.mpr ⟨hd, hnd⟩) h
        refine ⟨by simp at h1; omega, h2, fun x hx => ?_⟩
        rcases h3 x hx with h | h
        · rcases List.mem_cons.mp h with h | h
          · exact Or.inr (by simp [h])
          · exact Or.inl h
        · exact Or.inr (List.mem_cons_of_mem _ h)

theorem sampleNoRepl_spec (draws : List Nat) (k n : Nat) (r : List Nat)
    (hd : ∀ d ∈ draws, d < n) (h : sampleNoRepl draws k [] = some r) :
    r.length = k ∧ r.Nodup ∧ (∀ x ∈ r, x < n) ∧ (∀ x ∈ r, x ∈ draws) := by
  obtain ⟨h1, h2, h3⟩ := sampleNoRepl_aux draws k [] r List.nodup_nil h
  have h4 : ∀ x ∈ r, x ∈ draws := fun x hx => by
    rcases h3 x hx with h | h
    · simp at h
    · exact h
  exact ⟨by simpa using h1, h2, fun x hx => hd x (h4 x hx), h4⟩

theorem sampleRepl_spec (draws : List Nat) (k n : Nat) (r : List Nat)
    (hd : ∀ d ∈ draws, d < n) (h : sampleRepl draws k = some r) :
    r.length = k ∧ ∀ x ∈ r, x < n := by
  unfold sampleRepl at h
  by_cases hlt : draws.length < k
  · simp [hlt] at h
  · simp only [hlt, if_false, Option.some.injEq] at h
    subst h
    exact ⟨by simp; omega, fun x hx => hd x (List.mem_of_mem_take hx)⟩

/-! ### tournament -/

theorem argmaxIdxAux_spec (xs : List Int) :
    ∀ (b : Int) (bi i : Nat),
      (argmaxIdxAux b bi i xs = bi ∧ ∀ x ∈ xs, x ≤ b) ∨
      (i ≤ argmaxIdxAux b bi i xs ∧ argmaxIdxAux b bi i xs < i + xs.length ∧
        b ≤ xs.getD (argmaxIdxAux b bi i xs - i) 0 ∧
        ∀ x ∈ xs, x ≤ xs.getD (argmaxIdxAux b bi i xs - i) 0) := by
  induction xs with
  | nil => intro b bi i; left; simp [argmaxIdxAux]
  | cons x xs ih =>
    intro b bi i
    simp only [argmaxIdxAux]
    by_cases hb : b < x
    · simp only [hb, if_true]
      right
      rcases ih x i (i + 1) with ⟨h1, h2⟩ | ⟨h1, h2, h3, h4⟩
      · rw [h1]
        refine ⟨Nat.le_refl _, by simp, ?_, ?_⟩
        · simp [List.getD]; omega
        · intro y hy
          simp only [Nat.sub_self, List.getD, List.getElem?_cons_zero, Option.getD_some]
          rcases List.mem_cons.mp hy with rfl | hy
          · exact Int.le_refl _
          · exact h2 y hy
      · generalize argmaxIdxAux x i (i + 1) xs = r at *
        have hr : r - i = (r - (i + 1)) + 1 := by omega
        refine ⟨by omega, by simp; omega, ?_, ?_⟩
        · rw [hr]; simp only [List.getD, List.getElem?_cons_succ] at *; omega
        · intro y hy
          rw [hr]; simp only [List.getD, List.getElem?_cons_succ] at *
          rcases List.mem_cons.mp hy with rfl | hy
          · exact h3
          · exact h4 y hy
    · simp only [hb, if_false]
      rcases ih b bi (i + 1) with ⟨h1, h2⟩ | ⟨h1, h2, h3, h4⟩
      · left
        refine ⟨h1, fun y hy => ?_⟩
        rcases List.mem_cons.mp hy with rfl | hy
        · omega
        · exact h2 y hy
      · right
        generalize argmaxIdxAux b bi (i + 1) xs = r at *
        have hr : r - i = (r - (i + 1)) + 1 := by omega
        refine ⟨by omega, by simp; omega, ?_, ?_⟩
        · rw [hr]; simp only [List.getD, List.getElem?_cons_succ] at *; omega
        · intro y hy
          rw [hr]; simp only [List.getD, List.getElem?_cons_succ] at *
          rcases List.mem_cons.mp hy with rfl | hy
          · omega
          · exact h4 y hy

theorem argmaxIdx_spec (l : List Int) (hne : l ≠ []) :
    argmaxIdx l < l.length ∧ ∀ y ∈ l, y ≤ l.getD (argmaxIdx l) 0 := by
  cases l with
  | nil => exact absurd rfl hne
  | cons x xs =>
    simp only [argmaxIdx]
    rcases argmaxIdxAux_spec xs x 0 1 with ⟨h1, h2⟩ | ⟨h1, h2, h3, h4⟩
    · rw [h1]
      refine ⟨by simp, fun y hy => ?_⟩
      simp only [List.getD, List.getElem?_cons_zero, Option.getD_some]
      rcases List.mem_cons.mp hy with rfl | hy
      · exact Int.le_refl _
      · exact h2 y hy
    · generalize argmaxIdxAux x 0 1 xs = r at *
      have hr : r = (r - 1) + 1 := by omega
      refine ⟨by simp; omega, fun y hy => ?_⟩
      rw [hr]; simp only [List.getD, List.getElem?_cons_succ] at *
      rcases List.mem_cons.mp hy with rfl | hy
      · exact h3
      · exact h4 y hy

theorem tournament_spec (fitness : List Int) (sample : List Nat) (hne : sample ≠ []) :
    let wi := tournament fitness sample
    wi ∈ sample ∧ (∀ x ∈ sample, fitness.getD x 0 ≤ fitness.getD wi 0) := by
  intro wi
  have hne' : sample.map (fun i => fitness.getD i 0) ≠ [] := by simpa using hne
  obtain ⟨h1, h2⟩ := argmaxIdx_spec _ hne'
  rw [List.length_map] at h1
  have hwi : wi = sample[argmaxIdx (sample.map fun i => fitness.getD i 0)] := by
    show tournament fitness sample = _
    unfold tournament
    exact getD_eq_getElem _ _ _ h1
  refine ⟨by rw [hwi]; exact List.getElem_mem _, fun x hx => ?_⟩
  have := h2 (fitness.getD x 0) (List.mem_map.mpr ⟨x, hx, rfl⟩)
  rw [getD_eq_getElem (sample.map fun i => fitness.getD i 0) _ _
    (by rw [List.length_map]; exact h1), List.getElem_map, ← hwi] at this
  exact this

theorem range_erase_length (n j : Nat) (hj : j < n) : ((List.range n).erase j).length = n - 1 := by
  rw [List.length_erase]; simp [hj]

theorem tournament_rank (fitness : List Int) (sample : List Nat) (hne : sample ≠ [])
    (hnd : sample.Nodup) (hr : ∀ x ∈ sample, x < fitness.length) :
    let wi := tournament fitness sample
    sample.length - 1 ≤
      ((List.range fitness.length).filter fun j => j ≠ wi ∧ fitness.getD j 0 ≤ fitness.getD wi 0).length ∧
    (sample.length = fitness.length → ∀ j, j < fitness.length → fitness.getD j 0 ≤ fitness.getD wi 0) := by
  intro wi
  obtain ⟨hmem, hbest⟩ := tournament_spec fitness sample hne
  change wi ∈ sample at hmem
  change ∀ x ∈ sample, fitness.getD x 0 ≤ fitness.getD wi 0 at hbest
  constructor
  · have hlen : (sample.erase wi).length = sample.length - 1 := by
      rw [List.length_erase]; simp [hmem]
    rw [← hlen]
    apply List.Nodup.length_le_of_subset (hnd.erase wi)
    intro x hx
    have hxs : x ∈ sample := List.mem_of_mem_erase hx
    have hxne : x ≠ wi := fun h => by
      subst h; exact (List.Nodup.not_mem_erase hnd) hx
    simp only [List.mem_filter, List.mem_range, decide_eq_true_eq]
    exact ⟨hr x hxs, hxne, hbest x hxs⟩
  · intro hlen j hj
    apply hbest
    apply Classical.byContradiction
    intro hnot
    have hsub : sample ⊆ (List.range fitness.length).erase j := by
      intro x hx
      have hxj : x ≠ j := fun h => hnot (h ▸ hx)
      exact (List.mem_erase_of_ne hxj).mpr (List.mem_range.mpr (hr x hx))
    have := List.Nodup.length_le_of_subset hnd hsub
    rw [range_erase_length _ _ hj] at this
    omega

/-! ### integer and uniform draws -/

theorem randint_range (low high : Int) (U : Rat) (hlh : low < high) (h0 : 0 ≤ U) (h1 : U < 1) :
    low ≤ randint low high U ∧ randint low high U < high := by
  unfold randint
  have hp : (0 : Rat) < ((high - low : Int) : Rat) := by
    have : (0 : Int) < high - low := by omega
    exact_mod_cast this
  have hnn : (((0 : Int) : Rat)) ≤ ((high - low : Int) : Rat) * U :=
    Rat.mul_nonneg (Rat.le_of_lt hp) h0
  have hlt : ((high - low : Int) : Rat) * U < ((high - low : Int) : Rat) := by
    have := Rat.mul_lt_mul_of_pos_left h1 hp
    rwa [Rat.mul_one] at this
  have a := Rat.le_floor_iff.mpr hnn
  have b := Rat.floor_lt_iff.mpr hlt
  omega

theorem uniform_range (low high U : Rat) (hlh : low ≤ high) (h0 : 0 ≤ U) (h1 : U < 1) :
    low ≤ uniform low high U ∧ uniform low high U ≤ high := by
  unfold uniform
  have hp : 0 ≤ high - low := by grind
  have := Rat.mul_nonneg hp h0
  have := Rat.mul_le_mul_of_nonneg_left (Rat.le_of_lt h1) hp
  grind

/-! ### min-max scaling -/

theorem foldl_max_spec (xs : List Rat) : ∀ a : Rat,
    a ≤ xs.foldl max a ∧ (∀ x ∈ xs, x ≤ xs.foldl max a) ∧ xs.foldl max a ∈ a :: xs := by
  induction xs with
  | nil => intro a; simp
  | cons x xs ih =>
    intro a
    obtain ⟨h1, h2, h3⟩ := ih (max a x)
    simp only [List.foldl_cons]
    refine ⟨by grind, ?_, ?_⟩
    · intro y hy
      rcases List.mem_cons.mp hy with rfl | hy
      · grind
      · exact h2 y hy
    · rcases List.mem_cons.mp h3 with h | h
      · rw [h]
        have : max a x = a ∨ max a x = x := by grind
        rcases this with h | h <;> simp [h]
      · simp [h]

theorem foldl_min_spec (xs : List Rat) : ∀ a : Rat,
    xs.foldl min a ≤ a ∧ (∀ x ∈ xs, xs.foldl min a ≤ x) ∧ xs.foldl min a ∈ a :: xs := by
  induction xs with
  | nil => intro a; simp
  | cons x xs ih =>
    intro a
    obtain ⟨h1, h2, h3⟩ := ih (min a x)
    simp only [List.foldl_cons]
    refine ⟨by grind, ?_, ?_⟩
    · intro y hy
      rcases List.mem_cons.mp hy with rfl | hy
      · grind
      · exact h2 y hy
    · rcases List.mem_cons.mp h3 with h | h
      · rw [h]
        have : min a x = a ∨ min a x = x := by grind
        rcases this with h | h <;> simp [h]
      · simp [h]

theorem listMax_spec (d : List Rat) (hne : d ≠ []) :
    (∀ x ∈ d, x ≤ listMax d) ∧ listMax d ∈ d := by
  cases d with
  | nil => exact absurd rfl hne
  | cons a xs =>
    obtain ⟨h1, h2, h3⟩ := foldl_max_spec xs a
    refine ⟨fun y hy => ?_, h3⟩
    rcases List.mem_cons.mp hy with rfl | hy
    · exact h1
    · exact h2 y hy

theorem listMin_spec (d : List Rat) (hne : d ≠ []) :
    (∀ x ∈ d, listMin d ≤ x) ∧ listMin d ∈ d := by
  cases d with
  | nil => exact absurd rfl hne
  | cons a xs =>
    obtain ⟨h1, h2, h3⟩ := foldl_min_spec xs a
    refine ⟨fun y hy => ?_, h3⟩
    rcases List.mem_cons.mp hy with rfl | hy
    · exact h1
    · exact h2 y hy

theorem scale_range (a b c : Rat) (h : a ≤ b) (h2 : b ≤ c) (h3 : a < c) :
    0 ≤ (b - a) / (c - a) ∧ (b - a) / (c - a) ≤ 1 := by
  have hp : 0 < c - a := by grind
  have hi : 0 < (c - a)⁻¹ := Rat.inv_pos.mpr hp
  rw [Rat.div_def]
  constructor
  · apply Rat.mul_nonneg _ (Rat.le_of_lt hi); grind
  · have := Rat.mul_le_mul_of_nonneg_right (show b - a ≤ c - a by grind) (Rat.le_of_lt hi)
    rw [Rat.mul_inv_cancel _ (Rat.ne_of_gt hp)] at this
    exact this

theorem minmax_spec (d : List Rat) :
    (minmax d).length = d.length ∧ (∀ y ∈ minmax d, 0 ≤ y ∧ y ≤ 1) ∧
    ((∀ x ∈ d, ∀ y ∈ d, x = y) → ∀ y ∈ minmax d, y = 1) := by
  unfold minmax
  by_cases heq : listMax d = listMin d
  · simp only [heq, if_true]
    refine ⟨by simp, ?_, ?_⟩
    · intro y hy
      obtain ⟨_, _, rfl⟩ := List.mem_map.mp hy
      exact ⟨by decide, by decide⟩
    · intro _ y hy
      obtain ⟨_, _, rfl⟩ := List.mem_map.mp hy
      rfl
  · simp only [heq, if_false]
    have hne : d ≠ [] := by
      intro h; subst h; exact heq rfl
    obtain ⟨hmax, hmaxmem⟩ := listMax_spec d hne
    obtain ⟨hmin, hminmem⟩ := listMin_spec d hne
    refine ⟨by simp, ?_, ?_⟩
    · intro y hy
      obtain ⟨x, hx, rfl⟩ := List.mem_map.mp hy
      have hlt : listMin d < listMax d := by
        have := hmax _ hminmem
        grind
      exact scale_range _ _ _ (hmin x hx) (hmax x hx) hlt
    · intro hall
      exact absurd (hall _ hmaxmem _ hminmem) heq

/-! ### swap -/

theorem swap_of_lt {α : Type} (l : List α) (i j : Nat) (hi : i < l.length) (hj : j < l.length) :
    swap l i j = (l.set i l[j]).set j l[i] := by
  simp [swap, List.getElem?_eq_getElem hi, List.getElem?_eq_getElem hj]

theorem swap_of_not_lt {α : Type} (l : List α) (i j : Nat) (h : ¬ (i < l.length ∧ j < l.length)) :
    swap l i j = l := by
  unfold swap
  split
  · next a b h1 h2 =>
    have := (List.getElem?_eq_some_iff.mp h1).1
    have := (List.getElem?_eq_some_iff.mp h2).1
    exact absurd ⟨‹i < l.length›, ‹j < l.length›⟩ h
  · rfl

theorem swap_perm {α : Type} (l : List α) (i j : Nat) : (swap l i j).Perm l := by
  by_cases h : i < l.length ∧ j < l.length
  · rw [swap_of_lt l i j h.1 h.2]; exact List.set_set_perm h.1 h.2
  · rw [swap_of_not_lt l i j h]

theorem swap_length {α : Type} (l : List α) (i j : Nat) : (swap l i j).length = l.length :=
  (swap_perm l i j).length_eq

theorem swap_getD {α : Type} (l : List α) (i j : Nat) (hi : i < l.length) (hj : j < l.length)
    (p : Nat) (d : α) :
    (swap l i j).getD p d = if p = j then l.getD i d else if p = i then l.getD j d else l.getD p d := by
  rw [swap_of_lt l i j hi hj]
  simp only [List.getD, List.getElem?_set, List.length_set]
  by_cases h1 : p = j
  · subst h1; simp [hi, hj]
  · by_cases h2 : p = i
    · subst h2; simp [hi, hj, h1, Ne.symm h1]
    · simp [h1, h2, Ne.symm h1, Ne.symm h2]

/-! ### argsort_k / p-best -/

theorem getD_drop (l : List Int) (i j : Nat) : (l.drop i).getD j 0 = l.getD (i + j) 0 := by
  simp [List.getD]

theorem maxPosFrom_spec (vals : List Int) (i : Nat) (hi : i < vals.length) :
    i ≤ maxPosFrom vals i ∧ maxPosFrom vals i < vals.length ∧
    ∀ q, i ≤ q → q < vals.length → vals.getD q 0 ≤ vals.getD (maxPosFrom vals i) 0 := by
  have hne : vals.drop i ≠ [] := by
    intro h
    have := congrArg List.length h
    simp at this; omega
  obtain ⟨h1, h2⟩ := argmaxIdx_spec (vals.drop i) hne
  rw [List.length_drop] at h1
  unfold maxPosFrom
  refine ⟨by omega, by omega, fun q hq hqn => ?_⟩
  rw [← getD_drop]
  apply h2
  have : vals.getD q 0 = (vals.drop i).getD (q - i) 0 := by
    rw [getD_drop]; congr 1; omega
  rw [this, getD_eq_getElem _ _ _ (by rw [List.length_drop]; omega)]
  exact List.getElem_mem _

/-- loop invariant of the partial selection sort -/
structure SortInv (vals0 : List Int) (i : Nat) (vals : List Int) (idx : List Nat) : Prop where
  lenV : vals.length = vals0.length
  lenI : idx.length = vals0.length
  perm : idx.Perm (List.range vals0.length)
  val : ∀ p, p < vals0.length → vals.getD p 0 = vals0.getD (idx.getD p 0) 0
  sorted : ∀ p, p < i → ∀ q, p ≤ q → q < vals0.length → vals.getD q 0 ≤ vals.getD p 0

theorem sortInv_step (vals0 : List Int) (i : Nat) (vals : List Int) (idx : List Nat)
    (h : SortInv vals0 i vals idx) (hi : i < vals0.length) :
    SortInv vals0 (i + 1) (swap vals i (maxPosFrom vals i)) (swap idx i (maxPosFrom vals i)) := by
  obtain ⟨hV, hI, hP, hval, hs⟩ := h
  obtain ⟨hm1, hm2, hm3⟩ := maxPosFrom_spec vals i (by omega)
  generalize maxPosFrom vals i = m at *
  have gV := swap_getD vals i m (by omega) (by omega)
  have gI := swap_getD idx i m (by omega) (by omega)
  refine ⟨by rw [swap_length]; exact hV, by rw [swap_length]; exact hI,
    (swap_perm idx i m).trans hP, ?_, ?_⟩
  · intro p hp
    rw [gV, gI]
    have := hval i hi
    have := hval m (by omega)
    have := hval p hp
    grind
  · intro p hp q hpq hq
    rw [gV, gV]
    have := hm3 q
    have := hm3 i
    have := hs p
    grind

theorem argsortKAux_spec (vals0 : List Int) : ∀ (k i : Nat) (vals : List Int) (idx : List Nat),
    SortInv vals0 i vals idx → i + k ≤ vals0.length →
    ∃ vals', SortInv vals0 (i + k) vals' (argsortKAux k i vals idx) := by
  intro k
  induction k with
  | zero => intro i vals idx h _; exact ⟨vals, h⟩
  | succ k ih =>
    intro i vals idx h hk
    simp only [argsortKAux]
    have := ih (i + 1) _ _ (sortInv_step vals0 i vals idx h (by omega)) (by omega)
    rwa [show i + 1 + k = i + (k + 1) by omega] at this

theorem range_getD (n p : Nat) (hp : p < n) : (List.range n).getD p 0 = p := by
  simp [List.getD, hp]

theorem argsortK_spec (vals : List Int) (k : Nat) (hk : k ≤ vals.length) :
    ∃ vals', SortInv vals k vals' (argsortK vals k) := by
  have h0 : SortInv vals 0 vals (List.range vals.length) :=
    ⟨rfl, by simp, List.Perm.refl _, fun p hp => by rw [range_getD _ _ hp],
      fun p hp => by omega⟩
  have := argsortKAux_spec vals k 0 vals _ h0 (by omega)
  simpa [argsortK] using this

theorem pbestCount_le (n pn pd : Nat) (hn : 0 < n) (_hpd : 0 < pd) (hp : pn ≤ pd) :
    pbestCount n pn pd ≤ n := by
  unfold pbestCount
  have : pn * n / pd ≤ n := by
    apply Nat.div_le_of_le_mul
    exact Nat.mul_le_mul_right n hp
  omega

theorem pbest_spec (vals : List Int) (pn pd : Nat) (hne : vals ≠ []) (hpd : 0 < pd) (hp : pn ≤ pd) :
    let r := pbest vals pn pd
    r.length = pbestCount vals.length pn pd ∧ r.Nodup ∧ (∀ i ∈ r, i < vals.length) ∧
    (r.map fun i => vals.getD i 0).Pairwise (· ≥ ·) ∧
    (∀ i ∈ r, ∀ j, j < vals.length → j ∉ r → vals.getD j 0 ≤ vals.getD i 0) := by
  intro r
  have hn : 0 < vals.length := List.length_pos_iff.mpr hne
  have hc := pbestCount_le vals.length pn pd hn hpd hp
  obtain ⟨vals', hV, hI, hP, hval, hs⟩ := argsortK_spec vals _ hc
  have hr : r = (argsortK vals (pbestCount vals.length pn pd)).take (pbestCount vals.length pn pd) :=
    rfl
  clear_value r
  generalize pbestCount vals.length pn pd = c at *
  generalize argsortK vals c = idx at *
  have hlen : r.length = c := by rw [hr, List.length_take]; omega
  have hnd : idx.Nodup := (hP.nodup_iff).mpr List.nodup_range
  have hget : ∀ p (hp : p < r.length), r[p] = idx.getD p 0 := by
    intro p hp
    rw [getD_eq_getElem idx p 0 (by omega)]
    subst hr; simp
  refine ⟨hlen, ?_, ?_, ?_, ?_⟩
  · rw [hr]; exact hnd.sublist (List.take_sublist _ _)
  · intro i hi
    rw [hr] at hi
    exact List.mem_range.mp (hP.subset (List.mem_of_mem_take hi))
  · rw [List.pairwise_iff_getElem]
    intro p q hp hq hpq
    simp only [List.length_map] at hp hq
    simp only [List.getElem_map]
    rw [hget p hp, hget q hq, ← hval p (by omega), ← hval q (by omega)]
    exact hs p (by omega) q (by omega) (by omega)
  · intro i hi j hj hjr
    obtain ⟨p, hp, rfl⟩ := List.mem_iff_getElem.mp hi
    have hjm : j ∈ idx := hP.symm.subset (List.mem_range.mpr hj)
    obtain ⟨q, hq, rfl⟩ := List.mem_iff_getElem.mp hjm
    have hqc : c ≤ q := by
      apply Nat.le_of_not_lt
      intro hlt
      apply hjr
      have : idx[q] = r[q]'(by omega) := by
        rw [hget q (by omega), getD_eq_getElem idx q 0 hq]
      rw [this]; exact List.getElem_mem _
    rw [hget p hp, ← hval p (by omega), ← getD_eq_getElem idx q 0 hq, ← hval q (by omega)]
    exact hs p (by omega) q (by omega) (by omega)

/-! ### sampling: progress -/

theorem sampleNoRepl_progress_aux (draws : List Nat) : ∀ (k : Nat) (acc : List Nat),
    k ≤ ((draws.filter fun d => !acc.contains d).eraseDups).length →
    (sampleNoRepl draws k acc).isSome = true := by
  induction draws with
  | nil =>
    intro k acc h
    have : k = 0 := by simpa using h
    subst this; simp [sampleNoRepl]
  | cons d ds ih =>
    intro k acc h
    cases k with
    | zero => simp [sampleNoRepl]
    | succ k =>
      simp only [sampleNoRepl]
      by_cases hc : acc.contains d = true
      · simp only [hc, if_true]
        apply ih
        rw [List.filter_cons] at h
        simp only [hc, Bool.not_true, Bool.false_eq_true, if_false] at h
        exact h
      · simp only [hc]
        apply ih
        have hc' : acc.contains d = false := by simpa using hc
        rw [List.filter_cons] at h
        simp only [hc', Bool.not_false, if_true] at h
        rw [List.eraseDups_cons, List.length_cons, List.filter_filter] at h
        have hfun : (fun a => (!a == d) && !acc.contains a) = fun a => !(d :: acc).contains a := by
          funext a; by_cases h : a = d <;> simp [h]
        rw [hfun] at h
        omega

theorem sampleNoRepl_progress (draws : List Nat) (k : Nat)
    (h : k ≤ draws.eraseDups.length) : (sampleNoRepl draws k []).isSome = true := by
  apply sampleNoRepl_progress_aux
  have : (draws.filter fun d => !([] : List Nat).contains d) = draws :=
    List.filter_eq_self.mpr (fun a _ => by simp)
  rw [this]; exact h

/-! ### Sattolo -/

theorem sattoloAux_perm {α : Type} : ∀ (i : Nat) (js : List Nat) (l : List α),
    (sattoloAux l i js).Perm l := by
  intro i
  induction i with
  | zero => intro js l; simp [sattoloAux]
  | succ i ih =>
    intro js l
    cases js with
    | nil => simp [sattoloAux]
    | cons j js =>
      simp only [sattoloAux]
      exact (ih js _).trans (swap_perm l (i + 1) j)

theorem sattolo_perm {α : Type} (l : List α) (js : List Nat) : (sattolo l js).Perm l :=
  sattoloAux_perm _ js l

/-- the transposition `(a b)` on positions -/
def tr (a b x : Nat) : Nat := if x = a then b else if x = b then a else x

/-- the position map accumulated by the loop: `sattoloAux l i js = l ∘ rho i js` -/
def rho : Nat → List Nat → Nat → Nat
  | 0, _ => id
  | _ + 1, [] => id
  | i + 1, j :: js => fun x => tr (i + 1) j (rho i js x)

theorem swap_getD_tr {α : Type} (l : List α) (i j : Nat) (hi : i < l.length) (hj : j < l.length)
    (p : Nat) (d : α) : (swap l i j).getD p d = l.getD (tr i j p) d := by
  rw [swap_getD l i j hi hj]
  unfold tr
  by_cases h1 : p = i
  · subst h1
    by_cases h2 : p = j
    · subst h2; simp
    · simp [h2]
  · by_cases h2 : p = j
    · subst h2; simp [h1]
    · simp [h1, h2]

theorem sattoloAux_getD {α : Type} (d : α) : ∀ (i : Nat) (js : List Nat) (l : List α),
    i ≤ l.length - 1 → sattoloOk i js = true →
    ∀ x, (sattoloAux l i js).getD x d = l.getD (rho i js x) d := by
  intro i
  induction i with
  | zero => intro js l _ _ x; simp [sattoloAux, rho]
  | succ i ih =>
    intro js l hi hok x
    cases js with
    | nil => simp [sattoloOk] at hok
    | cons j js =>
      simp only [sattoloOk, Bool.and_eq_true, decide_eq_true_eq] at hok
      simp only [sattoloAux, rho]
      rw [ih js (swap l (i + 1) j) (by rw [swap_length]; omega) hok.2 x]
      exact swap_getD_tr l (i + 1) j (by omega) (by omega) _ d

/-- reachability by iteration -/
def Reach (f : Nat → Nat) (a b : Nat) : Prop := ∃ k, Nat.iterate f k a = b

theorem Reach.refl (f : Nat → Nat) (a : Nat) : Reach f a a := ⟨0, rfl⟩

theorem Reach.head {f : Nat → Nat} {a b : Nat} (h : Reach f (f a) b) : Reach f a b := by
  obtain ⟨k, hk⟩ := h
  exact ⟨k + 1, hk⟩

theorem Reach.trans {f : Nat → Nat} {a b c : Nat} (h1 : Reach f a b) (h2 : Reach f b c) :
    Reach f a c := by
  obtain ⟨k, hk⟩ := h1
  induction k generalizing a with
  | zero => simp only [Nat.iterate] at hk; subst hk; exact h2
  | succ k ih => exact Reach.head (ih hk)

theorem Reach.single (f : Nat → Nat) (a : Nat) : Reach f a (f a) := ⟨1, rfl⟩

/-- `g` is a single cycle on `{0..i}` and the identity above -/
structure CycleOn (i : Nat) (g : Nat → Nat) : Prop where
  fix : ∀ x, i < x → g x = x
  closed : ∀ x, x ≤ i → g x ≤ i
  reach : ∀ a b, a ≤ i → b ≤ i → Reach g a b

theorem cycleOn_reach_closed {i : Nat} {g : Nat → Nat} (h : CycleOn i g) (a k : Nat) (ha : a ≤ i) :
    Nat.iterate g k a ≤ i := by
  induction k generalizing a with
  | zero => exact ha
  | succ k ih => exact ih (g a) (h.closed a ha)

/-- every point of the cycle has a predecessor on the cycle -/
theorem cycleOn_pred {i : Nat} {g : Nat → Nat} (h : CycleOn i g) (j : Nat) (hj : j ≤ i) :
    ∃ c, c ≤ i ∧ g c = j := by
  obtain ⟨k, hk⟩ := h.reach (g j) j (h.closed j hj) hj
  -- g^[k] (g j) = j ; walk: find the last point before returning
  have key : ∀ (k : Nat) (a : Nat), a ≤ i → Nat.iterate g (k + 1) a = j → ∃ c, c ≤ i ∧ g c = j := by
    intro k
    induction k with
    | zero => intro a ha hk; exact ⟨a, ha, hk⟩
    | succ k ih => intro a ha hk; exact ih (g a) (h.closed a ha) hk
  exact key k j hj hk

theorem cycleOn_step (i j : Nat) (g : Nat → Nat) (hj : j ≤ i) (h : CycleOn i g) :
    CycleOn (i + 1) (fun x => tr (i + 1) j (g x)) := by
  have hfix := h.fix (i + 1) (by omega)
  -- behaviour of the new map
  have e1 : ∀ x, x ≤ i → g x = j → tr (i + 1) j (g x) = i + 1 := by
    intro x hx hg
    have := h.closed x hx
    unfold tr; rw [hg]
    rw [if_neg (by omega), if_pos rfl]
  have e2 : ∀ x, x ≤ i → g x ≠ j → tr (i + 1) j (g x) = g x := by
    intro x hx hg
    have := h.closed x hx
    unfold tr
    rw [if_neg (by omega), if_neg hg]
  have e3 : tr (i + 1) j (g (i + 1)) = j := by
    rw [hfix]; unfold tr; rw [if_pos rfl]
  -- old paths lift to new paths
  have lift : ∀ (k a b : Nat), a ≤ i → Nat.iterate g k a = b →
      Reach (fun x => tr (i + 1) j (g x)) a b := by
    intro k
    induction k with
    | zero => intro a b _ hk; simp only [Nat.iterate] at hk; subst hk; exact Reach.refl _ _
    | succ k ih =>
      intro a b ha hk
      have hga := h.closed a ha
      have hrest := ih (g a) b hga hk
      by_cases hg : g a = j
      · apply Reach.head; show Reach _ (tr (i + 1) j (g a)) b
        rw [e1 a ha hg]
        apply Reach.head; show Reach _ (tr (i + 1) j (g (i + 1))) b
        rw [e3]; rw [hg] at hrest; exact hrest
      · apply Reach.head; show Reach _ (tr (i + 1) j (g a)) b
        rw [e2 a ha hg]; exact hrest
  have lift' : ∀ a b, a ≤ i → b ≤ i → Reach (fun x => tr (i + 1) j (g x)) a b := by
    intro a b ha hb
    obtain ⟨k, hk⟩ := h.reach a b ha hb
    exact lift k a b ha hk
  obtain ⟨c, hc, hgc⟩ := cycleOn_pred h j hj
  have toTop : ∀ a, a ≤ i → Reach (fun x => tr (i + 1) j (g x)) a (i + 1) := by
    intro a ha
    refine Reach.trans (lift' a c ha hc) ?_
    have := Reach.single (fun x => tr (i + 1) j (g x)) c
    simp only [e1 c hc hgc] at this
    exact this
  have fromTop : ∀ b, b ≤ i → Reach (fun x => tr (i + 1) j (g x)) (i + 1) b := by
    intro b hb
    apply Reach.head; show Reach _ (tr (i + 1) j (g (i + 1))) b
    rw [e3]; exact lift' j b hj hb
  refine ⟨?_, ?_, ?_⟩
  · intro x hx
    show tr (i + 1) j (g x) = x
    rw [h.fix x (by omega)]
    unfold tr; rw [if_neg (by omega), if_neg (by omega)]
  · intro x hx
    show tr (i + 1) j (g x) ≤ i + 1
    by_cases hxi : x ≤ i
    · by_cases hg : g x = j
      · rw [e1 x hxi hg]; exact Nat.le_refl _
      · rw [e2 x hxi hg]; have := h.closed x hxi; omega
    · have : x = i + 1 := by omega
      subst this; rw [e3]; omega
  · intro a b ha hb
    by_cases hai : a ≤ i
    · by_cases hbi : b ≤ i
      · exact lift' a b hai hbi
      · have : b = i + 1 := by omega
        subst this; exact toTop a hai
    · have : a = i + 1 := by omega
      subst this
      by_cases hbi : b ≤ i
      · exact fromTop b hbi
      · have : b = i + 1 := by omega
        subst this; exact Reach.refl _ _

theorem rho_cycleOn : ∀ (i : Nat) (js : List Nat), sattoloOk i js = true → CycleOn i (rho i js) := by
  intro i
  induction i with
  | zero =>
    intro js _
    refine ⟨fun x _ => by simp [rho], fun x hx => by simpa [rho] using hx, fun a b ha hb => ?_⟩
    have : a = b := by omega
    subst this; exact Reach.refl _ _
  | succ i ih =>
    intro js hok
    cases js with
    | nil => simp [sattoloOk] at hok
    | cons j js =>
      simp only [sattoloOk, Bool.and_eq_true, decide_eq_true_eq] at hok
      exact cycleOn_step i j (rho i js) (by omega) (ih js hok.2)

/-- the shuffled index vector, read as a function, agrees with `rho` on `[0, n)` -/
theorem sattolo_range_getD (n : Nat) (js : List Nat) (hok : sattoloOk (n - 1) js = true)
    (x : Nat) (hx : x < n) :
    (sattolo (List.range n) js).getD x 0 = rho (n - 1) js x := by
  unfold sattolo
  rw [List.length_range, sattoloAux_getD 0 (n - 1) js (List.range n) (by simp) hok x]
  have := (rho_cycleOn (n - 1) js hok).closed x (by omega)
  exact range_getD n _ (by omega)

theorem sattolo_iterate (n : Nat) (js : List Nat) (hok : sattoloOk (n - 1) js = true) :
    ∀ (k a : Nat), a < n →
      Nat.iterate (fun x => (sattolo (List.range n) js).getD x 0) k a
        = Nat.iterate (rho (n - 1) js) k a := by
  intro k
  induction k with
  | zero => intro a _; rfl
  | succ k ih =>
    intro a ha
    simp only [Nat.iterate]
    rw [sattolo_range_getD n js hok a ha]
    apply ih
    have := (rho_cycleOn (n - 1) js hok).closed a (by omega)
    omega

theorem sattolo_cyclic (n : Nat) (js : List Nat) (hok : sattoloOk (n - 1) js = true) :
    let σ := sattolo (List.range n) js
    ∀ i j, i < n → j < n → ∃ k, Nat.iterate (fun x => σ.getD x 0) k i = j := by
  intro σ i j hi hj
  obtain ⟨k, hk⟩ := (rho_cycleOn (n - 1) js hok).reach i j (by omega) (by omega)
  exact ⟨k, by rw [sattolo_iterate n js hok k i hi]; exact hk⟩

theorem iterate_fixed (f : Nat → Nat) (a : Nat) (h : f a = a) : ∀ k, Nat.iterate f k a = a := by
  intro k
  induction k with
  | zero => rfl
  | succ k ih => simp only [Nat.iterate]; rw [h]; exact ih

theorem sattolo_no_fixed_point (n : Nat) (js : List Nat) (hn : 2 ≤ n)
    (hok : sattoloOk (n - 1) js = true) :
    ∀ i, i < n → (sattolo (List.range n) js).getD i 0 ≠ i := by
  intro i hi hfix
  have hc := sattolo_cyclic n js hok
  simp only at hc
  obtain ⟨k, hk⟩ := hc i (if i = 0 then 1 else 0) hi (by split <;> omega)
  rw [iterate_fixed _ i hfix k] at hk
  split at hk <;> omega

end TFV.Select
