/-
  TFV.Lemmas.Select — proofs for the C11 selection / sampling contracts.
-/
import TFV.Model.Select

namespace TFV.Select

/-! ### binary search -/

theorem getD_eq_getElem {α : Type} (l : List α) (i : Nat) (d : α) (h : i < l.length) :
    l.getD i d = l[i] := by
  simp [List.getD, h]

/-- nondecreasing, index form on `getD` -/
theorem mono_getD (cum : List Int) (hm : List.Pairwise (· ≤ ·) cum) (i j : Nat)
    (hij : i ≤ j) (hj : j < cum.length) : cum.getD i 0 ≤ cum.getD j 0 := by
  rw [getD_eq_getElem cum i 0 (by omega), getD_eq_getElem cum j 0 hj]
  rcases Nat.eq_or_lt_of_le hij with h | h
  · subst h; exact Int.le_refl _
  · exact (List.pairwise_iff_getElem.mp hm) i j (by omega) hj h

/-- loop invariant of the binary search -/
theorem bsLoop_spec (v : Int) (cum : List Int) :
    ∀ (fuel left right : Nat), left < right → right - left ≤ fuel →
      cum.getD left 0 < v → v ≤ cum.getD right 0 →
      let r := bsLoop v cum fuel left right
      left < r ∧ r ≤ right ∧ v ≤ cum.getD r 0 ∧ cum.getD (r - 1) 0 < v := by
  intro fuel
  induction fuel with
  | zero => intro left right h1 h2; omega
  | succ fuel ih =>
    intro left right hlr hfuel hl hr
    simp only [bsLoop]
    by_cases hgap : right - left > 1
    · simp only [hgap, if_true]
      by_cases hmid : v ≤ cum.getD ((left + right) / 2) 0
      · simp only [hmid, if_true]
        have := ih left ((left + right) / 2) (by omega) (by omega) hl hmid
        simp only at this
        refine ⟨this.1, by omega, this.2.2.1, this.2.2.2⟩
      · simp only [hmid, if_false]
        have := ih ((left + right) / 2) right (by omega) (by omega) (by omega) hr
        simp only at this
        refine ⟨by omega, this.2.1, this.2.2.1, this.2.2.2⟩
    · simp only [hgap, if_false]
      have : right - 1 = left := by omega
      refine ⟨hlr, Nat.le_refl _, hr, ?_⟩
      rw [this]; exact hl

theorem getLastD_eq_getD (cum : List Int) (hne : cum ≠ []) :
    cum.getLastD 0 = cum.getD (cum.length - 1) 0 := by
  have hlen : 0 < cum.length := List.length_pos_iff.mpr hne
  rw [getD_eq_getElem cum _ 0 (by omega)]
  rw [List.getLastD_eq_getLast?, List.getLast?_eq_getElem?]
  rw [List.getElem?_eq_getElem (by omega)]; rfl

/-- the characterising property of the returned index -/
def IsCut (v : Int) (cum : List Int) (k : Nat) : Prop :=
  k < cum.length ∧ v ≤ cum.getD k 0 ∧ ∀ j, j < k → cum.getD j 0 < v

theorem isCut_unique (v : Int) (cum : List Int) (k k' : Nat)
    (h : IsCut v cum k) (h' : IsCut v cum k') : k' = k := by
  rcases Nat.lt_trichotomy k k' with hlt | heq | hgt
  · have := h'.2.2 k hlt; have := h.2.1; omega
  · exact heq.symm
  · have := h.2.2 k' hgt; have := h'.2.1; omega

theorem bsearch_isCut (v : Int) (cum : List Int) (hm : List.Pairwise (· ≤ ·) cum) (hne : cum ≠ [])
    (hv : v ≤ cum.getLastD 0) : IsCut v cum (bsearch v cum) := by
  have hlen : 0 < cum.length := List.length_pos_iff.mpr hne
  rw [getLastD_eq_getD cum hne] at hv
  unfold bsearch
  by_cases h0 : v ≤ cum.getD 0 0
  · simp only [h0, if_true]
    exact ⟨hlen, h0, fun j hj => by omega⟩
  · simp only [h0, if_false]
    have hlt : 0 < cum.length - 1 := by
      rcases Nat.eq_zero_or_pos (cum.length - 1) with h | h
      · rw [h] at hv; omega
      · exact h
    have := bsLoop_spec v cum cum.length 0 (cum.length - 1) hlt (by omega) (by omega) hv
    simp only at this
    obtain ⟨h1, h2, h3, h4⟩ := this
    refine ⟨by omega, h3, fun j hj => ?_⟩
    have := mono_getD cum hm j (bsLoop v cum cum.length 0 (cum.length - 1) - 1) (by omega) (by omega)
    omega

theorem firstGe_isCut (v : Int) (cum : List Int) (hne : cum ≠ [])
    (hv : v ≤ cum.getLastD 0) : IsCut v cum (firstGe v cum) := by
  induction cum with
  | nil => exact absurd rfl hne
  | cons c cs ih =>
    unfold firstGe
    by_cases hc : v ≤ c
    · simp only [hc, if_true]
      exact ⟨by simp, by simpa [List.getD] using hc, fun j hj => by omega⟩
    · simp only [hc, if_false]
      have hcs : cs ≠ [] := by
        intro h; subst h; simp [List.getLastD] at hv; omega
      have hv' : v ≤ cs.getLastD 0 := by
        cases cs with
        | nil => exact absurd rfl hcs
        | cons d ds => simpa [List.getLastD] using hv
      obtain ⟨h1, h2, h3⟩ := ih hcs hv'
      refine ⟨by simp; omega, ?_, ?_⟩
      · rw [Nat.add_comm]; simpa [List.getD] using h2
      · intro j hj
        cases j with
        | zero => simp [List.getD]; omega
        | succ j =>
          have := h3 j (by omega)
          simpa [List.getD] using this

theorem bsearch_eq_firstGe (v : Int) (cum : List Int) (hm : List.Pairwise (· ≤ ·) cum)
    (hne : cum ≠ []) (hv : v ≤ cum.getLastD 0) : bsearch v cum = firstGe v cum :=
  isCut_unique v cum _ _ (firstGe_isCut v cum hne hv) (bsearch_isCut v cum hm hne hv)

theorem bsearch_interval (v : Int) (cum : List Int) (hm : List.Pairwise (· ≤ ·) cum)
    (hne : cum ≠ []) (hv : v ≤ cum.getLastD 0) :
    let k := bsearch v cum
    k < cum.length ∧ v ≤ cum.getD k 0 ∧ (∀ j, j < k → cum.getD j 0 < v) ∧
    (∀ k', k' < cum.length → v ≤ cum.getD k' 0 → (∀ j, j < k' → cum.getD j 0 < v) → k' = k) := by
  intro k
  have h := bsearch_isCut v cum hm hne hv
  exact ⟨h.1, h.2.1, h.2.2, fun k' a b c => isCut_unique v cum k k' h ⟨a, b, c⟩⟩

/-! ### cumulative sums -/

theorem cumsumFrom_length (acc : Int) (w : List Int) : (cumsumFrom acc w).length = w.length := by
  induction w generalizing acc with
  | nil => rfl
  | cons x xs ih => simp [cumsumFrom, ih]

theorem cumsumFrom_getD_zero (acc : Int) (w : List Int) (h : 0 < w.length) :
    (cumsumFrom acc w).getD 0 0 = acc + w.getD 0 0 := by
  cases w with
  | nil => simp at h
  | cons x xs => simp [cumsumFrom, List.getD]

theorem cumsumFrom_getD_succ (acc : Int) (w : List Int) (k : Nat) (h : k + 1 < w.length) :
    (cumsumFrom acc w).getD (k + 1) 0 = (cumsumFrom acc w).getD k 0 + w.getD (k + 1) 0 := by
  induction w generalizing acc k with
  | nil => simp at h
  | cons x xs ih =>
    cases k with
    | zero =>
      have hx : 0 < xs.length := by simp at h; omega
      have := cumsumFrom_getD_zero (acc + x) xs hx
      simpa [cumsumFrom, List.getD] using this
    | succ k =>
      have := ih (acc + x) k (by simp at h; omega)
      simpa [cumsumFrom, List.getD] using this

theorem cumsumFrom_mono (acc : Int) (w : List Int) (hw : ∀ x ∈ w, 0 ≤ x) :
    List.Pairwise (· ≤ ·) (cumsumFrom acc w) ∧ ∀ y ∈ cumsumFrom acc w, acc ≤ y := by
  induction w generalizing acc with
  | nil => simp [cumsumFrom]
  | cons x xs ih =>
    have hx : 0 ≤ x := hw x (by simp)
    obtain ⟨h1, h2⟩ := ih (acc + x) (fun y hy => hw y (by simp [hy]))
    refine ⟨?_, ?_⟩
    · simp only [cumsumFrom, List.pairwise_cons]
      exact ⟨h2, h1⟩
    · intro y hy
      simp only [cumsumFrom, List.mem_cons] at hy
      rcases hy with rfl | hy
      · omega
      · have := h2 y hy; omega

theorem cumsum_length (w : List Int) : (cumsum w).length = w.length := cumsumFrom_length 0 w

theorem cumsum_mono (w : List Int) (hw : ∀ x ∈ w, 0 ≤ x) : List.Pairwise (· ≤ ·) (cumsum w) :=
  (cumsumFrom_mono 0 w hw).1

theorem cumsum_ne_nil (w : List Int) (hne : w ≠ []) : cumsum w ≠ [] := by
  intro h
  have := cumsum_length w
  rw [h] at this
  exact hne (List.length_eq_zero_iff.mp this.symm)

/-- `cum[k] - w[k]` is the previous cumulative value (0 in front of the array) -/
theorem cumsum_prev (w : List Int) (k : Nat) (hk : k < w.length) :
    (cumsum w).getD k 0 - w.getD k 0 = if k = 0 then 0 else (cumsum w).getD (k - 1) 0 := by
  cases k with
  | zero =>
    have := cumsumFrom_getD_zero 0 w hk
    simp only [cumsum, if_true]; omega
  | succ k =>
    have := cumsumFrom_getD_succ 0 w k hk
    simp only [cumsum, Nat.add_sub_cancel]
    simp only [Nat.add_one_ne_zero, if_false]; omega

theorem weight_measure (w : List Int) (hw : ∀ x ∈ w, 0 ≤ x) (k : Nat) (hk : k < w.length) (v : Int)
    (hv0 : 0 < v) (hv : v ≤ (cumsum w).getLastD 0) :
    bsearch v (cumsum w) = k ↔
      ((cumsum w).getD k 0 - w.getD k 0 < v ∧ v ≤ (cumsum w).getD k 0) := by
  have hne : w ≠ [] := by intro h; subst h; simp at hk
  have hcut := bsearch_isCut v (cumsum w) (cumsum_mono w hw) (cumsum_ne_nil w hne) hv
  have hprev := cumsum_prev w k hk
  constructor
  · intro h
    rw [h] at hcut
    refine ⟨?_, hcut.2.1⟩
    rw [hprev]
    by_cases h0 : k = 0
    · simp only [h0, if_true]; exact hv0
    · simp only [h0, if_false]; exact hcut.2.2 (k - 1) (by omega)
  · rintro ⟨h1, h2⟩
    refine isCut_unique v (cumsum w) k _ ⟨by rw [cumsum_length]; exact hk, h2, ?_⟩ hcut
    intro j hj
    have h0 : k ≠ 0 := by omega
    rw [hprev] at h1
    simp only [h0, if_false] at h1
    have := mono_getD (cumsum w) (cumsum_mono w hw) j (k - 1) (by omega)
      (by rw [cumsum_length]; omega)
    omega

theorem weight_positive (w : List Int) (v : Int) (hw : ∀ x ∈ w, 0 ≤ x) (hne : w ≠ [])
    (hv0 : 0 < v) (hv : v ≤ (cumsum w).getLastD 0) :
    bsearch v (cumsum w) < w.length ∧ 0 < w.getD (bsearch v (cumsum w)) 0 := by
  have hcut := bsearch_isCut v (cumsum w) (cumsum_mono w hw) (cumsum_ne_nil w hne) hv
  have hk : bsearch v (cumsum w) < w.length := by
    have := hcut.1; rw [cumsum_length] at this; exact this
  refine ⟨hk, ?_⟩
  have := (weight_measure w hw _ hk v hv0 hv).mp rfl
  omega

end TFV.Select
