-- Lemmas behind TFV/Properties/Tree.lean, split by topic.
import TFV.Lemmas.TreeCore
import TFV.Lemmas.TreeOps
import TFV.Lemmas.TreeCR
