/-
  TFV.Lemmas.Adapt — proofs for C15 (adaptive control parameters stay in range and follow
  their update rules).
-/
import TFV.Model.Adapt
import Mathlib.Tactic.Linarith
import Mathlib.Tactic.FieldSimp
import Mathlib.Tactic.Ring
import Mathlib.Tactic.Positivity

namespace TFV.Adapt

/-! ### truncated draws -/

theorem randc01_range (draws : List Rat) (v : Rat) (h : randc01 draws = some v) : 0 < v ∧ v ≤ 1 := by
  induction draws with
  | nil => simp [randc01] at h
  | cons d ds ih =>
    unfold randc01 at h
    by_cases hd : d ≤ 0
    · rw [if_pos hd] at h; exact ih h
    · rw [if_neg hd] at h
      have hd' : 0 < d := lt_of_not_ge hd
      by_cases h1 : 1 < d
      · rw [if_pos h1] at h
        have : v = 1 := (Option.some.inj h).symm
        subst this; exact ⟨by norm_num, le_refl _⟩
      · rw [if_neg h1] at h
        have : v = d := (Option.some.inj h).symm
        subst this; exact ⟨hd', le_of_not_gt h1⟩

theorem randc01_progress (draws : List Rat) (h : ∃ d ∈ draws, 0 < d) : (randc01 draws).isSome = true := by
  induction draws with
  | nil => obtain ⟨d, hd, _⟩ := h; simp at hd
  | cons d ds ih =>
    unfold randc01
    by_cases hd : d ≤ 0
    · rw [if_pos hd]
      apply ih
      obtain ⟨e, he, hpos⟩ := h
      rcases List.mem_cons.mp he with rfl | he'
      · exact absurd hpos (not_lt_of_ge hd)
      · exact ⟨e, he', hpos⟩
    · rw [if_neg hd]; rfl

theorem randn01_range (v : Rat) : 0 ≤ randn01 v ∧ randn01 v ≤ 1 := by
  unfold randn01
  by_cases h0 : v < 0
  · rw [if_pos h0]; exact ⟨le_refl _, by norm_num⟩
  · rw [if_neg h0]
    by_cases h1 : 1 < v
    · rw [if_pos h1]; exact ⟨by norm_num, le_refl _⟩
    · rw [if_neg h1]; exact ⟨le_of_not_gt h0, le_of_not_gt h1⟩

theorem randcMR_range (strLen : Nat) (draws : List Rat) (v : Rat) (h : randcMR strLen draws = some v) :
    0 < v ∧ v ≤ (5 : Rat) / (strLen : Rat) := by
  induction draws with
  | nil => simp [randcMR] at h
  | cons d ds ih =>
    unfold randcMR at h
    by_cases hd : d ≤ 0 ∨ (5 : Rat) / (strLen : Rat) < d
    · rw [if_pos hd] at h; exact ih h
    · rw [if_neg hd] at h
      have : v = d := (Option.some.inj h).symm
      subst this
      exact ⟨lt_of_not_ge fun h' => hd (Or.inl h'), le_of_not_gt fun h' => hd (Or.inr h')⟩

theorem randnCR_range (v : Rat) : 0 ≤ randnCR v ∧ randnCR v ≤ 1 := randn01_range v

theorem jde_spec (F CR Fmin Fmax tF tCR u1 u2 : Rat) (hu : 0 ≤ u2 ∧ u2 < 1) (hF : 0 ≤ Fmax) :
    (u1 < tF → Fmin ≤ jdeF F Fmin Fmax tF u1 u2 ∧ jdeF F Fmin Fmax tF u1 u2 ≤ Fmin + Fmax) ∧
    (¬ u1 < tF → jdeF F Fmin Fmax tF u1 u2 = F) ∧
    (u1 < tCR → 0 ≤ jdeCR CR tCR u1 u2 ∧ jdeCR CR tCR u1 u2 ≤ 1) ∧
    (¬ u1 < tCR → jdeCR CR tCR u1 u2 = CR) ∧
    (∀ old new, jdeAccept old new false = old ∧ jdeAccept old new true = new) := by
  obtain ⟨hu0, hu1⟩ := hu
  refine ⟨fun h => ?_, fun h => ?_, fun h => ?_, fun h => ?_, fun old new => ?_⟩
  · unfold jdeF; rw [if_pos h]
    have h1 : 0 ≤ u2 * Fmax := mul_nonneg hu0 hF
    have h2 : u2 * Fmax ≤ 1 * Fmax := mul_le_mul_of_nonneg_right (le_of_lt hu1) hF
    constructor <;> linarith
  · unfold jdeF; rw [if_neg h]
  · unfold jdeCR; rw [if_pos h]; exact ⟨hu0, le_of_lt hu1⟩
  · unfold jdeCR; rw [if_neg h]
  · simp [jdeAccept]

/-! ### sums and dot products -/

theorem dot_nil_left (b : List Rat) : dot [] b = 0 := by simp [dot]
theorem dot_nil_right (a : List Rat) : dot a [] = 0 := by simp [dot]
theorem dot_cons (a : Rat) (as : List Rat) (b : Rat) (bs : List Rat) :
    dot (a :: as) (b :: bs) = a * b + dot as bs := by simp [dot]

theorem sum_nonneg' (l : List Rat) (h : ∀ a ∈ l, 0 ≤ a) : 0 ≤ l.sum := by
  induction l with
  | nil => simp
  | cons a as ih =>
    rw [List.sum_cons]
    have h1 := h a (List.mem_cons_self ..)
    have h2 := ih fun x hx => h x (List.mem_cons_of_mem _ hx)
    linarith

theorem sum_pos' (l : List Rat) (hne : l ≠ []) (h : ∀ a ∈ l, 0 < a) : 0 < l.sum := by
  cases l with
  | nil => exact absurd rfl hne
  | cons a as =>
    rw [List.sum_cons]
    have h1 := h a (List.mem_cons_self ..)
    have h2 := sum_nonneg' as fun x hx => le_of_lt (h x (List.mem_cons_of_mem _ hx))
    linarith

theorem sum_map_div (l : List Rat) (c : Rat) : (l.map (· / c)).sum = l.sum / c := by
  induction l with
  | nil => simp
  | cons a as ih => simp only [List.map_cons, List.sum_cons, ih]; ring

/-- termwise facts about the two sums of the Lehmer mean -/
theorem dot_sq_bounds (w x : List Rat) (b : Rat) (hl : x.length = w.length)
    (hx : ∀ a ∈ x, 0 ≤ a ∧ a ≤ b) (hw : ∀ a ∈ w, 0 ≤ a) :
    0 ≤ dot w x ∧ 0 ≤ dot w (x.map fun a => a * a) ∧
      dot w (x.map fun a => a * a) ≤ b * dot w x := by
  induction w generalizing x with
  | nil => simp [dot_nil_left]
  | cons v vs ih =>
    cases x with
    | nil => simp at hl
    | cons a as =>
      have hl' : as.length = vs.length := by simpa using hl
      obtain ⟨i1, i2, i3⟩ := ih as hl' (fun y hy => hx y (List.mem_cons_of_mem _ hy))
        (fun y hy => hw y (List.mem_cons_of_mem _ hy))
      obtain ⟨ha0, hab⟩ := hx a (List.mem_cons_self ..)
      have hv := hw v (List.mem_cons_self ..)
      rw [List.map_cons, dot_cons, dot_cons]
      have hva : 0 ≤ v * a := mul_nonneg hv ha0
      have h1 : 0 ≤ v * (a * a) := mul_nonneg hv (mul_nonneg ha0 ha0)
      have h2 : v * (a * a) ≤ b * (v * a) := by
        have : 0 ≤ (v * a) * (b - a) := mul_nonneg hva (by linarith)
        nlinarith
      refine ⟨by linarith, by linarith, by linarith⟩

theorem dot_pos (w x : List Rat) (hl : x.length = w.length) (hne : x ≠ [])
    (hx : ∀ a ∈ x, 0 < a) (hw : ∀ a ∈ w, 0 < a) : 0 < dot w x := by
  induction w generalizing x with
  | nil =>
    cases x with
    | nil => exact absurd rfl hne
    | cons a as => simp at hl
  | cons v vs ih =>
    cases x with
    | nil => exact absurd rfl hne
    | cons a as =>
      have hl' : as.length = vs.length := by simpa using hl
      rw [dot_cons]
      have h1 : 0 < v * a := mul_pos (hw v (List.mem_cons_self ..)) (hx a (List.mem_cons_self ..))
      by_cases hne' : as = []
      · subst hne'; rw [dot_nil_right]; linarith
      · have := ih as hl' hne' (fun y hy => hx y (List.mem_cons_of_mem _ hy))
          (fun y hy => hw y (List.mem_cons_of_mem _ hy))
        linarith

/-! ### means stay in range -/

/-- NOTE: `0 ≤ b` is needed: `lehmer [] [] = 0`, so for `x = []` and `b = -1` the upper bound fails. -/
theorem lehmer_range (x w : List Rat) (b : Rat) (hl : x.length = w.length)
    (hx : ∀ a ∈ x, 0 ≤ a ∧ a ≤ b) (hw : ∀ a ∈ w, 0 ≤ a) (hb : 0 ≤ b) :
    0 ≤ lehmer x w ∧ lehmer x w ≤ b := by
  obtain ⟨h1, h2, h3⟩ := dot_sq_bounds w x b hl hx hw
  unfold lehmer
  simp only
  by_cases hd : dot w x = 0
  · rw [if_pos hd]; exact ⟨le_refl _, hb⟩
  · rw [if_neg hd]
    have hpos : 0 < dot w x := lt_of_le_of_ne h1 (Ne.symm hd)
    exact ⟨div_nonneg h2 (le_of_lt hpos), by rw [div_le_iff₀ hpos]; exact h3⟩

theorem lehmer_pos (x w : List Rat) (hl : x.length = w.length) (hne : x ≠ [])
    (hx : ∀ a ∈ x, 0 < a) (hw : ∀ a ∈ w, 0 < a) : 0 < lehmer x w := by
  have hd := dot_pos w x hl hne hx hw
  have hl2 : (x.map fun a => a * a).length = w.length := by simpa using hl
  have hn := dot_pos w (x.map fun a => a * a) hl2 (by simpa using hne)
    (by
      intro a ha
      obtain ⟨y, hy, rfl⟩ := List.mem_map.mp ha
      exact mul_pos (hx y hy) (hx y hy)) hw
  unfold lehmer
  simp only
  rw [if_neg (ne_of_gt hd)]
  exact div_pos hn hd

theorem weights_spec (df : List Rat) (hd : ∀ d ∈ df, 0 < d) (hne : df ≠ []) :
    (weights df).sum = 1 ∧ (∀ a ∈ weights df, 0 < a) ∧ (weights df).length = df.length := by
  have hs := sum_pos' df hne hd
  unfold weights
  refine ⟨?_, ?_, by simp⟩
  · rw [sum_map_div]; exact div_self (ne_of_gt hs)
  · intro a ha
    obtain ⟨y, hy, rfl⟩ := List.mem_map.mp ha
    exact div_pos (hd y hy) hs

theorem weights_nonneg (df : List Rat) (hd : ∀ d ∈ df, 0 < d) : ∀ a ∈ weights df, 0 ≤ a := by
  intro a ha
  by_cases hne : df = []
  · subst hne; simp [weights] at ha
  · exact le_of_lt ((weights_spec df hd hne).2.1 a ha)

theorem updateF_spec (u : Rat) (S : List Rat) (hu : 0 < u ∧ u ≤ 1) (hS : ∀ a ∈ S, 0 < a ∧ a ≤ 1) :
    0 < updateF u S ∧ updateF u S ≤ 1 ∧ (S = [] → updateF u S = u) := by
  unfold updateF
  cases S with
  | nil => simpa using hu
  | cons a as =>
    have hne : (a :: as) ≠ [] := by simp
    simp only [List.isEmpty_cons, Bool.false_eq_true, if_false]
    unfold lehmer1
    have hl : (a :: as).length = ((a :: as).map fun _ => (1 : Rat)).length := by simp
    have hw : ∀ c ∈ ((a :: as).map fun _ => (1 : Rat)), 0 < c := by
      intro c hc
      obtain ⟨_, _, rfl⟩ := List.mem_map.mp hc
      norm_num
    refine ⟨lehmer_pos _ _ hl hne (fun c hc => (hS c hc).1) hw, ?_, fun h => absurd h hne⟩
    exact (lehmer_range _ _ 1 hl (fun c hc => ⟨le_of_lt (hS c hc).1, (hS c hc).2⟩)
      (fun c hc => le_of_lt (hw c hc)) (by norm_num)).2

/-- a convex combination of values in [0,1] is in [0,1] -/
theorem dot_le_sum (w x : List Rat) (b : Rat) (hl : x.length = w.length)
    (hx : ∀ a ∈ x, 0 ≤ a ∧ a ≤ b) (hw : ∀ a ∈ w, 0 ≤ a) :
    0 ≤ dot w x ∧ dot w x ≤ b * w.sum := by
  induction w generalizing x with
  | nil => simp [dot_nil_left]
  | cons v vs ih =>
    cases x with
    | nil => simp at hl
    | cons a as =>
      have hl' : as.length = vs.length := by simpa using hl
      obtain ⟨i1, i2⟩ := ih as hl' (fun y hy => hx y (List.mem_cons_of_mem _ hy))
        (fun y hy => hw y (List.mem_cons_of_mem _ hy))
      obtain ⟨ha0, hab⟩ := hx a (List.mem_cons_self ..)
      have hv := hw v (List.mem_cons_self ..)
      rw [dot_cons, List.sum_cons]
      have hva : 0 ≤ v * a := mul_nonneg hv ha0
      have h2 : v * a ≤ b * v := by
        have : 0 ≤ v * (b - a) := mul_nonneg hv (by linarith)
        nlinarith
      exact ⟨by linarith, by linarith⟩

theorem updateCR_spec (u : Rat) (S df : List Rat) (hu : 0 ≤ u ∧ u ≤ 1) (hl : S.length = df.length)
    (hS : ∀ a ∈ S, 0 ≤ a ∧ a ≤ 1) (hd : ∀ d ∈ df, 0 < d) :
    0 ≤ updateCR u S df ∧ updateCR u S df ≤ 1 ∧ (S = [] → updateCR u S df = u) := by
  unfold updateCR
  cases S with
  | nil => simpa using hu
  | cons a as =>
    have hne : (a :: as) ≠ [] := by simp
    have hdne : df ≠ [] := by
      intro h; subst h; simp at hl
    simp only [List.isEmpty_cons, Bool.false_eq_true, if_false]
    rw [if_pos (sum_pos' df hdne hd)]
    obtain ⟨w1, _, w3⟩ := weights_spec df hd hdne
    obtain ⟨h1, h2⟩ := dot_le_sum (weights df) (a :: as) 1 (by rw [w3]; exact hl) hS
      (weights_nonneg df hd)
    rw [w1] at h2
    exact ⟨h1, by linarith, fun h => absurd h hne⟩

theorem updateU_spec (u : Rat) (S df : List Rat) (b : Rat) (hl : S.length = df.length)
    (hd : ∀ d ∈ df, 0 < d) :
    (S = [] → updateU u S df = u) ∧
    (0 ≤ u ∧ u ≤ b → (∀ a ∈ S, 0 ≤ a ∧ a ≤ b) → 0 ≤ updateU u S df ∧ updateU u S df ≤ b) ∧
    (0 < u → (∀ a ∈ S, 0 < a) → 0 < updateU u S df) := by
  unfold updateU
  cases S with
  | nil => simp
  | cons a as =>
    have hne : (a :: as) ≠ [] := by simp
    have hdne : df ≠ [] := by
      intro h; subst h; simp at hl
    simp only [List.isEmpty_cons, Bool.false_eq_true, if_false]
    rw [if_pos (sum_pos' df hdne hd)]
    obtain ⟨_, w2, w3⟩ := weights_spec df hd hdne
    have hl' : (a :: as).length = (weights df).length := by rw [w3]; exact hl
    refine ⟨fun h => absurd h hne, fun hu hS => ?_, fun _ hS => ?_⟩
    · exact lehmer_range _ _ b hl' hS (weights_nonneg df hd) (le_trans hu.1 hu.2)
    · exact lehmer_pos _ _ hl' hne hS w2

/-! ### the memory ring -/

theorem getD_set' {α : Type} (a : List α) (i c : Nat) (v d : α) (hi : i < a.length) :
    (a.set i v).getD c d = if c = i then v else a.getD c d := by
  simp only [List.getD_eq_getElem?_getD, List.getElem?_set]
  by_cases h : c = i
  · subst h; simp [hi]
  · have h' : ¬ i = c := fun e => h e.symm
    simp [h, h']

theorem mem_step (m : Mem) (upd : Rat → Rat) (hk : m.k < m.H.length) :
    let m' := m.step upd
    m'.H.length = m.H.length ∧ m'.k = (m.k + 1) % m.H.length ∧ m'.k < m'.H.length ∧
    m'.H.getD m'.k 0 = upd (m.H.getD m.k 0) ∧
    ∀ i, i < m.H.length → i ≠ m'.k → m'.H.getD i 0 = m.H.getD i 0 := by
  intro m'
  have hnk : (if m.k + 1 = m.H.length then 0 else m.k + 1) = (m.k + 1) % m.H.length := by
    by_cases h : m.k + 1 = m.H.length
    · rw [if_pos h, h, Nat.mod_self]
    · rw [if_neg h, Nat.mod_eq_of_lt (by omega)]
  have hlt : (m.k + 1) % m.H.length < m.H.length := Nat.mod_lt _ (by omega)
  have hH : m'.H = m.H.set ((m.k + 1) % m.H.length) (upd (m.H.getD m.k 0)) := by
    show (m.step upd).H = _
    unfold Mem.step; simp only [hnk]
  have hK : m'.k = (m.k + 1) % m.H.length := by
    show (m.step upd).k = _
    unfold Mem.step; simp only [hnk]
  have hlen : m'.H.length = m.H.length := by rw [hH, List.length_set]
  refine ⟨hlen, hK, by rw [hK, hlen]; exact hlt, ?_, ?_⟩
  · rw [hK, hH, getD_set' _ _ _ _ _ hlt, if_pos rfl]
  · intro i _ hne
    rw [hK] at hne
    rw [hH, getD_set' _ _ _ _ _ hlt, if_neg hne]

theorem mem_of_mem_set {α : Type} (l : List α) (i : Nat) (v x : α) (h : x ∈ l.set i v) :
    x = v ∨ x ∈ l := by
  rcases List.mem_or_eq_of_mem_set h with h | h
  · exact Or.inr h
  · exact Or.inl h

theorem step_P (P : Rat → Prop) (m : Mem) (f : Rat → Rat) (hk : m.k < m.H.length)
    (h0 : ∀ a ∈ m.H, P a) (hf : ∀ a, P a → P (f a)) : ∀ a ∈ (m.step f).H, P a := by
  intro a ha
  unfold Mem.step at ha
  simp only at ha
  rcases mem_of_mem_set _ _ _ _ ha with h | h
  · rw [h]; apply hf
    rw [List.getD_eq_getElem?_getD, List.getElem?_eq_getElem hk]
    exact h0 _ (List.getElem_mem hk)
  · exact h0 a h

theorem mem_invariant (P : Rat → Prop) (m0 : Mem) (hk : m0.k < m0.H.length) (h0 : ∀ a ∈ m0.H, P a)
    (upds : List (Rat → Rat)) (hu : ∀ f ∈ upds, ∀ a, P a → P (f a)) :
    let m := upds.foldl Mem.step m0
    m.H.length = m0.H.length ∧ m.k = (m0.k + upds.length) % m0.H.length ∧ ∀ a ∈ m.H, P a := by
  induction upds generalizing m0 with
  | nil => exact ⟨rfl, by simp [Nat.mod_eq_of_lt hk], h0⟩
  | cons f fs ih =>
    obtain ⟨s1, s2, s3, _, _⟩ := mem_step m0 f hk
    have hP := step_P P m0 f hk h0 (hu f (List.mem_cons_self ..))
    obtain ⟨i1, i2, i3⟩ := ih (m0.step f) s3 hP (fun g hg => hu g (List.mem_cons_of_mem _ hg))
    simp only [List.foldl_cons]
    refine ⟨by rw [i1, s1], ?_, i3⟩
    rw [i2, s1, s2, List.length_cons, Nat.mod_add_mod]
    congr 1; omega

/-! ### the archive -/

theorem archive_spec {α : Type} (archive worse : List α) (popSize : Nat) (shuffle : List α → List α)
    (hs : ∀ l, (shuffle l).Perm l) (_ha : archive.length ≤ popSize) :
    (appendArchive archive worse popSize shuffle).length ≤ popSize ∧
    ∀ x ∈ appendArchive archive worse popSize shuffle, x ∈ archive ∨ x ∈ worse := by
  unfold appendArchive
  simp only
  by_cases h : popSize < (archive ++ worse).length
  · rw [if_pos h]
    refine ⟨by rw [List.length_take]; exact Nat.min_le_left _ _, ?_⟩
    intro x hx
    have h1 : x ∈ shuffle (archive ++ worse) := List.mem_of_mem_take hx
    exact List.mem_append.mp ((hs _).mem_iff.mp h1)
  · rw [if_neg h]
    exact ⟨by omega, fun x hx => List.mem_append.mp hx⟩

end TFV.Adapt
