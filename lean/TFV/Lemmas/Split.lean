/-
  TFV.Lemmas.Split — proofs for C16 (partition logic of the parallel evaluation).
-/
import TFV.Model.Split
import Mathlib.Data.Rat.Floor
import Mathlib.Tactic.Linarith
import Mathlib.Tactic.FieldSimp
import Mathlib.Tactic.Ring
import Mathlib.Tactic.Positivity

namespace TFV.Split

/-! ### npSplit covers -/

theorem piece_append {α : Type} (xs : List α) (start i : Nat) (h : start ≤ i) :
    (xs.take i).drop start ++ xs.drop i = xs.drop start := by
  have h1 : xs.drop i = (xs.drop start).drop (i - start) := by
    rw [List.drop_drop]; congr 1; omega
  rw [List.drop_take, h1, List.take_append_drop]

theorem flatten_from {α : Type} (xs : List α) (is : List Nat) :
    ∀ (start : Nat), (∀ i ∈ is, start ≤ i) → is.Pairwise (· ≤ ·) →
      (npSplitFrom xs start is).flatten = xs.drop start := by
  induction is with
  | nil => intro start _ _; simp [npSplitFrom]
  | cons i is ih =>
    intro start hs hm
    rw [List.pairwise_cons] at hm
    simp only [npSplitFrom, List.flatten_cons]
    rw [ih i hm.1 hm.2]
    exact piece_append xs start i (hs i (by simp))

theorem cover_weak {α : Type} (xs : List α) (inner : List Nat) (hmono : inner.Pairwise (· ≤ ·)) :
    (npSplit xs inner).flatten = xs := by
  unfold npSplit
  rw [flatten_from xs inner 0 (fun _ _ => Nat.zero_le _) hmono]
  simp

theorem length_from {α : Type} (xs : List α) (is : List Nat) :
    ∀ (start : Nat), (npSplitFrom xs start is).length = is.length + 1 := by
  induction is with
  | nil => intro start; simp [npSplitFrom]
  | cons i is ih => intro start; simp [npSplitFrom, ih]

theorem nonempty_from {α : Type} (xs : List α) (is : List Nat) :
    ∀ (start : Nat), start < xs.length → (∀ i ∈ is, start < i) → (∀ i ∈ is, i < xs.length) →
      is.Pairwise (· < ·) → ∀ c ∈ npSplitFrom xs start is, c ≠ [] := by
  induction is with
  | nil =>
    intro start hs _ _ _ c hc
    simp only [npSplitFrom, List.mem_singleton] at hc
    subst hc
    intro h
    have := congrArg List.length h
    simp at this; omega
  | cons i is ih =>
    intro start hs hlo hhi hm c hc
    rw [List.pairwise_cons] at hm
    simp only [npSplitFrom, List.mem_cons] at hc
    rcases hc with hc | hc
    · subst hc
      intro h
      have := congrArg List.length h
      have h1 := hlo i (by simp)
      have h2 := hhi i (by simp)
      simp at this; omega
    · exact ih i (hhi i (by simp)) hm.1 (fun j hj => hhi j (by simp [hj])) hm.2 c hc

theorem cover {α : Type} (xs : List α) (inner : List Nat)
    (hmono : inner.Pairwise (· < ·)) (hlo : ∀ i ∈ inner, 0 < i) (hhi : ∀ i ∈ inner, i < xs.length)
    (hne : xs ≠ []) :
    (npSplit xs inner).flatten = xs ∧ (∀ c ∈ npSplit xs inner, c ≠ []) ∧
    (npSplit xs inner).length = inner.length + 1 := by
  refine ⟨cover_weak xs inner (hmono.imp (fun h => Nat.le_of_lt h)), ?_, length_from xs inner 0⟩
  exact nonempty_from xs inner 0 (List.length_pos_iff.mpr hne) hlo hhi hmono

/-! ### cut points -/

theorem floor_step (a b : Rat) (h : b - a ≥ 1) : a.floor + 1 ≤ b.floor := by
  rw [Rat.le_floor_iff]
  have := Rat.floor_le a
  push_cast
  linarith

theorem floor_zero' : (0 : Rat).floor = 0 := by
  have := Rat.floor_intCast 0
  simpa using this

theorem floor_nat (p : Nat) : ((p : Rat)).floor = (p : Int) := by
  have := Rat.floor_intCast (p : Int)
  simpa using this

theorem floor_grow (r : Nat → Rat) (n : Nat) (hgap : ∀ i, i < n → r (i + 1) - r i ≥ 1)
    (i : Nat) : ∀ d, i + d ≤ n → (r i).floor + (d : Int) ≤ (r (i + d)).floor := by
  intro d
  induction d with
  | zero => intro _; simp
  | succ d ih =>
    intro h
    have h1 := ih (by omega)
    have h2 := floor_step _ _ (hgap (i + d) (by omega))
    have : i + (d + 1) = i + d + 1 := by omega
    rw [this]
    push_cast
    omega

theorem cuts_spec (r : Nat → Rat) (n p : Nat) (h0 : r 0 = 0) (hn : r n = p)
    (hgap : ∀ i, i < n → r (i + 1) - r i ≥ 1) :
    (cuts r n).Pairwise (· < ·) ∧ (cuts r n).head? = some 0 ∧ (cuts r n).getLast? = some p ∧
    (cuts r n).length = n + 1 := by
  have hf0 : (r 0).floor = 0 := by rw [h0]; exact floor_zero'
  have hnn : ∀ i, i ≤ n → (i : Int) ≤ (r i).floor := by
    intro i hi
    have := floor_grow r n hgap 0 i (by omega)
    simpa [hf0] using this
  refine ⟨?_, ?_, ?_, ?_⟩
  · unfold cuts
    rw [List.pairwise_map]
    refine List.Pairwise.imp_of_mem ?_ (List.pairwise_lt_range (n := n + 1))
    intro a b ha hb hab
    simp only [List.mem_range] at ha hb
    have h1 := floor_grow r n hgap a (b - a) (by omega)
    have h2 : a + (b - a) = b := by omega
    rw [h2] at h1
    have h3 := hnn a (by omega)
    omega
  · unfold cuts
    simp [List.range_succ_eq_map, hf0]
  · unfold cuts
    rw [List.range_succ, List.map_append]
    simp [hn, floor_nat]
  · simp [cuts]

theorem ideal_step (p n i : Nat) (hn : 1 ≤ n) :
    ideal p n (i + 1) - ideal p n i = (p : Rat) / (n : Rat) := by
  unfold ideal
  have : (n : Rat) ≠ 0 := by exact_mod_cast (by omega : n ≠ 0)
  field_simp
  push_cast
  ring

theorem linspace_gap (r : Nat → Rat) (n p : Nat) (hn : 1 ≤ n) (hnp : n < p)
    (hpert : ∀ i, i ≤ n → - (1 / (2 * (n : Rat))) ≤ r i - ideal p n i ∧ r i - ideal p n i ≤ 1 / (2 * (n : Rat))) :
    ∀ i, i < n → r (i + 1) - r i ≥ 1 := by
  intro i hi
  have h1 := (hpert (i + 1) (by omega)).1
  have h2 := (hpert i (by omega)).2
  have h3 := ideal_step p n i hn
  have hnpos : (0 : Rat) < (n : Rat) := by exact_mod_cast (by omega : 0 < n)
  have hp : (n : Rat) + 1 ≤ (p : Rat) := by exact_mod_cast hnp
  have h4 : (1 : Rat) / (2 * (n : Rat)) + 1 / (2 * (n : Rat)) = 1 / (n : Rat) := by
    field_simp; ring
  have h5 : (p : Rat) / (n : Rat) - 1 / (n : Rat) ≥ 1 := by
    rw [ge_iff_le, ← sub_div, le_div_iff₀ hnpos]
    linarith
  linarith

theorem linspace_exact (n : Nat) (hn : 1 ≤ n) : ∀ i, i < n → ideal n n (i + 1) - ideal n n i ≥ 1 := by
  intro i _
  rw [ideal_step n n i hn]
  have : (n : Rat) ≠ 0 := by exact_mod_cast (by omega : n ≠ 0)
  rw [div_self this]

/-! ### the whole `_split_population` -/

theorem inner_mem (cs : List Nat) (x : Nat) (hx : x ∈ inner cs) :
    ∃ k, 0 < k ∧ k + 1 < cs.length ∧ cs[k]? = some x := by
  unfold inner at hx
  obtain ⟨k, hk, h⟩ := List.mem_iff_getElem.mp hx
  simp at hk
  refine ⟨k + 1, by omega, by omega, ?_⟩
  simp [List.getElem_dropLast] at h
  rw [← h]
  simp

theorem split_spec {α : Type} (xs : List α) (r : Nat → Rat) (n : Nat) (hn : 1 ≤ n) (hne : xs ≠ [])
    (h0 : r 0 = 0) (hlast : r n = xs.length) (hgap : ∀ i, i < n → r (i + 1) - r i ≥ 1) :
    (split xs (cuts r n)).flatten = xs ∧ (∀ c ∈ split xs (cuts r n), c ≠ []) ∧
    (split xs (cuts r n)).length = n := by
  obtain ⟨hpw, hhead, hlst, hlen⟩ := cuts_spec r n xs.length h0 hlast hgap
  have hsorted : ∀ (a b : Nat) (ha : a < (cuts r n).length) (hb : b < (cuts r n).length),
      a < b → (cuts r n)[a] < (cuts r n)[b] := by
    intro a b ha hb hab
    exact List.pairwise_iff_getElem.mp hpw a b ha hb hab
  have hz : (cuts r n)[0]'(by omega) = 0 := by
    have := hhead
    rw [List.head?_eq_getElem?] at this
    simpa [List.getElem?_eq_getElem (show 0 < (cuts r n).length by omega)] using this
  have hl : (cuts r n)[n]'(by omega) = xs.length := by
    have := hlst
    rw [List.getLast?_eq_getElem?] at this
    simpa [hlen, List.getElem?_eq_getElem (show n < (cuts r n).length by omega)] using this
  have hinner_pw : (inner (cuts r n)).Pairwise (· < ·) := by
    unfold inner
    exact (hpw.sublist (List.drop_sublist 1 _)).sublist (List.dropLast_sublist _)
  have hlo : ∀ i ∈ inner (cuts r n), 0 < i := by
    intro x hx
    obtain ⟨k, hk0, hk1, hk⟩ := inner_mem _ x hx
    have hk' : k < (cuts r n).length := by omega
    rw [List.getElem?_eq_getElem hk'] at hk
    have := hsorted 0 k (by omega) hk' hk0
    simp at hk
    omega
  have hhi : ∀ i ∈ inner (cuts r n), i < xs.length := by
    intro x hx
    obtain ⟨k, hk0, hk1, hk⟩ := inner_mem _ x hx
    have hk' : k < (cuts r n).length := by omega
    rw [List.getElem?_eq_getElem hk'] at hk
    have := hsorted k n hk' (by omega) (by omega)
    simp at hk
    omega
  obtain ⟨c1, c2, c3⟩ := cover xs (inner (cuts r n)) hinner_pw hlo hhi hne
  refine ⟨c1, c2, ?_⟩
  unfold split
  rw [c3]
  simp [inner, hlen]
  omega

/-! ### n_jobs -/

theorem normJobs_spec (n : Int) (cpu pop : Nat) (hpop : 1 ≤ pop) :
    (normJobs n cpu pop = none ↔ n = 0) ∧
    (∀ k, normJobs n cpu pop = some k → 1 ≤ k ∧ k ≤ pop) ∧
    (∀ k, normJobs n cpu pop = some k → 0 < n → k = min n.toNat pop) := by
  unfold normJobs
  refine ⟨?_, ?_, ?_⟩
  · split
    · simp; omega
    · split
      · simp [*]
      · split <;> simp [*]
  · intro k hk
    split at hk
    · simp at hk; omega
    · split at hk
      · simp at hk
      · split at hk <;> simp at hk <;> omega
  · intro k hk hn
    split at hk
    · omega
    · split at hk
      · omega
      · split at hk <;> simp at hk <;> omega

/-! ### reassembly -/

theorem mem_results {α β : Type} (g : α → β) (chunks : List (List α)) (r : Nat × List β)
    (hr : r ∈ results g chunks) : r.2 = (chunks[r.1]?.getD []).map g := by
  unfold results at hr
  obtain ⟨i, hi, h⟩ := List.mem_iff_getElem.mp hr
  simp at hi
  simp at h
  subst h
  simp [hi]

theorem results_mem {α β : Type} (g : α → β) (chunks : List (List α)) (i : Nat)
    (hi : i < chunks.length) : (i, (chunks[i]).map g) ∈ results g chunks := by
  unfold results
  refine List.mem_iff_getElem.mpr ⟨i, by simpa using hi, ?_⟩
  simp

theorem find_done {α β : Type} (g : α → β) (chunks : List (List α))
    (done : List (Nat × List β)) (hperm : done.Perm (results g chunks)) (i : Nat)
    (hi : i < chunks.length) :
    ∃ r, done.find? (fun r => r.1 == i) = some r ∧ r.2 = (chunks[i]?.getD []).map g := by
  cases hf : done.find? (fun r => r.1 == i) with
  | none =>
    exfalso
    have hm : (i, (chunks[i]).map g) ∈ done := hperm.mem_iff.mpr (results_mem g chunks i hi)
    have := List.find?_eq_none.mp hf _ hm
    simp at this
  | some r =>
    have h1 : r.1 = i := by simpa using List.find?_some hf
    have h2 : r ∈ done := List.mem_of_find?_eq_some hf
    have h3 := mem_results g chunks r (hperm.mem_iff.mp h2)
    exact ⟨r, rfl, by simp only [h3, h1]⟩

theorem flatMap_range_get {β : Type} (l : List (List β)) :
    (List.range l.length).flatMap (fun i => l[i]?.getD []) = l.flatten := by
  rw [List.flatMap_def]
  congr 1
  apply List.ext_getElem
  · simp
  · intro i h1 h2
    simp at h1
    simp [h1]

theorem rowwise {α β : Type} (g : α → β) (xs : List α) (chunks : List (List α))
    (hc : chunks.flatten = xs) (done : List (Nat × List β)) (hperm : done.Perm (results g chunks)) :
    assemble done chunks.length = xs.map g := by
  unfold assemble
  refine Eq.trans (List.flatMap_congr
    (g := fun i => ((chunks.map (List.map g))[i]?.getD [])) ?_) ?_
  · intro i hi
    have hi' : i < chunks.length := by simpa using hi
    obtain ⟨r, hr, hr2⟩ := find_done g chunks done hperm i hi'
    simp only [hr, hr2]
    simp [hi']
  · have := flatMap_range_get (chunks.map (List.map g))
    simp only [List.length_map] at this
    rw [this, ← hc, List.map_flatten]

end TFV.Split
