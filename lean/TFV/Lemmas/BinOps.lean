/-
  TFV.Lemmas.BinOps — proofs for the C06 binary GA operator contracts.
-/
import TFV.Model.BinOps

namespace TFV.BinOps

/-! ### generic helpers -/

theorem getD_eq_getElem {α : Type} (l : List α) (i : Nat) (d : α) (h : i < l.length) :
    l.getD i d = l[i] := by
  simp [List.getD, h]

theorem len_aligned (ps : List Ind) (n : Nat) (hal : ps ≠ [] ∧ ∀ p ∈ ps, p.length = n) :
    len ps = n := by
  obtain ⟨hne, h⟩ := hal
  cases ps with
  | nil => contradiction
  | cons a t => simpa [len] using h a (by simp)

/-- a locus-wise built child: length and entries -/
theorem rangeMap_length (n : Nat) (f : Nat → Gene) : ((List.range n).map f).length = n := by
  simp

theorem rangeMap_getD (n : Nat) (f : Nat → Gene) (i : Nat) (hi : i < n) :
    ((List.range n).map f).getD i 0 = f i := by
  rw [getD_eq_getElem _ _ _ (by simpa using hi)]
  simp

theorem gene_mem (ps : List Ind) (n : Nat) (h : ∀ p ∈ ps, p.length = n) (p i : Nat)
    (hp : p < ps.length) (hi : i < n) : gene ps p i ∈ ps[p] := by
  have hlen : ps[p].length = n := h _ (List.getElem_mem hp)
  unfold gene
  rw [getD_eq_getElem ps p [] hp, getD_eq_getElem _ i 0 (by omega)]
  exact List.getElem_mem _

theorem tourWinner_cases (fitness : List Int) (pr : Nat × Nat) :
    tourWinner fitness pr = pr.1 ∨ tourWinner fitness pr = pr.2 := by
  unfold tourWinner
  split
  · exact Or.inr rfl
  · exact Or.inl rfl

/-! ### crossovers -/

theorem cross_parentage (k : XKind) (ps : List Ind) (fitness : List Int) (c : XChoice) (n : Nat)
    (hal : ps ≠ [] ∧ ∀ p ∈ ps, p.length = n) (h2 : k ≠ .empty → 2 ≤ ps.length)
    (hok : c.ok k ps.length n) :
    (cross k ps fitness c).length = n ∧
    ∀ i, i < n → ∃ p, p < ps.length ∧ (cross k ps fitness c).getD i 0 = gene ps p i := by
  have hlen := len_aligned ps n hal
  cases k with
  | empty =>
    obtain ⟨hne, h⟩ := hal
    cases ps with
    | nil => contradiction
    | cons a t =>
      refine ⟨by simpa [cross, emptyX] using h a (by simp), ?_⟩
      intro i _
      exact ⟨0, by simp, by simp [cross, emptyX, gene]⟩
  | onePoint =>
    have h2' : 2 ≤ ps.length := h2 (by simp)
    refine ⟨by simp [cross, onePoint, hlen], ?_⟩
    intro i hi
    simp only [cross, onePoint, hlen]
    rw [rangeMap_getD n _ i hi]
    by_cases hc : c.coin = true <;> by_cases hcut : i > c.cut
    · exact ⟨1, by omega, by simp [hc, hcut]⟩
    · exact ⟨0, by omega, by simp [hc, hcut]⟩
    · exact ⟨0, by omega, by simp [hc, hcut]⟩
    · exact ⟨1, by omega, by simp [hc, hcut]⟩
  | twoPoint =>
    have h2' : 2 ≤ ps.length := h2 (by simp)
    refine ⟨by simp [cross, twoPoint, hlen], ?_⟩
    intro i hi
    simp only [cross, twoPoint, hlen]
    rw [rangeMap_getD n _ i hi]
    by_cases hc : c.coin = true <;> by_cases hcut : min c.cut c.c1 ≤ i ∧ i ≤ max c.cut c.c1
    · exact ⟨1, by omega, by simp [hc, hcut]⟩
    · exact ⟨0, by omega, by simp [hc, hcut]⟩
    · exact ⟨0, by omega, by simp [hc, hcut]⟩
    · exact ⟨1, by omega, by simp [hc, hcut]⟩
  | uniform =>
    obtain ⟨hcl, hcm⟩ := hok
    refine ⟨by simp [cross, uniformX, hlen], ?_⟩
    intro i hi
    simp only [cross, uniformX, hlen]
    rw [rangeMap_getD n _ i hi]
    refine ⟨c.choice.getD i 0, ?_, rfl⟩
    rw [getD_eq_getElem _ _ _ (by omega)]
    exact hcm _ (List.getElem_mem _)
  | uniformTour =>
    obtain ⟨hcl, hcm⟩ := hok
    refine ⟨by simp [cross, uniformTour, hlen], ?_⟩
    intro i hi
    simp only [cross, uniformTour, hlen]
    rw [rangeMap_getD n _ i hi]
    refine ⟨_, ?_, rfl⟩
    have hmem : c.pairs.getD i (0, 0) ∈ c.pairs := by
      rw [getD_eq_getElem _ _ _ (by omega)]
      exact List.getElem_mem _
    have := hcm _ hmem
    rcases tourWinner_cases fitness (c.pairs.getD i (0, 0)) with h | h <;> rw [h] <;> omega

theorem cross_binary (k : XKind) (ps : List Ind) (fitness : List Int) (c : XChoice) (n : Nat)
    (hal : ps ≠ [] ∧ ∀ p ∈ ps, p.length = n) (h2 : k ≠ .empty → 2 ≤ ps.length)
    (hok : c.ok k ps.length n) (hb : ∀ p ∈ ps, Binary p) : Binary (cross k ps fitness c) := by
  obtain ⟨hl, hp⟩ := cross_parentage k ps fitness c n hal h2 hok
  intro g hg
  obtain ⟨i, hi, rfl⟩ := List.getElem_of_mem hg
  obtain ⟨p, hpl, hpe⟩ := hp i (by omega)
  rw [getD_eq_getElem _ _ _ hi] at hpe
  rw [hpe]
  exact hb _ (List.getElem_mem hpl) _ (gene_mem ps n hal.2 p i hpl (by omega))

theorem emptyX_spec (ps : List Ind) (p : Ind) (h : ps.head? = some p) : emptyX ps = p := by
  cases ps with
  | nil => simp at h
  | cons a t => simpa [emptyX] using h

theorem gene_pair0 (a b : Ind) (i : Nat) (hi : i < a.length) : gene [a, b] 0 i = a[i] := by
  simp [gene, hi]

theorem gene_pair1 (a b : Ind) (i : Nat) (hi : i < b.length) : gene [a, b] 1 i = b[i] := by
  simp [gene, hi]

theorem onePoint_spec (a b : Ind) (cut : Nat) (hl : a.length = b.length) :
    onePoint [a, b] cut true = a.take (cut + 1) ++ b.drop (cut + 1) ∧
    onePoint [a, b] cut false = b.take (cut + 1) ++ a.drop (cut + 1) := by
  constructor
  · apply List.ext_getElem
    · simp [onePoint, len]; omega
    · intro i h1 h2
      have hi : i < a.length := by simpa [onePoint, len] using h1
      simp only [onePoint, len, List.getElem_map, List.getElem_range, if_true]
      by_cases hc : i > cut
      · rw [if_pos hc, gene_pair1 a b i (by omega), List.getElem_append_right (by simp; omega)]
        simp only [List.getElem_drop, List.length_take]
        congr 1; omega
      · rw [if_neg hc, gene_pair0 a b i hi, List.getElem_append_left (by simp; omega)]
        simp
  · apply List.ext_getElem
    · simp [onePoint, len]; omega
    · intro i h1 h2
      have hi : i < a.length := by simpa [onePoint, len] using h1
      simp only [onePoint, len, List.getElem_map, List.getElem_range, Bool.false_eq_true, if_false]
      by_cases hc : i > cut
      · rw [if_pos hc, gene_pair0 a b i hi, List.getElem_append_right (by simp; omega)]
        simp only [List.getElem_drop, List.length_take]
        congr 1; omega
      · rw [if_neg hc, gene_pair1 a b i (by omega), List.getElem_append_left (by simp; omega)]
        simp

theorem onePoint_complete (a b : Ind) (hl : a.length = b.length) (hne : a ≠ []) :
    (∀ c, c < a.length → ∃ cut coin, cut < a.length ∧
        onePoint [a, b] cut coin = a.take (c + 1) ++ b.drop (c + 1)) ∧
    (∃ cut coin, cut < a.length ∧ onePoint [a, b] cut coin = a) ∧
    (∃ cut coin, cut < a.length ∧ onePoint [a, b] cut coin = b) := by
  have hpos : 0 < a.length := List.length_pos_iff.mpr hne
  have hk : a.length - 1 + 1 = a.length := by omega
  refine ⟨fun c hc => ⟨c, true, hc, (onePoint_spec a b c hl).1⟩, ?_, ?_⟩
  · refine ⟨a.length - 1, true, by omega, ?_⟩
    rw [(onePoint_spec a b _ hl).1, hk, List.take_length, hl, List.drop_length, List.append_nil]
  · refine ⟨a.length - 1, false, by omega, ?_⟩
    rw [(onePoint_spec a b _ hl).2, hk, List.drop_length, hl, List.take_length, List.append_nil]

theorem twoPoint_spec (a b : Ind) (c0 c1 : Nat) (hl : a.length = b.length) (hc : c0 ≤ c1)
    (h1 : c1 < a.length) :
    twoPoint [a, b] c0 c1 true = a.take c0 ++ (b.take (c1 + 1)).drop c0 ++ a.drop (c1 + 1) ∧
    twoPoint [a, b] c1 c0 true = twoPoint [a, b] c0 c1 true ∧
    twoPoint [a, b] c0 c1 false = b.take c0 ++ (a.take (c1 + 1)).drop c0 ++ b.drop (c1 + 1) := by
  have hmin : min c0 c1 = c0 := Nat.min_eq_left hc
  have hmax : max c0 c1 = c1 := Nat.max_eq_right hc
  refine ⟨?_, ?_, ?_⟩
  · apply List.ext_getElem
    · simp [twoPoint, len]; omega
    · intro i h1' h2'
      have hi : i < a.length := by simpa [twoPoint, len] using h1'
      simp only [twoPoint, len, List.getElem_map, List.getElem_range, if_true, hmin, hmax]
      by_cases hlo : c0 ≤ i
      · by_cases hhi : i ≤ c1
        · rw [if_pos ⟨hlo, hhi⟩, gene_pair1 a b i (by omega),
            List.getElem_append_left (by simp; omega),
            List.getElem_append_right (by simp; omega)]
          simp only [List.getElem_drop, List.getElem_take, List.length_take]
          congr 1; omega
        · rw [if_neg (by omega), gene_pair0 a b i hi,
            List.getElem_append_right (by simp; omega)]
          simp only [List.getElem_drop, List.length_append, List.length_take, List.length_drop]
          congr 1; omega
      · rw [if_neg (by omega), gene_pair0 a b i hi,
          List.getElem_append_left (by simp; omega),
          List.getElem_append_left (by simp; omega)]
        simp
  · simp [twoPoint, Nat.min_comm c1 c0, Nat.max_comm c1 c0]
  · apply List.ext_getElem
    · simp [twoPoint, len]; omega
    · intro i h1' h2'
      have hi : i < a.length := by simpa [twoPoint, len] using h1'
      simp only [twoPoint, len, List.getElem_map, List.getElem_range, Bool.false_eq_true,
        if_false, hmin, hmax]
      by_cases hlo : c0 ≤ i
      · by_cases hhi : i ≤ c1
        · rw [if_pos ⟨hlo, hhi⟩, gene_pair0 a b i hi,
            List.getElem_append_left (by simp; omega),
            List.getElem_append_right (by simp; omega)]
          simp only [List.getElem_drop, List.getElem_take, List.length_take]
          congr 1; omega
        · rw [if_neg (by omega), gene_pair1 a b i (by omega),
            List.getElem_append_right (by simp; omega)]
          simp only [List.getElem_drop, List.length_append, List.length_take, List.length_drop]
          congr 1; omega
      · rw [if_neg (by omega), gene_pair1 a b i (by omega),
          List.getElem_append_left (by simp; omega),
          List.getElem_append_left (by simp; omega)]
        simp

theorem uniform_complete (ps : List Ind) (n : Nat) (hal : ps ≠ [] ∧ ∀ p ∈ ps, p.length = n)
    (f : Nat → Nat) (hf : ∀ i, i < n → f i < ps.length) :
    ∃ choice, choice.length = n ∧ (∀ j ∈ choice, j < ps.length) ∧
      ∀ i, i < n → (uniformX ps choice).getD i 0 = gene ps (f i) i := by
  have hlen := len_aligned ps n hal
  refine ⟨(List.range n).map f, by simp, ?_, ?_⟩
  · intro j hj
    obtain ⟨i, hi, rfl⟩ := List.mem_map.mp hj
    exact hf i (List.mem_range.mp hi)
  · intro i hi
    simp only [uniformX, hlen]
    rw [rangeMap_getD n _ i hi, getD_eq_getElem _ _ _ (by simpa using hi)]
    simp

theorem uniformTour_spec (ps : List Ind) (fitness : List Int) (pairs : List (Nat × Nat)) (n : Nat)
    (hal : ps ≠ [] ∧ ∀ p ∈ ps, p.length = n) (i : Nat) (hi : i < n) :
    (uniformTour ps fitness pairs).getD i 0 = gene ps (tourWinner fitness (pairs.getD i (0, 0))) i ∧
    (∀ p, tourWinner fitness (p, p) = p) ∧
    (∀ pr : Nat × Nat, (tourWinner fitness pr = pr.1 ∨ tourWinner fitness pr = pr.2) ∧
       fitness.getD pr.1 0 ≤ fitness.getD (tourWinner fitness pr) 0 ∧
       fitness.getD pr.2 0 ≤ fitness.getD (tourWinner fitness pr) 0) := by
  have hlen := len_aligned ps n hal
  refine ⟨?_, ?_, ?_⟩
  · simp only [uniformTour, hlen]
    exact rangeMap_getD n _ i hi
  · intro p; simp [tourWinner]
  · intro pr
    refine ⟨tourWinner_cases fitness pr, ?_⟩
    unfold tourWinner
    split
    · constructor <;> omega
    · constructor <;> omega

/-! ### binomial crossover -/

theorem binomial_spec {α : Type} (x m : List α) (mask : List Bool) (j : Nat)
    (hl : x.length = m.length) :
    (binomial x m mask j).length = x.length ∧
    (∀ i (hi : i < x.length), (binomial x m mask j)[i]? =
        some (if mask.getD i false || i == j then m[i]'(hl ▸ hi) else x[i])) := by
  constructor
  · simp [binomial, hl]
  · intro i hi
    have hm : i < m.length := hl ▸ hi
    simp only [binomial, List.getElem?_mapIdx]
    rw [List.getElem?_eq_getElem (by simp; omega)]
    simp only [List.getElem_zip, Option.map_some]

theorem binomial_extremes {α : Type} (x m : List α) (j : Nat) (hl : x.length = m.length)
    (_hj : j < x.length) :
    binomial x m (List.replicate x.length true) j = m ∧
    (∀ i (hi : i < x.length), (binomial x m (List.replicate x.length false) j)[i]? =
        some (if i = j then m[i]'(hl ▸ hi) else x[i])) := by
  constructor
  · apply List.ext_getElem?
    intro i
    by_cases hi : i < x.length
    · rw [(binomial_spec x m _ j hl).2 i hi, List.getElem?_eq_getElem (hl ▸ hi)]
      simp [List.getD, hi]
    · have h1 : (binomial x m (List.replicate x.length true) j).length ≤ i := by
        rw [(binomial_spec x m _ j hl).1]; omega
      rw [List.getElem?_eq_none h1, List.getElem?_eq_none (by omega)]
  · intro i hi
    rw [(binomial_spec x m _ j hl).2 i hi]
    simp [List.getD, hi]

/-! ### flip mutation -/

theorem flip_getD (x : Ind) (mask : List Bool) (i : Nat) (hi : i < x.length) :
    (flip x mask).getD i 0 = (if mask.getD i false then 1 - x[i] else x[i]) := by
  rw [getD_eq_getElem _ _ _ (by simpa [flip] using hi)]
  simp [flip]

theorem flip_binary (x : Ind) (mask : List Bool) (hb : Binary x) : Binary (flip x mask) := by
  intro g hg
  obtain ⟨i, hi, rfl⟩ := List.getElem_of_mem hg
  have hi' : i < x.length := by simpa [flip] using hi
  have := flip_getD x mask i hi'
  rw [getD_eq_getElem _ _ _ hi] at this
  rw [this]
  have hx := hb x[i] (List.getElem_mem _)
  revert hx
  generalize x[i] = v
  intro hx
  rcases hx with rfl | rfl <;> split <;> simp

theorem flip_spec (x : Ind) (mask : List Bool) (hb : Binary x) :
    (flip x mask).length = x.length ∧ Binary (flip x mask) ∧
    ∀ i (hi : i < x.length), (flip x mask).getD i 0 = (if mask.getD i false then 1 - x[i] else x[i]) :=
  ⟨by simp [flip], flip_binary x mask hb, flip_getD x mask⟩

theorem flip_rates (us : List Rat) (hu : ∀ u ∈ us, 0 ≤ u ∧ u < 1) (rate : Rat) :
    (rate ≤ 0 → ∀ b ∈ flipMask us rate, b = false) ∧
    (1 ≤ rate → ∀ b ∈ flipMask us rate, b = true) := by
  constructor
  · intro hr b hb
    obtain ⟨u, hum, rfl⟩ := List.mem_map.mp hb
    have := (hu u hum).1
    simp only [decide_eq_false_iff_not, Rat.not_lt]
    exact Rat.le_trans hr this
  · intro hr b hb
    obtain ⟨u, hum, rfl⟩ := List.mem_map.mp hb
    have := (hu u hum).2
    simp only [decide_eq_true_eq]
    exact Std.lt_of_lt_of_le this hr

/-! ### whole variation steps -/

theorem newIndivid_closed (pop : List Ind) (n : Nat) (hpop : ∀ p ∈ pop, p.length = n ∧ Binary p)
    (selected : List Nat) (hsel : ∀ i ∈ selected, i < pop.length) (hne : selected ≠ [])
    (k : XKind) (h2 : k ≠ .empty → 2 ≤ selected.length) (fitness : List Int) (c : XChoice)
    (hok : c.ok k selected.length n) (mask : List Bool) :
    (newIndivid pop selected k fitness c mask).length = n ∧
    Binary (newIndivid pop selected k fitness c mask) := by
  have hmem : ∀ p ∈ selected.map (fun i => pop.getD i []), p.length = n ∧ Binary p := by
    intro p hp
    obtain ⟨i, hi, rfl⟩ := List.mem_map.mp hp
    have := hsel i hi
    rw [getD_eq_getElem _ _ _ this]
    exact hpop _ (List.getElem_mem _)
  have hal : selected.map (fun i => pop.getD i []) ≠ [] ∧
      ∀ p ∈ selected.map (fun i => pop.getD i []), p.length = n :=
    ⟨by simpa using hne, fun p hp => (hmem p hp).1⟩
  have hlen : (selected.map (fun i => pop.getD i [])).length = selected.length := by simp
  have h2' : k ≠ .empty → 2 ≤ (selected.map (fun i => pop.getD i [])).length := by
    rw [hlen]; exact h2
  have hok' : c.ok k (selected.map (fun i => pop.getD i [])).length n := by
    rw [hlen]; exact hok
  have hp := cross_parentage k _ (selected.map fun i => fitness.getD i 0) c n hal h2' hok'
  have hbn := cross_binary k _ (selected.map fun i => fitness.getD i 0) c n hal h2' hok'
    (fun p hp => (hmem p hp).2)
  have hf := flip_spec _ mask hbn
  exact ⟨by unfold newIndivid; rw [hf.1, hp.1], hf.2.1⟩

theorem binomial_binary (x m : Ind) (mask : List Bool) (j : Nat) (hl : x.length = m.length)
    (hx : Binary x) (hm : Binary m) : Binary (binomial x m mask j) := by
  intro g hg
  obtain ⟨i, hi, rfl⟩ := List.getElem_of_mem hg
  have hsp := binomial_spec x m mask j hl
  have hi' : i < x.length := by rw [← hsp.1]; exact hi
  have h := hsp.2 i hi'
  rw [List.getElem?_eq_getElem hi] at h
  have h' := Option.some.inj h
  rw [h']
  split
  · exact hm _ (List.getElem_mem _)
  · exact hx _ (List.getElem_mem _)

theorem shaga_closed (x second : Ind) (n : Nat) (hx : x.length = n ∧ Binary x)
    (hs : second.length = n ∧ Binary second) (crMask : List Bool) (j : Nat) (mutMask : List Bool) :
    (shagaIndivid x second crMask j mutMask).length = n ∧
    Binary (shagaIndivid x second crMask j mutMask) := by
  have hl : x.length = second.length := by rw [hx.1, hs.1]
  have hb := binomial_binary x second crMask j hl hx.2 hs.2
  have hf := flip_spec _ mutMask hb
  exact ⟨by unfold shagaIndivid; rw [hf.1, (binomial_spec x second crMask j hl).1, hx.1], hf.2.1⟩

end TFV.BinOps
