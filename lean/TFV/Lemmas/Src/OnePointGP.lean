/-
  TFV.Lemmas.Src.OnePointGP — `Tree.get_common_region` (one other tree) and the Python-level GP operator
  `one_point_crossoverGP` as translated from /repo equal `commonRegion2` and `onePointX` of the model.
-/
import TFV.Generated.Src.Tree_get_common_region
import TFV.Generated.Src.one_point_crossoverGP
import TFV.Model.Tree
import TFV.Lemmas.Src.TreeMethods
import TFV.Lemmas.Src.CommonRegion
import TFV.Lemmas.Src.StandardX
import TFV.Lemmas.TreeCR

namespace TFV.SrcTie
open TFV.Generated.Src TFV.Tree TFV.Imp

/-- the four index arrays the kernel returns -/
def crRows (cr : CR2) : List (List Int) := [cr.c1, cr.c2, cr.b1, cr.b2].map fun l => l.map Int.ofNat

theorem src_tree_get_common_region (t1 t2 : RT) :
    Tree_get_common_region (symsI (flat t1)) (arsI (flat t1)) (symsI (flat t2)) (arsI (flat t2)) =
      some (crRows (commonRegion2 (arities (flat t1)) (arities (flat t2)))) := by
  have h := src_common_region_two_trees t1 t2
  simp only [Tree_get_common_region, arsI, h]
  simp [crRows]

theorem c2_length (t u : RT) :
    (commonRegion2 (arities (flat t)) (arities (flat u))).c2.length =
      (commonRegion2 (arities (flat t)) (arities (flat u))).c1.length := by
  rw [commonRegion2_flat]; simp [cr2add]

theorem src_one_point_crossoverGP (ta tb : RT) (fit rank : List Int) (maxLevel key u : Int) (urest : List Int)
    (k : Nat) (nrest : List Int)
    (hk : k < (commonRegion2 (arities (flat ta)) (arities (flat tb))).c1.length) :
    one_point_crossoverGP (symsI (flat ta)) (arsI (flat ta)) (symsI (flat tb)) (arsI (flat tb)) fit rank maxLevel
        key (u :: urest) ((k : Int) :: nrest) =
      some [symsI (onePointX (flat ta) (flat tb) k (decide (u < key))),
            arsI (onePointX (flat ta) (flat tb) k (decide (u < key)))] := by
  have hcr := src_tree_get_common_region ta tb
  obtain ⟨hp, hq, -⟩ := commonRegion2_levels (flat ta) (flat tb) (wfAux_flat_self ta) (wfAux_flat_self tb) k hk
  have hk2 := c2_length ta tb
  skip
  generalize hr : commonRegion2 (arities (flat ta)) (arities (flat tb)) = r at *
  have g0 : ∀ (x : Int) (l : List Int), geti (x :: l) ((0 : Nat) : Int) = x := fun _ _ => rfl
  have r0 : ∀ (x y : List Int), getrow [x, y] (0 : Int) = x := fun _ _ => rfl
  have r1 : ∀ (x y : List Int), getrow [x, y] (1 : Int) = y := fun _ _ => rfl
  have i0 : ∀ (x y : List Int), inbM [x, y] (0 : Int) = true := fun _ _ => by simp [inbM]
  have i1 : ∀ (x y : List Int), inbM [x, y] (1 : Int) = true := fun _ _ => by simp [inbM]
  have b1 : inb (r.c1.map Int.ofNat) (k : Int) = true := by simp [inb]; omega
  have b2 : inb (r.c2.map Int.ofNat) (k : Int) = true := by simp [inb]; omega
  have e1 : geti (r.c1.map Int.ofNat) (k : Int) = ((r.c1.getD k 0 : Nat) : Int) := by
    simp [geti, List.getD_eq_getElem?_getD, hk]
  have e2 : geti (r.c2.map Int.ofNat) (k : Int) = ((r.c2.getD k 0 : Nat) : Int) := by
    have : k < r.c2.length := by omega
    simp [geti, List.getD_eq_getElem?_getD, this]
  unfold onePointX
  simp only [hr]
  generalize r.c1.getD k 0 = p at *
  generalize r.c2.getD k 0 = q at *
  obtain ⟨s1, c1, -⟩ := half ta tb p q hp hq
  obtain ⟨s2, c2, -⟩ := half tb ta q p hq hp
  unfold one_point_crossoverGP
  simp only [hcr, hr, crRows, List.map_cons, List.map_nil, List.take, List.length_cons, List.length_nil, g0, r0, r1, i0, i1,
    b1, b2, e1, e2]
  by_cases hc : u < key
  · simp [hc, s1, c1, r0, r1, hr]
  · simp [hc, s2, c2, r0, r1, hr]

end TFV.SrcTie
