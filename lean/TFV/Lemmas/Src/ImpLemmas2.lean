/-
  TFV.Lemmas.Src.ImpLemmas2 — further generic facts about the imperative vocabulary of
  TFV.Model.Imp used by the source-tie lemma files of the second batch of kernels
  (pointwise-overwrite loops, range tests, draw streams).
-/
import TFV.Lemmas.Src.ImpLemmas

namespace TFV.Imp

/-! ### range tests -/

theorem inb_ofNat (a : List Int) (k : Nat) : inb a (k : Int) = decide (k < a.length) := by
  simp only [inb]
  by_cases h : k < a.length
  · simp only [h, decide_true, Bool.and_eq_true, decide_eq_true_eq]; omega
  · simp only [h, decide_false, Bool.and_eq_false_iff, decide_eq_false_iff_not]; omega

theorem inb_of_lt (a : List Int) (k : Nat) (h : k < a.length) : inb a (k : Int) = true := by
  simp [inb_ofNat, h]

theorem inbM_ofNat (a : List (List Int)) (k : Nat) : inbM a (k : Int) = decide (k < a.length) := by
  simp only [inbM]
  by_cases h : k < a.length
  · simp only [h, decide_true, Bool.and_eq_true, decide_eq_true_eq]; omega
  · simp only [h, decide_false, Bool.and_eq_false_iff, decide_eq_false_iff_not]; omega

theorem inbM_of_lt (a : List (List Int)) (k : Nat) (h : k < a.length) : inbM a (k : Int) = true := by
  simp [inbM_ofNat, h]

theorem getrow_ofNat (m : List (List Int)) (k : Nat) : getrow m (k : Int) = m.getD k [] := by
  simp [getrow]

theorem getD_map_ofNat (a : List Nat) (i : Nat) :
    (a.map Int.ofNat).getD i 0 = ((a.getD i 0 : Nat) : Int) := by
  rw [← geti_ofNat, geti_map_ofNat]

theorem getD_mem_nat (ch : List Nat) (k : Nat) (hk : k < ch.length) : ch.getD k 0 ∈ ch := by
  simp [List.getD_eq_getElem?_getD, List.getElem?_eq_getElem hk]

theorem getrow_zero (ps : List (List Int)) : getrow ps (0 : Int) = ps.headD [] := by
  cases ps <;> simp [getrow]

theorem getD_row_mem (ps : List (List Int)) (c : Nat) (hc : c < ps.length) : ps.getD c [] ∈ ps := by
  simp [List.getD_eq_getElem?_getD, List.getElem?_eq_getElem hc]

/-! ### "first `k` positions done, the rest original": the invariant of a pointwise loop -/

/-- overwriting position `k` of "first `k` done, rest original" gives "first `k+1` done" -/
theorem take_drop_set (A x : List Int) (k : Nat) (hk : k < x.length) (hA : A.length = x.length)
    (v : Int) (hv : v = A.getD k 0) :
    (A.take k ++ x.drop k).set k v = A.take (k + 1) ++ x.drop (k + 1) := by
  apply List.ext_getElem?
  intro j
  have hkA : k < A.length := by omega
  subst hv
  grind

/-- leaving position `k` alone when it already has its final value -/
theorem take_drop_keep (A x : List Int) (k : Nat) (hk : k < x.length) (hA : A.length = x.length)
    (hv : x.getD k 0 = A.getD k 0) :
    A.take k ++ x.drop k = A.take (k + 1) ++ x.drop (k + 1) := by
  apply List.ext_getElem?
  intro j
  have hkA : k < A.length := by omega
  grind

theorem take_drop_getD (A x : List Int) (k : Nat) (hA : A.length = x.length) :
    (A.take k ++ x.drop k).getD k 0 = x.getD k 0 := by
  grind

theorem take_drop_length (A x : List Int) (k : Nat) (hA : A.length = x.length) :
    (A.take k ++ x.drop k).length = x.length := by
  simp only [List.length_append, List.length_take, List.length_drop]; omega

/-! ### forRange: invariant with the next state named by an equation -/

/-- as `forRange_elim`, but the step hypothesis is split into the skipped case (`stop` holds) and
    the executed case, in which the next state `s'` is given by the equation `s' = body i s`: the
    (large) loop body stays out of the goal while the case analysis is done -/
theorem forRange_elim2 {σ : Type} (P : Nat → σ → Prop) (Q : σ → Prop) (lo hi : Int)
    (stop : σ → Bool) (body : Int → σ → σ) (s : σ) (h0 : P 0 s)
    (hstop : ∀ k s, k < (hi - lo).toNat → P k s → stop s = true → P (k + 1) s)
    (hstep : ∀ k s s', k < (hi - lo).toNat → P k s → stop s = false →
      s' = body (lo + (k : Int)) s → P (k + 1) s')
    (hfin : ∀ s, P (hi - lo).toNat s → Q s) :
    Q (forRange lo hi stop body s) := by
  refine forRange_elim P Q lo hi stop body s h0 ?_ hfin
  intro k s hk hP
  by_cases hs : stop s = true
  · rw [if_pos hs]; exact hstop k s hk hP hs
  · rw [if_neg hs]; exact hstep k s _ hk hP (by simpa using hs) rfl

/-! ### whileN: simulation by an abstract state with a decreasing measure -/

/-- if every iteration from a state related (by `Inv`) to an abstract state `a` leads to a state
    related to an abstract state of smaller measure, and the fuel exceeds the measure, the loop
    ends (by its condition, not by the fuel) in a state satisfying `Post`.  The step hypothesis
    names the next state `s'` and gives `s' = body s` as an equation, so that the (large) loop body
    stays out of the goal while the case analysis is done -/
theorem whileN_sim {σ α : Type} (Inv : α → σ → Prop) (μ : α → Nat) (Post : σ → Prop)
    (fuel : Nat) (cond : σ → Bool) (body : σ → σ) (s : σ) (a : α)
    (h0 : Inv a s) (hfuel : μ a < fuel)
    (hdone : ∀ a s, Inv a s → cond s = false → Post s)
    (hstep : ∀ a s s', Inv a s → cond s = true → s' = body s → ∃ a', Inv a' s' ∧ μ a' < μ a) :
    Post (whileN fuel cond body s) := by
  induction fuel generalizing s a with
  | zero => omega
  | succ n ih =>
    rw [whileN_succ]
    by_cases hc : cond s = true
    · rw [if_pos hc]
      obtain ⟨a', hI, hμ⟩ := hstep a s (body s) h0 hc rfl
      exact ih (body s) a' hI (by omega)
    · rw [if_neg hc]
      exact hdone a s h0 (by simpa using hc)

/-! ### draw streams: the cursor and the suffix still to be consumed -/

theorem stream_head (ns : List Int) (c : Nat) (d : Int) (ds : List Int) (h : ns.drop c = d :: ds) :
    geti ns (c : Int) = d ∧ decide (ns.length ≤ c) = false ∧ ns.drop (c + 1) = ds := by
  have hlt : c < ns.length := by
    have : (ns.drop c).length ≠ 0 := by rw [h]; simp
    simp at this; omega
  refine ⟨?_, by simp; omega, ?_⟩
  · have := congrArg (fun l => l.getD 0 0) h
    simp [List.getD_eq_getElem?_getD] at this
    simp [geti_ofNat, List.getD_eq_getElem?_getD, this]
  · have := congrArg (fun l => l.drop 1) h
    simpa using this

theorem stream_head_nat (ns : List Nat) (c : Nat) (d : Nat) (ds : List Nat)
    (h : ns.drop c = d :: ds) :
    geti (ns.map Int.ofNat) (c : Int) = (d : Int) ∧
      decide ((ns.map Int.ofNat).length ≤ c) = false ∧ ns.drop (c + 1) = ds := by
  have h' : (ns.map Int.ofNat).drop c = (d : Int) :: ds.map Int.ofNat := by
    rw [← List.map_drop, h]; rfl
  obtain ⟨h1, h2, _⟩ := stream_head _ c _ _ h'
  refine ⟨h1, h2, ?_⟩
  have := congrArg (fun l => l.drop 1) h
  simpa using this

end TFV.Imp
