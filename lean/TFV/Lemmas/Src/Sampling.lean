/-
  TFV.Lemmas.Src.Sampling — the translated `sattolo_shuffle`, `random_sample`,
  `random_weighted_sample` equal the models `Select.sattolo`, `Select.sampleNoRepl` / `sampleRepl`.
-/
import TFV.Generated.Src.sattolo_shuffle
import TFV.Generated.Src.random_sample
import TFV.Generated.Src.random_weighted_sample
import TFV.Model.Select
import TFV.Lemmas.Select
import TFV.Lemmas.Src.Bsearch
import TFV.Lemmas.Src.ImpLemmas2

namespace TFV.SrcTie
open TFV.Generated.Src TFV.Imp

/-! ### sattolo_shuffle -/

theorem swap_as_sets (l : List Int) (i j : Nat) (hi : i < l.length) (hj : j < l.length) :
    (l.set i (l.getD j 0)).set j (l.getD i 0) = Select.swap l i j := by
  rw [Select.swap_of_lt l i j hi hj, Select.getD_eq_getElem l i 0 hi, Select.getD_eq_getElem l j 0 hj]

theorem sattoloOk_drop (m : Nat) (js : List Nat) (h : Select.sattoloOk (m + 1) js = true) :
    ∃ j rest, js = j :: rest ∧ j < m + 1 ∧ Select.sattoloOk m rest = true := by
  cases js with
  | nil => simp [Select.sattoloOk] at h
  | cons j rest =>
    simp only [Select.sattoloOk, Bool.and_eq_true, decide_eq_true_eq] at h
    exact ⟨j, rest, rfl, h.1, h.2⟩

theorem src_sattolo_shuffle (arr : List Int) (js : List Nat)
    (hok : Select.sattoloOk (arr.length - 1) js = true) :
    sattolo_shuffle arr (js.map Int.ofNat) = some (Select.sattolo arr js) := by
  unfold sattolo_shuffle
  simp only [leni]
  refine forRange_elim
    (P := fun k (s : sattolo_shuffle.S) => s.brk = false ∧ s.err = false ∧ s.dry = false ∧
      s.kn = k ∧ s.shuffled_arr.length = arr.length ∧
      Select.sattoloOk (arr.length - 1 - k) (js.drop k) = true ∧
      Select.sattoloAux s.shuffled_arr (arr.length - 1 - k) (js.drop k) = Select.sattolo arr js)
    (Q := fun s => (if (s.err || s.dry) = true then none else some s.shuffled_arr) =
      some (Select.sattolo arr js))
    _ _ _ _ _ ?_ ?_ ?_
  · simp [hok, Select.sattolo]
  · intro k s hk ⟨hb, he, hd, hkn, hlen, hok', haux⟩
    have hk' : k + 1 < arr.length := by omega
    obtain ⟨m, hm⟩ : ∃ m, arr.length - 1 - k = m + 1 := ⟨arr.length - 1 - k - 1, by omega⟩
    rw [hm] at hok' haux
    obtain ⟨j, rest, hjs, hj, hrest⟩ := sattoloOk_drop m _ hok'
    have hi : ((arr.length : Int) - 1 - (0 + (k : Int))) = ((m + 1 : Nat) : Int) := by omega
    have hjk : k < js.length := by
      have : (js.drop k).length ≠ 0 := by rw [hjs]; simp
      simp at this; omega
    have hgj : geti (js.map Int.ofNat) (k : Int) = (j : Int) := by
      rw [geti_map_ofNat]
      have := congrArg (fun l => l.getD 0 0) hjs
      simp [List.getD_eq_getElem?_getD] at this
      simp [List.getD_eq_getElem?_getD, this]
    have hdrop : js.drop (k + 1) = rest := by
      have := congrArg (fun l => l.drop 1) hjs
      simpa using this
    have hdry : decide ((js.map Int.ofNat).length ≤ k) = false := by simp; omega
    have hm' : arr.length - 1 - (k + 1) = m := by omega
    simp only [hb, he, hd, hkn, Bool.false_eq_true, if_false, hi, hgj, hdry, seti_ofNat, geti_ofNat,
      inb_of_lt s.shuffled_arr j (by omega), inb_of_lt s.shuffled_arr (m + 1) (by omega),
      Bool.not_true, Bool.or_self, hdrop, hm', hrest, true_and,
      swap_as_sets s.shuffled_arr (m + 1) j (by omega) (by omega)]
    rw [← haux, hjs]
    exact ⟨by rw [Select.swap_length, hlen], rfl⟩
  · intro s ⟨_, he, hd, _, _, _, haux⟩
    have e : arr.length - 1 - ((arr.length : Int) - 1 - 0 - 0).toNat = 0 := by omega
    rw [e] at haux
    have : s.shuffled_arr = Select.sattolo arr js := by
      rw [← haux]; cases (js.drop _) <;> rfl
    simp [he, hd, this]
/-! ### random_sample / random_weighted_sample -/

theorem contains_map_ofNat (acc : List Nat) (d : Nat) :
    (acc.map Int.ofNat).contains (d : Int) = acc.contains d := by
  induction acc with
  | nil => rfl
  | cons a t ih =>
    simp only [List.map_cons, List.contains_cons, ih]
    congr 1
    rw [Bool.eq_iff_iff]; simp; exact Int.ofNat_inj

theorem contains_reverse_nat (acc : List Nat) (d : Nat) : acc.reverse.contains d = acc.contains d := by
  rw [Bool.eq_iff_iff]; simp

/-- the partially filled result array: `acc` (newest first) then `k` untouched zeros -/
def partialArr (acc : List Nat) (k : Nat) : List Int :=
  acc.reverse.map Int.ofNat ++ List.replicate k (0 : Int)

theorem partialArr_length (acc : List Nat) (k : Nat) : (partialArr acc k).length = acc.length + k := by
  simp [partialArr]

theorem partialArr_take (acc : List Nat) (k : Nat) :
    (partialArr acc k).take acc.length = acc.reverse.map Int.ofNat := by
  simp [partialArr]

theorem partialArr_set (acc : List Nat) (k : Nat) (d : Nat) :
    (partialArr acc (k + 1)).set acc.length (d : Int) = partialArr (d :: acc) k := by
  simp only [partialArr, List.reverse_cons, List.map_append, List.map_cons, List.map_nil,
    List.append_assoc, List.replicate_succ]
  rw [List.set_append_right _ _ (by simp)]
  simp

theorem src_random_sample_norepl (rs : Int) (q : Nat) (ns r : List Nat)
    (h : Select.sampleNoRepl ns q [] = some r) :
    random_sample rs (q : Int) false (ns.map Int.ofNat) = some (r.map Int.ofNat) := by
  unfold random_sample
  simp only [Bool.not_false, if_true, Int.toNat_natCast]
  refine whileN_sim
    (Inv := fun (a : List Nat × Nat × List Nat) (s : random_sample.S) =>
      s.brk = false ∧ s.err = false ∧ s.dry = false ∧ ns.drop s.kn = a.1 ∧
      s.i = (a.2.2.length : Int) ∧ a.2.2.length + a.2.1 = q ∧ s.sample = partialArr a.2.2 a.2.1 ∧
      Select.sampleNoRepl a.1 a.2.1 a.2.2 = some r)
    (μ := fun a => a.1.length)
    (Post := fun s => (if (s.err || s.dry) = true then none else some s.sample) =
      some (r.map Int.ofNat))
    _ _ _ _ (ns, q, []) ?_ ?_ ?_ ?_
  · simp [h, partialArr]
  · simp
  · rintro ⟨ds, k, acc⟩ s ⟨hb, he, hd, hkn, hi, hq, hs, hm⟩ hc
    simp only at hb he hd hkn hi hq hs hm
    simp only [hb, hi, Bool.not_false, Bool.true_and, decide_eq_false_iff_not] at hc
    have hk : k = 0 := by omega
    subst hk
    simp only [Select.sampleNoRepl, Option.some.injEq] at hm
    simp [he, hd, hs, partialArr, ← hm]
  · rintro ⟨ds, k, acc⟩ s s' ⟨hb, he, hd, hkn, hi, hq, hs, hm⟩ hc hs'
    simp only at hb he hd hkn hi hq hs hm
    simp only [hb, hi, Bool.not_false, Bool.true_and, decide_eq_true_eq] at hc
    obtain ⟨k, rfl⟩ : ∃ k', k = k' + 1 := ⟨k - 1, by omega⟩
    cases ds with
    | nil => simp [Select.sampleNoRepl] at hm
    | cons d ds =>
      obtain ⟨hg, hdry, hdrop⟩ := stream_head_nat ns s.kn d ds hkn
      have hcv := src_check_for_value (d : Int) (partialArr acc (k + 1)) acc.length
        (by rw [partialArr_length]; omega)
      rw [partialArr_take, contains_map_ofNat, contains_reverse_nat] at hcv
      simp only [Select.sampleNoRepl] at hm
      by_cases hcon : acc.contains d = true
      · rw [if_pos hcon] at hm
        rw [hcon] at hcv
        refine ⟨(ds, k + 1, acc), ?_, by simp⟩
        subst hs'
        simp only [hb, he, hd, hg, hdry, hi, hs, hcv, hdrop, hq, hm, Bool.or_self,
          Bool.or_true, if_true, and_self]
      · rw [if_neg hcon] at hm
        have hcon' : acc.contains d = false := by simpa using hcon
        rw [hcon'] at hcv
        refine ⟨(ds, k, d :: acc), ?_, by simp⟩
        subst hs'
        simp only [hb, he, hd, hg, hdry, hi, hs, hcv, hdrop, hm, Bool.or_self, Bool.false_eq_true,
          if_false, seti_ofNat, partialArr_set, inb_of_lt (partialArr acc (k + 1)) acc.length (by rw [partialArr_length]; omega),
          Bool.not_true, List.length_cons, true_and]
        exact ⟨by omega, by omega, trivial⟩
theorem sampleRepl_some (ds : List Nat) (q : Nat) (r : List Nat) (h : Select.sampleRepl ds q = some r) :
    q ≤ ds.length ∧ ds.take q = r := by
  unfold Select.sampleRepl at h
  split at h
  · cases h
  · exact ⟨by omega, by simpa using h⟩

theorem take_reverse_append_done (acc ds : List Nat) :
    (acc.reverse ++ ds).take acc.length = acc.reverse := by
  simp

theorem src_random_sample_repl (rs : Int) (q : Nat) (ns r : List Nat)
    (h : Select.sampleRepl ns q = some r) :
    random_sample rs (q : Int) true (ns.map Int.ofNat) = some (r.map Int.ofNat) := by
  obtain ⟨hlen, htake⟩ := sampleRepl_some ns q r h
  unfold random_sample
  simp only [Bool.not_true, Bool.false_eq_true, if_false, Int.toNat_natCast]
  refine whileN_sim
    (Inv := fun (a : List Nat × Nat × List Nat) (s : random_sample.S) =>
      s.brk = false ∧ s.err = false ∧ s.dry = false ∧ ns.drop s.kn = a.1 ∧
      s.i = (a.2.2.length : Int) ∧ a.2.2.length + a.2.1 = q ∧ s.sample = partialArr a.2.2 a.2.1 ∧
      q ≤ a.2.2.length + a.1.length ∧ (a.2.2.reverse ++ a.1).take q = r)
    (μ := fun a => a.1.length)
    (Post := fun s => (if (s.err || s.dry) = true then none else some s.sample) =
      some (r.map Int.ofNat))
    _ _ _ _ (ns, q, []) ?_ ?_ ?_ ?_
  · simp [hlen, htake, partialArr]
  · simp
  · rintro ⟨ds, k, acc⟩ s ⟨hb, he, hd, hkn, hi, hq, hs, hl, hr⟩ hc
    simp only at hb he hd hkn hi hq hs hl hr
    simp only [hb, hi, Bool.not_false, Bool.true_and, decide_eq_false_iff_not] at hc
    have hk : k = 0 := by omega
    subst hk
    have hq' : q = acc.length := by omega
    rw [hq', take_reverse_append_done] at hr
    simp [he, hd, hs, partialArr, ← hr]
  · rintro ⟨ds, k, acc⟩ s s' ⟨hb, he, hd, hkn, hi, hq, hs, hl, hr⟩ hc hs'
    simp only at hb he hd hkn hi hq hs hl hr
    simp only [hb, hi, Bool.not_false, Bool.true_and, decide_eq_true_eq] at hc
    obtain ⟨k, rfl⟩ : ∃ k', k = k' + 1 := ⟨k - 1, by omega⟩
    cases ds with
    | nil => simp at hl; omega
    | cons d ds =>
      obtain ⟨hg, hdry, hdrop⟩ := stream_head_nat ns s.kn d ds hkn
      refine ⟨(ds, k, d :: acc), ?_, by simp⟩
      subst hs'
      simp only [hb, he, hd, hg, hdry, hi, hs, hdrop, Bool.or_self, Bool.false_eq_true,
        if_false, seti_ofNat, partialArr_set,
        inb_of_lt (partialArr acc (k + 1)) acc.length (by rw [partialArr_length]; omega),
        Bool.not_true, List.length_cons, true_and]
      refine ⟨by omega, by omega, by simp at hl ⊢; omega, ?_⟩
      simpa using hr

/-- the candidate indices `random_weighted_sample` examines (the expression the Properties file
    names `candidates`) -/
def cands (cum rolls : List Int) : List Nat :=
  (rolls.filter fun r => !(decide (r = 0) && decide (0 < cum.getLastD 0))).map fun r =>
    Select.bsearch r cum

theorem cands_nil (cum : List Int) : cands cum [] = [] := rfl

theorem cands_skip (cum : List Int) (x : Int) (rs : List Int)
    (h : (decide (x = 0) && decide (0 < cum.getLastD 0)) = true) :
    cands cum (x :: rs) = cands cum rs := by
  simp only [cands, List.filter_cons, h, Bool.not_true, Bool.false_eq_true, if_false]

theorem cands_keep (cum : List Int) (x : Int) (rs : List Int)
    (h : (decide (x = 0) && decide (0 < cum.getLastD 0)) = false) :
    cands cum (x :: rs) = Select.bsearch x cum :: cands cum rs := by
  simp only [cands, List.filter_cons, h, Bool.not_false, if_true, List.map_cons]

theorem src_random_weighted_sample_norepl (w cum rolls : List Int) (q : Nat) (r : List Nat)
    (hc : cum ≠ [])
    (h : Select.sampleNoRepl
      ((rolls.filter fun r => !(decide (r = 0) && decide (0 < cum.getLastD 0))).map fun r =>
        Select.bsearch r cum) q [] = some r) :
    random_weighted_sample w (q : Int) false cum rolls = some (r.map Int.ofNat) := by
  change Select.sampleNoRepl (cands cum rolls) q [] = some r at h
  have hemp : cum.isEmpty = false := by cases cum <;> simp_all
  unfold random_weighted_sample
  simp only [Bool.not_false, if_true, Int.toNat_natCast, last, hemp, gt_iff_lt]
  refine whileN_sim
    (Inv := fun (a : List Int × Nat × List Nat) (s : random_weighted_sample.S) =>
      s.brk = false ∧ s.err = false ∧ s.dry = false ∧ rolls.drop s.kr = a.1 ∧
      s.i = (a.2.2.length : Int) ∧ a.2.2.length + a.2.1 = q ∧ s.sample = partialArr a.2.2 a.2.1 ∧
      s.cumsumweights = cum ∧ s.sumweights = cum.getLastD 0 ∧
      Select.sampleNoRepl (cands cum a.1) a.2.1 a.2.2 = some r)
    (μ := fun a => a.1.length)
    (Post := fun s => (if (s.err || s.dry) = true then none else some s.sample) =
      some (r.map Int.ofNat))
    _ _ _ _ (rolls, q, []) ?_ ?_ ?_ ?_
  · simp [h, partialArr]
  · simp
  · rintro ⟨ds, k, acc⟩ s ⟨hb, he, hd, hkn, hi, hq, hs, hcu, hsw, hm⟩ hc
    simp only at hb he hd hkn hi hq hs hm
    simp only [hb, hi, Bool.not_false, Bool.true_and, decide_eq_false_iff_not] at hc
    have hk : k = 0 := by omega
    subst hk
    simp only [Select.sampleNoRepl, Option.some.injEq] at hm
    simp [he, hd, hs, partialArr, ← hm]
  · rintro ⟨ds, k, acc⟩ s s' ⟨hb, he, hd, hkn, hi, hq, hs, hcu, hsw, hm⟩ hc hs'
    simp only at hb he hd hkn hi hq hs hcu hsw hm
    simp only [hb, hi, Bool.not_false, Bool.true_and, decide_eq_true_eq] at hc
    obtain ⟨k, rfl⟩ : ∃ k', k = k' + 1 := ⟨k - 1, by omega⟩
    cases ds with
    | nil => simp [cands_nil, Select.sampleNoRepl] at hm
    | cons x ds =>
      obtain ⟨hg, hdry, hdrop⟩ := stream_head rolls s.kr x ds hkn
      by_cases hz : (decide (x = 0) && decide (0 < cum.getLastD 0)) = true
      · rw [cands_skip cum x ds hz] at hm
        refine ⟨(ds, k + 1, acc), ?_, by simp⟩
        subst hs'
        simp only [hb, he, hd, hg, hdry, hi, hs, hcu, hsw, hdrop, hq, hm, hz, Bool.or_self,
          Bool.or_true, if_true, and_self]
      · have hz' : (decide (x = 0) && decide (0 < cum.getLastD 0)) = false := by simpa using hz
        rw [cands_keep cum x ds hz'] at hm
        generalize hdv : Select.bsearch x cum = d at hm
        have hbs : binary_search_interval x cum = some (d : Int) := by
          rw [← hdv]; exact src_bsearch x cum ‹cum ≠ []›
        have hcv := src_check_for_value (d : Int) (partialArr acc (k + 1)) acc.length
          (by rw [partialArr_length]; omega)
        rw [partialArr_take, contains_map_ofNat, contains_reverse_nat] at hcv
        simp only [Select.sampleNoRepl] at hm
        by_cases hcon : acc.contains d = true
        · rw [if_pos hcon] at hm
          rw [hcon] at hcv
          refine ⟨(ds, k + 1, acc), ?_, by simp⟩
          subst hs'
          simp only [hb, he, hd, hg, hdry, hi, hs, hcu, hsw, hz', hbs, hcv, hdrop, hq, hm,
            Bool.or_self, Bool.or_true, Bool.false_eq_true, if_false, if_true, and_self]
        · rw [if_neg hcon] at hm
          have hcon' : acc.contains d = false := by simpa using hcon
          rw [hcon'] at hcv
          refine ⟨(ds, k, d :: acc), ?_, by simp⟩
          subst hs'
          simp only [hb, he, hd, hg, hdry, hi, hs, hcu, hsw, hz', hbs, hcv, hdrop, hm, Bool.or_self,
            Bool.false_eq_true, if_false, seti_ofNat, partialArr_set,
            inb_of_lt (partialArr acc (k + 1)) acc.length (by rw [partialArr_length]; omega),
            Bool.not_true, List.length_cons, true_and]
          exact ⟨by omega, by omega, trivial⟩

theorem src_random_weighted_sample_repl (w cum rolls : List Int) (q : Nat) (r : List Nat)
    (hc : cum ≠ [])
    (h : Select.sampleRepl
      ((rolls.filter fun r => !(decide (r = 0) && decide (0 < cum.getLastD 0))).map fun r =>
        Select.bsearch r cum) q = some r) :
    random_weighted_sample w (q : Int) true cum rolls = some (r.map Int.ofNat) := by
  change Select.sampleRepl (cands cum rolls) q = some r at h
  obtain ⟨hlen, htake⟩ := sampleRepl_some _ q r h
  have hemp : cum.isEmpty = false := by cases cum <;> simp_all
  unfold random_weighted_sample
  simp only [Bool.not_true, Bool.false_eq_true, if_false, Int.toNat_natCast, last, hemp, gt_iff_lt]
  refine whileN_sim
    (Inv := fun (a : List Int × Nat × List Nat) (s : random_weighted_sample.S) =>
      s.brk = false ∧ s.err = false ∧ s.dry = false ∧ rolls.drop s.kr = a.1 ∧
      s.i = (a.2.2.length : Int) ∧ a.2.2.length + a.2.1 = q ∧ s.sample = partialArr a.2.2 a.2.1 ∧
      s.cumsumweights = cum ∧ s.sumweights = cum.getLastD 0 ∧
      q ≤ a.2.2.length + (cands cum a.1).length ∧ (a.2.2.reverse ++ cands cum a.1).take q = r)
    (μ := fun a => a.1.length)
    (Post := fun s => (if (s.err || s.dry) = true then none else some s.sample) =
      some (r.map Int.ofNat))
    _ _ _ _ (rolls, q, []) ?_ ?_ ?_ ?_
  · simp [hlen, htake, partialArr]
  · simp
  · rintro ⟨ds, k, acc⟩ s ⟨hb, he, hd, hkn, hi, hq, hs, hcu, hsw, hl, hr⟩ hc
    simp only at hb he hd hkn hi hq hs hl hr
    simp only [hb, hi, Bool.not_false, Bool.true_and, decide_eq_false_iff_not] at hc
    have hk : k = 0 := by omega
    subst hk
    have hq' : q = acc.length := by omega
    rw [hq', take_reverse_append_done] at hr
    simp [he, hd, hs, partialArr, ← hr]
  · rintro ⟨ds, k, acc⟩ s s' ⟨hb, he, hd, hkn, hi, hq, hs, hcu, hsw, hl, hr⟩ hc hs'
    simp only at hb he hd hkn hi hq hs hcu hsw hl hr
    simp only [hb, hi, Bool.not_false, Bool.true_and, decide_eq_true_eq] at hc
    obtain ⟨k, rfl⟩ : ∃ k', k = k' + 1 := ⟨k - 1, by omega⟩
    cases ds with
    | nil => simp [cands_nil] at hl; omega
    | cons x ds =>
      obtain ⟨hg, hdry, hdrop⟩ := stream_head rolls s.kr x ds hkn
      by_cases hz : (decide (x = 0) && decide (0 < cum.getLastD 0)) = true
      · rw [cands_skip cum x ds hz] at hl hr
        refine ⟨(ds, k + 1, acc), ?_, by simp⟩
        subst hs'
        simp only [hb, he, hd, hg, hdry, hi, hs, hcu, hsw, hdrop, hq, hl, hr, hz, Bool.or_self,
          Bool.or_true, if_true, and_self]
      · have hz' : (decide (x = 0) && decide (0 < cum.getLastD 0)) = false := by simpa using hz
        rw [cands_keep cum x ds hz'] at hl hr
        generalize hdv : Select.bsearch x cum = d at hl hr
        have hbs : binary_search_interval x cum = some (d : Int) := by
          rw [← hdv]; exact src_bsearch x cum ‹cum ≠ []›
        refine ⟨(ds, k, d :: acc), ?_, by simp⟩
        subst hs'
        simp only [hb, he, hd, hg, hdry, hi, hs, hcu, hsw, hz', hbs, hdrop, Bool.or_self,
          Bool.false_eq_true, if_false, seti_ofNat, partialArr_set,
          inb_of_lt (partialArr acc (k + 1)) acc.length (by rw [partialArr_length]; omega),
          Bool.not_true, List.length_cons, true_and]
        refine ⟨by omega, by omega, by simp at hl ⊢; omega, ?_⟩
        simpa using hr


end TFV.SrcTie
