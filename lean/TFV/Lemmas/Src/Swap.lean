/-
  TFV.Lemmas.Src.Swap — the Python-level GP operator `swap_mutation` as translated from /repo equals
  `swapRun` (i.e. `Tree.swapMut` at the drawn node with the inverse of the shuffle) on every well-formed tree.
-/
import TFV.Generated.Src.swap_mutation
import TFV.Model.Tree
import TFV.Lemmas.TreeCore
import TFV.Lemmas.TreeOps
import TFV.Lemmas.Src.ImpLemmas
import TFV.Lemmas.Src.ImpLemmas2
import TFV.Lemmas.Src.TreeIdx
import TFV.Lemmas.Src.TreeMethods
import TFV.Lemmas.Src.Shrink
import TFV.Lemmas.Src.SwapDefs
import TFV.Lemmas.Src.SwapSort
import TFV.Lemmas.Src.SwapLemmas

namespace TFV.SrcTie
open TFV.Generated.Src TFV.Tree TFV.Imp

/-- position of slot `c` of the node at `pre.length` -/
def slotPos (pre : Flat) (ks : List RT) (c : Nat) : Int := ((pre.length + 1 + sizeL (ks.take c) : Nat) : Int)

theorem slotPos_mono (pre : Flat) (ks : List RT) (a b : Nat) (hab : a < b) (hb : b < ks.length) :
    slotPos pre ks a < slotPos pre ks b := by
  have h : sizeL (ks.take a) < sizeL (ks.take b) := by
    have e : ks.take b = ks.take a ++ (ks.take b).drop a := by
      have h1 : ks.take a = (ks.take b).take a := by
        rw [List.take_take, Nat.min_eq_left (Nat.le_of_lt hab)]
      rw [h1, List.take_append_drop]
    have hne : (ks.take b).drop a ≠ [] := by
      intro h0
      have := congrArg List.length h0
      simp at this; omega
    rw [e, sizeL_append]
    cases hd : (ks.take b).drop a with
    | nil => exact absurd hd hne
    | cons x xs => rw [sizeL_cons]; have := size_pos x; omega
  simp only [slotPos]; omega

theorem getrow_pair0 (a b : List Int) : getrow [a, b] 0 = a := rfl
theorem getrow_pair1 (a b : List Int) : getrow [a, b] 1 = b := rfl

/-- what one iteration needs: the subtree read from the original tree and the replacement in the current list -/
theorem swap_step_facts (pre post : Flat) (s0 : Nat) (ks : List RT) (L : Flat)
    (hL : L = pre ++ flat (.node s0 ks) ++ post) (sig : List Nat) (hsig : sig.Perm (List.range ks.length))
    (j : Nat) (hj : j < ks.length) :
    ∃ T : Flat,
      Tree_subtree (symsI L) (arsI L) (slotPos pre ks (sig.idxOf j)) = some [symsI T, arsI T] ∧
      Tree_concat (symsI (swapMid pre post s0 ks (swapKids ks sig) (j + 1)))
          (arsI (swapMid pre post s0 ks (swapKids ks sig) (j + 1))) (slotPos pre ks j) (symsI T) (arsI T) =
        some [symsI (swapMid pre post s0 ks (swapKids ks sig) j), arsI (swapMid pre post s0 ks (swapKids ks sig) j)] := by
  obtain ⟨hlt, hN⟩ := swapKids_getElem ks sig hsig j hj
  have hjN : j < (swapKids ks sig).length := by rw [swapKids_length, perm_range_length hsig]; exact hj
  refine ⟨flat ks[sig.idxOf j], ?_, ?_⟩
  · obtain ⟨pre', post', h1, h2⟩ := kid_context pre post s0 ks (sig.idxOf j) hlt
    have h := src_tree_subtree pre' post' ks[sig.idxOf j]
    rw [subtree_flat, ← h1, ← hL, h2] at h
    exact h
  · have h := swapMid_step pre post s0 ks (swapKids ks sig) j hj hjN
    rw [hN] at h
    exact h

theorem swap_core (pre post : Flat) (s0 : Nat) (ks : List RT) (L : Flat)
    (hL : L = pre ++ flat (.node s0 ks) ++ post)
    (proba maxLeve u : Int) (urest : List Int) (n0 : Nat) (nrest : List Int)
    (shuffler : List Int → Nat → List Int) (sig : List Nat)
    (hc : u < proba) (hn0 : n0 < (multiArgs L).length) (hi : (multiArgs L).getD n0 0 = pre.length)
    (hsig : sig.Perm (List.range ks.length))
    (hsh : shuffler ((argsIds pre.length (arities L)).map Int.ofNat) 0 =
      (sig.map fun j => (argsIds pre.length (arities L)).getD j 0).map Int.ofNat) :
    swap_mutation (symsI L) (arsI L) proba maxLeve (u :: urest) ((n0 : Int) :: nrest) shuffler =
      some [symsI (swapMid pre post s0 ks (swapKids ks sig) 0), arsI (swapMid pre post s0 ks (swapKids ks sig) 0)] := by
  have hlen := perm_range_length hsig
  have hids : (argsIds pre.length (arities L)).map Int.ofNat = (List.range ks.length).map (slotPos pre ks) := by
    rw [hL, argsIds_flat, List.map_map]; rfl
  have hnew : (sig.map fun j => (argsIds pre.length (arities L)).getD j 0).map Int.ofNat =
      sig.map (slotPos pre ks) := by
    rw [List.map_map]
    apply List.map_congr_left
    intro j hj
    have hj' : j < ks.length := List.mem_range.1 (hsig.mem_iff.1 hj)
    simp only [Function.comp, hL, argsIds_getD pre post s0 ks j hj']; rfl
  rw [hids, hnew] at hsh
  have hfind : Tree_get_args_id (symsI L) (arsI L) (pre.length : Int) =
      some ((List.range ks.length).map (slotPos pre ks)) := by
    have h := src_find_id_args pre post (.node s0 ks)
    rw [← hL, hids] at h
    simp only [Tree_get_args_id, arsI, h]
    simp
  have hsort := sortDescSnd_swap ks.length (slotPos pre ks) sig hsig (slotPos_mono pre ks)
  have hpos : ((multiArgs L).length : Int) > 0 := by omega
  have hinb0 : inb ((multiArgs L).map Int.ofNat) (n0 : Int) = true := inb_of_lt _ _ (by simpa using hn0)
  have hgeti : geti ((multiArgs L).map Int.ofNat) (n0 : Int) = (pre.length : Int) := by
    rw [geti_map_ofNat, hi]
  have hfull : swapMid pre post s0 ks (swapKids ks sig) ks.length = L := by
    rw [hL]; exact swapMid_full pre post s0 ks _ (by rw [swapKids_length, hlen])
  generalize hA : (swapOrder ks.length (slotPos pre ks) sig).map (·.1) = A at *
  generalize hB : (swapOrder ks.length (slotPos pre ks) sig).map (·.2) = B at *
  have hgA : ∀ k, k < ks.length → geti A (0 + (k : Int)) = slotPos pre ks (sig.idxOf (ks.length - 1 - k)) := by
    intro k hk
    rw [Int.zero_add, geti_ofNat, ← hA]
    simp [List.getD_eq_getElem?_getD, swapOrder_length, hk, swapOrder_getD]
  have hgB : ∀ k, k < ks.length → geti B (0 + (k : Int)) = slotPos pre ks (ks.length - 1 - k) := by
    intro k hk
    rw [Int.zero_add, geti_ofNat, ← hB]
    simp [List.getD_eq_getElem?_getD, swapOrder_length, hk, swapOrder_getD]
  unfold swap_mutation
  simp only [Int.natCast_zero, geti_cons_zero, hc, decide_true, if_true, whereNZ_multi, leni, List.length_map,
    symsI_length, arsI_length, hinb0, hgeti, hfind, hsh, sortDescSndA, sortDescSndB, hsort, hpos, hA, hB]
  refine forRange_elim2
    (P := fun k (s : swap_mutation.S) => s.brk = false ∧ s.err = false ∧ s.dry = false ∧ s.t4 = A ∧ s.t5 = B ∧
      s.mutated_tree__nodes = symsI (swapMid pre post s0 ks (swapKids ks sig) (ks.length - k)) ∧
      s.mutated_tree__nargs = arsI (swapMid pre post s0 ks (swapKids ks sig) (ks.length - k)))
    (Q := fun s => (if (s.err || s.dry) = true then none else
        some [s.mutated_tree__nodes, s.mutated_tree__nargs]) =
      some [symsI (swapMid pre post s0 ks (swapKids ks sig) 0), arsI (swapMid pre post s0 ks (swapKids ks sig) 0)])
    _ _ _ _ _ ?_ ?_ ?_ ?_
  · simp [hfull]
  · intro k s _ ⟨hb, _⟩ hstop
    rw [hb] at hstop; exact absurd hstop (by simp)
  · intro k s s' hk ⟨hb, he, hd, h4, h5, hn, ha⟩ _ hs'
    have hk' : k < ks.length := by
      rw [← hA] at hk
      simpa [swapOrder_length] using hk
    obtain ⟨T, hsubT, hcatT⟩ := swap_step_facts pre post s0 ks L hL sig hsig (ks.length - 1 - k) (by omega)
    have e1 : ks.length - 1 - k + 1 = ks.length - k := by omega
    have e2 : ks.length - (k + 1) = ks.length - 1 - k := by omega
    rw [e1] at hcatT
    rw [e2]
    subst hs'
    simp only [hb, he, hd, h4, h5, hn, ha, hgA k hk', hgB k hk', hsubT, hcatT, getrow_pair0, getrow_pair1,
      List.length_cons, List.length_nil, ne_eq, not_true_eq_false, decide_false, Bool.or_false, and_self]
  · intro s ⟨_, he, hd, _, _, hn, ha⟩
    have e : ((A.length : Int) - 0).toNat = ks.length := by
      rw [← hA]; simp [swapOrder_length]
    rw [e, Nat.sub_self] at hn ha
    simp [he, hd, hn, ha]

/-- `u` the uniform draw (mutate iff u < proba), `n0` the integer draw (which multi-argument node),
    `shuffler a k` the result of the k-th `sattolo_shuffle(a)` call: here the argument positions
    rearranged by `sig`, a permutation of the slots -/
theorem src_swap_mutation (t : RT) (proba maxLeve u : Int) (urest : List Int) (n0 : Nat) (nrest : List Int)
    (shuffler : List Int → Nat → List Int) (sig : List Nat)
    (h0 : multiArgs (flat t) ≠ [] → n0 < (multiArgs (flat t)).length)
    (hsig : sig.Perm (List.range (argsIds ((multiArgs (flat t)).getD n0 0) (arities (flat t))).length))
    (hsh : shuffler ((argsIds ((multiArgs (flat t)).getD n0 0) (arities (flat t))).map Int.ofNat) 0 =
      (sig.map fun j => (argsIds ((multiArgs (flat t)).getD n0 0) (arities (flat t))).getD j 0).map Int.ofNat) :
    swap_mutation (symsI (flat t)) (arsI (flat t)) proba maxLeve (u :: urest) ((n0 : Int) :: nrest) shuffler =
      some [symsI (swapRun (flat t) (decide (u < proba)) n0 sig), arsI (swapRun (flat t) (decide (u < proba)) n0 sig)] := by
  have hwf := wfAux_flat_self t
  generalize flat t = l at *
  by_cases hc : u < proba
  case neg =>
    unfold swap_mutation
    simp [swapRun, hc, geti]
  by_cases hm : multiArgs l = []
  case pos =>
    unfold swap_mutation
    simp [swapRun, hc, geti, whereNZ_multi, hm, leni, symsI_length, arsI_length]
  have hn0 := h0 hm
  have hmem : (multiArgs l).getD n0 0 ∈ multiArgs l := getD_mem_nat _ _ hn0
  obtain ⟨hlt, _⟩ := mem_multiArgs _ _ hmem
  obtain ⟨pre, post, v, hL, hpre⟩ := context l hwf _ hlt
  have hR : swapRun l (decide (u < proba)) n0 sig = swapMut l ((multiArgs l).getD n0 0) (invPerm sig) := by
    simp [swapRun, hc, hm]
  rw [hR]
  generalize hi : (multiArgs l).getD n0 0 = i at *
  subst hpre
  cases v with
  | node s0 ks =>
    have hidlen : (argsIds pre.length (arities l)).length = ks.length := by
      rw [hL, argsIds_flat]; simp
    rw [hidlen] at hsig
    have hlen := perm_range_length hsig
    rw [swap_core pre post s0 ks l hL proba maxLeve u urest n0 nrest shuffler sig hc hn0 hi hsig hsh]
    have hsw : swapMut l pre.length (invPerm sig) = swapMid pre post s0 ks (swapKids ks sig) 0 := by
      rw [swapMid_zero pre post s0 ks _ (by rw [swapKids_length, hlen]), hL]
      exact swapMut_context pre post s0 ks (invPerm sig) (invPerm_mem hsig) (by rw [invPerm_length, hlen])
    rw [hsw]

end TFV.SrcTie
