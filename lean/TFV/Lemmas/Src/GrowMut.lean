/-
  TFV.Lemmas.Src.GrowMut — the Python-level GP operator `growing_mutation` as translated from /repo equals
  `growMut` of the model, with the grown tree `grower budget` where the budget is `max(get_levels(i))`.
-/
import TFV.Generated.Src.growing_mutation
import TFV.Model.Tree
import TFV.Lemmas.Src.StandardX

namespace TFV.SrcTie
open TFV.Generated.Src TFV.Tree TFV.Imp

theorem levels_ne_of_lt (l : Flat) (i : Nat) (hi : i < l.length) : levels i (arities l) ≠ [] := by
  unfold levels
  have : (arities l).drop i ≠ [] := by
    intro h
    have := congrArg List.length h
    simp [arities] at this
    omega
  cases hd : (arities l).drop i with
  | nil => exact absurd hd this
  | cons a rest => simp [levelsAux]

theorem src_growing_mutation (t : RT) (proba maxLevel u : Int) (urest : List Int) (i : Nat) (nrest : List Int)
    (grower : Int → List (List Int)) (g : Flat) (hi : i < (flat t).length)
    (hg : grower ((listMax (levels i (arities (flat t))) : Nat) : Int) = [symsI g, arsI g]) :
    growing_mutation (symsI (flat t)) (arsI (flat t)) proba maxLevel (u :: urest) ((i : Int) :: nrest) grower =
      some [symsI (if u < proba then growMut (flat t) i g else flat t),
            arsI (if u < proba then growMut (flat t) i g else flat t)] := by
  have hl := src_tree_get_levels (flat t) i
  have hne := levels_ne_of_lt (flat t) i hi
  have hemp : ((levels i (arities (flat t))).map Int.ofNat).isEmpty = false := by
    cases hL : levels i (arities (flat t)) with
    | nil => exact absurd hL hne
    | cons a r => rfl
  have hmax := maxArr_ofNat _ hne
  obtain ⟨pre, post, sub, ha, rfl⟩ := context (flat t) (wfAux_flat_self t) i hi
  have hc := src_tree_concat pre post g sub
  rw [← ha] at hc
  have g0 : ∀ (x : Int) (l : List Int), geti (x :: l) ((0 : Nat) : Int) = x := fun _ _ => rfl
  have r0 : ∀ (x y : List Int), getrow [x, y] (0 : Int) = x := fun _ _ => rfl
  have r1 : ∀ (x y : List Int), getrow [x, y] (1 : Int) = y := fun _ _ => rfl
  unfold growing_mutation growMut
  by_cases hu : u < proba
  · simp only [hu, decide_true, if_true, g0, hl, hemp, hmax, hg, r0, r1, hc]
    simp
  · have g0' : ∀ (x : Int) (l : List Int), geti (x :: l) (0 : Int) = x := fun _ _ => rfl
    simp [hu, g0']

end TFV.SrcTie
