/- Source tie for C08: the translated `shrink_mutation` equals the model run `shrinkRun`
   (= `Tree.shrinkMut` at the drawn non-terminal position / argument) on every well-formed tree. -/
import TFV.Generated.Src.shrink_mutation
import TFV.Model.Tree
import TFV.Lemmas.TreeCore
import TFV.Lemmas.TreeOps
import TFV.Lemmas.Src.ImpLemmas
import TFV.Lemmas.Src.ImpLemmas2
import TFV.Lemmas.Src.TreeIdx
import TFV.Lemmas.Src.TreeMethods
import TFV.Lemmas.Src.ShrinkDefs

namespace TFV.SrcTie
open TFV.Generated.Src TFV.Tree TFV.Imp

/-! ### the non-terminal positions -/

theorem whereNZAux_arsI (o : Nat) (l : Flat) :
    whereNZAux o ((arsI l).map fun v => if v > (0 : Int) then (1 : Int) else 0) =
      (nonTerminalsAux o l).map Int.ofNat := by
  induction l generalizing o with
  | nil => simp [arsI, arities, whereNZAux, nonTerminalsAux]
  | cons n ns ih =>
    have ih' := ih (o + 1)
    simp only [arsI, arities, List.map_cons, List.map_map] at ih' ⊢
    by_cases h : n.2 > 0
    · simp [whereNZAux, nonTerminalsAux, h, ih']
    · simp [whereNZAux, nonTerminalsAux, h, ih']

theorem whereNZ_arsI (l : Flat) :
    whereNZ ((arsI l).map fun v => if v > (0 : Int) then (1 : Int) else 0) =
      (nonTerminals l).map Int.ofNat := whereNZAux_arsI 0 l

theorem mem_nonTerminalsAux (o : Nat) (l : Flat) (x : Nat) (hx : x ∈ nonTerminalsAux o l) :
    o ≤ x ∧ x - o < l.length ∧ 0 < (l.getD (x - o) (0, 0)).2 := by
  induction l generalizing o with
  | nil => simp [nonTerminalsAux] at hx
  | cons n ns ih =>
    have key : x = o ∧ n.2 > 0 ∨ x ∈ nonTerminalsAux (o + 1) ns := by
      by_cases h : n.2 > 0
      · simp only [nonTerminalsAux, h, if_true, List.mem_cons] at hx
        rcases hx with hx | hx
        · exact Or.inl ⟨hx, h⟩
        · exact Or.inr hx
      · simp only [nonTerminalsAux, h, if_false] at hx
        exact Or.inr hx
    rcases key with ⟨rfl, h⟩ | hx
    · simp; omega
    · obtain ⟨h1, h2, h3⟩ := ih (o + 1) hx
      have e : x - o = (x - (o + 1)) + 1 := by omega
      refine ⟨by omega, ?_, ?_⟩
      · rw [e]; simp; omega
      · rw [e]; simpa using h3

theorem mem_nonTerminals (l : Flat) (x : Nat) (hx : x ∈ nonTerminals l) :
    x < l.length ∧ 0 < (l.getD x (0, 0)).2 := by
  obtain ⟨_, h2, h3⟩ := mem_nonTerminalsAux 0 l x hx
  exact ⟨by simpa using h2, by simpa using h3⟩

/-! ### the three callees at a non-terminal position of a well-formed tree -/

/-- all that the translated code needs to know about position `i` -/
structure ShrinkFacts (l : Flat) (i : Nat) : Prop where
  args_pos : 0 < (argsIds i (arities l)).length
  find_args : Tree_get_args_id (symsI l) (arsI l) (i : Int) = some ((argsIds i (arities l)).map Int.ofNat)
  sub : ∀ k, k < (argsIds i (arities l)).length →
    Tree_subtree (symsI l) (arsI l) (((argsIds i (arities l)).getD k 0 : Nat) : Int) =
      some [symsI (subtree l ((argsIds i (arities l)).getD k 0)),
            arsI (subtree l ((argsIds i (arities l)).getD k 0))]
  cat : ∀ other : Flat,
    Tree_concat (symsI l) (arsI l) (i : Int) (symsI other) (arsI other) =
      some [symsI (concat l i other), arsI (concat l i other)]

theorem shrinkFacts (t : RT) (i : Nat) (hi : i ∈ nonTerminals (flat t)) : ShrinkFacts (flat t) i := by
  obtain ⟨hlt, hpos⟩ := mem_nonTerminals _ _ hi
  obtain ⟨pre, post, u, hl, rfl⟩ := context (flat t) (wfAux_flat_self t) i hlt
  rw [hl] at hpos ⊢
  cases u with
  | node s ks =>
    rw [getD_context] at hpos
    simp only [RT.kids] at hpos
    have hlen : (argsIds pre.length (arities (pre ++ flat (.node s ks) ++ post))).length = ks.length := by
      rw [argsIds_flat]; simp
    refine ⟨by omega, ?_, ?_, fun other => src_tree_concat pre post other _⟩
    · have h := src_find_id_args pre post (.node s ks)
      simp only [Tree_get_args_id, arsI, h]
      simp
    intro k hk
    rw [hlen] at hk
    obtain ⟨pre', post', h1, h2⟩ := kid_context pre post s ks k hk
    rw [argsIds_getD pre post s ks k hk, ← h2, h1]
    exact src_tree_subtree pre' post' ks[k]

/-! ### the kernel -/

theorem geti_cons_zero (x : Int) (xs : List Int) : geti (x :: xs) 0 = x := by simp [geti]
theorem geti_cons_one (x : Int) (xs : List Int) : geti (x :: xs) 1 = geti xs 0 := by simp [geti]

theorem leni_symsI (l : Flat) : leni (symsI l) = (l.length : Int) := by simp [leni, symsI]

-- the simp sets below list every fact the kernel may need; not all are used in every branch
set_option linter.unusedSimpArgs false in
theorem src_shrink_mutation (t : RT) (proba maxLevel u : Int) (urest : List Int) (n0 n1 : Nat) (nrest : List Int)
    (h0 : nonTerminals (flat t) ≠ [] → n0 < (nonTerminals (flat t)).length)
    (h1 : 1 < (argsIds ((nonTerminals (flat t)).getD n0 0) (arities (flat t))).length →
          n1 < (argsIds ((nonTerminals (flat t)).getD n0 0) (arities (flat t))).length) :
    shrink_mutation (symsI (flat t)) (arsI (flat t)) proba maxLevel (u :: urest) ((n0 : Int) :: (n1 : Int) :: nrest) =
      some [symsI (shrinkRun (flat t) (decide (u < proba)) n0 n1), arsI (shrinkRun (flat t) (decide (u < proba)) n0 n1)] := by
  generalize hl : flat t = l at *
  by_cases h2 : 2 < l.length
  case neg =>
    have h2' : ¬ ((l.length : Int) > 2) := by omega
    simp [shrink_mutation, shrinkRun, leni_symsI, h2, h2']
  have h2' : (l.length : Int) > 2 := by omega
  by_cases hc : u < proba
  case neg =>
    simp [shrink_mutation, shrinkRun, leni_symsI, h2', hc, geti]
  by_cases hnt : nonTerminals l = []
  case pos =>
    simp [shrink_mutation, shrinkRun, leni_symsI, h2, h2', hc, geti, whereNZ_arsI, hnt, leni,
      symsI_length, arsI_length]
  have hn0 := h0 hnt
  have hmem : (nonTerminals l).getD n0 0 ∈ nonTerminals l := getD_mem_nat _ _ hn0
  have F : ShrinkFacts l ((nonTerminals l).getD n0 0) := by
    rw [← hl] at hmem ⊢; exact shrinkFacts t _ hmem
  obtain ⟨hpos, hfind, hsub, hcat⟩ := F
  generalize hi : (nonTerminals l).getD n0 0 = i at *
  generalize hargs : argsIds i (arities l) = args at *
  have hntpos : 0 < (nonTerminals l).length := by omega
  have hinb0 : inb ((nonTerminals l).map Int.ofNat) (n0 : Int) = true := inb_of_lt _ _ (by simpa using hn0)
  have hgeti : geti ((nonTerminals l).map Int.ofNat) (n0 : Int) = (i : Int) := by
    rw [geti_map_ofNat, hi]
  by_cases hk : 1 < args.length
  case pos =>
    have hk' : ((args.length : Nat) : Int) > 1 := by omega
    have hn1 := h1 hk
    have hinb1 : inb (args.map Int.ofNat) (n1 : Int) = true := inb_of_lt _ _ (by simpa using hn1)
    have hg1 : geti (args.map Int.ofNat) (n1 : Int) = ((args.getD n1 0 : Nat) : Int) := geti_map_ofNat _ _
    have hs := hsub n1 hn1
    have hR : shrinkRun l (decide (u < proba)) n0 n1 = concat l i (subtree l (args.getD n1 0)) := by
      unfold shrinkRun
      rw [if_pos ⟨h2, by simpa using hc⟩, if_neg hnt]
      simp only [hi, hargs, shrinkMut, if_pos hk]
    rw [hR]
    generalize args.getD n1 0 = p at hs hg1 ⊢
    simp [shrink_mutation, leni_symsI, h2', hc, geti_cons_zero, geti_cons_one, whereNZ_arsI, hnt, leni,
      symsI_length, arsI_length, hinb0, hgeti, hfind, hk', hinb1, hg1, hs, hcat, getrow, hntpos]
  case neg =>
    have hk' : ¬ ((args.length : Nat) : Int) > 1 := by omega
    have hinb1 : inb (args.map Int.ofNat) (0 : Int) = true := inb_of_lt _ 0 (by simpa using hpos)
    have hg1 : geti (args.map Int.ofNat) (0 : Int) = ((args.getD 0 0 : Nat) : Int) := geti_map_ofNat _ 0
    have hs := hsub 0 hpos
    have hR : shrinkRun l (decide (u < proba)) n0 n1 = concat l i (subtree l (args.getD 0 0)) := by
      unfold shrinkRun
      rw [if_pos ⟨h2, by simpa using hc⟩, if_neg hnt]
      simp only [hi, hargs, shrinkMut, if_neg hk]
    rw [hR]
    generalize args.getD 0 0 = p at hs hg1 ⊢
    simp [shrink_mutation, leni_symsI, h2', hc, geti_cons_zero, geti_cons_one, whereNZ_arsI, hnt, leni,
      symsI_length, arsI_length, hinb0, hgeti, hfind, hk', hinb1, hg1, hs, hcat, getrow, hntpos]

end TFV.SrcTie
