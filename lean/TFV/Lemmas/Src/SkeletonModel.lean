/- the translated skeleton of `fit()` and the model trajectory `Cfg.trajFrom` describe the same run:
   fed with the stopping-rule results the model computes along its own trajectory, the skeleton
   performs one evaluation per model state and one callback per state after the first. -/
import TFV.Lemmas.Src.Skeleton
import TFV.Model.EA

namespace TFV.SrcTie
open TFV.EA

/-- the results of `_termitation_check()` along the model trajectory -/
def stopsAlong {G P : Type} (c : Cfg G P) (fl : Flavour) (oracle : St G P → List G) : Nat → St G P → List Bool
  | 0, _ => []
  | n + 1, s =>
    if c.stop s then [true]
    else
      let s' := c.step fl s (oracle s)
      false :: stopsAlong c fl oracle n { s' with callbacks := s'.callbacks + 1 }

/-- the state after one further generation and its callback -/
def nextSt {G P : Type} (c : Cfg G P) (fl : Flavour) (oracle : St G P → List G) (s : St G P) : St G P :=
  { c.step fl s (oracle s) with callbacks := (c.step fl s (oracle s)).callbacks + 1 }

theorem traj_succ_false {G P : Type} (c : Cfg G P) (fl : Flavour) (oracle : St G P → List G) (n : Nat) (s : St G P)
    (h : c.stop s = false) :
    c.trajFrom fl oracle (n + 1) s = s :: c.trajFrom fl oracle n (nextSt c fl oracle s) := by
  simp [Cfg.trajFrom, h, nextSt]

theorem stops_succ_false {G P : Type} (c : Cfg G P) (fl : Flavour) (oracle : St G P → List G) (n : Nat) (s : St G P)
    (h : c.stop s = false) :
    stopsAlong c fl oracle (n + 1) s = false :: stopsAlong c fl oracle n (nextSt c fl oracle s) := by
  simp [stopsAlong, h, nextSt]

theorem count_genBlock (cb : Bool) :
    (genBlock cb).count 3 = 1 ∧ (genBlock cb).count 7 = (if cb then 1 else 0) := by
  cases cb <;> simp [genBlock]

theorem skeleton_traj {G P : Type} (c : Cfg G P) (fl : Flavour) (oracle : St G P → List G) (cb : Bool)
    (n : Nat) (s : St G P) :
    ∃ tr, fitTail cb n (stopsAlong c fl oracle n s) = some tr ∧
      tr.count 3 + 1 = (c.trajFrom fl oracle n s).length ∧
      tr.count 7 = (if cb then tr.count 3 else 0) := by
  induction n generalizing s with
  | zero => exact ⟨[], by simp [fitTail], by simp [Cfg.trajFrom], by simp⟩
  | succ n ih =>
    by_cases hs : c.stop s = true
    · refine ⟨[4, 5], by simp [fitTail, stopsAlong, hs], by simp [Cfg.trajFrom, hs], by simp⟩
    · have hs' : c.stop s = false := by simpa using hs
      obtain ⟨tr, h1, h2, h3⟩ := ih (nextSt c fl oracle s)
      have hg := count_genBlock cb
      refine ⟨genBlock cb ++ tr, by simp [stops_succ_false c fl oracle n s hs', fitTail, h1], ?_, ?_⟩
      · rw [traj_succ_false c fl oracle n s hs']
        simp only [List.length_cons, List.count_append, hg.1]
        omega
      · simp only [List.count_append, hg.1, hg.2, h3]
        cases cb <;> simp <;> omega

end TFV.SrcTie
