/-
  TFV.Lemmas.Src.GrowDefs — the model-side reading of `Tree.full_growing_method` / `Tree.growing_method`:
  the stack loop with the universal set's draws explicit.
-/
import TFV.Model.Tree

namespace TFV.SrcTie
open TFV.Tree

/-- `full` = full_growing_method (a functional node everywhere above `L`), otherwise growing_method (functional at
    the root, a coin `u < key` decides terminal / functional elsewhere).  `randF k` / `randT k` = the symbol the
    k-th call (counted over both kinds) of `uniset._random_functional()` / `_random_terminal_or_ephemeral()`
    returns, `ar` = the arity recorded in a node.  Stack entries (open argument slots, their level) as in
    `Tree.growAux`.  `none` = fuel or coins ran out. -/
def growRunAux (full : Bool) (L : Nat) (ar : Nat → Nat) (randF randT : Nat → Nat) (key : Int) :
    Nat → List (Nat × Nat) → Nat → List Int → Flat → Option Flat
  | _, [], _, _, acc => some acc.reverse
  | 0, _ :: _, _, _, _ => none
  | fuel + 1, (c, lv) :: st, k, coins, acc =>
    let st' := if c - 1 = 0 then st else (c - 1, lv) :: st
    if lv = L then growRunAux full L ar randF randT key fuel st' (k + 1) coins ((randT k, 0) :: acc)
    else if full || lv = 0 then
      growRunAux full L ar randF randT key fuel ((ar (randF k), lv + 1) :: st') (k + 1) coins ((randF k, ar (randF k)) :: acc)
    else match coins with
      | [] => none
      | u :: coins' =>
        let sy := if u < key then randT k else randF k
        let st'' := if ar sy > 0 then (ar sy, lv + 1) :: st' else st'
        growRunAux full L ar randF randT key fuel st'' (k + 1) coins' ((sy, ar sy) :: acc)

def growRun (full : Bool) (L : Nat) (ar : Nat → Nat) (randF randT : Nat → Nat) (key : Int) (fuel : Nat) (coins : List Int) : Option Flat :=
  growRunAux full L ar randF randT key fuel [(1, 0)] 0 coins []

end TFV.SrcTie
