/-
  TFV.Lemmas.Src.BinKernels — the translated binary variation kernels (`flip_mutation`,
  `binomialGA`, `one_point_crossover`, `two_point_crossover`, `uniform_crossover`) equal the models
  of TFV.Model.BinOps.
-/
import TFV.Generated.Src.flip_mutation
import TFV.Generated.Src.binomialGA
import TFV.Generated.Src.one_point_crossover
import TFV.Generated.Src.two_point_crossover
import TFV.Generated.Src.uniform_crossover
import TFV.Model.BinOps
import TFV.Lemmas.Src.ImpLemmas2

namespace TFV.SrcTie
open TFV.Generated.Src TFV.Imp

theorem geti_map_decide (us : List Int) (p : Int) (k : Nat) (hk : k < us.length) :
    (us.map fun u => decide (u < p)).getD k false = decide (geti us (k : Int) < p) := by
  simp [geti_ofNat, List.getD_eq_getElem?_getD, hk]

theorem src_flip_mutation (x : List Int) (p : Int) (us : List Int) (hus : x.length ≤ us.length) :
    flip_mutation x p us = some (BinOps.flip x (us.map fun u => decide (u < p))) := by
  unfold flip_mutation
  simp only [leni]
  generalize hA : BinOps.flip x (us.map fun u => decide (u < p)) = A
  have hAlen : A.length = x.length := by simp [← hA, BinOps.flip]
  have hAget : ∀ k, k < x.length → A.getD k 0 =
      (if decide (geti us (k : Int) < p) then 1 - x.getD k 0 else x.getD k 0) := by
    intro k hk
    rw [← geti_map_decide us p k (by omega)]
    simp [← hA, BinOps.flip, List.getD_eq_getElem?_getD, hk]
  refine forRange_elim
    (P := fun k (s : flip_mutation.S) => s.brk = false ∧ s.err = false ∧ s.dry = false ∧
      s.ku = k ∧ s.offspring = A.take k ++ x.drop k)
    (Q := fun s => (if (s.err || s.dry) = true then none else some s.offspring) = some A)
    _ _ _ _ _ ?_ ?_ ?_
  · simp
  · intro k s hk ⟨hb, he, hd, hu, ht⟩
    have hk' : k < x.length := by simpa using hk
    have hlen := take_drop_length A x k hAlen
    have hg := hAget k hk'
    have hdry : decide (us.length ≤ k) = false := by simp; omega
    simp only [hb, he, hd, hu, ht, Bool.false_eq_true, if_false, Int.zero_add, seti_ofNat,
      geti_ofNat (A.take k ++ x.drop k), take_drop_getD A x k hAlen, hdry,
      inb_of_lt _ k (hlen ▸ hk'), Bool.not_true, Bool.or_self]
    by_cases h1 : geti us (k : Int) < p
    · simp only [h1, decide_true, if_true] at hg
      simp only [h1, decide_true, if_true, true_and]
      exact take_drop_set A x k hk' hAlen _ hg.symm
    · simp only [h1, decide_false, Bool.false_eq_true, if_false] at hg
      simp only [h1, decide_false, Bool.false_eq_true, if_false, true_and]
      exact take_drop_keep A x k hk' hAlen hg.symm
  · intro s ⟨_, he, hd, _, ht⟩
    simp [he, hd, ht, ← hAlen]

theorem binomial_model_length (x m : List Int) (mask : List Bool) (j : Nat)
    (hm : m.length = x.length) : (BinOps.binomial x m mask j).length = x.length := by
  simp [BinOps.binomial, hm]

theorem binomial_model_getD (x m : List Int) (mask : List Bool) (j k : Nat)
    (hm : m.length = x.length) (hk : k < x.length) :
    (BinOps.binomial x m mask j).getD k 0 =
      (if mask.getD k false || decide ((k : Int) = (j : Int)) then m.getD k 0 else x.getD k 0) := by
  have hk2 : k < m.length := by omega
  have hd : decide ((k : Int) = (j : Int)) = (k == j) := by
    rw [Bool.eq_iff_iff]; simp; omega
  have hz : (x.zip m)[k]? = some (x[k], m[k]) := by
    rw [List.getElem?_eq_getElem (by simp; omega)]; simp
  simp only [BinOps.binomial, List.getD_eq_getElem?_getD, List.getElem?_mapIdx, hd, hz,
    List.getElem?_eq_getElem hk, List.getElem?_eq_getElem hk2, Option.map_some, Option.getD_some]

theorem src_binomialGA (x m : List Int) (cr : Int) (us : List Int) (j : Nat) (rest : List Int)
    (hm : m.length = x.length) (hus : x.length ≤ us.length) :
    binomialGA x m cr us ((j : Int) :: rest) =
      some (BinOps.binomial x m (us.map fun u => decide (u < cr)) j) := by
  unfold binomialGA
  simp only [leni]
  generalize hA : BinOps.binomial x m (us.map fun u => decide (u < cr)) j = A
  have hAlen : A.length = x.length := by rw [← hA]; exact binomial_model_length x m _ j hm
  have hAget : ∀ k, k < x.length → A.getD k 0 =
      (if decide (geti us (k : Int) < cr) || decide ((k : Int) = (j : Int)) then m.getD k 0
       else x.getD k 0) := by
    intro k hk
    rw [← geti_map_decide us cr k (by omega), ← hA]
    exact binomial_model_getD x m _ j k hm hk
  refine forRange_elim
    (P := fun k (s : binomialGA.S) => s.brk = false ∧ s.err = false ∧ s.dry = false ∧
      s.ku = k ∧ s.j = (j : Int) ∧ s.offspring = A.take k ++ x.drop k)
    (Q := fun s => (if (s.err || s.dry) = true then none else some s.offspring) = some A)
    _ _ _ _ _ ?_ ?_ ?_
  · simp [geti]
  · intro k s hk ⟨hb, he, hd, hu, hj, ht⟩
    have hk' : k < x.length := by simpa using hk
    have hlen := take_drop_length A x k hAlen
    have hg := hAget k hk'
    have hdry : decide (us.length ≤ k) = false := by simp; omega
    simp only [hb, he, hd, hu, hj, ht, Bool.false_eq_true, if_false, Int.zero_add, seti_ofNat,
      geti_ofNat m, hdry, inb_of_lt _ k (hlen ▸ hk'), inb_of_lt m k (hm ▸ hk'), Bool.not_true,
      Bool.or_self]
    by_cases h1 : (decide (geti us (k : Int) < cr) || decide ((k : Int) = (j : Int))) = true
    · simp only [h1, if_true] at hg
      simp only [h1, if_true, true_and]
      exact take_drop_set A x k hk' hAlen _ hg.symm
    · simp only [h1, Bool.false_eq_true, if_false] at hg
      simp only [h1, Bool.false_eq_true, if_false, true_and]
      exact take_drop_keep A x k hk' hAlen hg.symm
  · intro s ⟨_, he, hd, _, _, ht⟩
    simp [he, hd, ht, ← hAlen]

theorem src_uniform_crossover (ps : List (List Int)) (fit rank : List Int) (ch : List Nat)
    (hne : ps ≠ []) (hrows : ∀ r ∈ ps, r.length = (ps.headD []).length)
    (hlen : ch.length = (ps.headD []).length) (hch : ∀ c ∈ ch, c < ps.length)
    (sampler : Int → Int → Bool → Nat → List Int)
    (hsm : sampler (fit.length : Int) ((ps.headD []).length : Int) true 0 = ch.map Int.ofNat) :
    uniform_crossover ps fit rank sampler = some (BinOps.uniformX ps ch) := by
  unfold uniform_crossover
  simp only [leni, getrow_zero, hsm]
  generalize hL : (ps.headD []).length = L at *
  generalize hA : BinOps.uniformX ps ch = A
  have hAlen : A.length = (List.replicate L (0 : Int)).length := by
    simp only [← hA, BinOps.uniformX, BinOps.len, hL, List.length_map, List.length_range,
      List.length_replicate]
  have hAget : ∀ k, k < L → A.getD k 0 = (ps.getD (ch.getD k 0) []).getD k 0 := by
    intro k hk
    simp only [← hA, BinOps.uniformX, BinOps.len, BinOps.gene, hL]
    simp [List.getD_eq_getElem?_getD, hk]
  have h0 : inbM ps (0 : Int) = true := by
    cases ps with
    | nil => exact absurd rfl hne
    | cons a t => simp [inbM]
  refine forRange_elim
    (P := fun k (s : uniform_crossover.S) => s.brk = false ∧ s.err = false ∧ s.dry = false ∧
      s.choosen = ch.map Int.ofNat ∧ s.offspring = A.take k ++ (List.replicate L (0 : Int)).drop k)
    (Q := fun s => (if (s.err || s.dry) = true then none else some s.offspring) = some A)
    _ _ _ _ _ ?_ ?_ ?_
  · simp [h0]
  · intro k s hk ⟨hb, he, hd, hc, ht⟩
    have hk' : k < L := by simpa using hk
    have hk'' : k < (List.replicate L (0 : Int)).length := by simpa using hk'
    have hlen' := take_drop_length A _ k hAlen
    have hcl : ch.getD k 0 < ps.length := hch _ (getD_mem_nat ch k (by omega))
    have hrl : (ps.getD (ch.getD k 0) []).length = L := hrows _ (getD_row_mem ps _ hcl)
    simp only [hb, he, hd, hc, ht, Bool.false_eq_true, if_false, Int.zero_add, seti_ofNat,
      getD_map_ofNat, getrow_ofNat, geti_ofNat,
      inb_of_lt (ch.map Int.ofNat) k (by simp; omega), inbM_of_lt ps _ hcl,
      inb_of_lt _ k (hrl ▸ hk'), inb_of_lt _ k (hlen' ▸ hk''), Bool.not_true, Bool.or_self,
      true_and]
    exact take_drop_set A _ k hk'' hAlen _ (hAget k hk').symm
  · intro s ⟨_, he, hd, _, ht⟩
    have : A.length = L := by simpa using hAlen
    simp [he, hd, ht, ← this]

theorem onePoint_model (a b : List Int) (more : List (List Int)) (cut : Nat) (coin : Bool)
    (_hab : b.length = a.length) :
    (BinOps.onePoint (a :: b :: more) cut coin).length = a.length ∧
    ∀ k, k < a.length → (BinOps.onePoint (a :: b :: more) cut coin).getD k 0 =
      (if coin then (if (k : Int) > (cut : Int) then b.getD k 0 else a.getD k 0)
       else (if (k : Int) > (cut : Int) then a.getD k 0 else b.getD k 0)) := by
  constructor
  · simp [BinOps.onePoint, BinOps.len]
  · intro k hk
    have hc : ((k : Int) > (cut : Int)) ↔ k > cut := by omega
    simp only [BinOps.onePoint, BinOps.len, BinOps.gene, hc]
    simp [List.getD_eq_getElem?_getD, hk]

theorem src_one_point_crossover (a b : List Int) (more : List (List Int)) (fit rank : List Int)
    (cut : Nat) (srest : List Int) (key u : Int) (urest : List Int) (hab : b.length = a.length)
    (sampler : Int → Int → Bool → Nat → List Int)
    (hsm : sampler (a.length : Int) 1 true 0 = (cut : Int) :: srest) :
    one_point_crossover (a :: b :: more) fit rank key (u :: urest) sampler =
      some (BinOps.onePoint (a :: b :: more) cut (decide (u < key))) := by
  unfold one_point_crossover
  have g0 : ∀ (x : Int) l, geti (x :: l) ((0 : Nat) : Int) = x := fun _ _ => rfl
  have g0' : ∀ (x : Int) l, geti (x :: l) (0 : Int) = x := fun _ _ => rfl
  have r0 : getrow (a :: b :: more) (0 : Int) = a := rfl
  have r1 : getrow (a :: b :: more) (1 : Int) = b := rfl
  have i0 : inbM (a :: b :: more) (0 : Int) = true := by simp [inbM]; omega
  have i1 : inbM (a :: b :: more) (1 : Int) = true := by simp [inbM]; omega
  have i2 : inb ((cut : Int) :: srest) (0 : Int) = true := by simp [inb]
  obtain ⟨hAlen, hAget⟩ := onePoint_model a b more cut (decide (u < key)) hab
  generalize BinOps.onePoint (a :: b :: more) cut (decide (u < key)) = A at hAlen hAget ⊢
  by_cases hc : u < key
  · simp only [hc, decide_true, if_true] at hAget
    simp only [g0, g0', r0, r1, hc, decide_true, if_true, leni, hsm]
    refine forRange_elim
      (P := fun k (s : one_point_crossover.S) => s.brk = false ∧ s.err = false ∧ s.dry = false ∧
        s.cross_point = (cut : Int) ∧ s.offspring = A.take k ++ a.drop k)
      (Q := fun s => (if (s.err || s.dry) = true then none else some s.offspring) = some A)
      _ _ _ _ _ ?_ ?_ ?_
    · simp [i0, i2]
    · intro k s hk ⟨hb, he, hd, hcp, ht⟩
      have hk' : k < a.length := by simpa using hk
      have hlen := take_drop_length A a k hAlen
      have hg := hAget k hk'
      simp only [hb, he, hd, hcp, ht, Bool.false_eq_true, if_false, Int.zero_add, seti_ofNat,
        geti_ofNat, i1, inb_of_lt _ k (hlen ▸ hk'), inb_of_lt b k (hab ▸ hk'), Bool.not_true,
        Bool.or_self]
      by_cases h1 : (k : Int) > (cut : Int)
      · simp only [h1, if_true] at hg
        simp only [h1, decide_true, if_true, true_and]
        exact take_drop_set A a k hk' hAlen _ hg.symm
      · simp only [h1, if_false] at hg
        simp only [h1, decide_false, Bool.false_eq_true, if_false, true_and]
        exact take_drop_keep A a k hk' hAlen hg.symm
    · intro s ⟨_, he, hd, _, ht⟩
      simp [he, hd, ht, ← hAlen]
  · simp only [hc, decide_false, Bool.false_eq_true, if_false] at hAget
    simp only [g0, g0', r0, r1, hc, decide_false, Bool.false_eq_true, if_false, leni, hsm]
    have hAlen' : A.length = b.length := by omega
    refine forRange_elim
      (P := fun k (s : one_point_crossover.S) => s.brk = false ∧ s.err = false ∧ s.dry = false ∧
        s.cross_point = (cut : Int) ∧ s.offspring = A.take k ++ b.drop k)
      (Q := fun s => (if (s.err || s.dry) = true then none else some s.offspring) = some A)
      _ _ _ _ _ ?_ ?_ ?_
    · simp [i0, i1, i2]
    · intro k s hk ⟨hb, he, hd, hcp, ht⟩
      have hk' : k < a.length := by simpa using hk
      have hk'' : k < b.length := by omega
      have hlen := take_drop_length A b k hAlen'
      have hg := hAget k hk'
      simp only [hb, he, hd, hcp, ht, Bool.false_eq_true, if_false, Int.zero_add, seti_ofNat,
        geti_ofNat, i0, inb_of_lt _ k (hlen ▸ hk''), inb_of_lt a k hk', Bool.not_true,
        Bool.or_self]
      by_cases h1 : (k : Int) > (cut : Int)
      · simp only [h1, if_true] at hg
        simp only [h1, decide_true, if_true, true_and]
        exact take_drop_set A b k hk'' hAlen' _ hg.symm
      · simp only [h1, if_false] at hg
        simp only [h1, decide_false, Bool.false_eq_true, if_false, true_and]
        exact take_drop_keep A b k hk'' hAlen' hg.symm
    · intro s ⟨_, he, hd, _, ht⟩
      have e : ((a.length : Int) - 0).toNat = A.length := by omega
      rw [e, List.take_length, List.drop_eq_nil_of_le (by omega), List.append_nil] at ht
      simp [he, hd, ht]

theorem sorted_pair (c0 c1 : Nat) :
    sorted [(c0 : Int), (c1 : Int)] = [((min c0 c1 : Nat) : Int), ((max c0 c1 : Nat) : Int)] := by
  simp only [sorted, List.foldr, insertSorted]
  by_cases h : (c0 : Int) ≤ (c1 : Int)
  · have h' : c0 ≤ c1 := by omega
    simp [h, Nat.min_eq_left h', Nat.max_eq_right h']
  · have h' : c1 ≤ c0 := by omega
    simp [h, Nat.min_eq_right h', Nat.max_eq_left h']

theorem twoPoint_model (a b : List Int) (more : List (List Int)) (c0 c1 : Nat) (coin : Bool)
    (_hab : b.length = a.length) :
    (BinOps.twoPoint (a :: b :: more) c0 c1 coin).length = a.length ∧
    ∀ k, k < a.length → (BinOps.twoPoint (a :: b :: more) c0 c1 coin).getD k 0 =
      (if coin then
        (if (decide (((min c0 c1 : Nat) : Int) ≤ (k : Int)) && decide ((k : Int) ≤ ((max c0 c1 : Nat) : Int))) then b.getD k 0 else a.getD k 0)
       else (if (decide (((min c0 c1 : Nat) : Int) ≤ (k : Int)) && decide ((k : Int) ≤ ((max c0 c1 : Nat) : Int))) then a.getD k 0 else b.getD k 0)) := by
  constructor
  · simp [BinOps.twoPoint, BinOps.len]
  · intro k hk
    have h1 : (((min c0 c1 : Nat) : Int) ≤ (k : Int)) ↔ min c0 c1 ≤ k := by omega
    have h2 : ((k : Int) ≤ ((max c0 c1 : Nat) : Int)) ↔ k ≤ max c0 c1 := by omega
    simp only [BinOps.twoPoint, BinOps.len, BinOps.gene, h1, h2, Bool.and_eq_true, decide_eq_true_eq]
    simp [List.getD_eq_getElem?_getD, hk]

theorem src_two_point_crossover (a b : List Int) (more : List (List Int)) (fit rank : List Int)
    (c0 c1 : Nat) (key u : Int) (urest : List Int) (hab : b.length = a.length)
    (sampler : Int → Int → Bool → Nat → List Int)
    (hsm : sampler (a.length : Int) 2 false 0 = [(c0 : Int), (c1 : Int)]) :
    two_point_crossover (a :: b :: more) fit rank key (u :: urest) sampler =
      some (BinOps.twoPoint (a :: b :: more) c0 c1 (decide (u < key))) := by
  unfold two_point_crossover
  have g0 : ∀ (x : Int) l, geti (x :: l) ((0 : Nat) : Int) = x := fun _ _ => rfl
  have r0 : getrow (a :: b :: more) (0 : Int) = a := rfl
  have r1 : getrow (a :: b :: more) (1 : Int) = b := rfl
  have i0 : inbM (a :: b :: more) (0 : Int) = true := by simp [inbM]; omega
  have i1 : inbM (a :: b :: more) (1 : Int) = true := by simp [inbM]; omega
  obtain ⟨hAlen, hAget⟩ := twoPoint_model a b more c0 c1 (decide (u < key)) hab
  generalize BinOps.twoPoint (a :: b :: more) c0 c1 (decide (u < key)) = A at hAlen hAget ⊢
  generalize hlo : ((min c0 c1 : Nat) : Int) = lo at hAget
  generalize hhi : ((max c0 c1 : Nat) : Int) = hi at hAget
  have hs := sorted_pair c0 c1
  rw [hlo, hhi] at hs
  have c0' : inb [lo, hi] (0 : Int) = true := by simp [inb]
  have c1' : inb [lo, hi] (1 : Int) = true := by simp [inb]
  have gc0 : geti [lo, hi] (0 : Int) = lo := rfl
  have gc1 : geti [lo, hi] (1 : Int) = hi := rfl
  by_cases hc : u < key
  · simp only [hc, decide_true, if_true] at hAget
    simp only [g0, r0, r1, hc, decide_true, if_true, leni, hsm, hs]
    refine forRange_elim
      (P := fun k (s : two_point_crossover.S) => s.brk = false ∧ s.err = false ∧ s.dry = false ∧
        s.c_points = [lo, hi] ∧ s.other_individ = b ∧ s.offspring = A.take k ++ a.drop k)
      (Q := fun s => (if (s.err || s.dry) = true then none else some s.offspring) = some A)
      _ _ _ _ _ ?_ ?_ ?_
    · simp [i0, i1]
    · intro k s hk ⟨hb, he, hd, hcp, ho, ht⟩
      have hk' : k < a.length := by simpa using hk
      have hlen := take_drop_length A a k hAlen
      have hg := hAget k hk'
      simp only [hb, he, hd, hcp, ho, ht, Bool.false_eq_true, if_false, Int.zero_add, seti_ofNat,
        gc0, gc1, c0', c1', geti_ofNat, inb_of_lt _ k (hlen ▸ hk'), inb_of_lt b k (hab ▸ hk'),
        Bool.not_true, Bool.or_self]
      by_cases h1 : (decide (lo ≤ (k : Int)) && decide ((k : Int) ≤ hi)) = true
      · simp only [h1, if_true] at hg
        simp only [h1, if_true, true_and]
        exact take_drop_set A a k hk' hAlen _ hg.symm
      · simp only [h1, Bool.false_eq_true, if_false] at hg
        simp only [h1, Bool.false_eq_true, if_false, true_and]
        exact take_drop_keep A a k hk' hAlen hg.symm
    · intro s ⟨_, he, hd, _, _, ht⟩
      simp [he, hd, ht, ← hAlen]
  · simp only [hc, decide_false, Bool.false_eq_true, if_false] at hAget
    simp only [g0, r0, r1, hc, decide_false, Bool.false_eq_true, if_false, leni, hsm, hs]
    have hAlen' : A.length = b.length := by omega
    refine forRange_elim
      (P := fun k (s : two_point_crossover.S) => s.brk = false ∧ s.err = false ∧ s.dry = false ∧
        s.c_points = [lo, hi] ∧ s.other_individ = a ∧ s.offspring = A.take k ++ b.drop k)
      (Q := fun s => (if (s.err || s.dry) = true then none else some s.offspring) = some A)
      _ _ _ _ _ ?_ ?_ ?_
    · simp [i0, i1]
    · intro k s hk ⟨hb, he, hd, hcp, ho, ht⟩
      have hk' : k < a.length := by simpa using hk
      have hk'' : k < b.length := by omega
      have hlen := take_drop_length A b k hAlen'
      have hg := hAget k hk'
      simp only [hb, he, hd, hcp, ho, ht, Bool.false_eq_true, if_false, Int.zero_add, seti_ofNat,
        gc0, gc1, c0', c1', geti_ofNat, inb_of_lt _ k (hlen ▸ hk''), inb_of_lt a k hk',
        Bool.not_true, Bool.or_self]
      by_cases h1 : (decide (lo ≤ (k : Int)) && decide ((k : Int) ≤ hi)) = true
      · simp only [h1, if_true] at hg
        simp only [h1, if_true, true_and]
        exact take_drop_set A b k hk'' hAlen' _ hg.symm
      · simp only [h1, Bool.false_eq_true, if_false] at hg
        simp only [h1, Bool.false_eq_true, if_false, true_and]
        exact take_drop_keep A b k hk'' hAlen' hg.symm
    · intro s ⟨_, he, hd, _, _, ht⟩
      have e : ((a.length : Int) - 0).toNat = A.length := by omega
      rw [e, List.take_length, List.drop_eq_nil_of_le (by omega), List.append_nil] at ht
      simp [he, hd, ht]

end TFV.SrcTie
