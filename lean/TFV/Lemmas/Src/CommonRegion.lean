/-
  TFV.Lemmas.Src.CommonRegion — the translated `common_region_two_trees` equals the model
  `Tree.commonRegion2` on the arity arrays of two trees and makes no out-of-range access there.

  The loop is simulated in lock step with `commonRegion2Aux` (same fuel, one model step per
  iteration).  The invariant: the two cursors sit in front of two forests with the same number of
  trees (`n_k.drop i_k = arities (flatL F_k)`), so they run off the end together, and after the
  common prefix (`firstDiff`) they again sit in front of two non-empty forests of the same
  length, which makes both `find_end_subtree_from_i` calls start at a subtree root.
-/
import TFV.Generated.Src.common_region_two_trees
import TFV.Model.Tree
import TFV.Lemmas.TreeCR
import TFV.Lemmas.Src.TreeIdx

set_option linter.unusedSimpArgs false

namespace TFV.SrcTie
open TFV.Generated.Src TFV.Tree TFV.Imp

/-! ### pure facts: the common prefix of two forests of equal length -/

/-- walking along the common prefix of the arity sequences of two forests with the same number of
    trees ends in front of two non-empty forests with the same number of trees -/
theorem firstDiff_forest : ∀ (g : Nat) (F1 F2 : List RT), sizeL F1 ≤ g → F1.length = F2.length →
    F1 ≠ [] →
    ∃ G1 G2 : List RT, G1 ≠ [] ∧ G1.length = G2.length ∧
      (arities (flatL F1)).drop (firstDiff (arities (flatL F1)) (arities (flatL F2))) =
        arities (flatL G1) ∧
      (arities (flatL F2)).drop (firstDiff (arities (flatL F1)) (arities (flatL F2))) =
        arities (flatL G2) := by
  intro g
  induction g with
  | zero =>
    intro F1 F2 hg _ hne
    have hl := length_le_sizeL F1
    exact absurd (List.length_eq_zero_iff.1 (by omega)) hne
  | succ g ih =>
    intro F1 F2 hg hlen hne
    match F1, F2, hlen, hne with
    | [], _, _, hne => exact absurd rfl hne
    | .node s1 ks1 :: F1, .node s2 ks2 :: F2, hlen, _ =>
      rw [sizeL_cons, size_node] at hg
      have hlen' : F1.length = F2.length := by simpa using hlen
      have e1 : arities (flatL (.node s1 ks1 :: F1)) = ks1.length :: arities (flatL (ks1 ++ F1)) := by
        rw [flatL_cons, arities_append, arities_flat_node, flatL_append, arities_append]; rfl
      have e2 : arities (flatL (.node s2 ks2 :: F2)) = ks2.length :: arities (flatL (ks2 ++ F2)) := by
        rw [flatL_cons, arities_append, arities_flat_node, flatL_append, arities_append]; rfl
      by_cases hab : ks1.length = ks2.length
      · cases hr1 : arities (flatL (ks1 ++ F1)) with
        | nil =>
          refine ⟨.node s1 ks1 :: F1, .node s2 ks2 :: F2, by simp, hlen, ?_, ?_⟩ <;>
            rw [e1, e2, hr1, hab] <;> simp [firstDiff]
        | cons x r1 =>
          cases hr2 : arities (flatL (ks2 ++ F2)) with
          | nil =>
            refine ⟨.node s1 ks1 :: F1, .node s2 ks2 :: F2, by simp, hlen, ?_, ?_⟩ <;>
              rw [e1, e2, hr1, hr2, hab] <;> simp [firstDiff]
          | cons y r2 =>
            have hne' : ks1 ++ F1 ≠ [] := by
              intro h; rw [h] at hr1; simp at hr1
            obtain ⟨G1, G2, hG, hGl, h1, h2⟩ := ih (ks1 ++ F1) (ks2 ++ F2)
              (by rw [sizeL_append]; omega) (by simp [hab, hlen']) hne'
            refine ⟨G1, G2, hG, hGl, ?_, ?_⟩
            · rw [e1, e2, hr1, hr2, hab, firstDiff_eq, Nat.add_comm 1, List.drop_succ_cons,
                ← hr1, ← hr2, h1]
            · rw [e1, e2, hr1, hr2, hab, firstDiff_eq, Nat.add_comm 1, List.drop_succ_cons,
                ← hr1, ← hr2, h2]
      · refine ⟨.node s1 ks1 :: F1, .node s2 ks2 :: F2, by simp, hlen, ?_, ?_⟩ <;>
          rw [e1, e2, firstDiff_ne _ _ _ _ hab] <;> rfl

theorem lt_length_of_drop_ne_nil {l : List Nat} {i : Nat} (h : l.drop i ≠ []) : i < l.length := by
  by_cases hi : i < l.length
  · exact hi
  · exact absurd (List.drop_eq_nil_iff.2 (by omega)) h

theorem arities_flatL_ne_nil {G : List RT} (h : G ≠ []) : arities (flatL G) ≠ [] := by
  cases G with
  | nil => exact absurd rfl h
  | cons t G =>
    intro h0
    have := congrArg List.length h0
    rw [arities_length, size_flatL, sizeL_cons] at this
    have := size_pos t
    simp at *; omega

/-- `find_end_subtree_from_i` at a subtree root of a plain arity list -/
theorem src_fes_nat (n : List Nat) (i : Nat) (t : RT) (rest : List Nat)
    (h : n.drop i = arities (flat t) ++ rest) :
    find_end_subtree_from_i (i : Int) (n.map Int.ofNat) = some ((i + t.size : Nat) : Int) := by
  have hi : i < n.length := by
    apply lt_length_of_drop_ne_nil
    rw [h]
    have := flat_ne_nil t
    cases hf : flat t with
    | nil => exact absurd hf this
    | cons a l => simp
  have key := src_find_end_subtree_size ((n.take i).map fun a => ((0 : Nat), a))
    (rest.map fun a => ((0 : Nat), a)) t
  have hpre : ((n.take i).map fun a => ((0 : Nat), a)).length = i := by
    simp only [List.length_map, List.length_take]; omega
  have hn : arInt (((n.take i).map fun a => ((0 : Nat), a)) ++ flat t ++
      (rest.map fun a => ((0 : Nat), a))) = n.map Int.ofNat := by
    have : arities (((n.take i).map fun a => ((0 : Nat), a)) ++ flat t ++
        (rest.map fun a => ((0 : Nat), a))) = n := by
      rw [arities_append, arities_append]
      have e : ∀ l : List Nat, arities (l.map fun a => ((0 : Nat), a)) = l := by
        intro l; simp [arities, Function.comp_def]
      rw [e, e, List.append_assoc, ← h, List.take_append_drop]
    simp only [arInt, this]
  rw [hpre, hn] at key
  exact key

/-! ### the state relation and the simulation -/

/-- the kernel state represents the model's loop variables `(i1, i2, acc)`; no out-of-range access
    so far -/
def CRRel (n1 n2 : List Nat) (brk : Bool) (s : common_region_two_trees.S) (i1 i2 : Nat)
    (acc : CR2) : Prop :=
  s.brk = brk ∧ s.err = false ∧ s.dry = false ∧
  s.index_1 = (i1 : Int) ∧ s.index_2 = (i2 : Int) ∧
  s.index_list_1 = (List.range n1.length).map Int.ofNat ∧
  s.index_list_2 = (List.range n2.length).map Int.ofNat ∧
  s.common_1 = acc.c1.map Int.ofNat ∧ s.common_2 = acc.c2.map Int.ofNat ∧
  s.border_1 = acc.b1.map Int.ofNat ∧ s.border_2 = acc.b2.map Int.ofNat

/-- the common indices added by one iteration -/
def crCommon (acc : CR2) (i1 i2 e : Nat) : CR2 :=
  { acc with c1 := acc.c1 ++ (List.range (e + 1)).map (· + i1),
             c2 := acc.c2 ++ (List.range (e + 1)).map (· + i2) }

/-- the border pair added by one iteration -/
def crBorder (acc : CR2) (j1 j2 : Nat) : CR2 :=
  { acc with b1 := acc.b1 ++ [j1], b2 := acc.b2 ++ [j2] }

/-- what one iteration of the translated loop does (the two cases that occur on forests) -/
structure CRBody (n1 n2 : List Nat)
    (b : common_region_two_trees.S → common_region_two_trees.S) : Prop where
  /-- both cursors past the end: `break` -/
  done : ∀ s i1 i2 acc, CRRel n1 n2 false s i1 i2 acc → n1.length ≤ i1 → n2.length ≤ i2 →
    CRRel n1 n2 true (b s) i1 i2 acc
  /-- both cursors inside, and still inside after the common prefix -/
  step : ∀ s i1 i2 acc, CRRel n1 n2 false s i1 i2 acc → ∀ e : Nat,
    e = firstDiff (n1.drop i1) (n2.drop i2) → i1 + e < n1.length → i2 + e < n2.length →
    if n1.length - 1 > i1 + e ∨ n2.length - 1 > i2 + e then
      ∀ j1 j2 : Nat,
        find_end_subtree_from_i ((i1 + e : Nat) : Int) (n1.map Int.ofNat) = some (j1 : Int) →
        find_end_subtree_from_i ((i2 + e : Nat) : Int) (n2.map Int.ofNat) = some (j2 : Int) →
        CRRel n1 n2 false (b s) j1 j2 (crBorder (crCommon acc i1 i2 e) (i1 + e) (i2 + e))
    else CRRel n1 n2 true (b s) (i1 + e) (i2 + e) (crCommon acc i1 i2 e)

theorem cr2_unfold (n1 n2 : List Nat) (fuel i1 i2 : Nat) (acc : CR2) (h1 : i1 < n1.length)
    (h2 : i2 < n2.length) :
    commonRegion2Aux n1 n2 (fuel + 1) i1 i2 acc =
      (if n1.length - 1 > i1 + firstDiff (n1.drop i1) (n2.drop i2) ∨
          n2.length - 1 > i2 + firstDiff (n1.drop i1) (n2.drop i2) then
        commonRegion2Aux n1 n2 fuel (endSub (i1 + firstDiff (n1.drop i1) (n2.drop i2)) n1)
          (endSub (i2 + firstDiff (n1.drop i1) (n2.drop i2)) n2)
          (crBorder (crCommon acc i1 i2 (firstDiff (n1.drop i1) (n2.drop i2)))
            (i1 + firstDiff (n1.drop i1) (n2.drop i2)) (i2 + firstDiff (n1.drop i1) (n2.drop i2)))
      else crCommon acc i1 i2 (firstDiff (n1.drop i1) (n2.drop i2))) := by
  rw [commonRegion2Aux]
  simp only [h1, h2, and_self, if_true, crBorder, crCommon]

/-- lock-step simulation on forests -/
theorem cr_sim (n1 n2 : List Nat)
    (c : common_region_two_trees.S → Bool) (b : common_region_two_trees.S → common_region_two_trees.S)
    (hc : ∀ s, c s = !s.brk) (hb : CRBody n1 n2 b) :
    ∀ (fuel : Nat) (F1 F2 : List RT) (i1 i2 : Nat) (acc : CR2) (s : common_region_two_trees.S),
      F1.length = F2.length → n1.drop i1 = arities (flatL F1) → n2.drop i2 = arities (flatL F2) →
      CRRel n1 n2 false s i1 i2 acc →
      ∃ (j1 j2 : Nat) (bk : Bool),
        CRRel n1 n2 bk (whileN fuel c b s) j1 j2 (commonRegion2Aux n1 n2 fuel i1 i2 acc) := by
  intro fuel
  induction fuel with
  | zero =>
    intro F1 F2 i1 i2 acc s _ _ _ hR
    exact ⟨i1, i2, false, hR⟩
  | succ fuel ih =>
    intro F1 F2 i1 i2 acc s hlen h1 h2 hR
    have hcs : c s = true := by rw [hc, hR.1]; rfl
    rw [whileN_step _ _ _ _ hcs]
    by_cases hF : F1 = []
    · have hF2 : F2 = [] := List.length_eq_zero_iff.1 (by rw [← hlen, hF]; rfl)
      subst hF hF2
      simp only [flatL_nil, arities_nil, List.drop_eq_nil_iff] at h1 h2
      have hd := hb.done s i1 i2 acc hR h1 h2
      rw [whileN_of_false _ _ _ _ (by rw [hc, hd.1]; rfl), cr2_exhausted _ _ _ _ _ _ h1 h2]
      exact ⟨i1, i2, true, hd⟩
    · obtain ⟨G1, G2, hG, hGl, d1, d2⟩ := firstDiff_forest (sizeL F1) F1 F2 (Nat.le_refl _) hlen hF
      rw [← h1, ← h2] at d1 d2
      rw [List.drop_drop] at d1 d2
      generalize he : firstDiff (n1.drop i1) (n2.drop i2) = e at d1 d2
      have hG2 : G2 ≠ [] := by
        intro h; apply hG; apply List.length_eq_zero_iff.1; rw [hGl, h]; rfl
      have l1 : i1 + e < n1.length :=
        lt_length_of_drop_ne_nil (by rw [d1]; exact arities_flatL_ne_nil hG)
      have l2 : i2 + e < n2.length :=
        lt_length_of_drop_ne_nil (by rw [d2]; exact arities_flatL_ne_nil hG2)
      have hs := hb.step s i1 i2 acc hR e he.symm l1 l2
      rw [cr2_unfold n1 n2 fuel i1 i2 acc (by omega) (by omega), he]
      by_cases hcond : n1.length - 1 > i1 + e ∨ n2.length - 1 > i2 + e
      · rw [if_pos hcond] at hs ⊢
        match G1, G2, hG, hGl, d1, d2 with
        | u1 :: G1, u2 :: G2, _, hGl, d1, d2 =>
          rw [flatL_cons, arities_append] at d1 d2
          have hs' := hs _ _ (src_fes_nat n1 (i1 + e) u1 _ d1) (src_fes_nat n2 (i2 + e) u2 _ d2)
          rw [endSub_of_drop _ _ _ _ d1, endSub_of_drop _ _ _ _ d2]
          exact ih G1 G2 _ _ _ _ (by simpa using hGl) (drop_of_drop _ _ _ _ d1)
            (drop_of_drop _ _ _ _ d2) hs'
      · rw [if_neg hcond] at hs ⊢
        rw [whileN_of_false _ _ _ _ (by rw [hc, hs.1]; rfl)]
        exact ⟨_, _, true, hs⟩

/-! ### the translated loop body -/

theorem slice_range (len i e : Nat) (h : i + e < len) :
    Imp.slice ((List.range len).map Int.ofNat) (i : Int) ((i : Int) + (e : Int) + 1) =
      ((List.range (e + 1)).map (· + i)).map Int.ofNat := by
  have h1 : ((i : Int) + (e : Int) + 1).toNat = i + e + 1 := by omega
  simp only [Imp.slice, h1, Int.toNat_natCast, ← List.map_take, ← List.map_drop, List.take_range,
    List.map_map]
  rw [Nat.min_eq_left (by omega)]
  apply List.ext_getElem?
  intro j
  simp only [List.getElem?_map, List.getElem?_drop]
  by_cases hj : j < e + 1
  · rw [List.getElem?_range (by omega), List.getElem?_range hj]
    simp [Nat.add_comm]
  · rw [List.getElem?_eq_none (by simp; omega), List.getElem?_eq_none (by simp; omega)]
    rfl

theorem dropFrom_map (n : List Nat) (i : Nat) :
    Imp.dropFrom (n.map Int.ofNat) (i : Int) = (n.drop i).map Int.ofNat := by
  simp [Imp.dropFrom, List.map_drop]

theorem src_common_region_forest (n1 n2 : List Nat) (F1 F2 : List RT) (hlen : F1.length = F2.length)
    (h1 : n1 = arities (flatL F1)) (h2 : n2 = arities (flatL F2)) :
    common_region_two_trees (n1.map Int.ofNat) (n2.map Int.ofNat) =
      some ([(commonRegion2 n1 n2).c1, (commonRegion2 n1 n2).c2, (commonRegion2 n1 n2).b1,
        (commonRegion2 n1 n2).b2].map fun l => l.map Int.ofNat) := by
  unfold common_region_two_trees
  simp only [leni, List.length_map, Int.toNat_natCast]
  generalize hW : whileN _ _ _ _ = W
  obtain ⟨j1, j2, bk, -, he, hd, -, -, -, -, hc1, hc2, hb1, hb2⟩ : ∃ (j1 j2 : Nat) (bk : Bool),
      CRRel n1 n2 bk W j1 j2 (commonRegion2 n1 n2) := by
    rw [← hW]
    clear hW W
    refine cr_sim n1 n2 _ _ (fun s => by simp) ⟨?_, ?_⟩ _ F1 F2 0 0 {} _ hlen (by simpa using h1)
      (by simpa using h2) ?_
    · intro s i1 i2 acc ⟨hb, he, hd, hi1, hi2, hl1, hl2, hc1, hc2, hb1, hb2⟩ l1 l2
      have g1 : ¬ ((i1 : Int) < (n1.length : Int)) := by omega
      have g2 : ¬ ((n1.length : Int) - 1 > (i1 : Int)) := by omega
      have g3 : ¬ ((n2.length : Int) - 1 > (i2 : Int)) := by omega
      simp only [CRRel, hi1, hi2, g1, g2, g3, decide_false, Bool.false_and, Bool.or_false,
        Bool.false_eq_true, if_false, he, hd, hl1, hl2, hc1, hc2, hb1, hb2, and_self]
    · intro s i1 i2 acc ⟨hb, he, hd, hi1, hi2, hl1, hl2, hc1, hc2, hb1, hb2⟩ e hedef l1 l2
      have hne1 : n1.drop i1 ≠ [] := by
        intro h; have := List.drop_eq_nil_iff.1 h; omega
      have hne2 : n2.drop i2 ≠ [] := by
        intro h; have := List.drop_eq_nil_iff.1 h; omega
      have hfd : find_first_difference_between_two (dropFrom (n1.map Int.ofNat) (i1 : Int))
          (dropFrom (n2.map Int.ofNat) (i2 : Int)) = some (e : Int) := by
        rw [dropFrom_map, dropFrom_map, src_first_difference _ _ hne1 hne2, hedef]
      have g1 : (i1 : Int) < (n1.length : Int) := by omega
      have g2 : (i2 : Int) < (n2.length : Int) := by omega
      have z1 : ¬ ((i1 : Int) < 0) := by omega
      have z2 : ¬ ((i2 : Int) < 0) := by omega
      have z3 : ¬ ((i1 : Int) + (e : Int) + 1 < 0) := by omega
      have z4 : ¬ ((i2 : Int) + (e : Int) + 1 < 0) := by omega
      by_cases hcond : n1.length - 1 > i1 + e ∨ n2.length - 1 > i2 + e
      · rw [if_pos hcond]
        intro j1 j2 f1 f2
        rw [Int.natCast_add] at f1 f2
        have hcond' : ((n1.length : Int) - 1 > (i1 : Int) + (e : Int) ∨
            (n2.length : Int) - 1 > (i2 : Int) + (e : Int)) := by omega
        have hcb : (decide ((n1.length : Int) - 1 > (i1 : Int) + (e : Int)) ||
            decide ((n2.length : Int) - 1 > (i2 : Int) + (e : Int))) = true := by
          simpa using hcond'
        simp only [CRRel, hi1, hi2, g1, g2, z1, z2, z3, z4, hfd, f1, f2, decide_true, decide_false,
          Bool.and_self, Bool.or_self, Bool.or_false, if_true, hb, he, hd, hl1, hl2, hc1, hc2, hb1,
          hb2, slice_range _ _ _ l1, slice_range _ _ _ l2, hcb, crBorder, crCommon, List.map_append,
          List.map_cons, List.map_nil, Int.ofNat_eq_natCast, Int.natCast_add, and_self]
      · rw [if_neg hcond]
        have hcond' : ¬ ((n1.length : Int) - 1 > (i1 : Int) + (e : Int) ∨
            (n2.length : Int) - 1 > (i2 : Int) + (e : Int)) := by omega
        have hcb : (decide ((n1.length : Int) - 1 > (i1 : Int) + (e : Int)) ||
            decide ((n2.length : Int) - 1 > (i2 : Int) + (e : Int))) = false := by
          simpa using hcond'
        simp only [CRRel, hi1, hi2, g1, g2, z1, z2, z3, z4, hfd, decide_true, decide_false,
          Bool.and_self, Bool.or_self, Bool.or_false, if_true, hb, he, hd, hl1, hl2, hc1, hc2, hb1,
          hb2, slice_range _ _ _ l1, slice_range _ _ _ l2, hcb, crCommon, List.map_append,
          Int.natCast_add, Bool.false_eq_true, if_false, and_self]
    · exact ⟨rfl, rfl, rfl, rfl, rfl, rfl, rfl, rfl, rfl, rfl, rfl⟩
  simp [he, hd, hc1, hc2, hb1, hb2]

theorem src_common_region_two_trees (t1 t2 : RT) :
    common_region_two_trees ((arities (flat t1)).map Int.ofNat) ((arities (flat t2)).map Int.ofNat) =
      some ([(commonRegion2 (arities (flat t1)) (arities (flat t2))).c1,
        (commonRegion2 (arities (flat t1)) (arities (flat t2))).c2,
        (commonRegion2 (arities (flat t1)) (arities (flat t2))).b1,
        (commonRegion2 (arities (flat t1)) (arities (flat t2))).b2].map fun l => l.map Int.ofNat) :=
  src_common_region_forest _ _ [t1] [t2] rfl (by simp [flatL_cons]) (by simp [flatL_cons])

end TFV.SrcTie
