/-
  TFV.Lemmas.Src.Binomial — the translated DE `binomial` crossover equals `BinOps.binomial`
  (same argument as for `binomialGA`; the model facts are shared with TFV.Lemmas.Src.BinKernels).
-/
import TFV.Generated.Src.binomial
import TFV.Model.BinOps
import TFV.Lemmas.Src.BinKernels

namespace TFV.SrcTie
open TFV.Generated.Src TFV.Imp

theorem src_binomial (x m : List Int) (cr : Int) (us : List Int) (j : Nat) (rest : List Int)
    (hm : m.length = x.length) (hus : x.length ≤ us.length) :
    Generated.Src.binomial x m cr us ((j : Int) :: rest) =
      some (BinOps.binomial x m (us.map fun u => decide (u < cr)) j) := by
  unfold Generated.Src.binomial
  simp only [leni]
  generalize hA : BinOps.binomial x m (us.map fun u => decide (u < cr)) j = A
  have hAlen : A.length = x.length := by rw [← hA]; exact binomial_model_length x m _ j hm
  have hAget : ∀ k, k < x.length → A.getD k 0 =
      (if decide (geti us (k : Int) < cr) || decide ((k : Int) = (j : Int)) then m.getD k 0
       else x.getD k 0) := by
    intro k hk
    rw [← geti_map_decide us cr k (by omega), ← hA]
    exact binomial_model_getD x m _ j k hm hk
  refine forRange_elim
    (P := fun k (s : Generated.Src.binomial.S) => s.brk = false ∧ s.err = false ∧ s.dry = false ∧
      s.ku = k ∧ s.j = (j : Int) ∧ s.offspring = A.take k ++ x.drop k)
    (Q := fun s => (if (s.err || s.dry) = true then none else some s.offspring) = some A)
    _ _ _ _ _ ?_ ?_ ?_
  · simp [geti]
  · intro k s hk ⟨hb, he, hd, hu, hj, ht⟩
    have hk' : k < x.length := by simpa using hk
    have hlen := take_drop_length A x k hAlen
    have hg := hAget k hk'
    have hdry : decide (us.length ≤ k) = false := by simp; omega
    simp only [hb, he, hd, hu, hj, ht, Bool.false_eq_true, if_false, Int.zero_add, seti_ofNat,
      geti_ofNat m, hdry, inb_of_lt _ k (hlen ▸ hk'), inb_of_lt m k (hm ▸ hk'), Bool.not_true,
      Bool.or_self]
    by_cases h1 : (decide (geti us (k : Int) < cr) || decide ((k : Int) = (j : Int))) = true
    · simp only [h1, if_true] at hg
      simp only [h1, if_true, true_and]
      exact take_drop_set A x k hk' hAlen _ hg.symm
    · simp only [h1, Bool.false_eq_true, if_false] at hg
      simp only [h1, Bool.false_eq_true, if_false, true_and]
      exact take_drop_keep A x k hk' hAlen hg.symm
  · intro s ⟨_, he, hd, _, _, ht⟩
    simp [he, hd, ht, ← hAlen]

end TFV.SrcTie
