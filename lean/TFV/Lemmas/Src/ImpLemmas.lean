/-
  TFV.Lemmas.Src.ImpLemmas — generic facts about the imperative vocabulary of TFV.Model.Imp
  (`whileN`, `forRange`, `geti`, `seti`) used by the source-tie lemma files.
-/
import TFV.Model.Imp

namespace TFV.Imp

/-! ### whileN -/

theorem whileN_zero {σ : Type} (c : σ → Bool) (b : σ → σ) (s : σ) : whileN 0 c b s = s := rfl

theorem whileN_succ {σ : Type} (n : Nat) (c : σ → Bool) (b : σ → σ) (s : σ) :
    whileN (n + 1) c b s = if c s then whileN n c b (b s) else s := rfl

theorem whileN_of_false {σ : Type} (n : Nat) (c : σ → Bool) (b : σ → σ) (s : σ) (h : c s = false) :
    whileN n c b s = s := by
  cases n <;> simp [whileN, h]

theorem whileN_step {σ : Type} (n : Nat) (c : σ → Bool) (b : σ → σ) (s : σ) (h : c s = true) :
    whileN (n + 1) c b s = whileN n c b (b s) := by
  simp [whileN, h]

/-! ### forRange -/

/-- `n` iterations of a `for` loop starting at `lo` -/
def forN {σ : Type} (lo : Int) (stop : σ → Bool) (body : Int → σ → σ) (n : Nat) (s : σ) : σ :=
  (List.range n).foldl (fun s (k : Nat) => if stop s then s else body (lo + (k : Int)) s) s

theorem forRange_eq_forN {σ : Type} (lo hi : Int) (stop : σ → Bool) (body : Int → σ → σ) (s : σ) :
    forRange lo hi stop body s = forN lo stop body (hi - lo).toNat s := rfl

theorem forN_zero {σ : Type} (lo : Int) (stop : σ → Bool) (body : Int → σ → σ) (s : σ) :
    forN lo stop body 0 s = s := rfl

/-- peel the last iteration -/
theorem forN_succ {σ : Type} (lo : Int) (stop : σ → Bool) (body : Int → σ → σ) (n : Nat) (s : σ) :
    forN lo stop body (n + 1) s =
      (if stop (forN lo stop body n s) then forN lo stop body n s
       else body (lo + (n : Int)) (forN lo stop body n s)) := by
  simp only [forN, List.range_succ, List.foldl_append, List.foldl_cons, List.foldl_nil]
  rfl

/-- peel the first iteration -/
theorem forN_succ' {σ : Type} (lo : Int) (stop : σ → Bool) (body : Int → σ → σ) (n : Nat) (s : σ) :
    forN lo stop body (n + 1) s =
      forN (lo + 1) stop body n (if stop s then s else body lo s) := by
  simp only [forN, List.range_succ_eq_map, List.foldl_cons, List.foldl_map]
  simp only [Int.natCast_zero, Int.add_zero, Int.natCast_succ]
  congr 1
  funext s k
  rw [Int.add_assoc, Int.add_comm 1]

/-- once `stop` holds the remaining iterations are skipped -/
theorem forN_stop {σ : Type} (lo : Int) (stop : σ → Bool) (body : Int → σ → σ) (n : Nat) (s : σ)
    (h : stop s = true) : forN lo stop body n s = s := by
  induction n with
  | zero => rfl
  | succ n ih => rw [forN_succ, ih, if_pos h]

/-- loop invariant for `forN` -/
theorem forN_inv {σ : Type} (P : Nat → σ → Prop) (lo : Int) (stop : σ → Bool) (body : Int → σ → σ)
    (n : Nat) (s : σ) (h0 : P 0 s)
    (hstep : ∀ k s, k < n → P k s → P (k + 1) (if stop s then s else body (lo + (k : Int)) s)) :
    P n (forN lo stop body n s) := by
  induction n with
  | zero => exact h0
  | succ n ih =>
    rw [forN_succ]
    exact hstep n _ (Nat.lt_succ_self n) (ih fun k s hk => hstep k s (Nat.lt_succ_of_lt hk))

/-- loop invariant for `forRange` -/
theorem forRange_inv {σ : Type} (P : Nat → σ → Prop) (lo hi : Int) (stop : σ → Bool)
    (body : Int → σ → σ) (s : σ) (h0 : P 0 s)
    (hstep : ∀ k s, k < (hi - lo).toNat → P k s →
      P (k + 1) (if stop s then s else body (lo + (k : Int)) s)) :
    P (hi - lo).toNat (forRange lo hi stop body s) :=
  forN_inv P lo stop body _ s h0 hstep

/-- loop invariant for `forRange`, in continuation style (so that the loop body never has to be
    written out: `refine forRange_elim (P := …) (Q := fun s => …) ?_ ?_ ?_`) -/
theorem forRange_elim {σ : Type} (P : Nat → σ → Prop) (Q : σ → Prop) (lo hi : Int) (stop : σ → Bool)
    (body : Int → σ → σ) (s : σ) (h0 : P 0 s)
    (hstep : ∀ k s, k < (hi - lo).toNat → P k s →
      P (k + 1) (if stop s then s else body (lo + (k : Int)) s))
    (hfin : ∀ s, P (hi - lo).toNat s → Q s) :
    Q (forRange lo hi stop body s) :=
  hfin _ (forRange_inv P lo hi stop body s h0 hstep)

/-! ### geti / seti / leni -/

theorem geti_ofNat (a : List Int) (i : Nat) : geti a (i : Int) = a.getD i 0 := by
  simp [geti]

theorem seti_ofNat (a : List Int) (i : Nat) (v : Int) : seti a (i : Int) v = a.set i v := by
  simp [seti]

theorem geti_map_ofNat (a : List Nat) (i : Nat) :
    geti (a.map Int.ofNat) (i : Int) = ((a.getD i 0 : Nat) : Int) := by
  simp [geti, List.getD_eq_getElem?_getD, List.getElem?_map]
  cases a[i]? <;> simp

end TFV.Imp
