/-
  TFV.Lemmas.Src.SwapSort — `Imp.sortDescSnd` on the pairs (position, shuffled position) of
  `swap_mutation`: for strictly increasing positions and a permutation `sig` of the slots the sorted
  list visits the slots from the last to the first, each with the old argument that lands there.
-/
import TFV.Model.Imp

namespace TFV.SrcTie
open TFV.Imp

/-- the order `sortDescSnd` sorts by -/
def DescSnd (a b : Int × Int) : Prop := b.2 ≤ a.2

theorem insDescSnd_perm (p : Int × Int) (l : List (Int × Int)) : (insDescSnd p l).Perm (p :: l) := by
  induction l with
  | nil => simp [insDescSnd]
  | cons q qs ih =>
    simp only [insDescSnd]
    split
    · exact List.Perm.refl _
    · exact ((List.Perm.cons q ih).trans (List.Perm.swap p q qs))

theorem insDescSnd_pairwise (p : Int × Int) (l : List (Int × Int)) (h : l.Pairwise DescSnd) :
    (insDescSnd p l).Pairwise DescSnd := by
  induction l with
  | nil => simp [insDescSnd]
  | cons q qs ih =>
    simp only [insDescSnd]
    rw [List.pairwise_cons] at h
    split
    · rename_i hq
      refine List.pairwise_cons.2 ⟨?_, List.pairwise_cons.2 h⟩
      intro x hx
      rcases List.mem_cons.1 hx with rfl | hx
      · exact hq
      · have := h.1 x hx
        simp only [DescSnd] at this ⊢; omega
    · rename_i hq
      refine List.pairwise_cons.2 ⟨?_, ih h.2⟩
      intro x hx
      rcases List.mem_cons.1 ((insDescSnd_perm p qs).mem_iff.1 hx) with rfl | hx
      · simp only [DescSnd]; omega
      · exact h.1 x hx

theorem sortDescSnd_perm (a b : List Int) : (sortDescSnd a b).Perm (a.zip b) := by
  unfold sortDescSnd
  induction a.zip b with
  | nil => simp
  | cons p ps ih =>
    rw [List.foldr_cons]
    exact (insDescSnd_perm p _).trans (List.Perm.cons p ih)

theorem sortDescSnd_pairwise (a b : List Int) : (sortDescSnd a b).Pairwise DescSnd := by
  unfold sortDescSnd
  induction a.zip b with
  | nil => simp
  | cons p ps ih =>
    rw [List.foldr_cons]
    exact insDescSnd_pairwise p _ ih

/-- the pairs in the order the loop of `swap_mutation` visits them -/
def swapOrder (n : Nat) (g : Nat → Int) (sig : List Nat) : List (Int × Int) :=
  (List.range n).reverse.map fun s => (g (sig.idxOf s), g s)

theorem perm_range_length {n : Nat} {sig : List Nat} (hsig : sig.Perm (List.range n)) : sig.length = n := by
  simpa using hsig.length_eq

theorem perm_range_nodup {n : Nat} {sig : List Nat} (hsig : sig.Perm (List.range n)) : sig.Nodup :=
  hsig.nodup_iff.2 List.nodup_range

theorem zip_eq_map_sig (n : Nat) (g : Nat → Int) (sig : List Nat) (hsig : sig.Perm (List.range n)) :
    ((List.range n).map g).zip (sig.map g) = sig.map fun s => (g (sig.idxOf s), g s) := by
  have hlen := perm_range_length hsig
  have hnd := perm_range_nodup hsig
  apply List.ext_getElem
  · simp [hlen]
  · intro k h1 h2
    have hk : k < sig.length := by simpa using h2
    simp only [List.getElem_zip, List.getElem_map, List.getElem_range]
    rw [hnd.idxOf_getElem k hk]

theorem swapOrder_perm (n : Nat) (g : Nat → Int) (sig : List Nat) (hsig : sig.Perm (List.range n)) :
    (((List.range n).map g).zip (sig.map g)).Perm (swapOrder n g sig) := by
  rw [zip_eq_map_sig n g sig hsig]
  unfold swapOrder
  exact (hsig.map _).trans ((List.reverse_perm _).symm.map _)

theorem swapOrder_pairwise (n : Nat) (g : Nat → Int) (sig : List Nat)
    (hg : ∀ a b, a < b → b < n → g a < g b) :
    (swapOrder n g sig).Pairwise fun a b => b.2 < a.2 := by
  unfold swapOrder
  rw [List.pairwise_map, List.pairwise_reverse]
  have : (List.range n).Pairwise (· < ·) := List.pairwise_lt_range
  refine (List.Pairwise.and_mem.1 this).imp ?_
  intro a b ⟨_, hb, hab⟩
  exact hg a b hab (List.mem_range.1 hb)

theorem sortDescSnd_swap (n : Nat) (g : Nat → Int) (sig : List Nat) (hsig : sig.Perm (List.range n))
    (hg : ∀ a b, a < b → b < n → g a < g b) :
    sortDescSnd ((List.range n).map g) (sig.map g) = swapOrder n g sig := by
  have hp := (sortDescSnd_perm ((List.range n).map g) (sig.map g)).trans (swapOrder_perm n g sig hsig)
  have hs := swapOrder_pairwise n g sig hg
  refine List.Perm.eq_of_pairwise (le := DescSnd) ?_ (sortDescSnd_pairwise _ _) (hs.imp ?_) hp
  · intro a b ha hb hab hba
    -- both in `swapOrder`; equal second components force the same slot
    have ha' := hp.mem_iff.1 ha
    simp only [swapOrder, List.mem_map, List.mem_reverse, List.mem_range] at ha' hb
    obtain ⟨x, hx, rfl⟩ := ha'
    obtain ⟨y, hy, rfl⟩ := hb
    simp only [DescSnd] at hab hba
    have hxy : x = y := by
      rcases Nat.lt_trichotomy x y with h | h | h
      · have := hg x y h hy; omega
      · exact h
      · have := hg y x h hx; omega
    rw [hxy]
  · intro a b h
    simp only [DescSnd]; omega

theorem swapOrder_length (n : Nat) (g : Nat → Int) (sig : List Nat) : (swapOrder n g sig).length = n := by
  simp [swapOrder]

theorem swapOrder_getD (n : Nat) (g : Nat → Int) (sig : List Nat) (k : Nat) (hk : k < n) :
    (swapOrder n g sig)[k]'(by rw [swapOrder_length]; exact hk) =
      (g (sig.idxOf (n - 1 - k)), g (n - 1 - k)) := by
  simp [swapOrder, List.getElem_reverse]

end TFV.SrcTie
