/-
  TFV.Lemmas.Src.Levels — the translated `get_levels_tree_from_i` equals the model `Tree.levels`.

  The Python keeps two parallel list stacks (`s` = open argument slots, `d` = level of the parent of
  those arguments, i.e. level − 1) with the top at the END; the model `levelsAux` keeps one stack of
  pairs (slots, level) with the top at the HEAD.  The loop invariant relates the two by `stS` / `stD`;
  the loop breaks exactly when the model stack becomes empty, where `levelsAux` stops as well, so the
  simulation holds for every array and origin (in particular on `pre ++ flat t ++ post`, where the
  nodes of `post` are never visited) and no empty stack is ever popped.
-/
import TFV.Generated.Src.get_levels_tree_from_i
import TFV.Model.Tree
import TFV.Lemmas.Src.ImpLemmas2

namespace TFV.SrcTie
open TFV.Generated.Src TFV.Imp TFV.Tree

/-- the Python stack `s` of open slots for a model stack (top last) -/
def stS (st : List (Nat × Nat)) : List Int := (st.map fun p => (p.1 : Int)).reverse

/-- the Python stack `d` for a model stack: the level of the parent = level − 1 (top last) -/
def stD (st : List (Nat × Nat)) : List Int := (st.map fun p => (p.2 : Int) - 1).reverse

theorem stS_cons (c lv : Nat) (st : List (Nat × Nat)) : stS ((c, lv) :: st) = stS st ++ [(c : Int)] := by
  simp [stS]

theorem stD_cons (c lv : Nat) (st : List (Nat × Nat)) :
    stD ((c, lv) :: st) = stD st ++ [(lv : Int) - 1] := by
  simp [stD]

theorem last_snoc (l : List Int) (x : Int) : last (l ++ [x]) = x := by simp [last]

theorem setlast_snoc (l : List Int) (x v : Int) : setlast (l ++ [x]) v = l ++ [v] := by
  simp [setlast]

theorem isEmpty_snoc (l : List Int) (x : Int) : (l ++ [x]).isEmpty = false := by
  cases l <;> rfl

theorem leni_stS_zero (st : List (Nat × Nat)) : decide (leni (stS st) = 0) = st.isEmpty := by
  cases st with
  | nil => rfl
  | cons p st => simp [leni, stS]; omega

theorem leni_snoc_zero (l : List Int) (x : Int) : decide (leni (l ++ [x]) = 0) = false := by
  simp [leni]; omega

theorem levelsAux_nil_left (l : List Nat) : levelsAux [] l = [] := by
  cases l <;> rfl

theorem levelsAux_nil_right (st : List (Nat × Nat)) : levelsAux st [] = [] := by
  cases st <;> rfl

/-- the general simulation: on every array and every origin -/
theorem src_get_levels_gen (origin : Nat) (ar : List Nat) :
    get_levels_tree_from_i (origin : Int) (ar.map Int.ofNat) =
      some ((levels origin ar).map Int.ofNat) := by
  generalize hR : (levels origin ar).map Int.ofNat = R
  unfold get_levels_tree_from_i
  refine forRange_elim2
    (P := fun k (s : get_levels_tree_from_i.S) => ∃ st : List (Nat × Nat),
      s.err = false ∧ s.dry = false ∧ s.brk = st.isEmpty ∧ s.s' = stS st ∧ s.d = stD st ∧
      (∀ p ∈ st, 1 ≤ p.1) ∧
      s.result_list ++ (levelsAux st (ar.drop (origin + k))).map Int.ofNat = R)
    (Q := fun s => (if (s.err || s.dry) = true then none else some s.result_list) = some R)
    _ _ _ _ _ ?_ ?_ ?_ ?_
  · refine ⟨[(1, 0)], ?_⟩
    simp [stS, stD, ← hR, levels]
  · rintro k s hk ⟨st, he, hd, hb, hs, hdd, hpos, hres⟩ hstop
    rw [hb] at hstop
    have hst : st = [] := by cases st <;> simp_all
    subst hst
    refine ⟨[], he, hd, hb, hs, hdd, hpos, ?_⟩
    simpa [levelsAux_nil_left] using hres
  · rintro k s s1 hk ⟨st, he, hd, hb, hs, hdd, hpos, hres⟩ hstop hs1
    have hk' : origin + k < ar.length := by
      simp only [leni, List.length_map] at hk; omega
    rw [hb] at hstop
    cases st with
    | nil => simp at hstop
    | cons p st =>
      obtain ⟨c, lv⟩ := p
      have hc : 1 ≤ c := hpos (c, lv) (by simp)
      have hpos' : ∀ p ∈ st, 1 ≤ p.1 := fun p hp => hpos p (by simp [hp])
      have hdrop : ar.drop (origin + k) = ar.getD (origin + k) 0 :: ar.drop (origin + k + 1) := by
        rw [List.drop_eq_getElem_cons hk']
        simp [List.getD_eq_getElem?_getD, hk']
      have hg : geti (ar.map Int.ofNat) ((origin : Int) + (k : Int)) =
          ((ar.getD (origin + k) 0 : Nat) : Int) := by
        rw [show (origin : Int) + (k : Int) = ((origin + k : Nat) : Int) by omega, geti_map_ofNat]
      generalize ar.getD (origin + k) 0 = a at hdrop hg
      rw [hdrop] at hres
      simp only [levelsAux] at hres
      rw [stS_cons] at hs
      rw [stD_cons] at hdd
      have hb' : s.brk = false := by simpa using hb
      have elv : (lv : Int) - 1 + 1 = (lv : Int) := by omega
      have elv' : ((lv + 1 : Nat) : Int) - 1 = (lv : Int) := by omega
      have hk1 : origin + (k + 1) = origin + k + 1 := by omega
      by_cases hc1 : c = 1
      · subst hc1
        have e1 : ((1 : Nat) : Int) - 1 = 0 := rfl
        by_cases ha : 0 < a
        · have ha' : (0 : Int) < (a : Int) := by omega
          simp only [Nat.sub_self, if_true, gt_iff_lt, ha] at hres
          refine ⟨(a, lv + 1) :: st, ?_⟩
          subst hs1
          simp only [hb', he, hd, hs, hdd, hg, e1, ha', isEmpty_snoc, last_snoc, setlast_snoc,
            List.dropLast_concat, Bool.or_self, decide_true, if_true, leni_snoc_zero,
            Bool.false_eq_true, if_false, elv, hk1]
          refine ⟨trivial, trivial, rfl, (stS_cons a (lv + 1) st).symm, ?_, ?_, ?_⟩
          · rw [stD_cons, elv']
          · intro p hp
            rcases List.mem_cons.mp hp with rfl | hp
            · exact ha
            · exact hpos' p hp
          · rw [← hres]; simp
        · have ha' : ¬ (0 : Int) < (a : Int) := by omega
          simp only [Nat.sub_self, if_true, gt_iff_lt, ha, if_false] at hres
          refine ⟨st, ?_⟩
          subst hs1
          by_cases hE : st.isEmpty = true
          · simp only [hb', he, hd, hs, hdd, hg, e1, ha', isEmpty_snoc, last_snoc, setlast_snoc,
              List.dropLast_concat, Bool.or_self, decide_true, decide_false, if_true,
              leni_stS_zero, hE, Bool.false_eq_true, if_false, elv, hk1]
            refine ⟨trivial, trivial, trivial, trivial, trivial, hpos', ?_⟩
            rw [← hres]; simp
          · have hE' : st.isEmpty = false := by simpa using hE
            simp only [hb', he, hd, hs, hdd, hg, e1, ha', isEmpty_snoc, last_snoc, setlast_snoc,
              List.dropLast_concat, Bool.or_self, decide_true, decide_false, if_true,
              leni_stS_zero, hE', Bool.false_eq_true, if_false, elv, hk1]
            refine ⟨trivial, trivial, trivial, trivial, trivial, hpos', ?_⟩
            rw [← hres]; simp
      · have hc2 : ¬ (c - 1 = 0) := by omega
        have e1 : ¬ ((c : Int) - 1 = 0) := by omega
        have ec : ((c - 1 : Nat) : Int) = (c : Int) - 1 := by omega
        by_cases ha : 0 < a
        · have ha' : (0 : Int) < (a : Int) := by omega
          simp only [hc2, if_false, gt_iff_lt, ha, if_true] at hres
          refine ⟨(a, lv + 1) :: (c - 1, lv) :: st, ?_⟩
          subst hs1
          simp only [hb', he, hd, hs, hdd, hg, e1, ha', isEmpty_snoc, last_snoc, setlast_snoc,
            List.dropLast_concat, Bool.or_self, decide_true, decide_false, if_true, leni_snoc_zero,
            Bool.false_eq_true, if_false, elv, hk1]
          refine ⟨trivial, trivial, rfl, ?_, ?_, ?_, ?_⟩
          · rw [stS_cons, stS_cons, ec]
          · rw [stD_cons, stD_cons, elv']
          · intro p hp
            rcases List.mem_cons.mp hp with rfl | hp
            · exact ha
            · rcases List.mem_cons.mp hp with rfl | hp
              · show 1 ≤ c - 1
                omega
              · exact hpos' p hp
          · rw [← hres]; simp
        · have ha' : ¬ (0 : Int) < (a : Int) := by omega
          simp only [hc2, if_false, gt_iff_lt, ha] at hres
          refine ⟨(c - 1, lv) :: st, ?_⟩
          subst hs1
          simp only [hb', he, hd, hs, hdd, hg, e1, ha', isEmpty_snoc, last_snoc, setlast_snoc,
            List.dropLast_concat, Bool.or_self, decide_false, leni_snoc_zero,
            Bool.false_eq_true, if_false, elv, hk1]
          refine ⟨trivial, trivial, rfl, ?_, ?_, ?_, ?_⟩
          · rw [stS_cons, ec]
          · rw [stD_cons]
          · intro p hp
            rcases List.mem_cons.mp hp with rfl | hp
            · show 1 ≤ c - 1
              omega
            · exact hpos' p hp
          · rw [← hres]; simp
  · rintro s ⟨st, he, hd, _, _, _, _, hres⟩
    have e : ar.drop (origin + (leni (ar.map Int.ofNat) - (origin : Int)).toNat) = [] := by
      apply List.drop_eq_nil_of_le
      simp only [leni, List.length_map]; omega
    rw [e, levelsAux_nil_right] at hres
    simp only [List.map_nil, List.append_nil] at hres
    simp [he, hd, hres]

/-- the statement of `C08_src_get_levels` -/
theorem src_get_levels (pre post : Flat) (t : RT) :
    get_levels_tree_from_i (pre.length : Int) ((arities (pre ++ flat t ++ post)).map Int.ofNat) =
      some ((levels pre.length (arities (pre ++ flat t ++ post))).map Int.ofNat) :=
  src_get_levels_gen pre.length _

end TFV.SrcTie
