/-
  TFV.Lemmas.Src.Tournament — the translated `tournament_selection` runs `Select.tournament` on each
  of the first `quantity` samples.
-/
import TFV.Generated.Src.tournament_selection
import TFV.Model.Select
import TFV.Lemmas.Src.ImpLemmas

namespace TFV.SrcTie
open TFV.Generated.Src TFV.Imp

/-! ### `Imp.argmax` is `Select.argmaxIdx` -/

theorem argmaxAux_eq (b : Int) (bi i : Nat) (xs : List Int) :
    Imp.argmaxAux b bi i xs = Select.argmaxIdxAux b bi i xs := by
  induction xs generalizing b bi i with
  | nil => rfl
  | cons x xs ih =>
    simp only [Imp.argmaxAux, Select.argmaxIdxAux, ih]

theorem argmax_eq (xs : List Int) : Imp.argmax xs = ((Select.argmaxIdx xs : Nat) : Int) := by
  cases xs with
  | nil => rfl
  | cons x xs => simp only [Imp.argmax, Select.argmaxIdx, argmaxAux_eq]

theorem argmaxIdxAux_lt (b : Int) (bi i : Nat) (xs : List Int) (h : bi < i) :
    Select.argmaxIdxAux b bi i xs < i + xs.length := by
  induction xs generalizing b bi i with
  | nil => simpa [Select.argmaxIdxAux] using h
  | cons x xs ih =>
    simp only [Select.argmaxIdxAux, List.length_cons]
    split
    · have := ih x i (i + 1) (Nat.lt_succ_self i); omega
    · have := ih b bi (i + 1) (Nat.lt_succ_of_lt h); omega

theorem argmaxIdx_lt (xs : List Int) (h : xs ≠ []) : Select.argmaxIdx xs < xs.length := by
  cases xs with
  | nil => exact absurd rfl h
  | cons x xs =>
    have := argmaxIdxAux_lt x 0 1 xs (by omega)
    simp only [Select.argmaxIdx, List.length_cons]; omega

/-! ### one tournament -/

theorem gather_map_ofNat (fitness : List Int) (r : List Nat) :
    Imp.gather fitness (r.map Int.ofNat) = r.map fun i => fitness.getD i 0 := by
  simp only [Imp.gather, List.map_map]
  apply List.map_congr_left
  intro i _
  simp [Function.comp, Imp.geti]

theorem allInb_map_ofNat (fitness : List Int) (r : List Nat) (h : ∀ i ∈ r, i < fitness.length) :
    Imp.allInb fitness (r.map Int.ofNat) = true := by
  simp only [Imp.allInb, List.all_map, List.all_eq_true]
  intro i hi
  have := h i hi
  simp only [Function.comp, Imp.inb, Bool.and_eq_true, decide_eq_true_eq, Int.ofNat_eq_natCast]
  omega

/-- overwriting position `k` of "first `k` results, rest zero" -/
theorem take_replicate_set (R : List Int) (q k : Nat) (hk : k < q) (hR : q ≤ R.length) :
    (R.take k ++ List.replicate (q - k) (0 : Int)).set k (R.getD k 0) =
      R.take (k + 1) ++ List.replicate (q - (k + 1)) 0 := by
  apply List.ext_getElem?
  intro j
  have hkR : k < R.length := by omega
  grind

theorem src_tournament_selection (fitness rank : List Int) (tourSize : Int) (q : Nat)
    (sampler : Int → Int → Bool → Nat → List Int) (smp : Nat → List Nat)
    (hs : ∀ k, k < q → sampler (fitness.length : Int) tourSize false k = (smp k).map Int.ofNat)
    (hne : ∀ k, k < q → smp k ≠ [])
    (hin : ∀ k, k < q → ∀ i ∈ smp k, i < fitness.length) :
    tournament_selection fitness rank tourSize (q : Int) sampler =
      some ((List.range q).map fun k => ((Select.tournament fitness (smp k) : Nat) : Int)) := by
  unfold tournament_selection
  generalize hR : ((List.range q).map fun k => ((Select.tournament fitness (smp k) : Nat) : Int)) = R
  have hRlen : R.length = q := by simp [← hR]
  have hfin : R = R.take q := by rw [List.take_of_length_le (by omega)]
  rw [hfin]
  refine forRange_elim
    (P := fun k (s : tournament_selection.S) => s.brk = false ∧ s.err = false ∧ s.dry = false ∧
      s.kx = k ∧ s.to_return = R.take k ++ List.replicate (q - k) 0)
    (Q := fun s => (if (s.err || s.dry) = true then none else some s.to_return) = some (R.take q))
    _ _ _ _ _ ?_ ?_ ?_
  · simp
  · intro k s hk ⟨hb, he, hd, hx, ht⟩
    have hk' : k < q := by simpa using hk
    have hrow : sampler (Imp.leni fitness) tourSize false k = (smp k).map Int.ofNat := hs k hk'
    have hempty : ((smp k).map Int.ofNat).isEmpty = false := by
      have := hne k hk'
      cases h : smp k with
      | nil => exact absurd h this
      | cons a l => rfl
    have hmapne : ((smp k).map fun i => fitness.getD i 0) ≠ [] := by
      have := hne k hk'
      simpa using this
    have hlt := argmaxIdx_lt _ hmapne
    have hinb1 : Imp.inb ((smp k).map Int.ofNat)
        ((Select.argmaxIdx ((smp k).map fun i => fitness.getD i 0) : Nat) : Int) = true := by
      simp only [Imp.inb, Bool.and_eq_true, decide_eq_true_eq, List.length_map] at hlt ⊢
      omega
    have hlen : (R.take k ++ List.replicate (q - k) (0 : Int)).length = q := by
      simp only [List.length_append, List.length_take, List.length_replicate]; omega
    have hinb2 : Imp.inb (R.take k ++ List.replicate (q - k) (0 : Int)) (k : Int) = true := by
      simp only [Imp.inb, Bool.and_eq_true, decide_eq_true_eq, hlen]; omega
    have hRk : R.getD k 0 = ((Select.tournament fitness (smp k) : Nat) : Int) := by
      simp [← hR, List.getD_eq_getElem?_getD, hk']
    simp only [hb, he, hd, hx, ht, Bool.false_eq_true, if_false, Int.zero_add, hrow,
      Bool.or_false, allInb_map_ofNat fitness _ (hin k hk'),
      hempty, Bool.not_true, gather_map_ofNat, argmax_eq, hinb1, hinb2, geti_map_ofNat,
      seti_ofNat, true_and]
    rw [← take_replicate_set R q k hk' (by omega), hRk]
    rfl
  · intro s ⟨_, he, hd, _, ht⟩
    simp [he, hd, ht]

end TFV.SrcTie
