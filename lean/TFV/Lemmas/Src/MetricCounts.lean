/- Source tie for C19: the integer counting loops of `recall_score`, `precision_score`, `f1_score`
   (everything before the per-class ratios) as translated from /repo equal the model loops
   `recallLoop`, `precisionLoop`, `f1Loop` of TFV.Model.Metrics, and index their count arrays only
   in range, on label-encoded inputs. -/
import TFV.Generated.Src.recall_counts
import TFV.Generated.Src.precision_counts
import TFV.Generated.Src.f1_counts
import TFV.Model.Metrics
import TFV.Lemmas.Src.ImpLemmas
import TFV.Lemmas.Src.ImpLemmas2

namespace TFV.SrcTie
open TFV.Generated.Src TFV.Imp TFV.Metrics

def natsI (l : List Nat) : List Int := l.map Int.ofNat

theorem natsI_length (l : List Nat) : (natsI l).length = l.length := by simp [natsI]

theorem bump_length (a : List Nat) (i : Nat) : (bump a i).length = a.length := by simp [bump]

/-- `a[i] += 1` on the integer image of a count array -/
theorem seti_bump (a : List Nat) (i : Nat) (hi : i < a.length) :
    seti (natsI a) (i : Int) (geti (natsI a) (i : Int) + 1) = natsI (bump a i) := by
  simp only [seti_ofNat, natsI, geti_map_ofNat, bump, List.map_set]
  simp [List.getD_eq_getElem?_getD, hi]

theorem inb_natsI (a : List Nat) (i : Nat) (hi : i < a.length) : inb (natsI a) (i : Int) = true := by
  apply inb_of_lt; simpa [natsI] using hi

theorem recallLoop_snoc (xs : List (Nat × Nat)) (x : Nat × Nat) (acc : List Nat × List Nat) :
    recallLoop (xs ++ [x]) acc = recallLoop [x] (recallLoop xs acc) := by
  induction xs generalizing acc with
  | nil => rfl
  | cons y ys ih =>
    obtain ⟨t, p⟩ := y; obtain ⟨a, b⟩ := acc
    simp only [List.cons_append, recallLoop]
    split <;> exact ih _

theorem precisionLoop_snoc (xs : List (Nat × Nat)) (x : Nat × Nat) (acc : List Nat × List Nat) :
    precisionLoop (xs ++ [x]) acc = precisionLoop [x] (precisionLoop xs acc) := by
  induction xs generalizing acc with
  | nil => rfl
  | cons y ys ih =>
    obtain ⟨t, p⟩ := y; obtain ⟨a, b⟩ := acc
    simp only [List.cons_append, precisionLoop]
    split <;> exact ih _

theorem f1Loop_snoc (xs : List (Nat × Nat)) (x : Nat × Nat) (acc : List Nat × List Nat × List Nat) :
    f1Loop (xs ++ [x]) acc = f1Loop [x] (f1Loop xs acc) := by
  induction xs generalizing acc with
  | nil => rfl
  | cons y ys ih =>
    obtain ⟨t, p⟩ := y; obtain ⟨a, b, c⟩ := acc
    simp only [List.cons_append, f1Loop]
    split <;> exact ih _

theorem zip_take_succ (yt yp : List Nat) (k : Nat) (hk : k < yt.length) (hlen : yp.length = yt.length) :
    (yt.zip yp).take (k + 1) = (yt.zip yp).take k ++ [(yt.getD k 0, yp.getD k 0)] := by
  have hk' : k < (yt.zip yp).length := by simp [hlen, hk]
  rw [List.take_succ_eq_append_getElem hk']
  simp [List.getD_eq_getElem?_getD, hk, hlen ▸ hk]

theorem getD_mem' (l : List Nat) (k : Nat) (hk : k < l.length) : l.getD k 0 ∈ l := by
  simp [List.getD_eq_getElem?_getD, hk]

theorem src_recall_counts (yt yp : List Nat) (classes : List Int) (hlen : yp.length = yt.length)
    (ht : ∀ t ∈ yt, t < classes.length) :
    recall_counts (natsI yt) (natsI yp) classes =
      some [natsI (recallLoop (yt.zip yp) (zeros classes.length, zeros classes.length)).1,
            natsI (recallLoop (yt.zip yp) (zeros classes.length, zeros classes.length)).2] := by
  unfold recall_counts
  simp only [leni, natsI_length, Int.toNat_natCast]
  refine forRange_elim2
    (P := fun k (s : recall_counts.S) => s.brk = false ∧ s.err = false ∧ s.dry = false ∧
      s.true_positives = natsI (recallLoop ((yt.zip yp).take k) (zeros classes.length, zeros classes.length)).1 ∧
      s.false_negatives = natsI (recallLoop ((yt.zip yp).take k) (zeros classes.length, zeros classes.length)).2 ∧
      (recallLoop ((yt.zip yp).take k) (zeros classes.length, zeros classes.length)).1.length = classes.length ∧
      (recallLoop ((yt.zip yp).take k) (zeros classes.length, zeros classes.length)).2.length = classes.length)
    (Q := fun s => (if (({ s with brk := false } : recall_counts.S).err || ({ s with brk := false } : recall_counts.S).dry) = true then none
        else some [({ s with brk := false } : recall_counts.S).true_positives, ({ s with brk := false } : recall_counts.S).false_negatives]) = _)
    _ _ _ _ _ ?_ ?_ ?_ ?_
  · simp [recallLoop, zeros, natsI]
  · intro k s _ hP hs
    rw [hP.1] at hs; exact absurd hs (by simp)
  · intro k s s' hk ⟨hb, he, hd, htp, hfn, hl1, hl2⟩ _ hs'
    have hk' : k < yt.length := by simpa using hk
    have hkp : k < yp.length := hlen ▸ hk'
    have htk : yt.getD k 0 < classes.length := ht _ (getD_mem' yt k hk')
    rw [zip_take_succ yt yp k hk' hlen, recallLoop_snoc]
    generalize hacc : recallLoop ((yt.zip yp).take k) (zeros classes.length, zeros classes.length) = acc at *
    obtain ⟨tp, fn⟩ := acc
    simp only at htp hfn hl1 hl2
    have i1 := inb_natsI yt k hk'
    have i2 := inb_natsI yp k hkp
    have i3 := inb_natsI tp (yt.getD k 0) (hl1 ▸ htk)
    have i4 := inb_natsI fn (yt.getD k 0) (hl2 ▸ htk)
    have g1 : geti (natsI yt) (k : Int) = ((yt.getD k 0 : Nat) : Int) := geti_map_ofNat yt k
    have g2 : geti (natsI yp) (k : Int) = ((yp.getD k 0 : Nat) : Int) := geti_map_ofNat yp k
    generalize yt.getD k 0 = t at *
    generalize yp.getD k 0 = p at *
    have b1 := seti_bump tp t (hl1 ▸ htk)
    have b2 := seti_bump fn t (hl2 ▸ htk)
    subst hs'
    simp only [Int.zero_add, he, hd, hb, htp, hfn, i1, i2, g1, g2, i3, i4, Bool.not_true, Bool.or_self,
      recallLoop, Int.natCast_inj]
    by_cases heq : t = p
    · subst heq
      simp [b1, bump_length, hl1, hl2]
    · simp [heq, b2, bump_length, hl1, hl2]
  · intro s ⟨_, he, hd, htp, hfn, _, _⟩
    have h1 : ((yt.length : Int) - 0).toNat = yt.length := by omega
    have h2 : (yt.zip yp).take yt.length = yt.zip yp := by
      apply List.take_of_length_le; simp [hlen]
    rw [h1, h2] at htp hfn
    simp [he, hd, htp, hfn]

theorem src_precision_counts (yt yp : List Nat) (classes : List Int) (hlen : yp.length = yt.length)
    (ht : ∀ t ∈ yt, t < classes.length) (hp : ∀ t ∈ yp, t < classes.length) :
    precision_counts (natsI yt) (natsI yp) classes =
      some [natsI (precisionLoop (yt.zip yp) (zeros classes.length, zeros classes.length)).1,
            natsI (precisionLoop (yt.zip yp) (zeros classes.length, zeros classes.length)).2] := by
  unfold precision_counts
  simp only [leni, natsI_length, Int.toNat_natCast]
  refine forRange_elim2
    (P := fun k (s : precision_counts.S) => s.brk = false ∧ s.err = false ∧ s.dry = false ∧
      s.true_positives = natsI (precisionLoop ((yt.zip yp).take k) (zeros classes.length, zeros classes.length)).1 ∧
      s.false_negatives = natsI (precisionLoop ((yt.zip yp).take k) (zeros classes.length, zeros classes.length)).2 ∧
      (precisionLoop ((yt.zip yp).take k) (zeros classes.length, zeros classes.length)).1.length = classes.length ∧
      (precisionLoop ((yt.zip yp).take k) (zeros classes.length, zeros classes.length)).2.length = classes.length)
    (Q := fun s => (if (({ s with brk := false } : precision_counts.S).err || ({ s with brk := false } : precision_counts.S).dry) = true then none
        else some [({ s with brk := false } : precision_counts.S).true_positives, ({ s with brk := false } : precision_counts.S).false_negatives]) = _)
    _ _ _ _ _ ?_ ?_ ?_ ?_
  · simp [precisionLoop, zeros, natsI]
  · intro k s _ hP hs
    rw [hP.1] at hs; exact absurd hs (by simp)
  · intro k s s' hk ⟨hb, he, hd, htp, hfn, hl1, hl2⟩ _ hs'
    have hk' : k < yt.length := by simpa using hk
    have hkp : k < yp.length := hlen ▸ hk'
    have htk : yt.getD k 0 < classes.length := ht _ (getD_mem' yt k hk')
    have hpk : yp.getD k 0 < classes.length := hp _ (getD_mem' yp k hkp)
    rw [zip_take_succ yt yp k hk' hlen, precisionLoop_snoc]
    generalize hacc : precisionLoop ((yt.zip yp).take k) (zeros classes.length, zeros classes.length) = acc at *
    obtain ⟨tp, fn⟩ := acc
    simp only at htp hfn hl1 hl2
    have i1 := inb_natsI yt k hk'
    have i2 := inb_natsI yp k hkp
    have i3 := inb_natsI tp (yt.getD k 0) (hl1 ▸ htk)
    have i4 := inb_natsI fn (yp.getD k 0) (hl2 ▸ hpk)
    have g1 : geti (natsI yt) (k : Int) = ((yt.getD k 0 : Nat) : Int) := geti_map_ofNat yt k
    have g2 : geti (natsI yp) (k : Int) = ((yp.getD k 0 : Nat) : Int) := geti_map_ofNat yp k
    generalize yt.getD k 0 = t at *
    generalize yp.getD k 0 = p at *
    have b1 := seti_bump tp t (hl1 ▸ htk)
    have b2 := seti_bump fn p (hl2 ▸ hpk)
    subst hs'
    simp only [Int.zero_add, he, hd, hb, htp, hfn, i1, i2, g1, g2, i3, i4, Bool.not_true, Bool.or_self,
      precisionLoop, Int.natCast_inj]
    by_cases heq : t = p
    · subst heq
      simp [b1, bump_length, hl1, hl2]
    · simp [heq, b2, bump_length, hl1, hl2]
  · intro s ⟨_, he, hd, htp, hfn, _, _⟩
    have h1 : ((yt.length : Int) - 0).toNat = yt.length := by omega
    have h2 : (yt.zip yp).take yt.length = yt.zip yp := by
      apply List.take_of_length_le; simp [hlen]
    rw [h1, h2] at htp hfn
    simp [he, hd, htp, hfn]

theorem src_f1_counts (yt yp : List Nat) (classes : List Int) (hlen : yp.length = yt.length)
    (ht : ∀ t ∈ yt, t < classes.length) (hp : ∀ t ∈ yp, t < classes.length) :
    f1_counts (natsI yt) (natsI yp) classes =
      some [natsI (f1Loop (yt.zip yp) (zeros classes.length, zeros classes.length, zeros classes.length)).1,
            natsI (f1Loop (yt.zip yp) (zeros classes.length, zeros classes.length, zeros classes.length)).2.1,
            natsI (f1Loop (yt.zip yp) (zeros classes.length, zeros classes.length, zeros classes.length)).2.2] := by
  unfold f1_counts
  simp only [leni, natsI_length, Int.toNat_natCast]
  generalize hZ : (zeros classes.length, zeros classes.length, zeros classes.length) = Z
  refine forRange_elim2
    (P := fun k (s : f1_counts.S) => s.brk = false ∧ s.err = false ∧ s.dry = false ∧
      s.true_positives = natsI (f1Loop ((yt.zip yp).take k) Z).1 ∧
      s.false_negatives = natsI (f1Loop ((yt.zip yp).take k) Z).2.1 ∧
      s.down_precision = natsI (f1Loop ((yt.zip yp).take k) Z).2.2 ∧
      (f1Loop ((yt.zip yp).take k) Z).1.length = classes.length ∧
      (f1Loop ((yt.zip yp).take k) Z).2.1.length = classes.length ∧
      (f1Loop ((yt.zip yp).take k) Z).2.2.length = classes.length)
    (Q := fun s => (if (({ s with brk := false } : f1_counts.S).err || ({ s with brk := false } : f1_counts.S).dry) = true then none
        else some [({ s with brk := false } : f1_counts.S).true_positives, ({ s with brk := false } : f1_counts.S).false_negatives,
          ({ s with brk := false } : f1_counts.S).down_precision]) = _)
    _ _ _ _ _ ?_ ?_ ?_ ?_
  · subst hZ; simp [f1Loop, zeros, natsI]
  · intro k s _ hP hs
    rw [hP.1] at hs; exact absurd hs (by simp)
  · intro k s s' hk ⟨hb, he, hd, htp, hfn, hdp, hl1, hl2, hl3⟩ _ hs'
    have hk' : k < yt.length := by simpa using hk
    have hkp : k < yp.length := hlen ▸ hk'
    have htk : yt.getD k 0 < classes.length := ht _ (getD_mem' yt k hk')
    have hpk : yp.getD k 0 < classes.length := hp _ (getD_mem' yp k hkp)
    rw [zip_take_succ yt yp k hk' hlen, f1Loop_snoc]
    generalize hacc : f1Loop ((yt.zip yp).take k) Z = acc at *
    obtain ⟨tp, fn, dp⟩ := acc
    simp only at htp hfn hdp hl1 hl2 hl3
    have i1 := inb_natsI yt k hk'
    have i2 := inb_natsI yp k hkp
    have i3 := inb_natsI tp (yt.getD k 0) (hl1 ▸ htk)
    have i4 := inb_natsI fn (yt.getD k 0) (hl2 ▸ htk)
    have i5 := inb_natsI dp (yp.getD k 0) (hl3 ▸ hpk)
    have g1 : geti (natsI yt) (k : Int) = ((yt.getD k 0 : Nat) : Int) := geti_map_ofNat yt k
    have g2 : geti (natsI yp) (k : Int) = ((yp.getD k 0 : Nat) : Int) := geti_map_ofNat yp k
    generalize yt.getD k 0 = t at *
    generalize yp.getD k 0 = p at *
    have b1 := seti_bump tp t (hl1 ▸ htk)
    have b2 := seti_bump fn t (hl2 ▸ htk)
    have b3 := seti_bump dp p (hl3 ▸ hpk)
    subst hs'
    simp only [Int.zero_add, he, hd, hb, htp, hfn, hdp, i1, i2, g1, g2, i3, i4, i5, Bool.not_true, Bool.or_self,
      f1Loop, Int.natCast_inj]
    by_cases heq : t = p
    · subst heq
      simp [b1, bump_length, hl1, hl2, hl3]
    · simp [heq, b2, b3, bump_length, hl1, hl2, hl3]
  · intro s ⟨_, he, hd, htp, hfn, hdp, _, _, _⟩
    have h1 : ((yt.length : Int) - 0).toNat = yt.length := by omega
    have h2 : (yt.zip yp).take yt.length = yt.zip yp := by
      apply List.take_of_length_le; simp [hlen]
    rw [h1, h2] at htp hfn hdp
    subst hZ
    simp [he, hd, htp, hfn, hdp]

end TFV.SrcTie
