/-
  TFV.Lemmas.Src.ShagaParams — the translated `SHAGA._generate_MR_CR`: individual i gets `_randc(H_MR[r_i], 0.1/str_len)` and
  `_randn(H_CR[r_i], 0.1)` for ONE drawn memory cell r_i (proof as for SHADE's `_generate_F_CR`).
-/
import TFV.Generated.Src.SHAGA_generate_MR_CR
import TFV.Lemmas.Src.ImpLemmas
import TFV.Lemmas.Src.Tournament

namespace TFV.SrcTie
open TFV.Generated.Src TFV.Imp

theorem src_shaga_generate (n : Nat) (Hsize : Int) (HF HCR : List Int) (rs : List Nat)
    (randc randn : Int → Int → Nat → Int) (key scaleMR : Int)
    (hlen : n ≤ rs.length) (hin : ∀ r ∈ rs, r < HF.length ∧ r < HCR.length) :
    SHAGA_generate_MR_CR (n : Int) Hsize HF HCR key (rs.map Int.ofNat) randc randn scaleMR =
      some [(List.range n).map (fun i => randc (HF.getD (rs.getD i 0) 0) scaleMR (2 * i)),
            (List.range n).map (fun i => randn (HCR.getD (rs.getD i 0) 0) key (2 * i + 1))] := by
  unfold SHAGA_generate_MR_CR
  generalize hA : (List.range n).map (fun i => randc (HF.getD (rs.getD i 0) 0) scaleMR (2 * i)) = A
  generalize hB : (List.range n).map (fun i => randn (HCR.getD (rs.getD i 0) 0) key (2 * i + 1)) = B
  have hAlen : A.length = n := by simp [← hA]
  have hBlen : B.length = n := by simp [← hB]
  refine forRange_elim
    (P := fun k (s : SHAGA_generate_MR_CR.S) => s.brk = false ∧ s.err = false ∧ s.dry = false ∧
      s.kn = k ∧ s.kx = 2 * k ∧ s.MR_i = A.take k ++ List.replicate (n - k) 0 ∧
      s.CR_i = B.take k ++ List.replicate (n - k) 0)
    (Q := fun s => (if (s.err || s.dry) = true then none else some [s.MR_i, s.CR_i]) = some [A, B])
    _ _ _ _ _ ?_ ?_ ?_
  · simp
  · intro k s hk ⟨hb, he, hd, hn, hx, hF, hC⟩
    have hk' : k < n := by simpa using hk
    have hkr : k < rs.length := by omega
    have hmem : rs[k] ∈ rs := List.getElem_mem hkr
    obtain ⟨h1, h2⟩ := hin _ hmem
    have hg : geti (rs.map Int.ofNat) (k : Int) = ((rs[k] : Nat) : Int) := by
      simp [geti, List.getD_eq_getElem?_getD, hkr]
    have hnd : ¬ (rs.map Int.ofNat).length ≤ k := by simp; omega
    have i1 : inb HF ((rs[k] : Nat) : Int) = true := by simp [inb]; omega
    have i2 : inb HCR ((rs[k] : Nat) : Int) = true := by simp [inb]; omega
    have lF : (A.take k ++ List.replicate (n - k) (0 : Int)).length = n := by
      simp only [List.length_append, List.length_take, List.length_replicate]; omega
    have lC : (B.take k ++ List.replicate (n - k) (0 : Int)).length = n := by
      simp only [List.length_append, List.length_take, List.length_replicate]; omega
    have i3 : inb (A.take k ++ List.replicate (n - k) (0 : Int)) (k : Int) = true := by
      simp only [inb, Bool.and_eq_true, decide_eq_true_eq, lF]; omega
    have i4 : inb (B.take k ++ List.replicate (n - k) (0 : Int)) (k : Int) = true := by
      simp only [inb, Bool.and_eq_true, decide_eq_true_eq, lC]; omega
    have hAk : A.getD k 0 = randc (HF.getD rs[k] 0) scaleMR (2 * k) := by
      simp [← hA, List.getD_eq_getElem?_getD, hk', hkr]
    have hBk : B.getD k 0 = randn (HCR.getD rs[k] 0) key (2 * k + 1) := by
      simp [← hB, List.getD_eq_getElem?_getD, hk', hkr]
    simp only [hb, he, hd, hn, hx, hF, hC, Bool.false_eq_true, if_false, Int.zero_add, hg, hnd, decide_false,
      Bool.or_false, i1, i2, i3, i4, Bool.not_true, geti_ofNat, seti_ofNat, true_and]
    refine ⟨by omega, ?_, ?_⟩
    · rw [← take_replicate_set A n k hk' (by omega), hAk]
    · rw [← take_replicate_set B n k hk' (by omega), hBk]
  · intro s ⟨_, he, hd, _, _, hF, hC⟩
    have e : ((n : Int) - 0).toNat = n := by omega
    rw [e] at hF hC
    have tA : A.take n = A := by rw [← hAlen, List.take_length]
    have tB : B.take n = B := by rw [← hBlen, List.take_length]
    simp [he, hd, hF, hC, tA, tB]

end TFV.SrcTie
