/-
  TFV.Lemmas.Src.TreeCall — the translated `Tree.__call__` / `Tree.__str__` (one reversed pass over the
  node array with the Python list `pack` as a stack whose TOP is its END) against a list-based stack run
  `crun` (top at the head) on arbitrary node lists, and `crun` on `flat t` against `evalRT`.
-/
import TFV.Generated.Src.Tree_call
import TFV.Generated.Src.Tree_str
import TFV.Lemmas.Src.ImpLemmas
import TFV.Lemmas.TreeCore

namespace TFV.SrcTie
open TFV.Generated.Src TFV.Imp TFV.Tree

/-! ### the list-based stack run on raw node identifiers -/

/-- the value a node pushes, given the arguments it popped -/
def cval (isF : Int → Bool) (applyFn : Int → List Int → Int) (valueOf : Int → Int) (n : Int)
    (args : List Int) : Int :=
  if isF n then applyFn n args else valueOf n

/-- one node: pop `nodeArity n` values (first popped = first argument), push the node's value -/
def cstep (isF : Int → Bool) (applyFn : Int → List Int → Int) (nodeArity valueOf : Int → Int)
    (st : List Int) (n : Int) : List Int :=
  cval isF applyFn valueOf n (st.take (nodeArity n).toNat) :: st.drop (nodeArity n).toNat

/-- the reversed pass, as a right fold (stack top at the head) -/
def crun (isF : Int → Bool) (applyFn : Int → List Int → Int) (nodeArity valueOf : Int → Int)
    (nodes : List Int) (st : List Int) : List Int :=
  nodes.foldr (fun n st => cstep isF applyFn nodeArity valueOf st n) st

/-- no pop from an empty stack happens during the pass -/
def cok (isF : Int → Bool) (applyFn : Int → List Int → Int) (nodeArity valueOf : Int → Int) :
    List Int → List Int → Prop
  | [], _ => True
  | n :: rest, st => cok isF applyFn nodeArity valueOf rest st ∧
      (nodeArity n).toNat ≤ (crun isF applyFn nodeArity valueOf rest st).length

section
variable (isF : Int → Bool) (applyFn : Int → List Int → Int) (nodeArity valueOf : Int → Int)

theorem crun_cons (n : Int) (l st : List Int) :
    crun isF applyFn nodeArity valueOf (n :: l) st =
      cstep isF applyFn nodeArity valueOf (crun isF applyFn nodeArity valueOf l st) n := rfl

theorem crun_append (a b st : List Int) :
    crun isF applyFn nodeArity valueOf (a ++ b) st =
      crun isF applyFn nodeArity valueOf a (crun isF applyFn nodeArity valueOf b st) := by
  simp [crun]

theorem cok_append (a b st : List Int) :
    cok isF applyFn nodeArity valueOf (a ++ b) st ↔
      (cok isF applyFn nodeArity valueOf b st ∧
        cok isF applyFn nodeArity valueOf a (crun isF applyFn nodeArity valueOf b st)) := by
  induction a with
  | nil => simp [cok]
  | cons n a ih =>
    simp only [List.cons_append, cok, ih, crun_append]
    constructor
    · rintro ⟨⟨h1, h2⟩, h3⟩; exact ⟨h1, h2, h3⟩
    · rintro ⟨h1, h2, h3⟩; exact ⟨⟨h1, h2⟩, h3⟩

theorem cok_drop (l st : List Int) (j : Nat) (h : cok isF applyFn nodeArity valueOf l st) :
    cok isF applyFn nodeArity valueOf (l.drop j) st := by
  have e : l = l.take j ++ l.drop j := (List.take_append_drop j l).symm
  rw [e, cok_append] at h
  exact h.1

/-- the suffix starting one node earlier -/
theorem drop_pred (l : List Int) (n k : Nat) (hn : l.length = n) (hk : k < n) :
    l.drop (n - (k + 1)) = l.getD (n - 1 - k) 0 :: l.drop (n - k) := by
  have hlt : n - (k + 1) < l.length := by omega
  rw [List.drop_eq_getElem_cons hlt]
  have e1 : n - (k + 1) + 1 = n - k := by omega
  have e2 : n - 1 - k = n - (k + 1) := by omega
  rw [e1, e2, List.getD_eq_getElem?_getD, List.getElem?_eq_getElem hlt]
  rfl

/-! ### the pop step on the Python list (top at the end) -/

theorem pop_last (st : List Int) (j : Nat) (hj : j < st.length) :
    Imp.last (st.drop j).reverse = st.getD j 0 := by
  rw [List.drop_eq_getElem_cons hj]
  simp [Imp.last, List.getD_eq_getElem?_getD, hj]

theorem pop_dropLast (st : List Int) (j : Nat) (hj : j < st.length) :
    (st.drop j).reverse.dropLast = (st.drop (j + 1)).reverse := by
  rw [List.drop_eq_getElem_cons hj]
  simp

theorem pop_nonempty (st : List Int) (j : Nat) (hj : j < st.length) :
    (st.drop j).reverse.isEmpty = false := by
  simpa using hj

theorem take_snoc (st : List Int) (j : Nat) (hj : j < st.length) :
    st.take j ++ [st.getD j 0] = st.take (j + 1) := by
  rw [List.take_add_one]
  simp [List.getD_eq_getElem?_getD, hj]

end

/-! ### `crun` on the prefix encoding of a rose tree -/

/-- the node identifiers of a flat tree, as the translated code receives them -/
def nodeIds (l : Flat) : List Int := l.map fun p => ((p.1 : Nat) : Int)

/-- the interpretation of symbols induced by the node attributes: apply the function symbol to
    its arguments, or read the terminal's value -/
def cinterp (isF : Int → Bool) (applyFn : Int → List Int → Int) (valueOf : Int → Int)
    (s : Nat) (args : List Int) : Int :=
  if isF ((s : Nat) : Int) then applyFn ((s : Nat) : Int) args else valueOf ((s : Nat) : Int)

section
variable (isF : Int → Bool) (applyFn : Int → List Int → Int) (nodeArity valueOf : Int → Int)

theorem crun_nodeIds (l : Flat) (st : List Int)
    (hc : ∀ p ∈ l, nodeArity ((p.1 : Nat) : Int) = ((p.2 : Nat) : Int)) :
    crun isF applyFn nodeArity valueOf (nodeIds l) st =
      runStack (cinterp isF applyFn valueOf) l st := by
  induction l with
  | nil => rfl
  | cons p l ih =>
    have h1 : nodeArity ((p.1 : Nat) : Int) = ((p.2 : Nat) : Int) := hc p (by simp)
    have ih' := ih fun q hq => hc q (by simp [hq])
    simp only [nodeIds, List.map_cons] at ih' ⊢
    rw [crun_cons, ih', runStack_cons, cstep, stackStep, h1]
    simp [cval, cinterp]

mutual
theorem cok_flat (t : RT) (st : List Int)
    (hc : ∀ p ∈ flat t, nodeArity ((p.1 : Nat) : Int) = ((p.2 : Nat) : Int)) :
    cok isF applyFn nodeArity valueOf (nodeIds (flat t)) st := by
  cases t with
  | node s ks =>
    have hcL : ∀ p ∈ flatL ks, nodeArity ((p.1 : Nat) : Int) = ((p.2 : Nat) : Int) :=
      fun p hp => hc p (by simp [flat, hp])
    have h1 : nodeArity ((s : Nat) : Int) = ((ks.length : Nat) : Int) := hc (s, ks.length) (by simp [flat])
    have e : nodeIds (flat (.node s ks)) = ((s : Nat) : Int) :: nodeIds (flatL ks) := by
      simp [nodeIds, flat]
    rw [e]
    refine ⟨cok_flatL ks st hcL, ?_⟩
    rw [crun_nodeIds isF applyFn nodeArity valueOf _ _ hcL, runStack_flatL, h1]
    simp [evalL_length]
theorem cok_flatL (ts : List RT) (st : List Int)
    (hc : ∀ p ∈ flatL ts, nodeArity ((p.1 : Nat) : Int) = ((p.2 : Nat) : Int)) :
    cok isF applyFn nodeArity valueOf (nodeIds (flatL ts)) st := by
  cases ts with
  | nil => simp [flatL, nodeIds, cok]
  | cons t ts =>
    have hc1 : ∀ p ∈ flat t, nodeArity ((p.1 : Nat) : Int) = ((p.2 : Nat) : Int) :=
      fun p hp => hc p (by simp [flatL, hp])
    have hc2 : ∀ p ∈ flatL ts, nodeArity ((p.1 : Nat) : Int) = ((p.2 : Nat) : Int) :=
      fun p hp => hc p (by simp [flatL, hp])
    have e : nodeIds (flatL (t :: ts)) = nodeIds (flat t) ++ nodeIds (flatL ts) := by
      simp [nodeIds, flatL]
    rw [e, cok_append]
    exact ⟨cok_flatL ts st hc2, cok_flat t _ hc1⟩
end

/-- the stack run over the encoding of `t` leaves exactly the value of `t` -/
theorem crun_flat (t : RT)
    (hc : ∀ p ∈ flat t, nodeArity ((p.1 : Nat) : Int) = ((p.2 : Nat) : Int)) :
    crun isF applyFn nodeArity valueOf (nodeIds (flat t)) [] =
      [evalRT (cinterp isF applyFn valueOf) t] := by
  rw [crun_nodeIds isF applyFn nodeArity valueOf _ _ hc, runStack_flat]

end

/-! ### the translated loops against `crun` -/

/-- `Tree.__call__` on an arbitrary node array: when no pop underflows, the final `pack` is the
    reversed list-based stack, and the result is its first entry `pack[0]` -/
theorem src_tree_call_run (nodes nargs : List Int) (isF : Int → Bool)
    (applyFn : Int → List Int → Int) (nodeArity valueOf : Int → Int)
    (hok : cok isF applyFn nodeArity valueOf nodes []) :
    Tree_call nodes nargs isF applyFn nodeArity valueOf =
      (crun isF applyFn nodeArity valueOf nodes []).reverse.head? := by
  unfold Tree_call
  refine forRange_elim
    (P := fun k (s : Tree_call.S) => s.brk = false ∧ s.err = false ∧ s.dry = false ∧
      s.pack = (crun isF applyFn nodeArity valueOf (nodes.drop (nodes.length - k)) []).reverse)
    (Q := fun s => (if ((s.err || !Imp.inb s.pack (0 : Int)) || s.dry) = true then none
        else some (Imp.geti s.pack (0 : Int))) =
      (crun isF applyFn nodeArity valueOf nodes []).reverse.head?)
    _ _ _ _ _ ?_ ?_ ?_
  · simp [crun]
  · intro k s hk ⟨hb, he, hd, hp⟩
    have hk' : k < nodes.length := by simpa [leni] using hk
    have hg : geti nodes (leni nodes - 1 - (0 + (k : Int))) = nodes.getD (nodes.length - 1 - k) 0 := by
      have e : leni nodes - 1 - (0 + (k : Int)) = ((nodes.length - 1 - k : Nat) : Int) := by
        simp only [leni]; omega
      rw [e, geti_ofNat]
    have hdrop := drop_pred nodes nodes.length k rfl hk'
    have hokd := cok_drop isF applyFn nodeArity valueOf nodes [] (nodes.length - (k + 1)) hok
    rw [hdrop] at hokd
    generalize hnd : nodes.getD (nodes.length - 1 - k) 0 = nd at hg hdrop hokd
    generalize hst : crun isF applyFn nodeArity valueOf (nodes.drop (nodes.length - k)) [] = st
      at hp hokd
    obtain ⟨_, hle⟩ := hokd
    rw [hst] at hle
    simp only [hb, Bool.false_eq_true, if_false, hg]
    refine forRange_elim
      (P := fun j (s' : Tree_call.S) => s'.brk = false ∧ s'.err = false ∧ s'.dry = false ∧
        s'.node = nd ∧ s'.pack = (st.drop j).reverse ∧ s'.args = st.take j)
      (Q := fun s' => (fun (s : Tree_call.S) => s.brk = false ∧ s.err = false ∧ s.dry = false ∧
          s.pack = (crun isF applyFn nodeArity valueOf (nodes.drop (nodes.length - (k + 1))) []).reverse)
        (if isF s'.node = true then { s' with brk := false, pack := s'.pack ++ [applyFn s'.node s'.args] }
         else { s' with brk := false, pack := s'.pack ++ [valueOf s'.node] }))
      _ _ _ _ _ ?_ ?_ ?_
    · simp [he, hd, hp]
    · intro j s' hj ⟨hb', he', hd', hn', hp', ha'⟩
      have hj' : j < st.length := by
        have : j < (nodeArity nd).toNat := by simpa using hj
        omega
      simp only [hb', Bool.false_eq_true, if_false, he', hd', hn', hp', ha',
        pop_last st j hj', pop_dropLast st j hj', pop_nonempty st j hj', take_snoc st j hj',
        Bool.or_false, true_and]
    · intro s' ⟨hb', he', hd', hn', hp', ha'⟩
      have e : (nodeArity nd - 0).toNat = (nodeArity nd).toNat := by simp
      rw [e] at hp' ha'
      rw [hdrop, crun_cons, hst]
      cases hF : isF nd <;>
        simp [hn', hF, he', hd', hp', ha', cstep, cval]
  · intro s ⟨_, he, hd, hp⟩
    have e : (leni nodes - 0).toNat = nodes.length := by simp [leni]
    rw [e, Nat.sub_self, List.drop_zero] at hp
    rw [hp, he, hd]
    generalize (crun isF applyFn nodeArity valueOf nodes []).reverse = pk
    cases pk <;> simp [inb, geti]

/-- `Tree.__str__` on an arbitrary node array: when no pop underflows, the final `pack` is the
    reversed list-based stack, and the result is its first entry `pack[0]` -/
theorem src_tree_str_run (nodes nargs : List Int) (isF : Int → Bool)
    (writeFn : Int → List Int → Int) (nodeArity nameOf : Int → Int)
    (hok : cok isF writeFn nodeArity nameOf nodes []) :
    Tree_str nodes nargs isF writeFn nodeArity nameOf =
      (crun isF writeFn nodeArity nameOf nodes []).reverse.head? := by
  unfold Tree_str
  refine forRange_elim
    (P := fun k (s : Tree_str.S) => s.brk = false ∧ s.err = false ∧ s.dry = false ∧
      s.pack = (crun isF writeFn nodeArity nameOf (nodes.drop (nodes.length - k)) []).reverse)
    (Q := fun s => (if ((s.err || !Imp.inb s.pack (0 : Int)) || s.dry) = true then none
        else some (Imp.geti s.pack (0 : Int))) =
      (crun isF writeFn nodeArity nameOf nodes []).reverse.head?)
    _ _ _ _ _ ?_ ?_ ?_
  · simp [crun]
  · intro k s hk ⟨hb, he, hd, hp⟩
    have hk' : k < nodes.length := by simpa [leni] using hk
    have hg : geti nodes (leni nodes - 1 - (0 + (k : Int))) = nodes.getD (nodes.length - 1 - k) 0 := by
      have e : leni nodes - 1 - (0 + (k : Int)) = ((nodes.length - 1 - k : Nat) : Int) := by
        simp only [leni]; omega
      rw [e, geti_ofNat]
    have hdrop := drop_pred nodes nodes.length k rfl hk'
    have hokd := cok_drop isF writeFn nodeArity nameOf nodes [] (nodes.length - (k + 1)) hok
    rw [hdrop] at hokd
    generalize hnd : nodes.getD (nodes.length - 1 - k) 0 = nd at hg hdrop hokd
    generalize hst : crun isF writeFn nodeArity nameOf (nodes.drop (nodes.length - k)) [] = st
      at hp hokd
    obtain ⟨_, hle⟩ := hokd
    rw [hst] at hle
    simp only [hb, Bool.false_eq_true, if_false, hg]
    refine forRange_elim
      (P := fun j (s' : Tree_str.S) => s'.brk = false ∧ s'.err = false ∧ s'.dry = false ∧
        s'.node = nd ∧ s'.pack = (st.drop j).reverse ∧ s'.args = st.take j)
      (Q := fun s' => (fun (s : Tree_str.S) => s.brk = false ∧ s.err = false ∧ s.dry = false ∧
          s.pack = (crun isF writeFn nodeArity nameOf (nodes.drop (nodes.length - (k + 1))) []).reverse)
        (if isF s'.node = true then { s' with brk := false, pack := s'.pack ++ [writeFn s'.node s'.args] }
         else { s' with brk := false, pack := s'.pack ++ [nameOf s'.node] }))
      _ _ _ _ _ ?_ ?_ ?_
    · simp [he, hd, hp]
    · intro j s' hj ⟨hb', he', hd', hn', hp', ha'⟩
      have hj' : j < st.length := by
        have : j < (nodeArity nd).toNat := by simpa using hj
        omega
      simp only [hb', Bool.false_eq_true, if_false, he', hd', hn', hp', ha',
        pop_last st j hj', pop_dropLast st j hj', pop_nonempty st j hj', take_snoc st j hj',
        Bool.or_false, true_and]
    · intro s' ⟨hb', he', hd', hn', hp', ha'⟩
      have e : (nodeArity nd - 0).toNat = (nodeArity nd).toNat := by simp
      rw [e] at hp' ha'
      rw [hdrop, crun_cons, hst]
      cases hF : isF nd <;>
        simp [hn', hF, he', hd', hp', ha', cstep, cval]
  · intro s ⟨_, he, hd, hp⟩
    have e : (leni nodes - 0).toNat = nodes.length := by simp [leni]
    rw [e, Nat.sub_self, List.drop_zero] at hp
    rw [hp, he, hd]
    generalize (crun isF writeFn nodeArity nameOf nodes []).reverse = pk
    cases pk <;> simp [inb, geti]

/-! ### the translated loops on the encoding of a rose tree -/

theorem src_tree_call_flat (t : RT) (nargs : List Int) (isF : Int → Bool)
    (applyFn : Int → List Int → Int) (nodeArity valueOf : Int → Int)
    (hc : ∀ p ∈ flat t, nodeArity ((p.1 : Nat) : Int) = ((p.2 : Nat) : Int)) :
    Tree_call (nodeIds (flat t)) nargs isF applyFn nodeArity valueOf =
      some (evalRT (cinterp isF applyFn valueOf) t) := by
  rw [src_tree_call_run _ _ _ _ _ _ (cok_flat isF applyFn nodeArity valueOf t [] hc),
    crun_flat isF applyFn nodeArity valueOf t hc]
  rfl

theorem src_tree_str_flat (t : RT) (nargs : List Int) (isF : Int → Bool)
    (writeFn : Int → List Int → Int) (nodeArity nameOf : Int → Int)
    (hc : ∀ p ∈ flat t, nodeArity ((p.1 : Nat) : Int) = ((p.2 : Nat) : Int)) :
    Tree_str (nodeIds (flat t)) nargs isF writeFn nodeArity nameOf =
      some (evalRT (cinterp isF writeFn nameOf) t) := by
  rw [src_tree_str_run _ _ _ _ _ _ (cok_flat isF writeFn nodeArity nameOf t [] hc),
    crun_flat isF writeFn nodeArity nameOf t hc]
  rfl

end TFV.SrcTie
