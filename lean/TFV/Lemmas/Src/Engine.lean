/- Source tie for the run-engine methods (C01/C02/C03): `TheFittest._replace`, `TheFittest._update`,
   `EvolutionaryAlgorithm._termitation_check`, `get_remains_calls`, as translated from /repo. -/
import TFV.Generated.Src.TheFittest_replace
import TFV.Generated.Src.TheFittest_update
import TFV.Generated.Src.termination_check
import TFV.Generated.Src.get_remains_calls
import TFV.Generated.Src.EA_get_fitness
import TFV.Model.EA

namespace TFV.SrcTie
open TFV.Generated.Src TFV.EA TFV.Imp

/-- the self attributes of `TheFittest` as the list the translated methods work on
    (genotypes and phenotypes are identifiers; unset = 0) -/
def selfOf (r : Rec Int Int) : List Int :=
  [(r.best.map (·.g)).getD 0, (r.best.map (·.ph)).getD 0, r.fit, (r.noUpd : Int)]

theorem src_replace (self : List Int) (g p f : Int) :
    TheFittest_replace self g p f = some [g, p, f, geti self 3] := by
  simp [TheFittest_replace]

/-- `Imp.argmax` on the fitness column is the position of `argmaxFirst` -/
theorem argmaxAux_spec (b : Ind Int Int) (bi i : Nat) (xs pre : List (Ind Int Int))
    (hpre : pre.length = i) (hbi : bi < i) (hb : pre.getD bi b = b) :
    let k := Imp.argmaxAux b.fit bi i (xs.map (·.fit))
    k < i + xs.length ∧ (pre ++ xs).getD k b = EA.argmaxAux b xs := by
  induction xs generalizing b bi i pre with
  | nil =>
    simp only [List.map_nil, Imp.argmaxAux, EA.argmaxAux, List.append_nil, List.length_nil, Nat.add_zero]
    exact ⟨hbi, hb⟩
  | cons x xs ih =>
    simp only [List.map_cons, Imp.argmaxAux, EA.argmaxAux]
    split
    · have := ih x i (i + 1) (pre ++ [x]) (by simp [hpre]) (by omega)
        (by simp [List.getD_eq_getElem?_getD, ← hpre])
      simp only [List.append_assoc, List.singleton_append, List.length_cons] at this ⊢
      refine ⟨by omega, ?_⟩
      have h2 := this.2
      -- default value differs (x vs b) but the index is in range
      have hk := this.1
      rw [List.getD_eq_getElem?_getD, List.getElem?_eq_getElem (by simp; omega)] at h2 ⊢
      simpa using h2
    · have := ih b bi (i + 1) (pre ++ [x]) (by simp [hpre]) (by omega)
        (by
          rw [List.getD_eq_getElem?_getD, List.getElem?_append_left (by omega)]
          simpa [List.getD_eq_getElem?_getD] using hb)
      simp only [List.append_assoc, List.singleton_append, List.length_cons] at this ⊢
      exact ⟨by omega, this.2⟩

theorem src_update (r : Rec Int Int) (pop : List (Ind Int Int)) (hne : pop ≠ []) :
    TheFittest_update (selfOf r) (pop.map (·.g)) (pop.map (·.ph)) (pop.map (·.fit)) =
      some (selfOf (r.update pop)) := by
  cases pop with
  | nil => exact absurd rfl hne
  | cons x xs =>
    have hs := argmaxAux_spec x 0 1 xs [x] rfl (by omega) (by simp)
    simp only at hs
    obtain ⟨hk, hget⟩ := hs
    have hargmax0 : Imp.argmax ((x :: xs).map (·.fit)) = ((Imp.argmaxAux x.fit 0 1 (xs.map (·.fit)) : Nat) : Int) := by
      simp [Imp.argmax]
    generalize Imp.argmaxAux x.fit 0 1 (xs.map (·.fit)) = k at hk hget hargmax0
    have hlen : k < (x :: xs).length := by simp; omega
    have hm : (x :: xs)[k]'hlen = EA.argmaxAux x xs := by
      rw [List.getD_eq_getElem?_getD, List.getElem?_eq_getElem (by simpa using hlen)] at hget
      simpa using hget
    have hfit : geti ((x :: xs).map (·.fit)) (k : Int) = (EA.argmaxAux x xs).fit := by
      simp [geti, List.getD_eq_getElem?_getD, List.getElem?_eq_getElem hlen, hm, -List.map_cons]
    have hg : geti ((x :: xs).map (·.g)) (k : Int) = (EA.argmaxAux x xs).g := by
      simp [geti, List.getD_eq_getElem?_getD, List.getElem?_eq_getElem hlen, hm, -List.map_cons]
    have hp : geti ((x :: xs).map (·.ph)) (k : Int) = (EA.argmaxAux x xs).ph := by
      simp [geti, List.getD_eq_getElem?_getD, List.getElem?_eq_getElem hlen, hm, -List.map_cons]
    have hin : ∀ (f : Ind Int Int → Int), inb ((x :: xs).map f) (k : Int) = true := by
      intro f
      have : (k : Int) < (xs.length : Int) + 1 := by
        have h := hlen; simp only [List.length_cons] at h; omega
      simp only [inb, List.length_map, List.length_cons]
      simp; omega
    have hargmax : Imp.argmax ((x :: xs).map (·.fit)) = (k : Int) := hargmax0
    unfold TheFittest_update
    simp only [hargmax, hin, hfit, hg, hp, src_replace, Rec.update, argmaxFirst, selfOf]
    by_cases hlt : r.fit < (EA.argmaxAux x xs).fit
    · simp [geti, hlt]
    · simp [geti, hlt]

theorem src_termination_check (best counter aim noInc : Int) :
    termination_check best counter aim noInc = some (decide (aim ≤ best) || decide (counter = noInc)) := by
  simp [termination_check, ge_iff_le]

theorem src_get_remains_calls (pop iters calls : Int) :
    get_remains_calls pop iters calls = some (pop * iters - calls) := by
  simp [get_remains_calls]

theorem src_get_fitness (calls sign : Int) (ph value : List Int) :
    EA_get_fitness [calls] ph sign value = some [value.map (fun v => sign * v), [calls + (value.length : Int)]] := by
  simp [EA_get_fitness, geti, leni]

end TFV.SrcTie
