/-
  TFV.Lemmas.Src.GetNJobs — the translated `_get_n_jobs` equals `Split.normJobs`.
-/
import TFV.Generated.Src.get_n_jobs
import TFV.Model.Split
import TFV.Lemmas.Src.ImpLemmas

namespace TFV.SrcTie
open TFV.Generated.Src

theorem src_get_n_jobs (n : Int) (pop cpu : Nat) (_hpop : 1 ≤ pop) :
    get_n_jobs n (pop : Int) (cpu : Int) = (Split.normJobs n cpu pop).map Int.ofNat := by
  unfold get_n_jobs Split.normJobs
  by_cases h1 : n < 0
  · simp [h1]
    omega
  · by_cases h2 : n = 0
    · simp [h2]
    · by_cases h3 : n > (pop : Int)
      · simp [h1, h2, h3]
      · simp [h1, h2, h3]
        omega

end TFV.SrcTie
