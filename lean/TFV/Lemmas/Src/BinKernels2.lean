/- Source tie for C06: the remaining per-locus crossovers (`uniform_proportional_crossover`,
   `uniform_rank_crossover` — they differ from `uniform_crossover` only in how the parent choice is
   distributed) and `empty_crossover`. -/
import TFV.Generated.Src.uniform_proportional_crossover
import TFV.Generated.Src.uniform_rank_crossover
import TFV.Generated.Src.empty_crossover
import TFV.Model.BinOps
import TFV.Lemmas.Src.ImpLemmas
import TFV.Lemmas.Src.ImpLemmas2

namespace TFV.SrcTie
open TFV.Generated.Src TFV.Imp

theorem src_uniform_proportional_crossover (ps : List (List Int)) (fit rank : List Int) (ch : List Nat)
    (hne : ps ≠ []) (hrows : ∀ r ∈ ps, r.length = (ps.headD []).length)
    (hlen : ch.length = (ps.headD []).length) (hch : ∀ c ∈ ch, c < ps.length)
    (wsampler : List Int → Int → Bool → Nat → List Int)
    (hsm : wsampler fit ((ps.headD []).length : Int) true 0 = ch.map Int.ofNat) :
    uniform_proportional_crossover ps fit rank wsampler = some (BinOps.uniformX ps ch) := by
  unfold uniform_proportional_crossover
  simp only [leni, getrow_zero, hsm]
  generalize hL : (ps.headD []).length = L at *
  generalize hA : BinOps.uniformX ps ch = A
  have hAlen : A.length = (List.replicate L (0 : Int)).length := by
    simp only [← hA, BinOps.uniformX, BinOps.len, hL, List.length_map, List.length_range,
      List.length_replicate]
  have hAget : ∀ k, k < L → A.getD k 0 = (ps.getD (ch.getD k 0) []).getD k 0 := by
    intro k hk
    simp only [← hA, BinOps.uniformX, BinOps.len, BinOps.gene, hL]
    simp [List.getD_eq_getElem?_getD, hk]
  have h0 : inbM ps (0 : Int) = true := by
    cases ps with
    | nil => exact absurd rfl hne
    | cons a t => simp [inbM]
  refine forRange_elim
    (P := fun k (s : uniform_proportional_crossover.S) => s.brk = false ∧ s.err = false ∧ s.dry = false ∧
      s.choosen = ch.map Int.ofNat ∧ s.offspring = A.take k ++ (List.replicate L (0 : Int)).drop k)
    (Q := fun s => (if (s.err || s.dry) = true then none else some s.offspring) = some A)
    _ _ _ _ _ ?_ ?_ ?_
  · simp [h0]
  · intro k s hk ⟨hb, he, hd, hc, ht⟩
    have hk' : k < L := by simpa using hk
    have hk'' : k < (List.replicate L (0 : Int)).length := by simpa using hk'
    have hlen' := take_drop_length A _ k hAlen
    have hcl : ch.getD k 0 < ps.length := hch _ (getD_mem_nat ch k (by omega))
    have hrl : (ps.getD (ch.getD k 0) []).length = L := hrows _ (getD_row_mem ps _ hcl)
    simp only [hb, he, hd, hc, ht, Bool.false_eq_true, if_false, Int.zero_add, seti_ofNat,
      getD_map_ofNat, getrow_ofNat, geti_ofNat,
      inb_of_lt (ch.map Int.ofNat) k (by simp; omega), inbM_of_lt ps _ hcl,
      inb_of_lt _ k (hrl ▸ hk'), inb_of_lt _ k (hlen' ▸ hk''), Bool.not_true, Bool.or_self,
      true_and]
    exact take_drop_set A _ k hk'' hAlen _ (hAget k hk').symm
  · intro s ⟨_, he, hd, _, ht⟩
    have : A.length = L := by simpa using hAlen
    simp [he, hd, ht, ← this]

theorem src_uniform_rank_crossover (ps : List (List Int)) (fit rank : List Int) (ch : List Nat)
    (hne : ps ≠ []) (hrows : ∀ r ∈ ps, r.length = (ps.headD []).length)
    (hlen : ch.length = (ps.headD []).length) (hch : ∀ c ∈ ch, c < ps.length)
    (wsampler : List Int → Int → Bool → Nat → List Int)
    (hsm : wsampler rank ((ps.headD []).length : Int) true 0 = ch.map Int.ofNat) :
    uniform_rank_crossover ps fit rank wsampler = some (BinOps.uniformX ps ch) := by
  unfold uniform_rank_crossover
  simp only [leni, getrow_zero, hsm]
  generalize hL : (ps.headD []).length = L at *
  generalize hA : BinOps.uniformX ps ch = A
  have hAlen : A.length = (List.replicate L (0 : Int)).length := by
    simp only [← hA, BinOps.uniformX, BinOps.len, hL, List.length_map, List.length_range,
      List.length_replicate]
  have hAget : ∀ k, k < L → A.getD k 0 = (ps.getD (ch.getD k 0) []).getD k 0 := by
    intro k hk
    simp only [← hA, BinOps.uniformX, BinOps.len, BinOps.gene, hL]
    simp [List.getD_eq_getElem?_getD, hk]
  have h0 : inbM ps (0 : Int) = true := by
    cases ps with
    | nil => exact absurd rfl hne
    | cons a t => simp [inbM]
  refine forRange_elim
    (P := fun k (s : uniform_rank_crossover.S) => s.brk = false ∧ s.err = false ∧ s.dry = false ∧
      s.choosen = ch.map Int.ofNat ∧ s.offspring = A.take k ++ (List.replicate L (0 : Int)).drop k)
    (Q := fun s => (if (s.err || s.dry) = true then none else some s.offspring) = some A)
    _ _ _ _ _ ?_ ?_ ?_
  · simp [h0]
  · intro k s hk ⟨hb, he, hd, hc, ht⟩
    have hk' : k < L := by simpa using hk
    have hk'' : k < (List.replicate L (0 : Int)).length := by simpa using hk'
    have hlen' := take_drop_length A _ k hAlen
    have hcl : ch.getD k 0 < ps.length := hch _ (getD_mem_nat ch k (by omega))
    have hrl : (ps.getD (ch.getD k 0) []).length = L := hrows _ (getD_row_mem ps _ hcl)
    simp only [hb, he, hd, hc, ht, Bool.false_eq_true, if_false, Int.zero_add, seti_ofNat,
      getD_map_ofNat, getrow_ofNat, geti_ofNat,
      inb_of_lt (ch.map Int.ofNat) k (by simp; omega), inbM_of_lt ps _ hcl,
      inb_of_lt _ k (hrl ▸ hk'), inb_of_lt _ k (hlen' ▸ hk''), Bool.not_true, Bool.or_self,
      true_and]
    exact take_drop_set A _ k hk'' hAlen _ (hAget k hk').symm
  · intro s ⟨_, he, hd, _, ht⟩
    have : A.length = L := by simpa using hAlen
    simp [he, hd, ht, ← this]

theorem src_empty_crossover (a : List Int) (more : List (List Int)) (fit rank : List Int) :
    empty_crossover (a :: more) fit rank = some (BinOps.emptyX (a :: more)) := by
  simp [empty_crossover, inbM, getrow, BinOps.emptyX]

end TFV.SrcTie
