/-
  TFV.Lemmas.Src.Donors — the translated donor strategies of `utils/mutations.py` (straight-line vector
  arithmetic over the ring `Int`) are the linear forms of `TFV.Model.DE`, on the rows named by the
  `random_sample` result.  `sampler n q replace k` is the result of the k-th call of `random_sample`
  with those arguments.
-/
import TFV.Generated.Src.best_1
import TFV.Generated.Src.rand_1
import TFV.Generated.Src.rand_to_best1
import TFV.Generated.Src.current_to_best_1
import TFV.Generated.Src.best_2
import TFV.Generated.Src.rand_2
import TFV.Generated.Src.current_to_pbest_1_archive
import TFV.Model.DE

namespace TFV.SrcTie
open TFV.Generated.Src TFV

/-- the embedding of integer vectors / populations into the rational model -/
def vQ (a : List Int) : DE.Vec := a.map fun (x : Int) => (x : Rat)
def pQ (p : List (List Int)) : List DE.Vec := p.map vQ
/-- index list of a `random_sample` result -/
def idx (r : List Int) : List Nat := r.map Int.toNat

theorem vQ_vadd (a b : List Int) : vQ (Imp.vadd a b) = DE.vadd (vQ a) (vQ b) := by
  induction a generalizing b with
  | nil => simp [vQ, Imp.vadd, DE.vadd]
  | cons x xs ih =>
    cases b with
    | nil => simp [vQ, Imp.vadd, DE.vadd]
    | cons y ys =>
      have := ih ys
      simp [vQ, Imp.vadd, DE.vadd] at this ⊢
      try exact ⟨Rat.intCast_add x y, this⟩

theorem vQ_vsub (a b : List Int) : vQ (Imp.vsub a b) = DE.vsub (vQ a) (vQ b) := by
  induction a generalizing b with
  | nil => simp [vQ, Imp.vsub, DE.vsub]
  | cons x xs ih =>
    cases b with
    | nil => simp [vQ, Imp.vsub, DE.vsub]
    | cons y ys =>
      have := ih ys
      simp [vQ, Imp.vsub, DE.vsub] at this ⊢
      try exact ⟨Rat.intCast_sub x y, this⟩

theorem vQ_smul (F : Int) (a : List Int) : vQ (a.map fun v => F * v) = DE.smul (F : Rat) (vQ a) := by
  simp [vQ, DE.smul, Rat.intCast_mul]

theorem vQ_row (p : List (List Int)) (i : Int) : vQ (Imp.getrow p i) = DE.row (pQ p) i.toNat := by
  unfold Imp.getrow DE.row pQ
  by_cases h : i.toNat < p.length
  · simp [List.getD_eq_getElem?_getD, h]
  · simp [List.getD_eq_getElem?_getD, List.getElem?_eq_none (Nat.le_of_not_lt h), vQ]

theorem len_vadd (a b : List Int) : (Imp.vadd a b).length = min a.length b.length := by simp [Imp.vadd]
theorem len_vsub (a b : List Int) : (Imp.vsub a b).length = min a.length b.length := by simp [Imp.vsub]

/-- the hypotheses shared by the seven strategies: every member has `d` coordinates, the sample has
    the requested number of indices, each inside the population -/
structure Adm (cur best : List Int) (pop : List (List Int)) (d : Nat) (r : List Int) (q : Nat) : Prop where
  hcur : cur.length = d
  hbest : best.length = d
  hpop : ∀ row ∈ pop, row.length = d
  hlen : r.length = q
  hrng : ∀ i ∈ r, 0 ≤ i ∧ i < (pop.length : Int)

theorem Adm.row_len {cur best pop d r q} (h : Adm cur best pop d r q) (k : Nat) (hk : k < q) :
    (Imp.getrow pop (Imp.geti r (k : Int))).length = d ∧ Imp.inbM pop (Imp.geti r (k : Int)) = true ∧
    0 ≤ Imp.geti r (k : Int) := by
  have hkr : k < r.length := by rw [h.hlen]; exact hk
  have hm : r[k] ∈ r := List.getElem_mem hkr
  have hg : Imp.geti r (k : Int) = r[k] := by
    simp [Imp.geti, List.getD_eq_getElem?_getD, hkr]
  obtain ⟨h0, h1⟩ := h.hrng _ hm
  rw [hg]
  have hlt : (r[k]).toNat < pop.length := by omega
  refine ⟨?_, ?_, h0⟩
  · unfold Imp.getrow
    simp only [List.getD_eq_getElem?_getD, List.getElem?_eq_getElem hlt, Option.getD_some]
    exact h.hpop _ (List.getElem_mem hlt)
  · simp [Imp.inbM, h0, h1]

theorem idx_getD (r : List Int) (k : Nat) : (idx r).getD k 0 = (Imp.geti r (k : Int)).toNat := by
  unfold idx Imp.geti
  by_cases h : k < r.length
  · simp [List.getD_eq_getElem?_getD, h]
  · simp [List.getD_eq_getElem?_getD, List.getElem?_eq_none (Nat.le_of_not_lt h)]

theorem src_best_1 (cur best : List Int) (pop : List (List Int)) (F : Int)
    (sampler : Int → Int → Bool → Nat → List Int) (d : Nat)
    (h : Adm cur best pop d (sampler pop.length 2 false 0) 2) :
    ∃ v, best_1 cur best pop F sampler = some v ∧ v.length = d ∧
      vQ v = DE.best1 (vQ best) (pQ pop) (F : Rat) (idx (sampler pop.length 2 false 0)) := by
  generalize hr : sampler pop.length 2 false 0 = r at h ⊢
  obtain ⟨l0, i0, -⟩ := h.row_len 0 (by omega)
  obtain ⟨l1, i1, -⟩ := h.row_len 1 (by omega)
  have hl := h.hlen
  have hb := h.hbest
  refine ⟨Imp.vadd best ((Imp.vsub (Imp.getrow pop (Imp.geti r 0)) (Imp.getrow pop (Imp.geti r 1))).map fun v => F * v), ?_, ?_, ?_⟩
  · unfold best_1
    simp [Imp.leni, len_vsub, len_vadd] at *
    simp [hr, hl, i0, i1, l0, l1, hb]
  · simp [len_vadd, len_vsub] at *; simp [l0, l1, hb]
  · simp only [vQ_vadd, vQ_vsub, vQ_smul, vQ_row, DE.best1, idx_getD]; rfl

theorem src_rand_1 (cur best : List Int) (pop : List (List Int)) (F : Int)
    (sampler : Int → Int → Bool → Nat → List Int) (d : Nat)
    (h : Adm cur best pop d (sampler pop.length 3 false 0) 3) :
    ∃ v, rand_1 cur best pop F sampler = some v ∧ v.length = d ∧
      vQ v = DE.rand1  (pQ pop) (F : Rat) (idx (sampler pop.length 3 false 0)) := by
  generalize hr : sampler pop.length 3 false 0 = r at h ⊢
  obtain ⟨l0, i0, -⟩ := h.row_len 0 (by omega)
  obtain ⟨l1, i1, -⟩ := h.row_len 1 (by omega)
  obtain ⟨l2, i2, -⟩ := h.row_len 2 (by omega)
  have hl := h.hlen
  have hb := h.hbest
  have hc := h.hcur
  refine ⟨(Imp.vadd (Imp.getrow pop (Imp.geti r 2)) (((Imp.vsub (Imp.getrow pop (Imp.geti r 0)) (Imp.getrow pop (Imp.geti r 1)))).map fun v => F * v)), ?_, ?_, ?_⟩
  · unfold rand_1
    simp [Imp.leni, len_vsub, len_vadd] at *
    simp [hr, hl, i0, i1, i2, l0, l1, l2, hb, hc]
  · simp [len_vadd, len_vsub] at *; simp [i0, i1, i2, l0, l1, l2, hb, hc]
  · simp only [vQ_vadd, vQ_vsub, vQ_smul, vQ_row, DE.rand1, idx_getD]; rfl

theorem src_rand_to_best1 (cur best : List Int) (pop : List (List Int)) (F : Int)
    (sampler : Int → Int → Bool → Nat → List Int) (d : Nat)
    (h : Adm cur best pop d (sampler pop.length 3 false 0) 3) :
    ∃ v, rand_to_best1 cur best pop F sampler = some v ∧ v.length = d ∧
      vQ v = DE.randToBest1 (vQ best) (pQ pop) (F : Rat) (idx (sampler pop.length 3 false 0)) := by
  generalize hr : sampler pop.length 3 false 0 = r at h ⊢
  obtain ⟨l0, i0, -⟩ := h.row_len 0 (by omega)
  obtain ⟨l1, i1, -⟩ := h.row_len 1 (by omega)
  obtain ⟨l2, i2, -⟩ := h.row_len 2 (by omega)
  have hl := h.hlen
  have hb := h.hbest
  have hc := h.hcur
  refine ⟨(Imp.vadd (Imp.vadd (Imp.getrow pop (Imp.geti r 0)) (((Imp.vsub best (Imp.getrow pop (Imp.geti r 0)))).map fun v => F * v)) (((Imp.vsub (Imp.getrow pop (Imp.geti r 1)) (Imp.getrow pop (Imp.geti r 2)))).map fun v => F * v)), ?_, ?_, ?_⟩
  · unfold rand_to_best1
    simp [Imp.leni, len_vsub, len_vadd] at *
    simp [hr, hl, i0, i1, i2, l0, l1, l2, hb, hc]
  · simp [len_vadd, len_vsub] at *; simp [i0, i1, i2, l0, l1, l2, hb, hc]
  · simp only [vQ_vadd, vQ_vsub, vQ_smul, vQ_row, DE.randToBest1, idx_getD]; rfl

theorem src_current_to_best_1 (cur best : List Int) (pop : List (List Int)) (F : Int)
    (sampler : Int → Int → Bool → Nat → List Int) (d : Nat)
    (h : Adm cur best pop d (sampler pop.length 2 false 0) 2) :
    ∃ v, current_to_best_1 cur best pop F sampler = some v ∧ v.length = d ∧
      vQ v = DE.currentToBest1 (vQ cur) (vQ best) (pQ pop) (F : Rat) (idx (sampler pop.length 2 false 0)) := by
  generalize hr : sampler pop.length 2 false 0 = r at h ⊢
  obtain ⟨l0, i0, -⟩ := h.row_len 0 (by omega)
  obtain ⟨l1, i1, -⟩ := h.row_len 1 (by omega)
  have hl := h.hlen
  have hb := h.hbest
  have hc := h.hcur
  refine ⟨(Imp.vadd (Imp.vadd cur (((Imp.vsub best cur)).map fun v => F * v)) (((Imp.vsub (Imp.getrow pop (Imp.geti r 0)) (Imp.getrow pop (Imp.geti r 1)))).map fun v => F * v)), ?_, ?_, ?_⟩
  · unfold current_to_best_1
    simp [Imp.leni, len_vsub, len_vadd] at *
    simp [hr, hl, i0, i1, l0, l1, hb, hc]
  · simp [len_vadd, len_vsub] at *; simp [i0, i1, l0, l1, hb, hc]
  · simp only [vQ_vadd, vQ_vsub, vQ_smul, vQ_row, DE.currentToBest1, idx_getD]; rfl

theorem src_best_2 (cur best : List Int) (pop : List (List Int)) (F : Int)
    (sampler : Int → Int → Bool → Nat → List Int) (d : Nat)
    (h : Adm cur best pop d (sampler pop.length 4 false 0) 4) :
    ∃ v, best_2 cur best pop F sampler = some v ∧ v.length = d ∧
      vQ v = DE.best2 (vQ best) (pQ pop) (F : Rat) (idx (sampler pop.length 4 false 0)) := by
  generalize hr : sampler pop.length 4 false 0 = r at h ⊢
  obtain ⟨l0, i0, -⟩ := h.row_len 0 (by omega)
  obtain ⟨l1, i1, -⟩ := h.row_len 1 (by omega)
  obtain ⟨l2, i2, -⟩ := h.row_len 2 (by omega)
  obtain ⟨l3, i3, -⟩ := h.row_len 3 (by omega)
  have hl := h.hlen
  have hb := h.hbest
  have hc := h.hcur
  refine ⟨(Imp.vadd (Imp.vadd best (((Imp.vsub (Imp.getrow pop (Imp.geti r 0)) (Imp.getrow pop (Imp.geti r 1)))).map fun v => F * v)) (((Imp.vsub (Imp.getrow pop (Imp.geti r 2)) (Imp.getrow pop (Imp.geti r 3)))).map fun v => F * v)), ?_, ?_, ?_⟩
  · unfold best_2
    simp [Imp.leni, len_vsub, len_vadd] at *
    simp [hr, hl, i0, i1, i2, i3, l0, l1, l2, l3, hb, hc]
  · simp [len_vadd, len_vsub] at *; simp [i0, i1, i2, i3, l0, l1, l2, l3, hb, hc]
  · simp only [vQ_vadd, vQ_vsub, vQ_smul, vQ_row, DE.best2, idx_getD]; rfl

theorem src_rand_2 (cur best : List Int) (pop : List (List Int)) (F : Int)
    (sampler : Int → Int → Bool → Nat → List Int) (d : Nat)
    (h : Adm cur best pop d (sampler pop.length 5 false 0) 5) :
    ∃ v, rand_2 cur best pop F sampler = some v ∧ v.length = d ∧
      vQ v = DE.rand2  (pQ pop) (F : Rat) (idx (sampler pop.length 5 false 0)) := by
  generalize hr : sampler pop.length 5 false 0 = r at h ⊢
  obtain ⟨l0, i0, -⟩ := h.row_len 0 (by omega)
  obtain ⟨l1, i1, -⟩ := h.row_len 1 (by omega)
  obtain ⟨l2, i2, -⟩ := h.row_len 2 (by omega)
  obtain ⟨l3, i3, -⟩ := h.row_len 3 (by omega)
  obtain ⟨l4, i4, -⟩ := h.row_len 4 (by omega)
  have hl := h.hlen
  have hb := h.hbest
  have hc := h.hcur
  refine ⟨(Imp.vadd (Imp.vadd (Imp.getrow pop (Imp.geti r 4)) (((Imp.vsub (Imp.getrow pop (Imp.geti r 0)) (Imp.getrow pop (Imp.geti r 1)))).map fun v => F * v)) (((Imp.vsub (Imp.getrow pop (Imp.geti r 2)) (Imp.getrow pop (Imp.geti r 3)))).map fun v => F * v)), ?_, ?_, ?_⟩
  · unfold rand_2
    simp [Imp.leni, len_vsub, len_vadd] at *
    simp [hr, hl, i0, i1, i2, i3, i4, l0, l1, l2, l3, l4, hb, hc]
  · simp [len_vadd, len_vsub] at *; simp [i0, i1, i2, i3, i4, l0, l1, l2, l3, l4, hb, hc]
  · simp only [vQ_vadd, vQ_vsub, vQ_smul, vQ_row, DE.rand2, idx_getD]; rfl

theorem row_ok (pop : List (List Int)) (d : Nat) (hpop : ∀ row ∈ pop, row.length = d) (i : Int)
    (h0 : 0 ≤ i) (h1 : i < (pop.length : Int)) :
    (Imp.getrow pop i).length = d ∧ Imp.inbM pop i = true := by
  have hlt : i.toNat < pop.length := by omega
  refine ⟨?_, by simp [Imp.inbM, h0, h1]⟩
  unfold Imp.getrow
  simp only [List.getD_eq_getElem?_getD, List.getElem?_eq_getElem hlt, Option.getD_some]
  exact hpop _ (List.getElem_mem hlt)

/-- `current_to_pbest_1_archive`: `n0` the integer draw (a position in `pbest`), the two
    `random_sample(…, 1, replace=True)` results give `r1` (population) and `r2` (population ∪ archive) -/
theorem src_current_to_pbest_1_archive (cur : List Int) (pop : List (List Int)) (pbest : List Int) (F : Int)
    (arch : List (List Int)) (n0 : Int) (ns : List Int)
    (sampler : Int → Int → Bool → Nat → List Int) (d : Nat) (r1 r2 : Int) (t1 t2 : List Int)
    (hcur : cur.length = d) (hpop : ∀ row ∈ pop, row.length = d) (harch : ∀ row ∈ arch, row.length = d)
    (hn : 0 ≤ n0 ∧ n0 < (pbest.length : Int))
    (hpb : 0 ≤ Imp.geti pbest n0 ∧ Imp.geti pbest n0 < (pop.length : Int))
    (hs1 : sampler pop.length 1 true 0 = r1 :: t1) (hr1 : 0 ≤ r1 ∧ r1 < (pop.length : Int))
    (hs2 : sampler arch.length 1 true 1 = r2 :: t2) (hr2 : 0 ≤ r2 ∧ r2 < (arch.length : Int)) :
    ∃ v, current_to_pbest_1_archive cur pop pbest F arch (n0 :: ns) sampler = some v ∧ v.length = d ∧
      vQ v = DE.currentToPbest1 (vQ cur) (pQ pop) (pQ arch) (F : Rat)
        (Imp.geti pbest n0).toNat r1.toNat r2.toNat := by
  obtain ⟨lb, ib⟩ := row_ok pop d hpop _ hpb.1 hpb.2
  obtain ⟨l1, i1⟩ := row_ok pop d hpop _ hr1.1 hr1.2
  obtain ⟨l2, i2⟩ := row_ok arch d harch _ hr2.1 hr2.2
  refine ⟨Imp.vadd (Imp.vadd cur ((Imp.vsub (Imp.getrow pop (Imp.geti pbest n0)) cur).map fun v => F * v))
      ((Imp.vsub (Imp.getrow pop r1) (Imp.getrow arch r2)).map fun v => F * v), ?_, ?_, ?_⟩
  · have g0 : ∀ (a : Int) (l : List Int), Imp.geti (a :: l) 0 = a := fun a l => by simp [Imp.geti]
    have b0 : ∀ (a : Int) (l : List Int), Imp.inb (a :: l) 0 = true := fun a l => by simp [Imp.inb]
    have hin : Imp.inb pbest n0 = true := by simp [Imp.inb, hn]
    generalize hpbe : Imp.geti pbest n0 = pb at *
    unfold current_to_pbest_1_archive
    simp [Imp.leni, len_vsub, len_vadd, g0, hs1, hs2, b0, hin, hpbe, ib, i1, i2, lb, l1, l2, hcur]
  · simp [len_vadd, len_vsub] at *; simp [lb, l1, l2, hcur]
  · simp only [vQ_vadd, vQ_vsub, vQ_smul, vQ_row, DE.currentToPbest1]

end TFV.SrcTie
