/- what one call of `shrink_mutation` does, in terms of the model `Tree.shrinkMut` (definitions only) -/
import TFV.Model.Tree
import TFV.Lemmas.Src.TreeMethods

namespace TFV.SrcTie
open TFV.Tree

/-- positions of the nodes with at least one argument: `np.arange(len(tree))[tree._n_args > 0]` -/
def nonTerminalsAux : Nat → Flat → List Nat
  | _, [] => []
  | i, n :: ns => if n.2 > 0 then i :: nonTerminalsAux (i + 1) ns else nonTerminalsAux (i + 1) ns
def nonTerminals (l : Flat) : List Nat := nonTerminalsAux 0 l

/-- one call of `shrink_mutation`: nothing happens on trees of at most two nodes, when the coin says no,
    or when there is no non-terminal; otherwise the `n0`-th non-terminal position `i` is chosen and, if it has
    several arguments, its `n1`-th argument (else its only one) replaces the subtree at `i` -/
def shrinkRun (l : Flat) (coin : Bool) (n0 n1 : Nat) : Flat :=
  if 2 < l.length ∧ coin = true then
    if nonTerminals l = [] then l
    else
      let i := (nonTerminals l).getD n0 0
      let args := argsIds i (arities l)
      shrinkMut l i (if 1 < args.length then n1 else 0)
  else l

end TFV.SrcTie
