/- Source tie for C08 / C09: the `Tree` methods `subtree_id`, `subtree`, `concat` as translated from
   /repo (a Tree value = its two parallel arrays) equal the models `Tree.subtree` / `Tree.concat` on
   every subterm position of every well-formed tree. -/
import TFV.Generated.Src.Tree_subtree_id
import TFV.Generated.Src.Tree_subtree
import TFV.Generated.Src.Tree_concat
import TFV.Model.Tree
import TFV.Lemmas.TreeCore
import TFV.Lemmas.Src.TreeIdx

namespace TFV.SrcTie
open TFV.Generated.Src TFV.Tree TFV.Imp

/-- node identifiers / arities of a flat tree as the arrays the methods see -/
def symsI (l : Flat) : List Int := l.map fun n => (n.1 : Int)
def arsI (l : Flat) : List Int := (arities l).map Int.ofNat

theorem symsI_length (l : Flat) : (symsI l).length = l.length := by simp [symsI]
theorem arsI_length (l : Flat) : (arsI l).length = l.length := by simp [arsI, arities]

theorem fes_ars (pre post : Flat) (t : RT) :
    find_end_subtree_from_i (pre.length : Int) (arsI (pre ++ flat t ++ post)) =
      some ((pre.length + t.size : Nat) : Int) := src_find_end_subtree_size pre post t

theorem subtree_id_gen (L : Flat) (i e : Nat)
    (hf : find_end_subtree_from_i (i : Int) (arsI L) = some (e : Int)) :
    Tree_subtree_id (symsI L) (arsI L) (i : Int) = some [(i : Int), (e : Int)] := by
  simp only [Tree_subtree_id, hf]
  simp

theorem src_tree_subtree_id (pre post : Flat) (t : RT) :
    Tree_subtree_id (symsI (pre ++ flat t ++ post)) (arsI (pre ++ flat t ++ post)) (pre.length : Int) =
      some [(pre.length : Int), ((pre.length + t.size : Nat) : Int)] :=
  subtree_id_gen _ _ _ (fes_ars pre post t)

theorem subtree_gen (L : Flat) (i e : Nat)
    (hf : find_end_subtree_from_i (i : Int) (arsI L) = some (e : Int)) (he : endSub i (arities L) = e) :
    Tree_subtree (symsI L) (arsI L) (i : Int) = some [symsI (subtree L i), arsI (subtree L i)] := by
  have hs : subtree L i = (L.take e).drop i := by simp [subtree, he]
  have hneg : ¬ ((i : Int) < 0) := by omega
  have hneg2 : ¬ ((e : Int) < 0) := by omega
  rw [hs]
  simp only [Tree_subtree, hf, hneg, hneg2, decide_false, Bool.or_self, Bool.false_eq_true, if_false]
  simp [symsI, arsI, arities, slice, List.map_drop, List.map_take]

theorem src_tree_subtree (pre post : Flat) (t : RT) :
    Tree_subtree (symsI (pre ++ flat t ++ post)) (arsI (pre ++ flat t ++ post)) (pre.length : Int) =
      some [symsI (subtree (pre ++ flat t ++ post) pre.length), arsI (subtree (pre ++ flat t ++ post) pre.length)] :=
  subtree_gen _ _ _ (fes_ars pre post t) (endSub_flat pre post t)

theorem concat_gen (L other : Flat) (i e : Nat)
    (hf : find_end_subtree_from_i (i : Int) (arsI L) = some (e : Int)) (he : endSub i (arities L) = e)
    (hie : i ≤ e) (heL : e ≤ L.length) :
    Tree_concat (symsI L) (arsI L) (i : Int) (symsI other) (arsI other) =
      some [symsI (concat L i other), arsI (concat L i other)] := by
  have hs : concat L i other = L.take i ++ other ++ L.drop e := by simp [concat, he]
  rw [hs]
  simp only [Tree_concat, subtree_id_gen L i e hf, geti]
  simp [symsI, arsI, arities, slice, dropFrom, List.map_drop, List.map_take, leni]
  omega

theorem src_tree_concat (pre post other : Flat) (t : RT) :
    Tree_concat (symsI (pre ++ flat t ++ post)) (arsI (pre ++ flat t ++ post)) (pre.length : Int) (symsI other) (arsI other) =
      some [symsI (concat (pre ++ flat t ++ post) pre.length other), arsI (concat (pre ++ flat t ++ post) pre.length other)] :=
  concat_gen _ other _ _ (fes_ars pre post t) (endSub_flat pre post t) (by omega)
    (by simp only [List.length_append, size_flat]; omega)

end TFV.SrcTie
