/-
  TFV.Lemmas.Src.SwapDefs — the model-side reading of the Python-level operator `swap_mutation`:
  the positions with more than one argument, the inverse of the shuffle, and the run.
-/
import TFV.Model.Tree

namespace TFV.SrcTie
open TFV.Tree

/-- positions whose node has more than one argument (`np.arange(len(tree))[tree._n_args > 1]`) -/
def multiArgs (l : Flat) : List Nat :=
  (List.range l.length).filter fun k => decide (1 < (l.getD k (0, 0)).2)

/-- `sig[k]` = the slot whose position the k-th argument receives (`new_arg_id[k] = args_id[sig[k]]`);
    `invPerm sig` lists, per slot, which old argument lands there — the `perm` of `swapMut` -/
def invPerm (sig : List Nat) : List Nat := (List.range sig.length).map fun s => sig.idxOf s

/-- `swap_mutation` with its random choices explicit: `coin` (mutate at all), `n0` (which multi-argument
    node), `sig` (the shuffle of its argument positions) -/
def swapRun (l : Flat) (coin : Bool) (n0 : Nat) (sig : List Nat) : Flat :=
  if coin then
    if multiArgs l = [] then l else swapMut l ((multiArgs l).getD n0 0) (invPerm sig)
  else l

end TFV.SrcTie
