/-
  TFV.Lemmas.Src.Grow — `Tree.full_growing_method` / `Tree.growing_method` as translated from /repo equal the
  model-side run `growRun`, whose result is accepted unchanged by the model `Tree.growInit` (so that
  `C08_growInit` applies: well-formed and no deeper than max_level).
-/
import TFV.Generated.Src.Tree_full_growing_method
import TFV.Generated.Src.Tree_growing_method
import TFV.Model.Tree
import TFV.Lemmas.TreeCore
import TFV.Lemmas.Src.ImpLemmas
import TFV.Lemmas.Src.ImpLemmas2
import TFV.Lemmas.Src.TreeMethods
import TFV.Lemmas.Src.GrowDefs
import TFV.Lemmas.Src.GrowLemmas

set_option linter.unusedSimpArgs false

namespace TFV.SrcTie
open TFV.Generated.Src TFV.Tree TFV.Imp

theorem src_full_growing_method (L fuel : Nat) (ar : Nat → Nat) (randF randT : Nat → Nat) (key : Int) (l : Flat)
    (hpos : ∀ k, 1 ≤ ar (randF k))
    (h : growRun true L ar randF randT key fuel [] = some l) :
    Tree_full_growing_method (L : Int) fuel (fun s => (ar s.toNat : Int)) (fun k => (randF k : Int)) (fun k => (randT k : Int)) =
      some [symsI l, arsI l] := by
  unfold Tree_full_growing_method
  refine whileN_run
    (Inv := fun (a : List (Nat × Nat) × Nat × Flat) (s : Tree_full_growing_method.S) =>
      (∀ p ∈ a.1, 1 ≤ p.1) ∧
      s.err = false ∧ s.dry = false ∧ s.brk = false ∧ s.possible_steps = stS a.1 ∧ s.previous_levels = stD a.1 ∧
      s.nodes = symsI a.2.2.reverse ∧ s.n_args = arsI a.2.2.reverse ∧ s.kx = a.2.1)
    (R := fun n a => growRunAux true L ar randF randT key n a.1 a.2.1 [] a.2.2 = some l)
    (Post := fun s => (if (s.err || s.dry) = true then none else some [s.nodes, s.n_args]) = some [symsI l, arsI l])
    _ _ _ _ ([(1, 0)], 0, []) ?_ h ?_ ?_ ?_
  · simp [stS, stD, symsI, arsI, arities]
  · rintro n ⟨st, k, acc⟩ s ⟨hp, he, hd, hb, hs, hdd, hn, hna, hk⟩ hc hR
    simp only at hs hdd hn hna hk hp hR
    simp only [hb, hs, truthy_leni_stS, Bool.not_false, Bool.true_and, Bool.not_eq_false'] at hc
    have hst : st = [] := by cases st <;> simp_all
    subst hst
    rw [growRunAux_nil] at hR
    injection hR with hR
    subst hR
    simp [he, hd, hn, hna]
  · rintro ⟨st, k, acc⟩ s ⟨hp, he, hd, hb, hs, hdd, hn, hna, hk⟩ hc hR
    simp only at hs hdd hn hna hk hp hR
    simp only [hb, hs, truthy_leni_stS, Bool.not_false, Bool.true_and] at hc
    cases st with
    | nil => simp at hc
    | cons p st => simp [growRunAux] at hR
  · rintro n ⟨st, k, acc⟩ s s1 ⟨hp, he, hd, hb, hs, hdd, hn, hna, hk⟩ hc hs1 hR
    simp only at hs hdd hn hna hk hp hR
    simp only [hb, hs, truthy_leni_stS, Bool.not_false, Bool.true_and] at hc
    cases st with
    | nil => simp at hc
    | cons p st =>
      obtain ⟨c, lv⟩ := p
      have hc1 : 1 ≤ c := hp (c, lv) (by simp)
      have hp' : ∀ p ∈ st, 1 ≤ p.1 := fun p hp0 => hp p (by simp [hp0])
      rw [stS_cons] at hs
      rw [stD_cons] at hdd
      simp only [growRunAux, Bool.true_or, if_true] at hR
      have elv : (lv : Int) - 1 + 1 = (lv : Int) := by omega
      have elv' : ((lv + 1 : Nat) : Int) - 1 = (lv : Int) := by omega
      have hF := hpos k
      by_cases hc1 : c = 1
      · subst hc1
        have e1 : ((1 : Nat) : Int) - 1 = 0 := rfl
        by_cases hlv : lv = L
        · subst hlv
          simp only [Nat.sub_self, if_true] at hR
          refine ⟨(st, k + 1, (randT k, 0) :: acc), ⟨hp', ?_⟩, hR⟩
          subst hs1
          simp only [he, hd, hb, hs, hdd, hn, hna, hk, e1, isEmpty_snoc, last_snoc, setlast_snoc,
            List.dropLast_concat, Bool.or_self, decide_true, if_true, elv, symsI_rev_cons, arsI_rev_cons,
            Int.natCast_zero, and_self]
        · have hlv' : ¬ ((lv : Int) = (L : Int)) := by omega
          simp only [Nat.sub_self, if_true, hlv, if_false] at hR
          refine ⟨((ar (randF k), lv + 1) :: st, k + 1, (randF k, ar (randF k)) :: acc), ⟨pos_cons _ _ _ hF hp', ?_⟩, hR⟩
          subst hs1
          simp only [he, hd, hb, hs, hdd, hn, hna, hk, e1, hlv', isEmpty_snoc, last_snoc, setlast_snoc,
            List.dropLast_concat, Bool.or_self, decide_true, decide_false, if_true, Bool.false_eq_true, if_false,
            elv, elv', symsI_rev_cons, arsI_rev_cons, stS_cons, stD_cons, Int.toNat_natCast, and_self]
      · have hc2 : ¬ (c - 1 = 0) := by omega
        have e1 : ¬ ((c : Int) - 1 = 0) := by omega
        have ec : ((c - 1 : Nat) : Int) = (c : Int) - 1 := by omega
        have hc3 : 1 ≤ c - 1 := by omega
        by_cases hlv : lv = L
        · subst hlv
          simp only [hc2, if_false, if_true] at hR
          refine ⟨((c - 1, lv) :: st, k + 1, (randT k, 0) :: acc), ⟨pos_cons _ _ _ hc3 hp', ?_⟩, hR⟩
          subst hs1
          simp only [he, hd, hb, hs, hdd, hn, hna, hk, e1, ec, isEmpty_snoc, last_snoc, setlast_snoc,
            List.dropLast_concat, Bool.or_self, decide_true, decide_false, if_true, Bool.false_eq_true, if_false,
            elv, symsI_rev_cons, arsI_rev_cons, stS_cons, stD_cons,
            Int.natCast_zero, and_self]
        · have hlv' : ¬ ((lv : Int) = (L : Int)) := by omega
          simp only [hc2, hlv, if_false] at hR
          refine ⟨((ar (randF k), lv + 1) :: (c - 1, lv) :: st, k + 1, (randF k, ar (randF k)) :: acc),
            ⟨pos_cons _ _ _ hF (pos_cons _ _ _ hc3 hp'), ?_⟩, hR⟩
          subst hs1
          simp only [he, hd, hb, hs, hdd, hn, hna, hk, e1, ec, hlv', isEmpty_snoc, last_snoc, setlast_snoc,
            List.dropLast_concat, Bool.or_self, decide_true, decide_false, if_true, Bool.false_eq_true, if_false,
            elv, elv', symsI_rev_cons, arsI_rev_cons, stS_cons, stD_cons, Int.toNat_natCast, and_self]

theorem src_growing_method (L fuel : Nat) (ar : Nat → Nat) (randF randT : Nat → Nat) (key : Int) (coins : List Int) (l : Flat)
    (hpos : ∀ k, 1 ≤ ar (randF k))
    (h : growRun false L ar randF randT key fuel coins = some l) :
    Tree_growing_method (L : Int) key coins fuel (fun s => (ar s.toNat : Int)) (fun k => (randF k : Int)) (fun k => (randT k : Int)) =
      some [symsI l, arsI l] := by
  unfold Tree_growing_method
  refine whileN_run
    (Inv := fun (a : List (Nat × Nat) × Nat × Nat × Flat) (s : Tree_growing_method.S) =>
      (∀ p ∈ a.1, 1 ≤ p.1) ∧
      s.err = false ∧ s.dry = false ∧ s.brk = false ∧ s.possible_steps = stS a.1 ∧ s.previous_levels = stD a.1 ∧
      s.nodes = symsI a.2.2.2.reverse ∧ s.n_args = arsI a.2.2.2.reverse ∧ s.kx = a.2.1 ∧ s.ku = a.2.2.1)
    (R := fun n a => growRunAux false L ar randF randT key n a.1 a.2.1 (coins.drop a.2.2.1) a.2.2.2 = some l)
    (Post := fun s => (if (s.err || s.dry) = true then none else some [s.nodes, s.n_args]) = some [symsI l, arsI l])
    _ _ _ _ ([(1, 0)], 0, 0, []) ?_ h ?_ ?_ ?_
  · simp [stS, stD, symsI, arsI, arities]
  · rintro n ⟨st, k, ku, acc⟩ s ⟨hp, he, hd, hb, hs, hdd, hn, hna, hk, hku⟩ hc hR
    simp only at hs hdd hn hna hk hku hp hR
    simp only [hb, hs, truthy_leni_stS, Bool.not_false, Bool.true_and, Bool.not_eq_false'] at hc
    have hst : st = [] := by cases st <;> simp_all
    subst hst
    rw [growRunAux_nil] at hR
    injection hR with hR
    subst hR
    simp [he, hd, hn, hna]
  · rintro ⟨st, k, ku, acc⟩ s ⟨hp, he, hd, hb, hs, hdd, hn, hna, hk, hku⟩ hc hR
    simp only at hs hdd hn hna hk hku hp hR
    simp only [hb, hs, truthy_leni_stS, Bool.not_false, Bool.true_and] at hc
    cases st with
    | nil => simp at hc
    | cons p st => simp [growRunAux] at hR
  · rintro n ⟨st, k, ku, acc⟩ s s1 ⟨hp, he, hd, hb, hs, hdd, hn, hna, hk, hku⟩ hc hs1 hR
    simp only at hs hdd hn hna hk hku hp hR
    simp only [hb, hs, truthy_leni_stS, Bool.not_false, Bool.true_and] at hc
    cases st with
    | nil => simp at hc
    | cons p st =>
      obtain ⟨c, lv⟩ := p
      have hc1 : 1 ≤ c := hp (c, lv) (by simp)
      have hp' : ∀ p ∈ st, 1 ≤ p.1 := fun p hp0 => hp p (by simp [hp0])
      rw [stS_cons] at hs
      rw [stD_cons] at hdd
      simp only [growRunAux, Bool.false_or, decide_eq_true_eq] at hR
      have elv : (lv : Int) - 1 + 1 = (lv : Int) := by omega
      have elv' : ((lv + 1 : Nat) : Int) - 1 = (lv : Int) := by omega
      have hF := hpos k
      by_cases hc1 : c = 1
      · subst hc1
        have e1 : ((1 : Nat) : Int) - 1 = 0 := rfl
        have ec : True := trivial
        by_cases hlv : lv = L
        · subst hlv
          simp only [Nat.sub_self, if_true] at hR
          refine ⟨(st, k + 1, ku, (randT k, 0) :: acc), ⟨hp', ?_⟩, hR⟩
          subst hs1
          simp only [he, hd, hb, hs, hdd, hn, hna, hk, hku, e1, ec,  isEmpty_snoc, last_snoc, setlast_snoc,
            List.dropLast_concat, Bool.or_self, decide_true, decide_false, if_true, Bool.false_eq_true, if_false,
            elv, elv', symsI_rev_cons, arsI_rev_cons, stS_cons, stD_cons, Int.toNat_natCast, Int.natCast_zero, and_self]
        · have hlv' : ¬ ((lv : Int) = (L : Int)) := by omega
          by_cases hlv0 : lv = 0
          · have hlv0' : decide ((lv : Int) = 0) = true := by simp [hlv0]
            simp only [Nat.sub_self, if_true, hlv, if_false] at hR
            rw [if_pos hlv0] at hR
            refine ⟨((ar (randF k), lv + 1) :: st, k + 1, ku, (randF k, ar (randF k)) :: acc), ⟨pos_cons _ _ _ hF hp', ?_⟩, hR⟩
            subst hs1
            simp only [he, hd, hb, hs, hdd, hn, hna, hk, hku, e1, ec, hlv', hlv0', isEmpty_snoc, last_snoc, setlast_snoc,
              List.dropLast_concat, Bool.or_self, decide_true, decide_false, if_true, Bool.false_eq_true, if_false,
              elv, elv', symsI_rev_cons, arsI_rev_cons, stS_cons, stD_cons, Int.toNat_natCast, Int.natCast_zero, and_self]
          · have hlv0' : decide ((lv : Int) = 0) = false := by simp; omega
            simp only [Nat.sub_self, if_true, hlv, hlv0, if_false] at hR
            cases hcd : coins.drop ku with
            | nil => rw [hcd] at hR; simp at hR
            | cons u cs =>
              rw [hcd] at hR
              simp only at hR
              obtain ⟨hg, hdry, hdrop⟩ := stream_head coins ku u cs hcd
              by_cases hu : u < key
              · simp only [hu, if_true] at hR
                by_cases ha : ar (randT k) > 0
                · have ha' : ((ar (randT k) : Nat) : Int) > 0 := by omega
                  simp only [ha, if_true] at hR
                  rw [← hdrop] at hR
                  refine ⟨((ar (randT k), lv + 1) :: st, k + 1, ku + 1, (randT k, ar (randT k)) :: acc), ⟨pos_cons _ _ _ ha hp', ?_⟩, hR⟩
                  subst hs1
                  simp only [he, hd, hb, hs, hdd, hn, hna, hk, hku, e1, ec, hlv', hlv0', hg, hdry, hu, ha', isEmpty_snoc, last_snoc, setlast_snoc,
                    List.dropLast_concat, Bool.or_self, decide_true, decide_false, if_true, Bool.false_eq_true, if_false,
                    elv, elv', symsI_rev_cons, arsI_rev_cons, stS_cons, stD_cons, Int.toNat_natCast, Int.natCast_zero, and_self]
                · have ha' : ¬ (((ar (randT k) : Nat) : Int) > 0) := by omega
                  simp only [ha, if_false] at hR
                  rw [← hdrop] at hR
                  refine ⟨(st, k + 1, ku + 1, (randT k, ar (randT k)) :: acc), ⟨hp', ?_⟩, hR⟩
                  subst hs1
                  simp only [he, hd, hb, hs, hdd, hn, hna, hk, hku, e1, ec, hlv', hlv0', hg, hdry, hu, ha', isEmpty_snoc, last_snoc, setlast_snoc,
                    List.dropLast_concat, Bool.or_self, decide_true, decide_false, if_true, Bool.false_eq_true, if_false,
                    elv, elv', symsI_rev_cons, arsI_rev_cons, stS_cons, stD_cons, Int.toNat_natCast, Int.natCast_zero, and_self]
              · simp only [hu, if_false] at hR
                by_cases ha : ar (randF k) > 0
                · have ha' : ((ar (randF k) : Nat) : Int) > 0 := by omega
                  simp only [ha, if_true] at hR
                  rw [← hdrop] at hR
                  refine ⟨((ar (randF k), lv + 1) :: st, k + 1, ku + 1, (randF k, ar (randF k)) :: acc), ⟨pos_cons _ _ _ ha hp', ?_⟩, hR⟩
                  subst hs1
                  simp only [he, hd, hb, hs, hdd, hn, hna, hk, hku, e1, ec, hlv', hlv0', hg, hdry, hu, ha', isEmpty_snoc, last_snoc, setlast_snoc,
                    List.dropLast_concat, Bool.or_self, decide_true, decide_false, if_true, Bool.false_eq_true, if_false,
                    elv, elv', symsI_rev_cons, arsI_rev_cons, stS_cons, stD_cons, Int.toNat_natCast, Int.natCast_zero, and_self]
                · have ha' : ¬ (((ar (randF k) : Nat) : Int) > 0) := by omega
                  simp only [ha, if_false] at hR
                  rw [← hdrop] at hR
                  refine ⟨(st, k + 1, ku + 1, (randF k, ar (randF k)) :: acc), ⟨hp', ?_⟩, hR⟩
                  subst hs1
                  simp only [he, hd, hb, hs, hdd, hn, hna, hk, hku, e1, ec, hlv', hlv0', hg, hdry, hu, ha', isEmpty_snoc, last_snoc, setlast_snoc,
                    List.dropLast_concat, Bool.or_self, decide_true, decide_false, if_true, Bool.false_eq_true, if_false,
                    elv, elv', symsI_rev_cons, arsI_rev_cons, stS_cons, stD_cons, Int.toNat_natCast, Int.natCast_zero, and_self]
      · have hc2 : ¬ (c - 1 = 0) := by omega
        have e1 : ¬ ((c : Int) - 1 = 0) := by omega
        have ec : ((c - 1 : Nat) : Int) = (c : Int) - 1 := by omega
        have hc3 : 1 ≤ c - 1 := by omega
        by_cases hlv : lv = L
        · subst hlv
          simp only [hc2, if_false] at hR
          refine ⟨((c - 1, lv) :: st, k + 1, ku, (randT k, 0) :: acc), ⟨pos_cons _ _ _ hc3 hp', ?_⟩, hR⟩
          subst hs1
          simp only [he, hd, hb, hs, hdd, hn, hna, hk, hku, e1, ec,  isEmpty_snoc, last_snoc, setlast_snoc,
            List.dropLast_concat, Bool.or_self, decide_true, decide_false, if_true, Bool.false_eq_true, if_false,
            elv, elv', symsI_rev_cons, arsI_rev_cons, stS_cons, stD_cons, Int.toNat_natCast, Int.natCast_zero, and_self]
        · have hlv' : ¬ ((lv : Int) = (L : Int)) := by omega
          by_cases hlv0 : lv = 0
          · have hlv0' : decide ((lv : Int) = 0) = true := by simp [hlv0]
            simp only [hc2, if_false, hlv, if_false] at hR
            rw [if_pos hlv0] at hR
            refine ⟨((ar (randF k), lv + 1) :: (c - 1, lv) :: st, k + 1, ku, (randF k, ar (randF k)) :: acc), ⟨pos_cons _ _ _ hF (pos_cons _ _ _ hc3 hp'), ?_⟩, hR⟩
            subst hs1
            simp only [he, hd, hb, hs, hdd, hn, hna, hk, hku, e1, ec, hlv', hlv0', isEmpty_snoc, last_snoc, setlast_snoc,
              List.dropLast_concat, Bool.or_self, decide_true, decide_false, if_true, Bool.false_eq_true, if_false,
              elv, elv', symsI_rev_cons, arsI_rev_cons, stS_cons, stD_cons, Int.toNat_natCast, Int.natCast_zero, and_self]
          · have hlv0' : decide ((lv : Int) = 0) = false := by simp; omega
            simp only [hc2, if_false, hlv, hlv0, if_false] at hR
            cases hcd : coins.drop ku with
            | nil => rw [hcd] at hR; simp at hR
            | cons u cs =>
              rw [hcd] at hR
              simp only at hR
              obtain ⟨hg, hdry, hdrop⟩ := stream_head coins ku u cs hcd
              by_cases hu : u < key
              · simp only [hu, if_true] at hR
                by_cases ha : ar (randT k) > 0
                · have ha' : ((ar (randT k) : Nat) : Int) > 0 := by omega
                  simp only [ha, if_true] at hR
                  rw [← hdrop] at hR
                  refine ⟨((ar (randT k), lv + 1) :: (c - 1, lv) :: st, k + 1, ku + 1, (randT k, ar (randT k)) :: acc), ⟨pos_cons _ _ _ ha (pos_cons _ _ _ hc3 hp'), ?_⟩, hR⟩
                  subst hs1
                  simp only [he, hd, hb, hs, hdd, hn, hna, hk, hku, e1, ec, hlv', hlv0', hg, hdry, hu, ha', isEmpty_snoc, last_snoc, setlast_snoc,
                    List.dropLast_concat, Bool.or_self, decide_true, decide_false, if_true, Bool.false_eq_true, if_false,
                    elv, elv', symsI_rev_cons, arsI_rev_cons, stS_cons, stD_cons, Int.toNat_natCast, Int.natCast_zero, and_self]
                · have ha' : ¬ (((ar (randT k) : Nat) : Int) > 0) := by omega
                  simp only [ha, if_false] at hR
                  rw [← hdrop] at hR
                  refine ⟨((c - 1, lv) :: st, k + 1, ku + 1, (randT k, ar (randT k)) :: acc), ⟨pos_cons _ _ _ hc3 hp', ?_⟩, hR⟩
                  subst hs1
                  simp only [he, hd, hb, hs, hdd, hn, hna, hk, hku, e1, ec, hlv', hlv0', hg, hdry, hu, ha', isEmpty_snoc, last_snoc, setlast_snoc,
                    List.dropLast_concat, Bool.or_self, decide_true, decide_false, if_true, Bool.false_eq_true, if_false,
                    elv, elv', symsI_rev_cons, arsI_rev_cons, stS_cons, stD_cons, Int.toNat_natCast, Int.natCast_zero, and_self]
              · simp only [hu, if_false] at hR
                by_cases ha : ar (randF k) > 0
                · have ha' : ((ar (randF k) : Nat) : Int) > 0 := by omega
                  simp only [ha, if_true] at hR
                  rw [← hdrop] at hR
                  refine ⟨((ar (randF k), lv + 1) :: (c - 1, lv) :: st, k + 1, ku + 1, (randF k, ar (randF k)) :: acc), ⟨pos_cons _ _ _ ha (pos_cons _ _ _ hc3 hp'), ?_⟩, hR⟩
                  subst hs1
                  simp only [he, hd, hb, hs, hdd, hn, hna, hk, hku, e1, ec, hlv', hlv0', hg, hdry, hu, ha', isEmpty_snoc, last_snoc, setlast_snoc,
                    List.dropLast_concat, Bool.or_self, decide_true, decide_false, if_true, Bool.false_eq_true, if_false,
                    elv, elv', symsI_rev_cons, arsI_rev_cons, stS_cons, stD_cons, Int.toNat_natCast, Int.natCast_zero, and_self]
                · have ha' : ¬ (((ar (randF k) : Nat) : Int) > 0) := by omega
                  simp only [ha, if_false] at hR
                  rw [← hdrop] at hR
                  refine ⟨((c - 1, lv) :: st, k + 1, ku + 1, (randF k, ar (randF k)) :: acc), ⟨pos_cons _ _ _ hc3 hp', ?_⟩, hR⟩
                  subst hs1
                  simp only [he, hd, hb, hs, hdd, hn, hna, hk, hku, e1, ec, hlv', hlv0', hg, hdry, hu, ha', isEmpty_snoc, last_snoc, setlast_snoc,
                    List.dropLast_concat, Bool.or_self, decide_true, decide_false, if_true, Bool.false_eq_true, if_false,
                    elv, elv', symsI_rev_cons, arsI_rev_cons, stS_cons, stD_cons, Int.toNat_natCast, Int.natCast_zero, and_self]

/-- the run's result, fed to the model `growInit` as its stream of choices, is returned unchanged: at `L` the
    run has already placed terminals, so the model's forced replacement never fires -/
theorem growRun_growInit (full : Bool) (L fuel : Nat) (ar : Nat → Nat) (randF randT : Nat → Nat) (key : Int) (coins : List Int)
    (l : Flat) (term : Nat)
    (hpos : ∀ k, 1 ≤ ar (randF k)) (hT : ∀ k, ar (randT k) = 0)
    (h : growRun full L ar randF randT key fuel coins = some l) :
    growInit L term l = some l ∧ ∀ n ∈ l, n.2 = ar n.1 := by
  obtain ⟨rest, h1, h2, h3⟩ := growRunAux_growAux full L ar randF randT key term hpos hT fuel [(1, 0)] 0 coins [] l h
  have hl : l = rest := by simpa using h1
  subst hl
  exact ⟨h2, h3⟩

end TFV.SrcTie
