/-
  TFV.Lemmas.Src.Bsearch — the translated `binary_search_interval`, `check_for_value`, `argsort_k`
  equal the models of TFV.Model.Select.
-/
import TFV.Generated.Src.binary_search_interval
import TFV.Generated.Src.check_for_value
import TFV.Generated.Src.argsort_k
import TFV.Model.Select
import TFV.Lemmas.Select
import TFV.Lemmas.Src.ImpLemmas

namespace TFV.SrcTie
open TFV.Generated.Src TFV.Imp TFV.Select

/-! ### check_for_value -/

theorem contains_take_succ (arr : List Int) (v : Int) (k : Nat) (hk : k < arr.length) :
    (arr.take (k + 1)).contains v = ((arr.take k).contains v || (v == arr.getD k 0)) := by
  rw [List.take_succ_eq_append_getElem hk, List.contains_append]
  have hg : arr.getD k 0 = arr[k] := by simp [List.getD_eq_getElem?_getD, hk]
  rw [hg]
  by_cases h : v = arr[k] <;> simp [h]

private theorem inb_ofNat (a : List Int) (i : Nat) (h : i < a.length) : inb a (i : Int) = true := by
  simp only [inb, Bool.and_eq_true, decide_eq_true_eq]; omega

theorem src_check_for_value (v : Int) (arr : List Int) (e : Nat) (he : e ≤ arr.length) :
    check_for_value v arr (e : Int) = some ((arr.take e).contains v) := by
  unfold check_for_value
  simp only []
  refine forRange_elim
    (P := fun k (s : check_for_value.S) => s.found = (arr.take k).contains v ∧ s.brk = s.found ∧
      s.err = false ∧ s.dry = false)
    (Q := fun s => (if (s.err || s.dry) = true then none else some s.found) =
      some ((arr.take e).contains v)) _ _ _ _ _ ?_ ?_ ?_
  · simp
  · intro k s hk ⟨hf, hb, he', hd⟩
    have hk' : k < arr.length := by simp at hk; omega
    rw [contains_take_succ arr v k hk']
    by_cases hbrk : s.brk = true
    · simp only [hbrk, if_true]
      rw [← hf, ← hb, hbrk]; simp [he', hd]
    · simp only [hbrk, Int.zero_add, geti_ofNat, he', hd, inb_ofNat arr k hk']
      have hbf : s.brk = false := by simpa using hbrk
      rw [hbf] at hb
      generalize arr.getD k 0 = w
      by_cases hv : v = w
      · simp [hv]
      · have hnot : (arr.take k).contains v = false := by rw [← hf, ← hb]
        simp only [List.contains_eq_mem, decide_eq_false_iff_not] at hnot
        simp [hv, hnot, ← hb]
  · intro s ⟨hf, _, he', hd⟩
    simp [hf, he', hd]

/-! ### binary_search_interval -/

/-- one more unit of fuel changes nothing once the fuel covers the interval width -/
theorem bsLoop_fuel_succ (v : Int) (cum : List Int) :
    ∀ (n l r : Nat), r - l ≤ n + 1 → Select.bsLoop v cum (n + 1) l r = Select.bsLoop v cum n l r := by
  intro n
  induction n with
  | zero =>
    intro l r h
    have : ¬ (r - l > 1) := by omega
    simp [Select.bsLoop, this]
  | succ n ih =>
    intro l r h
    rw [Select.bsLoop]
    conv => rhs; rw [Select.bsLoop]
    by_cases hw : r - l > 1
    · simp only [hw, if_true]
      rw [ih l ((l + r) / 2) (by omega), ih ((l + r) / 2) r (by omega)]
    · simp only [hw, if_false]

/-- the translated `while right - left > 1` loop, described by what its condition and body do to
    `left` / `right` / `brk` / `err` / `dry`, computes `bsLoop` with the same fuel and performs
    no out-of-range read -/
theorem bs_while (v : Int) (cum : List Int)
    (c : binary_search_interval.S → Bool) (b : binary_search_interval.S → binary_search_interval.S)
    (hc : ∀ s, c s = (!s.brk && decide (s.right - s.left > 1)))
    (hbl : ∀ s, (b s).left =
      if v ≤ geti cum ((s.left + s.right) / 2) then s.left else (s.left + s.right) / 2)
    (hbr : ∀ s, (b s).right =
      if v ≤ geti cum ((s.left + s.right) / 2) then (s.left + s.right) / 2 else s.right)
    (hbb : ∀ s, (b s).brk = s.brk)
    (hbd : ∀ s, (b s).dry = s.dry)
    (hbe : ∀ s, (b s).err = (s.err || !inb cum ((s.left + s.right) / 2))) :
    ∀ (n : Nat) (s : binary_search_interval.S) (l r : Nat), s.left = (l : Int) → s.right = (r : Int) →
      r < cum.length → s.brk = false → s.err = false → s.dry = false →
      (whileN n c b s).right = ((Select.bsLoop v cum n l r : Nat) : Int) ∧
      (whileN n c b s).err = false ∧ (whileN n c b s).dry = false := by
  intro n
  induction n with
  | zero => intro s l r _ hr _ _ he hd; simpa [whileN, Select.bsLoop, he, hd] using hr
  | succ n ih =>
    intro s l r hl hr hrl hb he hd
    rw [whileN_succ, hc, Select.bsLoop, hl, hr, hb]
    have hmid : ((l : Int) + (r : Int)) / 2 = (((l + r) / 2 : Nat) : Int) := by omega
    by_cases hw : r - l > 1
    · have hw' : (r : Int) - (l : Int) > 1 := by omega
      simp only [hw, hw', decide_true, if_true, Bool.not_false, Bool.and_self]
      have h1 := hbl s
      have h2 := hbr s
      have h3 := hbe s
      rw [hl, hr, hmid] at h1 h2 h3
      rw [geti_ofNat] at h1 h2
      rw [inb_ofNat cum _ (by omega), he] at h3
      have hb' : (b s).brk = false := by rw [hbb, hb]
      have hd' : (b s).dry = false := by rw [hbd, hd]
      by_cases hv : v ≤ cum.getD ((l + r) / 2) 0
      · simp only [hv, if_true] at h1 h2 ⊢
        exact ih (b s) l ((l + r) / 2) h1 h2 (by omega) hb' h3 hd'
      · simp only [hv, if_false] at h1 h2 ⊢
        exact ih (b s) ((l + r) / 2) r h1 h2 hrl hb' h3 hd'
    · have hw' : ¬ ((r : Int) - (l : Int) > 1) := by omega
      simp only [hw, hw', decide_false, Bool.false_eq_true, if_false, hr, he, hd, Bool.and_false,
        and_self]

theorem src_bsearch (v : Int) (cum : List Int) (hne : cum ≠ []) :
    binary_search_interval v cum = some (Select.bsearch v cum : Int) := by
  unfold binary_search_interval Select.bsearch
  simp only [leni]
  have hg0 : geti cum 0 = cum.getD 0 0 := geti_ofNat cum 0
  rw [hg0]
  have hlen : 0 < cum.length := List.length_pos_iff.mpr hne
  have hin0 : inb cum 0 = true := inb_ofNat cum 0 hlen
  by_cases h : v ≤ cum.getD 0 0
  · simp only [h, decide_true, if_true, hin0]
    rfl
  · simp only [h, decide_false, Bool.false_eq_true, if_false, hin0]
    generalize hW : whileN _ _ _ _ = W
    obtain ⟨h1, h2, h3⟩ : W.right = ((Select.bsLoop v cum (cum.length + 1) 0 (cum.length - 1) : Nat) : Int) ∧
        W.err = false ∧ W.dry = false := by
      rw [← hW]
      exact bs_while v cum _ _ (fun s => rfl) (fun s => by
          by_cases hv : v ≤ geti cum ((s.left + s.right) / 2) <;> simp [hv])
        (fun s => by
          by_cases hv : v ≤ geti cum ((s.left + s.right) / 2) <;> simp [hv])
        (fun s => by
          by_cases hv : v ≤ geti cum ((s.left + s.right) / 2) <;> simp [hv])
        (fun s => by
          by_cases hv : v ≤ geti cum ((s.left + s.right) / 2) <;> simp [hv])
        (fun s => by
          by_cases hv : v ≤ geti cum ((s.left + s.right) / 2) <;> simp [hv])
        (cum.length + 1) _ 0 (cum.length - 1) rfl (by simp; omega) (by omega) rfl rfl rfl
    rw [bsLoop_fuel_succ v cum cum.length 0 (cum.length - 1) (by omega)] at h1
    simp [h1, h2, h3]

/-! ### argsort_k -/

/-- the two array writes of `a[i], a[m] = a[m], a[i]` are `Select.swap` -/
theorem set_set_eq_swap (V : List Int) (i m : Nat) (hi : i < V.length) (hm : m < V.length) :
    (V.set i (V.getD m 0)).set m (V.getD i 0) = Select.swap V i m := by
  rw [Select.swap_of_lt V i m hi hm]
  simp [List.getD_eq_getElem?_getD, hi, hm]

theorem set_set_map_eq_swap (I : List Nat) (i m : Nat) (hi : i < I.length) (hm : m < I.length) :
    ((I.map Int.ofNat).set i ((I.map Int.ofNat).getD m 0)).set m ((I.map Int.ofNat).getD i 0) =
      (Select.swap I i m).map Int.ofNat := by
  rw [Select.swap_of_lt I i m hi hm]
  simp [List.getD_eq_getElem?_getD, hi, hm, List.map_set]

theorem argmaxIdxAux_start (V : List Int) (m : Nat) (hm : m < V.length) :
    Select.argmaxIdxAux (V.getD m 0) 0 0 (V.drop m) = Select.argmaxIdx (V.drop m) := by
  rw [List.drop_eq_getElem_cons hm]
  simp [Select.argmaxIdxAux, Select.argmaxIdx, List.getD_eq_getElem?_getD, hm]

theorem src_argsort_k (vals : List Int) (k : Nat) (hk : k ≤ vals.length) :
    argsort_k vals (k : Int) = some ((Select.argsortK vals k).map Int.ofNat) := by
  unfold argsort_k
  simp only [leni, Int.toNat_natCast]
  refine forRange_elim
    (P := fun m (s : argsort_k.S) => s.brk = false ∧ s.err = false ∧ s.dry = false ∧
      s.size = (vals.length : Int) ∧
      ∃ (V : List Int) (I : List Nat), s.array_copy = V ∧ s.to_return = I.map Int.ofNat ∧
        V.length = vals.length ∧ I.length = vals.length ∧
        argsortKAux (k - m) m V I = argsortK vals k)
    (Q := fun s => (if (s.err || s.dry) = true then none else some s.to_return) =
      some ((argsortK vals k).map Int.ofNat)) _ _ _ _ _ ?_ ?_ ?_
  · exact ⟨rfl, rfl, rfl, rfl, vals, List.range vals.length, rfl, rfl, rfl, by simp, rfl⟩
  · intro m s hm ⟨hb, he, hd, hsz, V, I, hV, hI, hVl, hIl, hrest⟩
    have hmk : m < k := by omega
    have hmn : m < vals.length := by omega
    simp only [hb, Bool.false_eq_true, if_false, Int.zero_add, hsz, hV, hI]
    generalize hs1 : forRange _ _ _ _ _ = s1
    have hQ : s1.array_copy = V ∧ s1.to_return = I.map Int.ofNat ∧ s1.size = (vals.length : Int) ∧
        s1.i = (m : Int) ∧ s1.max_id = ((maxPosFrom V m : Nat) : Int) ∧ s1.err = false ∧
        s1.dry = false := by
      rw [← hs1]
      refine forRange_elim
        (P := fun t (s' : argsort_k.S) => s'.brk = false ∧ s'.err = false ∧ s'.dry = false ∧
          s'.array_copy = V ∧
          s'.to_return = I.map Int.ofNat ∧ s'.size = (vals.length : Int) ∧ s'.i = (m : Int) ∧
          ∃ bi : Nat, s'.max_id = ((m + bi : Nat) : Int) ∧
            argmaxIdxAux s'.max_ bi t (V.drop (m + t)) = argmaxIdx (V.drop m))
        (Q := fun s1 => s1.array_copy = V ∧ s1.to_return = I.map Int.ofNat ∧
          s1.size = (vals.length : Int) ∧ s1.i = (m : Int) ∧
          s1.max_id = ((maxPosFrom V m : Nat) : Int) ∧ s1.err = false ∧ s1.dry = false)
        _ _ _ _ _ ?_ ?_ ?_
      · refine ⟨rfl, ?_, hd, rfl, rfl, rfl, rfl, 0, rfl, ?_⟩
        · simp only [he, inb_ofNat V m (by omega), Bool.not_true, Bool.or_self]
        · simp only [geti_ofNat, Nat.add_zero]
          exact argmaxIdxAux_start V m (by omega)
      · intro t s' ht ⟨hb', he', hd', hV', hI', hsz', hi', bi, hmid, hrec⟩
        have ht' : m + t < V.length := by omega
        rw [List.drop_eq_getElem_cons ht', argmaxIdxAux] at hrec
        have hmt : (m : Int) + (t : Int) = ((m + t : Nat) : Int) := by omega
        have hg : geti V ((m : Int) + (t : Int)) = V[m + t] := by
          rw [hmt, geti_ofNat]
          simp [List.getD_eq_getElem?_getD, ht']
        have hin : inb V ((m : Int) + (t : Int)) = true := by
          rw [hmt]; exact inb_ofNat V _ ht'
        simp only [hb', he', hd', Bool.false_eq_true, if_false, hV', hg, hin, gt_iff_lt,
          Bool.not_true, Bool.or_self]
        by_cases hlt : s'.max_ < V[m + t]
        · simp only [hlt, if_true, decide_true] at hrec ⊢
          refine ⟨trivial, trivial, trivial, trivial, hI', hsz', hi', t, by omega, ?_⟩
          rw [← hrec]; rfl
        · simp only [hlt, if_false, decide_false, Bool.false_eq_true] at hrec ⊢
          refine ⟨trivial, trivial, trivial, trivial, hI', hsz', hi', bi, hmid, ?_⟩
          rw [← hrec]; rfl
      · intro s' ⟨_, he', hd', hV', hI', hsz', hi', bi, hmid, hrec⟩
        refine ⟨hV', hI', hsz', hi', ?_, he', hd'⟩
        have hn : m + ((vals.length : Int) - (m : Int)).toNat = V.length := by omega
        rw [hn, List.drop_length, argmaxIdxAux] at hrec
        rw [hmid, hrec, maxPosFrom]
    obtain ⟨h1, h2, h3, h4, h5, h6, h7⟩ := hQ
    obtain ⟨_, hmx, _⟩ := maxPosFrom_spec V m (by omega)
    have hiV : inb V (m : Int) = true := inb_ofNat V m (by omega)
    have hiVx : inb V ((maxPosFrom V m : Nat) : Int) = true := inb_ofNat V _ hmx
    have hiI : inb (I.map Int.ofNat) (m : Int) = true := inb_ofNat _ m (by simp; omega)
    have hiIx : inb (I.map Int.ofNat) ((maxPosFrom V m : Nat) : Int) = true :=
      inb_ofNat _ _ (by simp; omega)
    simp only [h1, h2, h3, h4, h5, h6, h7, hiV, hiVx, hiI, hiIx, Bool.not_true, Bool.or_self]
    refine ⟨trivial, trivial, trivial, trivial, Select.swap V m (maxPosFrom V m),
      Select.swap I m (maxPosFrom V m), ?_, ?_, by rw [swap_length, hVl], by rw [swap_length, hIl], ?_⟩
    · simp only [geti_ofNat, seti_ofNat]
      exact set_set_eq_swap V m _ (by omega) hmx
    · simp only [geti_ofNat, seti_ofNat]
      exact set_set_map_eq_swap I m _ (by omega) (by omega)
    · rw [← hrest, show k - m = (k - (m + 1)) + 1 by omega, argsortKAux]
  · intro s ⟨_, he, hd, _, V, I, _, hI, _, _, hrest⟩
    simp only [Int.sub_zero, Int.toNat_natCast, Nat.sub_self, argsortKAux] at hrest
    simp [he, hd, hI, hrest]
end TFV.SrcTie
