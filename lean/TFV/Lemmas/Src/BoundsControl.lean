/-
  TFV.Lemmas.Src.BoundsControl — the translated `bounds_control` is the coordinate-wise clamp.
-/
import TFV.Generated.Src.bounds_control
import TFV.Model.DE
import TFV.Lemmas.Src.ImpLemmas

namespace TFV.SrcTie
open TFV.Generated.Src TFV.Imp

theorem src_clamp_agrees (l r x : Int) :
    (((if x < l then l else if r < x then r else x : Int)) : Rat) =
      DE.clamp (l : Rat) (r : Rat) (x : Rat) := by
  unfold DE.clamp
  simp only [Rat.intCast_lt_intCast]
  split
  · rfl
  · split <;> rfl

/-- overwriting position `k` of "first `k` done, rest original" gives "first `k+1` done" -/
theorem take_drop_set (A x : List Int) (k : Nat) (hk : k < x.length) (hA : A.length = x.length)
    (v : Int) (hv : v = A.getD k 0) :
    (A.take k ++ x.drop k).set k v = A.take (k + 1) ++ x.drop (k + 1) := by
  apply List.ext_getElem?
  intro j
  have hkA : k < A.length := by omega
  subst hv
  grind

theorem src_bounds_control (x l r : List Int) (hl : l.length = x.length) (hr : r.length = x.length) :
    bounds_control x l r = some ((List.range x.length).map fun i =>
      if x.getD i 0 < l.getD i 0 then l.getD i 0
      else if r.getD i 0 < x.getD i 0 then r.getD i 0 else x.getD i 0) := by
  unfold bounds_control
  simp only [leni]
  generalize hA : ((List.range x.length).map fun i =>
      if x.getD i 0 < l.getD i 0 then l.getD i 0
      else if r.getD i 0 < x.getD i 0 then r.getD i 0 else x.getD i 0) = A
  have hAlen : A.length = x.length := by simp [← hA]
  have hAget : ∀ k, k < x.length → A.getD k 0 =
      (if x.getD k 0 < l.getD k 0 then l.getD k 0
       else if r.getD k 0 < x.getD k 0 then r.getD k 0 else x.getD k 0) := by
    intro k hk
    simp [← hA, List.getD_eq_getElem?_getD, hk]
  refine forRange_elim
    (P := fun k (s : bounds_control.S) => s.brk = false ∧ s.err = false ∧ s.dry = false ∧
      s.to_return = A.take k ++ x.drop k)
    (Q := fun s => (if (s.err || s.dry) = true then none else some s.to_return) = some A)
    _ _ _ _ _ ?_ ?_ ?_
  · simp
  · intro k s hk ⟨hb, he, hd, ht⟩
    have hk' : k < x.length := by simpa using hk
    have hlen : (A.take k ++ x.drop k).length = x.length := by
      simp only [List.length_append, List.length_take, List.length_drop]; omega
    have hin : ∀ a : List Int, a.length = x.length → inb a (k : Int) = true := by
      intro a ha; simp only [inb, Bool.and_eq_true, decide_eq_true_eq]; omega
    simp only [hb, he, hd, ht, Bool.false_eq_true, if_false, Int.zero_add, geti_ofNat, seti_ofNat,
      gt_iff_lt, hin x rfl, hin l hl, hin r hr, hin _ hlen, Bool.not_true, Bool.or_self]
    have hg := hAget k hk'
    by_cases h1 : x.getD k 0 < l.getD k 0
    · simp only [h1, if_true] at hg
      simp only [h1, decide_true, if_true, true_and]
      exact take_drop_set A x k hk' hAlen _ hg.symm
    · simp only [h1, if_false] at hg
      simp only [h1, decide_false, Bool.false_eq_true, if_false]
      by_cases h2 : r.getD k 0 < x.getD k 0
      · simp only [h2, if_true] at hg
        simp only [h2, decide_true, if_true, true_and]
        exact take_drop_set A x k hk' hAlen _ hg.symm
      · simp only [h2, if_false] at hg
        simp only [h2, decide_false, Bool.false_eq_true, if_false, true_and]
        rw [← take_drop_set A x k hk' hAlen _ hg.symm]
        apply List.ext_getElem?
        intro j
        have hkA : k < A.length := by omega
        grind
  · intro s ⟨_, he, hd, ht⟩
    simp [he, hd, ht, ← hAlen]

end TFV.SrcTie
