/-
  TFV.Lemmas.Src.PointMut — the Python-level GP operator `point_mutation` as translated from /repo equals
  `pointMut` of the model: the node at the drawn position is replaced, the arity array is left alone; the
  replacement is drawn for the arity recorded IN THE NODE (`node._n_args`) when the node is functional.
-/
import TFV.Generated.Src.point_mutation
import TFV.Model.Tree
import TFV.Lemmas.Src.TreeMethods

namespace TFV.SrcTie
open TFV.Generated.Src TFV.Tree TFV.Imp

theorem symsI_pointMut (l : Flat) (i newSym : Nat) :
    symsI (pointMut l i newSym) = (symsI l).set i (newSym : Int) := by
  simp [symsI, pointMut, List.map_set]

theorem arsI_pointMut (l : Flat) (i newSym : Nat) : arsI (pointMut l i newSym) = arsI l := by
  unfold arsI arities pointMut
  congr 1
  apply List.ext_getElem
  · simp
  · intro k h1 h2
    simp only [List.getElem_map, List.getElem_set]
    split
    · next h => subst h; simp [List.getD_eq_getElem?_getD, List.getElem?_eq_getElem (by simpa using h2)]
    · rfl

theorem src_point_mutation (l : Flat) (proba maxLevel u : Int) (urest : List Int) (i : Nat) (nrest : List Int)
    (isF : Int → Bool) (nodeAr : Int → Int) (randF : Int → Nat → Int) (randT : Nat → Int) (newSym : Nat)
    (hi : i < l.length)
    (hnew : (if isF (((l.getD i (0, 0)).1 : Nat) : Int) then randF (nodeAr (((l.getD i (0, 0)).1 : Nat) : Int)) 0
             else randT 0) = (newSym : Int)) :
    point_mutation (symsI l) (arsI l) proba maxLevel (u :: urest) ((i : Int) :: nrest) isF nodeAr randF randT =
      some [symsI (if u < proba then pointMut l i newSym else l),
            arsI (if u < proba then pointMut l i newSym else l)] := by
  have g0 : ∀ (x : Int) (xs : List Int), geti (x :: xs) (0 : Int) = x := fun _ _ => rfl
  have g0' : ∀ (x : Int) (xs : List Int), geti (x :: xs) ((0 : Nat) : Int) = x := fun _ _ => rfl
  have hin : inb (symsI l) (i : Int) = true := by simp [inb, symsI_length]; omega
  have hget : geti (symsI l) (i : Int) = (((l.getD i (0, 0)).1 : Nat) : Int) := by
    simp [geti, symsI, List.getD_eq_getElem?_getD, hi]
  generalize (((l.getD i (0, 0)).1 : Nat) : Int) = sy at hnew hget
  unfold point_mutation
  by_cases hu : u < proba
  · simp only [hu, if_true, symsI_pointMut, arsI_pointMut]
    by_cases hf : isF sy = true
    · simp only [hf, if_true] at hnew
      simp [g0, g0', hu, hin, hget, hf, hnew, seti]
    · simp only [hf, Bool.false_eq_true, if_false] at hnew
      simp [g0, g0', hu, hin, hget, hf, hnew, seti]
  · simp [g0, g0', hu]

end TFV.SrcTie
