/-
  TFV.Lemmas.Src.GrowLemmas — helper lemmas for TFV.Lemmas.Src.Grow: a fuel-exact simulation principle for
  `whileN`, the stack / accumulator representation lemmas, and the run `growRunAux` against the model `growAux`.
-/
import TFV.Model.Tree
import TFV.Lemmas.Src.ImpLemmas
import TFV.Lemmas.Src.ImpLemmas2
import TFV.Lemmas.Src.Levels
import TFV.Lemmas.Src.TreeMethods
import TFV.Lemmas.Src.GrowDefs

namespace TFV.Imp

/-- fuel-exact simulation: the abstract run `R fuel a` (read: "the model run with this fuel from `a` succeeds with
    the expected result") is matched iteration by iteration; the loop and the run consume the same fuel. -/
theorem whileN_run {σ α : Type} (Inv : α → σ → Prop) (R : Nat → α → Prop) (Post : σ → Prop)
    (fuel : Nat) (cond : σ → Bool) (body : σ → σ) (s : σ) (a : α)
    (h0 : Inv a s) (hR : R fuel a)
    (hdone : ∀ n a s, Inv a s → cond s = false → R n a → Post s)
    (hzero : ∀ a s, Inv a s → cond s = true → R 0 a → False)
    (hstep : ∀ n a s s', Inv a s → cond s = true → s' = body s → R (n + 1) a → ∃ a', Inv a' s' ∧ R n a') :
    Post (whileN fuel cond body s) := by
  induction fuel generalizing s a with
  | zero =>
    rw [whileN_zero]
    by_cases hc : cond s = true
    · exact (hzero a s h0 hc hR).elim
    · exact hdone 0 a s h0 (by simpa using hc) hR
  | succ n ih =>
    rw [whileN_succ]
    by_cases hc : cond s = true
    · rw [if_pos hc]
      obtain ⟨a', hI, hR'⟩ := hstep n a s (body s) h0 hc rfl hR
      exact ih (body s) a' hI hR'
    · rw [if_neg hc]
      exact hdone (n + 1) a s h0 (by simpa using hc) hR

end TFV.Imp

namespace TFV.SrcTie
open TFV.Tree TFV.Imp

theorem symsI_rev_cons (n : Node) (acc : Flat) : symsI (n :: acc).reverse = symsI acc.reverse ++ [(n.1 : Int)] := by
  simp [symsI]

theorem arsI_rev_cons (n : Node) (acc : Flat) : arsI (n :: acc).reverse = arsI acc.reverse ++ [(n.2 : Int)] := by
  simp [arsI, arities]

theorem truthy_leni_stS (st : List (Nat × Nat)) : truthy (leni (stS st)) = !st.isEmpty := by
  cases st with
  | nil => rfl
  | cons p st => simp [truthy, leni, stS]; omega

theorem pos_cons (a lv : Nat) (st : List (Nat × Nat)) (ha : 1 ≤ a) (h : ∀ p ∈ st, 1 ≤ p.1) :
    ∀ p ∈ (a, lv) :: st, 1 ≤ p.1 := by
  intro p hp
  rcases List.mem_cons.mp hp with rfl | hp
  · exact ha
  · exact h p hp

theorem growRunAux_nil (full : Bool) (L : Nat) (ar randF randT : Nat → Nat) (key : Int) (fuel k : Nat)
    (coins : List Int) (acc : Flat) :
    growRunAux full L ar randF randT key fuel [] k coins acc = some acc.reverse := by
  cases fuel <;> rfl

/-- the run's result, as a stream of choices for the model `growAux`, is accepted unchanged -/
theorem growRunAux_growAux (full : Bool) (L : Nat) (ar randF randT : Nat → Nat) (key : Int) (term : Nat)
    (hpos : ∀ k, 1 ≤ ar (randF k)) (hT : ∀ k, ar (randT k) = 0) :
    ∀ (fuel : Nat) (st : List (Nat × Nat)) (k : Nat) (coins : List Int) (acc l : Flat),
      growRunAux full L ar randF randT key fuel st k coins acc = some l →
      ∃ rest, l = acc.reverse ++ rest ∧ growAux L term st rest acc = some l ∧ ∀ n ∈ rest, n.2 = ar n.1 := by
  intro fuel
  induction fuel with
  | zero =>
    intro st k coins acc l h
    cases st with
    | nil =>
      rw [growRunAux_nil] at h
      injection h with h
      exact ⟨[], by simp [h], by simp [growAux, h], by simp⟩
    | cons p st => simp [growRunAux] at h
  | succ n ih =>
    intro st k coins acc l h
    cases st with
    | nil =>
      rw [growRunAux_nil] at h
      injection h with h
      exact ⟨[], by simp [h], by simp [growAux, h], by simp⟩
    | cons p st =>
      obtain ⟨c, lv⟩ := p
      simp only [growRunAux] at h
      by_cases hlv : lv = L
      · rw [if_pos hlv] at h
        obtain ⟨rest, h1, h2, h3⟩ := ih _ _ _ _ _ h
        refine ⟨(randT k, 0) :: rest, ?_, ?_, ?_⟩
        · rw [h1]; simp
        · rw [← h2]; simp [growAux]
        · intro m hm
          rcases List.mem_cons.mp hm with rfl | hm
          · exact (hT k).symm
          · exact h3 m hm
      · rw [if_neg hlv] at h
        by_cases hf : (full || decide (lv = 0)) = true
        · rw [if_pos hf] at h
          obtain ⟨rest, h1, h2, h3⟩ := ih _ _ _ _ _ h
          have hp := hpos k
          refine ⟨(randF k, ar (randF k)) :: rest, ?_, ?_, ?_⟩
          · rw [h1]; simp
          · rw [← h2]
            have : ar (randF k) > 0 := hp
            simp [growAux, hlv, this]
          · intro m hm
            rcases List.mem_cons.mp hm with rfl | hm
            · rfl
            · exact h3 m hm
        · rw [if_neg hf] at h
          cases coins with
          | nil => simp at h
          | cons u coins' =>
            simp only at h
            obtain ⟨rest, h1, h2, h3⟩ := ih _ _ _ _ _ h
            refine ⟨((if u < key then randT k else randF k), ar (if u < key then randT k else randF k)) :: rest, ?_, ?_, ?_⟩
            · rw [h1]; simp
            · rw [← h2]
              simp [growAux, hlv]
            · intro m hm
              rcases List.mem_cons.mp hm with rfl | hm
              · rfl
              · exact h3 m hm

end TFV.SrcTie
