/-
  Lemmas for the source ties of the vectorised Gray / binary kernels (C10): the numpy vocabulary of
  `TFV.Model.Np` against the list functions of `TFV.Model.Gray`.
-/
import TFV.Model.Np
import TFV.Model.Gray
import TFV.Lemmas.Gray
import Mathlib.Data.Nat.Bitwise

namespace TFV.GrayK
open TFV.Np TFV.Gray

/-- the truth values of a row -/
def toBools (r : List Int) : List Bool := r.map truthy
/-- a bit list as a 0/1 row -/
def ofBools (b : List Bool) : List Int := b.map b2i

/-- every entry of the array is 0 or 1 (a genotype / a result of `.astype(np.byte)` of booleans) -/
def Bits (m : Mat) : Prop := ∀ r ∈ m.rows, ∀ x ∈ r, x = 0 ∨ x = 1

theorem truthy_b2i (b : Bool) : truthy (b2i b) = b := by cases b <;> simp [truthy, b2i]

theorem b2i_truthy (x : Int) (h : x = 0 ∨ x = 1) : b2i (truthy x) = x := by
  rcases h with h | h <;> subst h <;> simp [truthy, b2i]

theorem toBools_ofBools (b : List Bool) : toBools (ofBools b) = b := by
  induction b with
  | nil => rfl
  | cons x xs ih => simp only [toBools, ofBools, List.map_cons, truthy_b2i] at *; rw [ih]

theorem ofBools_toBools (r : List Int) (h : ∀ x ∈ r, x = 0 ∨ x = 1) : ofBools (toBools r) = r := by
  induction r with
  | nil => rfl
  | cons x xs ih =>
    simp only [toBools, ofBools, List.map_cons] at *
    rw [b2i_truthy x (h x (by simp)), ih (fun y hy => h y (by simp [hy]))]

theorem ofBools_length (b : List Bool) : (ofBools b).length = b.length := by simp [ofBools]
theorem toBools_length (r : List Int) : (toBools r).length = r.length := by simp [toBools]

theorem ofBools_bits (b : List Bool) : ∀ x ∈ ofBools b, x = 0 ∨ x = 1 := by
  intro x hx
  simp only [ofBools, List.mem_map] at hx
  obtain ⟨c, _, rfl⟩ := hx
  cases c <;> simp [b2i]

/-- prefix xor of a row = `grayToBinAux` of its truth values -/
theorem xorAccumRow_eq (acc : Bool) (r : List Int) :
    xorAccumRow acc r = ofBools (grayToBinAux acc (toBools r)) := by
  induction r generalizing acc with
  | nil => rfl
  | cons g gs ih =>
    simp only [xorAccumRow, toBools, List.map_cons, grayToBinAux, ofBools]
    have := ih (acc ^^ truthy g)
    simp only [toBools, ofBools] at this
    rw [this]

/-- xor of neighbours of a row = the tail of `binToGrayAux` -/
theorem xorRow_shift (x : Int) (xs : List Int) :
    xorRow ((x :: xs).take xs.length) xs = ofBools (binToGrayAux (truthy x) (toBools xs)) := by
  induction xs generalizing x with
  | nil => rfl
  | cons y ys ih =>
    have h1 : (x :: y :: ys).take (y :: ys).length = x :: (y :: ys).take ys.length := by
      simp [List.take_succ_cons]
    rw [h1]
    simp only [xorRow, toBools, List.map_cons, binToGrayAux, ofBools]
    have := ih y
    simp only [toBools, ofBools] at this
    rw [this]

theorem bitsToNat_foldl (acc : Nat) (bs : List Bool) :
    bs.foldl (fun a b => 2 * a + b2n b) acc = acc * 2 ^ bs.length + bitsToNat bs := by
  induction bs generalizing acc with
  | nil => simp [bitsToNat]
  | cons b bs ih =>
    simp only [List.foldl_cons, List.length_cons, bitsToNat]
    rw [ih, ih (2 * 0 + b2n b)]
    rw [Nat.pow_succ]
    simp only [Nat.mul_zero, Nat.zero_add]
    rw [Nat.add_mul, Nat.add_assoc]
    congr 1
    rw [Nat.mul_comm 2 acc, Nat.mul_assoc, Nat.mul_comm 2 (2 ^ bs.length)]

theorem bitsToNat_cons (b : Bool) (bs : List Bool) :
    bitsToNat (b :: bs) = b2n b * 2 ^ bs.length + bitsToNat bs := by
  have := bitsToNat_foldl (b2n b) bs
  simp only [bitsToNat, List.foldl_cons, Nat.mul_zero, Nat.zero_add] at *
  exact this

theorem pow2Arange_succ (n : Nat) : pow2Arange (n + 1) = pow2Arange n ++ [(2 : Int) ^ n] := by
  simp [pow2Arange, List.range_succ]

theorem pow2Arange_length (n : Nat) : (pow2Arange n).length = n := by simp [pow2Arange]

theorem flip_pow2Arange_succ (n : Nat) : Np.flip (pow2Arange (n + 1)) = (2 : Int) ^ n :: Np.flip (pow2Arange n) := by
  simp [Np.flip, pow2Arange_succ]

theorem b2n_truthy_cast (x : Int) (h : x = 0 ∨ x = 1) : ((b2n (truthy x) : Nat) : Int) = x := by
  rcases h with h | h <;> subst h <;> simp [truthy, b2n]

/-- the dot product of a 0/1 row with the reversed powers of two = `bitsToNat` (most significant bit first) -/
theorem dotRow_flip_pow2 (r : List Int) (h : ∀ x ∈ r, x = 0 ∨ x = 1) :
    dotRow r (Np.flip (pow2Arange r.length)) = ((bitsToNat (toBools r) : Nat) : Int) := by
  induction r with
  | nil => simp [dotRow, bitsToNat, toBools]
  | cons x xs ih =>
    rw [List.length_cons, flip_pow2Arange_succ]
    simp only [dotRow, toBools, List.map_cons]
    rw [bitsToNat_cons]
    have ih' := ih (fun y hy => h y (by simp [hy]))
    simp only [toBools] at ih'
    rw [ih']
    have hx := b2n_truthy_cast x (h x (by simp))
    simp only [List.length_map]
    push_cast
    rw [hx]

theorem map_zip_map {α β γ δ : Type} (l : List α) (f : α → β) (g : α → γ) (h : β × γ → δ) :
    ((l.map f).zip (l.map g)).map h = l.map (fun x => h (f x, g x)) := by
  induction l with
  | nil => rfl
  | cons x xs ih => simp [ih]

/-- bit test against a power of two -/
theorem andPos_two_pow (n k : Nat) : andPos (n : Int) ((2 : Int) ^ k) = b2i (n.testBit k) := by
  unfold andPos
  have h2 : (((2 : Int) ^ k).toNat) = 2 ^ k := by
    have : ((2 : Int) ^ k) = ((2 ^ k : Nat) : Int) := by push_cast; rfl
    rw [this, Int.toNat_natCast]
  rw [Int.toNat_natCast, h2, Nat.and_two_pow]
  cases h : n.testBit k <;> simp

/-- the tests of a code against the reversed powers of two are its `natToBits` -/
theorem map_andPos_flip_pow2 (w n : Nat) :
    (Np.flip (pow2Arange w)).map (andPos (n : Int)) = ofBools (natToBits w n) := by
  unfold natToBits ofBools Np.flip pow2Arange
  rw [List.map_map, ← List.map_reverse, List.map_map]
  apply List.ext_getElem
  · simp
  · intro i h1 h2
    simp only [List.length_map, List.length_reverse, List.length_range] at h1 h2
    simp only [List.getElem_map, List.getElem_reverse, List.getElem_range, List.length_range, Function.comp]
    exact andPos_two_pow n (w - 1 - i)

theorem zip_replicate_map {α β γ : Type} (c : α) (xs : List β) (f : α × β → γ) :
    ((List.replicate xs.length c).zip xs).map f = xs.map fun x => f (c, x) := by
  induction xs with
  | nil => rfl
  | cons x xs ih => simp [List.replicate_succ, ih]

theorem natToBits_bits (w n : Nat) : ∀ x ∈ ofBools (natToBits w n), x = 0 ∨ x = 1 := ofBools_bits _

end TFV.GrayK
