/- Source tie for C03: the skeleton of `EvolutionaryAlgorithm.fit` — which methods are called, in
   which order, how often — as translated from /repo, against a recursive description of a run. -/
import TFV.Generated.Src.EA_fit
import TFV.Lemmas.Src.ImpLemmas
import TFV.Lemmas.Src.ImpLemmas2

namespace TFV.SrcTie
open TFV.Generated.Src TFV.Imp

/-! action codes: 1 seed the generators, 2 initial population, 3 evaluate + record (+ elitism),
    4 progress display, 5 stopping rule consulted, 6 new population, 7 on_generation callback -/

/-- one full generation after the first -/
def genBlock (cb : Bool) : List Int := [4, 5, 6, 3] ++ (if cb then [7] else [])

/-- what follows the first generation: at most `n` further generations; the stopping rule is consulted
    before each one and ends the run the first time it holds. `none`: the stream of rule results ran out. -/
def fitTail (cb : Bool) : Nat → List Bool → Option (List Int)
  | 0, _ => some []
  | _ + 1, [] => none
  | _ + 1, true :: _ => some [4, 5]
  | n + 1, false :: rest => (fitTail cb n rest).map (genBlock cb ++ ·)

def fitTrace (iters : Nat) (cb : Bool) (stops : List Bool) : Option (List Int) :=
  (fitTail cb (iters - 1) stops).map ([1, 2, 3] ++ ·)

def b2i (b : Bool) : Int := if b then 1 else 0

def blocks (cb : Bool) (k : Nat) : List Int := (List.replicate k (genBlock cb)).flatten

theorem blocks_succ (cb : Bool) (k : Nat) : blocks cb (k + 1) = blocks cb k ++ genBlock cb := by
  simp [blocks, List.replicate_succ', List.flatten_append]

theorem blocks_succ' (cb : Bool) (k : Nat) : blocks cb (k + 1) = genBlock cb ++ blocks cb k := by
  simp [blocks, List.replicate_succ]

/-- (a) the rule first holds at position j < n -/
theorem fitTail_stop (cb : Bool) (n : Nat) (stops : List Bool) (j : Nat) (hj : j < n) (hjl : j < stops.length)
    (hf : ∀ i, i < j → stops.getD i false = false) (ht : stops.getD j false = true) :
    fitTail cb n stops = some (blocks cb j ++ [4, 5]) := by
  induction n generalizing stops j with
  | zero => omega
  | succ n ih =>
    cases stops with
    | nil => simp at hjl
    | cons b rest =>
      cases j with
      | zero =>
        simp only [List.getD_cons_zero] at ht
        subst ht
        simp [fitTail, blocks]
      | succ j =>
        have hb : b = false := by simpa using hf 0 (by omega)
        subst hb
        have := ih rest j (by omega) (by simpa using hjl)
          (fun i hi => by simpa using hf (i + 1) (by omega)) (by simpa using ht)
        simp [fitTail, this, blocks_succ', List.append_assoc]

/-- (b) the rule never holds during the n further generations -/
theorem fitTail_full (cb : Bool) (n : Nat) (stops : List Bool) (hn : n ≤ stops.length)
    (hf : ∀ i, i < n → stops.getD i false = false) :
    fitTail cb n stops = some (blocks cb n) := by
  induction n generalizing stops with
  | zero => simp [fitTail, blocks]
  | succ n ih =>
    cases stops with
    | nil => simp at hn
    | cons b rest =>
      have hb : b = false := by simpa using hf 0 (by omega)
      subst hb
      have := ih rest (by simpa using hn) (fun i hi => by simpa using hf (i + 1) (by omega))
      simp [fitTail, this, blocks_succ']

/-- (c) the stream runs out before the run ends -/
theorem fitTail_dry (cb : Bool) (n : Nat) (stops : List Bool) (hn : stops.length < n)
    (hf : ∀ i, i < stops.length → stops.getD i false = false) :
    fitTail cb n stops = none := by
  induction n generalizing stops with
  | zero => omega
  | succ n ih =>
    cases stops with
    | nil => simp [fitTail]
    | cons b rest =>
      have hb : b = false := by simpa using hf 0 (by simp)
      subst hb
      have := ih rest (by simpa using hn) (fun i hi => by simpa using hf (i + 1) (by simpa using hi))
      simp [fitTail, this]

theorem geti_b2i (stops : List Bool) (k : Nat) (hk : k < stops.length) :
    truthy (geti (stops.map b2i) (k : Int)) = stops.getD k false := by
  simp only [geti_ofNat, List.getD_eq_getElem?_getD, List.getElem?_map, List.getElem?_eq_getElem hk, Option.map_some,
    Option.getD_some]
  cases stops[k] <;> simp [b2i, truthy]

theorem geti_b2i_out (stops : List Bool) (k : Nat) (hk : stops.length ≤ k) :
    truthy (geti (stops.map b2i) (k : Int)) = false := by
  simp [geti_ofNat, List.getD_eq_getElem?_getD, List.getElem?_eq_none (by simpa using hk : (stops.map b2i).length ≤ k), truthy]

/-- the invariant of the `for i in range(iters - 1)` loop of `fit` -/
def FitInv (cb : Bool) (stops : List Bool) (k : Nat) (s : EA_fit.S) : Prop :=
  s.err = false ∧
  ((s.brk = false ∧ s.dry = false ∧ s.kb = k ∧ k ≤ stops.length ∧ (∀ i, i < k → stops.getD i false = false) ∧
      s.log = [1, 2, 3] ++ blocks cb k) ∨
   (s.brk = true ∧ s.dry = false ∧ ∃ j, j < k ∧ j < stops.length ∧ (∀ i, i < j → stops.getD i false = false) ∧
      stops.getD j false = true ∧ s.log = [1, 2, 3] ++ blocks cb j ++ [4, 5]) ∨
   (s.brk = false ∧ s.dry = true ∧ stops.length ≤ s.kb ∧ stops.length < k ∧
      (∀ i, i < stops.length → stops.getD i false = false)))

theorem src_fit (iters : Nat) (rs : Int) (cb : Bool) (stops : List Bool) :
    EA_fit (iters : Int) rs cb (stops.map b2i) = fitTrace iters cb stops := by
  unfold EA_fit
  have hn : ((iters : Int) - 1 - 0).toNat = iters - 1 := by omega
  refine forRange_elim2 (P := FitInv cb stops)
    (Q := fun s => (if (({ s with brk := false } : EA_fit.S).err || ({ s with brk := false } : EA_fit.S).dry) = true then none
        else some ({ s with brk := false } : EA_fit.S).log) = fitTrace iters cb stops)
    _ _ _ _ _ ?_ ?_ ?_ ?_
  · refine ⟨rfl, Or.inl ⟨rfl, rfl, rfl, Nat.zero_le _, fun i hi => absurd hi (Nat.not_lt_zero i), ?_⟩⟩
    simp [blocks]
  · intro k s _ ⟨he, h⟩ hs
    refine ⟨he, ?_⟩
    rcases h with ⟨hb, _⟩ | ⟨hb, hd, j, hj, rest⟩ | ⟨hb, _⟩
    · rw [hb] at hs; exact absurd hs (by simp)
    · exact Or.inr (Or.inl ⟨hb, hd, j, by omega, rest⟩)
    · rw [hb] at hs; exact absurd hs (by simp)
  · intro k s s' hk ⟨he, h⟩ hnb hs'
    rcases h with ⟨hb, hd, hkb, hkl, hf, hlog⟩ | ⟨hb, _⟩ | ⟨hb, hd, hlen, hlk, hf⟩
    · by_cases hlt : k < stops.length
      · have ht := geti_b2i stops k hlt
        have hdry : decide ((stops.map b2i).length ≤ k) = false := by simp; omega
        generalize hg : stops.getD k false = v at ht
        subst hkb
        cases v with
        | true =>
          -- the rule holds: break
          have hs2 : s'.err = false ∧ s'.brk = true ∧ s'.dry = false ∧ s'.log = s.log ++ [4, 5] := by
            subst hs'; simp [ht, he, hd, hlt]
          exact ⟨hs2.1, Or.inr (Or.inl ⟨hs2.2.1, hs2.2.2.1, s.kb, by omega, hlt, hf, hg, by
            rw [hs2.2.2.2, hlog]⟩)⟩
        | false =>
          have hs2 : s'.err = false ∧ s'.brk = false ∧ s'.dry = false ∧ s'.kb = s.kb + 1 ∧ s'.log = s.log ++ genBlock cb := by
            subst hs'; cases cb <;> simp [ht, he, hd, hb, hlt, genBlock]
          refine ⟨hs2.1, Or.inl ⟨hs2.2.1, hs2.2.2.1, hs2.2.2.2.1, by omega, ?_, ?_⟩⟩
          · intro i hi
            by_cases hik : i = s.kb
            · subst hik; exact hg
            · exact hf i (by omega)
          · rw [hs2.2.2.2.2, hlog, blocks_succ, List.append_assoc]
      · -- the stream is exhausted
        have hkeq : stops.length ≤ k := by omega
        have ht := geti_b2i_out stops k hkeq
        have hdry : decide ((stops.map b2i).length ≤ k) = true := by simp; omega
        subst hkb
        have hs2 : s'.err = false ∧ s'.brk = false ∧ s'.dry = true ∧ s'.kb = s.kb + 1 := by
          subst hs'; cases cb <;> simp [ht, he, hb, hkeq]
        exact ⟨hs2.1, Or.inr (Or.inr ⟨hs2.2.1, hs2.2.2.1, by omega, by omega, fun i hi => hf i (by omega)⟩)⟩
    · simp only [hb] at hnb; exact absurd hnb (by simp)
    · have ht := geti_b2i_out stops s.kb hlen
      have hs2 : s'.err = false ∧ s'.brk = false ∧ s'.dry = true ∧ s'.kb = s.kb + 1 := by
        subst hs'; cases cb <;> simp [ht, he, hb, hd]
      exact ⟨hs2.1, Or.inr (Or.inr ⟨hs2.2.1, hs2.2.2.1, by omega, by omega, hf⟩)⟩
  · intro s ⟨he, h⟩
    rw [hn] at h
    rcases h with ⟨hb, hd, hkb, hkl, hf, hlog⟩ | ⟨hb, hd, j, hj, hjl, hf, ht, hlog⟩ | ⟨hb, hd, hlen, hlk, hf⟩
    · simp [he, hd, hlog, fitTrace, fitTail_full cb (iters - 1) stops hkl hf]
    · simp [he, hd, hlog, fitTrace, fitTail_stop cb (iters - 1) stops j hj hjl hf ht]
    · simp [he, hd, fitTrace, fitTail_dry cb (iters - 1) stops hlk hf]

end TFV.SrcTie
