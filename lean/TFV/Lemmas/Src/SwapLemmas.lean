/-
  TFV.Lemmas.Src.SwapLemmas — the pieces of the source tie of `swap_mutation`: the multi-argument
  positions as the translated mask computes them, and the list the loop holds after the slots from
  `j` on have been filled (`swapMid`), with the `Tree.concat` step from `j + 1` to `j`.
-/
import TFV.Model.Tree
import TFV.Lemmas.TreeCore
import TFV.Lemmas.TreeOps
import TFV.Lemmas.Src.ImpLemmas
import TFV.Lemmas.Src.ImpLemmas2
import TFV.Lemmas.Src.TreeIdx
import TFV.Lemmas.Src.TreeMethods
import TFV.Lemmas.Src.SwapDefs
import TFV.Lemmas.Src.SwapSort

namespace TFV.SrcTie
open TFV.Generated.Src TFV.Tree TFV.Imp

/-! ### the multi-argument positions -/

theorem whereNZAux_multi (o : Nat) (l : Flat) :
    whereNZAux o ((arsI l).map fun v => if v > (1 : Int) then (1 : Int) else 0) =
      ((List.range l.length).filter fun k => decide (1 < (l.getD k (0, 0)).2)).map
        fun k => Int.ofNat (o + k) := by
  induction l generalizing o with
  | nil => simp [arsI, arities, whereNZAux]
  | cons n ns ih =>
    have ih' := ih (o + 1)
    simp only [arsI, arities, List.map_cons, List.map_map] at ih' ⊢
    rw [List.length_cons, List.range_succ_eq_map, List.filter_cons, List.filter_map]
    have e : (fun k => Int.ofNat (o + k)) ∘ Nat.succ = fun k => Int.ofNat (o + 1 + k) := by
      funext k; simp only [Function.comp, Nat.succ_eq_add_one]; congr 1; omega
    have e2 : ((fun k => decide (1 < ((n :: ns).getD k (0, 0)).2)) ∘ Nat.succ) =
        fun k => decide (1 < (ns.getD k (0, 0)).2) := by
      funext k; simp
    rw [e2]
    by_cases h : 1 < n.2
    · have h' : (Int.ofNat n.2 > 1) := by simp only [Int.ofNat_eq_natCast]; omega
      simp only [List.getD_cons_zero, h, decide_true, if_true, h', whereNZAux, List.map_cons, List.map_map, e,
        ih']
      simp
    · have h' : ¬ (Int.ofNat n.2 > 1) := by simp only [Int.ofNat_eq_natCast]; omega
      simp only [List.getD_cons_zero, h, decide_false, if_false, h', whereNZAux, ih']
      simp
      intro a _ _; omega

theorem whereNZ_multi (l : Flat) :
    whereNZ ((arsI l).map fun v => if v > (1 : Int) then (1 : Int) else 0) =
      (multiArgs l).map Int.ofNat := by
  have := whereNZAux_multi 0 l
  simp only [Nat.zero_add] at this
  exact this

theorem mem_multiArgs (l : Flat) (x : Nat) (hx : x ∈ multiArgs l) :
    x < l.length ∧ 1 < (l.getD x (0, 0)).2 := by
  simpa [multiArgs] using hx

/-! ### the list between two iterations -/

/-- slots `j ..` already hold the new kids `N`, slots `.. j` still the old kids `ks` -/
def swapMid (pre post : Flat) (s0 : Nat) (ks N : List RT) (j : Nat) : Flat :=
  pre ++ (s0, ks.length) :: (flatL (ks.take j) ++ flatL (N.drop j)) ++ post

/-- the part before slot `j` -/
def swapPre (pre : Flat) (s0 : Nat) (ks : List RT) (j : Nat) : Flat :=
  pre ++ (s0, ks.length) :: flatL (ks.take j)

theorem swapPre_length (pre : Flat) (s0 : Nat) (ks : List RT) (j : Nat) :
    (swapPre pre s0 ks j).length = pre.length + 1 + sizeL (ks.take j) := by
  simp [swapPre, size_flatL]; omega

theorem swapMid_old (pre post : Flat) (s0 : Nat) (ks N : List RT) (j : Nat) (hj : j < ks.length) :
    swapMid pre post s0 ks N (j + 1) =
      swapPre pre s0 ks j ++ flat ks[j] ++ (flatL (N.drop (j + 1)) ++ post) := by
  unfold swapMid swapPre
  rw [List.take_succ_eq_append_getElem hj, flatL_append, flatL_cons]
  simp [flatL]

theorem swapMid_new (pre post : Flat) (s0 : Nat) (ks N : List RT) (j : Nat) (hj : j < N.length) :
    swapMid pre post s0 ks N j =
      swapPre pre s0 ks j ++ flat N[j] ++ (flatL (N.drop (j + 1)) ++ post) := by
  unfold swapMid swapPre
  rw [List.drop_eq_getElem_cons hj, flatL_cons]
  simp

theorem swapMid_full (pre post : Flat) (s0 : Nat) (ks N : List RT) (hN : N.length = ks.length) :
    swapMid pre post s0 ks N ks.length = pre ++ flat (.node s0 ks) ++ post := by
  unfold swapMid
  have h : N.drop ks.length = [] := List.drop_of_length_le (by omega)
  rw [List.take_length, h]
  simp [flat, flatL]

theorem swapMid_zero (pre post : Flat) (s0 : Nat) (ks N : List RT) (hN : N.length = ks.length) :
    swapMid pre post s0 ks N 0 = pre ++ flat (.node s0 N) ++ post := by
  unfold swapMid
  simp [flat, hN]

/-- one iteration: the new kid for slot `j` replaces the old one -/
theorem swapMid_step (pre post : Flat) (s0 : Nat) (ks N : List RT) (j : Nat) (hj : j < ks.length)
    (hjN : j < N.length) :
    Tree_concat (symsI (swapMid pre post s0 ks N (j + 1))) (arsI (swapMid pre post s0 ks N (j + 1)))
        ((pre.length + 1 + sizeL (ks.take j) : Nat) : Int) (symsI (flat N[j])) (arsI (flat N[j])) =
      some [symsI (swapMid pre post s0 ks N j), arsI (swapMid pre post s0 ks N j)] := by
  rw [swapMid_old pre post s0 ks N j hj, swapMid_new pre post s0 ks N j hjN, ← swapPre_length pre s0 ks j]
  rw [src_tree_concat, concat_flat]

/-! ### the model side -/

theorem invPerm_mem {n : Nat} {sig : List Nat} (hsig : sig.Perm (List.range n)) :
    ∀ k ∈ invPerm sig, k < n := by
  intro k hk
  simp only [invPerm, List.mem_map, List.mem_range] at hk
  obtain ⟨s, hs, rfl⟩ := hk
  have hlen := perm_range_length hsig
  have : s ∈ sig := hsig.mem_iff.2 (List.mem_range.2 (by omega))
  have := List.idxOf_lt_length_of_mem this
  omega

theorem invPerm_length (sig : List Nat) : (invPerm sig).length = sig.length := by simp [invPerm]

/-- the kids after the swap -/
def swapKids (ks : List RT) (sig : List Nat) : List RT :=
  (invPerm sig).map fun k => ks.getD k default

theorem swapKids_length (ks : List RT) (sig : List Nat) : (swapKids ks sig).length = sig.length := by
  simp [swapKids, invPerm]

theorem swapKids_getElem (ks : List RT) (sig : List Nat) (hsig : sig.Perm (List.range ks.length))
    (j : Nat) (hj : j < ks.length) :
    ∃ h : sig.idxOf j < ks.length,
      (swapKids ks sig)[j]'(by rw [swapKids_length, perm_range_length hsig]; exact hj) = ks[sig.idxOf j] := by
  have hlen := perm_range_length hsig
  have hmem : j ∈ sig := hsig.mem_iff.2 (List.mem_range.2 hj)
  have hlt : sig.idxOf j < ks.length := by
    have := List.idxOf_lt_length_of_mem hmem; omega
  refine ⟨hlt, ?_⟩
  simp [swapKids, invPerm, List.getD_eq_getElem?_getD, hlt]

theorem swapMut_context (pre post : Flat) (s : Nat) (ks : List RT) (perm : List Nat)
    (hmem : ∀ k ∈ perm, k < ks.length) (hlen : perm.length = ks.length) :
    swapMut (pre ++ flat (.node s ks) ++ post) pre.length perm =
      pre ++ flat (.node s (perm.map fun k => ks.getD k default)) ++ post := by
  have hmid : (perm.map fun k => subtree (pre ++ flat (.node s ks) ++ post)
        ((argsIds pre.length (arities (pre ++ flat (.node s ks) ++ post))).getD k 0)) =
      perm.map (flat ∘ fun k => ks.getD k default) := by
    apply List.map_congr_left
    intro k hk
    have hk' := hmem k hk
    rw [subtree_kid pre post s ks k hk']
    simp [List.getD_eq_getElem?_getD, hk']
  have hnode : flat (.node s (perm.map fun k => ks.getD k default)) =
      (s, ks.length) :: (perm.map (flat ∘ fun k => ks.getD k default)).flatten := by
    rw [flat, List.length_map, hlen, flatL_eq_flatMap, List.flatMap_def, List.map_map]
  unfold swapMut
  simp only []
  rw [take_succ_context, drop_endSub_context, hmid, hnode]
  simp

end TFV.SrcTie
