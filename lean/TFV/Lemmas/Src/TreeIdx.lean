/-
  TFV.Lemmas.Src.TreeIdx — the translated tree index kernels `find_end_subtree_from_i`,
  `find_id_args_from_i`, `find_first_difference_between_two` equal the models of TFV.Model.Tree.
-/
import TFV.Generated.Src.find_end_subtree_from_i
import TFV.Generated.Src.find_id_args_from_i
import TFV.Generated.Src.find_first_difference_between_two
import TFV.Model.Tree
import TFV.Lemmas.TreeCore
import TFV.Lemmas.Src.ImpLemmas

namespace TFV.SrcTie
open TFV.Generated.Src TFV.Tree TFV.Imp

/-! ### find_first_difference_between_two -/

theorem firstDiff_of_diff (a b : List Nat) (d : Nat) (hda : d < a.length) (hdb : d < b.length)
    (hne : a.getD d 0 ≠ b.getD d 0) (heq : ∀ j, j < d → a.getD j 0 = b.getD j 0) :
    firstDiff a b = d := by
  induction a generalizing b d with
  | nil => simp at hda
  | cons x as ih =>
    cases b with
    | nil => simp at hdb
    | cons y bs =>
      cases d with
      | zero =>
        have : x ≠ y := by simpa using hne
        simp [firstDiff, this]
      | succ d =>
        have hxy : x = y := by simpa using heq 0 (Nat.succ_pos d)
        subst hxy
        have hda' : d < as.length := by simpa using hda
        have hdb' : d < bs.length := by simpa using hdb
        have hrec := ih bs d hda' hdb' (by simpa using hne)
          (fun j hj => by simpa using heq (j + 1) (Nat.succ_lt_succ hj))
        cases as with
        | nil => simp at hda'
        | cons x' as' =>
          cases bs with
          | nil => simp at hdb'
          | cons y' bs' =>
            have e : firstDiff (x :: x' :: as') (x :: y' :: bs') =
                1 + firstDiff (x' :: as') (y' :: bs') := by simp [firstDiff]
            rw [e, hrec]; omega

theorem firstDiff_of_all (a b : List Nat) (ha : a ≠ []) (hb : b ≠ [])
    (heq : ∀ j, j < min a.length b.length → a.getD j 0 = b.getD j 0) :
    firstDiff a b = min a.length b.length - 1 := by
  induction a generalizing b with
  | nil => exact absurd rfl ha
  | cons x as ih =>
    cases b with
    | nil => exact absurd rfl hb
    | cons y bs =>
      have hxy : x = y := by simpa using heq 0 (by simp)
      subst hxy
      cases as with
      | nil => simp [firstDiff]
      | cons x' as' =>
        cases bs with
        | nil => simp [firstDiff]
        | cons y' bs' =>
          have hrec := ih (y' :: bs') (by simp) (by simp)
            (fun j hj => by
              have := heq (j + 1) (by simp only [List.length_cons] at hj ⊢; omega)
              simpa using this)
          have e : firstDiff (x :: x' :: as') (x :: y' :: bs') =
              1 + firstDiff (x' :: as') (y' :: bs') := by simp [firstDiff]
          rw [e, hrec]
          simp only [List.length_cons]; omega

private theorem inb_ofNat' (a : List Int) (i : Nat) (h : i < a.length) : inb a (i : Int) = true := by
  simp only [inb, Bool.and_eq_true, decide_eq_true_eq]; omega

theorem src_first_difference (a b : List Nat) (ha : a ≠ []) (hb : b ≠ []) :
    find_first_difference_between_two (a.map Int.ofNat) (b.map Int.ofNat) =
      some ((firstDiff a b : Nat) : Int) := by
  unfold find_first_difference_between_two
  simp only [leni, List.length_map]
  have hn : (min (a.length : Int) (b.length : Int) - 0).toNat = min a.length b.length := by omega
  refine forRange_elim
    (P := fun k (s : find_first_difference_between_two.S) => s.err = false ∧ s.dry = false ∧
      ((s.brk = false ∧ s.i = ((k - 1 : Nat) : Int) ∧ ∀ j, j < k → a.getD j 0 = b.getD j 0) ∨
      (s.brk = true ∧ ∃ d : Nat, s.i = (d : Int) ∧ d < k ∧ a.getD d 0 ≠ b.getD d 0 ∧
        ∀ j, j < d → a.getD j 0 = b.getD j 0)))
    (Q := fun s => (if (s.err || s.dry) = true then none else some s.i) =
      some ((firstDiff a b : Nat) : Int)) _ _ _ _ _ ?_ ?_ ?_
  · refine ⟨rfl, rfl, ?_⟩; left; simp
  · intro k s hk ⟨he, hd, hP⟩
    rw [hn] at hk
    have hia : inb (a.map Int.ofNat) (k : Int) = true := inb_ofNat' _ k (by simp; omega)
    have hib : inb (b.map Int.ofNat) (k : Int) = true := inb_ofNat' _ k (by simp; omega)
    rcases hP with ⟨hbrk, hi, hall⟩ | ⟨hbrk, d, hi, hd', hne, hall⟩
    · simp only [hbrk, he, hd, hia, hib, Bool.false_eq_true, if_false, Int.zero_add, geti_map_ofNat,
        Bool.not_true, Bool.or_self]
      by_cases hab : a.getD k 0 = b.getD k 0
      · simp only [hab, ne_eq, not_true_eq_false, decide_false, Bool.false_eq_true, if_false,
          true_and]
        left
        refine ⟨by simp, ?_⟩
        intro j hj
        by_cases hjk : j = k
        · subst hjk; exact hab
        · exact hall j (by omega)
      · have hab' : ¬ ((a.getD k 0 : Nat) : Int) = ((b.getD k 0 : Nat) : Int) := by
          intro h; exact hab (Int.ofNat.inj h)
        simp only [ne_eq, hab', not_false_eq_true, decide_true, if_true, true_and]
        right
        exact ⟨k, rfl, Nat.lt_succ_self k, hab, hall⟩
    · simp only [hbrk, if_true, true_and]
      exact ⟨he, hd, Or.inr ⟨d, hi, Nat.lt_succ_of_lt hd', hne, hall⟩⟩
  · intro s ⟨he, hd, key⟩
    rw [hn] at key
    rcases key with ⟨_, hi, hall⟩ | ⟨_, d, hi, hd', hne, hall⟩
    · simp only [hi, he, hd]
      rw [firstDiff_of_all a b ha hb hall]; simp
    · simp only [hi, he, hd]
      rw [firstDiff_of_diff a b d (by omega) (by omega) hne hall]; simp

/-! ### find_end_subtree_from_i -/

/-- arity array as the int64 array the kernel sees -/
abbrev arInt (l : Flat) : List Int := (arities l).map Int.ofNat

theorem arInt_append (a b : Flat) : arInt (a ++ b) = arInt a ++ arInt b := by
  simp [arInt, arities_append]

theorem arInt_length (a : Flat) : (arInt a).length = a.length := by simp [arInt]

theorem geti_mid (L R : List Int) (x : Int) : geti (L ++ x :: R) (L.length : Int) = x := by
  simp [geti]

private theorem inb_mid (L R : List Int) (x : Int) : inb (L ++ x :: R) (L.length : Int) = true := by
  apply inb_ofNat'; simp

/-- no pending `break`, no out-of-range access so far, not a dry run -/
def FesClean (s : find_end_subtree_from_i.S) : Prop := s.brk = false ∧ s.err = false ∧ s.dry = false

mutual
/-- the translated `while possible_steps:` loop (described by what its condition and body do)
    run over one subtree: it consumes `t.size` iterations, advances `n_index` by `t.size`,
    closes one pending slot and reads only inside the array -/
theorem run_flat (A : List Int)
    (c : find_end_subtree_from_i.S → Bool) (b : find_end_subtree_from_i.S → find_end_subtree_from_i.S)
    (hc : ∀ s, c s = (!s.brk && truthy s.possible_steps))
    (hbp : ∀ s, (b s).possible_steps = s.possible_steps + (geti A s.n_index - 1))
    (hbn : ∀ s, (b s).n_index = s.n_index + 1)
    (hbk : ∀ s, FesClean s → inb A s.n_index = true → FesClean (b s))
    (t : RT) (L R : List Int) (hA : A = L ++ arInt (flat t) ++ R) (n f : Nat)
    (s : find_end_subtree_from_i.S) (hn : s.n_index = (L.length : Int))
    (hp : s.possible_steps = (n : Int) + 1) (hcl : FesClean s) :
    ∃ s', whileN (t.size + f) c b s = whileN f c b s' ∧
      s'.n_index = ((L.length + t.size : Nat) : Int) ∧ s'.possible_steps = (n : Int) ∧ FesClean s' := by
  cases t with
  | node sym ks =>
    have hstep : whileN (RT.size (.node sym ks) + f) c b s = whileN (sizeL ks + f) c b (b s) := by
      rw [size_node, show 1 + sizeL ks + f = (sizeL ks + f) + 1 by omega]
      apply whileN_step
      rw [hc, hp, hcl.1]; simp [truthy]; omega
    have hA' : A = (L ++ [(ks.length : Int)]) ++ arInt (flatL ks) ++ R := by
      rw [hA]; simp [arInt, flat]
    have hg : geti A s.n_index = (ks.length : Int) := by
      rw [hn, hA]; simp only [arInt, arities_flat_node, List.map_cons, List.append_assoc,
        List.cons_append]
      exact geti_mid _ _ _
    have hi : inb A s.n_index = true := by
      rw [hn, hA]; simp only [arInt, arities_flat_node, List.map_cons, List.append_assoc,
        List.cons_append]
      exact inb_mid _ _ _
    obtain ⟨s', h1, h2, h3, h4⟩ := run_flatL A c b hc hbp hbn hbk ks (L ++ [(ks.length : Int)]) R hA' n f (b s)
      (by rw [hbn, hn]; simp) (by rw [hbp, hp, hg]; omega) (hbk s hcl hi)
    refine ⟨s', by rw [hstep, h1], ?_, h3, h4⟩
    rw [h2, size_node]; simp; omega
/-- the same over a forest: one pending slot closed per tree -/
theorem run_flatL (A : List Int)
    (c : find_end_subtree_from_i.S → Bool) (b : find_end_subtree_from_i.S → find_end_subtree_from_i.S)
    (hc : ∀ s, c s = (!s.brk && truthy s.possible_steps))
    (hbp : ∀ s, (b s).possible_steps = s.possible_steps + (geti A s.n_index - 1))
    (hbn : ∀ s, (b s).n_index = s.n_index + 1)
    (hbk : ∀ s, FesClean s → inb A s.n_index = true → FesClean (b s))
    (ts : List RT) (L R : List Int) (hA : A = L ++ arInt (flatL ts) ++ R) (n f : Nat)
    (s : find_end_subtree_from_i.S) (hn : s.n_index = (L.length : Int))
    (hp : s.possible_steps = (n : Int) + (ts.length : Int)) (hcl : FesClean s) :
    ∃ s', whileN (sizeL ts + f) c b s = whileN f c b s' ∧
      s'.n_index = ((L.length + sizeL ts : Nat) : Int) ∧ s'.possible_steps = (n : Int) ∧ FesClean s' := by
  cases ts with
  | nil =>
    refine ⟨s, by simp, by simpa using hn, by simpa using hp, hcl⟩
  | cons t ts =>
    have hA1 : A = L ++ arInt (flat t) ++ (arInt (flatL ts) ++ R) := by
      rw [hA, flatL_cons, arInt_append]; simp
    obtain ⟨s1, h1, h2, h3, h4⟩ := run_flat A c b hc hbp hbn hbk t L _ hA1 (n + ts.length) (sizeL ts + f) s hn
      (by rw [hp]; simp; omega) hcl
    have hA2 : A = (L ++ arInt (flat t)) ++ arInt (flatL ts) ++ R := by
      rw [hA, flatL_cons, arInt_append]; simp
    obtain ⟨s2, k1, k2, k3, k4⟩ := run_flatL A c b hc hbp hbn hbk ts (L ++ arInt (flat t)) R hA2 n f s1
      (by rw [h2]; simp [size_flat]) (by rw [h3]; simp) h4
    refine ⟨s2, ?_, ?_, k3, k4⟩
    · rw [sizeL_cons, show t.size + sizeL ts + f = t.size + (sizeL ts + f) by omega, h1, k1]
    · rw [k2, sizeL_cons]; simp [size_flat]; omega
end

/-- with exactly as many pending slots as trees the loop stops right after the forest -/
theorem run_flatL_zero (A : List Int)
    (c : find_end_subtree_from_i.S → Bool) (b : find_end_subtree_from_i.S → find_end_subtree_from_i.S)
    (hc : ∀ s, c s = (!s.brk && truthy s.possible_steps))
    (hbp : ∀ s, (b s).possible_steps = s.possible_steps + (geti A s.n_index - 1))
    (hbn : ∀ s, (b s).n_index = s.n_index + 1)
    (hbk : ∀ s, FesClean s → inb A s.n_index = true → FesClean (b s))
    (ts : List RT) (L R : List Int) (hA : A = L ++ arInt (flatL ts) ++ R) (f : Nat)
    (s : find_end_subtree_from_i.S) (hn : s.n_index = (L.length : Int))
    (hp : s.possible_steps = (ts.length : Int)) (hcl : FesClean s) :
    (whileN (sizeL ts + f) c b s).n_index = ((L.length + sizeL ts : Nat) : Int) ∧
      FesClean (whileN (sizeL ts + f) c b s) := by
  obtain ⟨s', h1, h2, h3, h4⟩ := run_flatL A c b hc hbp hbn hbk ts L R hA 0 f s hn (by simp [hp]) hcl
  rw [h1, whileN_of_false _ _ _ _ (by simp [hc, truthy, h3])]
  exact ⟨h2, h4⟩

/-- the kernel returns the index one past the subtree -/
theorem src_find_end_subtree_size (pre post : Flat) (t : RT) :
    find_end_subtree_from_i (pre.length : Int) (arInt (pre ++ flat t ++ post)) =
      some ((pre.length + t.size : Nat) : Int) := by
  cases t with
  | node sym ks =>
    unfold find_end_subtree_from_i
    simp only []
    have hA : arInt (pre ++ flat (.node sym ks) ++ post) =
        (arInt pre ++ [(ks.length : Int)]) ++ arInt (flatL ks) ++ arInt post := by
      simp [arInt, flat, arities_append]
    have hlen : (arInt (pre ++ flat (.node sym ks) ++ post)).length + 1 =
        sizeL ks + (pre.length + post.length + 2) := by
      simp [arInt, flat, size_flatL]; omega
    have hg : geti (arInt (pre ++ flat (.node sym ks) ++ post)) (pre.length : Int) = (ks.length : Int) := by
      have := geti_mid (arInt pre) (arInt (flatL ks) ++ arInt post) (ks.length : Int)
      rw [arInt_length] at this
      rw [← this, hA]; simp
    have hi : inb (arInt (pre ++ flat (.node sym ks) ++ post)) (pre.length : Int) = true := by
      have := inb_mid (arInt pre) (arInt (flatL ks) ++ arInt post) (ks.length : Int)
      rw [arInt_length] at this
      rw [← this, hA]; simp
    rw [hlen]
    generalize hW : whileN _ _ _ _ = W
    obtain ⟨h1, -, h2, h3⟩ : W.n_index = ((((arInt pre ++ [(ks.length : Int)]).length + sizeL ks : Nat)) : Int) ∧
        FesClean W := by
      rw [← hW]
      refine run_flatL_zero (arInt (pre ++ flat (.node sym ks) ++ post)) _ _
        (fun s => rfl) (fun s => rfl) (fun s => rfl) ?_ ks (arInt pre ++ [(ks.length : Int)])
        (arInt post) hA (pre.length + post.length + 2) _ (by simp) hg ⟨rfl, by simp only [hi, Bool.not_true, Bool.or_self], rfl⟩
      intro s ⟨hb, he, hd⟩ hin
      exact ⟨hb, by simp only [he, hin, Bool.not_true, Bool.or_self], hd⟩
    rw [size_node]
    simp [h1, h2, h3]; omega

theorem src_find_end_subtree (pre post : Flat) (t : RT) :
    find_end_subtree_from_i (pre.length : Int) ((arities (pre ++ flat t ++ post)).map Int.ofNat) =
      some ((endSub pre.length (arities (pre ++ flat t ++ post)) : Nat) : Int) := by
  rw [endSub_flat]; exact src_find_end_subtree_size pre post t

/-! ### find_id_args_from_i -/

theorem geti_root (pre post : Flat) (sym : Nat) (ks : List RT) :
    geti (arInt (pre ++ flat (.node sym ks) ++ post)) (pre.length : Int) = (ks.length : Int) := by
  have := geti_mid (arInt pre) (arInt (flatL ks) ++ arInt post) (ks.length : Int)
  rw [arInt_length] at this
  rw [← this]; simp [arInt, flat, arities_append]

theorem sizeL_take_succ (ks : List RT) (j : Nat) (hj : j < ks.length) :
    sizeL (ks.take (j + 1)) = sizeL (ks.take j) + ks[j].size := by
  rw [List.take_succ_eq_append_getElem hj, sizeL_append, sizeL_cons]; simp

/-- the end of the `j`-th argument subtree is the root of the next one -/
theorem fes_kid (pre post : Flat) (sym : Nat) (ks : List RT) (j : Nat) (hj : j < ks.length) :
    find_end_subtree_from_i ((pre.length + 1 + sizeL (ks.take j) : Nat) : Int)
        (arInt (pre ++ flat (.node sym ks) ++ post)) =
      some ((pre.length + 1 + sizeL (ks.take (j + 1)) : Nat) : Int) := by
  have hks : ks = ks.take j ++ ks[j] :: ks.drop (j + 1) := by simp
  have e : pre ++ flat (.node sym ks) ++ post =
      (pre ++ [(sym, ks.length)] ++ flatL (ks.take j)) ++ flat ks[j] ++ (flatL (ks.drop (j + 1)) ++ post) := by
    conv => lhs; rw [flat, hks, flatL_append, flatL_cons]
    simp
  have hl : (pre ++ [(sym, ks.length)] ++ flatL (ks.take j)).length = pre.length + 1 + sizeL (ks.take j) := by
    simp [size_flatL]; omega
  rw [e, ← hl, src_find_end_subtree_size, hl, sizeL_take_succ ks j hj]
  congr 2; omega

theorem set_take_replicate (T : List Int) (k j : Nat) (hT : T.length = k) (hj : j + 1 < k) (v : Int)
    (hv : v = T.getD (j + 1) 0) :
    (T.take (j + 1) ++ List.replicate (k - (j + 1)) 0).set (j + 1) v =
      T.take (j + 1 + 1) ++ List.replicate (k - (j + 1 + 1)) 0 := by
  apply List.ext_getElem?
  intro i
  subst hv
  grind

private theorem inb_root (pre post : Flat) (sym : Nat) (ks : List RT) :
    inb (arInt (pre ++ flat (.node sym ks) ++ post)) (pre.length : Int) = true := by
  apply inb_ofNat'
  simp [arInt, flat]

private theorem inb_of_bounds (a : List Int) (i : Int) (h0 : 0 ≤ i) (h1 : i < (a.length : Int)) :
    inb a i = true := by
  simp only [inb, Bool.and_eq_true, decide_eq_true_eq]; exact ⟨h0, h1⟩

theorem src_find_id_args (pre post : Flat) (t : RT) :
    find_id_args_from_i (pre.length : Int) ((arities (pre ++ flat t ++ post)).map Int.ofNat) =
      some ((argsIds pre.length (arities (pre ++ flat t ++ post))).map Int.ofNat) := by
  cases t with
  | node sym ks =>
    rw [argsIds_flat]
    unfold find_id_args_from_i
    have hroot : inb (List.map Int.ofNat (arities (pre ++ flat (.node sym ks) ++ post)))
        (pre.length : Int) = true := inb_root pre post sym ks
    simp only [geti_root pre post sym ks, hroot, Int.toNat_natCast, leni,
      List.length_replicate, Bool.not_true, Bool.or_self]
    rcases Nat.eq_zero_or_pos ks.length with hk | hk
    · have : ks = [] := List.length_eq_zero_iff.mp hk
      subst this
      simp [forRange]
    have hk' : (ks.length : Int) > 0 := by omega
    have hir : inb (List.replicate ks.length (0 : Int)) 0 = true :=
      inb_of_bounds _ _ (by omega) (by simp; omega)
    simp only [hk', hir, decide_true, if_true, seti, List.length_set, List.length_replicate,
      Bool.not_true, Bool.or_self]
    generalize hT : ((List.range ks.length).map fun c => pre.length + 1 + sizeL (ks.take c)).map
      Int.ofNat = T
    have hTlen : T.length = ks.length := by simp [← hT]
    have hTget : ∀ j, j < ks.length → T.getD j 0 = ((pre.length + 1 + sizeL (ks.take j) : Nat) : Int) := by
      intro j hj
      simp [← hT, List.getD_eq_getElem?_getD, hj]
    refine forRange_elim
      (P := fun j (s : find_id_args_from_i.S) => s.brk = false ∧ s.err = false ∧ s.dry = false ∧
        s.out = T.take (j + 1) ++ List.replicate (ks.length - (j + 1)) 0)
      (Q := fun s => (if (s.err || s.dry) = true then none else some s.out) = some T)
      _ _ _ _ _ ?_ ?_ ?_
    · refine ⟨rfl, rfl, rfl, ?_⟩
      have h0 := hTget 0 hk
      cases T with
      | nil => simp at hTlen; omega
      | cons t0 T' =>
        obtain ⟨k', hk''⟩ : ∃ k', ks.length = k' + 1 := ⟨ks.length - 1, by omega⟩
        simp only [List.getD_cons_zero, List.take_zero, sizeL_nil, Nat.add_zero] at h0
        rw [hk'', h0]
        simp [List.replicate_succ]
    · intro j s hj ⟨hb, he, hd, ho⟩
      have hj' : j + 1 < ks.length := by omega
      have h1 : (1 + (j : Int) - 1) = (j : Int) := by omega
      have h2 : (1 + (j : Int)).toNat = j + 1 := by omega
      have hget : geti s.out (j : Int) = T.getD j 0 := by
        rw [geti_ofNat, ho]
        simp only [List.getD_eq_getElem?_getD]
        rw [List.getElem?_append_left (by simp; omega), List.getElem?_take_of_lt (by omega)]
      have hin : inb s.out (1 + (j : Int)) = true := by
        apply inb_of_bounds _ _ (by omega)
        rw [ho]; simp only [List.length_append, List.length_take, List.length_replicate]; omega
      have hinj : inb s.out (j : Int) = true := by
        apply inb_of_bounds _ _ (by omega)
        rw [ho]; simp only [List.length_append, List.length_take, List.length_replicate]; omega
      have hfes := fes_kid pre post sym ks j (by omega)
      rw [← hTget j (by omega), ← hTget (j + 1) hj'] at hfes
      have hfes' : find_end_subtree_from_i (T.getD j 0)
          (List.map Int.ofNat (arities (pre ++ flat (RT.node sym ks) ++ post))) =
          some (T.getD (j + 1) 0) := hfes
      simp only [hb, Bool.false_eq_true, if_false, h1, h2, hget, hfes', he, hd, hin, hinj, Bool.not_true,
        Bool.or_self, true_and]
      rw [ho]
      exact set_take_replicate T ks.length j hTlen hj' _ rfl
    · intro s ⟨_, he, hd, ho⟩
      have h3 : ((ks.length : Int) - 1).toNat + 1 = ks.length := by omega
      rw [ho, h3, ← hTlen]; simp [he, hd]

end TFV.SrcTie
