/-
  TFV.Lemmas.Src.StandardX — `Tree.get_levels`, `Tree.get_max_level` and the Python-level GP operator
  `standard_crossover` as translated from /repo equal `levels`, `depth` and `standardX` of the model.
-/
import TFV.Generated.Src.Tree_get_levels
import TFV.Generated.Src.Tree_get_max_level
import TFV.Generated.Src.standard_crossover
import TFV.Model.Tree
import TFV.Lemmas.Src.TreeMethods
import TFV.Lemmas.Src.Levels
import TFV.Lemmas.TreeCore

namespace TFV.SrcTie
open TFV.Generated.Src TFV.Tree TFV.Imp

theorem src_tree_get_levels (l : Flat) (i : Nat) :
    Tree_get_levels (symsI l) (arsI l) (i : Int) = some ((levels i (arities l)).map Int.ofNat) := by
  have h := src_get_levels_gen i (arities l)
  simp only [Tree_get_levels, arsI, h]
  simp

theorem foldl_max_ofNat (xs : List Nat) (a : Nat) :
    (xs.map Int.ofNat).foldl max (a : Int) = ((xs.foldl max a : Nat) : Int) := by
  induction xs generalizing a with
  | nil => rfl
  | cons x xs ih =>
    simp only [List.map_cons, List.foldl_cons]
    have : max (a : Int) (Int.ofNat x) = ((max a x : Nat) : Int) := by
      simp only [Int.ofNat_eq_natCast]; omega
    rw [this, ih]

theorem maxArr_ofNat (xs : List Nat) (h : xs ≠ []) :
    maxArr (xs.map Int.ofNat) = ((listMax xs : Nat) : Int) := by
  cases xs with
  | nil => exact absurd rfl h
  | cons x xs =>
    simp only [List.map_cons, maxArr, listMax, List.foldl_cons]
    have : (Int.ofNat x) = ((max 0 x : Nat) : Int) := by simp
    rw [this, foldl_max_ofNat]

theorem levels_zero_ne (l : Flat) (h : l ≠ []) : levels 0 (arities l) ≠ [] := by
  cases l with
  | nil => exact absurd rfl h
  | cons n ns => simp [levels, arities, levelsAux]

theorem src_tree_get_max_level (l : Flat) (h : l ≠ []) :
    Tree_get_max_level (symsI l) (arsI l) = some ((depth l : Nat) : Int) := by
  have hl := src_tree_get_levels l 0
  have hne := levels_zero_ne l h
  have hemp : ((levels 0 (arities l)).map Int.ofNat).isEmpty = false := by
    cases hL : levels 0 (arities l) with
    | nil => exact absurd hL hne
    | cons a t => rfl
  simp only [Tree_get_max_level]
  rw [show ((0 : Int)) = ((0 : Nat) : Int) from rfl, hl]
  simp only [hemp, maxArr_ofNat _ hne, depth]
  simp

theorem flat_ne (t : RT) : flat t ≠ [] := by
  cases t with | node s ks => simp [flat]

/-- one direction of the operator: the subtree of `a` at `p` is planted into `b` at `q`; the child is
    kept unless it is deeper than `maxLevel` -/
theorem half (ta tb : RT) (p q : Nat) (hp : p < (flat ta).length) (hq : q < (flat tb).length) :
    Tree_subtree (symsI (flat ta)) (arsI (flat ta)) (p : Int) =
      some [symsI (subtree (flat ta) p), arsI (subtree (flat ta) p)] ∧
    Tree_concat (symsI (flat tb)) (arsI (flat tb)) (q : Int) (symsI (subtree (flat ta) p)) (arsI (subtree (flat ta) p)) =
      some [symsI (concat (flat tb) q (subtree (flat ta) p)), arsI (concat (flat tb) q (subtree (flat ta) p))] ∧
    Tree_get_max_level (symsI (concat (flat tb) q (subtree (flat ta) p))) (arsI (concat (flat tb) q (subtree (flat ta) p))) =
      some ((depth (concat (flat tb) q (subtree (flat ta) p)) : Nat) : Int) := by
  obtain ⟨pre, post, t, ha, rfl⟩ := context (flat ta) (wfAux_flat_self ta) p hp
  obtain ⟨pre', post', t', hb, rfl⟩ := context (flat tb) (wfAux_flat_self tb) q hq
  rw [ha, hb]
  refine ⟨src_tree_subtree pre post t, src_tree_concat pre' post' _ t', src_tree_get_max_level _ ?_⟩
  rw [subtree_flat]
  unfold concat
  intro h
  have := congrArg List.length h
  have hne := flat_ne t
  simp at this
  exact hne this.2.1

theorem src_standard_crossover (ta tb : RT) (fit rank : List Int) (maxLevel : Nat) (key u : Int) (urest : List Int)
    (p q : Nat) (nrest : List Int) (hp : p < (flat ta).length) (hq : q < (flat tb).length) :
    standard_crossover (symsI (flat ta)) (arsI (flat ta)) (symsI (flat tb)) (arsI (flat tb)) fit rank (maxLevel : Int)
        key (u :: urest) ((p : Int) :: (q : Int) :: nrest) =
      some [symsI (standardX (flat ta) (flat tb) p q (decide (u < key)) maxLevel),
            arsI (standardX (flat ta) (flat tb) p q (decide (u < key)) maxLevel)] := by
  obtain ⟨s1, c1, m1⟩ := half ta tb p q hp hq
  obtain ⟨s2, c2, m2⟩ := half tb ta q p hq hp
  have g0 : ∀ (x : Int) (l : List Int), geti (x :: l) ((0 : Nat) : Int) = x := fun _ _ => rfl
  have g1 : ∀ (x y : Int) (l : List Int), geti (x :: y :: l) ((1 : Nat) : Int) = y := fun _ _ _ => rfl
  have r0 : ∀ (x y : List Int), getrow [x, y] (0 : Int) = x := fun _ _ => rfl
  have r1 : ∀ (x y : List Int), getrow [x, y] (1 : Int) = y := fun _ _ => rfl
  unfold standard_crossover standardX
  by_cases hc : u < key
  · simp only [hc, decide_true, if_true, g0, g1, s1, c1, m1, r0, r1]
    by_cases hd : depth (concat (flat tb) q (subtree (flat ta) p)) > maxLevel
    · have : ((depth (concat (flat tb) q (subtree (flat ta) p)) : Nat) : Int) > (maxLevel : Int) := by omega
      simp [hd, this]
    · have : ¬ ((depth (concat (flat tb) q (subtree (flat ta) p)) : Nat) : Int) > (maxLevel : Int) := by omega
      simp [hd, this]
  · simp only [hc, decide_false, Bool.false_eq_true, if_false, g0, g1, s2, c2, m2, r0, r1]
    by_cases hd : depth (concat (flat ta) p (subtree (flat tb) q)) > maxLevel
    · have : ((depth (concat (flat ta) p (subtree (flat tb) q)) : Nat) : Int) > (maxLevel : Int) := by omega
      simp [hd, this]
    · have : ¬ ((depth (concat (flat ta) p (subtree (flat tb) q)) : Nat) : Int) > (maxLevel : Int) := by omega
      simp [hd, this]

end TFV.SrcTie
