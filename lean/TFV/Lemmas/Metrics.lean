/-
  TFV.Lemmas.Metrics — proofs for C19 (built-in metrics equal their textbook definitions).
-/
import TFV.Model.Metrics
import Mathlib.Tactic.Linarith
import Mathlib.Tactic.FieldSimp
import Mathlib.Tactic.Ring
import Mathlib.Tactic.Positivity

namespace TFV.Metrics

/-! ### list helpers -/

theorem getD_set' {α : Type} (a : List α) (i c : Nat) (v d : α) (hi : i < a.length) :
    (a.set i v).getD c d = if c = i then v else a.getD c d := by
  simp only [List.getD_eq_getElem?_getD, List.getElem?_set]
  by_cases h : c = i
  · subst h; simp [hi]
  · have h' : ¬ i = c := fun e => h e.symm
    simp [h, h']

theorem length_bump (a : List Nat) (i : Nat) : (bump a i).length = a.length := by
  simp [bump]

theorem getD_bump (a : List Nat) (i c : Nat) (hi : i < a.length) :
    (bump a i).getD c 0 = a.getD c 0 + if c = i then 1 else 0 := by
  unfold bump
  rw [getD_set' a i c _ 0 hi]
  by_cases h : c = i
  · subst h; simp
  · simp [h]

theorem getD_zeros (n c : Nat) : (zeros n).getD c 0 = 0 := by
  simp only [zeros, List.getD_eq_getElem?_getD, List.getElem?_replicate]
  split <;> rfl

theorem length_zeros (n : Nat) : (zeros n).length = n := by simp [zeros]

theorem cnt_nil (f : Nat × Nat → Bool) : cnt [] f = 0 := by simp [cnt]

theorem cnt_cons (q : Nat × Nat) (l : List (Nat × Nat)) (f : Nat × Nat → Bool) :
    cnt (q :: l) f = cnt l f + if f q then 1 else 0 := by
  simp only [cnt, List.filter_cons]
  split <;> simp

/-! ### predicates in projection form -/

theorem specTP_eq (yt yp : List Nat) (c : Nat) :
    specTP yt yp c = cnt (yt.zip yp) (fun q => q.1 == c && q.2 == c) := by
  unfold specTP; congr 1

theorem specFN_eq (yt yp : List Nat) (c : Nat) :
    specFN yt yp c = cnt (yt.zip yp) (fun q => q.1 == c && q.2 != c) := by
  unfold specFN; congr 1

theorem specFP_eq (yt yp : List Nat) (c : Nat) :
    specFP yt yp c = cnt (yt.zip yp) (fun q => q.1 != c && q.2 == c) := by
  unfold specFP; congr 1

theorem specConf_eq (yt yp : List Nat) (i j : Nat) :
    specConf yt yp i j = cnt (yt.zip yp) (fun q => q.1 == i && q.2 == j) := by
  unfold specConf; congr 1

/-! ### the loops -/

theorem recallLoop_spec (n c : Nat) : ∀ (pairs : List (Nat × Nat)) (tp fn : List Nat),
    tp.length = n → fn.length = n → (∀ q ∈ pairs, q.1 < n ∧ q.2 < n) →
    (recallLoop pairs (tp, fn)).1.getD c 0
        = tp.getD c 0 + cnt pairs (fun q => q.1 == c && q.2 == c) ∧
    (recallLoop pairs (tp, fn)).2.getD c 0
        = fn.getD c 0 + cnt pairs (fun q => q.1 == c && q.2 != c) := by
  intro pairs
  induction pairs with
  | nil => intro tp fn _ _ _; simp [recallLoop, cnt_nil]
  | cons q rest ih =>
    obtain ⟨t, p⟩ := q
    intro tp fn htp hfn hb
    have hq := hb (t, p) (by simp)
    have hb' : ∀ q ∈ rest, q.1 < n ∧ q.2 < n := fun q hq => hb q (by simp [hq])
    simp only [recallLoop, cnt_cons]
    by_cases h : t = p
    · subst h
      rw [if_pos rfl]
      obtain ⟨i1, i2⟩ := ih (bump tp t) fn (by rw [length_bump]; exact htp) hfn hb'
      rw [i1, i2, getD_bump tp t c (by omega)]
      by_cases hc : c = t
      · subst hc; simp; omega
      · have hc' : ¬ t = c := fun e => hc e.symm
        simp [hc, hc']
    · rw [if_neg h]
      obtain ⟨i1, i2⟩ := ih tp (bump fn t) htp (by rw [length_bump]; exact hfn) hb'
      rw [i1, i2, getD_bump fn t c (by simp at hq; omega)]
      by_cases hc : c = t
      · subst hc
        have h' : ¬ p = c := fun e => h e.symm
        simp [h']; omega
      · have hc' : ¬ t = c := fun e => hc e.symm
        simp [hc, hc']

theorem precisionLoop_spec (n c : Nat) : ∀ (pairs : List (Nat × Nat)) (tp fp : List Nat),
    tp.length = n → fp.length = n → (∀ q ∈ pairs, q.1 < n ∧ q.2 < n) →
    (precisionLoop pairs (tp, fp)).1.getD c 0
        = tp.getD c 0 + cnt pairs (fun q => q.1 == c && q.2 == c) ∧
    (precisionLoop pairs (tp, fp)).2.getD c 0
        = fp.getD c 0 + cnt pairs (fun q => q.1 != c && q.2 == c) := by
  intro pairs
  induction pairs with
  | nil => intro tp fp _ _ _; simp [precisionLoop, cnt_nil]
  | cons q rest ih =>
    obtain ⟨t, p⟩ := q
    intro tp fp htp hfp hb
    have hq := hb (t, p) (by simp)
    have hb' : ∀ q ∈ rest, q.1 < n ∧ q.2 < n := fun q hq => hb q (by simp [hq])
    simp only [precisionLoop, cnt_cons]
    by_cases h : t = p
    · subst h
      rw [if_pos rfl]
      obtain ⟨i1, i2⟩ := ih (bump tp t) fp (by rw [length_bump]; exact htp) hfp hb'
      rw [i1, i2, getD_bump tp t c (by omega)]
      by_cases hc : c = t
      · subst hc; simp; omega
      · have hc' : ¬ t = c := fun e => hc e.symm
        simp [hc, hc']
    · rw [if_neg h]
      obtain ⟨i1, i2⟩ := ih tp (bump fp p) htp (by rw [length_bump]; exact hfp) hb'
      rw [i1, i2, getD_bump fp p c (by simp at hq; omega)]
      by_cases hc : c = p
      · subst hc
        simp [h]; omega
      · have hc' : ¬ p = c := fun e => hc e.symm
        simp [hc, hc']

theorem f1Loop_spec (n c : Nat) : ∀ (pairs : List (Nat × Nat)) (tp fn fp : List Nat),
    tp.length = n → fn.length = n → fp.length = n → (∀ q ∈ pairs, q.1 < n ∧ q.2 < n) →
    (f1Loop pairs (tp, fn, fp)).1.getD c 0
        = tp.getD c 0 + cnt pairs (fun q => q.1 == c && q.2 == c) ∧
    (f1Loop pairs (tp, fn, fp)).2.1.getD c 0
        = fn.getD c 0 + cnt pairs (fun q => q.1 == c && q.2 != c) ∧
    (f1Loop pairs (tp, fn, fp)).2.2.getD c 0
        = fp.getD c 0 + cnt pairs (fun q => q.1 != c && q.2 == c) := by
  intro pairs
  induction pairs with
  | nil => intro tp fn fp _ _ _ _; simp [f1Loop, cnt_nil]
  | cons q rest ih =>
    obtain ⟨t, p⟩ := q
    intro tp fn fp htp hfn hfp hb
    have hq := hb (t, p) (by simp)
    have hb' : ∀ q ∈ rest, q.1 < n ∧ q.2 < n := fun q hq => hb q (by simp [hq])
    simp only [f1Loop, cnt_cons]
    by_cases h : t = p
    · subst h
      rw [if_pos rfl]
      obtain ⟨i1, i2, i3⟩ := ih (bump tp t) fn fp (by rw [length_bump]; exact htp) hfn hfp hb'
      rw [i1, i2, i3, getD_bump tp t c (by omega)]
      by_cases hc : c = t
      · subst hc; simp; omega
      · have hc' : ¬ t = c := fun e => hc e.symm
        simp [hc, hc']
    · rw [if_neg h]
      obtain ⟨i1, i2, i3⟩ := ih tp (bump fn t) (bump fp p) htp
        (by rw [length_bump]; exact hfn) (by rw [length_bump]; exact hfp) hb'
      simp at hq
      rw [i1, i2, i3, getD_bump fn t c (by omega), getD_bump fp p c (by omega)]
      have h' : ¬ p = t := fun e => h e.symm
      by_cases hc : c = t
      · subst hc
        simp [h, h']; omega
      · have hc' : ¬ t = c := fun e => hc e.symm
        by_cases hd : c = p
        · subst hd; simp [h]; omega
        · have hd' : ¬ p = c := fun e => hd e.symm
          simp [hc, hc', hd, hd']

theorem zip_bound (yt yp : List Nat) (n : Nat) (ht : ∀ t ∈ yt, t < n) (hp : ∀ p ∈ yp, p < n) :
    ∀ q ∈ yt.zip yp, q.1 < n ∧ q.2 < n := by
  intro q hq
  obtain ⟨a, b⟩ := q
  have := List.of_mem_zip hq
  exact ⟨ht a this.1, hp b this.2⟩

theorem counts (yt yp : List Nat) (_hlen : yt.length = yp.length)
    (ht : ∀ t ∈ yt, t < nClasses yt) (hp : ∀ p ∈ yp, p < nClasses yt)
    (c : Nat) (_hc : c < nClasses yt) :
    let n := nClasses yt
    (recallLoop (yt.zip yp) (zeros n, zeros n)).1.getD c 0 = specTP yt yp c ∧
    (recallLoop (yt.zip yp) (zeros n, zeros n)).2.getD c 0 = specFN yt yp c ∧
    (precisionLoop (yt.zip yp) (zeros n, zeros n)).1.getD c 0 = specTP yt yp c ∧
    (precisionLoop (yt.zip yp) (zeros n, zeros n)).2.getD c 0 = specFP yt yp c ∧
    (f1Loop (yt.zip yp) (zeros n, zeros n, zeros n)).1.getD c 0 = specTP yt yp c ∧
    (f1Loop (yt.zip yp) (zeros n, zeros n, zeros n)).2.1.getD c 0 = specFN yt yp c ∧
    (f1Loop (yt.zip yp) (zeros n, zeros n, zeros n)).2.2.getD c 0 = specFP yt yp c := by
  intro n
  have hb := zip_bound yt yp n ht hp
  obtain ⟨r1, r2⟩ := recallLoop_spec n c (yt.zip yp) (zeros n) (zeros n)
    (length_zeros n) (length_zeros n) hb
  obtain ⟨p1, p2⟩ := precisionLoop_spec n c (yt.zip yp) (zeros n) (zeros n)
    (length_zeros n) (length_zeros n) hb
  obtain ⟨f1, f2, f3⟩ := f1Loop_spec n c (yt.zip yp) (zeros n) (zeros n) (zeros n)
    (length_zeros n) (length_zeros n) (length_zeros n) hb
  rw [specTP_eq, specFN_eq, specFP_eq]
  simp only [getD_zeros, Nat.zero_add] at r1 r2 p1 p2 f1 f2 f3
  exact ⟨r1, r2, p1, p2, f1, f2, f3⟩

/-! ### the scores -/

theorem recall_eq (yt yp : List Nat) (hlen : yt.length = yp.length)
    (ht : ∀ t ∈ yt, t < nClasses yt) (hp : ∀ p ∈ yp, p < nClasses yt) :
    recall yt yp = specRecall yt yp := by
  unfold recall specRecall
  simp only []
  congr 1
  apply List.map_congr_left
  intro c hc
  have hc' : c < nClasses yt := by simpa using hc
  obtain ⟨r1, r2, -⟩ := counts yt yp hlen ht hp c hc'
  rw [r1, r2]

theorem precision_eq (yt yp : List Nat) (hlen : yt.length = yp.length)
    (ht : ∀ t ∈ yt, t < nClasses yt) (hp : ∀ p ∈ yp, p < nClasses yt) :
    precision yt yp = specPrecision yt yp := by
  unfold precision specPrecision
  simp only []
  congr 1
  apply List.map_congr_left
  intro c hc
  have hc' : c < nClasses yt := by simpa using hc
  obtain ⟨-, -, r1, r2, -⟩ := counts yt yp hlen ht hp c hc'
  rw [r1, r2]

theorem f1_eq (yt yp : List Nat) (hlen : yt.length = yp.length)
    (ht : ∀ t ∈ yt, t < nClasses yt) (hp : ∀ p ∈ yp, p < nClasses yt) :
    f1 yt yp = specF1 yt yp := by
  unfold f1 specF1
  simp only []
  congr 1
  apply List.map_congr_left
  intro c hc
  have hc' : c < nClasses yt := by simpa using hc
  obtain ⟨-, -, -, -, r1, r2, r3⟩ := counts yt yp hlen ht hp c hc'
  rw [r1, r2, r3]

theorem f1Class_eq (tp fn fp : Nat) :
    f1Class tp fn fp = if tp = 0 then 0 else (2 * tp : Nat) / ((2 * tp + fn + fp : Nat) : Rat) := by
  unfold f1Class
  by_cases h : tp = 0
  · simp [h]
  · simp only [if_neg h]
    have h1 : (0 : Rat) < (tp : Rat) := by exact_mod_cast Nat.pos_of_ne_zero h
    have h2 : (0 : Rat) ≤ (fn : Rat) := by exact_mod_cast Nat.zero_le fn
    have h3 : (0 : Rat) ≤ (fp : Rat) := by exact_mod_cast Nat.zero_le fp
    push_cast
    have e1 : (fp : Rat) + tp ≠ 0 := by positivity
    have e2 : (fn : Rat) + tp ≠ 0 := by positivity
    have e3 : 2 * (tp : Rat) + fn + fp ≠ 0 := by positivity
    have e4 : (tp : Rat) ≠ 0 := ne_of_gt h1
    field_simp
    ring

/-! ### sums -/

theorem foldl_add (l : List Rat) : ∀ a : Rat, l.foldl (· + ·) a = a + l.sum := by
  induction l with
  | nil => intro a; simp
  | cons x xs ih => intro a; simp [List.foldl_cons, ih, add_assoc]

theorem sumR_eq_sum (l : List Rat) : sumR l = l.sum := by
  unfold sumR; rw [foldl_add]; simp

theorem sum_indicator (l : List (Nat × Nat)) :
    ((l.map fun (q : Nat × Nat) => if q.1 = q.2 then (1 : Rat) else 0).sum)
      = ((cnt l (fun q => q.1 == q.2) : Nat) : Rat) := by
  induction l with
  | nil => simp [cnt_nil]
  | cons q rest ih =>
    rw [List.map_cons, List.sum_cons, ih, cnt_cons]
    by_cases h : q.1 = q.2
    · simp [h]; ring
    · simp [h]

theorem accuracy_eq (yt yp : List Nat) : accuracy yt yp = specAccuracy yt yp := by
  unfold accuracy specAccuracy mean
  rw [sumR_eq_sum, List.length_map]
  have h := sum_indicator (yt.zip yp)
  exact congrArg (· / ((yt.zip yp).length : Rat)) h

/-! ### confusion matrix -/

theorem confLoop_spec (n : Nat) : ∀ (pairs : List (Nat × Nat)) (m : List (List Nat)),
    m.length = n → (∀ i, i < n → (m.getD i []).length = n) → (∀ q ∈ pairs, q.1 < n ∧ q.2 < n) →
    (confLoop pairs m).length = n ∧
    (∀ i, i < n → ((confLoop pairs m).getD i []).length = n) ∧
    ∀ i j, ((confLoop pairs m).getD i []).getD j 0
        = (m.getD i []).getD j 0 + cnt pairs (fun q => q.1 == i && q.2 == j) := by
  intro pairs
  induction pairs with
  | nil => intro m hm hr _; simp [confLoop, cnt_nil, hm]; exact hr
  | cons q rest ih =>
    obtain ⟨t, p⟩ := q
    intro m hm hr hb
    have hq := hb (t, p) (by simp)
    simp only at hq
    have hb' : ∀ q ∈ rest, q.1 < n ∧ q.2 < n := fun q hq => hb q (by simp [hq])
    simp only [confLoop, cnt_cons]
    have hrow : ∀ i, (((m.set t (bump (m.getD t []) p))).getD i [])
        = if i = t then bump (m.getD t []) p else m.getD i [] :=
      fun i => getD_set' m t i _ [] (by omega)
    obtain ⟨i1, i2, i3⟩ := ih (m.set t (bump (m.getD t []) p)) (by simp [hm])
      (by
        intro i hi
        rw [hrow i]
        by_cases h : i = t
        · rw [if_pos h, length_bump]; exact hr t hq.1
        · rw [if_neg h]; exact hr i hi) hb'
    refine ⟨i1, i2, ?_⟩
    intro i j
    rw [i3 i j, hrow i]
    by_cases h : i = t
    · subst h
      rw [if_pos rfl, getD_bump _ p j (by rw [hr i hq.1]; exact hq.2)]
      by_cases hj : j = p
      · subst hj; simp; omega
      · have hj' : ¬ p = j := fun e => hj e.symm
        simp [hj, hj']
    · have h' : ¬ t = i := fun e => h e.symm
      rw [if_neg h]
      simp [h']

theorem getD_replicate_zeros (n i : Nat) (hi : i < n) :
    (List.replicate n (zeros n)).getD i [] = zeros n := by
  simp [List.getD_eq_getElem?_getD, hi]

theorem confusion_eq (yt yp : List Nat) (_hlen : yt.length = yp.length)
    (ht : ∀ t ∈ yt, t < nClasses yt) (hp : ∀ p ∈ yp, p < nClasses yt) (i j : Nat)
    (hi : i < nClasses yt) (_hj : j < nClasses yt) :
    ((confusion yt yp).getD i []).getD j 0 = specConf yt yp i j ∧
    (confusion yt yp).length = nClasses yt ∧ ((confusion yt yp).getD i []).length = nClasses yt := by
  unfold confusion
  simp only []
  have hb := zip_bound yt yp (nClasses yt) ht hp
  obtain ⟨c1, c2, c3⟩ := confLoop_spec (nClasses yt) (yt.zip yp)
    (List.replicate (nClasses yt) (zeros (nClasses yt))) (by simp)
    (by intro k hk; rw [getD_replicate_zeros _ k hk, length_zeros]) hb
  refine ⟨?_, c1, c2 i hi⟩
  rw [c3 i j, getD_replicate_zeros _ i hi, getD_zeros, specConf_eq, Nat.zero_add]

/-! ### regression metrics -/

theorem sum_map_zero {α : Type} (l : List α) (f : α → Rat) (h : ∀ x ∈ l, f x = 0) :
    (l.map f).sum = 0 := by
  induction l with
  | nil => simp
  | cons x xs ih =>
    rw [List.map_cons, List.sum_cons, h x (by simp), ih (fun y hy => h y (by simp [hy]))]
    simp

theorem mem_zip_self (l : List Rat) : ∀ q ∈ l.zip l, q.1 = q.2 := by
  induction l with
  | nil => intro q hq; simp at hq
  | cons x xs ih =>
    intro q hq
    simp only [List.zip_cons_cons, List.mem_cons] at hq
    rcases hq with hq | hq
    · subst hq; rfl
    · exact ih q hq

theorem r2_spec (yt yp : List Rat) :
    (yp = yt → r2 yt yp = 1) ∧
    ((∀ a ∈ yt, a = mean yt) →
      r2 yt yp = 1 - sumR ((yt.zip yp).map fun (a, b) => (a - b) * (a - b)) * 10000000000) := by
  constructor
  · intro h
    subst h
    unfold r2
    simp only []
    have : sumR ((yp.zip yp).map fun (a, b) => (a - b) * (a - b)) = 0 := by
      rw [sumR_eq_sum]
      apply sum_map_zero
      intro q hq
      obtain ⟨a, b⟩ := q
      have := mem_zip_self yp (a, b) hq
      simp only at this
      subst this
      simp
    rw [this]
    simp
  · intro h
    unfold r2
    simp only []
    have : sumR (yt.map fun a => (a - mean yt) * (a - mean yt)) = 0 := by
      rw [sumR_eq_sum]
      apply sum_map_zero
      intro a ha
      rw [← h a ha]
      simp
    rw [if_pos this]
    rw [div_div_eq_mul_div, div_one]

theorem sq_sum_spec : ∀ (yt yp : List Rat), yt.length = yp.length →
    0 ≤ ((yt.zip yp).map fun (q : Rat × Rat) => (q.1 - q.2) * (q.1 - q.2)).sum ∧
    (((yt.zip yp).map fun (q : Rat × Rat) => (q.1 - q.2) * (q.1 - q.2)).sum = 0 ↔ yp = yt) := by
  intro yt
  induction yt with
  | nil =>
    intro yp hl
    have : yp = [] := List.length_eq_zero_iff.mp hl.symm
    subst this; simp
  | cons a as ih =>
    intro yp hl
    cases yp with
    | nil => simp at hl
    | cons b bs =>
      obtain ⟨h1, h2⟩ := ih bs (by simpa using hl)
      simp only [List.zip_cons_cons, List.map_cons, List.sum_cons]
      have hsq : 0 ≤ (a - b) * (a - b) := mul_self_nonneg _
      refine ⟨add_nonneg hsq h1, ?_⟩
      rw [add_eq_zero_iff_of_nonneg hsq h1, h2, mul_self_eq_zero, sub_eq_zero]
      constructor
      · rintro ⟨e1, e2⟩; rw [e1, e2]
      · intro e
        injection e with e1 e2
        exact ⟨e1.symm, e2⟩

theorem mse_spec (yt yp : List Rat) (hl : yt.length = yp.length) (hne : yt ≠ []) :
    0 ≤ mse yt yp ∧ (mse yt yp = 0 ↔ yp = yt) := by
  obtain ⟨h1, h2⟩ := sq_sum_spec yt yp hl
  have hmse : mse yt yp
      = ((yt.zip yp).map fun (q : Rat × Rat) => (q.1 - q.2) * (q.1 - q.2)).sum
        / ((yt.length : Nat) : Rat) := by
    unfold mse mean
    rw [sumR_eq_sum, List.length_map, List.length_zip, ← hl, Nat.min_self]
  have hpos : (0 : Rat) < ((yt.length : Nat) : Rat) := by
    exact_mod_cast List.length_pos_iff.mpr hne
  rw [hmse]
  refine ⟨div_nonneg h1 (le_of_lt hpos), ?_⟩
  rw [div_eq_zero_iff, h2]
  constructor
  · rintro (h | h)
    · exact h
    · exact absurd h (ne_of_gt hpos)
  · intro h; exact Or.inl h

end TFV.Metrics
