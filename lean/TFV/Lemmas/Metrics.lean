/-
  TFV.Lemmas.Metrics — proofs for C19 (built-in metrics equal their textbook definitions).
-/
import TFV.Model.Metrics
import Mathlib.Tactic.Linarith
import Mathlib.Tactic.FieldSimp
import Mathlib.Tactic.Ring
import Mathlib.Tactic.Positivity

namespace TFV.Metrics

/-! ### list helpers -/

theorem getD_set' {α : Type} (a : List α) (i c : Nat) (v d : α) (hi : i < a.length) :
    (a.set i v).getD c d = if c = i then v else a.getD c d := by
  simp only [List.getD_eq_getElem?_getD, List.getElem?_set]
  by_cases h : c = i
  · subst h; simp [hi]
  · have h' : ¬ i = c := fun e => h e.symm
    simp [h, h']

theorem length_bump (a : List Nat) (i : Nat) : (bump a i).length = a.length := by
  simp [bump]

theorem getD_bump (a : List Nat) (i c : Nat) (hi : i < a.length) :
    (bump a i).getD c 0 = a.getD c 0 + if c = i then 1 else 0 := by
  unfold bump
  rw [getD_set' a i c _ 0 hi]
  by_cases h : c = i
  · subst h; simp
  · simp [h]

theorem getD_zeros (n c : Nat) : (zeros n).getD c 0 = 0 := by
  simp only [zeros, List.getD_eq_getElem?_getD, List.getElem?_replicate]
  split <;> rfl

theorem length_zeros (n : Nat) : (zeros n).length = n := by simp [zeros]

theorem cnt_nil (f : Nat × Nat → Bool) : cnt [] f = 0 := by simp [cnt]

theorem cnt_cons (q : Nat × Nat) (l : List (Nat × Nat)) (f : Nat × Nat → Bool) :
    cnt (q :: l) f = cnt l f + if f q then 1 else 0 := by
  simp only [cnt, List.filter_cons]
  split <;> simp

/-! ### predicates in projection form -/

theorem specTP_eq (yt yp : List Nat) (c : Nat) :
    specTP yt yp c = cnt (yt.zip yp) (fun q => q.1 == c && q.2 == c) := by
  unfold specTP; congr 1

theorem specFN_eq (yt yp : List Nat) (c : Nat) :
    specFN yt yp c = cnt (yt.zip yp) (fun q => q.1 == c && q.2 != c) := by
  unfold specFN; congr 1

theorem specFP_eq (yt yp : List Nat) (c : Nat) :
    specFP yt yp c = cnt (yt.zip yp) (fun q => q.1 != c && q.2 == c) := by
  unfold specFP; congr 1

theorem specConf_eq (yt yp : List Nat) (i j : Nat) :
    specConf yt yp i j = cnt (yt.zip yp) (fun q => q.1 == i && q.2 == j) := by
  unfold specConf; congr 1

/-! ### the loops -/

theorem recallLoop_spec (n c : Nat) : ∀ (pairs : List (Nat × Nat)) (tp fn : List Nat),
    tp.length = n → fn.length = n → (∀ q ∈ pairs, q.1 < n ∧ q.2 < n) →
    (recallLoop pairs (tp, fn)).1.getD c 0
        = tp.getD c 0 + cnt pairs (fun q => q.1 == c && q.2 == c) ∧
    (recallLoop pairs (tp, fn)).2.getD c 0
        = fn.getD c 0 + cnt pairs (fun q => q.1 == c && q.2 != c) := by
  intro pairs
  induction pairs with
  | nil => intro tp fn _ _ _; simp [recallLoop, cnt_nil]
  | cons q rest ih =>
    obtain ⟨t, p⟩ := q
    intro tp fn htp hfn hb
    have hq := hb (t, p) (by simp)
    have hb' : ∀ q ∈ rest, q.1 < n ∧ q.2 < n := fun q hq => hb q (by simp [hq])
    simp only [recallLoop, cnt_cons]
    by_cases h : t = p
    · subst h
      rw [if_pos rfl]
      obtain ⟨i1, i2⟩ := ih (bump tp t) fn (by rw [length_bump]; exact htp) hfn hb'
      rw [i1, i2, getD_bump tp t c (by omega)]
      by_cases hc : c = t
      · subst hc; simp; omega
      · have hc' : ¬ t = c := fun e => hc e.symm
        simp [hc, hc']
    · rw [if_neg h]
      obtain ⟨i1, i2⟩ := ih tp (bump fn t) htp (by rw [length_bump]; exact hfn) hb'
      rw [i1, i2, getD_bump fn t c (by simp at hq; omega)]
      by_cases hc : c = t
      · subst hc
        have h' : ¬ p = c := fun e => h e.symm
        simp [h']; omega
      · have hc' : ¬ t = c := fun e => hc e.symm
        simp [hc, hc']

theorem precisionLoop_spec (n c : Nat) : ∀ (pairs : List (Nat × Nat)) (tp fp : List Nat),
    tp.length = n → fp.length = n → (∀ q ∈ pairs, q.1 < n ∧ q.2 < n) →
    (precisionLoop pairs (tp, fp)).1.getD c 0
        = tp.getD c 0 + cnt pairs (fun q => q.1 == c && q.2 == c) ∧
    (precisionLoop pairs (tp, fp)).2.getD c 0
        = fp.getD c 0 + cnt pairs (fun q => q.1 != c && q.2 == c) := by
  intro pairs
  induction pairs with
  | nil => intro tp fp _ _ _; simp [precisionLoop, cnt_nil]
  | cons q rest ih =>
    obtain ⟨t, p⟩ := q
    intro tp fp htp hfp hb
    have hq := hb (t, p) (by simp)
    have hb' : ∀ q ∈ rest, q.1 < n ∧ q.2 < n := fun q hq => hb q (by simp [hq])
    simp only [precisionLoop, cnt_cons]
    by_cases h : t = p
    · subst h
      rw [if_pos rfl]
      obtain ⟨i1, i2⟩ := ih (bump tp t) fp (by rw [length_bump]; exact htp) hfp hb'
      rw [i1, i2, getD_bump tp t c (by omega)]
      by_cases hc : c = t
      · subst hc; simp; omega
      · have hc' : ¬ t = c := fun e => hc e.symm
        simp [hc, hc']
    · rw [if_neg h]
      obtain ⟨i1, i2⟩ := ih tp (bump fp p) htp (by rw [length_bump]; exact hfp) hb'
      rw [i1, i2, getD_bump fp p c (by simp at hq; omega)]
      by_cases hc : c = p
      · subst hc
        simp [h]; omega
      · have hc' : ¬ p = c := fun e => hc e.symm
        simp [hc, hc']

theorem f1Loop_spec (n c : Nat) : ∀ (pairs : List (Nat × Nat)) (tp fn fp : List Nat),
    tp.length = n → fn.length = n → fp.length = n → (∀ q ∈ pairs, q.1 < n ∧ q.2 < n) →
    (f1Loop pairs (tp, fn, fp)).1.getD c 0
        = tp.getD c 0 + cnt pairs (fun q => q.1 == c && q.2 == c) ∧
    (f1Loop pairs (tp, fn, fp)).2.1.getD c 0
        = fn.getD c 0 + cnt pairs (fun q => q.1 == c && q.2 != c) ∧
    (f1Loop pairs (tp, fn, fp)).2.2.getD c 0
        = fp.getD c 0 + cnt pairs (fun q => q.1 != c && q.2 == c) := by
  intro pairs
  induction pairs with
  | nil => intro tp fn fp _ _ _ _; simp [f1Loop, cnt_nil]
  | cons q rest ih =>
    obtain ⟨t, p⟩ := q
    intro tp fn fp htp hfn hfp hb
    have hq := hb (t, p) (by simp)
    have hb' : ∀ q ∈ rest, q.1 < n ∧ q.2 < n := fun q hq => hb q (by simp [hq])
    simp only [f1Loop, cnt_cons]
    by_cases h : t = p
    · subst h
      rw [if_pos rfl]
      obtain ⟨i1, i2, i3⟩ := ih (bump tp t) fn fp (by rw [length_bump]; exact htp) hfn hfp hb'
      rw [i1, i2, i3, getD_bump tp t c (by omega)]
      by_cases hc : c = t
      · subst hc; simp; omega
      · have hc' : ¬ t = c := fun e => hc e.symm
        simp [hc, hc']
    · rw [if_neg h]
      obtain ⟨i1, i2, i3⟩ := ih tp (bump fn t) (bump fp p) htp
        (by rw [length_bump]; exact hfn) (by rw [length_bump]; exact hfp) hb'
      simp at hq
      rw [i1, i2, i3, getD_bump fn t c (by omega), getD_bump fp p c (by omega)]
      have h' : ¬ p = t := fun e => h e.symm
      by_cases hc : c = t
      · subst hc
        simp [h, h']; omega
      · have hc' : ¬ t = c := fun e => hc e.symm
        by_cases hd : c = p
        · subst hd; simp [h]; omega
        · have hd' : ¬ p = c := fun e => hd e.symm
          simp [hc, hc', hd, hd']

theorem zip_bound (yt yp : List Nat) (n : Nat) (ht : ∀ t ∈ yt, t < n) (hp : ∀ p ∈ yp, p < n) :
    ∀ q ∈ yt.zip yp, q.1 < n ∧ q.2 < n := by
  intro q hq
  obtain ⟨a, b⟩ := q
  have := List.of_mem_zip hq
  exact ⟨ht a this.1, hp b this.2⟩

theorem counts (yt yp : List Nat) (_hlen : yt.length = yp.length)
    (ht : ∀ t ∈ yt, t < nClasses yt) (hp : ∀ p ∈ yp, p < nClasses yt)
    (c : Nat) (_hc : c < nClasses yt) :
    let n := nClasses yt
    (recallLoop (yt.zip yp) (zeros n, zeros n)).1.getD c 0 = specTP yt yp c ∧
    (recallLoop (yt.zip yp) (zeros n, zeros n)).2.getD c 0 = specFN yt yp c ∧
    (precisionLoop (yt.zip yp) (zeros n, zeros n)).1.getD c 0 = specTP yt yp c ∧
    (precisionLoop (yt.zip yp) (zeros n, zeros n)).2.getD c 0 = specFP yt yp c ∧
    (f1Loop (yt.zip yp) (zeros n, zeros n, zeros n)).1.getD c 0 = specTP yt yp c ∧
    (f1Loop (yt.zip yp) (zeros n, zeros n, zeros n)).2.1.getD c 0 = specFN yt yp c ∧
    (f1Loop (yt.zip yp) (zeros n, zeros n, zeros n)).2.2.getD c 0 = specFP yt yp c := by
  intro n
  have hb := zip_bound yt yp n ht hp
  obtain ⟨r1, r2⟩ := recallLoop_spec n c (yt.zip yp) (zeros n) (zeros n)
    (length_zeros n) (length_zeros n) hb
  obtain ⟨p1, p2⟩ := precisionLoop_spec n c (yt.zip yp) (zeros n) (zeros n)
    (length_zeros n) (length_zeros n) hb
  obtain ⟨f1, f2, f3⟩ := f1Loop_spec n c (yt.zip yp) (zeros n) (zeros n) (zeros n)
    (length_zeros n) (length_zeros n) (length_zeros n) hb
  rw [specTP_eq, specFN_eq, specFP_eq]
  simp only [getD_zeros, Nat.zero_add] at r1 r2 p1 p2 f1 f2 f3
  exact ⟨r1, r2, p1, p2, f1, f2, f3⟩

end TFV.Metrics
