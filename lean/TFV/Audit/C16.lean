import TFV.Properties.Split
import TFV.Properties.Src.GetNJobs
import TFV.Properties.Src.SplitPop
#print axioms TFV.Split.C16_cover
#print axioms TFV.Split.C16_cover_weak
#print axioms TFV.Split.C16_cuts
#print axioms TFV.Split.C16_linspace_gap
#print axioms TFV.Split.C16_linspace_exact
#print axioms TFV.Split.C16_split
#print axioms TFV.Split.C16_normJobs
#print axioms TFV.Split.C16_rowwise
#print axioms TFV.Split.C16_getFitness
#print axioms TFV.SrcTie.C16_src_get_n_jobs
#print axioms TFV.SrcTie.C16_src_get_n_jobs_range
#print axioms TFV.SrcTie.C16_src_split_population
#print axioms TFV.SrcTie.C16_src_split_covers
