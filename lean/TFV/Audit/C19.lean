import TFV.Properties.Metrics
import TFV.Properties.Src.MetricCounts
import TFV.Properties.Src.MetricAccuracy
#print axioms TFV.Metrics.C19_counts
#print axioms TFV.Metrics.C19_recall
#print axioms TFV.Metrics.C19_precision
#print axioms TFV.Metrics.C19_f1
#print axioms TFV.Metrics.C19_f1Class
#print axioms TFV.Metrics.C19_accuracy
#print axioms TFV.Metrics.C19_confusion
#print axioms TFV.Metrics.C19_r2
#print axioms TFV.Metrics.C19_mse
#print axioms TFV.Metrics.C19_batch
#print axioms TFV.SrcTie.C19_src_recall_counts
#print axioms TFV.SrcTie.C19_src_precision_counts
#print axioms TFV.SrcTie.C19_src_f1_counts
#print axioms TFV.SrcTie.C19_src_precision_inadmissible
#print axioms TFV.SrcTie.C19_src_accuracy
#print axioms TFV.SrcTie.C19_src_accuracy_rejects
#print axioms TFV.SrcTie.C19_src_mse
#print axioms TFV.SrcTie.C19_src_r2
