import TFV.Properties.Metrics
#print axioms TFV.Metrics.C19_counts
#print axioms TFV.Metrics.C19_recall
#print axioms TFV.Metrics.C19_precision
#print axioms TFV.Metrics.C19_f1
#print axioms TFV.Metrics.C19_f1Class
#print axioms TFV.Metrics.C19_accuracy
#print axioms TFV.Metrics.C19_confusion
#print axioms TFV.Metrics.C19_r2
#print axioms TFV.Metrics.C19_mse
#print axioms TFV.Metrics.C19_batch
