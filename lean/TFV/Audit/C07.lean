import TFV.Properties.DE
import TFV.Properties.Runs
import TFV.Properties.Src.BoundsControl
import TFV.Properties.Src.Binomial
import TFV.Properties.Src.Donors
import TFV.Properties.Src.DETrial
import TFV.Properties.Src.Pbest
#print axioms TFV.DE.C07_clamp
#print axioms TFV.DE.C07_clampMean
#print axioms TFV.DE.C07_repair_only_outside
#print axioms TFV.DE.C07_repairMean_only_outside
#print axioms TFV.DE.C07_binomial
#print axioms TFV.DE.C07_donor_length
#print axioms TFV.DE.C07_donor_F0
#print axioms TFV.DE.C07_donor_coord
#print axioms TFV.DE.C07_trialDE_in_box
#print axioms TFV.DE.C07_trialSHADE_in_box
#print axioms TFV.DE.C07_greedy_in_box
#print axioms TFV.DE.C07_box_invariant
#print axioms TFV.Runs.C07_run_in_box
#print axioms TFV.Runs.C07_run_in_box_shade
#print axioms TFV.SrcTie.C07_src_bounds_control
#print axioms TFV.SrcTie.C07_src_clamp_agrees
#print axioms TFV.SrcTie.C07_src_bounds_control_in_box
#print axioms TFV.SrcTie.C07_src_binomial
#print axioms TFV.SrcTie.C07_src_donor
#print axioms TFV.SrcTie.C07_src_best_1
#print axioms TFV.SrcTie.C07_src_rand_1
#print axioms TFV.SrcTie.C07_src_rand_to_best1
#print axioms TFV.SrcTie.C07_src_current_to_best_1
#print axioms TFV.SrcTie.C07_src_best_2
#print axioms TFV.SrcTie.C07_src_rand_2
#print axioms TFV.SrcTie.C07_src_current_to_pbest_1_archive
#print axioms TFV.SrcTie.C07_src_donor_distinct
#print axioms TFV.SrcTie.C07_src_de_trial
#print axioms TFV.SrcTie.C07_src_de_trial_in_box
#print axioms TFV.SrcTie.C07_src_shade_trial
#print axioms TFV.SrcTie.C07_src_find_pbest_id
#print axioms TFV.SrcTie.C07_src_find_pbest_is_pbest
