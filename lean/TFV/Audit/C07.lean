import TFV.Properties.DE
import TFV.Properties.Runs
import TFV.Properties.Src.BoundsControl
import TFV.Properties.Src.Binomial
#print axioms TFV.DE.C07_clamp
#print axioms TFV.DE.C07_clampMean
#print axioms TFV.DE.C07_repair_only_outside
#print axioms TFV.DE.C07_repairMean_only_outside
#print axioms TFV.DE.C07_binomial
#print axioms TFV.DE.C07_donor_length
#print axioms TFV.DE.C07_donor_F0
#print axioms TFV.DE.C07_donor_coord
#print axioms TFV.DE.C07_trialDE_in_box
#print axioms TFV.DE.C07_trialSHADE_in_box
#print axioms TFV.DE.C07_greedy_in_box
#print axioms TFV.DE.C07_box_invariant
#print axioms TFV.Runs.C07_run_in_box
#print axioms TFV.Runs.C07_run_in_box_shade
#print axioms TFV.SrcTie.C07_src_bounds_control
#print axioms TFV.SrcTie.C07_src_clamp_agrees
#print axioms TFV.SrcTie.C07_src_bounds_control_in_box
#print axioms TFV.SrcTie.C07_src_binomial
