import TFV.Properties.BinOps
import TFV.Properties.Runs
import TFV.Properties.Src.BinKernels
import TFV.Properties.Src.BinKernels2
import TFV.Properties.Src.GATrial
import TFV.Properties.Src.ShagaTrial
#print axioms TFV.BinOps.C06_cross_parentage
#print axioms TFV.BinOps.C06_cross_binary
#print axioms TFV.BinOps.C06_empty
#print axioms TFV.BinOps.C06_onePoint
#print axioms TFV.BinOps.C06_onePoint_complete
#print axioms TFV.BinOps.C06_twoPoint
#print axioms TFV.BinOps.C06_uniform_complete
#print axioms TFV.BinOps.C06_uniformTour
#print axioms TFV.BinOps.C06_binomial
#print axioms TFV.BinOps.C06_binomial_extremes
#print axioms TFV.BinOps.C06_flip
#print axioms TFV.BinOps.C06_flip_rates
#print axioms TFV.BinOps.C06_rateOf
#print axioms TFV.BinOps.C06_newIndivid_closed
#print axioms TFV.BinOps.C06_shaga_closed
#print axioms TFV.Runs.C06_run_binary
#print axioms TFV.Runs.C06_run_binary_shaga
#print axioms TFV.SrcTie.C06_src_flip_mutation
#print axioms TFV.SrcTie.C06_src_binomialGA
#print axioms TFV.SrcTie.C06_src_one_point_crossover
#print axioms TFV.SrcTie.C06_src_two_point_crossover
#print axioms TFV.SrcTie.C06_src_uniform_crossover
#print axioms TFV.SrcTie.C06_src_one_point_prefix_suffix
#print axioms TFV.SrcTie.C06_src_two_point_distinct
#print axioms TFV.SrcTie.C06_src_flip_binary
#print axioms TFV.SrcTie.C06_src_uniform_proportional_crossover
#print axioms TFV.SrcTie.C06_src_uniform_rank_crossover
#print axioms TFV.SrcTie.C06_src_empty_crossover
#print axioms TFV.SrcTie.C06_src_ga_offspring
#print axioms TFV.SrcTie.C06_src_ga_offspring_oob
#print axioms TFV.SrcTie.C06_src_shaga_offspring
