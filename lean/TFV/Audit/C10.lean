import TFV.Properties.Gray
#print axioms TFV.Gray.C10_bits_roundtrip
#print axioms TFV.Gray.C10_bits_roundtrip'
#print axioms TFV.Gray.C10_bits_lt
#print axioms TFV.Gray.C10_natToBits_length
#print axioms TFV.Gray.C10_gray_roundtrip
#print axioms TFV.Gray.C10_gray_adjacent
#print axioms TFV.Gray.C10_decode_formula
#print axioms TFV.Gray.C10_endpoints
#print axioms TFV.Gray.C10_injective
#print axioms TFV.Gray.C10_encode_decode
#print axioms TFV.Gray.C10_encode_length
#print axioms TFV.Gray.C10_decode_encode_nearest
#print axioms TFV.Gray.C10_inverse_length
#print axioms TFV.Gray.C10_row_roundtrip
#print axioms TFV.Gray.C10_bitsFromH
