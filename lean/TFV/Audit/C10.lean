import TFV.Properties.Gray
import TFV.Properties.Src.GrayKernels
#print axioms TFV.Gray.C10_bits_roundtrip
#print axioms TFV.Gray.C10_bits_roundtrip'
#print axioms TFV.Gray.C10_bits_lt
#print axioms TFV.Gray.C10_natToBits_length
#print axioms TFV.Gray.C10_gray_roundtrip
#print axioms TFV.Gray.C10_gray_adjacent
#print axioms TFV.Gray.C10_decode_formula
#print axioms TFV.Gray.C10_endpoints
#print axioms TFV.Gray.C10_injective
#print axioms TFV.Gray.C10_encode_decode
#print axioms TFV.Gray.C10_encode_length
#print axioms TFV.Gray.C10_decode_encode_nearest
#print axioms TFV.Gray.C10_inverse_length
#print axioms TFV.Gray.C10_row_roundtrip
#print axioms TFV.Gray.C10_bitsFromH
#print axioms TFV.Properties.Src.GrayKernels.C10_src_gray_to_bit
#print axioms TFV.Properties.Src.GrayKernels.C10_src_gray_to_bit_shape
#print axioms TFV.Properties.Src.GrayKernels.C10_src_bit_to_int
#print axioms TFV.Properties.Src.GrayKernels.C10_src_bit_to_gray
#print axioms TFV.Properties.Src.GrayKernels.C10_src_gray_roundtrip
#print axioms TFV.Properties.Src.GrayKernels.C10_src_gray_roundtrip'
#print axioms TFV.Properties.Src.GrayKernels.C10_src_decode_bin
#print axioms TFV.Properties.Src.GrayKernels.C10_src_decode_gray
#print axioms TFV.Properties.Src.GrayKernels.C10_src_int_to_bit
#print axioms TFV.Properties.Src.GrayKernels.C10_src_int_roundtrip
#print axioms TFV.Properties.Src.GrayKernels.C10_src_int_roundtrip_gray
