import TFV.Properties.Adapt
import TFV.Properties.Src.ShadeParams
import TFV.Properties.Src.Greedy
import TFV.Properties.Src.ShadeBook
import TFV.Properties.Src.JdeParams
import TFV.Properties.Src.MemoryUpdate
import TFV.Properties.Src.ShagaParams
#print axioms TFV.Adapt.C15_randc01_range
#print axioms TFV.Adapt.C15_randc01_progress
#print axioms TFV.Adapt.C15_randn01_range
#print axioms TFV.Adapt.C15_randcMR_range
#print axioms TFV.Adapt.C15_randnCR_range
#print axioms TFV.Adapt.C15_jde
#print axioms TFV.Adapt.C15_lehmer_range
#print axioms TFV.Adapt.C15_lehmer_pos
#print axioms TFV.Adapt.C15_weights
#print axioms TFV.Adapt.C15_updateF
#print axioms TFV.Adapt.C15_updateCR
#print axioms TFV.Adapt.C15_updateU
#print axioms TFV.Adapt.C15_mem_step
#print axioms TFV.Adapt.C15_mem_invariant
#print axioms TFV.Adapt.C15_archive
#print axioms TFV.SrcTie.C15_src_shade_generate_F_CR
#print axioms TFV.SrcTie.C15_src_shade_update_u_F
#print axioms TFV.SrcTie.C15_src_jde_greedy
#print axioms TFV.SrcTie.C15_src_shade_bookkeeping
#print axioms TFV.SrcTie.C15_src_shaga_bookkeeping
#print axioms TFV.Properties.Src.JdeParams.C15_src_jde_mutate_F
#print axioms TFV.Properties.Src.JdeParams.C15_src_jde_mutate_F_range
#print axioms TFV.Properties.Src.JdeParams.C15_src_jde_mutate_CR
#print axioms TFV.Properties.Src.MemoryUpdate.C15_src_shade_update_u_CR
#print axioms TFV.Properties.Src.MemoryUpdate.C15_src_shaga_update_u
#print axioms TFV.Properties.Src.MemoryUpdate.C15_src_lehmer_mean_weighted
#print axioms TFV.Properties.Src.MemoryUpdate.C15_src_lehmer_mean_plain
#print axioms TFV.Properties.Src.MemoryUpdate.C15_src_shaga_update_u_composed
#print axioms TFV.Properties.Src.MemoryUpdate.C15_src_shaga_randn
#print axioms TFV.Properties.Src.MemoryUpdate.C15_src_shaga_randn_range
#print axioms TFV.Properties.Src.MemoryUpdate.C15_src_shaga_randc
#print axioms TFV.SrcTie.C15_src_shaga_generate_MR_CR
