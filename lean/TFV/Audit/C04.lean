import TFV.Properties.Rng
#print axioms TFV.Rng.C04_prior_state_irrelevant
#print axioms TFV.Rng.C04_seed_key
#print axioms TFV.Rng.C04_same_state
#print axioms TFV.Rng.C04_deterministic
#print axioms TFV.Rng.C04_unseeded_counterexample
#print axioms TFV.Rng.C04_rng_sites
