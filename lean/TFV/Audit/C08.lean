import TFV.Properties.Tree
import TFV.Properties.TreeCR
import TFV.Properties.Runs
import TFV.Properties.Src.Levels
import TFV.Properties.Src.Shrink
import TFV.Properties.Src.StandardX
import TFV.Properties.Src.OnePointGP
import TFV.Properties.Src.GrowMut
import TFV.Properties.Src.PointMut
import TFV.Properties.Src.Swap
import TFV.Properties.Src.Grow
import TFV.Properties.Src.GPTrial
#print axioms TFV.Tree.C08_subtree_wf
#print axioms TFV.Tree.C08_concat_wf
#print axioms TFV.Tree.C08_depth_concat
#print axioms TFV.Tree.C08_standardX
#print axioms TFV.Tree.C08_pointMut
#print axioms TFV.Tree.C08_growMut
#print axioms TFV.Tree.C08_swapMut
#print axioms TFV.Tree.C08_shrinkMut
#print axioms TFV.Tree.C08_growInit
#print axioms TFV.Tree.C08_onePointX
#print axioms TFV.Tree.C08_uniformX
#print axioms TFV.Runs.C08_run_closed
#print axioms TFV.Runs.C08_run_closed_standard_point
#print axioms TFV.SrcTie.C08_src_get_levels
#print axioms TFV.SrcTie.C08_src_get_levels_any
#print axioms TFV.SrcTie.C08_src_get_levels_subterm
#print axioms TFV.SrcTie.C08_src_shrink_mutation
#print axioms TFV.SrcTie.C08_src_shrink_closed
#print axioms TFV.SrcTie.C08_src_standard_crossover
#print axioms TFV.SrcTie.C08_src_standard_closed
#print axioms TFV.SrcTie.C08_src_one_point_crossoverGP
#print axioms TFV.SrcTie.C08_src_one_point_closed
#print axioms TFV.SrcTie.C08_src_growing_mutation
#print axioms TFV.SrcTie.C08_src_growing_budget
#print axioms TFV.SrcTie.C08_src_growing_closed
#print axioms TFV.SrcTie.C08_src_point_mutation
#print axioms TFV.SrcTie.C08_src_point_closed
#print axioms TFV.SrcTie.C08_src_swap_mutation
#print axioms TFV.SrcTie.C08_src_swap_closed
#print axioms TFV.SrcTie.C08_src_full_growing_method
#print axioms TFV.SrcTie.C08_src_growing_method
#print axioms TFV.SrcTie.C08_src_init_closed
#print axioms TFV.SrcTie.C08_src_random_tree
#print axioms TFV.SrcTie.C08_src_gp_offspring
