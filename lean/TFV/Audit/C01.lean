import TFV.Properties.EA
import TFV.Properties.Heap
#print axioms TFV.EA.C01_best_is_max
#print axioms TFV.EA.C01_final
#print axioms TFV.Heap.C01_private_copy
#print axioms TFV.Heap.C01_alias_counterexample
