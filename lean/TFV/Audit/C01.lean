import TFV.Properties.EA
import TFV.Properties.Heap
import TFV.Properties.Src.Engine
import TFV.Properties.Src.Elitism
#print axioms TFV.EA.C01_best_is_max
#print axioms TFV.EA.C01_final
#print axioms TFV.Heap.C01_private_copy
#print axioms TFV.Heap.C01_alias_counterexample
#print axioms TFV.SrcTie.C01_src_thefittest_replace
#print axioms TFV.SrcTie.C01_src_thefittest_update
#print axioms TFV.SrcTie.C01_src_thefittest_get
