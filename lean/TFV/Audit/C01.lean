import TFV.Properties.EA
#print axioms TFV.EA.C01_best_is_max
#print axioms TFV.EA.C01_final
