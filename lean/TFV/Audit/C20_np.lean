import TFV.Generated.Src.Bench_OneMax_f
import TFV.Generated.Src.Bench_Sphere_f
import TFV.Generated.Src.Bench_Schwefel12_f
import TFV.Generated.Src.Bench_Rosenbrock_f
import TFV.Generated.Src.Bench_Rastrigin_f
import TFV.Generated.Src.Bench_Griewank_f
import TFV.Generated.Src.Bench_Elliptic_f
import TFV.Generated.Src.Bench_Ackley_f
import TFV.Generated.Src.Bench_ScafferPair
open TFV TFV.Generated.Src
def showQ : Option (List Rat) → String | none => "none" | some v => toString (v.map fun q => (q.num, q.den))
#eval IO.println (showQ (Bench_Rastrigin_f (fun _ => 1) { ncols := 3, rows := [[(4 : Rat) / 1, (2 : Rat) / 1, (-1 : Rat) / 1]] }))
#eval IO.println (showQ (Bench_ScafferPair (fun s => 9 * s * s / 16) { ncols := 4, rows := [[(5 : Rat) / 4, (1 : Rat) / 2, (-1 : Rat) / 2, (-3 : Rat) / 4]] }))
#eval IO.println (showQ (Bench_Elliptic_f (fun D j => if D == 5 then ((([(0, (1 : Rat) / 1), (1, (8901020307485223 : Rat) / 281474976710656), (2, (1000 : Rat) / 1), (3, (4346201322014269 : Rat) / 137438953472), (4, (1000000 : Rat) / 1)] : List (Nat × Rat)).find? (fun t => t.1 == j)).map (·.2)).getD 0 else 0) { ncols := 5, rows := [[(1 : Rat) / 1, (-1 : Rat) / 1, (0 : Rat) / 1, (0 : Rat) / 1, (-5 : Rat) / 2], [(2 : Rat) / 1, (-2 : Rat) / 1, (-2 : Rat) / 1, (-3 : Rat) / 1, (3 : Rat) / 2]] }))
#eval IO.println (showQ (Bench_ScafferPair (fun s => 9 * s * s / 16) { ncols := 2, rows := [] }))
#eval IO.println (showQ (Bench_ScafferPair (fun s => 9 * s * s / 16) { ncols := 3, rows := [] }))
#eval IO.println (showQ (Bench_Schwefel12_f { ncols := 1, rows := [[(-6 : Rat) / 1], [(-5 : Rat) / 1], [(-1 : Rat) / 1]] }))
#eval IO.println (showQ (Bench_Ackley_f (fun u => u / 2 + 1) (fun u => 3 * u) (fun z => 1 - z * z) { ncols := 1, rows := [[(1 : Rat) / 4], [(-1 : Rat) / 4]] }))
#eval IO.println (showQ (Bench_Rastrigin_f (fun _ => 1) { ncols := 2, rows := [[(-4 : Rat) / 1, (2 : Rat) / 1], [(2 : Rat) / 1, (-5 : Rat) / 1], [(6 : Rat) / 1, (2 : Rat) / 1]] }))
#eval IO.println (showQ (Bench_Schwefel12_f { ncols := 2, rows := [] }))
#eval IO.println (showQ (Bench_Elliptic_f (fun D j => if D == 5 then ((([(0, (1 : Rat) / 1), (1, (8901020307485223 : Rat) / 281474976710656), (2, (1000 : Rat) / 1), (3, (4346201322014269 : Rat) / 137438953472), (4, (1000000 : Rat) / 1)] : List (Nat × Rat)).find? (fun t => t.1 == j)).map (·.2)).getD 0 else 0) { ncols := 5, rows := [[(1 : Rat) / 1, (0 : Rat) / 1, (-1 : Rat) / 2, (-3 : Rat) / 2, (3 : Rat) / 4]] }))
#eval IO.println (showQ (Bench_Schwefel12_f { ncols := 2, rows := [[(3 : Rat) / 2, (-3 : Rat) / 1], [(0 : Rat) / 1, (3 : Rat) / 1], [(-5 : Rat) / 2, (2 : Rat) / 1]] }))
#eval IO.println (showQ (Bench_Elliptic_f (fun D j => if D == 3 then ((([(0, (1 : Rat) / 1), (1, (1000 : Rat) / 1), (2, (1000000 : Rat) / 1)] : List (Nat × Rat)).find? (fun t => t.1 == j)).map (·.2)).getD 0 else 0) { ncols := 3, rows := [[(1 : Rat) / 4, (-3 : Rat) / 2, (1 : Rat) / 4], [(3 : Rat) / 4, (-5 : Rat) / 4, (-1 : Rat) / 2]] }))
#eval IO.println (showQ (Bench_ScafferPair (fun s => 9 * s * s / 16) { ncols := 5, rows := [[(0 : Rat) / 1, (1 : Rat) / 4, (-1 : Rat) / 2, (-1 : Rat) / 1, (-3 : Rat) / 4], [(1 : Rat) / 2, (-1 : Rat) / 4, (-1 : Rat) / 1, (-1 : Rat) / 2, (3 : Rat) / 4], [(-1 : Rat) / 1, (1 : Rat) / 4, (-5 : Rat) / 4, (-5 : Rat) / 4, (1 : Rat) / 4]] }))
#eval IO.println (showQ (Bench_Elliptic_f (fun D j => if D == 2 then ((([(0, (1 : Rat) / 1), (1, (1000000 : Rat) / 1)] : List (Nat × Rat)).find? (fun t => t.1 == j)).map (·.2)).getD 0 else 0) { ncols := 2, rows := [[(1 : Rat) / 2, (-3 : Rat) / 2], [(-5 : Rat) / 2, (-1 : Rat) / 1], [(-2 : Rat) / 1, (-1 : Rat) / 2]] }))
#eval IO.println (showQ (Bench_Sphere_f { ncols := 1, rows := [[(-1 : Rat) / 1]] }))
#eval IO.println (showQ (Bench_ScafferPair (fun s => 9 * s * s / 16) { ncols := 1, rows := [[(0 : Rat) / 1]] }))
#eval IO.println (showQ (Bench_ScafferPair (fun s => 9 * s * s / 16) { ncols := 1, rows := [[(1 : Rat) / 1], [(-1 : Rat) / 2], [(3 : Rat) / 1]] }))
#eval IO.println (showQ (Bench_Griewank_f (fun i a => ((([] : List (Nat × Rat × Rat)).find? (fun t => t.1 == i && t.2.1 == a)).map (·.2.2)).getD 0) { ncols := 1, rows := [] }))
#eval IO.println (showQ (Bench_Rosenbrock_f { ncols := 3, rows := [[(-3 : Rat) / 2, (-3 : Rat) / 1, (1 : Rat) / 2], [(-1 : Rat) / 2, (1 : Rat) / 1, (-1 : Rat) / 2], [(-5 : Rat) / 2, (-5 : Rat) / 2, (-1 : Rat) / 1]] }))
#eval IO.println (showQ (Bench_Elliptic_f (fun D j => if D == 4 then ((([(0, (1 : Rat) / 1), (1, (3518437208883199 : Rat) / 35184372088832), (2, (5497558138879997 : Rat) / 549755813888), (3, (1000000 : Rat) / 1)] : List (Nat × Rat)).find? (fun t => t.1 == j)).map (·.2)).getD 0 else 0) { ncols := 4, rows := [[(3 : Rat) / 1, (-2 : Rat) / 1, (-3 : Rat) / 2, (-1 : Rat) / 1]] }))
#eval IO.println (showQ (Bench_Rosenbrock_f { ncols := 3, rows := [[(0 : Rat) / 1, (3 : Rat) / 2, (-2 : Rat) / 1], [(3 : Rat) / 1, (-5 : Rat) / 2, (0 : Rat) / 1], [(-1 : Rat) / 2, (1 : Rat) / 1, (1 : Rat) / 2]] }))
#eval IO.println (showQ (Bench_Rosenbrock_f { ncols := 3, rows := [[(-1 : Rat) / 1, (-1 : Rat) / 2, (0 : Rat) / 1], [(3 : Rat) / 1, (3 : Rat) / 1, (5 : Rat) / 2]] }))
#eval IO.println (showQ (Bench_Rastrigin_f (fun _ => 1) { ncols := 4, rows := [] }))
#eval IO.println (showQ (Bench_Rastrigin_f (fun _ => 1) { ncols := 4, rows := [] }))
#eval IO.println (showQ (Bench_Schwefel12_f { ncols := 2, rows := [[(-1 : Rat) / 1, (-1 : Rat) / 4], [(1 : Rat) / 4, (-3 : Rat) / 4]] }))
#eval IO.println (showQ (Bench_Sphere_f { ncols := 4, rows := [[(1 : Rat) / 1, (1 : Rat) / 2, (3 : Rat) / 2, (3 : Rat) / 2], [(-3 : Rat) / 2, (2 : Rat) / 1, (0 : Rat) / 1, (1 : Rat) / 1], [(-1 : Rat) / 1, (1 : Rat) / 2, (-3 : Rat) / 2, (-1 : Rat) / 2]] }))
#eval IO.println (showQ (Bench_ScafferPair (fun s => 9 * s * s / 16) { ncols := 1, rows := [] }))
#eval IO.println (showQ (Bench_Griewank_f (fun i a => ((([(0, (-3 : Rat) / 1, (-4458529838789353 : Rat) / 4503599627370496), (0, (0 : Rat) / 1, (1 : Rat) / 1), (0, (3 : Rat) / 1, (-4458529838789353 : Rat) / 4503599627370496), (1, (-3 : Rat) / 1, (-4711971222768333 : Rat) / 9007199254740992), (1, (-5 : Rat) / 2, (-7050815245237385 : Rat) / 36028797018963968), (1, (3 : Rat) / 2, (1099545001474001 : Rat) / 2251799813685248)] : List (Nat × Rat × Rat)).find? (fun t => t.1 == i && t.2.1 == a)).map (·.2.2)).getD 0) { ncols := 2, rows := [[(-3 : Rat) / 1, (3 : Rat) / 2], [(3 : Rat) / 1, (-3 : Rat) / 1], [(0 : Rat) / 1, (-5 : Rat) / 2]] }))
#eval IO.println (showQ (Bench_Rastrigin_f (fun _ => 1) { ncols := 3, rows := [[(-4 : Rat) / 1, (-5 : Rat) / 1, (-4 : Rat) / 1]] }))
#eval IO.println (showQ (Bench_Griewank_f (fun i a => ((([] : List (Nat × Rat × Rat)).find? (fun t => t.1 == i && t.2.1 == a)).map (·.2.2)).getD 0) { ncols := 2, rows := [] }))
#eval IO.println (showQ (Bench_OneMax_f { ncols := 5, rows := [[(-4 : Rat) / 1, (-5 : Rat) / 1, (3 : Rat) / 1, (3 : Rat) / 1, (-3 : Rat) / 1], [(-5 : Rat) / 1, (5 : Rat) / 1, (1 : Rat) / 1, (-3 : Rat) / 1, (-6 : Rat) / 1], [(2 : Rat) / 1, (3 : Rat) / 1, (0 : Rat) / 1, (-5 : Rat) / 1, (2 : Rat) / 1]] }))
#eval IO.println (showQ (Bench_Schwefel12_f { ncols := 2, rows := [[(0 : Rat) / 1, (1 : Rat) / 2]] }))
#eval IO.println (showQ (Bench_OneMax_f { ncols := 2, rows := [[(3 : Rat) / 1, (-3 : Rat) / 1], [(3 : Rat) / 2, (-1 : Rat) / 1], [(-3 : Rat) / 1, (3 : Rat) / 2]] }))
#eval IO.println (showQ (Bench_Griewank_f (fun i a => ((([(0, (1 : Rat) / 4, (8727187242741409 : Rat) / 9007199254740992), (0, (3 : Rat) / 4, (6590467434422559 : Rat) / 9007199254740992), (1, (1 : Rat) / 2, (8450088984206347 : Rat) / 9007199254740992), (1, (1 : Rat) / 1, (3423837284100241 : Rat) / 4503599627370496), (2, (-5 : Rat) / 4, (1690407487147919 : Rat) / 2251799813685248), (2, (-1 : Rat) / 1, (1886809697488251 : Rat) / 2251799813685248)] : List (Nat × Rat × Rat)).find? (fun t => t.1 == i && t.2.1 == a)).map (·.2.2)).getD 0) { ncols := 3, rows := [[(1 : Rat) / 4, (1 : Rat) / 1, (-1 : Rat) / 1], [(3 : Rat) / 4, (1 : Rat) / 2, (-5 : Rat) / 4]] }))
#eval IO.println (showQ (Bench_Rastrigin_f (fun _ => 1) { ncols := 1, rows := [] }))
#eval IO.println (showQ (Bench_Rastrigin_f (fun _ => 1) { ncols := 2, rows := [] }))
#eval IO.println (showQ (Bench_Schwefel12_f { ncols := 2, rows := [[(1 : Rat) / 1, (-1 : Rat) / 4], [(-3 : Rat) / 4, (0 : Rat) / 1], [(1 : Rat) / 2, (1 : Rat) / 2]] }))
#eval IO.println (showQ (Bench_Sphere_f { ncols := 4, rows := [] }))
#eval IO.println (showQ (Bench_ScafferPair (fun s => 9 * s * s / 16) { ncols := 4, rows := [[(1 : Rat) / 1, (2 : Rat) / 1, (-1 : Rat) / 1, (-4 : Rat) / 1], [(0 : Rat) / 1, (-2 : Rat) / 1, (0 : Rat) / 1, (-5 : Rat) / 1], [(3 : Rat) / 1, (2 : Rat) / 1, (-1 : Rat) / 1, (-3 : Rat) / 1]] }))
#eval IO.println (showQ (Bench_Ackley_f (fun u => u / 2 + 1) (fun u => 3 * u) (fun z => 1 - z * z) { ncols := 3, rows := [[(3 : Rat) / 1, (0 : Rat) / 1, (-3 : Rat) / 1]] }))
