import TFV.Properties.EA
#print axioms TFV.EA.C05_dual
#print axioms TFV.EA.C05_aim
