import TFV.Properties.EA
import TFV.Properties.Src.Engine
#print axioms TFV.EA.C05_dual
#print axioms TFV.EA.C05_aim
#print axioms TFV.SrcTie.C05_src_get_fitness
#print axioms TFV.SrcTie.C05_src_get_fitness_is_fitOf
