import TFV.Properties.EA
import TFV.Properties.Heap
import TFV.Properties.Src.UpdateData
#print axioms TFV.EA.C17_history
#print axioms TFV.EA.C17_first_entry
#print axioms TFV.Heap.C17_snapshots
#print axioms TFV.Heap.C17_inputs
#print axioms TFV.Heap.C17_get
#print axioms TFV.SrcTie.C17_src_update_data
