import TFV.Properties.EA
import TFV.Properties.Heap
#print axioms TFV.EA.C17_history
#print axioms TFV.EA.C17_first_entry
#print axioms TFV.Heap.C17_snapshots
#print axioms TFV.Heap.C17_inputs
#print axioms TFV.Heap.C17_get
