import TFV.Properties.EA
#print axioms TFV.EA.C17_history
#print axioms TFV.EA.C17_first_entry
