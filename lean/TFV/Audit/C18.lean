import TFV.Properties.Estim
#print axioms TFV.Estim.C18_classes
#print axioms TFV.Estim.C18_label_roundtrip
#print axioms TFV.Estim.C18_argmax
#print axioms TFV.Estim.C18_predict_label
#print axioms TFV.Estim.C18_pair
#print axioms TFV.Estim.C18_checkArgs
#print axioms TFV.Estim.C18_withBias
#print axioms TFV.Estim.C18_budget
#print axioms TFV.Estim.C18_gp_predict
