import TFV.Properties.Select
import TFV.Properties.Src.Bsearch
import TFV.Properties.Src.Tournament
import TFV.Properties.Src.Sampling
import TFV.Properties.Src.MinMax
#print axioms TFV.Select.C11_bsearch_eq_firstGe
#print axioms TFV.Select.C11_bsearch_interval
#print axioms TFV.Select.C11_weight_positive
#print axioms TFV.Select.C11_weight_measure
#print axioms TFV.Select.C11_sampleNoRepl
#print axioms TFV.Select.C11_sampleNoRepl_progress
#print axioms TFV.Select.C11_sampleRepl
#print axioms TFV.Select.C11_tournament
#print axioms TFV.Select.C11_tournament_rank
#print axioms TFV.Select.C11_randint_range
#print axioms TFV.Select.C11_uniform_range
#print axioms TFV.Select.C11_sattolo_perm
#print axioms TFV.Select.C11_sattolo_cyclic
#print axioms TFV.Select.C11_sattolo_no_fixed_point
#print axioms TFV.Select.C11_pbest
#print axioms TFV.Select.C11_minmax
#print axioms TFV.SrcTie.C11_src_binary_search_interval
#print axioms TFV.SrcTie.C11_src_check_for_value
#print axioms TFV.SrcTie.C11_src_argsort_k
#print axioms TFV.SrcTie.C11_src_binary_search_first_ge
#print axioms TFV.SrcTie.C11_src_tournament_selection
#print axioms TFV.SrcTie.C11_src_proportional_selection
#print axioms TFV.SrcTie.C11_src_rank_selection
#print axioms TFV.SrcTie.C11_src_tournament_selection_distinct
#print axioms TFV.SrcTie.C11_src_sattolo_shuffle
#print axioms TFV.SrcTie.C11_src_random_sample_norepl
#print axioms TFV.SrcTie.C11_src_random_sample_repl
#print axioms TFV.SrcTie.C11_src_random_weighted_sample_norepl
#print axioms TFV.SrcTie.C11_src_random_weighted_sample_repl
#print axioms TFV.SrcTie.C11_src_sattolo_perm
#print axioms TFV.SrcTie.C11_src_random_sample_distinct
#print axioms TFV.SrcTie.C11_src_minmax_scale
#print axioms TFV.SrcTie.C11_src_minmax_scale_empty
