import TFV.Properties.Net
#print axioms TFV.Net.C13_getOrder_valid
#print axioms TFV.Net.C13_decode_valid
#print axioms TFV.Net.C13_softmax_together
#print axioms TFV.Net.C13_mlp_layers
