import TFV.Properties.Net
import TFV.Properties.Gray
#print axioms TFV.Net.C13_getOrder_valid
#print axioms TFV.Net.C13_decode_valid
#print axioms TFV.Net.C13_softmax_together
#print axioms TFV.Net.C13_mlp_layers
#print axioms TFV.Gray.C13_weights_gray_in_box
