import TFV.Properties.EA
import TFV.Properties.Src.Engine
import TFV.Properties.Src.Greedy
import TFV.Properties.Src.Elitism
#print axioms TFV.EA.C02_best_monotone
#print axioms TFV.EA.C02_elite_present
#print axioms TFV.EA.C02_slot_consistent
#print axioms TFV.EA.C02_slot_monotone
#print axioms TFV.EA.C02_record_dominates
#print axioms TFV.SrcTie.C02_src_update_monotone
#print axioms TFV.SrcTie.C02_src_de_greedy
#print axioms TFV.SrcTie.C02_src_de_greedy_slot
#print axioms TFV.SrcTie.C02_src_evaluation_step
#print axioms TFV.SrcTie.C02_src_de_record_step
#print axioms TFV.SrcTie.C02_src_shaga_record_step
#print axioms TFV.SrcTie.C02_src_ga_evaluation_step
