import TFV.Properties.EA
#print axioms TFV.EA.C02_best_monotone
#print axioms TFV.EA.C02_elite_present
#print axioms TFV.EA.C02_slot_consistent
#print axioms TFV.EA.C02_slot_monotone
#print axioms TFV.EA.C02_record_dominates
