import TFV.Properties.EA
import TFV.Properties.Src.Engine
import TFV.Properties.Src.Skeleton
import TFV.Properties.Src.GetAim
#print axioms TFV.EA.C03_calls
#print axioms TFV.EA.C03_stop_exact
#print axioms TFV.EA.C03_aim_sides
#print axioms TFV.EA.C03_stagnation
#print axioms TFV.SrcTie.C03_src_update_counter
#print axioms TFV.SrcTie.C03_src_termination_check
#print axioms TFV.SrcTie.C03_src_termination_stop
#print axioms TFV.SrcTie.C03_src_termination_stop_no_stagnation_rule
#print axioms TFV.SrcTie.C03_src_get_remains_calls
#print axioms TFV.SrcTie.C03_src_get_fitness_counts
#print axioms TFV.SrcTie.C03_src_fit
#print axioms TFV.SrcTie.C03_src_fit_stops_at_first
#print axioms TFV.SrcTie.C03_src_fit_full
#print axioms TFV.SrcTie.C03_src_fit_is_model_run
#print axioms TFV.SrcTie.C03_src_get_aim
#print axioms TFV.SrcTie.C03_src_aim_rule_min
#print axioms TFV.SrcTie.C03_src_aim_rule_max
