import TFV.Properties.EA
#print axioms TFV.EA.C03_calls
#print axioms TFV.EA.C03_stop_exact
#print axioms TFV.EA.C03_aim_sides
#print axioms TFV.EA.C03_stagnation
