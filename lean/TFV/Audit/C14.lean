import TFV.Properties.SelfConf
import TFV.Properties.Src.SelfCGAAdapt
import TFV.Properties.Src.PdpgaTrial
import TFV.Properties.Src.GATrial
import TFV.Properties.Src.GPTrial
import TFV.Properties.Src.PdpgaAdapt
import TFV.Properties.Src.SelfCGAProba
#print axioms TFV.SelfConf.C14_bumped_sum
#print axioms TFV.SelfConf.C14_newProba_dist
#print axioms TFV.SelfConf.C14_newProba_rule
#print axioms TFV.SelfConf.C14_fittest
#print axioms TFV.SelfConf.C14_pdp_dist
#print axioms TFV.SelfConf.C14_draw_support
#print axioms TFV.SelfConf.C14_draw_interval
#print axioms TFV.SelfConf.C14_adapt_uses_new
#print axioms TFV.SelfConf.C14_adaptPDP_uses_new
#print axioms TFV.SelfConf.C14_invariant
#print axioms TFV.SrcTie.C14_src_selfcga_adapt
#print axioms TFV.SrcTie.C14_src_pdpga_offspring
#print axioms TFV.SrcTie.C14_src_pdpgp_offspring
#print axioms TFV.SrcTie.C14_src_pdpga_adapt_update
#print axioms TFV.SrcTie.C14_src_pdpga_adapt_first
#print axioms TFV.Properties.Src.SelfCGAProba.C14_src_get_new_proba
#print axioms TFV.Properties.Src.SelfCGAProba.C14_src_get_new_proba_rejects
#print axioms TFV.Properties.Src.SelfCGAProba.C14_src_choice_operators
