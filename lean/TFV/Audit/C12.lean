import TFV.Properties.Net
import TFV.Properties.Src.SoftmaxKernel
#print axioms TFV.Net.C12_preActGroup
#print axioms TFV.Net.C12_schedule_sound
#print axioms TFV.Net.C12_history_independent
#print axioms TFV.Net.C12_batch
#print axioms TFV.Net.C12_conn_order
#print axioms TFV.Net.C12_softmax
#print axioms TFV.Net.C12_softmax_split_counterexample
#print axioms TFV.Properties.Src.SoftmaxKernel.C12_src_max_axis
#print axioms TFV.Properties.Src.SoftmaxKernel.C12_src_softmax_numba
#print axioms TFV.Properties.Src.SoftmaxKernel.C12_src_softmax_rows
#print axioms TFV.Properties.Src.SoftmaxKernel.C12_src_multiactivation2d
