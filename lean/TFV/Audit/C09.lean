import TFV.Properties.Tree
import TFV.Properties.TreeCR
import TFV.Properties.Src.TreeIdx
import TFV.Properties.Src.CommonRegion
import TFV.Properties.Src.TreeMethods
import TFV.Properties.Src.StandardX
import TFV.Properties.Src.OnePointGP
import TFV.Properties.Src.TreeCall
import TFV.Properties.Src.TreeInit
import TFV.Properties.Src.TreeEq
#print axioms TFV.Tree.C09_scan_flat
#print axioms TFV.Tree.C09_size_flat
#print axioms TFV.Tree.C09_endSub
#print axioms TFV.Tree.C09_wf_flat
#print axioms TFV.Tree.C09_parse
#print axioms TFV.Tree.C09_parse_consistent
#print axioms TFV.Tree.C09_flat_injective
#print axioms TFV.Tree.C09_context
#print axioms TFV.Tree.C09_subtree
#print axioms TFV.Tree.C09_concat
#print axioms TFV.Tree.C09_concat_subtree_id
#print axioms TFV.Tree.C09_argsIds
#print axioms TFV.Tree.C09_levels
#print axioms TFV.Tree.C09_depth
#print axioms TFV.Tree.C09_eval
#print axioms TFV.Tree.C09_batch
#print axioms TFV.Tree.C09_rebind
#print axioms TFV.Tree.C09_eqTree
#print axioms TFV.Tree.C09_common_region
#print axioms TFV.SrcTie.C09_src_find_end_subtree
#print axioms TFV.SrcTie.C09_src_find_id_args
#print axioms TFV.SrcTie.C09_src_first_difference
#print axioms TFV.SrcTie.C09_src_find_end_subtree_size
#print axioms TFV.SrcTie.C09_src_find_id_args_positions
#print axioms TFV.SrcTie.C09_src_common_region_two_trees
#print axioms TFV.SrcTie.C09_src_tree_subtree_id
#print axioms TFV.SrcTie.C09_src_tree_subtree
#print axioms TFV.SrcTie.C09_src_tree_concat
#print axioms TFV.SrcTie.C09_src_tree_subtree_is_subterm
#print axioms TFV.SrcTie.C09_src_tree_concat_splices
#print axioms TFV.SrcTie.C09_src_tree_get_levels
#print axioms TFV.SrcTie.C09_src_tree_get_max_level
#print axioms TFV.SrcTie.C09_src_tree_get_common_region
#print axioms TFV.SrcTie.C09_src_tree_call
#print axioms TFV.SrcTie.C09_src_tree_str
#print axioms TFV.SrcTie.C09_src_tree_call_run
#print axioms TFV.SrcTie.C09_src_init_n_args
#print axioms TFV.SrcTie.C09_src_tree_eq
#print axioms TFV.SrcTie.C09_src_tree_eq_ids
