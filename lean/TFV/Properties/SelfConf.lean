/-
  C14 — self-configuration keeps operator probabilities a distribution and uses them.
  For every distribution, winner, K, iters, threshold; hence (by induction) for every generation.
-/
import TFV.Model.SelfConf
import TFV.Lemmas.SelfConf

namespace TFV.SelfConf

/-- a probability distribution with every entry ≥ lo -/
def Dist (p : List Rat) : Prop := p.sum = 1 ∧ ∀ x ∈ p, 0 < x

/-- before clipping the sum is unchanged (the winner gains K/iters, all z lose K/(z·iters)) -/
theorem C14_bumped_sum (p : List Rat) (winner : Nat) (K : Rat) (iters : Nat)
    (hw : winner < p.length) (hi : 0 < iters) :
    (bumped p winner K iters).sum = p.sum :=
  bumped_sum p winner K iters hw hi

/-- SelfC* update: the result is a distribution over the same operators, strictly positive,
    never below the floor after renormalisation `thr / S` with `1 ≤ S ≤ 1 + z·thr + K/iters` -/
theorem C14_newProba_dist (p : List Rat) (winner : Nat) (K : Rat) (iters : Nat) (thr : Rat)
    (hp : p.sum = 1) (hpos : ∀ x ∈ p, 0 ≤ x) (hw : winner < p.length) (hK : 0 ≤ K) (hi : 0 < iters)
    (ht : 0 < thr) (ht1 : thr ≤ 1) :
    let q := newProba p winner K iters thr
    let S := (clipped p winner K iters thr).sum
    q.length = p.length ∧ q.sum = 1 ∧ (∀ x ∈ q, 0 < x ∧ thr / S ≤ x ∧ x ≤ 1) ∧
    1 ≤ S ∧ S ≤ 1 + (p.length : Rat) * thr + K / (iters : Rat) :=
  newProba_dist p winner K iters thr hp hpos hw hK hi ht ht1

/-- the documented rule, entry by entry -/
theorem C14_newProba_rule (p : List Rat) (winner : Nat) (K : Rat) (iters : Nat) (thr : Rat) (i : Nat)
    (hi : i < p.length) :
    (newProba p winner K iters thr).getD i 0 =
      clip thr 1 ((if i = winner then p.getD i 0 + K / (iters : Rat) else p.getD i 0)
        - K / ((p.length : Rat) * (iters : Rat))) / (clipped p winner K iters thr).sum :=
  newProba_rule p winner K iters thr i hi

/-- the winner is an operator that was used, and no used operator has a strictly greater mean
    offspring fitness -/
theorem C14_fittest (nOps : Nat) (ops : List Nat) (fit : List Rat) (hl : ops.length = fit.length)
    (hne : ops ≠ []) (hr : ∀ o ∈ ops, o < nOps) :
    let w := fittestOperator nOps ops fit
    w ∈ ops ∧ ∀ k ∈ ops, meanOf (group ops fit k) ≤ meanOf (group ops fit w) :=
  fittest_spec nOps ops fit hl hne hr

/-- PDP* update: floor plus share proportional to (successes²+1)/(uses+1): a distribution with
    every entry ≥ thr exactly (thr = 0.2/n in the code), unused operators exactly at the floor -/
theorem C14_pdp_dist (n : Nat) (ops : List Nat) (succ : List Bool) (thr : Rat)
    (hl : ops.length = succ.length) (hne : ops ≠ []) (hr : ∀ o ∈ ops, o < n)
    (ht : 0 ≤ thr) (hnt : (n : Rat) * thr ≤ 1) :
    let q := pdpProba n ops succ thr
    q.length = n ∧ q.sum = 1 ∧ (∀ x ∈ q, thr ≤ x) ∧
    (∀ k, k < n → k ∉ ops → q.getD k 0 = thr) :=
  pdp_dist n ops succ thr hl hne hr ht hnt

/-- every operator drawn for the next generation lies in the support of the distribution it is
    drawn from, one operator per individual -/
theorem C14_draw_support (p : List Rat) (us : List Rat) (hp : ∀ x ∈ p, 0 < x) (hne : p ≠ [])
    (hu : ∀ u ∈ us, 0 < u ∧ u < 1) :
    (chooseOperators p us).length = us.length ∧ ∀ k ∈ chooseOperators p us, k < p.length :=
  draw_support p us hp hne hu

/-- the draw maps the uniform value to the operator whose cumulative interval contains it -/
theorem C14_draw_interval (p : List Rat) (u : Rat) (hp : ∀ x ∈ p, 0 < x) (hne : p ≠ [])
    (hu : 0 < u ∧ u < 1) :
    let k := drawOp p u
    (p.take k).sum < u * p.sum ∧ u * p.sum ≤ (p.take (k + 1)).sum :=
  draw_interval p u hp hne hu

/-- the operators that create the next generation are drawn from the UPDATED distribution -/
theorem C14_adapt_uses_new (p : List Rat) (ops : List Nat) (fit : List Rat) (K : Rat) (iters : Nat)
    (thr : Rat) (us : List Rat) :
    (adaptSelfC p ops fit K iters thr us).2 = chooseOperators (adaptSelfC p ops fit K iters thr us).1 us ∧
    (adaptSelfC p ops fit K iters thr us).1 = newProba p (fittestOperator p.length ops fit) K iters thr := by
  simp [adaptSelfC]

theorem C14_adaptPDP_uses_new (n : Nat) (ops : List Nat) (prev fit : List Rat) (thr : Rat) (us : List Rat) :
    (adaptPDP n ops prev fit thr us).2 = chooseOperators (adaptPDP n ops prev fit thr us).1 us ∧
    (adaptPDP n ops prev fit thr us).1 = pdpProba n ops (successes prev fit) thr := by
  simp [adaptPDP]

/-- distributions stay distributions over all generations: any sequence of SelfC updates -/
theorem C14_invariant (p0 : List Rat) (hp : p0.sum = 1) (hpos : ∀ x ∈ p0, 0 < x) (hne : p0 ≠ [])
    (K : Rat) (iters : Nat) (thr : Rat) (hK : 0 ≤ K) (hi : 0 < iters) (ht : 0 < thr) (ht1 : thr ≤ 1)
    (winners : List Nat) (hw : ∀ w ∈ winners, w < p0.length) :
    let p := winners.foldl (fun p w => newProba p w K iters thr) p0
    p.length = p0.length ∧ p.sum = 1 ∧ ∀ x ∈ p, 0 < x :=
  invariant p0 hp hpos hne K iters thr hK hi ht ht1 winners hw

end TFV.SelfConf
