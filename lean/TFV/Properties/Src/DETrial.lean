/- Source tie for C07: `DifferentialEvolution._get_new_individ_g` as translated from /repo on this run — the strategy
   looked up in the mutation pool as `donorFn`, `binomial` as `crossFn` (each applied to the call's actual arguments
   and ordinal; tied separately by C07_src_donor / C07_src_binomial), `bounds_control` as a real call of its
   translation.  The theorem fixes the WIRING of one trial: the donor is computed from (parent, stored best genotype,
   current population, F), crossed with the parent under CR (parent first), and the result is clamped into
   [left, right]; so the trial handed to the fitness function lies in the box whatever donor and crossover return. -/
import TFV.Generated.Src.DE_get_new_individ_g
import TFV.Generated.Src.SHADE_get_new_individ_g
import TFV.Properties.Src.BoundsControl

namespace TFV.SrcTie
open TFV.Generated.Src

theorem C07_src_de_trial (x : List Int) (F CR : Int) (best : List Int) (pop : List (List Int)) (left right : List Int)
    (donorFn : List Int → List Int → List (List Int) → Int → Nat → List Int)
    (crossFn : List Int → List Int → Int → Nat → List Int)
    (hl : left.length = (crossFn x (donorFn x best pop F 0) CR 1).length)
    (hr : right.length = (crossFn x (donorFn x best pop F 0) CR 1).length) :
    DE_get_new_individ_g x F CR best pop left right donorFn crossFn =
      bounds_control (crossFn x (donorFn x best pop F 0) CR 1) left right := by
  have h := C07_src_bounds_control (crossFn x (donorFn x best pop F 0) CR 1) left right hl hr
  simp only [DE_get_new_individ_g, h]
  simp

/-- C07 on the translated trial: inside the box, and equal to the crossover result wherever that was inside -/
theorem C07_src_de_trial_in_box (x : List Int) (F CR : Int) (best : List Int) (pop : List (List Int)) (left right : List Int)
    (donorFn : List Int → List Int → List (List Int) → Int → Nat → List Int)
    (crossFn : List Int → List Int → Int → Nat → List Int)
    (hl : left.length = (crossFn x (donorFn x best pop F 0) CR 1).length)
    (hr : right.length = (crossFn x (donorFn x best pop F 0) CR 1).length)
    (hbox : ∀ i, i < left.length → left.getD i 0 ≤ right.getD i 0) :
    ∃ y, DE_get_new_individ_g x F CR best pop left right donorFn crossFn = some y ∧ y.length = left.length ∧
      ∀ i, i < left.length → left.getD i 0 ≤ y.getD i 0 ∧ y.getD i 0 ≤ right.getD i 0 ∧
        (left.getD i 0 ≤ (crossFn x (donorFn x best pop F 0) CR 1).getD i 0 →
         (crossFn x (donorFn x best pop F 0) CR 1).getD i 0 ≤ right.getD i 0 →
         y.getD i 0 = (crossFn x (donorFn x best pop F 0) CR 1).getD i 0) := by
  rw [C07_src_de_trial x F CR best pop left right donorFn crossFn hl hr]
  obtain ⟨y, h1, h2, h3⟩ := C07_src_bounds_control_in_box _ left right hl hr (by rw [← hl]; exact hbox)
  exact ⟨y, h1, by rw [h2, hl], by rw [hl]; exact h3⟩

/-- SHADE's trial: donor from (parent, population, p-best indices, F, population ∪ archive), crossed with the parent
    under CR (parent first), repaired with the PARENT as the reference point of the midpoint rule -/
theorem C07_src_shade_trial (x : List Int) (F CR : Int) (pop : List (List Int)) (pbest : List Int) (arch : List (List Int))
    (left right : List Int)
    (donorFn : List Int → List (List Int) → List Int → Int → List (List Int) → Nat → List Int)
    (crossFn : List Int → List Int → Int → Nat → List Int)
    (repairFn : List Int → List Int → List Int → List Int → Nat → List Int) :
    SHADE_get_new_individ_g x F CR pop pbest arch left right donorFn crossFn repairFn =
      some (repairFn (crossFn x (donorFn x pop pbest F arch 0) CR 1) x left right 2) := by
  simp [SHADE_get_new_individ_g]

end TFV.SrcTie
