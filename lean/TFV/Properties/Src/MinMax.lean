/-
  C11 — source tie for `minmax_scale` (`utils/transformations.py`) as re-translated from /repo on every run
  (harness/extract/np2lean.py; floats read as rationals): on every non-empty vector it is `Select.minmax` of the model,
  for which `C11_minmax` proves the range [0, 1] and "all ones when constant".
-/
import TFV.Model.NpQ
import TFV.Model.Select
import TFV.Generated.Src.Select_minmax_scale

namespace TFV.SrcTie
open TFV.Generated.Src TFV.Select TFV

theorem C11_src_minmax_scale (d : List Rat) (hne : d ≠ []) : Select_minmax_scale d = some (minmax d) := by
  cases d with
  | nil => exact absurd rfl hne
  | cons x xs =>
    have hmx : NpQ.vmax (x :: xs) = some (listMax (x :: xs)) := rfl
    have hmn : NpQ.vmin (x :: xs) = some (listMin (x :: xs)) := rfl
    unfold Select_minmax_scale
    simp only []
    rw [hmx]
    simp only [bind, Option.bind]
    rw [hmn]
    simp only [pure, minmax, List.map_map]
    by_cases h : listMax (x :: xs) = listMin (x :: xs)
    · simp only [h, if_true]
    · simp only [h, if_false]
      rfl

/-- the empty vector is rejected (numpy raises on `max` of an empty array) -/
theorem C11_src_minmax_scale_empty : Select_minmax_scale [] = none := rfl

example : Select_minmax_scale [2, 5, 10, 8, 3] = some [0, 3/8, 1, 3/4, 1/8] := by decide +kernel

end TFV.SrcTie
