/- Source tie for C16: `EvolutionaryAlgorithm._get_n_jobs` as translated from /repo on this run
   equals the model `Split.normJobs` the C16 theorems are about. -/
import TFV.Generated.Src.get_n_jobs
import TFV.Model.Split
import TFV.Lemmas.Src.GetNJobs

namespace TFV.SrcTie
open TFV.Generated.Src

theorem C16_src_get_n_jobs (n : Int) (pop cpu : Nat) (hpop : 1 ≤ pop) :
    get_n_jobs n (pop : Int) (cpu : Int) = (Split.normJobs n cpu pop).map Int.ofNat :=
  src_get_n_jobs n pop cpu hpop

end TFV.SrcTie
