/- Source tie for C16: `EvolutionaryAlgorithm._get_n_jobs` as translated from /repo on this run
   equals the model `Split.normJobs` the C16 theorems are about. -/
import TFV.Generated.Src.get_n_jobs
import TFV.Model.Split
import TFV.Lemmas.Src.GetNJobs
import TFV.Properties.Split

namespace TFV.SrcTie
open TFV.Generated.Src

theorem C16_src_get_n_jobs (n : Int) (pop cpu : Nat) (hpop : 1 ≤ pop) :
    get_n_jobs n (pop : Int) (cpu : Int) = (Split.normJobs n cpu pop).map Int.ofNat :=
  src_get_n_jobs n pop cpu hpop

/-- C16 on the translated `_get_n_jobs`: 0 is rejected, everything else lands in [1, pop_size] -/
theorem C16_src_get_n_jobs_range (n : Int) (pop cpu : Nat) (hpop : 1 ≤ pop) :
    (get_n_jobs n (pop : Int) (cpu : Int) = none ↔ n = 0) ∧
    (∀ k : Int, get_n_jobs n (pop : Int) (cpu : Int) = some k → 1 ≤ k ∧ k ≤ pop) := by
  rw [C16_src_get_n_jobs n pop cpu hpop]
  have h := Split.C16_normJobs n cpu pop hpop
  refine ⟨?_, ?_⟩
  · rw [Option.map_eq_none_iff]; exact h.1
  · intro k hk
    rw [Option.map_eq_some_iff] at hk
    obtain ⟨a, ha, rfl⟩ := hk
    have := h.2.1 a ha
    have h1 := this.1; have h2 := this.2
    show (1 : Int) ≤ (a : Int) ∧ (a : Int) ≤ (pop : Int)
    omega

end TFV.SrcTie
