/- Source tie for C06: `GeneticAlgorithm._get_new_individ_g` as translated from /repo on this run — the three operators
   looked up in the pools as `selFn`, `crossFn`, `mutFn` (each applied to the call's actual arguments and ordinal; the
   kernels they stand for are tied separately), the settings stored with them as parameters, the float expression
   `proba / len(offspring)` as `probaEff`.  The theorem fixes the WIRING of one offspring: the selection sees the
   scaled fitness and the ranks (in that order) with the pool's tour_size and quantity, the crossover gets the
   SELECTED rows of the population together with their own scaled fitness and ranks, the mutation gets the crossover's
   result; the population and fitness arrays are only read at the selected indices. -/
import TFV.Generated.Src.GA_get_new_individ_g

namespace TFV.SrcTie
open TFV.Generated.Src TFV

theorem C06_src_ga_offspring (scale rank : List Int) (pop : List (List Int))
    (selFn : List Int → List Int → Int → Int → Nat → List Int)
    (crossFn : List (List Int) → List Int → List Int → Nat → List Int) (mutFn : List Int → Int → Nat → List Int)
    (probaEff tour quantity proba : Int) (isConst : Bool)
    (hp : Imp.allInbM pop (selFn scale rank tour quantity 0) = true)
    (hs : Imp.allInb scale (selFn scale rank tour quantity 0) = true)
    (hr : Imp.allInb rank (selFn scale rank tour quantity 0) = true) :
    GA_get_new_individ_g scale rank pop selFn crossFn mutFn probaEff tour quantity proba isConst =
      some (mutFn (crossFn (Imp.gatherM pop (selFn scale rank tour quantity 0))
                           (Imp.gather scale (selFn scale rank tour quantity 0))
                           (Imp.gather rank (selFn scale rank tour quantity 0)) 1) probaEff 2) := by
  simp [GA_get_new_individ_g, hp, hs, hr]

/-- an index returned by the selection that is outside the population makes the step fail rather than read elsewhere -/
theorem C06_src_ga_offspring_oob (scale rank : List Int) (pop : List (List Int))
    (selFn : List Int → List Int → Int → Int → Nat → List Int)
    (crossFn : List (List Int) → List Int → List Int → Nat → List Int) (mutFn : List Int → Int → Nat → List Int)
    (probaEff tour quantity proba : Int) (isConst : Bool)
    (hp : Imp.allInbM pop (selFn scale rank tour quantity 0) = false) :
    GA_get_new_individ_g scale rank pop selFn crossFn mutFn probaEff tour quantity proba isConst = none := by
  simp [GA_get_new_individ_g, hp]

end TFV.SrcTie
