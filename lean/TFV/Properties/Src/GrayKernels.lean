/-
  C10 — source ties for the vectorised kernels of `utils/transformations.py`.
  `TFV/Generated/Src/{SG_bit_to_int, GC_gray_to_bit, GC_bit_to_gray, SG_decode, GC_decode}.lean` are
  re-translated from /repo on every run (harness/extract/np2lean.py); the theorems state that on every
  rectangular 0/1 array they compute, row by row, the list functions of `TFV.Model.Gray` that the C10
  theorems (`C10_bits_roundtrip`, `C10_gray_roundtrip`, `C10_injective`, ...) are about.
-/
import TFV.Lemmas.Src.GrayKernels
import TFV.Generated.Src.SG_bit_to_int
import TFV.Generated.Src.GC_gray_to_bit
import TFV.Generated.Src.GC_bit_to_gray
import TFV.Generated.Src.SG_decode
import TFV.Generated.Src.GC_decode
import TFV.Generated.Src.SG_int_to_bit

namespace TFV.Properties.Src.GrayKernels
open TFV.Np TFV.Gray TFV.GrayK TFV.Generated.Src

/-- `GrayCode.gray_to_bit` = `grayToBin` on every row (any integer array: non-zero reads as True) -/
theorem C10_src_gray_to_bit (m : Mat) :
    GC_gray_to_bit m = some { ncols := m.ncols, rows := m.rows.map fun r => ofBools (grayToBin (toBools r)) } := by
  have h : (List.map (xorAccumRow false) m.rows) = m.rows.map fun r => ofBools (grayToBinAux false (toBools r)) :=
    List.map_congr_left (fun r _ => xorAccumRow_eq false r)
  simp only [GC_gray_to_bit, logicalXorAccumulate, grayToBin, pure, h]

/-- the result of `gray_to_bit` is again a rectangular 0/1 array of the same shape -/
theorem C10_src_gray_to_bit_shape (m : Mat) (hwf : m.WF) :
    ∃ b, GC_gray_to_bit m = some b ∧ b.WF ∧ Bits b ∧ b.ncols = m.ncols ∧ b.rows.length = m.rows.length := by
  refine ⟨_, C10_src_gray_to_bit m, ?_, ?_, rfl, by simp⟩
  · intro r hr
    simp only [List.mem_map] at hr
    obtain ⟨r0, h0, rfl⟩ := hr
    rw [ofBools_length, grayToBin_length, toBools_length]
    exact hwf r0 h0
  · intro r hr
    simp only [List.mem_map] at hr
    obtain ⟨r0, _, rfl⟩ := hr
    exact ofBools_bits _

/-- `SamplingGrid.bit_to_int` = `bitsToNat` (most significant bit first) on every row of a 0/1 array, with the
    default powers and with any supplied table whose first `shape[1]` entries are the powers of two
    (`self._powers = 2 ** arange(max bits)`) -/
theorem C10_src_bit_to_int (m : Mat) (hwf : m.WF) (hb : Bits m) (powers : Option (List Int))
    (hp : ∀ p, powers = some p → p.take m.ncols = pow2Arange m.ncols) :
    SG_bit_to_int m powers = some (m.rows.map fun r => ((bitsToNat (toBools r) : Nat) : Int)) := by
  have key : ∀ v : List Int, v.take m.ncols = pow2Arange m.ncols →
      Np.dot m (Np.flip (takeL m.ncols v)) = some (m.rows.map fun r => ((bitsToNat (toBools r) : Nat) : Int)) := by
    intro v hv
    unfold Np.dot
    have hl : (Np.flip (takeL m.ncols v)).length = m.ncols := by
      simp only [Np.flip, takeL, List.length_reverse, hv, pow2Arange_length]
    rw [if_pos hl]
    congr 1
    apply List.map_congr_left
    intro r hr
    have := dotRow_flip_pow2 r (hb r hr)
    rw [hwf r hr] at this
    simp only [takeL, hv]
    exact this
  cases powers with
  | none =>
    have h0 : (pow2Arange m.ncols).take m.ncols = pow2Arange m.ncols :=
      List.take_of_length_le (by rw [pow2Arange_length])
    have := key (pow2Arange m.ncols) h0
    simp [SG_bit_to_int, this]
  | some p =>
    have := key p (hp p rfl)
    simp [SG_bit_to_int, this]

/-- `GrayCode.bit_to_gray` = `binToGray` on every row of a 0/1 array with at least one column -/
theorem C10_src_bit_to_gray (m : Mat) (hwf : m.WF) (hb : Bits m) (hn : 0 < m.ncols) :
    GC_bit_to_gray m = some { ncols := m.ncols, rows := m.rows.map fun r => ofBools (binToGray (toBools r)) } := by
  have hrow : ∀ r ∈ m.rows, r.take 1 ++ xorRow (r.take (m.ncols - 1)) (r.drop 1) = ofBools (binToGray (toBools r)) := by
    intro r hr
    have hl := hwf r hr
    have hbits := hb r hr
    cases r with
    | nil => simp at hl; omega
    | cons x xs =>
      have hxs : m.ncols - 1 = xs.length := by simp at hl; omega
      rw [hxs, List.drop_succ_cons, List.drop_zero, xorRow_shift]
      simp only [List.take_succ_cons, List.take_zero, toBools, List.map_cons, binToGray, binToGrayAux, ofBools, Bool.false_bne,
        List.cons_append, List.nil_append]
      rw [b2i_truthy x (hbits x (by simp))]
  have hmap : (List.map (fun (p : List Int × List Int) => p.1 ++ p.2)
      ((m.rows.map fun r => r.take 1).zip
        (List.map (fun (p : List Int × List Int) => xorRow p.1 p.2)
          ((m.rows.map fun r => r.take (m.ncols - 1)).zip (m.rows.map fun r => r.drop 1))))) =
      m.rows.map fun r => ofBools (binToGray (toBools r)) := by
    rw [map_zip_map m.rows (fun r => r.take (m.ncols - 1)) (fun r => r.drop 1) (fun p => xorRow p.1 p.2)]
    rw [map_zip_map m.rows (fun r => r.take 1) (fun r => xorRow (r.take (m.ncols - 1)) (r.drop 1)) (fun p => p.1 ++ p.2)]
    exact List.map_congr_left hrow
  have hnc : 1 + (m.ncols - 1) = m.ncols := by omega
  simp only [GC_bit_to_gray, Np.logicalXor, colsDropLast, colsFrom1, Np.col0, Np.hstack, List.length_map, and_self, if_true, hn,
    pure, bind, Option.bind, hnc]
  simp only [hmap, List.length_zip, List.length_map, Nat.min_self, if_true]

/-- `bit_to_gray ∘ gray_to_bit` is the identity on rectangular 0/1 arrays with at least one column -/
theorem C10_src_gray_roundtrip (m : Mat) (hwf : m.WF) (hb : Bits m) (hn : 0 < m.ncols) :
    (GC_gray_to_bit m).bind GC_bit_to_gray = some m := by
  obtain ⟨b, hb1, hb2, hb3, hb4, _⟩ := C10_src_gray_to_bit_shape m hwf
  rw [hb1, Option.bind_some, C10_src_bit_to_gray b hb2 hb3 (by omega)]
  have hb' := C10_src_gray_to_bit m
  rw [hb1] at hb'
  injection hb' with hb'
  subst hb'
  simp only [List.map_map]
  have : (m.rows.map ((fun r => ofBools (binToGray (toBools r))) ∘ fun r => ofBools (grayToBin (toBools r)))) = m.rows := by
    conv => rhs; rw [← List.map_id m.rows]
    apply List.map_congr_left
    intro r hr
    simp only [Function.comp, toBools_ofBools, binToGray_grayToBin, id]
    exact ofBools_toBools r (hb r hr)
  rw [this]

/-- `gray_to_bit ∘ bit_to_gray` is the identity as well: the two codes are in bijection row by row -/
theorem C10_src_gray_roundtrip' (m : Mat) (hwf : m.WF) (hb : Bits m) (hn : 0 < m.ncols) :
    (GC_bit_to_gray m).bind GC_gray_to_bit = some m := by
  rw [C10_src_bit_to_gray m hwf hb hn, Option.bind_some, C10_src_gray_to_bit]
  simp only [List.map_map]
  have : (m.rows.map ((fun r => ofBools (grayToBin (toBools r))) ∘ fun r => ofBools (binToGray (toBools r)))) = m.rows := by
    conv => rhs; rw [← List.map_id m.rows]
    apply List.map_congr_left
    intro r hr
    simp only [Function.comp, toBools_ofBools, grayToBin_binToGray, id]
    exact ofBools_toBools r (hb r hr)
  rw [this]

/-- `SamplingGrid._decode`: the integer of every row is `code false` of the model (what `Var.decode` multiplies by `h`) -/
theorem C10_src_decode_bin (powers : List Int) (m : Mat) (hwf : m.WF) (hb : Bits m)
    (hp : powers.take m.ncols = pow2Arange m.ncols) :
    SG_decode powers m = some (m.rows.map fun r => ((code false (toBools r) : Nat) : Int)) := by
  have := C10_src_bit_to_int m hwf hb (some powers) (by intro p h; injection h with h; subst h; exact hp)
  simp [SG_decode, this, code]

/-- `GrayCode._decode`: the integer of every row is `code true` of the model -/
theorem C10_src_decode_gray (powers : List Int) (m : Mat) (hwf : m.WF)
    (hp : powers.take m.ncols = pow2Arange m.ncols) :
    GC_decode powers m = some (m.rows.map fun r => ((code true (toBools r) : Nat) : Int)) := by
  obtain ⟨b, hb1, hb2, hb3, hb4, _⟩ := C10_src_gray_to_bit_shape m hwf
  have hb' := C10_src_gray_to_bit m
  rw [hb1] at hb'
  injection hb' with hb'
  have := C10_src_bit_to_int b hb2 hb3 (some powers) (by intro p h; injection h with h; subst h; rw [hb4]; exact hp)
  subst hb'
  simp only [GC_decode, hb1, this, bind, Option.bind, pure, List.map_map]
  congr 1
  apply List.map_congr_left
  intro r _
  simp only [Function.comp, toBools_ofBools, code, if_true]

/-- `SamplingGrid.int_to_bit` with a given width `w ≥ 1`: row `j` is `natToBits w` of code `j` (most significant bit first), for
    the default powers and for any table whose first `w` entries are the powers of two -/
theorem C10_src_int_to_bit (widthOf : List Int → Nat) (xs : List Nat) (w : Nat) (hw : 0 < w) (powers : Option (List Int))
    (hp : ∀ p, powers = some p → p.take w = pow2Arange w) :
    SG_int_to_bit widthOf (xs.map fun (n : Nat) => (n : Int)) powers (some w)
      = some { ncols := w, rows := xs.map fun n => ofBools (natToBits w n) } := by
  have key : ∀ v : List Int, v.take w = pow2Arange w →
      Np.assignAndPosCols (Np.empty (xs.map fun (n : Nat) => (n : Int)).length w) (xs.map fun (n : Nat) => (n : Int)) (Np.flip (takeL w v))
        = some { ncols := w, rows := xs.map fun n => ofBools (natToBits w n) } := by
    intro v hv
    have hl : (Np.flip (takeL w v)).length = w := by
      simp only [Np.flip, takeL, List.length_reverse, hv, pow2Arange_length]
    unfold Np.assignAndPosCols
    rw [if_neg (by rw [hl]; omega)]
    simp only [Np.empty, hl, List.length_replicate, List.length_map, Nat.le_refl, and_self, if_true]
    congr 2
    have hz := zip_replicate_map (List.replicate w (0 : Int)) (xs.map fun (n : Nat) => (n : Int))
      (fun (p : List Int × Int) => (Np.flip (takeL w v)).map (andPos p.2) ++ p.1.drop w)
    simp only [List.length_map] at hz
    rw [hz, List.map_map]
    apply List.map_congr_left
    intro n _
    simp only [Function.comp, takeL, hv, map_andPos_flip_pow2]
    rw [List.drop_of_length_le (by simp), List.append_nil]
  cases powers with
  | none =>
    have h0 : (pow2Arange w).take w = pow2Arange w := List.take_of_length_le (by rw [pow2Arange_length])
    have := key (pow2Arange w) h0
    simp only [List.length_map] at this
    simp [SG_int_to_bit, this]
  | some p =>
    have := key p (hp p rfl)
    simp only [List.length_map] at this
    simp [SG_int_to_bit, this]

/-- encode then decode at the level of the translated kernels: the integers come back (plain binary) -/
theorem C10_src_int_roundtrip (widthOf : List Int → Nat) (xs : List Nat) (w : Nat) (hw : 0 < w) (hx : ∀ n ∈ xs, n < 2 ^ w)
    (powers : List Int) (hp : powers.take w = pow2Arange w) :
    (SG_int_to_bit widthOf (xs.map fun (n : Nat) => (n : Int)) (some powers) (some w)).bind (SG_decode powers)
      = some (xs.map fun (n : Nat) => (n : Int)) := by
  rw [C10_src_int_to_bit widthOf xs w hw (some powers) (by intro p h; injection h with h; subst h; exact hp), Option.bind_some]
  rw [C10_src_decode_bin powers _ ?_ ?_ hp]
  · simp only [List.map_map]
    congr 1
    apply List.map_congr_left
    intro n hn
    simp only [Function.comp, toBools_ofBools, code, Bool.false_eq_true, if_false, bits_roundtrip w n (hx n hn)]
  · intro r hr
    simp only [List.mem_map] at hr
    obtain ⟨n, _, rfl⟩ := hr
    rw [ofBools_length, natToBits_length]
  · intro r hr
    simp only [List.mem_map] at hr
    obtain ⟨n, _, rfl⟩ := hr
    exact ofBools_bits _

/-- ... and through the Gray code: `int_to_bit`, `bit_to_gray`, then `GrayCode._decode` give the integers back -/
theorem C10_src_int_roundtrip_gray (widthOf : List Int → Nat) (xs : List Nat) (w : Nat) (hw : 0 < w) (hx : ∀ n ∈ xs, n < 2 ^ w)
    (powers : List Int) (hp : powers.take w = pow2Arange w) :
    ((SG_int_to_bit widthOf (xs.map fun (n : Nat) => (n : Int)) (some powers) (some w)).bind GC_bit_to_gray).bind (GC_decode powers)
      = some (xs.map fun (n : Nat) => (n : Int)) := by
  rw [C10_src_int_to_bit widthOf xs w hw (some powers) (by intro p h; injection h with h; subst h; exact hp), Option.bind_some]
  have hwf : ({ ncols := w, rows := xs.map fun n => ofBools (natToBits w n) } : Mat).WF := by
    intro r hr
    simp only [List.mem_map] at hr
    obtain ⟨n, _, rfl⟩ := hr
    rw [ofBools_length, natToBits_length]
  have hbits : Bits ({ ncols := w, rows := xs.map fun n => ofBools (natToBits w n) } : Mat) := by
    intro r hr
    simp only [List.mem_map] at hr
    obtain ⟨n, _, rfl⟩ := hr
    exact ofBools_bits _
  rw [C10_src_bit_to_gray _ hwf hbits hw, Option.bind_some]
  rw [C10_src_decode_gray powers _ ?_ hp]
  · simp only [List.map_map]
    congr 1
    apply List.map_congr_left
    intro n hn
    simp only [Function.comp, toBools_ofBools, code, if_true, grayToBin_binToGray, bits_roundtrip w n (hx n hn)]
  · intro r hr
    simp only [List.mem_map, List.map_map] at hr
    obtain ⟨n, _, rfl⟩ := hr
    simp only [Function.comp, ofBools_length, binToGray_length, toBools_length, natToBits_length]

/-- non-vacuity: a concrete 2 x 3 population, decoded by the translated kernels -/
example : GC_decode [1, 2, 4, 8] { ncols := 3, rows := [[1, 1, 0], [0, 1, 1]] } = some [4, 2]
    ∧ SG_decode [1, 2, 4, 8] { ncols := 3, rows := [[1, 1, 0], [0, 1, 1]] } = some [6, 3]
    ∧ GC_bit_to_gray { ncols := 3, rows := [[1, 0, 0], [0, 1, 0]] } = some { ncols := 3, rows := [[1, 1, 0], [0, 1, 1]] } := by
  decide

end TFV.Properties.Src.GrayKernels
