/-
  C12 — source tie for `max_axis` and `softmax_numba` (`utils/__init__.py`), the kernel behind activation code 5, as re-translated
  from /repo on every run (harness/extract/np2lean.py, branching mode with matrices over ℚ; `np.exp` is the function parameter
  `expo`; the two row loops are read as one primitive each).  On every array without empty rows each output row is the
  max-shifted softmax of the input row; hence, for a positive `expo`, every output row is positive and sums to 1
  (`C12_softmax` of the model) - the clause "softmax outputs are non-negative rows summing to 1" at the level of the source.
-/
import TFV.Model.NpQ
import TFV.Lemmas.Net
import TFV.Generated.Src.Net_max_axis
import TFV.Generated.Src.Net_softmax_numba
import TFV.Generated.Src.Net_multiactivation2d

namespace TFV.Properties.Src.SoftmaxKernel
open TFV.NpQ TFV.Generated.Src

/-- the maximum of a row (0 for the empty row, which the theorems exclude) -/
def rowMax : List Rat → Rat
  | [] => 0
  | x :: xs => xs.foldl max x

/-- the max-shifted softmax of one row, with the coded substitute 1 for a zero sum -/
def rowSoftmax (expo : Rat → Rat) (row : List Rat) : List Rat :=
  let ex := row.map fun a => expo (a - rowMax row)
  let s := ex.foldr (· + ·) 0
  ex.map fun a => a / (if s = 0 then 1 else s)

theorem zipWith_map_right {α β γ : Type} (g : α → β → γ) (f : α → β) (l : List α) :
    List.zipWith g l (l.map f) = l.map fun x => g x (f x) := by
  induction l with
  | nil => rfl
  | cons a as ih => simp [ih]

theorem zipWith_map_both {α β γ δ : Type} (g : β → γ → δ) (h : α → β) (k : α → γ) (l : List α) :
    List.zipWith g (l.map h) (l.map k) = l.map fun x => g (h x) (k x) := by
  induction l with
  | nil => rfl
  | cons a as ih => simp [ih]

/-- `max_axis`: one column holding the maximum of every row -/
theorem C12_src_max_axis (X : Mat) (hne : ∀ r ∈ X.rows, r ≠ []) :
    Net_max_axis X = some { ncols := 1, rows := X.rows.map fun row => [rowMax row] } := by
  have hall : X.rows.all (fun row => !row.isEmpty) = true := by
    rw [List.all_eq_true]
    intro r hr
    cases r with
    | nil => exact absurd rfl (hne _ hr)
    | cons _ _ => rfl
  unfold Net_max_axis
  simp only [rowMaxCol, zeroCol, List.length_map, hall, and_self, if_true, bind, Option.bind, pure]
  congr 2
  apply List.map_congr_left
  intro r _
  cases r <;> rfl

/-- `softmax_numba`: every output row is the max-shifted softmax of the input row -/
theorem C12_src_softmax_numba (expo : Rat → Rat) (X : Mat) (hne : ∀ r ∈ X.rows, r ≠ []) :
    Net_softmax_numba expo X = some { ncols := X.ncols, rows := X.rows.map (rowSoftmax expo) } := by
  unfold Net_softmax_numba
  rw [C12_src_max_axis X hne]
  simp only [bind, Option.bind, subCol, List.length_map, and_self, if_true, NpQ.map, sumRows, zeroToOne, divRows, pure, List.map_map]
  rw [zipWith_map_right]
  simp only [List.map_map]
  rw [zipWith_map_both]
  congr 2
  apply List.map_congr_left
  intro r _
  simp only [Function.comp, rowSoftmax, List.headD_cons, List.map_map]
  rfl

/-- ... hence, for a positive `expo`, every output row is positive and sums to 1 -/
theorem C12_src_softmax_rows (expo : Rat → Rat) (hpos : ∀ z, 0 < expo z) (X : Mat) (hne : ∀ r ∈ X.rows, r ≠ []) :
    ∃ out, Net_softmax_numba expo X = some out ∧ out.rows.length = X.rows.length ∧
      ∀ r ∈ out.rows, (∀ y ∈ r, 0 < y) ∧ r.sum = 1 := by
  refine ⟨_, C12_src_softmax_numba expo X hne, by simp, ?_⟩
  intro r hr
  simp only [List.mem_map] at hr
  obtain ⟨row, hrow, rfl⟩ := hr
  have hs := TFV.Net.softmax_simplex (fun z => expo (z - rowMax row)) (fun z => hpos _) row (hne row hrow)
  simp only at hs
  obtain ⟨h1, h2⟩ := hs
  have hsum : ((row.map fun a => expo (a - rowMax row)).foldr (· + ·) 0) = (row.map fun z => expo (z - rowMax row)).sum := rfl
  have hnz : (row.map fun z => expo (z - rowMax row)).sum ≠ 0 := by
    intro h0
    cases row with
    | nil => exact absurd rfl (hne _ hrow)
    | cons a as =>
      have := h1 (expo (a - rowMax (a :: as)) / (List.map (fun z => expo (z - rowMax (a :: as))) (a :: as)).sum) (by simp)
      rw [h0] at this
      simp at this
  unfold rowSoftmax
  simp only [hsum, hnz, if_false, List.map_map]
  exact ⟨h1, h2⟩

/-- the pointwise activation behind each of the codes 0 - 4 (`expo` = exp, `tanhf` = tanh) -/
def actOf (expo tanhf : Rat → Rat) : Nat → Rat → Rat
  | 0, a => 1 / (1 + expo (-a))                     -- sigmoid
  | 1, a => a * (if a > 0 then 1 else 0)            -- rectifier
  | 2, a => expo (-(a ^ 2))                         -- Gaussian
  | 3, a => tanhf a
  | _, a => a                                       -- 4: the identity

/-- `multiactivation2d`: the codes 0 - 4 apply their formula to every entry on its own (so a node's value depends on that node's
    pre-activation alone), code 5 is the softmax kernel, every other code is an error -/
theorem C12_src_multiactivation2d (expo tanhf : Rat → Rat) (X : Mat) (k : Nat) :
    Net_multiactivation2d expo tanhf X k =
      if k ≤ 4 then some (NpQ.map (actOf expo tanhf k) X)
      else if k = 5 then Net_softmax_numba expo X
      else none := by
  unfold Net_multiactivation2d
  match k with
  | 0 => simp [NpQ.map, actOf, List.map_map, Function.comp]
  | 1 => simp [NpQ.map, actOf]
  | 2 => simp [NpQ.map, actOf, List.map_map, Function.comp]
  | 3 => simp [NpQ.map, actOf]
  | 4 =>
    have hid : NpQ.map (actOf expo tanhf 4) X = X := by
      cases X with
      | mk nc rows =>
        simp only [NpQ.map, Mat.mk.injEq, true_and]
        conv => rhs; rw [← List.map_id rows]
        apply List.map_congr_left
        intro r _
        conv => rhs; rw [id, ← List.map_id r]
        apply List.map_congr_left
        intro a _
        rfl
    simp [hid]
  | 5 =>
    simp only [show ¬ (5 : Nat) ≤ 4 by omega, if_false, if_true, show (5:Nat) ≠ 0 by omega, show (5:Nat) ≠ 1 by omega, show (5:Nat) ≠ 2 by omega,
      show (5:Nat) ≠ 3 by omega, show (5:Nat) ≠ 4 by omega]
  | n + 6 =>
    have h1 : ¬ (n + 6 ≤ 4) := by omega
    have h2 : ¬ (n + 6 = 5) := by omega
    simp only [h1, h2, if_false, show n + 6 ≠ 0 by omega, show n + 6 ≠ 1 by omega, show n + 6 ≠ 2 by omega, show n + 6 ≠ 3 by omega,
      show n + 6 ≠ 4 by omega]

end TFV.Properties.Src.SoftmaxKernel
