/- Source tie for C07: the DE `binomial` crossover as translated from /repo on this run equals the
   model `BinOps.binomial` (the same definition `DE.binomial` instantiates), draws as streams. -/
import TFV.Generated.Src.binomial
import TFV.Model.BinOps
import TFV.Lemmas.Src.Binomial

namespace TFV.SrcTie
open TFV.Generated.Src

theorem C07_src_binomial (x m : List Int) (cr : Int) (us : List Int) (j : Nat) (rest : List Int)
    (hm : m.length = x.length) (hus : x.length ≤ us.length) :
    binomial x m cr us ((j : Int) :: rest) = some (BinOps.binomial x m (us.map fun u => decide (u < cr)) j) :=
  src_binomial x m cr us j rest hm hus

end TFV.SrcTie
