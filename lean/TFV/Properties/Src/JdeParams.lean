/-
  C15 — source tie for jDE's parameter regeneration, `jDE._get_mutate_F` and `jDE._get_mutate_CR`
  (`optimizers/_jde.py`), as re-translated from /repo on every run (harness/extract/np2lean.py; floats read as rationals,
  `uniform(0, 1, size=n)` = the function parameter `draw <ordinal of the call> n`).
  Position by position: an individual whose first draw is not below the rate keeps its parameter; the others receive
  `F_min + r·F_max` (F) resp. `r` (CR) for a value `r` of the second draw - hence, for draws in [0, 1) and `F_max ≥ 0`,
  a regenerated F lies in [F_min, F_min + F_max] and a regenerated CR in [0, 1).
-/
import TFV.Model.NpQ
import TFV.Generated.Src.jDE_get_mutate_F
import TFV.Generated.Src.jDE_get_mutate_CR
import Mathlib.Tactic.Linarith
import Mathlib.Data.Rat.Defs
import Mathlib.Algebra.Order.Ring.Rat

namespace TFV.Properties.Src.JdeParams
open TFV.NpQ TFV.Generated.Src

/-- what a masked assignment does, position by position -/
theorem scatterAux_spec (x : List Rat) (m : List Bool) (vals : List Rat)
    (hm : m.length = x.length) (hv : vals.length = countTrue m) :
    (scatterAux x m vals).length = x.length ∧
      ∀ p ∈ x.zip (m.zip (scatterAux x m vals)), (p.2.1 = false → p.2.2 = p.1) ∧ (p.2.1 = true → p.2.2 ∈ vals) := by
  induction x generalizing m vals with
  | nil =>
    cases m with
    | nil => simp [scatterAux]
    | cons b bs => simp at hm
  | cons a as ih =>
    cases m with
    | nil => simp at hm
    | cons b bs =>
      have hm' : bs.length = as.length := by simpa using hm
      cases b with
      | false =>
        have hv' : vals.length = countTrue bs := by simpa [countTrue] using hv
        obtain ⟨h1, h2⟩ := ih bs vals hm' hv'
        have hs : scatterAux (a :: as) (false :: bs) vals = a :: scatterAux as bs vals := by
          cases vals <;> rfl
        rw [hs]
        refine ⟨by simp [h1], ?_⟩
        intro p hp
        simp only [List.zip_cons_cons, List.mem_cons] at hp
        rcases hp with rfl | hp
        · simp
        · exact h2 p hp
      | true =>
        cases vals with
        | nil => simp [countTrue] at hv
        | cons v vs =>
          have hv' : vs.length = countTrue bs := by simpa [countTrue] using hv
          obtain ⟨h1, h2⟩ := ih bs vs hm' hv'
          have hs : scatterAux (a :: as) (true :: bs) (v :: vs) = v :: scatterAux as bs vs := rfl
          rw [hs]
          refine ⟨by simp [h1], ?_⟩
          intro p hp
          simp only [List.zip_cons_cons, List.mem_cons] at hp
          rcases hp with rfl | hp
          · simp
          · obtain ⟨k1, k2⟩ := h2 p hp
            exact ⟨k1, fun h => List.mem_cons_of_mem _ (k2 h)⟩

/-- `_get_mutate_F`: defined, as long as `_F`; kept where the first draw is not below `t_F`, `F_min + r·F_max` elsewhere -/
theorem C15_src_jde_mutate_F (draw : Nat → Nat → List Rat) (F : List Rat) (n : Nat) (t fmin fmax : Rat)
    (hn : F.length = n) (hd : ∀ k m, (draw k m).length = m) :
    ∃ out, jDE_get_mutate_F draw F n t fmin fmax = some out ∧ out.length = F.length ∧
      ∀ p ∈ F.zip ((ltMask (draw 0 n) t).zip out),
        (p.2.1 = false → p.2.2 = p.1) ∧
        (p.2.1 = true → ∃ r ∈ draw 1 (countTrue (ltMask (draw 0 n) t)), p.2.2 = fmin + r * fmax) := by
  have hm : (ltMask (draw 0 n) t).length = F.length := by simp [ltMask, hd, hn]
  have hv : (((draw 1 (countTrue (ltMask (draw 0 n) t))).map (fun a => a * fmax)).map (fun a => fmin + a)).length
      = countTrue (ltMask (draw 0 n) t) := by simp [hd]
  obtain ⟨h1, h2⟩ := scatterAux_spec F _ _ hm hv
  refine ⟨_, ?_, h1, ?_⟩
  · simp only [jDE_get_mutate_F, maskScatter, hm, hv, and_self, if_true, bind, Option.bind, pure]
  · intro p hp
    obtain ⟨k1, k2⟩ := h2 p hp
    refine ⟨k1, fun h => ?_⟩
    have := k2 h
    simp only [List.map_map, List.mem_map, Function.comp] at this
    obtain ⟨r, hr, he⟩ := this
    exact ⟨r, hr, he.symm⟩

/-- ... hence a regenerated F lies in [F_min, F_min + F_max] (draws in [0, 1), `F_max ≥ 0`) and the others are untouched -/
theorem C15_src_jde_mutate_F_range (draw : Nat → Nat → List Rat) (F : List Rat) (n : Nat) (t fmin fmax : Rat)
    (hn : F.length = n) (hd : ∀ k m, (draw k m).length = m) (hr : ∀ k m, ∀ r ∈ draw k m, 0 ≤ r ∧ r < 1) (hmax : 0 ≤ fmax) :
    ∃ out, jDE_get_mutate_F draw F n t fmin fmax = some out ∧ out.length = F.length ∧
      ∀ p ∈ F.zip out, p.2 = p.1 ∨ (fmin ≤ p.2 ∧ p.2 ≤ fmin + fmax) := by
  obtain ⟨out, h0, h1, h2⟩ := C15_src_jde_mutate_F draw F n t fmin fmax hn hd
  refine ⟨out, h0, h1, ?_⟩
  have hm : (ltMask (draw 0 n) t).length = F.length := by simp [ltMask, hd, hn]
  intro p hp
  -- the mask entry at the same position
  obtain ⟨i, hi, rfl⟩ := List.mem_iff_getElem.mp hp
  have hiF : i < F.length := by simp [List.length_zip] at hi; omega
  have hiO : i < out.length := by simp [List.length_zip] at hi; omega
  have hiM : i < (ltMask (draw 0 n) t).length := by omega
  have hq : (F[i], ((ltMask (draw 0 n) t)[i], out[i])) ∈ F.zip ((ltMask (draw 0 n) t).zip out) := by
    apply List.mem_iff_getElem.mpr
    refine ⟨i, by simp [List.length_zip]; omega, by simp⟩
  obtain ⟨k1, k2⟩ := h2 _ hq
  simp only [List.getElem_zip]
  cases hb : (ltMask (draw 0 n) t)[i] with
  | false => exact Or.inl (k1 hb)
  | true =>
    obtain ⟨r, hrm, he⟩ := k2 hb
    obtain ⟨r0, r1⟩ := hr _ _ r hrm
    right
    simp only at he
    rw [he]
    constructor
    · nlinarith [mul_nonneg r0 hmax]
    · nlinarith [mul_nonneg r0 hmax, mul_le_of_le_one_left hmax (le_of_lt r1)]

/-- `_get_mutate_CR`: kept where the first draw is not below `t_CR`, a value of the second draw elsewhere - in [0, 1) -/
theorem C15_src_jde_mutate_CR (draw : Nat → Nat → List Rat) (CR : List Rat) (n : Nat) (t : Rat)
    (hn : CR.length = n) (hd : ∀ k m, (draw k m).length = m) (hr : ∀ k m, ∀ r ∈ draw k m, 0 ≤ r ∧ r < 1) :
    ∃ out, jDE_get_mutate_CR draw CR n t = some out ∧ out.length = CR.length ∧
      ∀ p ∈ CR.zip ((ltMask (draw 0 n) t).zip out),
        (p.2.1 = false → p.2.2 = p.1) ∧ (p.2.1 = true → 0 ≤ p.2.2 ∧ p.2.2 < 1) := by
  have hm : (ltMask (draw 0 n) t).length = CR.length := by simp [ltMask, hd, hn]
  have hv : (draw 1 (countTrue (ltMask (draw 0 n) t))).length = countTrue (ltMask (draw 0 n) t) := hd _ _
  obtain ⟨h1, h2⟩ := scatterAux_spec CR _ _ hm hv
  refine ⟨_, ?_, h1, ?_⟩
  · simp only [jDE_get_mutate_CR, maskScatter, hm, hv, and_self, if_true, bind, Option.bind, pure]
  · intro p hp
    obtain ⟨k1, k2⟩ := h2 p hp
    exact ⟨k1, fun h => hr _ _ _ (k2 h)⟩

/-- non-vacuity: four individuals, rate 1/2 -/
example : jDE_get_mutate_F (fun k m => if k = 0 then [1/4, 3/4, 0, 1/2] else List.replicate m (1/2)) [5, 6, 7, 8] 4 (1/2) (1/10) (9/10)
    = some [11/20, 6, 11/20, 8] := by decide +kernel

end TFV.Properties.Src.JdeParams
