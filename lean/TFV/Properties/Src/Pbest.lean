/- Source tie for C07 / C11: `find_pbest_id` as translated from /repo on this run (the truncated float product `p * size` is
   the parameter `countRaw`): the result is the first `max(1, countRaw)` entries of the translated `argsort_k` — the model
   `Select.pbest`, i.e. indices of the best members of the CURRENT fitness vector. -/
import TFV.Generated.Src.find_pbest_id
import TFV.Properties.Src.Bsearch

namespace TFV.SrcTie
open TFV.Generated.Src TFV

theorem C07_src_find_pbest_id (vals : List Int) (countRaw : Nat) (hc : max 1 countRaw ≤ vals.length) :
    find_pbest_id vals (countRaw : Int) =
      some (((Select.argsortK vals (max 1 countRaw)).take (max 1 countRaw)).map Int.ofNat) := by
  have hk := C11_src_argsort_k vals (max 1 countRaw) hc
  have hm : max (1 : Int) (countRaw : Int) = ((max 1 countRaw : Nat) : Int) := by omega
  simp only [find_pbest_id, hm, hk]
  have hneg : ¬ (((max 1 countRaw : Nat) : Int) < 0) := by omega
  simp [hneg, Imp.slice, List.map_take]

/-- with `countRaw = ⌊pn·size/pd⌋` this is the model's `Select.pbest` -/
theorem C07_src_find_pbest_is_pbest (vals : List Int) (pn pd : Nat)
    (hc : Select.pbestCount vals.length pn pd ≤ vals.length) :
    find_pbest_id vals ((pn * vals.length / pd : Nat) : Int) = some ((Select.pbest vals pn pd).map Int.ofNat) := by
  have := C07_src_find_pbest_id vals (pn * vals.length / pd) (by simpa [Select.pbestCount] using hc)
  simpa [Select.pbest, Select.pbestCount] using this

end TFV.SrcTie
