/- Source tie for C08 / C09: `get_levels_tree_from_i` as translated from /repo on this run equals the
   model `Tree.levels` on every subterm position of every well-formed tree, and makes no
   out-of-range access and pops no empty stack there. -/
import TFV.Generated.Src.get_levels_tree_from_i
import TFV.Model.Tree
import TFV.Lemmas.Src.Levels
import TFV.Properties.Tree

namespace TFV.SrcTie
open TFV.Generated.Src TFV.Tree

theorem C08_src_get_levels (pre post : Flat) (t : RT) :
    get_levels_tree_from_i (pre.length : Int) ((arities (pre ++ flat t ++ post)).map Int.ofNat) =
      some ((levels pre.length (arities (pre ++ flat t ++ post))).map Int.ofNat) :=
  src_get_levels pre post t

/-- stronger: the translated kernel equals the model for EVERY arity array and origin (it stops
    exactly when the model's stack empties), so it never pops an empty stack or reads out of range -/
theorem C08_src_get_levels_any (origin : Nat) (ar : List Nat) :
    get_levels_tree_from_i (origin : Int) (ar.map Int.ofNat) = some ((levels origin ar).map Int.ofNat) :=
  src_get_levels_gen origin ar

/-- with C09_levels: on a subterm position the translated kernel lists the levels of that subterm -/
theorem C08_src_get_levels_subterm (pre post : Flat) (t : RT) :
    get_levels_tree_from_i (pre.length : Int) ((arities (pre ++ flat t ++ post)).map Int.ofNat) =
      some ((levelsRT 0 t).map Int.ofNat) := by
  rw [C08_src_get_levels, C09_levels]

end TFV.SrcTie
