/- Source tie for C14: `PDPGA._adapt` (inherited by PDPGP) as translated from /repo on this run (probability tables, operator
   arrays, the success flags and the memory of parent fitness values as identifiers; `_get_new_proba_pdp` and
   `_choice_operators` as function parameters of their actual arguments and the call's ordinal; `n_remembered` =
   `len(self._previous_fitness_i)`).  The wiring of one adaptation step:
   * when parent fitness values were remembered: the success flags are recomputed from them FIRST (so the updates see this
     generation's successes), each of the three tables is updated ONCE, from the operators of ITS OWN kind used in the
     generation just evaluated, with ITS OWN threshold, and the memory is emptied;
   * in EVERY call - with or without an update - the operators of the next generation are drawn, each from the current
     table of its own kind (finding F8: the unrepaired code never re-drew them). -/
import TFV.Generated.Src.PDPGA_adapt

namespace TFV.SrcTie
open TFV.Generated.Src TFV

/-- a generation with remembered parents: update, empty the memory, then draw from the UPDATED tables -/
theorem C14_src_pdpga_adapt_update (sp cp mp so co mo succ prev : Int)
    (newProbaFn : Int → Int → Int → Nat → Int) (choiceFn : Int → Nat → Int)
    (ts tc tm n flags empty : Int) (hn : n ≠ 0) :
    PDPGA_adapt [sp, cp, mp, so, co, mo, succ, prev] newProbaFn choiceFn ts tc tm n flags empty =
      some [newProbaFn sp so ts 0,
            newProbaFn cp co tc 1,
            newProbaFn mp mo tm 2,
            choiceFn (newProbaFn sp so ts 0) 3,
            choiceFn (newProbaFn cp co tc 1) 4,
            choiceFn (newProbaFn mp mo tm 2) 5,
            flags, empty] := by
  simp [PDPGA_adapt, Imp.geti, Imp.truthy, hn]

/-- nothing remembered (the first generation): the tables, the flags and the memory are left alone; the operators are drawn all the same -/
theorem C14_src_pdpga_adapt_first (sp cp mp so co mo succ prev : Int)
    (newProbaFn : Int → Int → Int → Nat → Int) (choiceFn : Int → Nat → Int)
    (ts tc tm flags empty : Int) :
    PDPGA_adapt [sp, cp, mp, so, co, mo, succ, prev] newProbaFn choiceFn ts tc tm 0 flags empty =
      some [sp, cp, mp, choiceFn sp 0, choiceFn cp 1, choiceFn mp 2, succ, prev] := by
  simp [PDPGA_adapt, Imp.geti, Imp.truthy]

end TFV.SrcTie
