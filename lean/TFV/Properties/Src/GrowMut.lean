/- Source tie for C08: the Python-level GP operator `growing_mutation` as translated from /repo on this run —
   the coin as the uniform draw `u` (mutate iff u < proba), the position as the `randint` draw `i`, the fresh
   tree as `grower budget` = the result of `Tree.growing_method(uniset, budget)` — equals `growMut` of the
   model, and the depth budget the source passes is `max(get_levels(i))` = the depth of the replaced
   subtree; so a grower that respects its budget cannot make the child deeper than the parent. -/
import TFV.Lemmas.Src.GrowMut
import TFV.Properties.Tree

namespace TFV.SrcTie
open TFV.Generated.Src TFV.Tree

theorem C08_src_growing_mutation (t : RT) (proba maxLevel u : Int) (urest : List Int) (i : Nat) (nrest : List Int)
    (grower : Int → List (List Int)) (g : Flat) (hi : i < (flat t).length)
    (hg : grower ((listMax (levels i (arities (flat t))) : Nat) : Int) = [symsI g, arsI g]) :
    growing_mutation (symsI (flat t)) (arsI (flat t)) proba maxLevel (u :: urest) ((i : Int) :: nrest) grower =
      some [symsI (if u < proba then growMut (flat t) i g else flat t),
            arsI (if u < proba then growMut (flat t) i g else flat t)] :=
  src_growing_mutation t proba maxLevel u urest i nrest grower g hi hg

/-- the budget handed to `growing_method` is the depth of the subtree that is replaced -/
theorem C08_src_growing_budget (t : RT) (i : Nat) (hi : i < (flat t).length) :
    listMax (levels i (arities (flat t))) = depth (subtree (flat t) i) := by
  obtain ⟨pre, post, sub, ha, rfl⟩ := context (flat t) (wfAux_flat_self t) i hi
  rw [ha, C09_levels, subtree_flat, C09_depth, listMax_levelsRT]
  simp

/-- C08 on the translated operator: with a grower that returns a well-formed tree within its budget, the
    child is a well-formed tree no deeper than the parent -/
theorem C08_src_growing_closed (arity : Nat → Nat) (t : RT) (hc : ConsistentRT arity t)
    (proba maxLevel u : Int) (urest : List Int) (i : Nat) (nrest : List Int)
    (grower : Int → List (List Int)) (g : Flat) (hi : i < (flat t).length)
    (hg : grower ((listMax (levels i (arities (flat t))) : Nat) : Int) = [symsI g, arsI g])
    (hwf : WF arity g) (hdg : depth g ≤ listMax (levels i (arities (flat t)))) :
    ∃ c, growing_mutation (symsI (flat t)) (arsI (flat t)) proba maxLevel (u :: urest) ((i : Int) :: nrest) grower =
        some [symsI c, arsI c] ∧ WF arity c ∧ depth c ≤ depth (flat t) := by
  refine ⟨_, C08_src_growing_mutation t proba maxLevel u urest i nrest grower g hi hg, ?_⟩
  rw [C08_src_growing_budget t i hi] at hdg
  have h := C08_growMut arity (flat t) g (wf_flat arity t hc) hwf i hi hdg
  by_cases hu : u < proba
  · simp only [hu, if_true]; exact h
  · simp only [hu, if_false]; exact ⟨wf_flat arity t hc, Nat.le_refl _⟩

end TFV.SrcTie
