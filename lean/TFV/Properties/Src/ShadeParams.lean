/- Source tie for C15: `SHADE._generate_F_CR` and `SHADE._update_u_F` as translated from /repo on this run (`randc01`,
   `randn01`, `lehmer_mean` as function parameters of their argument and the call's ordinal; their ranges are the
   C15 theorems about `Adapt.randc01` / `randn01` / `lehmer`).  Individual i's F and CR are generated from ONE drawn
   memory cell r_i — `randc01(H_F[r_i])`, `randn01(H_CR[r_i])` — with both memories read in range; a memory cell
   is rewritten with the Lehmer mean of the successful F's, and is a COPY of the old value when there were none. -/
import TFV.Generated.Src.SHADE_update_u_F
import TFV.Lemmas.Src.ShadeParams

namespace TFV.SrcTie
open TFV.Generated.Src TFV

theorem C15_src_shade_generate_F_CR (n : Nat) (Hsize : Int) (HF HCR : List Int) (rs : List Nat)
    (randc randn : Int → Nat → Int)
    (hlen : n ≤ rs.length) (hin : ∀ r ∈ rs, r < HF.length ∧ r < HCR.length) :
    SHADE_generate_F_CR (n : Int) Hsize HF HCR (rs.map Int.ofNat) randc randn =
      some [(List.range n).map (fun i => randc (HF.getD (rs.getD i 0) 0) (2 * i)),
            (List.range n).map (fun i => randn (HCR.getD (rs.getD i 0) 0) (2 * i + 1))] :=
  src_shade_generate n Hsize HF HCR rs randc randn hlen hin

theorem C15_src_shade_update_u_F (u : Int) (S : List Int) (lehmerFn : List Int → Nat → Int) :
    SHADE_update_u_F u S lehmerFn = some (if S = [] then u else lehmerFn S 0) := by
  cases S with
  | nil => simp [SHADE_update_u_F, Imp.truthy, Imp.leni]
  | cons a t =>
    have : Imp.truthy (Imp.leni (a :: t)) = true := by simp [Imp.truthy, Imp.leni]; omega
    simp [SHADE_update_u_F, this]

end TFV.SrcTie
