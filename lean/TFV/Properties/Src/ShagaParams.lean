/- Source tie for C15: `SHAGA._generate_MR_CR` as translated from /repo on this run (`self._randc`, `self._randn` as function
   parameters of their two arguments and the call's ordinal - they are themselves tied by `C15_src_shaga_randc` / `_randn`;
   `0.1 / self._str_len` and `0.1` are the scale identifiers).  Individual i's mutation rate and crossover rate are generated
   from ONE drawn memory cell r_i - `_randc(H_MR[r_i], 0.1/str_len)`, `_randn(H_CR[r_i], 0.1)` - with both memories read in
   range. -/
import TFV.Lemmas.Src.ShagaParams

namespace TFV.SrcTie
open TFV.Generated.Src TFV

theorem C15_src_shaga_generate_MR_CR (n : Nat) (Hsize : Int) (HMR HCR : List Int) (rs : List Nat)
    (randc randn : Int → Int → Nat → Int) (key scaleMR : Int)
    (hlen : n ≤ rs.length) (hin : ∀ r ∈ rs, r < HMR.length ∧ r < HCR.length) :
    SHAGA_generate_MR_CR (n : Int) Hsize HMR HCR key (rs.map Int.ofNat) randc randn scaleMR =
      some [(List.range n).map (fun i => randc (HMR.getD (rs.getD i 0) 0) scaleMR (2 * i)),
            (List.range n).map (fun i => randn (HCR.getD (rs.getD i 0) 0) key (2 * i + 1))] :=
  src_shaga_generate n Hsize HMR HCR rs randc randn key scaleMR hlen hin

end TFV.SrcTie
