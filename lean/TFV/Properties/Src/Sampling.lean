/- Source tie for C11: `sattolo_shuffle`, `random_sample`, `random_weighted_sample` as translated from
   /repo on this run equal the models `Select.sattolo`, `Select.sampleNoRepl` / `sampleRepl` (on the
   stream of candidate indices), with the draws as explicit streams, and make no out-of-range access. -/
import TFV.Generated.Src.sattolo_shuffle
import TFV.Generated.Src.random_sample
import TFV.Generated.Src.random_weighted_sample
import TFV.Model.Select
import TFV.Lemmas.Src.Sampling
import TFV.Properties.Select

namespace TFV.SrcTie
open TFV.Generated.Src

/-- `js` = the values of `np.int64(np.floor(random.random() * i))` for i = n-1, …, 1 (each in [0, i)) -/
theorem C11_src_sattolo_shuffle (arr : List Int) (js : List Nat)
    (hok : Select.sattoloOk (arr.length - 1) js = true) :
    sattolo_shuffle arr (js.map Int.ofNat) = some (Select.sattolo arr js) :=
  src_sattolo_shuffle arr js hok

/-- `ns` = the successive results of `np.random.randint(0, range_size)` -/
theorem C11_src_random_sample_norepl (rs : Int) (q : Nat) (ns r : List Nat)
    (h : Select.sampleNoRepl ns q [] = some r) :
    random_sample rs (q : Int) false (ns.map Int.ofNat) = some (r.map Int.ofNat) :=
  src_random_sample_norepl rs q ns r h

theorem C11_src_random_sample_repl (rs : Int) (q : Nat) (ns r : List Nat)
    (h : Select.sampleRepl ns q = some r) :
    random_sample rs (q : Int) true (ns.map Int.ofNat) = some (r.map Int.ofNat) :=
  src_random_sample_repl rs q ns r h

/-- the candidate indices `random_weighted_sample` examines: rolls that are exactly 0 while the total
    weight is positive are redrawn, every other roll is located by the binary search -/
def candidates (cum rolls : List Int) : List Nat :=
  (rolls.filter fun r => !(decide (r = 0) && decide (0 < cum.getLastD 0))).map fun r => Select.bsearch r cum

/-- `cum` = np.cumsum(weights), `rolls` = the successive values of `sumweights * random.random()` -/
theorem C11_src_random_weighted_sample_norepl (w cum rolls : List Int) (q : Nat) (r : List Nat)
    (hc : cum ≠ []) (h : Select.sampleNoRepl (candidates cum rolls) q [] = some r) :
    random_weighted_sample w (q : Int) false cum rolls = some (r.map Int.ofNat) :=
  src_random_weighted_sample_norepl w cum rolls q r hc h

theorem C11_src_random_weighted_sample_repl (w cum rolls : List Int) (q : Nat) (r : List Nat)
    (hc : cum ≠ []) (h : Select.sampleRepl (candidates cum rolls) q = some r) :
    random_weighted_sample w (q : Int) true cum rolls = some (r.map Int.ofNat) :=
  src_random_weighted_sample_repl w cum rolls q r hc h

/-! ### the C11 statements re-stated on the translated kernels -/

/-- the translated `sattolo_shuffle` returns a permutation of its input -/
theorem C11_src_sattolo_perm (arr : List Int) (js : List Nat) (hok : Select.sattoloOk (arr.length - 1) js = true) :
    ∃ r, sattolo_shuffle arr (js.map Int.ofNat) = some r ∧ r.Perm arr :=
  ⟨_, C11_src_sattolo_shuffle arr js hok, Select.C11_sattolo_perm arr js⟩

/-- the translated `random_sample(replace=False)`: `quantity` distinct indices below `range_size`, each one of
    the draws, with every array access in range -/
theorem C11_src_random_sample_distinct (rs : Int) (q n : Nat) (ns r : List Nat)
    (hd : ∀ d ∈ ns, d < n) (h : Select.sampleNoRepl ns q [] = some r) :
    random_sample rs (q : Int) false (ns.map Int.ofNat) = some (r.map Int.ofNat) ∧
    r.length = q ∧ r.Nodup ∧ (∀ x ∈ r, x < n) :=
  ⟨C11_src_random_sample_norepl rs q ns r h, (Select.C11_sampleNoRepl ns q n r hd h).1,
   (Select.C11_sampleNoRepl ns q n r hd h).2.1, (Select.C11_sampleNoRepl ns q n r hd h).2.2.1⟩

end TFV.SrcTie
