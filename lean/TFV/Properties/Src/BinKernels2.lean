/- Source tie for C06 (continued): `uniform_proportional_crossover`, `uniform_rank_crossover` and
   `empty_crossover` as translated from /repo on this run equal `BinOps.uniformX` (locus i from parent
   `choice[i]`; `wsampler w q replace k` = the result of the k-th `random_weighted_sample(w, q, replace)`
   call, so the theorems also say that the weights are the FITNESS / the RANK vector, that one index per
   locus is asked for, with replacement) and `BinOps.emptyX`. -/
import TFV.Lemmas.Src.BinKernels2

namespace TFV.SrcTie
open TFV.Generated.Src

theorem C06_src_uniform_proportional_crossover (ps : List (List Int)) (fit rank : List Int) (ch : List Nat)
    (hne : ps ≠ []) (hrows : ∀ r ∈ ps, r.length = (ps.headD []).length)
    (hlen : ch.length = (ps.headD []).length) (hch : ∀ c ∈ ch, c < ps.length)
    (wsampler : List Int → Int → Bool → Nat → List Int)
    (hsm : wsampler fit ((ps.headD []).length : Int) true 0 = ch.map Int.ofNat) :
    uniform_proportional_crossover ps fit rank wsampler = some (BinOps.uniformX ps ch) :=
  src_uniform_proportional_crossover ps fit rank ch hne hrows hlen hch wsampler hsm

theorem C06_src_uniform_rank_crossover (ps : List (List Int)) (fit rank : List Int) (ch : List Nat)
    (hne : ps ≠ []) (hrows : ∀ r ∈ ps, r.length = (ps.headD []).length)
    (hlen : ch.length = (ps.headD []).length) (hch : ∀ c ∈ ch, c < ps.length)
    (wsampler : List Int → Int → Bool → Nat → List Int)
    (hsm : wsampler rank ((ps.headD []).length : Int) true 0 = ch.map Int.ofNat) :
    uniform_rank_crossover ps fit rank wsampler = some (BinOps.uniformX ps ch) :=
  src_uniform_rank_crossover ps fit rank ch hne hrows hlen hch wsampler hsm

theorem C06_src_empty_crossover (a : List Int) (more : List (List Int)) (fit rank : List Int) :
    empty_crossover (a :: more) fit rank = some (BinOps.emptyX (a :: more)) :=
  src_empty_crossover a more fit rank

end TFV.SrcTie
