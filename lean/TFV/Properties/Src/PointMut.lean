/- Source tie for C08: the Python-level GP operator `point_mutation` as translated from /repo on this run —
   nodes as identifiers, `isinstance(node, FunctionalNode)` and `node._n_args` as functions `isF`, `nodeAr`
   on identifiers, the two draws of the universal set as `randF arity k` / `randT k` — equals `pointMut` of
   the model on EVERY node/arity array pair: exactly the node at the drawn position is replaced and the arity
   array is left alone.  The replacement is drawn for the arity recorded in the node object; on a tree whose
   arity array agrees with its nodes and a universal set that answers with the requested arity, the child is a
   well-formed tree of the same shape. -/
import TFV.Lemmas.Src.PointMut
import TFV.Properties.Tree

namespace TFV.SrcTie
open TFV.Generated.Src TFV.Tree

theorem C08_src_point_mutation (l : Flat) (proba maxLevel u : Int) (urest : List Int) (i : Nat) (nrest : List Int)
    (isF : Int → Bool) (nodeAr : Int → Int) (randF : Int → Nat → Int) (randT : Nat → Int) (newSym : Nat)
    (hi : i < l.length)
    (hnew : (if isF (((l.getD i (0, 0)).1 : Nat) : Int) then randF (nodeAr (((l.getD i (0, 0)).1 : Nat) : Int)) 0
             else randT 0) = (newSym : Int)) :
    point_mutation (symsI l) (arsI l) proba maxLevel (u :: urest) ((i : Int) :: nrest) isF nodeAr randF randT =
      some [symsI (if u < proba then pointMut l i newSym else l),
            arsI (if u < proba then pointMut l i newSym else l)] :=
  src_point_mutation l proba maxLevel u urest i nrest isF nodeAr randF randT newSym hi hnew

/-- C08 on the translated operator. `arity` is the arity of a symbol; the node objects agree with it
    (`nodeAr`, `isF`), the universal set answers `randF n` with a symbol of arity `n` and `randT` with a
    terminal.  Then the child is well-formed, has the parent's arity array and the parent's depth. -/
theorem C08_src_point_closed (arity : Nat → Nat) (l : Flat) (h : WF arity l)
    (proba maxLevel u : Int) (urest : List Int) (i : Nat) (nrest : List Int)
    (isF : Int → Bool) (nodeAr : Int → Int) (randF : Int → Nat → Int) (randT : Nat → Int) (newSym : Nat)
    (hi : i < l.length)
    (hnew : (if isF (((l.getD i (0, 0)).1 : Nat) : Int) then randF (nodeAr (((l.getD i (0, 0)).1 : Nat) : Int)) 0
             else randT 0) = (newSym : Int))
    (hAr : ∀ s : Nat, nodeAr (s : Int) = (arity s : Int))
    (hF : ∀ s : Nat, isF (s : Int) = decide (0 < arity s))
    (hrF : ∀ (n : Nat) (s : Nat), randF (n : Int) 0 = (s : Int) → arity s = n)
    (hrT : ∀ s : Nat, randT 0 = (s : Int) → arity s = 0) :
    ∃ c, point_mutation (symsI l) (arsI l) proba maxLevel (u :: urest) ((i : Int) :: nrest) isF nodeAr randF randT =
        some [symsI c, arsI c] ∧ WF arity c ∧ arities c = arities l ∧ depth c = depth l := by
  refine ⟨_, C08_src_point_mutation l proba maxLevel u urest i nrest isF nodeAr randF randT newSym hi hnew, ?_⟩
  by_cases hu : u < proba
  · simp only [hu, if_true]
    apply C08_pointMut arity l h i hi newSym
    have hmem : l.getD i (0, 0) ∈ l := by
      simp [List.getD_eq_getElem?_getD, hi]
    have hrec : (l.getD i (0, 0)).2 = arity (l.getD i (0, 0)).1 := h.2 _ hmem
    rw [hF, hAr] at hnew
    by_cases hpos : 0 < arity (l.getD i (0, 0)).1
    · simp only [hpos, decide_true, if_true] at hnew
      rw [hrec]; exact hrF _ _ hnew
    · simp only [hpos, decide_false, Bool.false_eq_true, if_false] at hnew
      rw [hrec, hrT _ hnew]; omega
  · simp only [hu, if_false]; exact ⟨h, trivial, trivial⟩

end TFV.SrcTie
