/- Source tie for C08 / C09: the Python-level `Tree` methods `subtree_id`, `subtree`, `concat` as
   translated from /repo on this run (a Tree value = its two parallel arrays: node identifiers and
   arities) equal the models `Tree.subtree` / `Tree.concat` at every subterm position of every
   well-formed tree — and hence splice exactly that subterm (C09_subtree, C09_concat). -/
import TFV.Lemmas.Src.TreeMethods
import TFV.Properties.Tree

namespace TFV.SrcTie
open TFV.Generated.Src TFV.Tree

theorem C09_src_tree_subtree_id (pre post : Flat) (t : RT) :
    Tree_subtree_id (symsI (pre ++ flat t ++ post)) (arsI (pre ++ flat t ++ post)) (pre.length : Int) =
      some [(pre.length : Int), ((pre.length + t.size : Nat) : Int)] :=
  src_tree_subtree_id pre post t

theorem C09_src_tree_subtree (pre post : Flat) (t : RT) :
    Tree_subtree (symsI (pre ++ flat t ++ post)) (arsI (pre ++ flat t ++ post)) (pre.length : Int) =
      some [symsI (subtree (pre ++ flat t ++ post) pre.length), arsI (subtree (pre ++ flat t ++ post) pre.length)] :=
  src_tree_subtree pre post t

theorem C09_src_tree_concat (pre post other : Flat) (t : RT) :
    Tree_concat (symsI (pre ++ flat t ++ post)) (arsI (pre ++ flat t ++ post)) (pre.length : Int) (symsI other) (arsI other) =
      some [symsI (concat (pre ++ flat t ++ post) pre.length other), arsI (concat (pre ++ flat t ++ post) pre.length other)] :=
  src_tree_concat pre post other t

/-- the translated `subtree` returns exactly the subterm, the translated `concat` replaces exactly it -/
theorem C09_src_tree_subtree_is_subterm (pre post : Flat) (t : RT) :
    Tree_subtree (symsI (pre ++ flat t ++ post)) (arsI (pre ++ flat t ++ post)) (pre.length : Int) =
      some [symsI (flat t), arsI (flat t)] := by
  rw [C09_src_tree_subtree, C09_subtree]

theorem C09_src_tree_concat_splices (pre post other : Flat) (t : RT) :
    Tree_concat (symsI (pre ++ flat t ++ post)) (arsI (pre ++ flat t ++ post)) (pre.length : Int) (symsI other) (arsI other) =
      some [symsI (pre ++ other ++ post), arsI (pre ++ other ++ post)] := by
  rw [C09_src_tree_concat, C09_concat]

end TFV.SrcTie
