/- Source tie for C09: `Tree._init_n_args` as translated from /repo on this run: the recorded arity array of a tree built without
   an explicit `n_args` is, position by position, the nodes' own `_n_args` - exactly the hypothesis under which `C09_src_tree_call`
   / `C09_src_tree_str` evaluate the tree denotationally. -/
import TFV.Generated.Src.Tree_init_n_args
import TFV.Lemmas.Src.ImpLemmas
import TFV.Lemmas.Src.Tournament

namespace TFV.SrcTie
open TFV.Generated.Src TFV TFV.Imp

theorem C09_src_init_n_args (nodes nargs : List Int) (nodeArity : Int → Int) :
    Tree_init_n_args nodes nargs nodeArity = some (nodes.map nodeArity) := by
  unfold Tree_init_n_args
  generalize hA : nodes.map nodeArity = A
  have hAlen : A.length = nodes.length := by simp [← hA]
  have hn : ((leni nodes) - 0).toNat = nodes.length := by simp [leni]
  have hn' : (leni nodes).toNat = nodes.length := by simp [leni]
  refine forRange_elim
    (P := fun k (s : Tree_init_n_args.S) => s.brk = false ∧ s.err = false ∧ s.dry = false ∧
      s.n_args = A.take k ++ List.replicate (nodes.length - k) 0)
    (Q := fun s => (if (s.err || s.dry) = true then none else some s.n_args) = some A)
    _ _ _ _ _ ?_ ?_ ?_
  · simp [hn']
  · intro k s hk ⟨hb, he, hd, hN⟩
    have hk' : k < nodes.length := by rw [hn] at hk; exact hk
    have lN : (A.take k ++ List.replicate (nodes.length - k) (0 : Int)).length = nodes.length := by
      simp only [List.length_append, List.length_take, List.length_replicate]; omega
    have i1 : inb (A.take k ++ List.replicate (nodes.length - k) (0 : Int)) (k : Int) = true := by
      simp only [inb, Bool.and_eq_true, decide_eq_true_eq, lN]; omega
    have hAk : A.getD k 0 = nodeArity (nodes.getD k 0) := by
      simp [← hA, List.getD_eq_getElem?_getD, hk']
    simp only [hb, he, hd, hN, Bool.false_eq_true, if_false, Int.zero_add, i1, Bool.not_true, Bool.or_false, geti_ofNat, seti_ofNat,
      true_and]
    rw [← hAk]
    exact take_replicate_set A nodes.length k hk' (by omega)
  · intro s ⟨_, he, hd, hN⟩
    rw [hn] at hN
    have tA : A.take nodes.length = A := by rw [← hAlen, List.take_length]
    simp [he, hd, hN, tA]

end TFV.SrcTie
