/- Source tie for C03: `EvolutionaryAlgorithm._get_aim` as translated from /repo on this run (float arithmetic read
   over the ring Int, `np.inf` a parameter): the threshold is `sign * optimal_value - termination_error_value`, or
   +inf when no optimal value is given.  Together with the translated `_termitation_check` (`fitness ≥ aim`) and
   `_get_fitness` (`fitness = sign * objective`): the aim rule fires exactly when the best objective so far is within
   the error of the optimal value ON THE CORRECT SIDE — `objective ≤ optimal + err` under minimisation (sign = -1),
   `objective ≥ optimal - err` under maximisation (sign = 1). -/
import TFV.Generated.Src.EA_get_aim
import TFV.Properties.Src.Engine

namespace TFV.SrcTie
open TFV.Generated.Src

theorem C03_src_get_aim (opt err sign inf : Int) :
    EA_get_aim opt err sign inf true = some (sign * opt - err) ∧ EA_get_aim opt err sign inf false = some inf := by
  simp [EA_get_aim]

/-- minimisation: the stored fitness is `-objective`, the aim `-optimal - err` -/
theorem C03_src_aim_rule_min (obj opt err counter noInc inf : Int) (hn : counter ≠ noInc) :
    ∃ aim, EA_get_aim opt err (-1) inf true = some aim ∧
      termination_check (-1 * obj) counter aim noInc = some (decide (obj ≤ opt + err)) := by
  refine ⟨_, (C03_src_get_aim opt err (-1) inf).1, ?_⟩
  rw [C03_src_termination_check]
  have h1 : decide (counter = noInc) = false := by simp [hn]
  have h2 : decide (-1 * opt - err ≤ -1 * obj) = decide (obj ≤ opt + err) := by
    by_cases h : obj ≤ opt + err
    · have : -1 * opt - err ≤ -1 * obj := by omega
      rw [decide_eq_true h, decide_eq_true this]
    · have : ¬ (-1 * opt - err ≤ -1 * obj) := by omega
      rw [decide_eq_false h, decide_eq_false this]
  rw [h1, h2]; simp

/-- maximisation: the stored fitness is the objective, the aim `optimal - err` -/
theorem C03_src_aim_rule_max (obj opt err counter noInc inf : Int) (hn : counter ≠ noInc) :
    ∃ aim, EA_get_aim opt err 1 inf true = some aim ∧
      termination_check (1 * obj) counter aim noInc = some (decide (opt - err ≤ obj)) := by
  refine ⟨_, (C03_src_get_aim opt err 1 inf).1, ?_⟩
  rw [C03_src_termination_check]
  have h1 : decide (counter = noInc) = false := by simp [hn]
  have h2 : decide (1 * opt - err ≤ 1 * obj) = decide (opt - err ≤ obj) := by
    by_cases h : opt - err ≤ obj
    · have : 1 * opt - err ≤ 1 * obj := by omega
      rw [decide_eq_true h, decide_eq_true this]
    · have : ¬ (1 * opt - err ≤ 1 * obj) := by omega
      rw [decide_eq_false h, decide_eq_false this]
  rw [h1, h2]; simp

end TFV.SrcTie
