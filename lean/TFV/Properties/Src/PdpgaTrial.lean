/- Source tie for C06 / C14: `PDPGA._get_new_individ_g` as translated from /repo on this run — as GA's offspring
   (selection on scaled fitness and ranks, crossover of the selected rows, mutation of its result), plus the success
   bookkeeping: exactly ONE value is remembered per offspring, the one `_choice_parent` picks among the RAW fitness of
   the selected parents (second row of the result = what `self._previous_fitness_i.append` appended). -/
import TFV.Generated.Src.PDPGA_get_new_individ_g
import TFV.Generated.Src.PDPGP_get_new_individ_g

namespace TFV.SrcTie
open TFV.Generated.Src TFV

theorem C14_src_pdpga_offspring (scale rank : List Int) (pop : List (List Int)) (fit : List Int)
    (selFn : List Int → List Int → Int → Int → Nat → List Int)
    (crossFn : List (List Int) → List Int → List Int → Nat → List Int) (mutFn : List Int → Int → Nat → List Int)
    (parentFn : List Int → Nat → Int)
    (probaEff tour quantity proba : Int) (isConst : Bool)
    (hf : Imp.allInb fit (selFn scale rank tour quantity 0) = true)
    (hp : Imp.allInbM pop (selFn scale rank tour quantity 0) = true)
    (hs : Imp.allInb scale (selFn scale rank tour quantity 0) = true)
    (hr : Imp.allInb rank (selFn scale rank tour quantity 0) = true) :
    PDPGA_get_new_individ_g scale rank pop fit selFn crossFn mutFn parentFn probaEff tour quantity proba isConst =
      some [mutFn (crossFn (Imp.gatherM pop (selFn scale rank tour quantity 0))
                           (Imp.gather scale (selFn scale rank tour quantity 0))
                           (Imp.gather rank (selFn scale rank tour quantity 0)) 2) probaEff 3,
            [parentFn (Imp.gather fit (selFn scale rank tour quantity 0)) 1]] := by
  simp [PDPGA_get_new_individ_g, hf, hp, hs, hr]

/-- PDPGP: the same wiring with trees as identifiers -/
theorem C14_src_pdpgp_offspring (scale rank pop fit : List Int) (maxLevel uniset : Int)
    (selFn : List Int → List Int → Int → Int → Nat → List Int)
    (crossFn : List Int → List Int → List Int → Int → Nat → Int) (mutFn : Int → Int → Int → Int → Nat → Int)
    (parentFn : List Int → Nat → Int)
    (probaEff tour quantity proba : Int) (isConst : Bool)
    (hf : Imp.allInb fit (selFn scale rank tour quantity 0) = true)
    (hp : Imp.allInb pop (selFn scale rank tour quantity 0) = true)
    (hs : Imp.allInb scale (selFn scale rank tour quantity 0) = true)
    (hr : Imp.allInb rank (selFn scale rank tour quantity 0) = true) :
    PDPGP_get_new_individ_g scale rank pop fit maxLevel uniset selFn crossFn mutFn parentFn probaEff tour quantity proba isConst =
      some [[mutFn (crossFn (Imp.gather pop (selFn scale rank tour quantity 0))
                            (Imp.gather scale (selFn scale rank tour quantity 0))
                            (Imp.gather rank (selFn scale rank tour quantity 0)) maxLevel 2) uniset probaEff maxLevel 3],
            [parentFn (Imp.gather fit (selFn scale rank tour quantity 0)) 1]] := by
  simp [PDPGP_get_new_individ_g, hf, hp, hs, hr]

end TFV.SrcTie
