/- Source tie for C02: the greedy replacement block at the end of `DifferentialEvolution._get_new_population` as translated
   from /repo on this run (suffix translation from `mask = ...` on; individuals as identifiers; the evaluated trials as
   parameters) is the slot-wise `EA.merge` of the model: ONE mask, computed from the OLD fitness vector
   (`trial_fit >= parent_fit`), decides genotype, phenotype and fitness of a slot together — so a slot always holds a
   consistent triple, is overwritten only by its own trial, and only when the trial is at least as good. -/
import TFV.Generated.Src.DE_greedy_replacement
import TFV.Generated.Src.jDE_greedy_replacement
import TFV.Model.EA
import TFV.Lemmas.EA

namespace TFV.SrcTie
open TFV.Generated.Src TFV

/-- the individuals of a population given as three parallel arrays -/
def inds : List Int → List Int → List Int → List (EA.Ind Int Int)
  | g :: gs, p :: ps, f :: fs => { g := g, ph := p, fit := f } :: inds gs ps fs
  | _, _, _ => []

theorem maskSet_merge (g ph fit tg tph tfit : List Int) (n : Nat)
    (h1 : g.length = n) (h2 : ph.length = n) (h3 : fit.length = n) (h4 : tg.length = n) (h5 : tph.length = n) (h6 : tfit.length = n) :
    Imp.maskSet g (Imp.maskGE tfit fit) tg = (EA.merge (inds g ph fit) (inds tg tph tfit)).map (·.g) ∧
    Imp.maskSet ph (Imp.maskGE tfit fit) tph = (EA.merge (inds g ph fit) (inds tg tph tfit)).map (·.ph) ∧
    Imp.maskSet fit (Imp.maskGE tfit fit) tfit = (EA.merge (inds g ph fit) (inds tg tph tfit)).map (·.fit) := by
  induction n generalizing g ph fit tg tph tfit with
  | zero =>
    cases g <;> cases ph <;> cases fit <;> cases tg <;> cases tph <;> cases tfit <;> simp_all [Imp.maskSet, Imp.maskGE, inds, EA.merge]
  | succ n ih =>
    cases g with | nil => simp at h1 | cons a g =>
    cases ph with | nil => simp at h2 | cons b ph =>
    cases fit with | nil => simp at h3 | cons c fit =>
    cases tg with | nil => simp at h4 | cons a' tg =>
    cases tph with | nil => simp at h5 | cons b' tph =>
    cases tfit with | nil => simp at h6 | cons c' tfit =>
    obtain ⟨i1, i2, i3⟩ := ih g ph fit tg tph tfit (by simpa using h1) (by simpa using h2) (by simpa using h3) (by simpa using h4) (by simpa using h5) (by simpa using h6)
    simp only [Imp.maskGE, List.zipWith_cons_cons] at i1 i2 i3 ⊢
    by_cases hc : c ≤ c'
    · simp [Imp.maskSet, inds, EA.merge, hc, i1, i2, i3]
    · simp [Imp.maskSet, inds, EA.merge, hc, i1, i2, i3]

theorem C02_src_de_greedy (g ph fit tg tph tfit : List Int) (n : Nat)
    (h1 : g.length = n) (h2 : ph.length = n) (h3 : fit.length = n) (h4 : tg.length = n) (h5 : tph.length = n) (h6 : tfit.length = n) :
    DE_greedy_replacement tg tph tfit g ph fit =
      some [(EA.merge (inds g ph fit) (inds tg tph tfit)).map (·.g),
            (EA.merge (inds g ph fit) (inds tg tph tfit)).map (·.ph),
            (EA.merge (inds g ph fit) (inds tg tph tfit)).map (·.fit)] := by
  obtain ⟨e1, e2, e3⟩ := maskSet_merge g ph fit tg tph tfit n h1 h2 h3 h4 h5 h6
  have lm : (Imp.maskGE tfit fit).length = n := by simp [Imp.maskGE, h3, h6]
  unfold DE_greedy_replacement
  simp only [Imp.leni, lm, h1, h2, h3, h4, h5, h6, e1, e2, e3]
  simp

/-- what the merged population holds in slot `i`: the whole trial when it is at least as good as the parent, otherwise
    the whole parent — never a mixture, and never a worse individual -/
theorem C02_src_de_greedy_slot (g ph fit tg tph tfit : List Int) (i : Nat) (p t : EA.Ind Int Int)
    (hp : (inds g ph fit)[i]? = some p) (ht : (inds tg tph tfit)[i]? = some t) :
    (EA.merge (inds g ph fit) (inds tg tph tfit))[i]? = some (if p.fit ≤ t.fit then t else p) ∧
    p.fit ≤ (if p.fit ≤ t.fit then t else p).fit := by
  refine ⟨EA.merge_getElem? _ _ i p t hp ht, ?_⟩
  split <;> omega

/-- entry `i` of `x[mask] = y[mask]` with `mask = tfit >= fit` -/
theorem maskSet_getD (x y fit tfit : List Int) (n i : Nat) (hi : i < n)
    (hx : x.length = n) (hy : y.length = n) (hf : fit.length = n) (ht : tfit.length = n) :
    (Imp.maskSet x (Imp.maskGE tfit fit) y).getD i 0 = if fit.getD i 0 ≤ tfit.getD i 0 then y.getD i 0 else x.getD i 0 := by
  induction n generalizing x y fit tfit i with
  | zero => omega
  | succ n ih =>
    cases x with | nil => simp at hx | cons a x =>
    cases y with | nil => simp at hy | cons b y =>
    cases fit with | nil => simp at hf | cons c fit =>
    cases tfit with | nil => simp at ht | cons d tfit =>
    cases i with
    | zero =>
      by_cases h : c ≤ d <;> simp [Imp.maskSet, Imp.maskGE, h]
    | succ i =>
      have := ih x y fit tfit i (by omega) (by simpa using hx) (by simpa using hy) (by simpa using hf) (by simpa using ht)
      simpa [Imp.maskSet, Imp.maskGE] using this

theorem maskSet_length (x m y : List Int) : (Imp.maskSet x m y).length = x.length := by
  induction x generalizing m y with
  | nil => cases m <;> cases y <;> simp [Imp.maskSet]
  | cons a x ih => cases m <;> cases y <;> simp [Imp.maskSet, ih]

/-- jDE: the same mask also decides the self-adapted parameters — an individual's F and CR change exactly when its
    trial is accepted, and then to the values that produced that trial -/
theorem C15_src_jde_greedy (g ph fit F CR tg tph tfit mF mCR : List Int) (n : Nat)
    (h1 : g.length = n) (h2 : ph.length = n) (h3 : fit.length = n) (h4 : tg.length = n) (h5 : tph.length = n) (h6 : tfit.length = n)
    (h7 : F.length = n) (h8 : CR.length = n) (h9 : mF.length = n) (h10 : mCR.length = n) :
    jDE_greedy_replacement tg tph tfit mF mCR g ph fit F CR =
      some [(EA.merge (inds g ph fit) (inds tg tph tfit)).map (·.g),
            (EA.merge (inds g ph fit) (inds tg tph tfit)).map (·.ph),
            (EA.merge (inds g ph fit) (inds tg tph tfit)).map (·.fit),
            Imp.maskSet F (Imp.maskGE tfit fit) mF, Imp.maskSet CR (Imp.maskGE tfit fit) mCR] ∧
    ∀ i, i < n →
      (Imp.maskSet F (Imp.maskGE tfit fit) mF).getD i 0 = (if fit.getD i 0 ≤ tfit.getD i 0 then mF.getD i 0 else F.getD i 0) ∧
      (Imp.maskSet CR (Imp.maskGE tfit fit) mCR).getD i 0 = (if fit.getD i 0 ≤ tfit.getD i 0 then mCR.getD i 0 else CR.getD i 0) := by
  obtain ⟨e1, e2, e3⟩ := maskSet_merge g ph fit tg tph tfit n h1 h2 h3 h4 h5 h6
  have lm : (Imp.maskGE tfit fit).length = n := by simp [Imp.maskGE, h3, h6]
  refine ⟨?_, fun i hi => ⟨maskSet_getD F mF fit tfit n i hi h7 h9 h3 h6, maskSet_getD CR mCR fit tfit n i hi h8 h10 h3 h6⟩⟩
  unfold jDE_greedy_replacement
  simp only [Imp.leni, lm, h1, h2, h3, h4, h5, h6, h7, h8, h9, h10, e1, e2, e3]
  simp

end TFV.SrcTie
