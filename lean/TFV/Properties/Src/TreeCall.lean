/- Source tie for C09: `Tree.__call__` and `Tree.__str__` as translated from /repo on this run (the node's
   class test, its `_value` call / formatting, its `_n_args` attribute and its terminal value / name as function
   parameters of the node identifier).  On the prefix encoding `flat t` of ANY rose tree `t` whose nodes carry
   their recorded arity as `_n_args`, the reversed stack pass never pops from an empty list, never misses
   `pack[0]`, and returns the denotational value `evalRT` of `t` under the interpretation "apply the function
   symbol to its arguments in order, or read the terminal". -/
import TFV.Lemmas.Src.TreeCall

namespace TFV.SrcTie
open TFV.Generated.Src TFV TFV.Tree

/-- `tree()` = the value of the expression the tree denotes -/
theorem C09_src_tree_call (t : RT) (isF : Int → Bool) (applyFn : Int → List Int → Int)
    (nodeArity valueOf : Int → Int)
    (hc : ∀ p ∈ flat t, nodeArity ((p.1 : Nat) : Int) = ((p.2 : Nat) : Int)) :
    Tree_call ((flat t).map fun p => ((p.1 : Nat) : Int)) ((flat t).map fun p => ((p.2 : Nat) : Int))
        isF applyFn nodeArity valueOf
      = some (evalRT (fun s args =>
          if isF ((s : Nat) : Int) then applyFn ((s : Nat) : Int) args else valueOf ((s : Nat) : Int)) t) :=
  src_tree_call_flat t _ isF applyFn nodeArity valueOf hc

/-- `str(tree)` = the formatted expression the tree denotes -/
theorem C09_src_tree_str (t : RT) (isF : Int → Bool) (writeFn : Int → List Int → Int)
    (nodeArity nameOf : Int → Int)
    (hc : ∀ p ∈ flat t, nodeArity ((p.1 : Nat) : Int) = ((p.2 : Nat) : Int)) :
    Tree_str ((flat t).map fun p => ((p.1 : Nat) : Int)) ((flat t).map fun p => ((p.2 : Nat) : Int))
        isF writeFn nodeArity nameOf
      = some (evalRT (fun s args =>
          if isF ((s : Nat) : Int) then writeFn ((s : Nat) : Int) args else nameOf ((s : Nat) : Int)) t) :=
  src_tree_str_flat t _ isF writeFn nodeArity nameOf hc

/-- on ANY node array on which no pop underflows, the call returns the bottom `pack[0]` of the list-based
    stack run (and `none` when the array is empty) -/
theorem C09_src_tree_call_run (nodes nargs : List Int) (isF : Int → Bool)
    (applyFn : Int → List Int → Int) (nodeArity valueOf : Int → Int)
    (hok : cok isF applyFn nodeArity valueOf nodes []) :
    Tree_call nodes nargs isF applyFn nodeArity valueOf =
      (crun isF applyFn nodeArity valueOf nodes []).reverse.head? :=
  src_tree_call_run nodes nargs isF applyFn nodeArity valueOf hok

/-- non-vacuity: the 3-node tree `f₁₀(x₂₀, x₃₀)` with `f₁₀ = sum + 1`, terminals read as 2·id -/
example :
    Tree_call [10, 20, 30] [2, 0, 0] (fun n => n == 10) (fun _ args => args.foldl (· + ·) 1)
      (fun n => if n == 10 then 2 else 0) (fun n => 2 * n) = some 101 := by decide

example :
    Tree_call ((flat (.node 10 [.node 20 [], .node 30 []])).map fun p => ((p.1 : Nat) : Int))
      ((flat (.node 10 [.node 20 [], .node 30 []])).map fun p => ((p.2 : Nat) : Int))
      (fun n => n == 10) (fun _ args => args.foldl (· + ·) 1)
      (fun n => if n == 10 then 2 else 0) (fun n => 2 * n) = some 101 :=
  (C09_src_tree_call (.node 10 [.node 20 [], .node 30 []]) _ _ _ _ (by decide)).trans (by decide)

/-- the order of the arguments: the first popped value is the first argument -/
example :
    Tree_call [10, 20, 30] [2, 0, 0] (fun n => n == 10) (fun _ args => args.getD 0 0 - args.getD 1 0)
      (fun n => if n == 10 then 2 else 0) (fun n => n) = some (-10) := by decide

/-- an under-supplied node sets `err`: the call does not return a value -/
example :
    Tree_call [10, 20] [2, 0] (fun n => n == 10) (fun _ args => args.foldl (· + ·) 1)
      (fun n => if n == 10 then 2 else 0) (fun n => n) = none := by decide

/-- `Tree.__str__` on the same 3-node tree (a formatting stand-in on integers) -/
example :
    Tree_str [10, 20, 30] [2, 0, 0] (fun n => n == 10)
      (fun n args => 1000 * n + 10 * args.getD 0 0 + args.getD 1 0)
      (fun n => if n == 10 then 2 else 0) (fun n => n) = some 10230 := by decide

end TFV.SrcTie
