/- Source tie for C07: `bounds_control` as translated from /repo on this run is the coordinate-wise
   clamp (the same definition as `DE.clamp`, here on the order keys the code compares). -/
import TFV.Generated.Src.bounds_control
import TFV.Model.DE
import TFV.Lemmas.Src.BoundsControl

namespace TFV.SrcTie
open TFV.Generated.Src

/-- `DE.clamp` on order keys -/
def clampI (l r x : Int) : Int := if x < l then l else if r < x then r else x

theorem C07_src_bounds_control (x l r : List Int) (hl : l.length = x.length) (hr : r.length = x.length) :
    bounds_control x l r = some ((List.range x.length).map fun i => clampI (l.getD i 0) (r.getD i 0) (x.getD i 0)) :=
  src_bounds_control x l r hl hr

/-- and `clampI` is `DE.clamp` read on integers -/
theorem C07_src_clamp_agrees (l r x : Int) : ((clampI l r x : Int) : Rat) = DE.clamp (l : Rat) (r : Rat) (x : Rat) :=
  src_clamp_agrees l r x

/-- C07 on the translated `bounds_control`: every coordinate of the result lies in its interval,
    coordinates already inside are unchanged, and no array is read out of range -/
theorem C07_src_bounds_control_in_box (x l r : List Int) (hl : l.length = x.length) (hr : r.length = x.length)
    (hbox : ∀ i, i < x.length → l.getD i 0 ≤ r.getD i 0) :
    ∃ y, bounds_control x l r = some y ∧ y.length = x.length ∧
      ∀ i, i < x.length → l.getD i 0 ≤ y.getD i 0 ∧ y.getD i 0 ≤ r.getD i 0 ∧
        (l.getD i 0 ≤ x.getD i 0 → x.getD i 0 ≤ r.getD i 0 → y.getD i 0 = x.getD i 0) := by
  refine ⟨_, C07_src_bounds_control x l r hl hr, by simp, ?_⟩
  intro i hi
  have hb := hbox i hi
  have hget : ((List.range x.length).map fun i => clampI (l.getD i 0) (r.getD i 0) (x.getD i 0)).getD i 0 =
      clampI (l.getD i 0) (r.getD i 0) (x.getD i 0) := by
    simp [List.getD_eq_getElem?_getD, hi]
  rw [hget]
  unfold clampI
  refine ⟨?_, ?_, ?_⟩ <;> split <;> (try split) <;> omega

end TFV.SrcTie
