/- Source tie for C08 / C09: `Tree.get_common_region` (one other tree) and the Python-level GP operator
   `one_point_crossoverGP` as translated from /repo on this run — the `randint` draw as `k` (a position in
   the common region), the coin as the uniform draw `u` — equal `commonRegion2` and `onePointX` of the model
   on every pair of well-formed parents; every array access and every call of a translated kernel or
   Tree method stays in range. -/
import TFV.Lemmas.Src.OnePointGP
import TFV.Properties.TreeCR

namespace TFV.SrcTie
open TFV.Generated.Src TFV.Tree

theorem C09_src_tree_get_common_region (t1 t2 : RT) :
    Tree_get_common_region (symsI (flat t1)) (arsI (flat t1)) (symsI (flat t2)) (arsI (flat t2)) =
      some (crRows (commonRegion2 (arities (flat t1)) (arities (flat t2)))) :=
  src_tree_get_common_region t1 t2

theorem C08_src_one_point_crossoverGP (ta tb : RT) (fit rank : List Int) (maxLevel key u : Int) (urest : List Int)
    (k : Nat) (nrest : List Int)
    (hk : k < (commonRegion2 (arities (flat ta)) (arities (flat tb))).c1.length) :
    one_point_crossoverGP (symsI (flat ta)) (arsI (flat ta)) (symsI (flat tb)) (arsI (flat tb)) fit rank maxLevel
        key (u :: urest) ((k : Int) :: nrest) =
      some [symsI (onePointX (flat ta) (flat tb) k (decide (u < key))),
            arsI (onePointX (flat ta) (flat tb) k (decide (u < key)))] :=
  src_one_point_crossoverGP ta tb fit rank maxLevel key u urest k nrest hk

/-- C08 on the translated operator: the child is a well-formed tree over the same universal set, no deeper
    than the deeper parent -/
theorem C08_src_one_point_closed (arity : Nat → Nat) (ta tb : RT) (hca : ConsistentRT arity ta) (hcb : ConsistentRT arity tb)
    (fit rank : List Int) (maxLevel key u : Int) (urest : List Int) (k : Nat) (nrest : List Int)
    (hk : k < (commonRegion2 (arities (flat ta)) (arities (flat tb))).c1.length) :
    ∃ c, one_point_crossoverGP (symsI (flat ta)) (arsI (flat ta)) (symsI (flat tb)) (arsI (flat tb)) fit rank maxLevel
        key (u :: urest) ((k : Int) :: nrest) = some [symsI c, arsI c] ∧
      WF arity c ∧ depth c ≤ max (depth (flat ta)) (depth (flat tb)) :=
  ⟨_, C08_src_one_point_crossoverGP ta tb fit rank maxLevel key u urest k nrest hk,
    C08_onePointX arity (flat ta) (flat tb) (wf_flat arity ta hca) (wf_flat arity tb hcb) k hk _⟩

end TFV.SrcTie
