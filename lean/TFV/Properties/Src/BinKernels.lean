/- Source tie for C06: the binary variation kernels `flip_mutation`, `binomialGA`,
   `one_point_crossover`, `two_point_crossover`, `uniform_crossover` as translated from /repo on this
   run equal the models of TFV.Model.BinOps, with the random draws as explicit streams
   (`us` = results of random.random() as order keys, `ns` = integer draws, `sampled` = the result of
   the `random_sample` call), and make no out-of-range access. -/
import TFV.Generated.Src.flip_mutation
import TFV.Generated.Src.binomialGA
import TFV.Generated.Src.one_point_crossover
import TFV.Generated.Src.two_point_crossover
import TFV.Generated.Src.uniform_crossover
import TFV.Model.BinOps
import TFV.Lemmas.Src.BinKernels
import TFV.Properties.BinOps

namespace TFV.SrcTie
open TFV.Generated.Src

theorem C06_src_flip_mutation (x : List Int) (p : Int) (us : List Int) (hus : x.length ≤ us.length) :
    flip_mutation x p us = some (BinOps.flip x (us.map fun u => decide (u < p))) :=
  src_flip_mutation x p us hus

theorem C06_src_binomialGA (x m : List Int) (cr : Int) (us : List Int) (j : Nat) (rest : List Int)
    (hm : m.length = x.length) (hus : x.length ≤ us.length) :
    binomialGA x m cr us ((j : Int) :: rest) = some (BinOps.binomial x m (us.map fun u => decide (u < cr)) j) :=
  src_binomialGA x m cr us j rest hm hus

theorem C06_src_one_point_crossover (a b : List Int) (more : List (List Int)) (fit rank : List Int)
    (cut : Nat) (srest : List Int) (key u : Int) (urest : List Int) (hab : b.length = a.length) :
    one_point_crossover (a :: b :: more) fit rank ((cut : Int) :: srest) key (u :: urest) =
      some (BinOps.onePoint (a :: b :: more) cut (decide (u < key))) :=
  src_one_point_crossover a b more fit rank cut srest key u urest hab

theorem C06_src_two_point_crossover (a b : List Int) (more : List (List Int)) (fit rank : List Int)
    (c0 c1 : Nat) (key u : Int) (urest : List Int) (hab : b.length = a.length) :
    two_point_crossover (a :: b :: more) fit rank [(c0 : Int), (c1 : Int)] key (u :: urest) =
      some (BinOps.twoPoint (a :: b :: more) c0 c1 (decide (u < key))) :=
  src_two_point_crossover a b more fit rank c0 c1 key u urest hab

theorem C06_src_uniform_crossover (ps : List (List Int)) (fit rank : List Int) (ch : List Nat)
    (hne : ps ≠ []) (hrows : ∀ r ∈ ps, r.length = (ps.headD []).length)
    (hlen : ch.length = (ps.headD []).length) (hch : ∀ c ∈ ch, c < ps.length) :
    uniform_crossover ps fit rank (ch.map Int.ofNat) = some (BinOps.uniformX ps ch) :=
  src_uniform_crossover ps fit rank ch hne hrows hlen hch

/-! ### the C06 statements re-stated on the translated kernels -/

/-- the translated `one_point_crossover` returns a prefix of one parent followed by the suffix of the
    other (both orientations), reading both parents only in range -/
theorem C06_src_one_point_prefix_suffix (a b : List Int) (fit rank : List Int) (cut : Nat) (srest : List Int)
    (key u : Int) (urest : List Int) (hab : b.length = a.length) :
    one_point_crossover [a, b] fit rank ((cut : Int) :: srest) key (u :: urest) =
      some (if u < key then a.take (cut + 1) ++ b.drop (cut + 1) else b.take (cut + 1) ++ a.drop (cut + 1)) := by
  rw [C06_src_one_point_crossover a b [] fit rank cut srest key u urest hab]
  have h := BinOps.C06_onePoint a b cut hab.symm
  by_cases hu : u < key
  · simp [hu, h.1]
  · simp [hu, h.2]

/-- the translated `flip_mutation` keeps a binary string binary and of the same length -/
theorem C06_src_flip_binary (x : List Int) (p : Int) (us : List Int) (hus : x.length ≤ us.length) (hb : BinOps.Binary x) :
    ∃ y, flip_mutation x p us = some y ∧ BinOps.Binary y ∧ y.length = x.length := by
  refine ⟨_, C06_src_flip_mutation x p us hus, ?_, ?_⟩
  · exact (BinOps.C06_flip x _ hb).2.1
  · exact (BinOps.C06_flip x _ hb).1

end TFV.SrcTie
