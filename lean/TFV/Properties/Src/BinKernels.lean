/- Source tie for C06: the binary variation kernels `flip_mutation`, `binomialGA`,
   `one_point_crossover`, `two_point_crossover`, `uniform_crossover` as translated from /repo on this
   run equal the models of TFV.Model.BinOps, with the random draws as explicit streams
   (`us` = results of random.random() as order keys, `ns` = integer draws, `sampler n q replace k` = the result of
   the k-th `random_sample(n, q, replace)` call, so the theorems also say which arguments the source passes:
   one cut point below the string length; two DISTINCT cut points (replace=False); one parent index per locus), and make no out-of-range access. -/
import TFV.Generated.Src.flip_mutation
import TFV.Generated.Src.binomialGA
import TFV.Generated.Src.one_point_crossover
import TFV.Generated.Src.two_point_crossover
import TFV.Generated.Src.uniform_crossover
import TFV.Model.BinOps
import TFV.Lemmas.Src.BinKernels
import TFV.Properties.BinOps
import TFV.Properties.Src.Sampling

namespace TFV.SrcTie
open TFV.Generated.Src

theorem C06_src_flip_mutation (x : List Int) (p : Int) (us : List Int) (hus : x.length ≤ us.length) :
    flip_mutation x p us = some (BinOps.flip x (us.map fun u => decide (u < p))) :=
  src_flip_mutation x p us hus

theorem C06_src_binomialGA (x m : List Int) (cr : Int) (us : List Int) (j : Nat) (rest : List Int)
    (hm : m.length = x.length) (hus : x.length ≤ us.length) :
    binomialGA x m cr us ((j : Int) :: rest) = some (BinOps.binomial x m (us.map fun u => decide (u < cr)) j) :=
  src_binomialGA x m cr us j rest hm hus

theorem C06_src_one_point_crossover (a b : List Int) (more : List (List Int)) (fit rank : List Int)
    (cut : Nat) (srest : List Int) (key u : Int) (urest : List Int) (hab : b.length = a.length)
    (sampler : Int → Int → Bool → Nat → List Int)
    (hsm : sampler (a.length : Int) 1 true 0 = (cut : Int) :: srest) :
    one_point_crossover (a :: b :: more) fit rank key (u :: urest) sampler =
      some (BinOps.onePoint (a :: b :: more) cut (decide (u < key))) :=
  src_one_point_crossover a b more fit rank cut srest key u urest hab sampler hsm

theorem C06_src_two_point_crossover (a b : List Int) (more : List (List Int)) (fit rank : List Int)
    (c0 c1 : Nat) (key u : Int) (urest : List Int) (hab : b.length = a.length)
    (sampler : Int → Int → Bool → Nat → List Int)
    (hsm : sampler (a.length : Int) 2 false 0 = [(c0 : Int), (c1 : Int)]) :
    two_point_crossover (a :: b :: more) fit rank key (u :: urest) sampler =
      some (BinOps.twoPoint (a :: b :: more) c0 c1 (decide (u < key))) :=
  src_two_point_crossover a b more fit rank c0 c1 key u urest hab sampler hsm

theorem C06_src_uniform_crossover (ps : List (List Int)) (fit rank : List Int) (ch : List Nat)
    (hne : ps ≠ []) (hrows : ∀ r ∈ ps, r.length = (ps.headD []).length)
    (hlen : ch.length = (ps.headD []).length) (hch : ∀ c ∈ ch, c < ps.length)
    (sampler : Int → Int → Bool → Nat → List Int)
    (hsm : sampler (fit.length : Int) ((ps.headD []).length : Int) true 0 = ch.map Int.ofNat) :
    uniform_crossover ps fit rank sampler = some (BinOps.uniformX ps ch) :=
  src_uniform_crossover ps fit rank ch hne hrows hlen hch sampler hsm

/-! ### the C06 statements re-stated on the translated kernels -/

/-- the translated `one_point_crossover` returns a prefix of one parent followed by the suffix of the
    other (both orientations), reading both parents only in range -/
theorem C06_src_one_point_prefix_suffix (a b : List Int) (fit rank : List Int) (cut : Nat) (srest : List Int)
    (key u : Int) (urest : List Int) (hab : b.length = a.length)
    (sampler : Int → Int → Bool → Nat → List Int)
    (hsm : sampler (a.length : Int) 1 true 0 = (cut : Int) :: srest) :
    one_point_crossover [a, b] fit rank key (u :: urest) sampler =
      some (if u < key then a.take (cut + 1) ++ b.drop (cut + 1) else b.take (cut + 1) ++ a.drop (cut + 1)) := by
  rw [C06_src_one_point_crossover a b [] fit rank cut srest key u urest hab sampler hsm]
  have h := BinOps.C06_onePoint a b cut hab.symm
  by_cases hu : u < key
  · simp [hu, h.1]
  · simp [hu, h.2]

/-- with `random_sample` as translated from the source: the two cut points of `two_point_crossover` are
    DISTINCT positions of the string -/
theorem C06_src_two_point_distinct (a b : List Int) (more : List (List Int)) (fit rank : List Int)
    (c0 c1 : Nat) (key u : Int) (urest : List Int) (hab : b.length = a.length)
    (sampler : Int → Int → Bool → Nat → List Int) (ns : List Nat)
    (hd : ∀ x ∈ ns, x < a.length) (hr : Select.sampleNoRepl ns 2 [] = some [c0, c1])
    (hs : random_sample (a.length : Int) ((2 : Nat) : Int) false (ns.map Int.ofNat) =
      some (sampler (a.length : Int) 2 false 0)) :
    two_point_crossover (a :: b :: more) fit rank key (u :: urest) sampler =
      some (BinOps.twoPoint (a :: b :: more) c0 c1 (decide (u < key))) ∧
    c0 ≠ c1 ∧ c0 < a.length ∧ c1 < a.length := by
  obtain ⟨he, -, hnd, hlt⟩ := C11_src_random_sample_distinct a.length 2 a.length ns [c0, c1] hd hr
  have hsm : sampler (a.length : Int) 2 false 0 = [(c0 : Int), (c1 : Int)] := by
    rw [he] at hs
    have := (Option.some.inj hs).symm
    simpa using this
  refine ⟨C06_src_two_point_crossover a b more fit rank c0 c1 key u urest hab sampler hsm, ?_,
    hlt c0 (by simp), hlt c1 (by simp)⟩
  intro h
  rw [h] at hnd
  simp at hnd

/-- the translated `flip_mutation` keeps a binary string binary and of the same length -/
theorem C06_src_flip_binary (x : List Int) (p : Int) (us : List Int) (hus : x.length ≤ us.length) (hb : BinOps.Binary x) :
    ∃ y, flip_mutation x p us = some y ∧ BinOps.Binary y ∧ y.length = x.length := by
  refine ⟨_, C06_src_flip_mutation x p us hus, ?_, ?_⟩
  · exact (BinOps.C06_flip x _ hb).2.1
  · exact (BinOps.C06_flip x _ hb).1

end TFV.SrcTie
