/- Source tie for C16: `EvolutionaryAlgorithm._split_population` as translated from /repo on this run — the float
   computation `np.linspace(start=0, stop=pop_size, num=n_jobs + 1, dtype=int64)` as `linspaceFn 0 pop_size (n_jobs+1) k`
   (so the theorem states WHICH points are asked for), the rest as code: the inner cut points `indexes[1:-1]` and
   `np.split` — equals the model `Split.split`; with C16_split (cut points from 0 to pop_size, strictly increasing) the
   chunks are non-empty, contiguous and cover the population exactly once. -/
import TFV.Generated.Src.EA_split_population
import TFV.Model.Split
import TFV.Properties.Split

namespace TFV.SrcTie
open TFV.Generated.Src TFV

theorem npSplitFrom_ofNat (a : List Int) (start : Nat) (is : List Nat) :
    Imp.npSplitFrom a start (is.map Int.ofNat) = Split.npSplitFrom a start is := by
  induction is generalizing start with
  | nil => rfl
  | cons i is ih => simp [Imp.npSplitFrom, Split.npSplitFrom, ih]

theorem slice_inner (cs : List Nat) :
    Imp.slice (cs.map Int.ofNat) 1 (Imp.leni (cs.map Int.ofNat) - 1) = (Split.inner cs).map Int.ofNat := by
  unfold Imp.slice Imp.leni Split.inner
  have h1 : ((((cs.map Int.ofNat).length : Nat) : Int) - 1).toNat = cs.length - 1 := by simp
  rw [h1, List.dropLast_eq_take, ← List.map_take, ← List.map_drop]
  congr 1
  simp only [Int.toNat_one, List.length_drop]
  rw [List.drop_take]

theorem C16_src_split_population (pop : List Int) (popSize nJobs : Int) (linspaceFn : Int → Int → Int → Nat → List Int)
    (cs : List Nat) (hcs : linspaceFn 0 popSize (nJobs + 1) 0 = cs.map Int.ofNat) :
    EA_split_population pop popSize nJobs linspaceFn = some (Split.split pop cs) := by
  simp only [EA_split_population, hcs, slice_inner, Imp.npSplit, npSplitFrom_ofNat]
  simp [Split.split, Split.npSplit]

/-- C16 on the translated method: for cut points that start at 0, end at the population size and are at least 1
    apart (C16_cuts / C16_linspace_gap), the chunks are non-empty, `n` many, and concatenate to the population -/
theorem C16_src_split_covers (pop : List Int) (nJobs : Nat) (linspaceFn : Int → Int → Int → Nat → List Int)
    (r : Nat → Rat) (hn : 1 ≤ nJobs) (hne : pop ≠ []) (h0 : r 0 = 0) (hlast : r nJobs = pop.length)
    (hgap : ∀ i, i < nJobs → r (i + 1) - r i ≥ 1)
    (hcs : linspaceFn 0 (pop.length : Int) ((nJobs : Int) + 1) 0 = (Split.cuts r nJobs).map Int.ofNat) :
    ∃ chunks, EA_split_population pop (pop.length : Int) (nJobs : Int) linspaceFn = some chunks ∧
      chunks.flatten = pop ∧ (∀ c ∈ chunks, c ≠ []) ∧ chunks.length = nJobs :=
  ⟨_, C16_src_split_population pop _ _ linspaceFn _ hcs, Split.C16_split pop r nJobs hn hne h0 hlast hgap⟩

end TFV.SrcTie
