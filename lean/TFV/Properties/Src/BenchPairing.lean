/-
  C20 — source tie for the column pairing at the head of `ExpandedScaffers_F6.f` and `F8F2.f` (`benchmarks/_optproblems.py`):
  `TFV/Generated/Src/Bench_Scaffer_indexes.lean` / `Bench_F8F2_indexes.lean` are re-translated from /repo on every run
  (harness/extract/np2lean.py: the `if x.shape[1] == 2 … else np.kron / np.insert / np.append` block as a function of D). For EVERY
  dimension D ≥ 2 the index vector, cut into consecutive pairs by `reshape(-1, 2)`, is the cyclic pairing
  (0,1), (1,2), …, (D-2,D-1), (D-1,0) that the model's `cyclicPairs` (and the CEC2005 definition of the expanded functions) prescribes.
-/
import TFV.Model.NpQ
import TFV.Model.Bench
import TFV.Generated.Src.Bench_Scaffer_indexes
import TFV.Generated.Src.Bench_F8F2_indexes

namespace TFV.Properties.Src.BenchPairing
open TFV.NpQ TFV.Bench TFV.Generated.Src

theorem pairs_aux (n : Nat) : ∀ a, pairsOf (a :: kron11 (List.range' (a + 1) n) ++ [a + n + 1, a + n + 1, 0])
    = (List.range' a (n + 1)).map (fun i => (i, i + 1)) ++ [(a + n + 1, 0)] := by
  induction n with
  | zero => intro a; simp [kron11, pairsOf, List.range']
  | succ n ih =>
    intro a
    have := ih (a + 1)
    simp only [List.range'_succ, kron11, List.cons_append, pairsOf, List.map_cons] at this ⊢
    rw [show a + (n + 1) + 1 = a + 1 + n + 1 by omega]
    rw [this]

theorem length_kron11 (l : List Nat) : (kron11 l).length = 2 * l.length := by
  induction l with
  | nil => rfl
  | cons a as ih => simp [kron11, ih]; omega

/-- the translated index vector of `ExpandedScaffers_F6.f`, paired: the cyclic pairing, for every D ≥ 2 -/
theorem C20_src_scaffer_indexes (D : Nat) (hD : 2 ≤ D) :
    pairsOf (Bench_Scaffer_indexes D) = (List.range D).map fun i => (i, (i + 1) % D) := by
  unfold Bench_Scaffer_indexes
  by_cases h2 : D = 2
  · subst h2; decide
  · obtain ⟨n, rfl⟩ : ∃ n, D = n + 3 := ⟨D - 3, by omega⟩
    simp only [h2, if_false]
    have := pairs_aux (n + 1) 0
    simp only [Nat.zero_add, List.singleton_append] at this ⊢
    rw [show n + 3 - 1 - 1 = n + 1 by omega, show n + 3 - 1 = n + 1 + 1 by omega, this]
    rw [show n + 3 = (n + 2) + 1 by omega, List.range_succ, List.map_append, List.range_eq_range']
    congr 1
    · apply List.map_congr_left
      intro i hi
      have : i < n + 2 := by simpa using (List.mem_range'_1.mp hi).2
      rw [Nat.mod_eq_of_lt (by omega)]
    · simp

/-- the same for `F8F2.f` -/
theorem C20_src_f8f2_indexes (D : Nat) (hD : 2 ≤ D) :
    pairsOf (Bench_F8F2_indexes D) = (List.range D).map fun i => (i, (i + 1) % D) := by
  have : Bench_F8F2_indexes D = Bench_Scaffer_indexes D := rfl
  rw [this]
  exact C20_src_scaffer_indexes D hD

/-- the index vector has 2·D entries (so `reshape(-1, 2)` is defined and yields D pairs per row), for every D ≥ 2 -/
theorem C20_src_pair_indexes_length (D : Nat) (hD : 2 ≤ D) : (Bench_Scaffer_indexes D).length = 2 * D := by
  unfold Bench_Scaffer_indexes
  by_cases h2 : D = 2
  · subst h2; rfl
  · simp only [h2, if_false, List.length_append, length_kron11, List.length_range', List.length_cons, List.length_nil]
    omega

/-- gathering a row through the paired index vector gives the model's `cyclicPairs` of that row -/
theorem C20_src_pairing_is_cyclicPairs (x : List Rat) (hD : 2 ≤ x.length) :
    (pairsOf (Bench_Scaffer_indexes x.length)).map (fun p => (x.getD p.1 0, x.getD p.2 0)) = cyclicPairs x := by
  rw [C20_src_scaffer_indexes _ hD, List.map_map]
  apply List.ext_getElem
  · simp [cyclicPairs]; omega
  · intro i h1 h2
    have hi : i < x.length := by simpa using h1
    simp only [List.getElem_map, List.getElem_range, Function.comp, cyclicPairs, List.getElem_zip]
    congr 1
    · simp [List.getD, hi]
    · by_cases hl : i + 1 < x.length
      · rw [Nat.mod_eq_of_lt hl]
        rw [List.getElem_append_left (by simp; omega)]
        simp [List.getD, hl]
      · have he : i + 1 = x.length := by omega
        rw [he, Nat.mod_self]
        rw [List.getElem_append_right (by simp; omega)]
        simp only [List.length_drop]
        have : i - (x.length - 1) = 0 := by omega
        simp only [this]
        cases x with
        | nil => simp at hD
        | cons a as => simp

example : pairsOf (Bench_Scaffer_indexes 5) = [(0, 1), (1, 2), (2, 3), (3, 4), (4, 0)] := by decide

end TFV.Properties.Src.BenchPairing
