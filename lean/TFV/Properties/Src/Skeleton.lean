/- Source tie for C03: the skeleton of `EvolutionaryAlgorithm.fit` as translated from /repo on this
   run. Method calls are logged as action codes (1 seed the generators, 2 initial population,
   3 evaluate + record, 4 progress display, 5 stopping rule consulted, 6 new population,
   7 on_generation callback); `stops` is the stream of results of `_termitation_check()`,
   `cb` = "an on_generation callback was supplied". -/
import TFV.Lemmas.Src.Skeleton
import TFV.Lemmas.Src.SkeletonModel

namespace TFV.SrcTie
open TFV.Generated.Src

/-- the translated `fit` performs exactly the actions of the recursive description `fitTrace` -/
theorem C03_src_fit (iters : Nat) (rs : Int) (cb : Bool) (stops : List Bool) :
    EA_fit (iters : Int) rs cb (stops.map b2i) = fitTrace iters cb stops :=
  src_fit iters rs cb stops

theorem count_blocks (cb : Bool) (k : Nat) :
    (blocks cb k).count 3 = k ∧ (blocks cb k).count 7 = (if cb then k else 0) ∧ (blocks cb k).count 5 = k := by
  induction k with
  | zero => simp [blocks]
  | succ k ih =>
    rw [blocks_succ]
    cases cb <;> simp [genBlock, List.count_append, ih.1, ih.2.1, ih.2.2] <;> simp [List.count_cons]

/-- the run stops at the FIRST consultation at which the rule holds and never earlier: if the rule
    first holds at consultation j (before the budget is used up) there are exactly j+1 evaluations,
    j callbacks (if one is supplied), j+1 consultations, and nothing happens after the decisive one -/
theorem C03_src_fit_stops_at_first (iters : Nat) (rs : Int) (cb : Bool) (stops : List Bool) (j : Nat)
    (hj : j < iters - 1) (hjl : j < stops.length) (hf : ∀ i, i < j → stops.getD i false = false)
    (ht : stops.getD j false = true) :
    ∃ tr, EA_fit (iters : Int) rs cb (stops.map b2i) = some tr ∧ tr = [1, 2, 3] ++ blocks cb j ++ [4, 5] ∧
      tr.count 3 = j + 1 ∧ tr.count 7 = (if cb then j else 0) ∧ tr.count 5 = j + 1 := by
  refine ⟨_, ?_, rfl, ?_, ?_, ?_⟩
  · rw [C03_src_fit, fitTrace, fitTail_stop cb (iters - 1) stops j hj hjl hf ht]; simp
  all_goals
    have h := count_blocks cb j
    simp [List.count_append, h.1, h.2.1, h.2.2]

/-- if the rule never holds the budget is used exactly: `iters` evaluations (one per generation),
    `iters - 1` callbacks, `iters - 1` consultations -/
theorem C03_src_fit_full (iters : Nat) (rs : Int) (cb : Bool) (stops : List Bool)
    (hn : iters - 1 ≤ stops.length) (hf : ∀ i, i < iters - 1 → stops.getD i false = false) :
    ∃ tr, EA_fit (iters : Int) rs cb (stops.map b2i) = some tr ∧ tr = [1, 2, 3] ++ blocks cb (iters - 1) ∧
      tr.count 3 = (iters - 1) + 1 ∧ tr.count 7 = (if cb then iters - 1 else 0) ∧ tr.count 5 = iters - 1 := by
  refine ⟨_, ?_, rfl, ?_, ?_, ?_⟩
  · rw [C03_src_fit, fitTrace, fitTail_full cb (iters - 1) stops hn hf]; simp
  all_goals
    have h := count_blocks cb (iters - 1)
    simp [h.1, h.2.1, h.2.2]

/-- the translated skeleton and the model run are the same run: fed with the stopping-rule results
    the model computes along its own trajectory (`stopsAlong`), the translated `fit` makes exactly one
    evaluation per state of `Cfg.traj` (the C03 theorems count those) and one callback per state after
    the first -/
theorem C03_src_fit_is_model_run {G P : Type} (c : EA.Cfg G P) (fl : EA.Flavour) (init : List G)
    (oracle : EA.St G P → List G) (rs : Int) (cb : Bool) :
    ∃ tr, EA_fit (c.iters : Int) rs cb ((stopsAlong c fl oracle (c.iters - 1) (c.first init)).map b2i) = some tr ∧
      tr.count 3 = (c.traj fl init oracle).length ∧
      tr.count 7 = (if cb then (c.traj fl init oracle).length - 1 else 0) := by
  obtain ⟨t, h1, h2, h3⟩ := skeleton_traj c fl oracle cb (c.iters - 1) (c.first init)
  refine ⟨[1, 2, 3] ++ t, ?_, ?_, ?_⟩
  · rw [C03_src_fit, fitTrace, h1]; rfl
  · simp only [List.count_append, EA.Cfg.traj]
    rw [← h2]; simp; omega
  · simp only [List.count_append, EA.Cfg.traj, h3]
    rw [← h2]
    cases cb <;> simp

end TFV.SrcTie
