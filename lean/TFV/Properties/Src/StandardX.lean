/- Source tie for C08 / C09: `Tree.get_levels`, `Tree.get_max_level` and the Python-level GP operator
   `standard_crossover` as translated from /repo on this run — Tree values as pairs of arrays, the two
   `randint` draws as `p`, `q` (positions in the first / second parent), the coin as the uniform draw `u`
   (flip iff u < 0.5's key) — equal `levels`, `depth` and `standardX` of the model on every pair of
   well-formed parents; every array access and every call of a translated Tree method stays in range. -/
import TFV.Lemmas.Src.StandardX
import TFV.Properties.Tree

namespace TFV.SrcTie
open TFV.Generated.Src TFV.Tree

theorem C09_src_tree_get_levels (l : Flat) (i : Nat) :
    Tree_get_levels (symsI l) (arsI l) (i : Int) = some ((levels i (arities l)).map Int.ofNat) :=
  src_tree_get_levels l i

theorem C09_src_tree_get_max_level (l : Flat) (h : l ≠ []) :
    Tree_get_max_level (symsI l) (arsI l) = some ((depth l : Nat) : Int) :=
  src_tree_get_max_level l h

theorem C08_src_standard_crossover (ta tb : RT) (fit rank : List Int) (maxLevel : Nat) (key u : Int) (urest : List Int)
    (p q : Nat) (nrest : List Int) (hp : p < (flat ta).length) (hq : q < (flat tb).length) :
    standard_crossover (symsI (flat ta)) (arsI (flat ta)) (symsI (flat tb)) (arsI (flat tb)) fit rank (maxLevel : Int)
        key (u :: urest) ((p : Int) :: (q : Int) :: nrest) =
      some [symsI (standardX (flat ta) (flat tb) p q (decide (u < key)) maxLevel),
            arsI (standardX (flat ta) (flat tb) p q (decide (u < key)) maxLevel)] :=
  src_standard_crossover ta tb fit rank maxLevel key u urest p q nrest hp hq

/-- C08 on the translated operator: the child it returns is a well-formed tree over the same universal
    set, no deeper than `max_level`, and is one parent with one subtree of the other transplanted, or a parent -/
theorem C08_src_standard_closed (arity : Nat → Nat) (ta tb : RT) (hca : ConsistentRT arity ta) (hcb : ConsistentRT arity tb)
    (fit rank : List Int) (maxLevel : Nat) (key u : Int) (urest : List Int) (p q : Nat) (nrest : List Int)
    (hp : p < (flat ta).length) (hq : q < (flat tb).length)
    (hda : depth (flat ta) ≤ maxLevel) (hdb : depth (flat tb) ≤ maxLevel) :
    ∃ c, standard_crossover (symsI (flat ta)) (arsI (flat ta)) (symsI (flat tb)) (arsI (flat tb)) fit rank (maxLevel : Int)
        key (u :: urest) ((p : Int) :: (q : Int) :: nrest) = some [symsI c, arsI c] ∧
      WF arity c ∧ depth c ≤ maxLevel ∧
      (c = flat ta ∨ c = flat tb ∨ c = concat (flat tb) q (subtree (flat ta) p) ∨ c = concat (flat ta) p (subtree (flat tb) q)) :=
  ⟨_, C08_src_standard_crossover ta tb fit rank maxLevel key u urest p q nrest hp hq,
    C08_standardX arity (flat ta) (flat tb) (wf_flat arity ta hca) (wf_flat arity tb hcb) p q hp hq _ maxLevel hda hdb⟩

end TFV.SrcTie
