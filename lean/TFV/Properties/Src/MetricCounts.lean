/- Source tie for C19: the integer counting loops of `recall_score`, `precision_score`, `f1_score`
   as translated from /repo on this run (everything up to the per-class ratios; `classes` = the result
   of `np.unique(y_true)`) equal the model loops the C19 theorems are about, and write their count
   arrays only in range — `recall` needs only the TRUE labels below the number of classes,
   `precision` and `f1` also the predicted ones (the "admissible input" clause of the property). The
   float tail (ratios and their mean) is tied by the correspondence run. -/
import TFV.Lemmas.Src.MetricCounts

namespace TFV.SrcTie
open TFV.Generated.Src TFV.Metrics

theorem C19_src_recall_counts (yt yp : List Nat) (classes : List Int) (hlen : yp.length = yt.length)
    (ht : ∀ t ∈ yt, t < classes.length) :
    recall_counts (natsI yt) (natsI yp) classes =
      some [natsI (recallLoop (yt.zip yp) (zeros classes.length, zeros classes.length)).1,
            natsI (recallLoop (yt.zip yp) (zeros classes.length, zeros classes.length)).2] :=
  src_recall_counts yt yp classes hlen ht

theorem C19_src_precision_counts (yt yp : List Nat) (classes : List Int) (hlen : yp.length = yt.length)
    (ht : ∀ t ∈ yt, t < classes.length) (hp : ∀ t ∈ yp, t < classes.length) :
    precision_counts (natsI yt) (natsI yp) classes =
      some [natsI (precisionLoop (yt.zip yp) (zeros classes.length, zeros classes.length)).1,
            natsI (precisionLoop (yt.zip yp) (zeros classes.length, zeros classes.length)).2] :=
  src_precision_counts yt yp classes hlen ht hp

theorem C19_src_f1_counts (yt yp : List Nat) (classes : List Int) (hlen : yp.length = yt.length)
    (ht : ∀ t ∈ yt, t < classes.length) (hp : ∀ t ∈ yp, t < classes.length) :
    f1_counts (natsI yt) (natsI yp) classes =
      some [natsI (f1Loop (yt.zip yp) (zeros classes.length, zeros classes.length, zeros classes.length)).1,
            natsI (f1Loop (yt.zip yp) (zeros classes.length, zeros classes.length, zeros classes.length)).2.1,
            natsI (f1Loop (yt.zip yp) (zeros classes.length, zeros classes.length, zeros classes.length)).2.2] :=
  src_f1_counts yt yp classes hlen ht hp

/-- outside the admissible inputs the kernel does write out of range: a predicted label that is not
    a class index (the translated `precision_counts` reports it; numba would corrupt memory silently) -/
theorem C19_src_precision_inadmissible : precision_counts [0, 0] [1, 1] [0] = none := by decide

end TFV.SrcTie
