/- Source tie for C07: the donor strategies of `utils/mutations.py` as translated from /repo on this run
   (straight-line vector arithmetic, read over the ring `Int`) are the linear forms `DE.donor` of the
   model on the population rows named by the `random_sample` result, make no out-of-range access and
   no shape error, and — with `random_sample` as translated — combine DISTINCT population members.
   `sampler n q replace k` is the result of the k-th `random_sample(n, q, replace)` call. -/
import TFV.Lemmas.Src.Donors
import TFV.Properties.Src.Sampling

namespace TFV.SrcTie
open TFV.Generated.Src TFV

/-- the translated kernel of each strategy of DifferentialEvolution's mutation pool -/
def srcDonor (s : DE.Strategy) (cur best : List Int) (pop : List (List Int)) (F : Int)
    (sampler : Int → Int → Bool → Nat → List Int) : Option (List Int) :=
  match s with
  | .best1 => best_1 cur best pop F sampler
  | .rand1 => rand_1 cur best pop F sampler
  | .currentToBest1 => current_to_best_1 cur best pop F sampler
  | .randToBest1 => rand_to_best1 cur best pop F sampler
  | .best2 => best_2 cur best pop F sampler
  | .rand2 => rand_2 cur best pop F sampler

/-- every strategy: the kernel asks `random_sample` for exactly `arity` indices without replacement,
    succeeds, returns `d` coordinates and computes the model's donor -/
theorem C07_src_donor (s : DE.Strategy) (cur best : List Int) (pop : List (List Int)) (F : Int)
    (sampler : Int → Int → Bool → Nat → List Int) (d : Nat)
    (h : Adm cur best pop d (sampler pop.length s.arity false 0) s.arity) :
    ∃ v, srcDonor s cur best pop F sampler = some v ∧ v.length = d ∧
      vQ v = DE.donor s (vQ cur) (vQ best) (pQ pop) (F : Rat) (idx (sampler pop.length s.arity false 0)) := by
  cases s
  · exact src_best_1 cur best pop F sampler d h
  · exact src_rand_1 cur best pop F sampler d h
  · exact src_current_to_best_1 cur best pop F sampler d h
  · exact src_rand_to_best1 cur best pop F sampler d h
  · exact src_best_2 cur best pop F sampler d h
  · exact src_rand_2 cur best pop F sampler d h

theorem C07_src_best_1 (cur best : List Int) (pop : List (List Int)) (F : Int)
    (sampler : Int → Int → Bool → Nat → List Int) (d : Nat)
    (h : Adm cur best pop d (sampler pop.length 2 false 0) 2) :
    ∃ v, best_1 cur best pop F sampler = some v ∧ v.length = d ∧
      vQ v = DE.best1 (vQ best) (pQ pop) (F : Rat) (idx (sampler pop.length 2 false 0)) :=
  src_best_1 cur best pop F sampler d h

theorem C07_src_rand_1 (cur best : List Int) (pop : List (List Int)) (F : Int)
    (sampler : Int → Int → Bool → Nat → List Int) (d : Nat)
    (h : Adm cur best pop d (sampler pop.length 3 false 0) 3) :
    ∃ v, rand_1 cur best pop F sampler = some v ∧ v.length = d ∧
      vQ v = DE.rand1 (pQ pop) (F : Rat) (idx (sampler pop.length 3 false 0)) :=
  src_rand_1 cur best pop F sampler d h

theorem C07_src_rand_to_best1 (cur best : List Int) (pop : List (List Int)) (F : Int)
    (sampler : Int → Int → Bool → Nat → List Int) (d : Nat)
    (h : Adm cur best pop d (sampler pop.length 3 false 0) 3) :
    ∃ v, rand_to_best1 cur best pop F sampler = some v ∧ v.length = d ∧
      vQ v = DE.randToBest1 (vQ best) (pQ pop) (F : Rat) (idx (sampler pop.length 3 false 0)) :=
  src_rand_to_best1 cur best pop F sampler d h

theorem C07_src_current_to_best_1 (cur best : List Int) (pop : List (List Int)) (F : Int)
    (sampler : Int → Int → Bool → Nat → List Int) (d : Nat)
    (h : Adm cur best pop d (sampler pop.length 2 false 0) 2) :
    ∃ v, current_to_best_1 cur best pop F sampler = some v ∧ v.length = d ∧
      vQ v = DE.currentToBest1 (vQ cur) (vQ best) (pQ pop) (F : Rat) (idx (sampler pop.length 2 false 0)) :=
  src_current_to_best_1 cur best pop F sampler d h

theorem C07_src_best_2 (cur best : List Int) (pop : List (List Int)) (F : Int)
    (sampler : Int → Int → Bool → Nat → List Int) (d : Nat)
    (h : Adm cur best pop d (sampler pop.length 4 false 0) 4) :
    ∃ v, best_2 cur best pop F sampler = some v ∧ v.length = d ∧
      vQ v = DE.best2 (vQ best) (pQ pop) (F : Rat) (idx (sampler pop.length 4 false 0)) :=
  src_best_2 cur best pop F sampler d h

theorem C07_src_rand_2 (cur best : List Int) (pop : List (List Int)) (F : Int)
    (sampler : Int → Int → Bool → Nat → List Int) (d : Nat)
    (h : Adm cur best pop d (sampler pop.length 5 false 0) 5) :
    ∃ v, rand_2 cur best pop F sampler = some v ∧ v.length = d ∧
      vQ v = DE.rand2 (pQ pop) (F : Rat) (idx (sampler pop.length 5 false 0)) :=
  src_rand_2 cur best pop F sampler d h

/-- SHADE's `current_to_pbest_1_archive`: `n0` the integer draw (a position in `pbest`), the two
    `random_sample(…, 1, replace=True)` results give `r1` (population) and `r2` (population ∪ archive) -/
theorem C07_src_current_to_pbest_1_archive (cur : List Int) (pop : List (List Int)) (pbest : List Int) (F : Int)
    (arch : List (List Int)) (n0 : Int) (ns : List Int)
    (sampler : Int → Int → Bool → Nat → List Int) (d : Nat) (r1 r2 : Int) (t1 t2 : List Int)
    (hcur : cur.length = d) (hpop : ∀ row ∈ pop, row.length = d) (harch : ∀ row ∈ arch, row.length = d)
    (hn : 0 ≤ n0 ∧ n0 < (pbest.length : Int))
    (hpb : 0 ≤ Imp.geti pbest n0 ∧ Imp.geti pbest n0 < (pop.length : Int))
    (hs1 : sampler pop.length 1 true 0 = r1 :: t1) (hr1 : 0 ≤ r1 ∧ r1 < (pop.length : Int))
    (hs2 : sampler arch.length 1 true 1 = r2 :: t2) (hr2 : 0 ≤ r2 ∧ r2 < (arch.length : Int)) :
    ∃ v, current_to_pbest_1_archive cur pop pbest F arch (n0 :: ns) sampler = some v ∧ v.length = d ∧
      vQ v = DE.currentToPbest1 (vQ cur) (pQ pop) (pQ arch) (F : Rat)
        (Imp.geti pbest n0).toNat r1.toNat r2.toNat :=
  src_current_to_pbest_1_archive cur pop pbest F arch n0 ns sampler d r1 r2 t1 t2 hcur hpop harch hn hpb hs1 hr1 hs2 hr2

/-- with `random_sample` as translated from the source: when the sampler's answer is what the translated
    `random_sample(len(population), arity, replace=False)` returns on draws below the population size,
    the donor of every strategy is the model's linear form on `arity` DISTINCT members of the population -/
theorem C07_src_donor_distinct (s : DE.Strategy) (cur best : List Int) (pop : List (List Int)) (F : Int)
    (sampler : Int → Int → Bool → Nat → List Int) (d : Nat) (ns r : List Nat)
    (hcur : cur.length = d) (hbest : best.length = d) (hpop : ∀ row ∈ pop, row.length = d)
    (hd : ∀ x ∈ ns, x < pop.length) (hr : Select.sampleNoRepl ns s.arity [] = some r)
    (hs : random_sample pop.length (s.arity : Int) false (ns.map Int.ofNat) =
      some (sampler pop.length s.arity false 0)) :
    ∃ v, srcDonor s cur best pop F sampler = some v ∧ v.length = d ∧
      vQ v = DE.donor s (vQ cur) (vQ best) (pQ pop) (F : Rat) r ∧
      r.length = s.arity ∧ r.Nodup ∧ ∀ i ∈ r, i < pop.length := by
  obtain ⟨he, hl, hnd, hlt⟩ := C11_src_random_sample_distinct pop.length s.arity pop.length ns r hd hr
  have hsm : sampler pop.length s.arity false 0 = r.map Int.ofNat := by
    rw [he] at hs; exact (Option.some.inj hs).symm
  have hadm : Adm cur best pop d (sampler pop.length s.arity false 0) s.arity := by
    refine ⟨hcur, hbest, hpop, by simp [hsm, hl], ?_⟩
    intro i hi
    rw [hsm] at hi
    obtain ⟨x, hx, rfl⟩ := List.mem_map.1 hi
    have := hlt x hx
    exact ⟨Int.natCast_nonneg x, by simp only [Int.ofNat_eq_natCast]; omega⟩
  obtain ⟨v, h1, h2, h3⟩ := C07_src_donor s cur best pop F sampler d hadm
  refine ⟨v, h1, h2, ?_, hl, hnd, hlt⟩
  have : idx (sampler pop.length s.arity false 0) = r := by
    rw [hsm]
    have hc : (Int.toNat ∘ Int.ofNat) = id := by funext x; simp
    simp [idx, hc]
  rw [this] at h3; exact h3

/-- the hypotheses are satisfiable: a 3-member population of 2 coordinates -/
example : ∃ v, best_1 [1, 2] [3, 4] [[1, 2], [3, 4], [5, 7]] 2 (fun _ _ _ _ => [2, 0]) = some v ∧ v = [11, 14] := by
  refine ⟨_, rfl, ?_⟩; decide

end TFV.SrcTie
