/- Source tie for C01 / C02 / C03: the Python-level methods of the run engine that decide what the
   reported best is, when the stagnation counter moves and when a run stops — `TheFittest._replace`,
   `TheFittest._update`, `EvolutionaryAlgorithm._termitation_check`, `get_remains_calls` — as
   translated from /repo on this run, equal the model definitions `Rec.update`, `Cfg.stop`,
   `Cfg.remains` of TFV.Model.EA that the C01/C02/C03 theorems are about. Genotypes and phenotypes
   are identifiers here (the methods only copy them). -/
import TFV.Lemmas.Src.Engine

namespace TFV.SrcTie
open TFV.Generated.Src TFV.EA

theorem C01_src_thefittest_replace (self : List Int) (g p f : Int) :
    TheFittest_replace self g p f = some [g, p, f, Imp.geti self 3] :=
  src_replace self g p f

/-- `TheFittest._update` = `Rec.update` on every non-empty evaluated population, reading its three
    arrays only in range -/
theorem C01_src_thefittest_update (r : Rec Int Int) (pop : List (Ind Int Int)) (hne : pop ≠ []) :
    TheFittest_update (selfOf r) (pop.map (·.g)) (pop.map (·.ph)) (pop.map (·.fit)) =
      some (selfOf (r.update pop)) :=
  src_update r pop hne

/-- C02 on the translated method: the recorded fitness never decreases -/
theorem C02_src_update_monotone (r : Rec Int Int) (pop : List (Ind Int Int)) (hne : pop ≠ []) :
    ∃ g p f c, TheFittest_update (selfOf r) (pop.map (·.g)) (pop.map (·.ph)) (pop.map (·.fit)) = some [g, p, f, c] ∧
      r.fit ≤ f := by
  refine ⟨_, _, _, _, src_update r pop hne, ?_⟩
  unfold Rec.update
  split
  · exact Int.le_refl _
  · split
    · rename_i h; exact Int.le_of_lt h
    · exact Int.le_refl _

/-- C03 on the translated method: the stagnation counter is reset exactly on a strict improvement
    and otherwise incremented by one -/
theorem C03_src_update_counter (r : Rec Int Int) (pop : List (Ind Int Int)) (hne : pop ≠ []) :
    ∃ g p f c, TheFittest_update (selfOf r) (pop.map (·.g)) (pop.map (·.ph)) (pop.map (·.fit)) = some [g, p, f, c] ∧
      ((r.fit < f ∧ c = 0) ∨ (f = r.fit ∧ c = (r.noUpd : Int) + 1)) := by
  refine ⟨_, _, _, _, src_update r pop hne, ?_⟩
  unfold Rec.update
  cases h : argmaxFirst pop with
  | none => cases pop with
    | nil => exact absurd rfl hne
    | cons x xs => simp [argmaxFirst] at h
  | some m =>
    simp only
    split
    · rename_i hlt; exact Or.inl ⟨hlt, by simp⟩
    · exact Or.inr ⟨rfl, by simp⟩

theorem C03_src_termination_check (best counter aim noInc : Int) :
    termination_check best counter aim noInc = some (decide (aim ≤ best) || decide (counter = noInc)) :=
  src_termination_check best counter aim noInc

/-- … which is `Cfg.stop` when both stopping rules are configured … -/
theorem C03_src_termination_stop {G P : Type} (c : Cfg G P) (s : St G P) (a : Int) (n : Nat)
    (ha : c.aim = some a) (hn : c.noInc = some n) :
    termination_check s.rk.fit (s.rk.noUpd : Int) a (n : Int) = some (c.stop s) := by
  rw [src_termination_check]
  have : decide ((s.rk.noUpd : Int) = (n : Int)) = (s.rk.noUpd == n) := by
    by_cases h : s.rk.noUpd = n
    · simp [h]
    · have : ¬ ((s.rk.noUpd : Int) = (n : Int)) := by omega
      simp [h, this]
  simp [Cfg.stop, ha, hn, this]

/-- … and when `no_increase_num` is `None` (any value a counter never takes) -/
theorem C03_src_termination_stop_no_stagnation_rule {G P : Type} (c : Cfg G P) (s : St G P) (a noInc : Int)
    (ha : c.aim = some a) (hn : c.noInc = none) (hneg : noInc < 0) :
    termination_check s.rk.fit (s.rk.noUpd : Int) a noInc = some (c.stop s) := by
  rw [src_termination_check]
  have : ¬ ((s.rk.noUpd : Int) = noInc) := by omega
  simp [Cfg.stop, ha, hn, this]

theorem C03_src_get_remains_calls {G P : Type} (c : Cfg G P) (s : St G P) :
    get_remains_calls (c.popSize : Int) (c.iters : Int) (s.calls : Int) = some (c.remains s) := by
  rw [src_get_remains_calls]
  simp [Cfg.remains]

/-- `_get_fitness` (however the objective values `value` were obtained - serially or through the worker pool): the
    sign is applied exactly once, to every value, and the evaluation counter advances by the number of values -/
theorem C05_src_get_fitness (calls sign : Int) (ph value : List Int) :
    EA_get_fitness [calls] ph sign value = some [value.map (fun v => sign * v), [calls + (value.length : Int)]] :=
  src_get_fitness calls sign ph value

/-- ... which is `Cfg.fitOf` of the model (the single point of sign application the C05 duality theorem rests on),
    the objective values being order keys with `key(-x) = -key(x)` -/
theorem C05_src_get_fitness_is_fitOf {G P : Type} (c : Cfg G P) (phs : List P) (calls : Int) (ph : List Int) :
    EA_get_fitness [calls] ph (if c.minimization then -1 else 1) (phs.map c.obj) =
      some [phs.map c.fitOf, [calls + (phs.length : Int)]] := by
  rw [C05_src_get_fitness]
  cases hm : c.minimization <;> simp [Cfg.fitOf, hm]

/-- C03: one call of `_get_fitness` on a population of `pop_size` individuals advances `_calls` by exactly `pop_size` -/
theorem C03_src_get_fitness_counts (calls sign : Int) (ph value : List Int) :
    ∃ f c, EA_get_fitness [calls] ph sign value = some [f, [c]] ∧ c = calls + (value.length : Int) ∧ f.length = value.length :=
  ⟨_, _, C05_src_get_fitness calls sign ph value, rfl, by simp⟩

end TFV.SrcTie
