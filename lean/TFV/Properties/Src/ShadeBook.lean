/- Source tie for C15 (and C02): SHADE's bookkeeping after the trials of a generation are evaluated, as translated from
   /repo on this run (suffix translation of `SHADE._get_new_population` from `mask = ...` on; individuals as identifiers;
   `_append_archive`, `_update_u_F`, `_update_u_CR` as function parameters of their actual arguments and the call's ordinal).
   One theorem fixes all of it: the greedy replacement is `EA.merge`; the archive receives exactly the parents that were
   replaced by STRICTLY better trials; the successful F / CR are those of strictly improving trials and the improvements
   are |old fitness − new fitness| of those slots; memory cell `k` is read, its cyclic successor is written (both
   memories, same cell), every other cell is untouched, and the index advances to that successor. -/
import TFV.Generated.Src.SHADE_bookkeeping
import TFV.Generated.Src.SHAGA_bookkeeping
import TFV.Properties.Src.Greedy

namespace TFV.SrcTie
open TFV.Generated.Src TFV

theorem maskGet_length_eq (x y m : List Int) (hx : x.length = m.length) (hy : y.length = m.length) :
    (Imp.maskGet x m).length = (Imp.maskGet y m).length := by
  induction m generalizing x y with
  | nil => cases x <;> cases y <;> simp_all [Imp.maskGet]
  | cons b m ih =>
    cases x with | nil => simp at hx | cons a x =>
    cases y with | nil => simp at hy | cons c y =>
    have := ih x y (by simpa using hx) (by simpa using hy)
    by_cases hb : b = 0 <;> simp [Imp.maskGet, hb, this]

/-- the cyclic successor of a memory index -/
def nextCell (k H : Int) : Int := if k + 1 = H then 0 else k + 1

/-- the improvements handed to `_update_u_CR`: |old fitness − new fitness| at the strictly improving slots -/
def improvements (fit fit' succ : List Int) : List Int :=
  (Imp.vsub (Imp.maskGet fit succ) (Imp.maskGet fit' succ)).map fun v => if v < 0 then -v else v

theorem C15_src_shade_bookkeeping (H : Nat) (k : Nat) (hk : k < H)
    (g ph fit F CR arch HF HCR tg tph tfit : List Int) (n : Nat)
    (h1 : g.length = n) (h2 : ph.length = n) (h3 : fit.length = n) (h4 : tg.length = n) (h5 : tph.length = n) (h6 : tfit.length = n)
    (h7 : F.length = n) (h8 : CR.length = n) (h9 : HF.length = H) (h10 : HCR.length = H)
    (appendFn : List Int → List Int → Nat → List Int) (updateFFn : Int → List Int → Nat → Int)
    (updateCRFn : Int → List Int → List Int → Nat → Int) :
    SHADE_bookkeeping (H : Int) tg tph tfit g ph fit F CR arch HF HCR (k : Int) appendFn updateFFn updateCRFn =
      some [(EA.merge (inds g ph fit) (inds tg tph tfit)).map (·.g),
            (EA.merge (inds g ph fit) (inds tg tph tfit)).map (·.ph),
            (EA.merge (inds g ph fit) (inds tg tph tfit)).map (·.fit), F, CR,
            appendFn arch (Imp.maskGet g (Imp.maskGT tfit fit)) 0,
            HF.set ((k + 1) % H) (updateFFn (HF.getD k 0) (Imp.maskGet F (Imp.maskGT tfit fit)) 1),
            HCR.set ((k + 1) % H) (updateCRFn (HCR.getD k 0) (Imp.maskGet CR (Imp.maskGT tfit fit))
              (improvements fit ((EA.merge (inds g ph fit) (inds tg tph tfit)).map (·.fit)) (Imp.maskGT tfit fit)) 2),
            [(((k + 1) % H : Nat) : Int)]] := by
  obtain ⟨e1, e2, e3⟩ := maskSet_merge g ph fit tg tph tfit n h1 h2 h3 h4 h5 h6
  generalize hf' : (EA.merge (inds g ph fit) (inds tg tph tfit)).map (·.fit) = fit' at *
  generalize hg' : (EA.merge (inds g ph fit) (inds tg tph tfit)).map (·.g) = g' at *
  generalize hp' : (EA.merge (inds g ph fit) (inds tg tph tfit)).map (·.ph) = ph' at *
  have lm : (Imp.maskGE tfit fit).length = n := by simp [Imp.maskGE, h3, h6]
  have ls : (Imp.maskGT tfit fit).length = n := by simp [Imp.maskGT, h3, h6]
  generalize hsucc : Imp.maskGT tfit fit = succ at *
  have lf' : fit'.length = n := by rw [← e3, maskSet_length, h3]
  have lget : (Imp.maskGet fit succ).length = (Imp.maskGet fit' succ).length :=
    maskGet_length_eq fit fit' succ (by rw [h3, ls]) (by rw [lf', ls])
  have ik1 : Imp.inb HF (k : Int) = true := by simp [Imp.inb, h9]; omega
  have ik2 : Imp.inb HCR (k : Int) = true := by simp [Imp.inb, h10]; omega
  have gk1 : Imp.geti HF (k : Int) = HF.getD k 0 := by simp [Imp.geti]
  have gk2 : Imp.geti HCR (k : Int) = HCR.getD k 0 := by simp [Imp.geti]
  unfold SHADE_bookkeeping
  by_cases hlast : (k : Int) + 1 = (H : Int)
  · have hmod : (k + 1) % H = 0 := by
      have : k + 1 = H := by omega
      rw [this]; simp
    have hkl : (k : Int) = (H : Int) - 1 := by omega
    have i01 : Imp.inb HF (0 : Int) = true := by simp [Imp.inb, h9]; omega
    have i02 : Imp.inb HCR (0 : Int) = true := by simp [Imp.inb, h10]; omega
    simp only [Imp.leni, lm, ls, h1, h2, h3, h4, h5, h6, h7, h8, e1, e2, e3, hsucc, hlast, ik1, ik2, gk1, gk2, i01, i02, hmod, lget,
      improvements, decide_true, if_true, Imp.seti]
    simp [hkl, lf']
  · have hlt : k + 1 < H := by omega
    have hmod : (k + 1) % H = k + 1 := Nat.mod_eq_of_lt hlt
    have hkl : ¬ ((k : Int) = (H : Int) - 1) := by omega
    have i11 : Imp.inb HF ((k : Int) + 1) = true := by simp [Imp.inb, h9]; omega
    have i12 : Imp.inb HCR ((k : Int) + 1) = true := by simp [Imp.inb, h10]; omega
    have tn : ((k : Int) + 1).toNat = k + 1 := by omega
    simp only [Imp.leni, lm, ls, h1, h2, h3, h4, h5, h6, h7, h8, e1, e2, e3, hsucc, hlast, ik1, ik2, gk1, gk2, i11, i12, hmod, lget,
      improvements, decide_false, Bool.false_eq_true, if_false, Imp.seti, tn]
    simp [hkl, lf']

/-- SHAGA's bookkeeping: the same ring for `H_MR` / `H_CR`, both written by `_update_u` with the SAME improvements -/
theorem C15_src_shaga_bookkeeping (H : Nat) (k : Nat) (hk : k < H)
    (g ph fit MR CR HMR HCR tg tph tfit : List Int) (n : Nat)
    (h1 : g.length = n) (h2 : ph.length = n) (h3 : fit.length = n) (h4 : tg.length = n) (h5 : tph.length = n) (h6 : tfit.length = n)
    (h7 : MR.length = n) (h8 : CR.length = n) (h9 : HMR.length = H) (h10 : HCR.length = H)
    (updateFn : Int → List Int → List Int → Nat → Int) :
    SHAGA_bookkeeping (H : Int) tg tph tfit g ph fit MR CR HMR HCR (k : Int) updateFn =
      some [(EA.merge (inds g ph fit) (inds tg tph tfit)).map (·.g),
            (EA.merge (inds g ph fit) (inds tg tph tfit)).map (·.ph),
            (EA.merge (inds g ph fit) (inds tg tph tfit)).map (·.fit), MR, CR,
            HMR.set ((k + 1) % H) (updateFn (HMR.getD k 0) (Imp.maskGet MR (Imp.maskGT tfit fit))
              (improvements fit ((EA.merge (inds g ph fit) (inds tg tph tfit)).map (·.fit)) (Imp.maskGT tfit fit)) 0),
            HCR.set ((k + 1) % H) (updateFn (HCR.getD k 0) (Imp.maskGet CR (Imp.maskGT tfit fit))
              (improvements fit ((EA.merge (inds g ph fit) (inds tg tph tfit)).map (·.fit)) (Imp.maskGT tfit fit)) 1),
            [(((k + 1) % H : Nat) : Int)]] := by
  obtain ⟨e1, e2, e3⟩ := maskSet_merge g ph fit tg tph tfit n h1 h2 h3 h4 h5 h6
  generalize hf' : (EA.merge (inds g ph fit) (inds tg tph tfit)).map (·.fit) = fit' at *
  generalize hg' : (EA.merge (inds g ph fit) (inds tg tph tfit)).map (·.g) = g' at *
  generalize hp' : (EA.merge (inds g ph fit) (inds tg tph tfit)).map (·.ph) = ph' at *
  have lm : (Imp.maskGE tfit fit).length = n := by simp [Imp.maskGE, h3, h6]
  have ls : (Imp.maskGT tfit fit).length = n := by simp [Imp.maskGT, h3, h6]
  generalize hsucc : Imp.maskGT tfit fit = succ at *
  have lf' : fit'.length = n := by rw [← e3, maskSet_length, h3]
  have lget : (Imp.maskGet fit succ).length = (Imp.maskGet fit' succ).length :=
    maskGet_length_eq fit fit' succ (by rw [h3, ls]) (by rw [lf', ls])
  have ik1 : Imp.inb HMR (k : Int) = true := by simp [Imp.inb, h9]; omega
  have ik2 : Imp.inb HCR (k : Int) = true := by simp [Imp.inb, h10]; omega
  have gk1 : Imp.geti HMR (k : Int) = HMR.getD k 0 := by simp [Imp.geti]
  have gk2 : Imp.geti HCR (k : Int) = HCR.getD k 0 := by simp [Imp.geti]
  unfold SHAGA_bookkeeping
  by_cases hlast : (k : Int) + 1 = (H : Int)
  · have hmod : (k + 1) % H = 0 := by
      have : k + 1 = H := by omega
      rw [this]; simp
    have hkl : (k : Int) = (H : Int) - 1 := by omega
    have i01 : Imp.inb HMR (0 : Int) = true := by simp [Imp.inb, h9]; omega
    have i02 : Imp.inb HCR (0 : Int) = true := by simp [Imp.inb, h10]; omega
    simp only [Imp.leni, lm, ls, h1, h2, h3, h4, h5, h6, h7, h8, e1, e2, e3, hsucc, hlast, ik1, ik2, gk1, gk2, i01, i02, hmod, lget,
      improvements, decide_true, if_true, Imp.seti]
    simp [hkl, lf']
  · have hlt : k + 1 < H := by omega
    have hmod : (k + 1) % H = k + 1 := Nat.mod_eq_of_lt hlt
    have hkl : ¬ ((k : Int) = (H : Int) - 1) := by omega
    have i11 : Imp.inb HMR ((k : Int) + 1) = true := by simp [Imp.inb, h9]; omega
    have i12 : Imp.inb HCR ((k : Int) + 1) = true := by simp [Imp.inb, h10]; omega
    have tn : ((k : Int) + 1).toNat = k + 1 := by omega
    simp only [Imp.leni, lm, ls, h1, h2, h3, h4, h5, h6, h7, h8, e1, e2, e3, hsucc, hlast, ik1, ik2, gk1, gk2, i11, i12, hmod, lget,
      improvements, decide_false, Bool.false_eq_true, if_false, Imp.seti, tn]
    simp [hkl, lf']

end TFV.SrcTie
