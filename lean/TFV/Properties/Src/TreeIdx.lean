/- Source tie for C09 / C08: the tree index kernels `find_end_subtree_from_i`,
   `find_id_args_from_i`, `find_first_difference_between_two` as translated from /repo on this run
   equal the models `Tree.endSub`, `Tree.argsIds`, `Tree.firstDiff` on every subterm position of
   every well-formed tree. -/
import TFV.Generated.Src.find_end_subtree_from_i
import TFV.Generated.Src.find_id_args_from_i
import TFV.Generated.Src.find_first_difference_between_two
import TFV.Model.Tree
import TFV.Lemmas.Src.TreeIdx
import TFV.Properties.Tree

namespace TFV.SrcTie
open TFV.Generated.Src TFV.Tree

/-- arity array as the int64 array the kernel sees -/
def arI (l : Flat) : List Int := (arities l).map Int.ofNat

theorem C09_src_find_end_subtree (pre post : Flat) (t : RT) :
    find_end_subtree_from_i (pre.length : Int) (arI (pre ++ flat t ++ post)) =
      some ((endSub pre.length (arities (pre ++ flat t ++ post)) : Nat) : Int) :=
  src_find_end_subtree pre post t

theorem C09_src_find_id_args (pre post : Flat) (t : RT) :
    find_id_args_from_i (pre.length : Int) (arI (pre ++ flat t ++ post)) =
      some ((argsIds pre.length (arities (pre ++ flat t ++ post))).map Int.ofNat) :=
  src_find_id_args pre post t

theorem C09_src_first_difference (a b : List Nat) (ha : a ≠ []) (hb : b ≠ []) :
    find_first_difference_between_two (a.map Int.ofNat) (b.map Int.ofNat) = some ((firstDiff a b : Nat) : Int) :=
  src_first_difference a b ha hb

/-! ### the property statements of TFV/Properties/Tree.lean, re-stated on the translated kernels -/

/-- the translated `find_end_subtree_from_i` returns the index one past the subterm, for every
    subterm position of every well-formed tree, without any out-of-range access -/
theorem C09_src_find_end_subtree_size (pre post : Flat) (t : RT) :
    find_end_subtree_from_i (pre.length : Int) (arI (pre ++ flat t ++ post)) = some ((pre.length + t.size : Nat) : Int) := by
  rw [C09_src_find_end_subtree, C09_endSub]

/-- the translated `find_id_args_from_i` returns the root positions of the argument subterms -/
theorem C09_src_find_id_args_positions (pre post : Flat) (s : Nat) (ks : List RT) :
    find_id_args_from_i (pre.length : Int) (arI (pre ++ flat (.node s ks) ++ post)) =
      some (((List.range ks.length).map fun c => pre.length + 1 + sizeL (ks.take c)).map Int.ofNat) := by
  rw [C09_src_find_id_args, C09_argsIds]

end TFV.SrcTie
