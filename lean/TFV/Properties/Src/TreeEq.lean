/- Source tie for C09: `Tree.__eq__` as translated from /repo on this run (`node_1 != node_2` as a function parameter on node
   identifiers; the operand IS a Tree - the TypeError guard for other objects is outside the reading).  Two trees are equal
   exactly when they have the same number of nodes and differ at no position; with identifiers compared by identity this is
   equality of the node lists (`Tree.eqTree` of the model, `C09_eqTree`). -/
import TFV.Generated.Src.Tree_eq
import TFV.Lemmas.Src.ImpLemmas

namespace TFV.SrcTie
open TFV.Generated.Src TFV TFV.Imp

theorem any_take_succ (l : List (Int × Int)) (f : Int × Int → Bool) (k : Nat) (hk : k < l.length) :
    (l.take (k + 1)).any f = ((l.take k).any f || f l[k]) := by
  rw [List.take_succ_eq_append_getElem hk, List.any_append]
  simp

theorem C09_src_tree_eq (a na b nb : List Int) (ne : Int → Int → Bool) :
    Tree_eq a na b nb ne = some (decide (a.length = b.length) && !((a.zip b).any fun p => ne p.1 p.2)) := by
  unfold Tree_eq
  by_cases hl : a.length = b.length
  · have hne : ¬ (leni a ≠ leni b) := by simp [leni, hl]
    simp only [hne, decide_false, Bool.false_eq_true, if_false]
    have hmin : (min (leni a) (leni b) - 0).toNat = (a.zip b).length := by
      simp [leni, hl, List.length_zip]
    refine forRange_elim
      (P := fun k (s : Tree_eq.S) => s.err = false ∧ s.dry = false ∧ s.brk = s.loop_hit ∧
        s.loop_hit = ((a.zip b).take k).any fun p => ne p.1 p.2)
      (Q := fun s => (if ({ s with brk := false } : Tree_eq.S).loop_hit = true then
          (if (({ s with brk := false } : Tree_eq.S).err || ({ s with brk := false } : Tree_eq.S).dry) = true then none else some false)
        else (if (({ s with brk := false } : Tree_eq.S).err || ({ s with brk := false } : Tree_eq.S).dry) = true then none else some true))
        = some (decide (a.length = b.length) && !((a.zip b).any fun p => ne p.1 p.2)))
      _ _ _ _ _ ?_ ?_ ?_
    · simp
    · intro k s hk ⟨he, hd, hb, hh⟩
      rw [hmin] at hk
      have hka : k < a.length := by simp [List.length_zip] at hk; omega
      have hkb : k < b.length := by simp [List.length_zip] at hk; omega
      have hz : (a.zip b)[k] = (a[k], b[k]) := by simp
      rw [any_take_succ _ _ k hk, hz]
      by_cases hs : s.brk = true
      · rw [if_pos hs]
        refine ⟨he, hd, hb, ?_⟩
        rw [← hh, ← hb, hs]; rfl
      · have hs' : s.brk = false := by simpa using hs
        have hga : geti a (0 + (k : Int)) = a[k] := by simp [geti, List.getD_eq_getElem?_getD, hka]
        have hgb : geti b (0 + (k : Int)) = b[k] := by simp [geti, List.getD_eq_getElem?_getD, hkb]
        have hh0 : ((a.zip b).take k).any (fun p => ne p.1 p.2) = false := by rw [← hh, ← hb, hs']
        simp only [hs', Bool.false_eq_true, if_false, hga, hgb, hh0, Bool.false_or]
        by_cases hn : ne a[k] b[k] = true
        · simp [hn, he, hd]
        · have hn' : ne a[k] b[k] = false := by simpa using hn
          simp [hn', he, hd, hs', ← hb]
    · intro s ⟨he, hd, _, hh⟩
      rw [hmin, List.take_length] at hh
      simp only [he, hd, Bool.or_self, Bool.false_eq_true, if_false, hl, decide_true, Bool.true_and]
      rw [hh]
      cases ((a.zip b).any fun p => ne p.1 p.2) <;> simp
  · have hne : leni a ≠ leni b := by
      simp only [leni]; intro h; apply hl; exact_mod_cast h
    simp [hne, hl]

/-- with node identifiers compared by identity: equality of the node lists -/
theorem C09_src_tree_eq_ids (a na b nb : List Int) :
    Tree_eq a na b nb (fun x y => x != y) = some (decide (a = b)) := by
  rw [C09_src_tree_eq]
  congr 1
  by_cases hl : a.length = b.length
  · simp only [hl, decide_true, Bool.true_and]
    induction a generalizing b with
    | nil => cases b with
      | nil => simp
      | cons y ys => simp at hl
    | cons x xs ih =>
      cases b with
      | nil => simp at hl
      | cons y ys =>
        have hl' : xs.length = ys.length := by simpa using hl
        have := ih ys hl'
        simp only [List.zip_cons_cons, List.any_cons, Bool.not_or, this, List.cons.injEq]
        by_cases hxy : x = y
        · simp [hxy]
        · simp [hxy]
  · have : a ≠ b := fun h => hl (by rw [h])
    simp [hl, this]

end TFV.SrcTie
