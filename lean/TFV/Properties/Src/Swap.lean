/- Source tie for C08: the Python-level GP operator `swap_mutation` as translated from /repo on this run — the coin
   as the uniform draw `u`, the node as the integer draw `n0` among the nodes with more than one argument, the
   shuffle as `shuffler args_id k` = the result of `sattolo_shuffle(args_id)` — equals `swapRun`, i.e.
   `Tree.swapMut` at the drawn node with the inverse of the shuffle, on every well-formed tree: the argument
   subtrees of ONE node are permuted (spliced from the last position to the first, each taken from the original
   tree), nothing else changes; every array access and Tree-method call stays in range. -/
import TFV.Lemmas.Src.Swap
import TFV.Properties.Tree
import Batteries.Data.List.Perm
import Mathlib.Data.List.Nodup

namespace TFV.SrcTie
open TFV.Generated.Src TFV.Tree

theorem C08_src_swap_mutation (t : RT) (proba maxLeve u : Int) (urest : List Int) (n0 : Nat) (nrest : List Int)
    (shuffler : List Int → Nat → List Int) (sig : List Nat)
    (h0 : multiArgs (flat t) ≠ [] → n0 < (multiArgs (flat t)).length)
    (hsig : sig.Perm (List.range (argsIds ((multiArgs (flat t)).getD n0 0) (arities (flat t))).length))
    (hsh : shuffler ((argsIds ((multiArgs (flat t)).getD n0 0) (arities (flat t))).map Int.ofNat) 0 =
      (sig.map fun j => (argsIds ((multiArgs (flat t)).getD n0 0) (arities (flat t))).getD j 0).map Int.ofNat) :
    swap_mutation (symsI (flat t)) (arsI (flat t)) proba maxLeve (u :: urest) ((n0 : Int) :: nrest) shuffler =
      some [symsI (swapRun (flat t) (decide (u < proba)) n0 sig), arsI (swapRun (flat t) (decide (u < proba)) n0 sig)] :=
  src_swap_mutation t proba maxLeve u urest n0 nrest shuffler sig h0 hsig hsh

/-- the inverse of a permutation of the slots is a permutation of the slots -/
theorem invPerm_perm {n : Nat} {sig : List Nat} (hsig : sig.Perm (List.range n)) :
    (invPerm sig).Perm (List.range n) := by
  have hlen := perm_range_length hsig
  have hnd : (invPerm sig).Nodup := by
    unfold invPerm
    refine List.Nodup.map_on ?_ List.nodup_range
    intro a ha b hb hab
    have ha' : a ∈ sig := hsig.mem_iff.2 (List.mem_range.2 (by simpa [hlen] using ha))
    have hb' : b ∈ sig := hsig.mem_iff.2 (List.mem_range.2 (by simpa [hlen] using hb))
    have h1 := List.getElem_idxOf (List.idxOf_lt_length_of_mem ha')
    have h2 := List.getElem_idxOf (List.idxOf_lt_length_of_mem hb')
    rw [← h1, ← h2]
    simp [hab]
  have hsub : (invPerm sig).Subperm (List.range n) :=
    List.subperm_of_subset hnd (fun k hk => List.mem_range.2 (invPerm_mem hsig k hk))
  exact hsub.perm_of_length_le (by simp [invPerm_length, hlen])

/-- C08 on the translated operator: the child is a well-formed tree with exactly the parent's nodes and the
    parent's depth -/
theorem C08_src_swap_closed (arity : Nat → Nat) (t : RT) (hc : ConsistentRT arity t)
    (proba maxLeve u : Int) (urest : List Int) (n0 : Nat) (nrest : List Int)
    (shuffler : List Int → Nat → List Int) (sig : List Nat)
    (h0 : multiArgs (flat t) ≠ [] → n0 < (multiArgs (flat t)).length)
    (hsig : sig.Perm (List.range (argsIds ((multiArgs (flat t)).getD n0 0) (arities (flat t))).length))
    (hsh : shuffler ((argsIds ((multiArgs (flat t)).getD n0 0) (arities (flat t))).map Int.ofNat) 0 =
      (sig.map fun j => (argsIds ((multiArgs (flat t)).getD n0 0) (arities (flat t))).getD j 0).map Int.ofNat) :
    ∃ c, swap_mutation (symsI (flat t)) (arsI (flat t)) proba maxLeve (u :: urest) ((n0 : Int) :: nrest) shuffler =
        some [symsI c, arsI c] ∧ WF arity c ∧ c.Perm (flat t) ∧ depth c = depth (flat t) := by
  refine ⟨_, C08_src_swap_mutation t proba maxLeve u urest n0 nrest shuffler sig h0 hsig hsh, ?_⟩
  have hwf := wf_flat arity t hc
  unfold swapRun
  by_cases hu : u < proba
  · by_cases hm : multiArgs (flat t) = []
    · simp [hu, hm, hwf]
    · simp only [hu, decide_true, if_true, hm, if_false]
      have hmem : (multiArgs (flat t)).getD n0 0 ∈ multiArgs (flat t) := by
        have := h0 hm
        simp [List.getD_eq_getElem?_getD, this]
      obtain ⟨hlt, -⟩ := mem_multiArgs _ _ hmem
      have hn : (argsIds ((multiArgs (flat t)).getD n0 0) (arities (flat t))).length =
          ((flat t).getD ((multiArgs (flat t)).getD n0 0) (0, 0)).2 := by
        obtain ⟨pre, post, sub, ha, hp⟩ := context (flat t) (wfAux_flat_self t) _ hlt
        rw [← hp, ha]
        cases sub with
        | node s ks => rw [argsIds_flat, getD_context]; simp [RT.kids]
      rw [hn] at hsig
      exact C08_swapMut arity (flat t) hwf _ hlt _ (invPerm_perm hsig)
  · simp [hu, hwf]

end TFV.SrcTie
