/- Source tie for C14: `SelfCGA._adapt` as translated from /repo on this run (probability tables, operator arrays and
   the fitness vector as identifiers; `_find_fittest_operator`, `_get_new_proba`, `_choice_operators` as function
   parameters of their actual arguments and the call's ordinal).  The wiring of one adaptation step: each of the three
   tables (selection, crossover, mutation) is updated ONCE, from the operators of ITS OWN kind used in the generation
   just evaluated, with ITS OWN threshold, and the operators of the next generation are drawn from the UPDATED table
   of their own kind. -/
import TFV.Generated.Src.SelfCGA_adapt

namespace TFV.SrcTie
open TFV.Generated.Src TFV

theorem C14_src_selfcga_adapt (sp cp mp so co mo fit : Int)
    (fittestFn : Int → Int → Nat → Int) (newProbaFn : Int → Int → Int → Nat → Int) (choiceFn : Int → Nat → Int)
    (ts tc tm : Int) :
    SelfCGA_adapt [sp, cp, mp, so, co, mo] fit fittestFn newProbaFn choiceFn ts tc tm =
      some [newProbaFn sp (fittestFn so fit 0) ts 1,
            newProbaFn cp (fittestFn co fit 2) tc 3,
            newProbaFn mp (fittestFn mo fit 4) tm 5,
            choiceFn (newProbaFn sp (fittestFn so fit 0) ts 1) 6,
            choiceFn (newProbaFn cp (fittestFn co fit 2) tc 3) 7,
            choiceFn (newProbaFn mp (fittestFn mo fit 4) tm 5) 8] := by
  simp [SelfCGA_adapt, Imp.geti]

end TFV.SrcTie
