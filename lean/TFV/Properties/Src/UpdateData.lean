/- Source tie for C17: `EvolutionaryAlgorithm._update_data` as translated from /repo on this run (individuals as
   identifiers; the final `self._update_stats(**kwargs)` read as "these keyword values are recorded").  What is
   recorded for a generation is the generation's own three series, and max_fitness / max_g / max_ph are the fitness,
   genotype and phenotype AT THE SAME index — the first maximum of the fitness series; no array is read out of range. -/
import TFV.Generated.Src.EA_update_data
import TFV.Model.Select
import TFV.Lemmas.Select
import TFV.Lemmas.Src.Tournament

namespace TFV.SrcTie
open TFV.Generated.Src TFV

theorem C17_src_update_data (fit g ph : List Int) (hne : fit ≠ []) (hg : g.length = fit.length) (hph : ph.length = fit.length) :
    EA_update_data fit g ph =
      some [[fit.getD (Select.argmaxIdx fit) 0, g.getD (Select.argmaxIdx fit) 0, ph.getD (Select.argmaxIdx fit) 0], fit, g, ph] ∧
    Select.argmaxIdx fit < fit.length ∧ ∀ y ∈ fit, y ≤ fit.getD (Select.argmaxIdx fit) 0 := by
  obtain ⟨hlt, hmax⟩ := Select.argmaxIdx_spec fit hne
  refine ⟨?_, hlt, hmax⟩
  have hemp : fit.isEmpty = false := by cases fit with | nil => exact absurd rfl hne | cons a t => rfl
  have hi : ∀ (l : List Int), l.length = fit.length → Imp.inb l ((Select.argmaxIdx fit : Nat) : Int) = true := by
    intro l hl; simp [Imp.inb]; omega
  have hget : ∀ (l : List Int), Imp.geti l ((Select.argmaxIdx fit : Nat) : Int) = l.getD (Select.argmaxIdx fit) 0 := by
    intro l; simp [Imp.geti]
  simp only [EA_update_data, hemp, argmax_eq, hi fit rfl, hi g hg, hi ph hph, hget]
  simp

end TFV.SrcTie
