/- Source tie for C01 / C02: `TheFittest.get` and the base class's `_from_population_g_to_fitness` as translated from /repo on
   this run (individuals as identifiers; `_get_phenotype`, `_get_fitness` as function parameters; the effect of `_update_data()`
   on the record as `recordFn population_g population_ph fitness k` — tied separately by C01_src_update).  The order of one
   evaluation step: phenotypes of the CURRENT genotypes, their fitness, the record updated from exactly these three arrays, and
   only then — when elitism is on — the record's (genotype, phenotype, fitness), in `get()`'s order, written into the LAST
   slot of the three arrays together. -/
import TFV.Generated.Src.TheFittest_get
import TFV.Generated.Src.EA_from_population_g_to_fitness
import TFV.Generated.Src.DE_from_population_g_to_fitness
import TFV.Generated.Src.SHAGA_from_population_g_to_fitness
import TFV.Generated.Src.GA_from_population_g_to_fitness

namespace TFV.SrcTie
open TFV.Generated.Src TFV

theorem C01_src_thefittest_get (g p f c : Int) : TheFittest_get [g, p, f, c] = some [g, p, f] := by
  simp [TheFittest_get, Imp.geti]

theorem C02_src_evaluation_step (elitism : Bool) (g ph0 fit0 : List Int) (r0g r0p r0f c : Int)
    (phenFn fitFn : List Int → Nat → List Int) (recordFn : List Int → List Int → List Int → Nat → List Int)
    (rg rp rf : Int)
    (hrec : recordFn g (phenFn g 0) (fitFn (phenFn g 0) 1) 2 = [rg, rp, rf])
    (hne : elitism = true → g ≠ [] ∧ phenFn g 0 ≠ [] ∧ fitFn (phenFn g 0) 1 ≠ []) :
    EA_from_population_g_to_fitness elitism g ph0 fit0 r0g r0p r0f c phenFn fitFn recordFn =
      some (if elitism then
              [Imp.setlast g rg, Imp.setlast (phenFn g 0) rp, Imp.setlast (fitFn (phenFn g 0) 1) rf, [rg, rp, rf, c]]
            else [g, phenFn g 0, fitFn (phenFn g 0) 1, [rg, rp, rf, c]]) := by
  have hg := C01_src_thefittest_get rg rp rf c
  cases elitism with
  | false => simp [EA_from_population_g_to_fitness, hrec, Imp.geti]
  | true =>
    obtain ⟨h1, h2, h3⟩ := hne rfl
    have e1 : g.isEmpty = false := by cases g <;> simp_all
    have e2 : (phenFn g 0).isEmpty = false := by cases hh : phenFn g 0 <;> simp_all
    have e3 : (fitFn (phenFn g 0) 1).isEmpty = false := by cases hh : fitFn (phenFn g 0) 1 <;> simp_all
    have gg : ∀ (a b c' : Int), Imp.geti [a, b, c'] (0 : Int) = a ∧ Imp.geti [a, b, c'] (1 : Int) = b ∧ Imp.geti [a, b, c'] (2 : Int) = c' :=
      fun _ _ _ => ⟨rfl, rfl, rfl⟩
    simp [EA_from_population_g_to_fitness, hrec, hg, e1, e2, e3, (gg rg rp rf).1, (gg rg rp rf).2.1, (gg rg rp rf).2.2]

/-- the differential-evolution family (DE, jDE, SHADE inherit it): the population was already merged; the record is updated from it, then the elite goes into the last slot -/
theorem C02_src_de_record_step (elitism : Bool) (g ph fit : List Int) (r0g r0p r0f c : Int)
    (recordFn : List Int → List Int → List Int → Nat → List Int) (rg rp rf : Int)
    (hrec : recordFn g ph fit 0 = [rg, rp, rf])
    (hne : elitism = true → g ≠ [] ∧ ph ≠ [] ∧ fit ≠ []) :
    DE_from_population_g_to_fitness elitism g ph fit r0g r0p r0f c recordFn =
      some (if elitism then [Imp.setlast g rg, Imp.setlast ph rp, Imp.setlast fit rf, [rg, rp, rf, c]]
            else [g, ph, fit, [rg, rp, rf, c]]) := by
  have hg := C01_src_thefittest_get rg rp rf c
  cases elitism with
  | false => simp [DE_from_population_g_to_fitness, hrec, Imp.geti]
  | true =>
    obtain ⟨h1, h2, h3⟩ := hne rfl
    have e1 : g.isEmpty = false := by cases g <;> simp_all
    have e2 : ph.isEmpty = false := by cases ph <;> simp_all
    have e3 : fit.isEmpty = false := by cases fit <;> simp_all
    have gg : ∀ (a b c' : Int), Imp.geti [a, b, c'] (0 : Int) = a ∧ Imp.geti [a, b, c'] (1 : Int) = b ∧ Imp.geti [a, b, c'] (2 : Int) = c' :=
      fun _ _ _ => ⟨rfl, rfl, rfl⟩
    simp [DE_from_population_g_to_fitness, hrec, hg, e1, e2, e3, (gg rg rp rf).1, (gg rg rp rf).2.1, (gg rg rp rf).2.2]

/-- SHAGA's own copy of the same step -/
theorem C02_src_shaga_record_step (elitism : Bool) (g ph fit : List Int) (r0g r0p r0f c : Int)
    (recordFn : List Int → List Int → List Int → Nat → List Int) (rg rp rf : Int)
    (hrec : recordFn g ph fit 0 = [rg, rp, rf])
    (hne : elitism = true → g ≠ [] ∧ ph ≠ [] ∧ fit ≠ []) :
    SHAGA_from_population_g_to_fitness elitism g ph fit r0g r0p r0f c recordFn =
      some (if elitism then [Imp.setlast g rg, Imp.setlast ph rp, Imp.setlast fit rf, [rg, rp, rf, c]]
            else [g, ph, fit, [rg, rp, rf, c]]) := by
  have hg := C01_src_thefittest_get rg rp rf c
  cases elitism with
  | false => simp [SHAGA_from_population_g_to_fitness, hrec, Imp.geti]
  | true =>
    obtain ⟨h1, h2, h3⟩ := hne rfl
    have e1 : g.isEmpty = false := by cases g <;> simp_all
    have e2 : ph.isEmpty = false := by cases ph <;> simp_all
    have e3 : fit.isEmpty = false := by cases fit <;> simp_all
    have gg : ∀ (a b c' : Int), Imp.geti [a, b, c'] (0 : Int) = a ∧ Imp.geti [a, b, c'] (1 : Int) = b ∧ Imp.geti [a, b, c'] (2 : Int) = c' :=
      fun _ _ _ => ⟨rfl, rfl, rfl⟩
    simp [SHAGA_from_population_g_to_fitness, hrec, hg, e1, e2, e3, (gg rg rp rf).1, (gg rg rp rf).2.1, (gg rg rp rf).2.2]

/-- the GA family: the base class's step first (`stepFn` = its effect on the three arrays, C02_src_evaluation_step), then the
    scaled fitness and the ranks that selection and crossover read are computed from the fitness vector as it is AFTER that
    step — elite included -/
theorem C02_src_ga_evaluation_step (g ph fit sc rk : List Int) (scaleFn rankFn : List Int → Nat → List Int)
    (stepFn : List Int → List Int → List Int → Nat → List (List Int)) (g' ph' fit' : List Int)
    (hstep : stepFn g ph fit 0 = [g', ph', fit']) :
    GA_from_population_g_to_fitness g ph fit sc rk scaleFn rankFn stepFn = some [g', ph', fit', scaleFn fit' 1, rankFn fit' 2] := by
  have r0 : Imp.getrow [g', ph', fit'] (0 : Int) = g' := rfl
  have r1 : Imp.getrow [g', ph', fit'] (1 : Int) = ph' := rfl
  have r2 : Imp.getrow [g', ph', fit'] (2 : Int) = fit' := rfl
  simp [GA_from_population_g_to_fitness, hstep, r0, r1, r2]

end TFV.SrcTie
