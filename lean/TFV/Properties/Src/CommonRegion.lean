/- Source tie for C08 / C09: `common_region_two_trees` as translated from /repo on this run equals the
   model `Tree.commonRegion2` on every pair of well-formed trees, and makes no out-of-range access
   there (in particular the two traversals run off the end of their arrays together). -/
import TFV.Generated.Src.common_region_two_trees
import TFV.Model.Tree
import TFV.Lemmas.Src.CommonRegion

namespace TFV.SrcTie
open TFV.Generated.Src TFV.Tree

/-- the kernel's result `[common_1, common_2], [border_1, border_2]`, flattened -/
def crList (cr : CR2) : List (List Int) := [cr.c1, cr.c2, cr.b1, cr.b2].map fun l => l.map Int.ofNat

theorem C09_src_common_region_two_trees (t1 t2 : RT) :
    common_region_two_trees ((arities (flat t1)).map Int.ofNat) ((arities (flat t2)).map Int.ofNat) =
      some (crList (commonRegion2 (arities (flat t1)) (arities (flat t2)))) :=
  src_common_region_two_trees t1 t2

end TFV.SrcTie
