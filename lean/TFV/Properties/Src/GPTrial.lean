/- Source tie for C08: `GeneticProgramming._get_new_individ_g` as translated from /repo on this run (trees as
   identifiers; the operators looked up in the pools as `selFn`, `crossFn`, `mutFn` applied to the call's actual
   arguments and ordinal).  The theorem fixes the WIRING of one offspring: selection on (scaled fitness, ranks,
   tour_size, quantity), crossover on the SELECTED trees with their own scaled fitness and ranks and with max_level,
   mutation of the crossover's result with the universal set, the effective probability and max_level. -/
import TFV.Generated.Src.GP_get_new_individ_g

namespace TFV.SrcTie
open TFV.Generated.Src TFV

theorem C08_src_gp_offspring (scale rank pop : List Int) (maxLevel uniset : Int)
    (selFn : List Int → List Int → Int → Int → Nat → List Int)
    (crossFn : List Int → List Int → List Int → Int → Nat → Int) (mutFn : Int → Int → Int → Int → Nat → Int)
    (probaEff tour quantity proba : Int) (isConst : Bool)
    (hp : Imp.allInb pop (selFn scale rank tour quantity 0) = true)
    (hs : Imp.allInb scale (selFn scale rank tour quantity 0) = true)
    (hr : Imp.allInb rank (selFn scale rank tour quantity 0) = true) :
    GP_get_new_individ_g scale rank pop maxLevel uniset selFn crossFn mutFn probaEff tour quantity proba isConst =
      some (mutFn (crossFn (Imp.gather pop (selFn scale rank tour quantity 0))
                           (Imp.gather scale (selFn scale rank tour quantity 0))
                           (Imp.gather rank (selFn scale rank tour quantity 0)) maxLevel 1) uniset probaEff maxLevel 2) := by
  simp [GP_get_new_individ_g, hp, hs, hr]

end TFV.SrcTie
