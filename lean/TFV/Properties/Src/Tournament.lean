/- Source tie for C11: the three selection kernels of `utils/selections.py` as translated from /repo on
   this run.  `tournament_selection` equals the model `Select.tournament` per tournament, where the
   k-th tournament is what `random_sample(len(fitness), tour_size, replace=False)` returned —
   `sampler n q replace k` is the result of the k-th call with those ARGUMENTS, so the theorem also
   says which arguments the source passes.  `proportional_selection` / `rank_selection` return what
   `random_weighted_sample(fitness | rank, quantity, replace=True)` returned. -/
import TFV.Generated.Src.tournament_selection
import TFV.Generated.Src.proportional_selection
import TFV.Generated.Src.rank_selection
import TFV.Model.Select
import TFV.Lemmas.Src.Tournament
import TFV.Properties.Src.Sampling

namespace TFV.SrcTie
open TFV.Generated.Src

theorem C11_src_tournament_selection (fitness rank : List Int) (tourSize : Int) (q : Nat)
    (sampler : Int → Int → Bool → Nat → List Int) (smp : Nat → List Nat)
    (hs : ∀ k, k < q → sampler (fitness.length : Int) tourSize false k = (smp k).map Int.ofNat)
    (hne : ∀ k, k < q → smp k ≠ [])
    (hin : ∀ k, k < q → ∀ i ∈ smp k, i < fitness.length) :
    tournament_selection fitness rank tourSize (q : Int) sampler =
      some ((List.range q).map fun k => ((Select.tournament fitness (smp k) : Nat) : Int)) :=
  src_tournament_selection fitness rank tourSize q sampler smp hs hne hin

/-- fitness-proportional selection weighs by the FITNESS vector, with replacement, `quantity` draws -/
theorem C11_src_proportional_selection (fitness rank : List Int) (tourSize q : Int)
    (wsampler : List Int → Int → Bool → Nat → List Int) :
    proportional_selection fitness rank tourSize q wsampler = some (wsampler fitness q true 0) := by
  simp [proportional_selection]

/-- rank selection weighs by the RANK vector, with replacement, `quantity` draws -/
theorem C11_src_rank_selection (fitness rank : List Int) (tourSize q : Int)
    (wsampler : List Int → Int → Bool → Nat → List Int) :
    rank_selection fitness rank tourSize q wsampler = some (wsampler rank q true 0) := by
  simp [rank_selection]

/-- with `random_sample` as translated from the source: each tournament consists of `tour_size` DISTINCT
    individuals, and the winner of each is the model's `Select.tournament` -/
theorem C11_src_tournament_selection_distinct (fitness rank : List Int) (ts q : Nat) (hts : 1 ≤ ts)
    (sampler : Int → Int → Bool → Nat → List Int) (ns smp : Nat → List Nat)
    (hd : ∀ k, k < q → ∀ x ∈ ns k, x < fitness.length)
    (hr : ∀ k, k < q → Select.sampleNoRepl (ns k) ts [] = some (smp k))
    (hs : ∀ k, k < q → random_sample (fitness.length : Int) (ts : Int) false ((ns k).map Int.ofNat) =
      some (sampler (fitness.length : Int) (ts : Int) false k)) :
    tournament_selection fitness rank (ts : Int) (q : Int) sampler =
      some ((List.range q).map fun k => ((Select.tournament fitness (smp k) : Nat) : Int)) ∧
    ∀ k, k < q → (smp k).length = ts ∧ (smp k).Nodup ∧ ∀ i ∈ smp k, i < fitness.length := by
  have key : ∀ k, k < q → sampler (fitness.length : Int) (ts : Int) false k = (smp k).map Int.ofNat ∧
      (smp k).length = ts ∧ (smp k).Nodup ∧ ∀ i ∈ smp k, i < fitness.length := by
    intro k hk
    obtain ⟨he, hl, hnd, hlt⟩ :=
      C11_src_random_sample_distinct fitness.length ts fitness.length (ns k) (smp k) (hd k hk) (hr k hk)
    refine ⟨?_, hl, hnd, hlt⟩
    have := hs k hk
    rw [he] at this
    exact (Option.some.inj this).symm
  refine ⟨C11_src_tournament_selection fitness rank ts q sampler smp (fun k hk => (key k hk).1) ?_
    (fun k hk => (key k hk).2.2.2), fun k hk => (key k hk).2⟩
  intro k hk hnil
  have := (key k hk).2.1
  rw [hnil] at this
  simp at this
  omega

end TFV.SrcTie
