/- Source tie for C11: `tournament_selection` as translated from /repo on this run equals the model
   `Select.tournament` per tournament; `samples` = the successive results of the `random_sample`
   calls (each non-empty, with indices into `fitness`). -/
import TFV.Generated.Src.tournament_selection
import TFV.Model.Select
import TFV.Lemmas.Src.Tournament

namespace TFV.SrcTie
open TFV.Generated.Src

theorem C11_src_tournament_selection (fitness rank : List Int) (tourSize : Int) (q : Nat)
    (samples : List (List Nat)) (hq : q ≤ samples.length) (hne : ∀ r ∈ samples, r ≠ [])
    (hin : ∀ r ∈ samples, ∀ i ∈ r, i < fitness.length) :
    tournament_selection fitness rank tourSize (q : Int) (samples.map fun r => r.map Int.ofNat) =
      some ((samples.take q).map fun r => ((Select.tournament fitness r : Nat) : Int)) :=
  src_tournament_selection fitness rank tourSize q samples hq hne hin

end TFV.SrcTie
