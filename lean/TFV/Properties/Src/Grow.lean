/- Source tie for C08: the two tree-initialisation loops `Tree.full_growing_method` / `Tree.growing_method` as
   translated from /repo on this run — the draws of the universal set as `randF k` / `randT k` (k = ordinal of the
   call, both kinds counted together), `node._n_args` as `ar`, the coin of the growing method as the uniform draws
   `coins`, the `while` bounded by an explicit fuel — equal the model-side run `growRun`; and whatever `growRun`
   returns is accepted unchanged by the model `Tree.growInit`, so C08_growInit applies: the initial tree is
   well-formed and no deeper than max_level, for every universal set whose functional nodes have at least one
   argument and whose terminals have none. -/
import TFV.Lemmas.Src.Grow
import TFV.Generated.Src.Tree_random_tree
import TFV.Properties.Tree

namespace TFV.SrcTie
open TFV.Generated.Src TFV.Tree

theorem C08_src_full_growing_method (L fuel : Nat) (ar : Nat → Nat) (randF randT : Nat → Nat) (key : Int) (l : Flat)
    (hpos : ∀ k, 1 ≤ ar (randF k))
    (h : growRun true L ar randF randT key fuel [] = some l) :
    Tree_full_growing_method (L : Int) fuel (fun s => (ar s.toNat : Int)) (fun k => (randF k : Int)) (fun k => (randT k : Int)) =
      some [symsI l, arsI l] :=
  src_full_growing_method L fuel ar randF randT key l hpos h

theorem C08_src_growing_method (L fuel : Nat) (ar : Nat → Nat) (randF randT : Nat → Nat) (key : Int) (coins : List Int) (l : Flat)
    (hpos : ∀ k, 1 ≤ ar (randF k))
    (h : growRun false L ar randF randT key fuel coins = some l) :
    Tree_growing_method (L : Int) key coins fuel (fun s => (ar s.toNat : Int)) (fun k => (randF k : Int)) (fun k => (randT k : Int)) =
      some [symsI l, arsI l] :=
  src_growing_method L fuel ar randF randT key coins l hpos h

/-- C08 on the translated initialisation (both methods): the tree is well-formed and no deeper than max_level -/
theorem C08_src_init_closed (full : Bool) (L fuel : Nat) (ar : Nat → Nat) (randF randT : Nat → Nat) (key : Int)
    (coins : List Int) (l : Flat)
    (hpos : ∀ k, 1 ≤ ar (randF k)) (hT : ∀ k, ar (randT k) = 0)
    (h : growRun full L ar randF randT key fuel coins = some l) :
    WF ar l ∧ depth l ≤ L := by
  obtain ⟨h1, h2⟩ := growRun_growInit full L fuel ar randF randT key coins l (randT 0) hpos hT h
  exact C08_growInit ar L (randT 0) l l h2 (hT 0) h1

/-- the premises are satisfiable: a full tree of depth 1 over {f/2, x} -/
example : growRun true 1 (fun s => if s = 9 then 2 else 0) (fun _ => 9) (fun _ => 1) 0 10 [] =
    some [(9, 2), (1, 0), (1, 0)] := by decide

/-- `Tree.random_tree`: a coin between the two methods (`fullFn L` / `growFn L` = what `full_growing_method` /
    `growing_method` return for the bound `L`), both called with the bound that was passed in -/
theorem C08_src_random_tree (L key u : Int) (urest : List Int) (fullFn growFn : Int → List (List Int)) (a b c d : List Int)
    (hf : fullFn L = [a, b]) (hg : growFn L = [c, d]) :
    Tree_random_tree L key (u :: urest) fullFn growFn = some (if u < key then [a, b] else [c, d]) := by
  have g0 : Imp.geti (u :: urest) (0 : Int) = u := rfl
  have r0 : ∀ (x y : List Int), Imp.getrow [x, y] (0 : Int) = x := fun _ _ => rfl
  have r1 : ∀ (x y : List Int), Imp.getrow [x, y] (1 : Int) = y := fun _ _ => rfl
  unfold Tree_random_tree
  by_cases h : u < key
  · simp [h, g0, hf, r0, r1]
  · simp [h, g0, hg, r0, r1]

end TFV.SrcTie
