/-
  C20 — source ties for the basic benchmark functions of `benchmarks/_optproblems.py` that are pure
  elementwise numpy code: `OneMax.f`, `Sphere.f`, `Schwefe1_2.f`, `Rosenbrock.f`, `Rastrigin.f`, `Griewank.f`, `HighConditionedElliptic.f`, `Ackley.f`, `ExpandedScaffers_F6.Scaffes_F6`, and the wrapper `TestShiftedFunction.shift` / `__call__`.
  `TFV/Generated/Src/Bench_*_f.lean` are re-translated from /repo on every run (harness/extract/np2lean.py, floats
  read as field elements, `cos(2πa)` a function parameter); on every rectangular population they compute, row by
  row, the functions of `TFV.Model.Bench` whose lower bounds and optima the C20 theorems prove.
-/
import TFV.Model.NpQ
import TFV.Model.Bench
import TFV.Generated.Src.Bench_OneMax_f
import TFV.Generated.Src.Bench_Sphere_f
import TFV.Generated.Src.Bench_Schwefel12_f
import TFV.Generated.Src.Bench_Rosenbrock_f
import TFV.Generated.Src.Bench_Rastrigin_f
import TFV.Generated.Src.Bench_Griewank_f
import TFV.Generated.Src.Bench_Elliptic_f
import TFV.Generated.Src.Bench_Ackley_f
import TFV.Generated.Src.Bench_ScafferPair
import TFV.Generated.Src.Bench_Shifted_shift
import TFV.Generated.Src.Bench_Shifted_call
import TFV.Properties.Bench
import Mathlib.Tactic.Ring
import Mathlib.Tactic.NormNum

namespace TFV.Properties.Src.BenchKernels
open TFV.NpQ TFV.Bench TFV.Generated.Src

theorem accRow_eq (acc : Rat) (r : List Rat) : accRow acc r = accumulate acc r := by
  induction r generalizing acc with
  | nil => rfl
  | cons a as ih => simp [accRow, Bench.accumulate, ih]

theorem zipWith_map_map (f : Rat → Rat → Rat) (g h : Rat → Rat) (r : List Rat) :
    List.zipWith f (r.map g) (r.map h) = r.map fun a => f (g a) (h a) := by
  induction r with
  | nil => rfl
  | cons a as ih => simp [ih]

theorem zipWith_rows (G H : List Rat → List Rat) (rows : List (List Rat)) (f : Rat → Rat → Rat) :
    List.zipWith (List.zipWith f) (rows.map G) (rows.map H) = rows.map fun r => List.zipWith f (G r) (H r) := by
  induction rows with
  | nil => rfl
  | cons a as ih => simp [ih]

theorem zipWith_rows_vec (G H : List Rat → Rat) (rows : List (List Rat)) (f : Rat → Rat → Rat) :
    List.zipWith f (rows.map G) (rows.map H) = rows.map fun r => f (G r) (H r) := by
  induction rows with
  | nil => rfl
  | cons a as ih => simp [ih]

/-- `OneMax.f`: the row sums -/
theorem C20_src_onemax (m : Mat) : Bench_OneMax_f m = some (m.rows.map Bench.sum) := rfl

/-- `Sphere.f` = `sphere` on every row -/
theorem C20_src_sphere (m : Mat) : Bench_Sphere_f m = some (m.rows.map sphere) := by
  simp only [Bench_Sphere_f, sumRows, NpQ.map, List.map_map, pure]
  congr 1
  apply List.map_congr_left
  intro r _
  simp only [Function.comp, sphere, Bench.sum]
  congr 1
  apply List.map_congr_left
  intro a _
  ring

/-- `Schwefe1_2.f` = `schwefel12` on every row -/
theorem C20_src_schwefel12 (m : Mat) : Bench_Schwefel12_f m = some (m.rows.map schwefel12) := by
  simp only [Bench_Schwefel12_f, sumRows, NpQ.map, NpQ.accumulate, List.map_map, pure]
  congr 1
  apply List.map_congr_left
  intro r _
  simp only [Function.comp, schwefel12, Bench.sum, accRow_eq]
  congr 1
  apply List.map_congr_left
  intro a _
  ring

/-- `Rastrigin.f` = `rastrigin cs` on every row, `cs a` standing for `cos(2πa)` -/
theorem C20_src_rastrigin (cs : Rat → Rat) (m : Mat) : Bench_Rastrigin_f cs m = some (m.rows.map (rastrigin cs)) := by
  have hz : NpQ.zip (fun a b => a - b) (NpQ.map (fun a => a ^ 2) m) (NpQ.map (fun a => (10 : Rat) * a) (NpQ.map cs m))
      = some { ncols := m.ncols, rows := m.rows.map fun r => r.map fun a => a ^ 2 - 10 * cs a } := by
    simp only [NpQ.zip, NpQ.map, List.length_map, and_self, if_true, List.map_map]
    congr 2
    rw [zipWith_rows]
    apply List.map_congr_left
    intro r _
    simp only [Function.comp, List.map_map]
    rw [zipWith_map_map]
    rfl
  unfold Bench_Rastrigin_f
  rw [hz]
  simp only [bind, Option.bind, pure, sumRows, NpQ.map, List.map_map]
  congr 1
  apply List.map_congr_left
  intro r _
  simp only [Function.comp, rastrigin, Bench.sum, List.map_map]
  congr 1
  apply List.map_congr_left
  intro a _
  simp only [Function.comp]
  ring

/-- one row of the Rosenbrock expression, for a population with `n` columns -/
def rosenTerms (n : Nat) (r : List Rat) : List Rat :=
  List.zipWith (fun a b => a + b)
    (((List.zipWith (fun a b => a - b) ((r.take (n - 1)).map fun a => a ^ 2) (r.drop 1)).map fun a => a ^ 2).map fun a => (100 : Rat) * a)
    (((r.take (n - 1)).map fun a => a - (1 : Rat)).map fun a => a ^ 2)

theorem rosenTerms_eq : ∀ r : List Rat, (rosenTerms r.length r).foldr (· + ·) 0 = rosenbrock r
  | [] => by simp [rosenTerms, rosenbrock]
  | [a] => by simp [rosenTerms, rosenbrock]
  | a :: b :: rest => by
    have ih := rosenTerms_eq (b :: rest)
    unfold rosenTerms at ih ⊢
    simp only [List.length_cons, Nat.add_sub_cancel, List.take_succ_cons, List.map_cons, List.drop_succ_cons, List.drop_zero,
      List.zipWith_cons_cons, List.foldr_cons] at ih ⊢
    rw [rosenbrock, ← ih]
    ring

/-- `Rosenbrock.f` = `rosenbrock` on every row of a rectangular population -/
theorem C20_src_rosenbrock (m : Mat) (hwf : m.WF) : Bench_Rosenbrock_f m = some (m.rows.map rosenbrock) := by
  have h1 : NpQ.zip (fun a b => a - b) (NpQ.map (fun a => a ^ 2) (NpQ.colsDropLast m)) (NpQ.colsFrom1 m)
      = some { ncols := m.ncols - 1, rows := m.rows.map fun r =>
          List.zipWith (fun a b => a - b) ((r.take (m.ncols - 1)).map fun a => a ^ 2) (r.drop 1) } := by
    simp only [NpQ.zip, NpQ.map, NpQ.colsDropLast, NpQ.colsFrom1, List.length_map, and_self, if_true, List.map_map]
    congr 2
    exact zipWith_rows _ _ m.rows _
  unfold Bench_Rosenbrock_f
  rw [h1]
  simp only [bind, Option.bind]
  have h2 : NpQ.zip (fun a b => a + b)
      (NpQ.map (fun a => (100 : Rat) * a) (NpQ.map (fun a => a ^ 2)
        { ncols := m.ncols - 1, rows := m.rows.map fun r =>
          List.zipWith (fun a b => a - b) ((r.take (m.ncols - 1)).map fun a => a ^ 2) (r.drop 1) }))
      (NpQ.map (fun a => a ^ 2) (NpQ.map (fun a => a - (1 : Rat)) (NpQ.colsDropLast m)))
      = some { ncols := m.ncols - 1, rows := m.rows.map (rosenTerms m.ncols) } := by
    simp only [NpQ.zip, NpQ.map, NpQ.colsDropLast, List.length_map, and_self, if_true, List.map_map]
    congr 2
    exact zipWith_rows _ _ m.rows _
  rw [h2]
  simp only [pure, sumRows, List.map_map]
  congr 1
  apply List.map_congr_left
  intro r hr
  have := rosenTerms_eq r
  rw [hwf r hr] at this
  exact this

/-- non-vacuity: two concrete rows through the regenerated definitions -/
example : Bench_Rosenbrock_f { ncols := 3, rows := [[1, 1, 1], [0, 0, 0]] } = some [0, 2]
    ∧ Bench_Sphere_f { ncols := 2, rows := [[3, 4]] } = some [25]
    ∧ Bench_Schwefel12_f { ncols := 3, rows := [[1, 2, 3]] } = some [46] := by
  refine ⟨?_, ?_, ?_⟩ <;> decide +kernel

/-- `Griewank.f` = `griewank csi` on every row, `csi i a` standing for `cos(a / sqrt(i+1))` (column `i`): the sum of `a²/4000`, minus the
    product of the cosines, plus one -/
theorem C20_src_griewank (csi : Nat → Rat → Rat) (m : Mat) : Bench_Griewank_f csi m = some (m.rows.map (griewank csi)) := by
  unfold Bench_Griewank_f
  simp only [NpQ.vzip, sumRows, prodRows, NpQ.map, mapIdxCols, List.length_map, if_true, List.map_map, bind, Option.bind, pure]
  congr 1
  rw [zipWith_rows_vec]
  simp only [List.map_map]
  apply List.map_congr_left
  intro r _
  simp only [Function.comp, griewank, Bench.sum, Bench.prod]
  congr 3
  rw [List.map_map]
  apply List.map_congr_left
  intro a _
  simp only [Function.comp]
  ring

/-- the documented optimum read off the TRANSLATED source of `Griewank.f`: for any `csi` with the range of a cosine and `csi i 0 = 1`,
    every value the code returns is non-negative, and a population of zero rows is mapped to zeros -/
theorem C20_src_griewank_optimum (csi : Nat → Rat → Rat) (h1 : ∀ i a, -1 ≤ csi i a ∧ csi i a ≤ 1) (h0 : ∀ i, csi i 0 = 1) (m : Mat) :
    (∃ ys, Bench_Griewank_f csi m = some ys ∧ ys.length = m.rows.length ∧ ∀ y ∈ ys, 0 ≤ y) ∧
    ∀ k D : Nat, Bench_Griewank_f csi { ncols := D, rows := List.replicate k (List.replicate D 0) } = some (List.replicate k 0) := by
  refine ⟨⟨_, C20_src_griewank csi m, by simp, ?_⟩, ?_⟩
  · intro y hy
    obtain ⟨r, _, rfl⟩ := List.mem_map.mp hy
    exact (TFV.Bench.C20_griewank csi h1 h0 r).1
  · intro k D
    rw [C20_src_griewank]
    simp only [List.map_replicate]
    have := (TFV.Bench.C20_griewank csi h1 h0 (List.replicate D 0)).2
    simp only [List.length_replicate] at this
    rw [this]

example : Bench_Griewank_f (fun _ a => if a = 0 then 1 else 0) { ncols := 2, rows := [[0, 0], [20, 60]] } = some [0, 2] := by decide +kernel

/-- `HighConditionedElliptic.f` = `elliptic (cw D)` on every row of a population with `D` columns, `cw D j` standing for the condition
    weight `1e6 ** (j / (D - 1))` of column `j` -/
theorem C20_src_elliptic (cw : Nat → Nat → Rat) (m : Mat) : Bench_Elliptic_f cw m = some (m.rows.map (elliptic (cw m.ncols))) := by
  unfold Bench_Elliptic_f
  simp only [sumRows, NpQ.map, mapIdxCols, List.map_map, pure]
  congr 1
  apply List.map_congr_left
  intro r _
  simp only [Function.comp, elliptic, Bench.sum]
  congr 1
  apply List.ext_getElem?
  intro i
  simp only [List.getElem?_mapIdx, List.getElem?_map, Option.map_map]
  congr 1
  funext a
  simp only [Function.comp]
  ring

/-- bound and optimum read off the TRANSLATED source of `HighConditionedElliptic.f`: for positive weights every returned value is
    non-negative, and a population of zero rows is mapped to zeros -/
theorem C20_src_elliptic_optimum (cw : Nat → Nat → Rat) (hc : ∀ D j, 0 < cw D j) (m : Mat) :
    (∃ ys, Bench_Elliptic_f cw m = some ys ∧ ys.length = m.rows.length ∧ ∀ y ∈ ys, 0 ≤ y) ∧
    ∀ k D : Nat, Bench_Elliptic_f cw { ncols := D, rows := List.replicate k (List.replicate D 0) } = some (List.replicate k 0) := by
  refine ⟨⟨_, C20_src_elliptic cw m, by simp, ?_⟩, ?_⟩
  · intro y hy
    obtain ⟨r, _, rfl⟩ := List.mem_map.mp hy
    exact (TFV.Bench.C20_elliptic (cw m.ncols) (hc _) r).1
  · intro k D
    rw [C20_src_elliptic]
    simp only [List.map_replicate]
    have := (TFV.Bench.C20_elliptic (cw D) (hc _) (List.replicate D 0)).2
    simp only [List.length_replicate] at this
    rw [this]

example : Bench_Elliptic_f (fun _ j => if j = 0 then 1 else 1000000) { ncols := 2, rows := [[0, 0], [3, 2]] } = some [0, 4000009] := by decide +kernel

/-- `Ackley.f` = `ackley E R cs 20 (1/5)` on every row of a rectangular population, `E`, `R`, `cs` standing for `np.exp`, `np.sqrt` and
    `z ↦ cos(2πz)` -/
theorem C20_src_ackley (E R cs : Rat → Rat) (m : Mat) (hwf : m.WF) :
    Bench_Ackley_f E R cs m = some (m.rows.map (ackley E R cs 20 (1 / 5))) := by
  unfold Bench_Ackley_f
  simp only [NpQ.vzip, sumRows, NpQ.map, List.length_map, if_true, List.map_map, bind, Option.bind, pure]
  congr 1
  rw [zipWith_rows_vec]
  simp only [List.map_map]
  apply List.map_congr_left
  intro r hr
  have hl : (m.ncols : Rat) = (r.length : Rat) := by rw [hwf r hr]
  have h1 : r.map (fun a => a ^ 2) = r.map fun z => z * z := by
    apply List.map_congr_left
    intro a _
    ring
  simp only [Function.comp, ackley, Bench.sum, hl, h1]
  have h2 : (1 : Rat) / (r.length : Rat) * List.foldr (· + ·) 0 (r.map cs) = List.foldr (· + ·) 0 (r.map cs) / (r.length : Rat) := by ring
  rw [h2]
  ring

/-- bound and optimum read off the TRANSLATED source of `Ackley.f`, for any monotone `E` with `E 0 = 1`, any `R` that is non-negative on
    non-negative arguments with `R 0 = 0`, any `cs ≤ 1` with `cs 0 = 1`: on a rectangular population with at least one column every
    returned value is non-negative, and zero rows are mapped to zeros -/
theorem C20_src_ackley_optimum (E R cs : Rat → Rat)
    (hEmono : ∀ u v, u ≤ v → E u ≤ E v) (hE0 : E 0 = 1) (hR : ∀ u, 0 ≤ u → 0 ≤ R u) (hR0 : R 0 = 0)
    (hc : ∀ z, cs z ≤ 1) (hc0 : cs 0 = 1) (m : Mat) (hwf : m.WF) (hD : 0 < m.ncols) :
    (∃ ys, Bench_Ackley_f E R cs m = some ys ∧ ys.length = m.rows.length ∧ ∀ y ∈ ys, 0 ≤ y) ∧
    ∀ k D : Nat, 0 < D →
      Bench_Ackley_f E R cs { ncols := D, rows := List.replicate k (List.replicate D 0) } = some (List.replicate k 0) := by
  refine ⟨⟨_, C20_src_ackley E R cs m hwf, by simp, ?_⟩, ?_⟩
  · intro y hy
    obtain ⟨r, hr, rfl⟩ := List.mem_map.mp hy
    have hne : r ≠ [] := by
      intro h
      have := hwf r hr
      rw [h] at this
      simp at this
      omega
    exact (TFV.Bench.C20_ackley E R cs 20 (1 / 5) (by norm_num) (by norm_num) hEmono hE0 hR hR0 hc hc0 r hne).1
  · intro k D hD'
    have hwf' : ({ ncols := D, rows := List.replicate k (List.replicate D 0) } : Mat).WF := by
      intro r hr
      rw [List.eq_of_mem_replicate hr]
      simp
    rw [C20_src_ackley E R cs _ hwf']
    simp only [List.map_replicate]
    have hne : List.replicate D (0 : Rat) ≠ [] := by
      intro h
      have := congrArg List.length h
      simp at this
      omega
    have := (TFV.Bench.C20_ackley E R cs 20 (1 / 5) (by norm_num) (by norm_num) hEmono hE0 hR hR0 hc hc0 (List.replicate D 0) hne).2
    simp only [List.length_replicate] at this
    rw [this]

example : Bench_Ackley_f (fun u => if u < 0 then 0 else 1) (fun u => u) (fun z => if z = 0 then 1 else 0) { ncols := 2, rows := [[0, 0], [3, 4]] }
    = some [0, 20] := by decide +kernel

theorem zipWith_rows_vec' {α : Type} (G H : α → Rat) (rows : List α) (f : Rat → Rat → Rat) :
    List.zipWith f (rows.map G) (rows.map H) = rows.map fun r => f (G r) (H r) := by
  induction rows with
  | nil => rfl
  | cons a as ih => simp [ih]

/-- `ExpandedScaffers_F6.Scaffes_F6` = `scafferPair sn2` of the first two entries of every row (an array with fewer than two columns is an
    IndexError), `sn2 s` standing for `sin²(√s)` -/
theorem C20_src_scaffer_pair (sn2 : Rat → Rat) (m : Mat) (h2 : 2 ≤ m.ncols) :
    Bench_ScafferPair sn2 m = some (m.rows.map fun r => scafferPair sn2 (r.getD 0 0) (r.getD 1 0)) := by
  have h0 : 0 < m.ncols := by omega
  have h1 : 1 < m.ncols := by omega
  unfold Bench_ScafferPair
  simp only [NpQ.col, h0, h1, NpQ.vzip, List.length_map, if_true, List.map_map, bind, Option.bind, pure]
  congr 1
  rw [zipWith_rows_vec']
  simp only [List.map_map]
  rw [zipWith_rows_vec']
  simp only [List.map_map]
  apply List.map_congr_left
  intro r _
  simp only [Function.comp, scafferPair]
  have hs : r.getD 0 0 ^ 2 + r.getD 1 0 ^ 2 = r.getD 0 0 * r.getD 0 0 + r.getD 1 0 * r.getD 1 0 := by ring
  rw [hs]
  ring

/-- without a second column the real function raises IndexError; the translated one is `none` -/
theorem C20_src_scaffer_pair_reject (sn2 : Rat → Rat) (m : Mat) (h2 : m.ncols < 2) : Bench_ScafferPair sn2 m = none := by
  unfold Bench_ScafferPair
  by_cases h0 : 0 < m.ncols
  · have h1 : ¬ 1 < m.ncols := by omega
    simp [NpQ.col, h0, h1, bind, Option.bind]
  · simp [NpQ.col, h0, bind, Option.bind]

example : Bench_ScafferPair (fun s => if s = 0 then 0 else 1) { ncols := 2, rows := [[0, 0], [30, 10]] } = some [0, 5 / 8] := by
  rw [C20_src_scaffer_pair _ _ (by decide)]
  norm_num [scafferPair]

/-- `TestShiftedFunction.shift` on a population with `D` columns and a shift table with at least `D` entries: the first `D` entries are
    subtracted from every row -/
theorem C20_src_shift (o : List Rat) (m : Mat) (hlen : m.ncols ≤ o.length) :
    Bench_Shifted_shift o m = some { ncols := m.ncols, rows := m.rows.map fun r => vsub r (o.take m.ncols) } := by
  unfold Bench_Shifted_shift
  have h : (o.take m.ncols).length = m.ncols := by simp [List.length_take]; omega
  simp only [NpQ.subRow, h, if_true]
  rfl

/-- a shift table that is too short is a shape error - unless it has length one or the population has one column, which numpy broadcasts -/
theorem C20_src_shift_reject (o : List Rat) (m : Mat) (hlen : o.length < m.ncols) (h1 : o.length ≠ 1) (hc : m.ncols ≠ 1) :
    Bench_Shifted_shift o m = none := by
  unfold Bench_Shifted_shift
  have h : (o.take m.ncols).length = o.length := by simp [List.length_take]; omega
  have hne : ¬ o.length = m.ncols := by omega
  simp [NpQ.subRow, h, hne, h1, hc]

/-- `TestShiftedFunction.__call__` with a row-wise base function `g`: every row `x` is mapped to `g (x − o[:D]) + bias`, the model's `shifted` -/
theorem C20_src_shifted_call (g : List Rat → Rat) (f : Mat → Option (List Rat)) (hf : ∀ z : Mat, f z = some (z.rows.map g))
    (o : List Rat) (bias : Rat) (m : Mat) (hlen : m.ncols ≤ o.length) :
    Bench_Shifted_call f o bias m = some (m.rows.map (shifted g (o.take m.ncols) bias)) := by
  unfold Bench_Shifted_call
  rw [C20_src_shift o m hlen]
  simp only [bind, Option.bind, hf, pure, List.map_map]
  rfl

/-- bound and optimum read off the TRANSLATED wrapper: for a non-negative row-wise base function vanishing at the origin, every value the
    call returns is at least the bias, and the row `o[:D]` (the shifted optimal point for the dimension in use) is mapped to the bias -/
theorem C20_src_shifted_optimum (g : List Rat → Rat) (f : Mat → Option (List Rat)) (hf : ∀ z : Mat, f z = some (z.rows.map g))
    (hg : ∀ z, 0 ≤ g z) (hg0 : ∀ n, g (List.replicate n 0) = 0)
    (o : List Rat) (bias : Rat) (m : Mat) (hlen : m.ncols ≤ o.length) :
    (∃ ys, Bench_Shifted_call f o bias m = some ys ∧ ys.length = m.rows.length ∧ ∀ y ∈ ys, bias ≤ y) ∧
    Bench_Shifted_call f o bias { ncols := m.ncols, rows := [o.take m.ncols] } = some [bias] := by
  refine ⟨⟨_, C20_src_shifted_call g f hf o bias m hlen, by simp, ?_⟩, ?_⟩
  · intro y hy
    obtain ⟨r, _, rfl⟩ := List.mem_map.mp hy
    exact (TFV.Bench.C20_shifted g (o.take m.ncols) bias hg (hg0 _)).1 r
  · rw [C20_src_shifted_call g f hf o bias { ncols := m.ncols, rows := [o.take m.ncols] } hlen]
    simp only [List.map_cons, List.map_nil]
    rw [(TFV.Bench.C20_shifted g (o.take m.ncols) bias hg (hg0 _)).2]

/-- CEC2005 F1 (shifted sphere) read ENTIRELY off translated code - the wrapper `TestShiftedFunction.__call__` around `Sphere.f`: every
    value is at least the bias and the first D table entries are mapped to the bias, for every D up to the table length -/
theorem C20_src_F1_optimum (o : List Rat) (bias : Rat) (m : Mat) (hlen : m.ncols ≤ o.length) :
    (∃ ys, Bench_Shifted_call Bench_Sphere_f o bias m = some ys ∧ ys.length = m.rows.length ∧ ∀ y ∈ ys, bias ≤ y) ∧
    Bench_Shifted_call Bench_Sphere_f o bias { ncols := m.ncols, rows := [o.take m.ncols] } = some [bias] :=
  C20_src_shifted_optimum sphere Bench_Sphere_f C20_src_sphere (fun z => (TFV.Bench.C20_sphere z).1)
    (fun n => ((TFV.Bench.C20_sphere (List.replicate n 0)).2).mpr (fun a ha => List.eq_of_mem_replicate ha)) o bias m hlen

/-- CEC2005 F2 (shifted Schwefel 1.2) the same way -/
theorem C20_src_F2_optimum (o : List Rat) (bias : Rat) (m : Mat) (hlen : m.ncols ≤ o.length) :
    (∃ ys, Bench_Shifted_call Bench_Schwefel12_f o bias m = some ys ∧ ys.length = m.rows.length ∧ ∀ y ∈ ys, bias ≤ y) ∧
    Bench_Shifted_call Bench_Schwefel12_f o bias { ncols := m.ncols, rows := [o.take m.ncols] } = some [bias] :=
  C20_src_shifted_optimum schwefel12 Bench_Schwefel12_f C20_src_schwefel12 (fun z => (TFV.Bench.C20_schwefel12 z).1)
    (fun n => by simpa using (TFV.Bench.C20_schwefel12 (List.replicate n 0)).2) o bias m hlen

/-- CEC2005 F9 (shifted Rastrigin) the same way, for every `cs ≤ 1` with `cs 0 = 1` -/
theorem C20_src_F9_optimum (cs : Rat → Rat) (h1 : ∀ a, cs a ≤ 1) (h0 : cs 0 = 1) (o : List Rat) (bias : Rat) (m : Mat) (hlen : m.ncols ≤ o.length) :
    (∃ ys, Bench_Shifted_call (Bench_Rastrigin_f cs) o bias m = some ys ∧ ys.length = m.rows.length ∧ ∀ y ∈ ys, bias ≤ y) ∧
    Bench_Shifted_call (Bench_Rastrigin_f cs) o bias { ncols := m.ncols, rows := [o.take m.ncols] } = some [bias] :=
  C20_src_shifted_optimum (rastrigin cs) (Bench_Rastrigin_f cs) (C20_src_rastrigin cs) (fun z => (TFV.Bench.C20_rastrigin cs h1 h0 z).1)
    (fun n => by simpa using (TFV.Bench.C20_rastrigin cs h1 h0 (List.replicate n 0)).2) o bias m hlen

end TFV.Properties.Src.BenchKernels
