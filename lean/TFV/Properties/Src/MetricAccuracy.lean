/-
  C19 — source tie for `accuracy_score` (`utils/_metrics.py`): the three whole-array statements (equality mask, integer
  cast, mean) as re-translated from /repo on every run (harness/extract/np2lean.py) equal `Metrics.accuracy` of the
  model, which `C19_accuracy` proves equal to the textbook definition.
-/
import TFV.Model.Np
import TFV.Model.Metrics
import TFV.Lemmas.Src.MetricCounts
import TFV.Generated.Src.Metrics_accuracy_score
import TFV.Generated.Src.Metrics_mse
import TFV.Generated.Src.Metrics_r2
import TFV.Lemmas.Metrics
import TFV.Lemmas.Select
import Mathlib.Tactic.Linarith
import Mathlib.Tactic.FieldSimp
import TFV.Model.NpQ
import Mathlib.Tactic.Ring
import Mathlib.Data.Rat.Defs

namespace TFV.SrcTie
open TFV.Generated.Src TFV.Metrics

theorem foldl_mask_cast (yt yp : List Nat) (acc : Int) :
    (((List.zipWith (fun (x y : Int) => if x = y then (1 : Int) else 0) (natsI yt) (natsI yp)).foldl (· + ·) acc : Int) : Rat)
      = ((yt.zip yp).map fun (p : Nat × Nat) => if p.1 = p.2 then (1 : Rat) else 0).foldl (· + ·) (acc : Rat) := by
  induction yt generalizing yp acc with
  | nil => simp [natsI]
  | cons t ts ih =>
    cases yp with
    | nil => simp [natsI]
    | cons p ps =>
      have := ih ps (acc + if (Int.ofNat t) = (Int.ofNat p) then 1 else 0)
      simp only [natsI, List.map_cons, List.zipWith_cons_cons, List.foldl_cons, List.zip_cons_cons] at this ⊢
      rw [this]
      congr 1
      by_cases h : t = p
      · subst h; simp
      · have : ¬ (Int.ofNat t = Int.ofNat p) := by
          intro hh; exact h (Int.ofNat.inj hh)
        simp [h]

/-- `accuracy_score` = `Metrics.accuracy` for equally long, non-empty label vectors -/
theorem C19_src_accuracy (yt yp : List Nat) (hl : yt.length = yp.length) (hne : yt ≠ []) :
    Metrics_accuracy_score (natsI yt) (natsI yp) = some (accuracy yt yp) := by
  have hlen : (natsI yt).length = (natsI yp).length := by simp [natsI, hl]
  have hz : (List.zipWith (fun (x y : Int) => if x = y then (1 : Int) else 0) (natsI yt) (natsI yp)).length = yt.length := by
    simp [natsI, hl]
  have hpos : yt.length ≠ 0 := by
    intro h; exact hne (List.length_eq_zero_iff.mp h)
  unfold Metrics_accuracy_score
  simp only [Np.eqMask, hlen, if_true, bind, Option.bind, Np.meanQ, hz, hpos, if_false, pure]
  congr 1
  rw [foldl_mask_cast yt yp 0]
  simp only [accuracy, mean, sumR, List.length_map, List.length_zip, hl, Nat.min_self, Int.cast_zero]

/-- unequal lengths are rejected, the empty vector has no mean -/
theorem C19_src_accuracy_rejects (a b : List Int) (h : a.length ≠ b.length ∨ a = []) (hb : a = [] → b = []) :
    Metrics_accuracy_score a b = none := by
  unfold Metrics_accuracy_score
  rcases h with h | h
  · simp [Np.eqMask, h]
  · subst h
    have := hb rfl
    subst this
    simp [Np.eqMask, Np.meanQ]

theorem zipWith_sq_eq (yt yp : List Rat) :
    (List.zipWith (fun a b => a - b) yt yp).map (fun a => a ^ 2) = (yt.zip yp).map fun (p : Rat × Rat) => (p.1 - p.2) * (p.1 - p.2) := by
  induction yt generalizing yp with
  | nil => simp
  | cons a as ih =>
    cases yp with
    | nil => simp
    | cons b bs => simp only [List.zipWith_cons_cons, List.map_cons, List.zip_cons_cons, ih]; congr 1; ring

/-- the mean squared error inside `root_mean_square_error` (everything before the square root) = `Metrics.mse`, for equally long
    non-empty vectors (floats read as field elements); with `C19_mse`: it is ≥ 0 and 0 exactly for a perfect prediction -/
theorem C19_src_mse (yt yp : List Rat) (hl : yt.length = yp.length) (hne : yt ≠ []) :
    Metrics_mse yt yp = some (mse yt yp) := by
  have hpos : yt.length ≠ 0 := by
    intro h; exact hne (List.length_eq_zero_iff.mp h)
  have hz : ((List.zipWith (fun a b => a - b) yt yp).map (fun a => a ^ 2)).length = yt.length := by simp [hl]
  unfold Metrics_mse
  simp only [NpQ.vzip, hl, if_true, bind, Option.bind, NpQ.vmean, hz, pure]
  rw [zipWith_sq_eq]
  have hpos' : yp.length ≠ 0 := by rw [← hl]; exact hpos
  simp only [mse, mean, sumR, List.length_map, List.length_zip, hl, Nat.min_self, hpos', if_false]

theorem sumR_const (l : List Rat) (c : Rat) (h : ∀ a ∈ l, a = c) : sumR l = (l.length : Rat) * c := by
  rw [sumR_eq_sum]
  induction l with
  | nil => simp
  | cons x xs ih =>
    rw [List.sum_cons, ih (fun a ha => h a (by simp [ha])), h x (by simp), List.length_cons]
    push_cast
    ring

/-- a vector whose maximum equals its minimum is constant, so its total sum of squares is 0: the second disjunct of the coded test
    adds nothing in exact arithmetic (it was added for floats: finding F18) -/
theorem tot_zero_of_max_eq_min (yt : List Rat) (hne : yt ≠ [])
    (h : TFV.Select.listMax yt = TFV.Select.listMin yt) :
    sumR (yt.map fun a => (a - mean yt) * (a - mean yt)) = 0 := by
  obtain ⟨hmax, _⟩ := TFV.Select.listMax_spec yt hne
  obtain ⟨hmin, _⟩ := TFV.Select.listMin_spec yt hne
  have hall : ∀ a ∈ yt, a = TFV.Select.listMax yt := by
    intro a ha
    have h1 := hmax a ha
    have h2 := hmin a ha
    rw [← h] at h2
    exact le_antisymm h1 h2
  have hlen : (yt.length : Rat) ≠ 0 := by
    have : yt.length ≠ 0 := fun h0 => hne (List.length_eq_zero_iff.mp h0)
    exact_mod_cast this
  have hmean : mean yt = TFV.Select.listMax yt := by
    unfold mean
    rw [sumR_const yt _ hall]
    field_simp
  rw [sumR_eq_sum]
  apply sum_map_zero
  intro a ha
  rw [hmean, hall a ha]
  ring

/-- `coefficient_determination` = `Metrics.r2` for equally long non-empty vectors (floats read as rationals, the literal `1e-10`
    as 1/10¹⁰) -/
theorem C19_src_r2 (yt yp : List Rat) (hl : yt.length = yp.length) (hne : yt ≠ []) :
    Metrics_r2 yt yp = some (r2 yt yp) := by
  have hpos : yt.length ≠ 0 := fun h => hne (List.length_eq_zero_iff.mp h)
  have hmean : NpQ.vmean yt = some (mean yt) := by simp [NpQ.vmean, hpos, mean, sumR]
  obtain ⟨x, xs, rfl⟩ : ∃ x xs, yt = x :: xs := by
    cases yt with
    | nil => exact absurd rfl hne
    | cons x xs => exact ⟨x, xs, rfl⟩
  have hmx : NpQ.vmax (x :: xs) = some (TFV.Select.listMax (x :: xs)) := rfl
  have hmn : NpQ.vmin (x :: xs) = some (TFV.Select.listMin (x :: xs)) := rfl
  have htot : NpQ.vsum (((x :: xs).map (fun a => a - mean (x :: xs))).map (fun a => a ^ 2))
      = sumR ((x :: xs).map fun a => (a - mean (x :: xs)) * (a - mean (x :: xs))) := by
    simp only [NpQ.vsum, sumR, List.map_map]
    congr 1
    apply List.map_congr_left
    intro a _
    simp only [Function.comp]
    ring
  have hres : ∀ e, NpQ.vzip (fun a b => a - b) (x :: xs) yp = some e →
      NpQ.vsum (e.map (fun a => a ^ 2)) = sumR (((x :: xs).zip yp).map fun (p : Rat × Rat) => (p.1 - p.2) * (p.1 - p.2)) := by
    intro e he
    simp only [NpQ.vzip, hl, if_true, Option.some.injEq] at he
    subst he
    rw [zipWith_sq_eq]
    rfl
  unfold Metrics_r2
  simp only []
  rw [hmean]
  simp only [bind, Option.bind]
  rw [hmx]
  simp only []
  rw [hmn]
  simp only [NpQ.vzip, hl, if_true, pure]
  rw [htot]
  have hr := hres (List.zipWith (fun a b => a - b) (x :: xs) yp) (by simp [NpQ.vzip, hl])
  rw [hr]
  simp only [r2]
  generalize hT : sumR ((x :: xs).map fun a => (a - mean (x :: xs)) * (a - mean (x :: xs))) = T
  have hmm : TFV.Select.listMax (x :: xs) = TFV.Select.listMin (x :: xs) → T = 0 := fun h => hT ▸ tot_zero_of_max_eq_min _ hne h
  by_cases h0 : T = 0
  · simp only [h0, true_or, if_true]
  · have hne' : ¬ (TFV.Select.listMax (x :: xs) = TFV.Select.listMin (x :: xs)) := fun h => h0 (hmm h)
    simp only [h0, hne', or_self, if_false]

example : Metrics_r2 [1, 2, 3] [1, 2, 4] = some (1 / 2) := by decide +kernel

example : Metrics_mse [1, 2, 4] [1, 0, 2] = some (8 / 3) := by decide +kernel

example : Metrics_accuracy_score [0, 1, 2, 1] [0, 2, 2, 1] = some (3 / 4) := by decide +kernel

end TFV.SrcTie
