/-
  C19 — source tie for `accuracy_score` (`utils/_metrics.py`): the three whole-array statements (equality mask, integer
  cast, mean) as re-translated from /repo on every run (harness/extract/np2lean.py) equal `Metrics.accuracy` of the
  model, which `C19_accuracy` proves equal to the textbook definition.
-/
import TFV.Model.Np
import TFV.Model.Metrics
import TFV.Lemmas.Src.MetricCounts
import TFV.Generated.Src.Metrics_accuracy_score
import TFV.Generated.Src.Metrics_mse
import TFV.Model.NpQ
import Mathlib.Tactic.Ring
import Mathlib.Data.Rat.Defs

namespace TFV.SrcTie
open TFV.Generated.Src TFV.Metrics

theorem foldl_mask_cast (yt yp : List Nat) (acc : Int) :
    (((List.zipWith (fun (x y : Int) => if x = y then (1 : Int) else 0) (natsI yt) (natsI yp)).foldl (· + ·) acc : Int) : Rat)
      = ((yt.zip yp).map fun (p : Nat × Nat) => if p.1 = p.2 then (1 : Rat) else 0).foldl (· + ·) (acc : Rat) := by
  induction yt generalizing yp acc with
  | nil => simp [natsI]
  | cons t ts ih =>
    cases yp with
    | nil => simp [natsI]
    | cons p ps =>
      have := ih ps (acc + if (Int.ofNat t) = (Int.ofNat p) then 1 else 0)
      simp only [natsI, List.map_cons, List.zipWith_cons_cons, List.foldl_cons, List.zip_cons_cons] at this ⊢
      rw [this]
      congr 1
      by_cases h : t = p
      · subst h; simp
      · have : ¬ (Int.ofNat t = Int.ofNat p) := by
          intro hh; exact h (Int.ofNat.inj hh)
        simp [h]

/-- `accuracy_score` = `Metrics.accuracy` for equally long, non-empty label vectors -/
theorem C19_src_accuracy (yt yp : List Nat) (hl : yt.length = yp.length) (hne : yt ≠ []) :
    Metrics_accuracy_score (natsI yt) (natsI yp) = some (accuracy yt yp) := by
  have hlen : (natsI yt).length = (natsI yp).length := by simp [natsI, hl]
  have hz : (List.zipWith (fun (x y : Int) => if x = y then (1 : Int) else 0) (natsI yt) (natsI yp)).length = yt.length := by
    simp [natsI, hl]
  have hpos : yt.length ≠ 0 := by
    intro h; exact hne (List.length_eq_zero_iff.mp h)
  unfold Metrics_accuracy_score
  simp only [Np.eqMask, hlen, if_true, bind, Option.bind, Np.meanQ, hz, hpos, if_false, pure]
  congr 1
  rw [foldl_mask_cast yt yp 0]
  simp only [accuracy, mean, sumR, List.length_map, List.length_zip, hl, Nat.min_self, Int.cast_zero]

/-- unequal lengths are rejected, the empty vector has no mean -/
theorem C19_src_accuracy_rejects (a b : List Int) (h : a.length ≠ b.length ∨ a = []) (hb : a = [] → b = []) :
    Metrics_accuracy_score a b = none := by
  unfold Metrics_accuracy_score
  rcases h with h | h
  · simp [Np.eqMask, h]
  · subst h
    have := hb rfl
    subst this
    simp [Np.eqMask, Np.meanQ]

theorem zipWith_sq_eq (yt yp : List Rat) :
    (List.zipWith (fun a b => a - b) yt yp).map (fun a => a ^ 2) = (yt.zip yp).map fun (p : Rat × Rat) => (p.1 - p.2) * (p.1 - p.2) := by
  induction yt generalizing yp with
  | nil => simp
  | cons a as ih =>
    cases yp with
    | nil => simp
    | cons b bs => simp only [List.zipWith_cons_cons, List.map_cons, List.zip_cons_cons, ih]; congr 1; ring

/-- the mean squared error inside `root_mean_square_error` (everything before the square root) = `Metrics.mse`, for equally long
    non-empty vectors (floats read as field elements); with `C19_mse`: it is ≥ 0 and 0 exactly for a perfect prediction -/
theorem C19_src_mse (yt yp : List Rat) (hl : yt.length = yp.length) (hne : yt ≠ []) :
    Metrics_mse yt yp = some (mse yt yp) := by
  have hpos : yt.length ≠ 0 := by
    intro h; exact hne (List.length_eq_zero_iff.mp h)
  have hz : ((List.zipWith (fun a b => a - b) yt yp).map (fun a => a ^ 2)).length = yt.length := by simp [hl]
  unfold Metrics_mse
  simp only [NpQ.vzip, hl, if_true, bind, Option.bind, NpQ.vmean, hz, pure]
  rw [zipWith_sq_eq]
  have hpos' : yp.length ≠ 0 := by rw [← hl]; exact hpos
  simp only [mse, mean, sumR, List.length_map, List.length_zip, hl, Nat.min_self, hpos', if_false]

example : Metrics_mse [1, 2, 4] [1, 0, 2] = some (8 / 3) := by decide +kernel

example : Metrics_accuracy_score [0, 1, 2, 1] [0, 2, 2, 1] = some (3 / 4) := by decide +kernel

end TFV.SrcTie
