/- Source tie for C06: `SHAGA._get_new_individ_g` as translated from /repo on this run (`tournament_selection`,
   `binomialGA`, `flip_mutation` as function parameters of their actual arguments and the call's ordinal; tied
   separately).  The wiring of one offspring: a tournament of TWO with ONE winner, keyed on the (sign-normalised)
   fitness in both key positions; the winner's row is the second parent; the crossover takes the current individual
   first and CR; the mutation takes the crossover's result and MR.  The population is read only at the winner. -/
import TFV.Generated.Src.SHAGA_get_new_individ_g

namespace TFV.SrcTie
open TFV.Generated.Src TFV

theorem C06_src_shaga_offspring (x : List Int) (MR CR : Int) (fit : List Int) (pop : List (List Int))
    (tourFn : List Int → List Int → Int → Int → Nat → List Int)
    (crossFn : List Int → List Int → Int → Nat → List Int) (flipFn : List Int → Int → Nat → List Int)
    (w : Int) (rest : List Int) (hw : tourFn fit fit 2 1 0 = w :: rest) (hin : Imp.inbM pop w = true) :
    SHAGA_get_new_individ_g x MR CR fit pop tourFn crossFn flipFn =
      some (flipFn (crossFn x (Imp.getrow pop w) CR 1) MR 2) := by
  have g0 : Imp.geti (w :: rest) 0 = w := rfl
  have i0 : Imp.inb (w :: rest) 0 = true := by simp [Imp.inb]
  simp [SHAGA_get_new_individ_g, hw, g0, i0, hin]

end TFV.SrcTie
