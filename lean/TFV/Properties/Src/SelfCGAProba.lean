/-
  C14 — source tie for `SelfCGA._get_new_proba` (inherited by SelfCGP) as re-translated from /repo on every run
  (harness/extract/np2lean.py, branching mode; the probability table read as the vector of its values in key order, the
  winning operator as the position of its key; floats as rationals).  It is `SelfConf.newProba` of the model: the winner
  gains K/iters, every entry loses K/(z·iters), the result is clipped to [threshold, 1] and renormalised - the function
  for which `C14_newProba_dist`, `C14_newProba_rule` and `C14_invariant` are proved.
-/
import TFV.Model.NpQ
import TFV.Model.SelfConf
import TFV.Lemmas.Metrics
import TFV.Generated.Src.SelfCGA_get_new_proba
import TFV.Generated.Src.SelfCGA_choice_operators

namespace TFV.Properties.Src.SelfCGAProba
open TFV.NpQ TFV.SelfConf TFV.Generated.Src

theorem vsum_eq_sum (l : List Rat) : vsum l = l.sum := by
  have := TFV.Metrics.sumR_eq_sum l
  simpa [vsum, TFV.Metrics.sumR] using this

theorem set_map_eq_mapIdx (p : List Rat) (w : Nat) (c d : Rat) (hw : w < p.length) :
    (p.set w (p.getD w 0 + c)).map (fun a => a - d) = p.mapIdx fun i x => (if i = w then x + c else x) - d := by
  apply List.ext_getElem
  · simp
  · intro i h1 h2
    simp only [List.length_map, List.length_set] at h1
    simp only [List.getElem_map, List.getElem_set, List.getElem_mapIdx]
    by_cases h : w = i
    · subst h
      simp [List.getD_eq_getElem?_getD, hw]
    · have h' : ¬ i = w := fun e => h e.symm
      simp [h, h']

theorem clip_eq (lo hi x : Rat) : NpQ.clip lo hi x = SelfConf.clip lo hi x := rfl

/-- `_get_new_proba` = `newProba` for a winner that is a key of the table -/
theorem C14_src_get_new_proba (K : Rat) (iters : Nat) (p : List Rat) (w : Nat) (thr : Rat) (hw : w < p.length) :
    SelfCGA_get_new_proba K (iters : Rat) p w thr = some (newProba p w K iters thr) := by
  unfold SelfCGA_get_new_proba
  simp only [addAt, hw, if_true, bind, Option.bind, List.length_set, sameLen, List.length_map, pure, List.map_map]
  simp only [newProba, clipped, bumped, vsum_eq_sum]
  have hb := set_map_eq_mapIdx p w (K / (iters : Rat)) (K / ((p.length : Rat) * (iters : Rat))) hw
  congr 1
  rw [← hb]
  simp only [List.map_map]
  rfl

/-- a winner that is not a key of the table is rejected (KeyError in the code) -/
theorem C14_src_get_new_proba_rejects (K iters : Rat) (p : List Rat) (w : Nat) (thr : Rat) (hw : p.length ≤ w) :
    SelfCGA_get_new_proba K iters p w thr = none := by
  unfold SelfCGA_get_new_proba
  have : ¬ w < p.length := by omega
  simp [addAt, this]

/-- `_choice_operators`: the next operators are the keys at the positions the sampler draws with the table's VALUES as weights,
    `pop_size` of them, with replacement (a sampler that stays in range, as `random_weighted_sample` provably does) -/
theorem C14_src_choice_operators (sampler : List Rat → Nat → Bool → List Nat) (pop : Nat) (p : List Rat)
    (hs : ∀ i ∈ sampler p pop true, i < p.length) :
    SelfCGA_choice_operators sampler pop p = some (sampler p pop true) := by
  unfold SelfCGA_choice_operators
  have hall : (sampler p pop true).all (fun i => decide (i < (List.range p.length).length)) = true := by
    rw [List.all_eq_true]
    intro i hi
    simpa using hs i hi
  have hmap : (sampler p pop true).map (fun i => (List.range p.length).getD i 0) = sampler p pop true := by
    conv => rhs; rw [← List.map_id (sampler p pop true)]
    apply List.map_congr_left
    intro i hi
    have := hs i hi
    simp [List.getD_eq_getElem?_getD, this]
  simp only [gatherN, hall, if_true, bind, Option.bind, pure, hmap]

/-- non-vacuity: a three-entry table whose second key wins -/
example : (1 : Nat) < ([1/2, 1/4, 1/4] : List Rat).length := by decide

end TFV.Properties.Src.SelfCGAProba
