/- Source tie for C11: `binary_search_interval`, `check_for_value`, `argsort_k` as translated from
   /repo on this run equal the models `Select.bsearch`, the duplicate test of `Select.sampleNoRepl`
   and `Select.argsortK`. -/
import TFV.Generated.Src.binary_search_interval
import TFV.Generated.Src.check_for_value
import TFV.Generated.Src.argsort_k
import TFV.Model.Select
import TFV.Lemmas.Src.Bsearch
import TFV.Properties.Select

namespace TFV.SrcTie
open TFV.Generated.Src

theorem C11_src_binary_search_interval (v : Int) (cum : List Int) (hne : cum ≠ []) :
    binary_search_interval v cum = some (Select.bsearch v cum : Int) :=
  src_bsearch v cum hne

/-- `check_for_value(value, index_array, end)` = "value occurs among the first `end` entries" -/
theorem C11_src_check_for_value (v : Int) (arr : List Int) (e : Nat) (he : e ≤ arr.length) :
    check_for_value v arr (e : Int) = some ((arr.take e).contains v) :=
  src_check_for_value v arr e he

theorem C11_src_argsort_k (vals : List Int) (k : Nat) (hk : k ≤ vals.length) :
    argsort_k vals (k : Int) = some ((Select.argsortK vals k).map Int.ofNat) :=
  src_argsort_k vals k hk

/-- C11 on the translated `binary_search_interval`: on a nondecreasing array that reaches `v` it
    returns the first index whose cumulative value is ≥ v, reading only inside the array -/
theorem C11_src_binary_search_first_ge (v : Int) (cum : List Int) (hm : Select.Mono cum) (hne : cum ≠ [])
    (hv : v ≤ cum.getLastD 0) :
    binary_search_interval v cum = some (Select.firstGe v cum : Int) := by
  rw [C11_src_binary_search_interval v cum hne, Select.C11_bsearch_eq_firstGe v cum hm hne hv]

end TFV.SrcTie
