/-
  C15 — source ties for the two success-history update rules that divide by the total improvement:
  `SHADE._update_u_CR` (improvement-weighted arithmetic mean of the successful CR) and `SHAGA._update_u` (improvement-weighted
  Lehmer mean, for both of SHAGA's memories), as re-translated from /repo on every run (harness/extract/np2lean.py, branching
  mode; floats read as rationals, so `np.isinf` is constantly False - the infinite-improvement branch added by the repair of
  finding F20 is a float matter and is exercised by the harness; `lehmer_mean` is a function parameter of SHAGA's rule).
  They equal `Adapt.updateCR` / `Adapt.updateU` of the model: without successes, or without a positive total improvement, the
  old cell is copied; otherwise the written value is the mean with weights `df / Σ df`.
-/
import TFV.Model.NpQ
import TFV.Model.Adapt
import TFV.Lemmas.Metrics
import TFV.Generated.Src.SHADE_update_u_CR
import TFV.Generated.Src.SHAGA_update_u
import TFV.Generated.Src.Lehmer_mean_weighted
import TFV.Generated.Src.Lehmer_mean_plain
import TFV.Generated.Src.SHAGA_randn
import TFV.Generated.Src.SHAGA_randc
import Mathlib.Tactic.Linarith
import Mathlib.Tactic.Ring

namespace TFV.Properties.Src.MemoryUpdate
open TFV.NpQ TFV.Adapt TFV.Generated.Src

theorem vsum_eq_sum (l : List Rat) : vsum l = l.sum := by
  have := TFV.Metrics.sumR_eq_sum l
  simpa [vsum, TFV.Metrics.sumR] using this

/-- `SHADE._update_u_CR` = `updateCR` (equally many successful CR and improvements) -/
theorem C15_src_shade_update_u_CR (u : Rat) (S df : List Rat) (hl : df.length = S.length) :
    SHADE_update_u_CR u S df = some (updateCR u S df) := by
  unfold SHADE_update_u_CR updateCR
  by_cases hS : S = []
  · subst hS; simp
  · have hlen : S.length ≠ 0 := fun h => hS (List.length_eq_zero_iff.mp h)
    have hne : S.isEmpty = false := by cases S with
      | nil => exact absurd rfl hS
      | cons _ _ => rfl
    by_cases hpos : 0 < df.sum
    · simp [hlen, hne, hpos, isinf, vzip, hl, vsum_eq_sum, dot, weights]
    · have hv : ¬ vsum df > 0 := by rw [vsum_eq_sum]; exact hpos
      simp [hlen, hne, hpos, hv]

/-- `SHAGA._update_u` = `updateU`, with `lehmer_mean(x=S, weight=w)` = `Adapt.lehmer S w` -/
theorem C15_src_shaga_update_u (u : Rat) (S df : List Rat) :
    SHAGA_update_u (fun x w => lehmer x w) u S df = some (updateU u S df) := by
  unfold SHAGA_update_u updateU
  by_cases hS : S = []
  · subst hS; simp
  · have hlen : S.length ≠ 0 := fun h => hS (List.length_eq_zero_iff.mp h)
    have hne : S.isEmpty = false := by cases S with
      | nil => exact absurd rfl hS
      | cons _ _ => rfl
    by_cases hpos : 0 < df.sum
    · simp [hlen, hne, hpos, isinf, vsum_eq_sum, weights]
    · have hv : ¬ vsum df > 0 := by rw [vsum_eq_sum]; exact hpos
      simp [hlen, hne, hpos, hv]

theorem zipWith_mul_map_sq (w x : List Rat) :
    List.zipWith (fun a b => a * b) w (x.map fun a => a ^ 2) = List.zipWith (· * ·) w (x.map fun a => a * a) := by
  induction w generalizing x with
  | nil => simp
  | cons a as ih =>
    cases x with
    | nil => simp
    | cons b bs => simp only [List.map_cons, List.zipWith_cons_cons, ih]; congr 1; ring

theorem zipWith_mul_map_one (w x : List Rat) :
    List.zipWith (fun a b => a * b) w (x.map fun a => a ^ 1) = List.zipWith (· * ·) w x := by
  induction w generalizing x with
  | nil => simp
  | cons a as ih =>
    cases x with
    | nil => simp
    | cons b bs => simp only [List.map_cons, List.zipWith_cons_cons, ih]; congr 1; ring

theorem zipWith_ones (x : List Rat) (g : Rat → Rat) :
    List.zipWith (· * ·) (x.map fun _ => (1 : Rat)) (x.map g) = x.map g := by
  induction x with
  | nil => rfl
  | cons a as ih => simp only [List.map_cons, List.zipWith_cons_cons, ih, one_mul]

/-- `lehmer_mean(x, weight=w)` (power 2) = `Adapt.lehmer x w` for equally long vectors -/
theorem C15_src_lehmer_mean_weighted (x w : List Rat) (hl : w.length = x.length) :
    Lehmer_mean_weighted x w = some (lehmer x w) := by
  unfold Lehmer_mean_weighted lehmer
  simp only [vzip, List.length_map, hl, if_true, bind, Option.bind, vsum_eq_sum, zipWith_mul_map_sq, zipWith_mul_map_one, dot, pure]
  by_cases h : (List.zipWith (· * ·) w x).sum = 0
  · simp [h]
  · simp [h]

/-- `lehmer_mean(x)` without weights = `Adapt.lehmer1 x` -/
theorem C15_src_lehmer_mean_plain (x : List Rat) : Lehmer_mean_plain x = some (lehmer1 x) := by
  have h1 : ((x.map fun a => a ^ 1).map fun a => (1 : Rat) * a) = x := by
    rw [List.map_map]
    conv => rhs; rw [← List.map_id x]
    apply List.map_congr_left
    intro a _
    simp
  have h2 : ((x.map fun a => a ^ 2).map fun a => (1 : Rat) * a) = x.map fun a => a * a := by
    rw [List.map_map]
    apply List.map_congr_left
    intro a _
    simp only [Function.comp]
    ring
  have hd : dot (x.map fun _ => (1 : Rat)) x = x.sum := by
    have := zipWith_ones x id
    simp only [List.map_id] at this
    simp only [dot]
    rw [this]
  have hu : dot (x.map fun _ => (1 : Rat)) (x.map fun a => a * a) = (x.map fun a => a * a).sum := by
    simp only [dot]
    rw [zipWith_ones]
  unfold Lehmer_mean_plain lehmer1 lehmer
  simp only [h1, h2, vsum_eq_sum, hd, hu, pure]
  by_cases h : x.sum = 0
  · simp [h]
  · simp [h]

/-- SHAGA's rule with the regenerated `lehmer_mean` plugged in for the function parameter (equally many successes and improvements) -/
theorem C15_src_shaga_update_u_composed (u : Rat) (S df : List Rat) (hl : df.length = S.length) :
    SHAGA_update_u (fun x w => (Lehmer_mean_weighted x w).getD 0) u S df = some (updateU u S df) := by
  have hw : ∀ w : List Rat, w.length = S.length → (Lehmer_mean_weighted S w).getD 0 = lehmer S w := by
    intro w h; rw [C15_src_lehmer_mean_weighted S w h]; rfl
  have h1 := hw (df.map fun a => a / vsum df) (by simp [hl])
  have h2 := hw ((visinf df).map fun a => a / vsum (visinf df)) (by simp [visinf, hl])
  have := C15_src_shaga_update_u u S df
  unfold SHAGA_update_u at this ⊢
  simp only [h1, h2] at this ⊢
  exact this

/-- `SHAGA._randn` = the drawn Cauchy value clamped to [0, 1] (`Adapt.randnCR`) -/
theorem C15_src_shaga_randn (cauchy : Rat → Rat → Nat → Rat) (u scale : Rat) :
    SHAGA_randn cauchy u scale = some (randnCR (cauchy u scale 0)) := by
  unfold SHAGA_randn randnCR
  by_cases h0 : cauchy u scale 0 < 0
  · simp [h0]
  · by_cases h1 : cauchy u scale 0 > 1
    · simp [h0, h1]
    · simp [h0, h1]

/-- ... hence a drawn CR of SHAGA lies in [0, 1] whatever the Cauchy generator returns -/
theorem C15_src_shaga_randn_range (cauchy : Rat → Rat → Nat → Rat) (u scale : Rat) :
    ∃ v, SHAGA_randn cauchy u scale = some v ∧ 0 ≤ v ∧ v ≤ 1 := by
  refine ⟨_, C15_src_shaga_randn cauchy u scale, ?_⟩
  unfold randnCR
  split
  · exact ⟨le_refl _, by norm_num⟩
  · split
    · exact ⟨by norm_num, le_refl _⟩
    · rename_i h0 h1
      exact ⟨not_lt.mp h0, not_lt.mp h1⟩

theorem randc_loop_eq (cauchy : Rat → Rat → Nat → Rat) (n : Nat) (u scale : Rat) (f : Nat) (v : Rat) (k : Nat) :
    SHAGA_randc.loop cauchy (n : Rat) u scale (f + 1) v k = randcMR n (v :: (List.range' k f).map (cauchy u scale)) := by
  induction f generalizing v k with
  | zero =>
    simp only [SHAGA_randc.loop, randcMR, List.range'_zero, List.map_nil, gt_iff_lt]
  | succ f ih =>
    rw [SHAGA_randc.loop, ih]
    simp only [randcMR, List.range'_succ, List.map_cons, gt_iff_lt]

/-- `SHAGA._randc` = the first of the successive Cauchy values that lies in (0, 5/str_len] (`Adapt.randcMR`; `none` when the first
    `fuel` values are all rejected - the coded loop would still be running) -/
theorem C15_src_shaga_randc (cauchy : Rat → Rat → Nat → Rat) (n : Nat) (u scale : Rat) (fuel : Nat) :
    SHAGA_randc cauchy (n : Rat) u scale (fuel + 1) = randcMR n ((List.range (fuel + 1)).map (cauchy u scale)) := by
  unfold SHAGA_randc
  simp only []
  rw [randc_loop_eq]
  have : (List.range (fuel + 1)).map (cauchy u scale) = cauchy u scale 0 :: (List.range' 1 fuel).map (cauchy u scale) := by
    rw [List.range_eq_range', List.range'_succ, List.map_cons]
  rw [this]
  cases randcMR n (cauchy u scale 0 :: (List.range' 1 fuel).map (cauchy u scale)) <;> rfl

example : Lehmer_mean_weighted [1/2, 1/4] [1, 3] = some (7/20) := by decide +kernel

example : SHADE_update_u_CR (1/2) [1/4, 3/4] [1, 3] = some (5/8) := by decide +kernel
example : SHADE_update_u_CR (1/2) [] [] = some (1/2) := by decide +kernel

end TFV.Properties.Src.MemoryUpdate
