/-
  C15 — source ties for the two success-history update rules that divide by the total improvement:
  `SHADE._update_u_CR` (improvement-weighted arithmetic mean of the successful CR) and `SHAGA._update_u` (improvement-weighted
  Lehmer mean, for both of SHAGA's memories), as re-translated from /repo on every run (harness/extract/np2lean.py, branching
  mode; floats read as rationals, so `np.isinf` is constantly False - the infinite-improvement branch added by the repair of
  finding F20 is a float matter and is exercised by the harness; `lehmer_mean` is a function parameter of SHAGA's rule).
  They equal `Adapt.updateCR` / `Adapt.updateU` of the model: without successes, or without a positive total improvement, the
  old cell is copied; otherwise the written value is the mean with weights `df / Σ df`.
-/
import TFV.Model.NpQ
import TFV.Model.Adapt
import TFV.Lemmas.Metrics
import TFV.Generated.Src.SHADE_update_u_CR
import TFV.Generated.Src.SHAGA_update_u

namespace TFV.Properties.Src.MemoryUpdate
open TFV.NpQ TFV.Adapt TFV.Generated.Src

theorem vsum_eq_sum (l : List Rat) : vsum l = l.sum := by
  have := TFV.Metrics.sumR_eq_sum l
  simpa [vsum, TFV.Metrics.sumR] using this

/-- `SHADE._update_u_CR` = `updateCR` (equally many successful CR and improvements) -/
theorem C15_src_shade_update_u_CR (u : Rat) (S df : List Rat) (hl : df.length = S.length) :
    SHADE_update_u_CR u S df = some (updateCR u S df) := by
  unfold SHADE_update_u_CR updateCR
  by_cases hS : S = []
  · subst hS; simp
  · have hlen : S.length ≠ 0 := fun h => hS (List.length_eq_zero_iff.mp h)
    have hne : S.isEmpty = false := by cases S with
      | nil => exact absurd rfl hS
      | cons _ _ => rfl
    by_cases hpos : 0 < df.sum
    · simp [hlen, hne, hpos, isinf, vzip, hl, vsum_eq_sum, dot, weights]
    · have hv : ¬ vsum df > 0 := by rw [vsum_eq_sum]; exact hpos
      simp [hlen, hne, hpos, hv]

/-- `SHAGA._update_u` = `updateU`, with `lehmer_mean(x=S, weight=w)` = `Adapt.lehmer S w` -/
theorem C15_src_shaga_update_u (u : Rat) (S df : List Rat) :
    SHAGA_update_u (fun x w => lehmer x w) u S df = some (updateU u S df) := by
  unfold SHAGA_update_u updateU
  by_cases hS : S = []
  · subst hS; simp
  · have hlen : S.length ≠ 0 := fun h => hS (List.length_eq_zero_iff.mp h)
    have hne : S.isEmpty = false := by cases S with
      | nil => exact absurd rfl hS
      | cons _ _ => rfl
    by_cases hpos : 0 < df.sum
    · simp [hlen, hne, hpos, isinf, vsum_eq_sum, weights]
    · have hv : ¬ vsum df > 0 := by rw [vsum_eq_sum]; exact hpos
      simp [hlen, hne, hpos, hv]

example : SHADE_update_u_CR (1/2) [1/4, 3/4] [1, 3] = some (5/8) := by decide +kernel
example : SHADE_update_u_CR (1/2) [] [] = some (1/2) := by decide +kernel

end TFV.Properties.Src.MemoryUpdate
