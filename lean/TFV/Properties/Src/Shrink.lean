/- Source tie for C08: the Python-level GP operator `shrink_mutation` as translated from /repo on this
   run — Tree values as pairs of arrays, the coin as the first uniform draw `u` (flip iff u < proba), the
   two index draws as `n0`, `n1` — equals the model run `shrinkRun`, i.e. `Tree.shrinkMut` at the
   drawn non-terminal position and argument, on every well-formed tree; all array accesses and all
   calls of the translated Tree methods stay in range. -/
import TFV.Generated.Src.shrink_mutation
import TFV.Model.Tree
import TFV.Lemmas.Src.ShrinkDefs
import TFV.Lemmas.Src.Shrink
import TFV.Properties.Tree

namespace TFV.SrcTie
open TFV.Generated.Src TFV.Tree

theorem C08_src_shrink_mutation (t : RT) (proba maxLevel u : Int) (urest : List Int) (n0 n1 : Nat) (nrest : List Int)
    (h0 : nonTerminals (flat t) ≠ [] → n0 < (nonTerminals (flat t)).length)
    (h1 : 1 < (argsIds ((nonTerminals (flat t)).getD n0 0) (arities (flat t))).length →
          n1 < (argsIds ((nonTerminals (flat t)).getD n0 0) (arities (flat t))).length) :
    shrink_mutation (symsI (flat t)) (arsI (flat t)) proba maxLevel (u :: urest) ((n0 : Int) :: (n1 : Int) :: nrest) =
      some [symsI (shrinkRun (flat t) (decide (u < proba)) n0 n1), arsI (shrinkRun (flat t) (decide (u < proba)) n0 n1)] :=
  src_shrink_mutation t proba maxLevel u urest n0 n1 nrest h0 h1

/-- C08 on the translated operator: whenever it changes the tree, the child is a well-formed tree, no deeper
    than the parent and strictly shorter (C08_shrinkMut at the drawn position `i` and an argument index `k` below the arity of that node) -/
theorem C08_src_shrink_closed (arity : Nat → Nat) (l : Flat) (h : WF arity l) (i k : Nat) (hi : i < l.length)
    (hk : k < (l.getD i (0, 0)).2) :
    WF arity (shrinkMut l i k) ∧ depth (shrinkMut l i k) ≤ depth l ∧ (shrinkMut l i k).length < l.length :=
  C08_shrinkMut arity l h i hi k hk

end TFV.SrcTie
