/-
  C07 — real-coded DE family: every candidate stays inside the search box.
  Every strategy, every F and CR (the mask is arbitrary, so CR = 0 and CR = 1 are included),
  every box with `left ≤ right` coordinate-wise (degenerate boxes included), every objective
  (the acceptance mask is arbitrary), every generation.
-/
import TFV.Model.DE
import TFV.Lemmas.DE

namespace TFV.DE

/-- a box: per-coordinate borders of a common length with `left ≤ right` -/
structure Box (left right : Vec) : Prop where
  hlen : left.length = right.length
  hle : ∀ i (hl : i < left.length) (hr : i < right.length), left[i] ≤ right[i]

/-- clamping lands in `[l, r]` and leaves inside values alone -/
theorem C07_clamp (l r x : Rat) (hlr : l ≤ r) :
    l ≤ clamp l r x ∧ clamp l r x ≤ r ∧ (l ≤ x → x ≤ r → clamp l r x = x) :=
  clamp_spec l r x hlr

/-- the SHADE repair lands in the box when the parent is in the box, and leaves inside values
    alone -/
theorem C07_clampMean (l r p x : Rat) (hlr : l ≤ r) (hp : l ≤ p ∧ p ≤ r) :
    l ≤ clampMean l r p x ∧ clampMean l r p x ≤ r ∧ (l ≤ x → x ≤ r → clampMean l r p x = x) :=
  clampMean_spec l r p x hlr hp

/-- boundary repair changes only the coordinates that were outside the box -/
theorem C07_repair_only_outside (x left right : Vec) (hb : Box left right) (hx : x.length = left.length) :
    InBox left right (boundsControl x left right) ∧
    ∀ i (h : i < x.length) (hl : i < left.length) (hr : i < right.length),
      left[i] ≤ x[i] → x[i] ≤ right[i] → (boundsControl x left right)[i]? = some x[i] :=
  repair_only_outside x left right hb.hlen hb.hle hx

theorem C07_repairMean_only_outside (x parent left right : Vec) (hb : Box left right)
    (hx : x.length = left.length) (hp : InBox left right parent) :
    InBox left right (boundsControlMean x parent left right) ∧
    ∀ i (h : i < x.length) (hl : i < left.length) (hr : i < right.length),
      left[i] ≤ x[i] → x[i] ≤ right[i] → (boundsControlMean x parent left right)[i]? = some x[i] :=
  repairMean_only_outside x parent left right hb.hlen hb.hle hx hp

/-- the trial takes the forced coordinate from the donor and every other coordinate from donor
    or parent -/
theorem C07_binomial (x m : Vec) (mask : List Bool) (j : Nat) (hl : x.length = m.length) :
    (binomial x m mask j).length = x.length ∧
    ∀ i (hi : i < x.length), (binomial x m mask j)[i]? =
      some (if mask.getD i false || i == j then m[i]'(hl ▸ hi) else x[i]) :=
  binomial_spec x m mask j hl

/-- donor vectors have `num_variables` coordinates -/
theorem C07_donor_length (s : Strategy) (cur best : Vec) (pop : List Vec) (F : Rat) (r : List Nat) (n : Nat)
    (hcur : cur.length = n) (hbest : best.length = n) (hpop : ∀ v ∈ pop, v.length = n)
    (hr : r.length = s.arity) (hri : ∀ i ∈ r, i < pop.length) :
    (donor s cur best pop F r).length = n :=
  donor_length s cur best pop F r n hcur hbest hpop hr hri

/-- F = 0 collapses every donor to its base vector (the scaled differences vanish) -/
theorem C07_donor_F0 (s : Strategy) (cur best : Vec) (pop : List Vec) (r : List Nat) (n : Nat)
    (hcur : cur.length = n) (hbest : best.length = n) (hpop : ∀ v ∈ pop, v.length = n)
    (hr : r.length = s.arity) (hri : ∀ i ∈ r, i < pop.length) :
    donor s cur best pop 0 r =
      (match s with
       | .best1 | .best2 => best
       | .rand1 => row pop (r.getD 2 0)
       | .currentToBest1 => cur
       | .randToBest1 => row pop (r.getD 0 0)
       | .rand2 => row pop (r.getD 4 0)) :=
  donor_F0 s cur best pop r n hcur hbest hpop hr hri

/-- coordinate-wise form of each donor (what "the configured strategy's combination scaled by F"
    means), e.g. rand_1: `x_r3 + F (x_r1 - x_r2)` -/
theorem C07_donor_coord (s : Strategy) (cur best : Vec) (pop : List Vec) (F : Rat) (r : List Nat) (n : Nat)
    (hcur : cur.length = n) (hbest : best.length = n) (hpop : ∀ v ∈ pop, v.length = n)
    (hr : r.length = s.arity) (hri : ∀ i ∈ r, i < pop.length) (k : Nat) (hk : k < n) :
    let x := fun (j : Nat) => (row pop (r.getD j 0)).getD k 0
    let c := cur.getD k 0
    let b := best.getD k 0
    (donor s cur best pop F r).getD k 0 =
      (match s with
       | .best1 => b + F * (x 0 - x 1)
       | .rand1 => x 2 + F * (x 0 - x 1)
       | .currentToBest1 => c + F * (b - c) + F * (x 0 - x 1)
       | .randToBest1 => x 0 + F * (b - x 0) + F * (x 1 - x 2)
       | .best2 => b + F * (x 0 - x 1) + F * (x 2 - x 3)
       | .rand2 => x 4 + F * (x 0 - x 1) + F * (x 2 - x 3)) :=
  donor_coord s cur best pop F r n hcur hbest hpop hr hri k hk

/-- every DE / jDE trial lies in the box, whatever the donor is -/
theorem C07_trialDE_in_box (s : Strategy) (cur best : Vec) (pop : List Vec) (F : Rat) (r : List Nat)
    (mask : List Bool) (j : Nat) (left right : Vec) (hb : Box left right)
    (hcur : cur.length = left.length) (hbest : best.length = left.length)
    (hpop : ∀ v ∈ pop, v.length = left.length) (hr : r.length = s.arity) (hri : ∀ i ∈ r, i < pop.length) :
    InBox left right (trialDE s cur best pop F r mask j left right) :=
  trialDE_in_box s cur best pop F r mask j left right hb.hlen hb.hle hcur hbest hpop hr hri

/-- every SHADE trial lies in the box when its parent does -/
theorem C07_trialSHADE_in_box (cur : Vec) (pop popArchive : List Vec) (F : Rat) (pb r1 r2 : Nat)
    (mask : List Bool) (j : Nat) (left right : Vec) (hb : Box left right)
    (hcur : InBox left right cur) (hpop : ∀ v ∈ pop, v.length = left.length)
    (harch : ∀ v ∈ popArchive, v.length = left.length)
    (hpb : pb < pop.length) (hr1 : r1 < pop.length) (hr2 : r2 < popArchive.length) :
    InBox left right (trialSHADE cur pop popArchive F pb r1 r2 mask j left right) :=
  trialSHADE_in_box cur pop popArchive F pb r1 r2 mask j left right hb.hlen hb.hle hcur hpop harch hpb hr1 hr2

/-- greedy replacement keeps the population in the box: box invariant of one generation -/
theorem C07_greedy_in_box (pop trials : List Vec) (accept : List Bool) (left right : Vec)
    (hl : trials.length = pop.length)
    (hpop : ∀ v ∈ pop, InBox left right v) (htr : ∀ v ∈ trials, InBox left right v) :
    (greedy pop trials accept).length = pop.length ∧
    ∀ v ∈ greedy pop trials accept, InBox left right v :=
  greedy_in_box pop trials accept left right hl hpop htr

/-- box invariant over generations: for ANY sequence of generations (each given by its trials —
    themselves in the box by the two theorems above — and its acceptance mask), every population
    member of every generation is in the box -/
theorem C07_box_invariant (pop0 : List Vec) (left right : Vec) (h0 : ∀ v ∈ pop0, InBox left right v)
    (gens : List (List Vec × List Bool))
    (hg : ∀ g ∈ gens, g.1.length = pop0.length ∧ ∀ v ∈ g.1, InBox left right v) :
    ∀ v ∈ gens.foldl (fun pop g => greedy pop g.1 g.2) pop0, InBox left right v :=
  box_invariant pop0 left right h0 gens hg

end TFV.DE
