/-
  C19 — built-in metrics equal their textbook definitions (for every label vector, no bound).
  Admissible inputs: label-encoded classes `0..c-1` (every class occurs in y_true), predictions
  among the true classes.
-/
import TFV.Model.Metrics
import TFV.Lemmas.Metrics

namespace TFV.Metrics

/-- admissible label vectors: same length, all labels below the number of distinct true labels -/
structure Admissible (yt yp : List Nat) : Prop where
  hlen : yt.length = yp.length
  ht : ∀ t ∈ yt, t < nClasses yt
  hp : ∀ p ∈ yp, p < nClasses yt

/-- the accumulation loops compute exactly the textbook counts TP / FN / FP per class -/
theorem C19_counts (yt yp : List Nat) (ha : Admissible yt yp) (c : Nat) (hc : c < nClasses yt) :
    let n := nClasses yt
    (recallLoop (yt.zip yp) (zeros n, zeros n)).1.getD c 0 = specTP yt yp c ∧
    (recallLoop (yt.zip yp) (zeros n, zeros n)).2.getD c 0 = specFN yt yp c ∧
    (precisionLoop (yt.zip yp) (zeros n, zeros n)).1.getD c 0 = specTP yt yp c ∧
    (precisionLoop (yt.zip yp) (zeros n, zeros n)).2.getD c 0 = specFP yt yp c ∧
    (f1Loop (yt.zip yp) (zeros n, zeros n, zeros n)).1.getD c 0 = specTP yt yp c ∧
    (f1Loop (yt.zip yp) (zeros n, zeros n, zeros n)).2.1.getD c 0 = specFN yt yp c ∧
    (f1Loop (yt.zip yp) (zeros n, zeros n, zeros n)).2.2.getD c 0 = specFP yt yp c :=
  counts yt yp ha.hlen ha.ht ha.hp c hc

theorem C19_recall (yt yp : List Nat) (ha : Admissible yt yp) : recall yt yp = specRecall yt yp :=
  recall_eq yt yp ha.hlen ha.ht ha.hp

theorem C19_precision (yt yp : List Nat) (ha : Admissible yt yp) : precision yt yp = specPrecision yt yp :=
  precision_eq yt yp ha.hlen ha.ht ha.hp

theorem C19_f1 (yt yp : List Nat) (ha : Admissible yt yp) : f1 yt yp = specF1 yt yp :=
  f1_eq yt yp ha.hlen ha.ht ha.hp

/-- macro-F1 per class is the harmonic mean `2·TP / (2·TP + FN + FP)` and 0 without true positives -/
theorem C19_f1Class (tp fn fp : Nat) :
    f1Class tp fn fp = if tp = 0 then 0 else (2 * tp : Nat) / ((2 * tp + fn + fp : Nat) : Rat) :=
  f1Class_eq tp fn fp

theorem C19_accuracy (yt yp : List Nat) : accuracy yt yp = specAccuracy yt yp :=
  accuracy_eq yt yp

theorem C19_confusion (yt yp : List Nat) (ha : Admissible yt yp) (i j : Nat)
    (hi : i < nClasses yt) (hj : j < nClasses yt) :
    ((confusion yt yp).getD i []).getD j 0 = specConf yt yp i j ∧
    (confusion yt yp).length = nClasses yt ∧ ((confusion yt yp).getD i []).length = nClasses yt :=
  confusion_eq yt yp ha.hlen ha.ht ha.hp i j hi hj

/-- r² : perfect predictions give 1; constant targets use the 1e-10 substitute -/
theorem C19_r2 (yt yp : List Rat) :
    (yp = yt → r2 yt yp = 1) ∧
    ((∀ a ∈ yt, a = mean yt) →
      r2 yt yp = 1 - sumR ((yt.zip yp).map fun (a, b) => (a - b) * (a - b)) * 10000000000) :=
  r2_spec yt yp

/-- mse is non-negative and zero exactly for perfect predictions (equal lengths) -/
theorem C19_mse (yt yp : List Rat) (hl : yt.length = yp.length) (hne : yt ≠ []) :
    0 ≤ mse yt yp ∧ (mse yt yp = 0 ↔ yp = yt) :=
  mse_spec yt yp hl hne

/-- each batch variant is exactly the row-wise application of its scalar version -/
theorem C19_batch {α β γ : Type} (f : α → β → γ) (yt : α) (rows : List β) :
    (batch f yt rows).length = rows.length ∧
    ∀ i (hi : i < rows.length), (batch f yt rows)[i]? = some (f yt rows[i]) := by
  constructor
  · simp [batch]
  · intro i hi; simp [batch, hi]

end TFV.Metrics
