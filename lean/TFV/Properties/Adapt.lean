/-
  C15 — adaptive control parameters stay in range and follow their update rules.
  Every draw stream, every success set, every number of generations.
-/
import TFV.Model.Adapt
import TFV.Lemmas.Adapt

namespace TFV.Adapt

/-! ### draw ranges -/

/-- SHADE: every F lies in (0, 1] -/
theorem C15_randc01_range (draws : List Rat) (v : Rat) (h : randc01 draws = some v) : 0 < v ∧ v ≤ 1 :=
  randc01_range draws v h

/-- progress: the first positive draw ends the loop -/
theorem C15_randc01_progress (draws : List Rat) (h : ∃ d ∈ draws, 0 < d) : (randc01 draws).isSome = true :=
  randc01_progress draws h

/-- SHADE: every CR lies in [0, 1] -/
theorem C15_randn01_range (v : Rat) : 0 ≤ randn01 v ∧ randn01 v ≤ 1 := randn01_range v

/-- SHAGA: every mutation rate lies in (0, 5/str_len] -/
theorem C15_randcMR_range (strLen : Nat) (draws : List Rat) (v : Rat) (h : randcMR strLen draws = some v) :
    0 < v ∧ v ≤ (5 : Rat) / (strLen : Rat) :=
  randcMR_range strLen draws v h

theorem C15_randnCR_range (v : Rat) : 0 ≤ randnCR v ∧ randnCR v ≤ 1 := randnCR_range v

/-- jDE: regenerated F in [F_min, F_min + F_max], CR in [0, 1], otherwise unchanged; parameters
    change only when the trial is accepted -/
theorem C15_jde (F CR Fmin Fmax tF tCR u1 u2 : Rat) (hu : 0 ≤ u2 ∧ u2 < 1) (hF : 0 ≤ Fmax) :
    (u1 < tF → Fmin ≤ jdeF F Fmin Fmax tF u1 u2 ∧ jdeF F Fmin Fmax tF u1 u2 ≤ Fmin + Fmax) ∧
    (¬ u1 < tF → jdeF F Fmin Fmax tF u1 u2 = F) ∧
    (u1 < tCR → 0 ≤ jdeCR CR tCR u1 u2 ∧ jdeCR CR tCR u1 u2 ≤ 1) ∧
    (¬ u1 < tCR → jdeCR CR tCR u1 u2 = CR) ∧
    (∀ old new, jdeAccept old new false = old ∧ jdeAccept old new true = new) :=
  jde_spec F CR Fmin Fmax tF tCR u1 u2 hu hF

/-! ### means stay in range -/

/-- weighted Lehmer mean of values in [0, b] with non-negative weights lies in [0, b]
    (and is 0 when the denominator vanishes — e.g. all successful CR equal to 0) -/
theorem C15_lehmer_range (x w : List Rat) (b : Rat) (hl : x.length = w.length)
    (hx : ∀ a ∈ x, 0 ≤ a ∧ a ≤ b) (hw : ∀ a ∈ w, 0 ≤ a) (hb : 0 ≤ b) :
    0 ≤ lehmer x w ∧ lehmer x w ≤ b :=
  lehmer_range x w b hl hx hw hb

/-- … and is strictly positive for strictly positive values and weights -/
theorem C15_lehmer_pos (x w : List Rat) (hl : x.length = w.length) (hne : x ≠ [])
    (hx : ∀ a ∈ x, 0 < a) (hw : ∀ a ∈ w, 0 < a) : 0 < lehmer x w :=
  lehmer_pos x w hl hne hx hw

/-- improvement weights are a distribution -/
theorem C15_weights (df : List Rat) (hd : ∀ d ∈ df, 0 < d) (hne : df ≠ []) :
    (weights df).sum = 1 ∧ (∀ a ∈ weights df, 0 < a) ∧ (weights df).length = df.length :=
  weights_spec df hd hne

/-- SHADE F memory: Lehmer mean of the successful F, or a copy of the preceding cell -/
theorem C15_updateF (u : Rat) (S : List Rat) (hu : 0 < u ∧ u ≤ 1) (hS : ∀ a ∈ S, 0 < a ∧ a ≤ 1) :
    0 < updateF u S ∧ updateF u S ≤ 1 ∧ (S = [] → updateF u S = u) :=
  updateF_spec u S hu hS

/-- SHADE CR memory: improvement-weighted arithmetic mean, or a copy -/
theorem C15_updateCR (u : Rat) (S df : List Rat) (hu : 0 ≤ u ∧ u ≤ 1) (hl : S.length = df.length)
    (hS : ∀ a ∈ S, 0 ≤ a ∧ a ≤ 1) (hd : ∀ d ∈ df, 0 < d) :
    0 ≤ updateCR u S df ∧ updateCR u S df ≤ 1 ∧ (S = [] → updateCR u S df = u) :=
  updateCR_spec u S df hu hl hS hd

/-- SHAGA memories: improvement-weighted Lehmer mean, or a copy; MR cells stay in (0, b],
    CR cells in [0, 1] -/
theorem C15_updateU (u : Rat) (S df : List Rat) (b : Rat) (hl : S.length = df.length)
    (hd : ∀ d ∈ df, 0 < d) :
    (S = [] → updateU u S df = u) ∧
    (0 ≤ u ∧ u ≤ b → (∀ a ∈ S, 0 ≤ a ∧ a ≤ b) → 0 ≤ updateU u S df ∧ updateU u S df ≤ b) ∧
    (0 < u → (∀ a ∈ S, 0 < a) → 0 < updateU u S df) :=
  updateU_spec u S df b hl hd

/-! ### the memory ring -/

/-- one generation writes exactly one cell, the cyclic successor of k, and moves k there -/
theorem C15_mem_step (m : Mem) (upd : Rat → Rat) (hk : m.k < m.H.length) :
    let m' := m.step upd
    m'.H.length = m.H.length ∧ m'.k = (m.k + 1) % m.H.length ∧ m'.k < m'.H.length ∧
    m'.H.getD m'.k 0 = upd (m.H.getD m.k 0) ∧
    ∀ i, i < m.H.length → i ≠ m'.k → m'.H.getD i 0 = m.H.getD i 0 :=
  mem_step m upd hk

/-- memories stay in range forever: if every update maps the range into itself, every cell of
    every generation is in range (any number of generations, including wrap-around) -/
theorem C15_mem_invariant (P : Rat → Prop) (m0 : Mem) (hk : m0.k < m0.H.length) (h0 : ∀ a ∈ m0.H, P a)
    (upds : List (Rat → Rat)) (hu : ∀ f ∈ upds, ∀ a, P a → P (f a)) :
    let m := upds.foldl Mem.step m0
    m.H.length = m0.H.length ∧ m.k = (m0.k + upds.length) % m0.H.length ∧ ∀ a ∈ m.H, P a :=
  mem_invariant P m0 hk h0 upds hu

/-! ### the archive -/

/-- the archive never exceeds pop_size and contains only replaced parents -/
theorem C15_archive {α : Type} (archive worse : List α) (popSize : Nat) (shuffle : List α → List α)
    (hs : ∀ l, (shuffle l).Perm l) (ha : archive.length ≤ popSize) :
    (appendArchive archive worse popSize shuffle).length ≤ popSize ∧
    ∀ x ∈ appendArchive archive worse popSize shuffle, x ∈ archive ∨ x ∈ worse :=
  archive_spec archive worse popSize shuffle hs ha

end TFV.Adapt
