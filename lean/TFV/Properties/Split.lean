/-
  C16 — parallel evaluation is equivalent to serial evaluation: the partition logic.
-/
import TFV.Model.Split
import TFV.Lemmas.Split

namespace TFV.Split

/-- any strictly increasing inner cut points inside (0, len) give contiguous, non-empty,
    order-preserving chunks that cover every individual exactly once -/
theorem C16_cover {α : Type} (xs : List α) (inner : List Nat)
    (hmono : inner.Pairwise (· < ·)) (hlo : ∀ i ∈ inner, 0 < i) (hhi : ∀ i ∈ inner, i < xs.length)
    (hne : xs ≠ []) :
    (npSplit xs inner).flatten = xs ∧ (∀ c ∈ npSplit xs inner, c ≠ []) ∧
    (npSplit xs inner).length = inner.length + 1 :=
  cover xs inner hmono hlo hhi hne

/-- weakly increasing cuts still cover (possibly with empty chunks) -/
theorem C16_cover_weak {α : Type} (xs : List α) (inner : List Nat) (hmono : inner.Pairwise (· ≤ ·)) :
    (npSplit xs inner).flatten = xs :=
  cover_weak xs inner hmono

/-- truncating ANY real points that start at 0, end at p and are at least 1 apart gives strictly
    increasing integer cut points from 0 to p -/
theorem C16_cuts (r : Nat → Rat) (n p : Nat) (h0 : r 0 = 0) (hn : r n = p)
    (hgap : ∀ i, i < n → r (i + 1) - r i ≥ 1) :
    (cuts r n).Pairwise (· < ·) ∧ (cuts r n).head? = some 0 ∧ (cuts r n).getLast? = some p ∧
    (cuts r n).length = n + 1 :=
  cuts_spec r n p h0 hn hgap

/-- double-precision `linspace` delivers such points: for `1 ≤ n < p` any perturbation of the
    ideal points `i·p/n` by at most `1/(2n)` keeps consecutive points ≥ 1 apart
    (for `n = p` the points are the exact integers) -/
theorem C16_linspace_gap (r : Nat → Rat) (n p : Nat) (hn : 1 ≤ n) (hnp : n < p)
    (hpert : ∀ i, i ≤ n → - (1 / (2 * (n : Rat))) ≤ r i - ideal p n i ∧ r i - ideal p n i ≤ 1 / (2 * (n : Rat))) :
    ∀ i, i < n → r (i + 1) - r i ≥ 1 :=
  linspace_gap r n p hn hnp hpert

theorem C16_linspace_exact (n : Nat) (hn : 1 ≤ n) : ∀ i, i < n → ideal n n (i + 1) - ideal n n i ≥ 1 :=
  linspace_exact n hn

/-- the whole `_split_population` on the cut points of `C16_cuts` -/
theorem C16_split {α : Type} (xs : List α) (r : Nat → Rat) (n : Nat) (hn : 1 ≤ n) (hne : xs ≠ [])
    (h0 : r 0 = 0) (hlast : r n = xs.length) (hgap : ∀ i, i < n → r (i + 1) - r i ≥ 1) :
    (split xs (cuts r n)).flatten = xs ∧ (∀ c ∈ split xs (cuts r n), c ≠ []) ∧
    (split xs (cuts r n)).length = n :=
  split_spec xs r n hn hne h0 hlast hgap

/-- `n_jobs` normalisation: 0 is rejected, everything else lands in [1, pop_size] -/
theorem C16_normJobs (n : Int) (cpu pop : Nat) (hpop : 1 ≤ pop) :
    (normJobs n cpu pop = none ↔ n = 0) ∧
    (∀ k, normJobs n cpu pop = some k → 1 ≤ k ∧ k ≤ pop) ∧
    (∀ k, normJobs n cpu pop = some k → 0 < n → k = min n.toNat pop) :=
  normJobs_spec n cpu pop hpop

/-- chunked evaluation of a row-wise function, reassembled by chunk index, equals evaluating the
    whole population — for EVERY order in which the chunk results arrive -/
theorem C16_rowwise {α β : Type} (g : α → β) (xs : List α) (chunks : List (List α))
    (hc : chunks.flatten = xs) (done : List (Nat × List β)) (hperm : done.Perm (results g chunks)) :
    assemble done chunks.length = xs.map g :=
  rowwise g xs chunks hc done hperm

end TFV.Split

namespace TFV.Split

/-- the parallel and the serial evaluation path return the same normalised fitness vector and
    count the same number of evaluations — for minimisation and maximisation alike — whenever the
    cut points partition the population (C16_split) -/
theorem C16_getFitness {α : Type} (minimization : Bool) (f : α → Int) (pop : List α) (cs : List Nat)
    (hc : (split pop cs).flatten = pop) :
    getFitness true minimization f pop cs = getFitness false minimization f pop cs := by
  unfold getFitness
  have h : ((split pop cs).map (List.map f)).flatten = pop.map f := by
    rw [← List.map_flatten, hc]
  simp [h]

end TFV.Split
