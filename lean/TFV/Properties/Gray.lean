/-
  C10 — binary / Gray decoding is the stated grid bijection and inverts correctly.
  All widths, all bit strings, all boxes (no bound).
-/
import TFV.Model.Gray
import TFV.Lemmas.Gray

namespace TFV.Gray

/-- a well-formed variable: non-degenerate box, at least one bit -/
structure Var.WF (v : Var) : Prop where
  hlr : v.left < v.right
  hbits : 0 < v.bits

/-! ### bit strings ↔ integers -/

theorem C10_bits_roundtrip (w n : Nat) (h : n < 2 ^ w) : bitsToNat (natToBits w n) = n :=
  bits_roundtrip w n h

theorem C10_bits_roundtrip' (b : List Bool) : natToBits b.length (bitsToNat b) = b :=
  bits_roundtrip' b

theorem C10_bits_lt (b : List Bool) : bitsToNat b < 2 ^ b.length := bits_lt b

/-- fixed output width, whatever the value (in particular whatever the batch maximum) -/
theorem C10_natToBits_length (w n : Nat) : (natToBits w n).length = w := by
  simp [natToBits]

/-! ### Gray code -/

theorem C10_gray_roundtrip (b : List Bool) :
    grayToBin (binToGray b) = b ∧ binToGray (grayToBin b) = b ∧
    (binToGray b).length = b.length ∧ (grayToBin b).length = b.length :=
  gray_roundtrip b

/-- successive integers have Gray codes at Hamming distance exactly one -/
theorem C10_gray_adjacent (w n : Nat) (h : n + 1 < 2 ^ w) :
    hamming (binToGray (natToBits w n)) (binToGray (natToBits w (n + 1))) = 1 :=
  gray_adjacent w n h

/-! ### the grid -/

/-- `transform` of one variable is `left + h·k`, k the encoded integer -/
theorem C10_decode_formula (v : Var) (bs : List Bool) :
    v.decode false bs = v.left + v.h * (bitsToNat bs : Nat) ∧
    v.decode true bs = v.left + v.h * (bitsToNat (grayToBin bs) : Nat) := by
  simp [Var.decode]

/-- all-zero ↦ left border; all-ones (binary) ↦ right border; everything inside the box -/
theorem C10_endpoints (v : Var) (hv : v.WF) (gray : Bool) :
    v.decode gray (List.replicate v.bits false) = v.left ∧
    v.decode false (List.replicate v.bits true) = v.right ∧
    ∀ bs : List Bool, bs.length = v.bits → v.left ≤ v.decode gray bs ∧ v.decode gray bs ≤ v.right :=
  endpoints v hv.hlr hv.hbits gray

/-- distinct strings give distinct points -/
theorem C10_injective (v : Var) (hv : v.WF) (gray : Bool) (a b : List Bool)
    (ha : a.length = v.bits) (hb : b.length = v.bits) :
    v.decode gray a = v.decode gray b → a = b :=
  decode_injective v hv.hlr hv.hbits gray a b ha hb

/-- `inverse_transform (transform b) = b`, fixed length -/
theorem C10_encode_decode (v : Var) (hv : v.WF) (gray : Bool) (bs : List Bool) (hl : bs.length = v.bits) :
    v.encode gray (v.decode gray bs) = bs :=
  encode_decode v hv.hlr hv.hbits gray bs hl

theorem C10_encode_length (v : Var) (gray : Bool) (x : Rat) : (v.encode gray x).length = v.bits :=
  encode_length v gray x

/-- `transform (inverse_transform x)` is a nearest grid point -/
theorem C10_decode_encode_nearest (v : Var) (hv : v.WF) (gray : Bool) (x : Rat)
    (hx0 : v.left ≤ x) (hx1 : x ≤ v.right) :
    - (v.h / 2) ≤ v.decode gray (v.encode gray x) - x ∧ v.decode gray (v.encode gray x) - x ≤ v.h / 2 :=
  decode_encode_nearest v hv.hlr hv.hbits gray x hx0 hx1

/-! ### rows -/

theorem C10_inverse_length (vars : List Var) (gray : Bool) (xs : List Rat) (hl : xs.length = vars.length) :
    (inverse vars gray xs).length = (vars.map (·.bits)).sum :=
  inverse_length vars gray xs hl

theorem C10_row_roundtrip (vars : List Var) (hv : ∀ v ∈ vars, v.WF) (gray : Bool) (row : List Bool)
    (hl : row.length = (vars.map (·.bits)).sum) :
    inverse vars gray (transform vars gray row) = row :=
  row_roundtrip vars (fun v hm => (hv v hm).hlr) (fun v hm => (hv v hm).hbits) gray row hl

/-! ### bits from a step -/

/-- the number of bits derived from a requested step `h` gives a grid at least that fine -/
theorem C10_bitsFromH (left right h : Rat) (hlr : left < right) (hh : 0 < h) (hh' : h ≤ right - left) :
    let v : Var := { left := left, right := right, bits := bitsFromH left right h }
    0 < v.bits ∧ v.h ≤ h :=
  bitsFromH_spec left right h hlr hh hh'

end TFV.Gray

namespace TFV.Gray

/-- C13 (trained weights): a weight decoded from ANY 16-bit Gray string over [-10, 10] — the
    encoding `train_net_weights` uses for the binary-coded weight optimizers — lies in [-10, 10] -/
theorem C13_weights_gray_in_box (bs : List Bool) (hl : bs.length = 16) :
    let v : Var := { left := -10, right := 10, bits := 16 }
    (-10 : Rat) ≤ v.decode true bs ∧ v.decode true bs ≤ 10 := by
  intro v
  have hv : v.WF := ⟨by decide, by decide⟩
  exact (C10_endpoints v hv true).2.2 bs hl

end TFV.Gray
