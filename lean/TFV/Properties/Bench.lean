/-
  C20 — benchmark problems are pure functions with the documented optimum.
-/
import TFV.Model.Bench
import TFV.Lemmas.Bench

namespace TFV.Bench

/-! ### purity of the shift bookkeeping -/

/-- with a per-call copy the shared table is never altered and EVERY call of EVERY history uses
    the shift vector determined by the pristine table and its own D alone -/
theorem C20_pure_copy (write : Vec → Nat → Vec) (pristine : Vec) (history : List Nat) :
    (runCalls (stepCopy write) pristine history).1 = pristine ∧
    (runCalls (stepCopy write) pristine history).2 = history.map (effCopy write pristine) :=
  pure_copy write pristine history

/-- the in-place discipline instead uses, at each call, the table left by all earlier calls -/
theorem C20_inplace_history (write : Vec → Nat → Vec) (pristine : Vec) (history : List Nat) (D : Nat) :
    ((runCalls (stepInPlace write) pristine (history ++ [D])).2.getLast?) =
      some (effInPlace write pristine history D) :=
  inplace_history write pristine history D

/-- F8's in-place update happens to be history independent: its writes are idempotent and
    prefix-consistent (even indices below D become -32 whatever was called before) -/
theorem C20_f8_history_independent (pristine : Vec) (history : List Nat) (D : Nat) :
    effInPlace f8Write pristine history D = effCopy f8Write pristine D :=
  f8_history_independent pristine history D

/-- F5's and F20's in-place updates are NOT: concrete call histories change the effective
    shift vector (the defect repaired in /repo: finding F10) -/
theorem C20_f5_inplace_counterexample :
    effInPlace f5Write (List.replicate 30 0) [10] 30 ≠ effCopy f5Write (List.replicate 30 0) 30 :=
  f5_inplace_counterexample

theorem C20_f20_inplace_counterexample :
    effInPlace f20Write (List.replicate 50 0) [50] 10 ≠ effCopy f20Write (List.replicate 50 0) 10 :=
  f20_inplace_counterexample

/-- F5's copy-discipline shift is the CEC2005 prescription: -100 on the first ⌈D/4⌉ coordinates,
    100 from ⌊3D/4⌋-1 on, the table value elsewhere -/
theorem C20_f5_shift (t : Vec) (D : Nat) (hD : D ≤ t.length) (i : Nat) (hi : i < D) :
    (effCopy f5Write t D).getD i 0 =
      if i < (D + 3) / 4 then -100 else if 3 * D / 4 - 1 ≤ i then 100 else t.getD i 0 :=
  f5_shift t D hD i hi

/-! ### rows are independent -/

theorem C20_rows (f : Vec → Rat) (X : List Vec) :
    (evalRows f X).length = X.length ∧
    ∀ i (h : i < X.length), (evalRows f X)[i]? = some (f X[i]) ∧ evalRows f [X[i]] = [f X[i]] := by
  constructor
  · simp [evalRows]
  · intro i h; simp [evalRows, h]

/-! ### lower bounds and attainment -/

theorem C20_sphere (x : Vec) : 0 ≤ sphere x ∧ (sphere x = 0 ↔ ∀ a ∈ x, a = 0) := sphere_spec x

theorem C20_schwefel12 (x : Vec) : 0 ≤ schwefel12 x ∧ schwefel12 (List.replicate x.length 0) = 0 :=
  schwefel12_spec x

theorem C20_elliptic (c : Nat → Rat) (hc : ∀ i, 0 < c i) (x : Vec) :
    0 ≤ elliptic c x ∧ elliptic c (List.replicate x.length 0) = 0 :=
  elliptic_spec c hc x

theorem C20_rosenbrock (x : Vec) : 0 ≤ rosenbrock x ∧ rosenbrock (List.replicate x.length 1) = 0 :=
  rosenbrock_spec x

theorem C20_rastrigin (cs : Rat → Rat) (h1 : ∀ a, cs a ≤ 1) (h0 : cs 0 = 1) (x : Vec) :
    0 ≤ rastrigin cs x ∧ rastrigin cs (List.replicate x.length 0) = 0 :=
  rastrigin_spec cs h1 h0 x

theorem C20_griewank (cs : Nat → Rat → Rat) (h1 : ∀ i a, -1 ≤ cs i a ∧ cs i a ≤ 1) (h0 : ∀ i, cs i 0 = 1) (x : Vec) :
    0 ≤ griewank cs x ∧ griewank cs (List.replicate x.length 0) = 0 :=
  griewank_spec cs h1 h0 x

theorem C20_weierstrass (ak : List Rat) (hak : ∀ a ∈ ak, 0 ≤ a) (cs : Nat → Rat → Rat)
    (hmin : ∀ k z, cs k (1 / 2) ≤ cs k z) (x : Vec) :
    0 ≤ weierstrass ak cs x ∧ weierstrass ak cs (List.replicate x.length 0) = 0 :=
  weierstrass_spec ak hak cs hmin x

/-- Ackley ≥ 0 with equality at the origin, for any exponential `E` (monotone, E 0 = 1), any
    square root `R` (non-negative, R 0 = 0) and any cosine bounded by 1 with value 1 at 0 -/
theorem C20_ackley (E R cs : Rat → Rat) (a b : Rat) (ha : 0 ≤ a) (hb : 0 ≤ b)
    (hEmono : ∀ u v, u ≤ v → E u ≤ E v) (hE0 : E 0 = 1) (hR : ∀ u, 0 ≤ u → 0 ≤ R u) (hR0 : R 0 = 0)
    (hc : ∀ z, cs z ≤ 1) (hc0 : cs 0 = 1) (x : Vec) (hne : x ≠ []) :
    0 ≤ ackley E R cs a b x ∧ ackley E R cs a b (List.replicate x.length 0) = 0 :=
  ackley_spec E R cs a b ha hb hEmono hE0 hR hR0 hc hc0 x hne

/-- expanded Scaffer F6 ≥ 0 with equality at the origin, for any `sin²` with values in [0, 1]
    vanishing at 0 -/
theorem C20_scaffer (sn2 : Rat → Rat) (h01 : ∀ s, 0 ≤ sn2 s ∧ sn2 s ≤ 1) (h0 : sn2 0 = 0) (x : Vec) :
    0 ≤ scaffer sn2 x ∧ scaffer sn2 (List.replicate x.length 0) = 0 :=
  scaffer_spec sn2 h01 h0 x

/-- Schwefel 2.6 ≥ 0 with equality when `A x = A o` (in particular at x = o) -/
theorem C20_schwefel26 (ax ao : Vec) : 0 ≤ schwefel26 ax ao ∧ schwefel26 ao ao = 0 :=
  schwefel26_spec ax ao

/-- Schwefel 2.13 ≥ 0 with equality when `B(x) = A` (at x = α) -/
theorem C20_schwefel213 (A B : Vec) : 0 ≤ schwefel213 A B ∧ schwefel213 A A = 0 :=
  schwefel213_spec A B

/-- F8F2 (Griewank of Rosenbrock) ≥ 0 with equality at the all-ones point, for any one-dimensional
    Griewank `g` that is non-negative and vanishes at 0 -/
theorem C20_f8f2 (g : Rat → Rat) (hg : ∀ u, 0 ≤ g u) (hg0 : g 0 = 0) (x : Vec) :
    0 ≤ f8f2 g x ∧ f8f2 g (List.replicate x.length 1) = 0 :=
  f8f2_spec g hg hg0 x

/-- a shifted problem is at least its bias, with equality at the shift point, whenever the base
    function is non-negative and vanishes at the origin -/
theorem C20_shifted (f : Vec → Rat) (o : Vec) (bias : Rat) (hf : ∀ z, 0 ≤ f z)
    (h0 : f (List.replicate o.length 0) = 0) :
    (∀ x, bias ≤ shifted f o bias x) ∧ shifted f o bias o = bias :=
  shifted_spec f o bias hf h0

/-- hybrid composition: with non-negative basic values, non-negative biases and positive total
    weight the value is at least f_bias; when the weight vector is (1, 0, …, 0) — the situation
    at the first optimum after damping — and the first basic value and bias vanish it is exactly
    f_bias -/
theorem C20_compose_lower (w fit bias : Vec) (fbias : Rat) (hl : w.length = fit.length)
    (hl' : fit.length = bias.length) (hw : ∀ a ∈ w, 0 ≤ a) (hsum : 0 < sum w)
    (hfit : ∀ a ∈ fit, 0 ≤ a) (hb : ∀ a ∈ bias, 0 ≤ a) : fbias ≤ compose w fit bias fbias :=
  compose_lower w fit bias fbias hl hl' hw hsum hfit hb

theorem C20_compose_at_optimum (n : Nat) (fit bias : Vec) (fbias : Rat) (hf : fit.length = n + 1)
    (hb : bias.length = n + 1) (hf0 : fit.head? = some 0) (hb0 : bias.head? = some 0) :
    compose (1 :: List.replicate n 0) fit bias fbias = fbias :=
  compose_at_optimum n fit bias fbias hf hb hf0 hb0

/-- the damping leaves the maximal weight and sends every other weight to 0 when the maximum is 1 -/
theorem C20_damp (w : Vec) : ∀ a ∈ damp w 1, a = 0 ∨ a = 1 := damp_one w

end TFV.Bench
