/-
  Property theorems about the EA core model (C01, C02, C03, C05, C17 — the part that is
  bookkeeping of `base/_ea.py` and of the two replacement flavours).  All statements quantify over
  every configuration, every objective `obj`, every `g2p`, every initial population and every
  variation oracle (= every seed and every operator choice), and over every generation boundary
  (`∀ s ∈ c.traj …`).
-/
import TFV.Model.EA
import TFV.Lemmas.EA

namespace TFV.EA
variable {G P : Type}

/-- the hypotheses under which a run is "regular": populations have `popSize ≥ 1` rows -/
structure Regular (c : Cfg G P) (init : List G) (oracle : St G P → List G) : Prop where
  hpop : 0 < c.popSize
  hinit : init.length = c.popSize
  horacle : ∀ s, (oracle s).length = c.popSize
  /-- every objective value is above the `-inf` the record starts from -/
  hfloor : ∀ p, c.floor < c.fitOf p

/-! ### C01 -/

/-- C01: at every generation boundary the record is an evaluated individual, its fitness is the
maximum over everything ever evaluated, its phenotype is the g2p image of its genotype and its
fitness the (normalised) objective of that phenotype. -/
theorem C01_best_is_max (c : Cfg G P) (fl : Flavour) (init : List G) (oracle : St G P → List G)
    (hr : Regular c init oracle) :
    ∀ s ∈ c.traj fl init oracle,
      ∃ b, s.rk.best = some b ∧ b.fit = s.rk.fit ∧ b ∈ s.log ∧ (∀ x ∈ s.log, x.fit ≤ b.fit) ∧
        b.ph = c.g2p b.g ∧ b.fit = c.fitOf b.ph :=
  C01_best_is_max_aux c fl init oracle hr.hpop hr.hinit hr.horacle hr.hfloor

/-- C01 (end of run) -/
theorem C01_final (c : Cfg G P) (fl : Flavour) (init : List G) (oracle : St G P → List G)
    (hr : Regular c init oracle) :
    ∃ b, (c.run fl init oracle).rk.best = some b ∧ b ∈ (c.run fl init oracle).log ∧
      (∀ x ∈ (c.run fl init oracle).log, x.fit ≤ b.fit) ∧ b.ph = c.g2p b.g ∧ b.fit = c.fitOf b.ph := by
  obtain ⟨b, h1, _, h3, h4, h5, h6⟩ :=
    C01_best_is_max c fl init oracle hr _ (run_mem_traj c fl init oracle)
  exact ⟨b, h1, h3, h4, h5, h6⟩

/-! ### C02 -/

/-- C02: best-so-far never regresses (for every ordered pair of generation boundaries). -/
theorem C02_best_monotone (c : Cfg G P) (fl : Flavour) (init : List G) (oracle : St G P → List G) :
    (c.traj fl init oracle).Pairwise (fun a b => a.rk.fit ≤ b.rk.fit) :=
  C02_best_monotone_aux c fl init oracle

/-- C02: with elitism the end-of-generation population holds the record in its last slot. -/
theorem C02_elite_present (c : Cfg G P) (fl : Flavour) (init : List G) (oracle : St G P → List G)
    (hr : Regular c init oracle) (he : c.elitism = true) :
    ∀ s ∈ c.traj fl init oracle, ∃ b, s.rk.best = some b ∧ s.pop.getLast? = some b :=
  C02_elite_present_aux c fl init oracle hr.hpop hr.hinit hr.horacle hr.hfloor he

/-- C02: every slot stores the value the fitness function returned for the individual stored
there (index alignment of the three arrays), in both flavours. -/
theorem C02_slot_consistent (c : Cfg G P) (fl : Flavour) (init : List G) (oracle : St G P → List G)
    (hr : Regular c init oracle) :
    ∀ s ∈ c.traj fl init oracle, s.pop.length = c.popSize ∧
      ∀ x ∈ s.pop, x.ph = c.g2p x.g ∧ x.fit = c.fitOf x.ph ∧ x ∈ s.log :=
  C02_slot_consistent_aux c fl init oracle hr.hpop hr.hinit hr.horacle hr.hfloor

/-- C02 (greedy flavour): one generation step never lowers any slot, and a slot is overwritten
only by its own trial when the trial is at least as good, or (last slot, elitism) by the record. -/
theorem C02_slot_monotone (c : Cfg G P) (s : St G P) (gs : List G) (hl : gs.length = s.pop.length)
    (hrk : ∀ x ∈ s.pop, x.fit ≤ s.rk.fit) (hbest : ∀ b, s.rk.best = some b → b.fit = s.rk.fit) :
    let s' := c.stepGreedy s gs
    s'.pop.length = s.pop.length ∧
    ∀ i (hi : i < s.pop.length) (hi' : i < s'.pop.length),
      s.pop[i].fit ≤ s'.pop[i].fit ∧
      (s'.pop[i] = s.pop[i] ∨
       (∃ hg : i < (c.eval gs).length, s'.pop[i] = (c.eval gs)[i] ∧ s.pop[i].fit ≤ (c.eval gs)[i].fit) ∨
       (c.elitism = true ∧ i + 1 = s.pop.length ∧ s'.rk.best = some s'.pop[i])) :=
  C02_slot_monotone_aux c s gs hl hrk hbest

/-- the hypotheses `hrk`, `hbest` of `C02_slot_monotone` hold at every boundary of a run -/
theorem C02_record_dominates (c : Cfg G P) (fl : Flavour) (init : List G) (oracle : St G P → List G)
    (hr : Regular c init oracle) :
    ∀ s ∈ c.traj fl init oracle,
      (∀ x ∈ s.pop, x.fit ≤ s.rk.fit) ∧ (∀ b, s.rk.best = some b → b.fit = s.rk.fit) :=
  C02_record_dominates_aux c fl init oracle hr.hpop hr.hinit hr.horacle hr.hfloor

/-! ### C03 -/

/-- C03: the k-th boundary (0-based) has evaluated exactly (k+1)·pop_size individuals, made k
callbacks, and there are at most `max iters 1` boundaries. -/
theorem C03_calls (c : Cfg G P) (fl : Flavour) (init : List G) (oracle : St G P → List G)
    (hr : Regular c init oracle) :
    (c.traj fl init oracle).length ≤ max c.iters 1 ∧
    ∀ k (hk : k < (c.traj fl init oracle).length),
      let s := (c.traj fl init oracle)[k]
      s.gens = k + 1 ∧ s.calls = (k + 1) * c.popSize ∧ s.log.length = s.calls ∧ s.callbacks = k ∧
      c.remains s = (c.iters * c.popSize : Nat) - ((k + 1) * c.popSize : Nat) :=
  C03_calls_aux c fl init oracle hr.hpop hr.hinit hr.horacle

/-- C03: the run stops at the FIRST boundary that meets the stopping rule, never earlier, and
otherwise uses the whole budget. -/
theorem C03_stop_exact (c : Cfg G P) (fl : Flavour) (init : List G) (oracle : St G P → List G) :
    let t := c.traj fl init oracle
    (∀ k (hk : k + 1 < t.length), c.stop (t[k]'(by omega)) = false) ∧
    (t.length = max c.iters 1 ∨ c.stop (c.run fl init oracle) = true) ∧
    t ≠ [] ∧ t.getLast? = some (c.run fl init oracle) :=
  C03_stop_exact_aux c fl init oracle

/-- C03: the aim is on the correct side for minimisation and maximisation. -/
theorem C03_aim_sides (optimal err value : Int) :
    (aimOf true optimal err ≤ - value ↔ value ≤ optimal + err) ∧
    (aimOf false optimal err ≤ value ↔ optimal - err ≤ value) := by
  unfold aimOf; constructor <;> simp <;> omega

/-- C03: the stagnation counter is reset exactly by a strict improvement and otherwise counts. -/
theorem C03_stagnation (r : Rec G P) (pop : List (Ind G P)) (hne : pop ≠ []) :
    (r.fit < (r.update pop).fit → (r.update pop).noUpd = 0) ∧
    (¬ r.fit < (r.update pop).fit → (r.update pop).noUpd = r.noUpd + 1 ∧ (r.update pop).best = r.best) ∧
    (r.fit < (r.update pop).fit ↔ ∃ x ∈ pop, r.fit < x.fit) :=
  C03_stagnation_aux r pop hne

/-! ### C05 -/

/-- C05: minimising `obj` is exactly maximising `-obj`: the whole trajectory of normalised
states coincides, for the same variation oracle. -/
theorem C05_dual (c : Cfg G P) (fl : Flavour) (init : List G) (oracle : St G P → List G)
    (hmin : c.minimization = true) :
    c.traj fl init oracle =
      ({ c with minimization := false, obj := fun p => - c.obj p } : Cfg G P).traj fl init oracle :=
  C05_dual_aux c fl init oracle hmin

/-- C05: `optimal_value = v` under minimisation and `-v` under maximisation give the same aim. -/
theorem C05_aim (v e : Int) : aimOf true v e = aimOf false (-v) e := by simp [aimOf]

/-! ### C17 -/

/-- C17: exactly one statistics entry per executed generation (none without keep_history);
entries are never altered afterwards (the series of a later boundary extends the earlier one);
each entry's `max` is the first arg-max of the entry's population. -/
theorem C17_history (c : Cfg G P) (fl : Flavour) (init : List G) (oracle : St G P → List G) :
    (∀ s ∈ c.traj fl init oracle,
      s.stats.length = (if c.keepHistory then s.gens else 0) ∧
      ∀ e ∈ s.stats, e.maxInd = argmaxFirst e.pop) ∧
    (c.traj fl init oracle).Pairwise (fun a b => a.stats <+: b.stats) :=
  C17_history_aux c fl init oracle

/-- C17: `population_g[0]` is the supplied initial population. -/
theorem C17_first_entry (c : Cfg G P) (fl : Flavour) (init : List G) (oracle : St G P → List G)
    (hk : c.keepHistory = true) :
    ∀ s ∈ c.traj fl init oracle, ∃ e, s.stats.head? = some e ∧ e.pop.map (·.g) = init :=
  C17_first_entry_aux c fl init oracle hk

end TFV.EA
