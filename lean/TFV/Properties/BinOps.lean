/-
  C06 — binary GA family: genotypes stay binary and operators do what they are named.
  Every parent tuple, every string length, every outcome of the random choices.
-/
import TFV.Model.BinOps
import TFV.Lemmas.BinOps

namespace TFV.BinOps

/-- parents of a common length -/
def Aligned (ps : List Ind) (n : Nat) : Prop := ps ≠ [] ∧ ∀ p ∈ ps, p.length = n

/-- every crossover returns, at every locus, the gene of one of the supplied parents at that
    locus, and a string of the parents' length -/
theorem C06_cross_parentage (k : XKind) (ps : List Ind) (fitness : List Int) (c : XChoice) (n : Nat)
    (hal : Aligned ps n) (h2 : k ≠ .empty → 2 ≤ ps.length) (hok : c.ok k ps.length n) :
    (cross k ps fitness c).length = n ∧
    ∀ i, i < n → ∃ p, p < ps.length ∧ (cross k ps fitness c).getD i 0 = gene ps p i :=
  cross_parentage k ps fitness c n hal h2 hok

/-- hence binary parents give binary children -/
theorem C06_cross_binary (k : XKind) (ps : List Ind) (fitness : List Int) (c : XChoice) (n : Nat)
    (hal : Aligned ps n) (h2 : k ≠ .empty → 2 ≤ ps.length) (hok : c.ok k ps.length n)
    (hb : ∀ p ∈ ps, Binary p) : Binary (cross k ps fitness c) :=
  cross_binary k ps fitness c n hal h2 hok hb

/-- clone -/
theorem C06_empty (ps : List Ind) (p : Ind) (h : ps.head? = some p) : emptyX ps = p :=
  emptyX_spec ps p h

/-- one cut: a prefix of one parent followed by the suffix of the other (both orientations) -/
theorem C06_onePoint (a b : Ind) (cut : Nat) (hl : a.length = b.length) :
    onePoint [a, b] cut true = a.take (cut + 1) ++ b.drop (cut + 1) ∧
    onePoint [a, b] cut false = b.take (cut + 1) ++ a.drop (cut + 1) :=
  onePoint_spec a b cut hl

/-- … and every such child is produced (surjectivity): the last cut gives the clone -/
theorem C06_onePoint_complete (a b : Ind) (hl : a.length = b.length) (hne : a ≠ []) :
    (∀ c, c < a.length → ∃ cut coin, cut < a.length ∧ onePoint [a, b] cut coin = a.take (c + 1) ++ b.drop (c + 1)) ∧
    (∃ cut coin, cut < a.length ∧ onePoint [a, b] cut coin = a) ∧
    (∃ cut coin, cut < a.length ∧ onePoint [a, b] cut coin = b) :=
  onePoint_complete a b hl hne

/-- two cuts: the segment between two distinct indices (inclusive) is exchanged -/
theorem C06_twoPoint (a b : Ind) (c0 c1 : Nat) (hl : a.length = b.length) (hc : c0 ≤ c1) (h1 : c1 < a.length) :
    twoPoint [a, b] c0 c1 true = a.take c0 ++ (b.take (c1 + 1)).drop c0 ++ a.drop (c1 + 1) ∧
    twoPoint [a, b] c1 c0 true = twoPoint [a, b] c0 c1 true ∧
    twoPoint [a, b] c0 c1 false = b.take c0 ++ (a.take (c1 + 1)).drop c0 ++ b.drop (c1 + 1) :=
  twoPoint_spec a b c0 c1 hl hc h1

/-- per-locus choice over ALL supplied parents: every parent assignment is produced -/
theorem C06_uniform_complete (ps : List Ind) (n : Nat) (hal : Aligned ps n) (f : Nat → Nat)
    (hf : ∀ i, i < n → f i < ps.length) :
    ∃ choice, choice.length = n ∧ (∀ j ∈ choice, j < ps.length) ∧
      ∀ i, i < n → (uniformX ps choice).getD i 0 = gene ps (f i) i :=
  uniform_complete ps n hal f hf

/-- tournament variant: the gene at each locus comes from the fitter of the drawn pair, and
    every supplied parent can win a locus (pair (p, p)) -/
theorem C06_uniformTour (ps : List Ind) (fitness : List Int) (pairs : List (Nat × Nat)) (n : Nat)
    (hal : Aligned ps n) (i : Nat) (hi : i < n) :
    (uniformTour ps fitness pairs).getD i 0 = gene ps (tourWinner fitness (pairs.getD i (0, 0))) i ∧
    (∀ p, tourWinner fitness (p, p) = p) ∧
    (∀ pr : Nat × Nat, (tourWinner fitness pr = pr.1 ∨ tourWinner fitness pr = pr.2) ∧
       fitness.getD pr.1 0 ≤ fitness.getD (tourWinner fitness pr) 0 ∧
       fitness.getD pr.2 0 ≤ fitness.getD (tourWinner fitness pr) 0) :=
  uniformTour_spec ps fitness pairs n hal i hi

/-- binomial crossover: the forced locus comes from the mutant, every other locus from mutant or
    parent exactly as the mask says; every non-empty donor set is produced -/
theorem C06_binomial {α : Type} (x m : List α) (mask : List Bool) (j : Nat) (hl : x.length = m.length) :
    (binomial x m mask j).length = x.length ∧
    (∀ i (hi : i < x.length), (binomial x m mask j)[i]? =
        some (if mask.getD i false || i == j then m[i]'(hl ▸ hi) else x[i])) :=
  binomial_spec x m mask j hl

theorem C06_binomial_extremes {α : Type} (x m : List α) (j : Nat) (hl : x.length = m.length) (hj : j < x.length) :
    binomial x m (List.replicate x.length true) j = m ∧
    (∀ i (hi : i < x.length), (binomial x m (List.replicate x.length false) j)[i]? =
        some (if i = j then m[i]'(hl ▸ hi) else x[i])) :=
  binomial_extremes x m j hl hj

/-- flip mutation flips exactly the masked bits and keeps strings binary -/
theorem C06_flip (x : Ind) (mask : List Bool) (hb : Binary x) :
    (flip x mask).length = x.length ∧ Binary (flip x mask) ∧
    ∀ i (hi : i < x.length), (flip x mask).getD i 0 = (if mask.getD i false then 1 - x[i] else x[i]) :=
  flip_spec x mask hb

/-- never at rate 0, always at rate ≥ 1 (uniform draws lie in [0,1)) -/
theorem C06_flip_rates (us : List Rat) (hu : ∀ u ∈ us, 0 ≤ u ∧ u < 1) (rate : Rat) :
    (rate ≤ 0 → ∀ b ∈ flipMask us rate, b = false) ∧
    (1 ≤ rate → ∀ b ∈ flipMask us rate, b = true) :=
  flip_rates us hu rate

/-- presets are k / str_len, custom rates are passed unchanged -/
theorem C06_rateOf (k : Rat) (n : Nat) : rateOf k false n = k / n ∧ rateOf k true n = k := by
  simp [rateOf]

/-- one whole variation step keeps the population in `{0,1}^str_len` (GA / SelfCGA / PDPGA) -/
theorem C06_newIndivid_closed (pop : List Ind) (n : Nat) (hpop : ∀ p ∈ pop, p.length = n ∧ Binary p)
    (selected : List Nat) (hsel : ∀ i ∈ selected, i < pop.length) (hne : selected ≠ [])
    (k : XKind) (h2 : k ≠ .empty → 2 ≤ selected.length) (fitness : List Int) (c : XChoice)
    (hok : c.ok k selected.length n) (mask : List Bool) :
    (newIndivid pop selected k fitness c mask).length = n ∧
    Binary (newIndivid pop selected k fitness c mask) :=
  newIndivid_closed pop n hpop selected hsel hne k h2 fitness c hok mask

/-- SHAGA's step likewise -/
theorem C06_shaga_closed (x second : Ind) (n : Nat) (hx : x.length = n ∧ Binary x)
    (hs : second.length = n ∧ Binary second) (crMask : List Bool) (j : Nat) (mutMask : List Bool) :
    (shagaIndivid x second crMask j mutMask).length = n ∧
    Binary (shagaIndivid x second crMask j mutMask) :=
  shaga_closed x second n hx hs crMask j mutMask

end TFV.BinOps
