/-
  C12 — Net.forward computes the function its graph defines.
  C13 — every network genotype decodes to a valid feed-forward network.
-/
import TFV.Model.Net
import TFV.Lemmas.Net

namespace TFV.Net

/-! ## C12 -/

/-- the node equations of the graph: inputs carry x; every other node is its activation of the
    weighted sum over ALL its incoming connections (duplicates add); the softmax nodes are
    normalised jointly (in the order `sm` in which one group lists them) -/
def Satisfies (n : Net) (act : Nat → Rat → Rat) (softmax : List Rat → List Rat) (w : List Rat)
    (x v : Nat → Rat) (sm : List Nat) : Prop :=
  (∀ i ∈ n.inputs, v i = x i) ∧
  (∀ t ∈ n.nonInputs, n.activ t ≠ 5 → v t = act (n.activ t) (preAct n w v t)) ∧
  (∀ t ∈ n.nonInputs, n.activ t = 5 → t ∈ sm) ∧ (∀ t ∈ sm, t ∈ n.nonInputs ∧ n.activ t = 5) ∧
  (sm ≠ [] → sm.map v = softmax (sm.map (preAct n w v)))

/-- the pre-activation the code computes through its weight-index matrices is the weighted sum
    over all incoming connections -/
theorem C12_preActGroup (n : Net) (sch : List Group) (hv : validSchedule n sch = true)
    (w : List Rat) (v : Nat → Rat) (g : Group) (hg : g ∈ sch) (j : Nat) (hj : j < g.dsts.length) :
    preActGroup w v g j = preAct n w v (g.dsts.getD j 0) :=
  preActGroup_eq n sch hv w v g hg j hj

/-- soundness of the forward pass for EVERY validly scheduled net whose softmax nodes share one
    group: the buffer after the pass satisfies the node equations -/
theorem C12_schedule_sound (n : Net) (sch : List Group) (hv : validSchedule n sch = true)
    (hsm : softmaxTogether n sch = true) (hdisj : ∀ i ∈ n.inputs, i ∉ n.nonInputs)
    (act : Nat → Rat → Rat) (softmax : List Rat → List Rat)
    (hlen : ∀ l, (softmax l).length = l.length) (w : List Rat) (x v0 : Nat → Rat)
    (hx : ∀ i ∈ n.inputs, v0 i = x i) :
    ∃ sm, Satisfies n act softmax w x (runSchedule n act softmax w sch v0) sm :=
  schedule_sound n sch hv hsm hdisj act softmax hlen w x v0 hx

/-- the result does not depend on what the node buffer held before (earlier forward calls,
    uninitialised memory): only the input cells matter -/
theorem C12_history_independent (n : Net) (sch : List Group) (hv : validSchedule n sch = true)
    (hdisj : ∀ i ∈ n.inputs, i ∉ n.nonInputs)
    (act : Nat → Rat → Rat) (softmax : List Rat → List Rat) (w : List Rat) (v0 v1 : Nat → Rat)
    (hx : ∀ i ∈ n.inputs, v0 i = v1 i) :
    ∀ t ∈ n.nodes, runSchedule n act softmax w sch v0 t = runSchedule n act softmax w sch v1 t :=
  history_independent n sch hv hdisj act softmax w v0 v1 hx

/-- `forward(X, W)` with a batch of weight vectors returns, row by row, what a net carrying that
    row returns on a fresh buffer — although the buffer is reused across the batch -/
theorem C12_batch (n : Net) (sch : List Group) (hv : validSchedule n sch = true)
    (hdisj : ∀ i ∈ n.inputs, i ∉ n.nonInputs) (hout : ∀ o ∈ n.outputs, o ∈ n.nodes)
    (act : Nat → Rat → Rat) (softmax : List Rat → List Rat) (x junk : Nat → Rat) (ws : List (List Rat)) :
    forwardBatch n act softmax sch x junk ws =
      ws.map fun w => n.outputs.map (runSchedule n act softmax w sch x) :=
  batch_eq n sch hv hdisj hout act softmax x junk ws

/-- the order of the connection list is immaterial: permuting connections together with their
    weights leaves every pre-activation unchanged -/
theorem C12_conn_order (n : Net) (w : List Rat) (hl : w.length = n.conns.length)
    (cw' : List ((Nat × Nat) × Rat)) (hp : cw'.Perm (n.conns.zip w)) (v : Nat → Rat) (t : Nat) :
    preAct { n with conns := cw'.map (·.1) } (cw'.map (·.2)) v t = preAct n w v t :=
  conn_order n w hl cw' hp v t

/-- softmax (for any positive exponential) yields non-negative values that sum to 1 -/
theorem C12_softmax (e : Rat → Rat) (he : ∀ z, 0 < e z) (l : List Rat) (hne : l ≠ []) :
    let s := (l.map e).sum
    let out := l.map fun z => e z / s
    (∀ y ∈ out, 0 < y) ∧ out.sum = 1 :=
  softmax_simplex e he l hne

/-- the two-output counterexample behind finding F13: if the softmax nodes are split over two
    groups each is normalised alone (value 1 each, total 2) -/
theorem C12_softmax_split_counterexample :
    let n : Net := { inputs := [0, 1], outputs := [2, 3], conns := [(0, 2), (1, 3)], activs := [(2, 5), (3, 5)] }
    let sch : List Group := [⟨[0], [2], [[0]]⟩, ⟨[1], [3], [[1]]⟩]
    validSchedule n sch = true ∧ softmaxTogether n sch = false ∧
    ∀ (sm : List Rat → List Rat) (_ : ∀ z, sm [z] = [1]) (w : List Rat) (v : Nat → Rat),
      runSchedule n (fun _ z => z) sm w sch v 2 + runSchedule n (fun _ z => z) sm w sch v 3 = 2 :=
  softmax_split_counterexample

/-! ## C13 -/

/-- on a valid net the `while calculated != purpose` loop terminates (within |nodes|+1 passes)
    and returns a valid schedule -/
theorem C13_getOrder_valid (n : Net) (hv : validNet n = true) :
    ∃ sch, getOrder n = some sch ∧ validSchedule n sch = true :=
  getOrder_valid n hv

/-- a well-formed tree over the network universal set -/
def WFTree (nVars : Nat) (l : List NSym) : Prop :=
  (∀ s ∈ l, match s with
     | .inp vars => vars ≠ [] ∧ ∀ v ∈ vars, v < nVars
     | .hid size _ => 0 < size
     | _ => True) ∧
  TFV.Net.wfArity 1 (l.map NSym.arity) = true

/-- every tree over {+, >} with input-block and hidden-block terminals decodes to a valid
    feed-forward net whose outputs all share one source set -/
theorem C13_decode_valid (l : List NSym) (nVars nOut outAct : Nat) (hw : WFTree nVars l)
    (hv : 0 < nVars) (ho : 0 < nOut) :
    ∃ n, decode l nVars nOut outAct = some n ∧ validNet n = true ∧ shareSources n = true ∧
      n.outputs.length = nOut ∧ (∀ o ∈ n.outputs, n.activ o = outAct) :=
  decode_valid l nVars nOut outAct hw hv ho

/-- outputs that share their sources are scheduled in one group, so the softmax of a
    builder- or GP-made net is joint over the whole output layer -/
theorem C13_softmax_together (n : Net) (sch : List Group) (hv : validNet n = true)
    (hs : shareSources n = true) (h5 : ∀ t ∈ n.nonInputs, n.activ t = 5 → t ∈ n.outputs)
    (ho : getOrder n = some sch) : softmaxTogether n sch = true :=
  softmax_together n sch hv hs h5 ho

/-- the MLP builder yields exactly the layered architecture: as a multiset of edges, consecutive
    layers fully connected, the bias input feeding every layer when offset is on (its edges into
    the first layer occur twice — parallel duplicates add, the same function) -/
theorem C13_mlp_layers (offset : Bool) (act outAct nIn nOut : Nat) (hs : List Nat)
    (hpos : ∀ s ∈ hs, 0 < s) (hin : 0 < nIn) (ho : 0 < nOut) :
    let n := defineNet offset act outAct nIn nOut hs
    n.conns.Perm (mlpSpec offset nIn nOut hs) ∧ n.inputs = List.range nIn ∧
    n.outputs = (List.range nOut).map (· + (nIn + hs.sum)) ∧
    (∀ o ∈ n.outputs, n.activ o = outAct) ∧ (∀ h ∈ n.hiddens, n.activ h = act) :=
  mlp_layers offset act outAct nIn nOut hs hpos hin ho

end TFV.Net
