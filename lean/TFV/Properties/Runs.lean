/-
  Run-level closure theorems: the induction over generations that C06, C07 and C08 quantify over
  ("every individual of every generation", "every candidate handed to the fitness function").
  The generic lifting theorem says: a predicate on genotypes that holds for the initial population
  and is preserved by the variation step (whatever it draws) holds for every population member and
  every evaluated individual at every generation boundary of every run, in both replacement
  flavours, with or without elitism.  The operator-level closure theorems then instantiate it.
-/
import TFV.Model.EA
import TFV.Model.BinOps
import TFV.Model.DE
import TFV.Model.Tree
import TFV.Lemmas.Runs

namespace TFV.Runs
open TFV.EA

/-- generic lifting: closure of the variation step ⇒ invariant of the whole run -/
theorem run_genotype_invariant {G P : Type} (c : Cfg G P) (fl : Flavour) (init : List G)
    (oracle : St G P → List G) (Q : G → Prop) (hinit : ∀ g ∈ init, Q g)
    (hstep : ∀ s, (∀ x ∈ s.pop, Q x.g) → ∀ g ∈ oracle s, Q g) :
    ∀ s ∈ c.traj fl init oracle, (∀ x ∈ s.pop, Q x.g) ∧ (∀ x ∈ s.log, Q x.g) :=
  run_genotype_invariant_aux c fl init oracle Q hinit hstep

/-- C06 at run level: in a GA / SelfCGA / PDPGA run — every offspring obtained by selection of
    valid indices, any pool crossover with admissible choices and any flip mask — every individual
    of every generation (population members and everything handed to the fitness function) is a
    vector of exactly `n` values in {0,1} -/
theorem C06_run_binary {P : Type} (c : Cfg BinOps.Ind P) (fl : Flavour) (init : List BinOps.Ind)
    (oracle : St BinOps.Ind P → List BinOps.Ind) (n : Nat)
    (hinit : ∀ g ∈ init, g.length = n ∧ BinOps.Binary g)
    (hor : ∀ s, ∀ g ∈ oracle s, ∃ (selected : List Nat) (k : BinOps.XKind) (fitness : List Int)
        (ch : BinOps.XChoice) (mask : List Bool),
        (∀ i ∈ selected, i < s.pop.length) ∧ selected ≠ [] ∧ (k ≠ .empty → 2 ≤ selected.length) ∧
        ch.ok k selected.length n ∧
        g = BinOps.newIndivid (s.pop.map (·.g)) selected k fitness ch mask) :
    ∀ s ∈ c.traj fl init oracle,
      (∀ x ∈ s.pop, x.g.length = n ∧ BinOps.Binary x.g) ∧ (∀ x ∈ s.log, x.g.length = n ∧ BinOps.Binary x.g) :=
  run_binary c fl init oracle n hinit hor

/-- C06 at run level for SHAGA: binomial crossover with a population member, then flip mutation -/
theorem C06_run_binary_shaga {P : Type} (c : Cfg BinOps.Ind P) (init : List BinOps.Ind)
    (oracle : St BinOps.Ind P → List BinOps.Ind) (n : Nat)
    (hinit : ∀ g ∈ init, g.length = n ∧ BinOps.Binary g)
    (hor : ∀ s, ∀ g ∈ oracle s, ∃ x ∈ s.pop, ∃ y ∈ s.pop, ∃ (crMask : List Bool) (j : Nat) (mutMask : List Bool),
        g = BinOps.shagaIndivid x.g y.g crMask j mutMask) :
    ∀ s ∈ c.traj .greedy init oracle,
      (∀ x ∈ s.pop, x.g.length = n ∧ BinOps.Binary x.g) ∧ (∀ x ∈ s.log, x.g.length = n ∧ BinOps.Binary x.g) :=
  run_binary_shaga c init oracle n hinit hor

/-- C07 at run level: in a DE / jDE run whose initial population lies in the box, every candidate
    handed to the fitness function and every population member of every generation lies in the
    box — for every strategy, every F, every CR mask, every index draw, every objective -/
theorem C07_run_in_box {P : Type} (c : Cfg DE.Vec P) (init : List DE.Vec)
    (oracle : St DE.Vec P → List DE.Vec) (left right : DE.Vec)
    (hlen : left.length = right.length)
    (hle : ∀ i (hl : i < left.length) (hr : i < right.length), left[i] ≤ right[i])
    (hinit : ∀ g ∈ init, DE.InBox left right g)
    (hor : ∀ s, ∀ g ∈ oracle s, ∃ (st : DE.Strategy) (cur best : DE.Vec) (F : Rat) (r : List Nat)
        (mask : List Bool) (j : Nat),
        cur.length = left.length ∧ best.length = left.length ∧ r.length = st.arity ∧
        (∀ i ∈ r, i < s.pop.length) ∧
        g = DE.trialDE st cur best (s.pop.map (·.g)) F r mask j left right) :
    ∀ s ∈ c.traj .greedy init oracle,
      (∀ x ∈ s.pop, DE.InBox left right x.g) ∧ (∀ x ∈ s.log, DE.InBox left right x.g) :=
  run_in_box c init oracle left right hlen hle hinit hor

/-- C07 at run level for SHADE: the parent-midpoint repair keeps the run in the box -/
theorem C07_run_in_box_shade {P : Type} (c : Cfg DE.Vec P) (init : List DE.Vec)
    (oracle : St DE.Vec P → List DE.Vec) (left right : DE.Vec)
    (hlen : left.length = right.length)
    (hle : ∀ i (hl : i < left.length) (hr : i < right.length), left[i] ≤ right[i])
    (hinit : ∀ g ∈ init, DE.InBox left right g)
    (hor : ∀ s, ∀ g ∈ oracle s, ∃ cur ∈ s.pop, ∃ (archive : List DE.Vec) (F : Rat) (pb r1 r2 : Nat)
        (mask : List Bool) (j : Nat),
        (∀ v ∈ archive, v.length = left.length) ∧ pb < s.pop.length ∧ r1 < s.pop.length ∧
        r2 < (s.pop.map (·.g) ++ archive).length ∧
        g = DE.trialSHADE cur.g (s.pop.map (·.g)) (s.pop.map (·.g) ++ archive) F pb r1 r2 mask j left right) :
    ∀ s ∈ c.traj .greedy init oracle,
      (∀ x ∈ s.pop, DE.InBox left right x.g) ∧ (∀ x ∈ s.log, DE.InBox left right x.g) :=
  run_in_box_shade c init oracle left right hlen hle hinit hor

/-- C08 at run level: in a GP / SelfCGP / PDPGP run whose initial trees are well-formed and no
    deeper than `L`, if every offspring is produced from population members by a step that
    preserves well-formedness and the depth bound (each GP operator does: C08_standardX,
    C08_onePointX, C08_uniformX, C08_pointMut, C08_growMut, C08_swapMut, C08_shrinkMut), then every
    tree of every generation is well-formed and no deeper than `L` -/
theorem C08_run_closed {P : Type} (c : Cfg Tree.Flat P) (fl : Flavour) (init : List Tree.Flat)
    (oracle : St Tree.Flat P → List Tree.Flat) (arity : Nat → Nat) (L : Nat)
    (hinit : ∀ g ∈ init, Tree.WF arity g ∧ Tree.depth g ≤ L)
    (hor : ∀ s, (∀ x ∈ s.pop, Tree.WF arity x.g ∧ Tree.depth x.g ≤ L) →
        ∀ g ∈ oracle s, Tree.WF arity g ∧ Tree.depth g ≤ L) :
    ∀ s ∈ c.traj fl init oracle,
      (∀ x ∈ s.pop, Tree.WF arity x.g ∧ Tree.depth x.g ≤ L) ∧
      (∀ x ∈ s.log, Tree.WF arity x.g ∧ Tree.depth x.g ≤ L) :=
  run_genotype_invariant c fl init oracle (fun g => Tree.WF arity g ∧ Tree.depth g ≤ L) hinit hor

/-- … instantiated for standard crossover followed by a point mutation (one concrete wiring) -/
theorem C08_run_closed_standard_point {P : Type} (c : Cfg Tree.Flat P) (fl : Flavour) (init : List Tree.Flat)
    (oracle : St Tree.Flat P → List Tree.Flat) (arity : Nat → Nat) (L : Nat)
    (hinit : ∀ g ∈ init, Tree.WF arity g ∧ Tree.depth g ≤ L)
    (hor : ∀ s, ∀ g ∈ oracle s, ∃ a ∈ s.pop, ∃ b ∈ s.pop, ∃ (p q : Nat) (coin : Bool) (i newSym : Nat),
        p < a.g.length ∧ q < b.g.length ∧
        (let child := Tree.standardX a.g b.g p q coin L
         i < child.length ∧ arity newSym = (child.getD i (0, 0)).2 ∧ g = Tree.pointMut child i newSym)) :
    ∀ s ∈ c.traj fl init oracle,
      (∀ x ∈ s.pop, Tree.WF arity x.g ∧ Tree.depth x.g ≤ L) ∧
      (∀ x ∈ s.log, Tree.WF arity x.g ∧ Tree.depth x.g ≤ L) :=
  run_closed_standard_point c fl init oracle arity L hinit hor

end TFV.Runs
