/-
  C04 — a run is a deterministic function of its arguments and random_state: the stream discipline.
-/
import TFV.Model.Rng
import TFV.Generated.C04

namespace TFV.Rng

/-- whatever random numbers were consumed before (prior stream states), a seeded run computes the
    same result and leaves the same stream states: the first action overwrites both streams and
    nothing else is read -/
theorem C04_prior_state_irrelevant {α : Type} (gPy gNp : Gen) (init firstWord : Nat → Nat) (fuel : Nat)
    (body : Prog α) (seed : Seed) (σ₁ σ₂ : Streams) :
    fit gPy gNp init firstWord fuel body seed σ₁ = fit gPy gNp init firstWord fuel body seed σ₂ := rfl

/-- an integer seed and a RandomState object in the state that integer produces give the same key,
    hence the same run -/
theorem C04_seed_key {α : Type} (gPy gNp : Gen) (init firstWord : Nat → Nat) (fuel : Nat) (body : Prog α)
    (s : Nat) (σ : Streams) :
    fit gPy gNp init firstWord fuel body (.int s) σ =
      fit gPy gNp init firstWord fuel body (.state (firstWord s)) σ := rfl

/-- two RandomState objects in the same state give the same run -/
theorem C04_same_state {α : Type} (gPy gNp : Gen) (init firstWord : Nat → Nat) (fuel : Nat) (body : Prog α)
    (w₁ w₂ : Nat) (h : w₁ = w₂) (σ₁ σ₂ : Streams) :
    fit gPy gNp init firstWord fuel body (.state w₁) σ₁ = fit gPy gNp init firstWord fuel body (.state w₂) σ₂ := by
  subst h; rfl

/-- the result of a program depends only on the stream states it starts from (determinism of the
    body): equal start states, equal results -/
theorem C04_deterministic {α : Type} (gPy gNp : Gen) (fuel : Nat) (body : Prog α) (σ₁ σ₂ : Streams)
    (h : σ₁ = σ₂) : run gPy gNp fuel body σ₁ = run gPy gNp fuel body σ₂ := by subst h; rfl

/-- non-vacuity / necessity: WITHOUT seeding, the prior state does matter (a body that returns its
    first draw, identity-like generators) -/
theorem C04_unseeded_counterexample :
    fitUnseeded (fun s => (s + 1, s)) (fun s => (s + 1, s)) 5 (.drawPy fun v => .ret v) ⟨1, 0⟩ ≠
    fitUnseeded (fun s => (s + 1, s)) (fun s => (s + 1, s)) 5 (.drawPy fun v => .ret v) ⟨2, 0⟩ := by
  decide

/-- regenerated from the current source on every run: every random-number call site under
    optimizers/, base/, utils/, classifiers/, regressors/ is inside an @njit function (hence on a
    seeded numba stream) or is one of the whitelisted Python-level sites -/
theorem C04_rng_sites : sitesOk TFV.Generated.C04.sites = true := by decide

end TFV.Rng
