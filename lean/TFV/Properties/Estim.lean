/-
  C18 — estimators predict with the model they fitted: the logical core.
  (predict = evaluate ∘ set_terminals is C09_rebind / C09_eval; forward = node equations is C12;
   exactly n_iter·pop_size evaluations is C03_calls.)
-/
import TFV.Model.Estim
import TFV.Lemmas.Estim
import TFV.Properties.Tree

namespace TFV.Estim

/-- the classes are the sorted distinct labels -/
theorem C18_classes (y : List Nat) :
    (classes y).Pairwise (· < ·) ∧ (∀ l, l ∈ classes y ↔ l ∈ y) :=
  classes_spec y

/-- label round trip: decoding the code of a seen label returns the label; every code below the
    number of classes decodes to a seen label and encodes back -/
theorem C18_label_roundtrip (y : List Nat) :
    (∀ l ∈ y, ∃ i, encode (classes y) l = some i ∧ i < (classes y).length ∧ decode (classes y) i = some l) ∧
    (∀ i, i < (classes y).length → ∃ l, decode (classes y) i = some l ∧ l ∈ y ∧ encode (classes y) l = some i) :=
  label_roundtrip y

/-- arg-max: a valid column whose value is maximal, the first such -/
theorem C18_argmax (row : List Int) (hne : row ≠ []) :
    argmax row < row.length ∧ (∀ x ∈ row, x ≤ row.getD (argmax row) 0) ∧
    (∀ j, j < argmax row → row.getD j 0 < row.getD (argmax row) 0) :=
  argmax_spec row hne

/-- `predict` returns an original class label: the one of the arg-max column -/
theorem C18_predict_label (y : List Nat) (row : List Int) (hne : y ≠ []) (hl : row.length = (classes y).length) :
    ∃ l, predictLabel (classes y) row = some l ∧ l ∈ y ∧ encode (classes y) l = some (argmax row) :=
  predict_label y row hne hl

/-- the sigmoid pair lies on the simplex -/
theorem C18_pair (p : Rat) (h0 : 0 ≤ p) (h1 : p ≤ 1) :
    (∀ q ∈ pair p, 0 ≤ q ∧ q ≤ 1) ∧ (pair p).sum = 1 :=
  pair_simplex p h0 h1

/-- reserved optimizer arguments are rejected, everything else is accepted -/
theorem C18_checkArgs (reserved args : List String) :
    (checkArgs reserved args = false ↔ ∃ a ∈ args, a ∈ reserved) ∧
    (checkArgs reserved args = true ↔ ∀ a ∈ args, a ∉ reserved) :=
  checkArgs_spec reserved args

/-- the bias column -/
theorem C18_withBias (row : List Rat) :
    withBias true row = row ++ [1] ∧ withBias false row = row ∧ (withBias true row).length = row.length + 1 := by
  simp [withBias]

theorem C18_budget (nIter popSize : Nat) : budget nIter popSize = nIter * popSize := rfl

end TFV.Estim

namespace TFV.Estim
open TFV.Tree

/-- C18 (GP estimators): `predict(X)` evaluates the stored tree with the columns of X bound to its
    variables — calling the tree on the whole batch yields, for every sample k, the value of the
    expression on that sample alone -/
theorem C18_gp_predict {ι V : Type} (interp : ι → Nat → List V → V) (t : RT) :
    evalStack (fun s (args : List (ι → V)) => fun k => interp k s (args.map (· k))) (flat t) =
      some (fun k => evalRT (interp k) t) := by
  rw [C09_eval]
  congr 1
  funext k
  exact C09_batch interp t k

end TFV.Estim
