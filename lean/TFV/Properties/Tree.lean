/-
  C09 — a tree means what it prints: stack evaluation / printing and the index helpers agree with
        the recursive definition of the tree.
  C08 — GP variation is closed: offspring are well-formed and within max_level.
  Unbounded: every tree shape, every arity mix, every node index, every random choice.
-/
import TFV.Model.Tree
import TFV.Lemmas.TreeCore
import TFV.Lemmas.TreeOps

namespace TFV.Tree

/-- every node of the rose tree has as many kids as its symbol's arity
    (`ConsistentRT arity (.node s ks) ↔ ks.length = arity s ∧ ∀ k ∈ ks, ConsistentRT arity k`) -/
abbrev Consistent := ConsistentRT

/-! ## C09 -/

/-- the scan behind `find_end_subtree_from_i` consumes exactly one subtree per open slot -/
theorem C09_scan_flat (t : RT) (n : Nat) (rest : List Nat) :
    scan (n + 1) (arities (flat t) ++ rest) = t.size + scan n rest :=
  scan_flat t n rest

theorem C09_size_flat (t : RT) : (flat t).length = t.size := size_flat t

/-- `find_end_subtree_from_i` returns the index one past the subtree, wherever it sits -/
theorem C09_endSub (pre post : Flat) (t : RT) :
    endSub pre.length (arities (pre ++ flat t ++ post)) = pre.length + t.size :=
  endSub_flat pre post t

/-- flat lists of rose trees are exactly the well-formed prefix expressions -/
theorem C09_wf_flat (arity : Nat → Nat) (t : RT) (hc : Consistent arity t) : WF arity (flat t) :=
  wf_flat arity t hc

theorem C09_parse (l : Flat) (h : wfAux 1 (arities l) = true) : ∃ t, flat t = l := parse l h

theorem C09_parse_consistent (arity : Nat → Nat) (l : Flat) (h : WF arity l) :
    ∃ t, flat t = l ∧ Consistent arity t := parse_consistent arity l h

theorem C09_flat_injective (t u : RT) (h : flat t = flat u) : t = u := flat_injective t u h

/-- every index of a well-formed list is the root of a subterm in a context -/
theorem C09_context (l : Flat) (h : wfAux 1 (arities l) = true) (i : Nat) (hi : i < l.length) :
    ∃ pre post t, l = pre ++ flat t ++ post ∧ pre.length = i :=
  context l h i hi

/-- `subtree(i)` is the flat list of the subterm rooted there -/
theorem C09_subtree (pre post : Flat) (t : RT) :
    subtree (pre ++ flat t ++ post) pre.length = flat t :=
  subtree_flat pre post t

/-- `concat(i, other)` replaces exactly that subterm -/
theorem C09_concat (pre post : Flat) (t : RT) (other : Flat) :
    concat (pre ++ flat t ++ post) pre.length other = pre ++ other ++ post :=
  concat_flat pre post t other

/-- `concat(i, subtree(i))` is the identity, for every list and index -/
theorem C09_concat_subtree_id (l : Flat) (i : Nat) : concat l i (subtree l i) = l :=
  concat_subtree_id l i

/-- `get_args_id`: the roots of the argument subtrees, in order -/
theorem C09_argsIds (pre post : Flat) (s : Nat) (ks : List RT) :
    argsIds pre.length (arities (pre ++ flat (.node s ks) ++ post)) =
      (List.range ks.length).map fun c => pre.length + 1 + sizeL (ks.take c) :=
  argsIds_flat pre post s ks

/-- `get_levels(i)` lists the levels of the subterm's nodes (its root at 0) and stops there -/
theorem C09_levels (pre post : Flat) (t : RT) :
    levels pre.length (arities (pre ++ flat t ++ post)) = levelsRT 0 t :=
  levels_flat pre post t

/-- `get_max_level` is the depth of the tree -/
theorem C09_depth (t : RT) : depth (flat t) = t.depth := depth_flat t

/-- calling a tree = the value of the expression it denotes (arguments in order); with
    `interp` = string formatting this is `str(tree)` -/
theorem C09_eval {V : Type} (interp : Nat → List V → V) (t : RT) :
    evalStack interp (flat t) = some (evalRT interp t) :=
  eval_flat interp t

/-- evaluating on a batch equals evaluating each sample on its own, for symbols whose array
    semantics is pointwise -/
theorem C09_batch {ι V : Type} (interp : ι → Nat → List V → V) (t : RT) (k : ι) :
    evalRT (fun s (args : List (ι → V)) => fun k => interp k s (args.map (· k))) t k =
      evalRT (interp k) t :=
  batch_pointwise interp t k

/-- `set_terminals` rebinds exactly the named terminals and nothing else -/
theorem C09_rebind {V : Type} (interp : Nat → List V → V) (ρ : Nat → Option Nat) (t : RT) :
    arities (rebind ρ (flat t)) = arities (flat t) ∧
    evalStack interp (rebind ρ (flat t)) =
      some (evalRT (fun s args => match args with
        | [] => interp ((ρ s).getD s) []
        | _ => interp s args) t) :=
  rebind_flat interp ρ t

/-- equality is structural on well-formed trees -/
theorem C09_eqTree (arity : Nat → Nat) (a b : Flat) (ha : WF arity a) (hb : WF arity b) :
    eqTree a b = true ↔ a = b :=
  eqTree_iff arity a b ha hb

/-! ## C08 -/

theorem C08_subtree_wf (arity : Nat → Nat) (l : Flat) (h : WF arity l) (i : Nat) (hi : i < l.length) :
    WF arity (subtree l i) :=
  subtree_wf arity l h i hi

/-- replacing any subtree by any well-formed tree gives a well-formed tree -/
theorem C08_concat_wf (arity : Nat → Nat) (l s : Flat) (h : WF arity l) (hs : WF arity s)
    (i : Nat) (hi : i < l.length) : WF arity (concat l i s) :=
  concat_wf arity l s h hs i hi

theorem C08_depth_concat (l s : Flat) (h : wfAux 1 (arities l) = true) (hs : wfAux 1 (arities s) = true)
    (i : Nat) (hi : i < l.length) :
    depth (concat l i s) ≤ max (depth l) ((levels 0 (arities l)).getD i 0 + depth s) :=
  depth_concat l s h hs i hi

/-- standard crossover: one subtree transplanted or a parent clone; closed and within max_level -/
theorem C08_standardX (arity : Nat → Nat) (a b : Flat) (ha : WF arity a) (hb : WF arity b)
    (p q : Nat) (hp : p < a.length) (hq : q < b.length) (coin : Bool) (L : Nat)
    (hda : depth a ≤ L) (hdb : depth b ≤ L) :
    let c := standardX a b p q coin L
    WF arity c ∧ depth c ≤ L ∧
    (c = a ∨ c = b ∨ c = concat b q (subtree a p) ∨ c = concat a p (subtree b q)) :=
  standardX_spec arity a b ha hb p q hp hq coin L hda hdb

/-- point mutation: same-arity symbol replacement; shape unchanged -/
theorem C08_pointMut (arity : Nat → Nat) (l : Flat) (h : WF arity l) (i : Nat) (hi : i < l.length)
    (newSym : Nat) (hs : arity newSym = (l.getD i (0, 0)).2) :
    WF arity (pointMut l i newSym) ∧ arities (pointMut l i newSym) = arities l ∧
    depth (pointMut l i newSym) = depth l :=
  pointMut_spec arity l h i hi newSym hs

/-- growing mutation: the new subtree is no deeper than the one it replaces -/
theorem C08_growMut (arity : Nat → Nat) (l g : Flat) (h : WF arity l) (hg : WF arity g)
    (i : Nat) (hi : i < l.length) (hd : depth g ≤ depth (subtree l i)) :
    WF arity (growMut l i g) ∧ depth (growMut l i g) ≤ depth l :=
  growMut_spec arity l g h hg i hi hd

/-- swap mutation: the argument subtrees of one node permuted; closed, same nodes, same depth -/
theorem C08_swapMut (arity : Nat → Nat) (l : Flat) (h : WF arity l) (i : Nat) (hi : i < l.length)
    (perm : List Nat) (hperm : perm.Perm (List.range (l.getD i (0, 0)).2)) :
    WF arity (swapMut l i perm) ∧ (swapMut l i perm).Perm l ∧ depth (swapMut l i perm) = depth l :=
  swapMut_spec arity l h i hi perm hperm

/-- shrink mutation: a subtree replaced by one of its own argument subtrees -/
theorem C08_shrinkMut (arity : Nat → Nat) (l : Flat) (h : WF arity l) (i : Nat) (hi : i < l.length)
    (k : Nat) (hk : k < (l.getD i (0, 0)).2) :
    WF arity (shrinkMut l i k) ∧ depth (shrinkMut l i k) ≤ depth l ∧
    (shrinkMut l i k).length < l.length :=
  shrinkMut_spec arity l h i hi k hk

/-- initialisation (full and grow differ only in the choice stream): whatever is drawn, the
    result is well-formed and no deeper than max_level because terminals are forced there -/
theorem C08_growInit (arity : Nat → Nat) (L term : Nat) (choices : List Node) (l : Flat)
    (hch : ∀ ch ∈ choices, ch.2 = arity ch.1) (hterm : arity term = 0)
    (h : growInit L term choices = some l) :
    WF arity l ∧ depth l ≤ L :=
  growInit_spec arity L term choices l hch hterm h

end TFV.Tree
