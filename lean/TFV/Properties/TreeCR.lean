/-
  C09 / C08 — the part that rests on the common region of several trees:
  the coded common-region loops equal the recursive definition, and the crossovers that exchange
  material inside the common region (one-point, uniform and its variants) are closed and
  depth-bounded.
-/
import TFV.Model.Tree
import TFV.Lemmas.TreeCR

namespace TFV.Tree

/-- transpose position tuples into one list per tree -/
def perTree (k : Nat) (tuples : List (List Nat)) : List (List Nat) :=
  (List.range k).map fun j => tuples.map fun tp => tp.getD j 0

/-- the coded common-region loops (two-tree and k-tree versions) compute the recursive
    definition: the maximal common top part, borders where arities differ -/
theorem C09_common_region (ts : List RT) (hk : 2 ≤ ts.length) :
    commonRegion (ts.map fun t => arities (flat t)) =
      (perTree ts.length (commonSpec (ts.headD default).size ts (ts.map fun _ => 0)).1,
       perTree ts.length (commonSpec (ts.headD default).size ts (ts.map fun _ => 0)).2) :=
  common_region_spec ts hk

/-! ## C08 -/

/-- one-point crossover: closed; the exchange happens inside the common region, so the child is
    no deeper than the deeper parent -/
theorem C08_onePointX (arity : Nat → Nat) (a b : Flat) (ha : WF arity a) (hb : WF arity b)
    (k : Nat) (hk : k < (commonRegion2 (arities a) (arities b)).c1.length) (coin : Bool) :
    WF arity (onePointX a b k coin) ∧ depth (onePointX a b k coin) ≤ max (depth a) (depth b) :=
  onePointX_spec arity a b ha hb k hk coin

/-- uniform crossover (all four variants: they differ only in how `pool` is drawn) -/
theorem C08_uniformX (arity : Nat → Nat) (ps : List Flat) (hps : ∀ p ∈ ps, WF arity p)
    (hk : 2 ≤ ps.length) (pool : List Nat) (hpool : ∀ j ∈ pool, j < ps.length)
    (hlen : ((commonRegion (ps.map arities)).1.headD []).length ≤ pool.length) :
    WF arity (uniformX ps pool) ∧
    depth (uniformX ps pool) ≤ (ps.map depth).foldl max 0 ∧
    ∀ n ∈ uniformX ps pool, ∃ p ∈ ps, n ∈ p :=
  uniformX_spec arity ps hps hk pool hpool hlen

end TFV.Tree
