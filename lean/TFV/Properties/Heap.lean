/-
  C01 (private copy) and C17 (snapshots, caller isolation) on the heap model.
-/
import TFV.Model.Heap

namespace TFV.Heap
variable {α : Type}

theorem get_writeAt_ne (h : Heap α) (r r' : Ref) (i : Nat) (v : α) (hne : r' ≠ r) :
    (h.writeAt r i v).get r' = h.get r' := by
  unfold Heap.writeAt Heap.get
  simp only [List.getD_eq_getElem?_getD]
  rw [List.getElem?_set_ne (Ne.symm hne)]

theorem get_writes_ne (h : Heap α) (ws : List (Write α)) (r' : Ref) (hne : ∀ w ∈ ws, w.ref ≠ r') :
    (h.writes ws).get r' = h.get r' := by
  induction ws generalizing h with
  | nil => rfl
  | cons w ws ih =>
    simp only [Heap.writes, List.foldl_cons]
    have h1 : w.ref ≠ r' := hne w (by simp)
    have := ih (h.writeAt w.ref w.idx w.val) (fun w' hw' => hne w' (by simp [hw']))
    simp only [Heap.writes] at this
    rw [this, get_writeAt_ne _ _ _ _ _ (Ne.symm h1)]

theorem copy_get (h : Heap α) (r : Ref) : (h.copy r).1.get (h.copy r).2 = h.get r := by
  simp [Heap.copy, Heap.alloc, Heap.get]

theorem copy_fresh (h : Heap α) (r : Ref) : (h.copy r).2 = h.cells.length := rfl

/-- C01 / C17: a stored COPY is immune to every later sequence of in-place writes to the arrays
    that existed when it was taken (the working population, the fitness array, the caller's
    arrays): whatever is written, the record still holds the value it was given. -/
theorem C01_private_copy (h : Heap α) (src : Ref) (ws : List (Write α))
    (hold : ∀ w ∈ ws, w.ref < h.cells.length) :
    let (h1, rec_) := recordCopy h src
    (h1.writes ws).get rec_ = h.get src := by
  simp only [recordCopy]
  rw [get_writes_ne _ _ _ (fun w hw => by have h1 : w.ref < h.cells.length := hold w hw; rw [copy_fresh]; exact Nat.ne_of_lt h1), copy_get]

/-- C17: the same statement for statistics entries (`Statistics._update` copies every value) -/
theorem C17_snapshots (h : Heap α) (src : Ref) (ws : List (Write α))
    (hold : ∀ w ∈ ws, w.ref < h.cells.length) :
    ((recordCopy h src).1.writes ws).get (recordCopy h src).2 = h.get src :=
  C01_private_copy h src ws hold

/-- C17: the working population is a copy of `init_population`, so no write to the working
    population (or to anything allocated later) reaches the caller's array -/
theorem C17_inputs (h : Heap α) (caller : Ref) (hc : caller < h.cells.length) (ws : List (Write α))
    (hw : ∀ w ∈ ws, w.ref ≥ h.cells.length) :
    ((h.copy caller).1.writes ws).get caller = h.get caller := by
  rw [get_writes_ne _ _ _ (fun w hw' => by have h1 : w.ref ≥ h.cells.length := hw w hw'; exact Nat.ne_of_gt (Nat.lt_of_lt_of_le hc h1))]
  simp [Heap.copy, Heap.alloc, Heap.get, List.getD_eq_getElem?_getD, List.getElem?_append_left hc]

/-- C17 / C01: `get_fittest()` returns fresh copies, so the caller may change them freely -/
theorem C17_get (h : Heap α) (rec_ : Ref) (hr : rec_ < h.cells.length) (ws : List (Write α))
    (hw : ∀ w ∈ ws, w.ref = (h.copy rec_).2) :
    ((h.copy rec_).1.writes ws).get rec_ = h.get rec_ := by
  rw [get_writes_ne _ _ _ (fun w hw' => by rw [hw w hw', copy_fresh]; exact Nat.ne_of_gt hr)]
  simp [Heap.copy, Heap.alloc, Heap.get, List.getD_eq_getElem?_getD, List.getElem?_append_left hr]

/-- non-vacuity / necessity: with an ALIAS instead of a copy a single in-place write to the
    population changes the record -/
theorem C01_alias_counterexample :
    let h : Heap Nat := { cells := [[1, 2, 3]] }
    let (h1, rec_) := recordAlias h 0
    (h1.writes [⟨0, 1, 99⟩]).get rec_ ≠ h.get 0 := by
  decide

example : let h : Heap Nat := { cells := [[1, 2, 3]] }
    ((recordCopy h 0).1.writes [⟨0, 1, 99⟩]).get (recordCopy h 0).2 = [1, 2, 3] := by decide

end TFV.Heap
