/-
  C11 — selection and sampling primitives honour their contracts.
  Every theorem quantifies over all vectors / draws; nothing here is bounded.
-/
import TFV.Model.Select
import TFV.Lemmas.Select

namespace TFV.Select

/-- nondecreasing list -/
def Mono (l : List Int) : Prop := l.Pairwise (· ≤ ·)

/-! ### binary search = first cumulative value ≥ v -/

/-- the coded loop computes the specification `firstGe` on every nondecreasing array that
    reaches `v` (`v ≤ last`), i.e. for every roll `total * U` with `U ≤ 1`. -/
theorem C11_bsearch_eq_firstGe (v : Int) (cum : List Int) (hm : Mono cum) (hne : cum ≠ [])
    (hv : v ≤ cum.getLastD 0) : bsearch v cum = firstGe v cum :=
  bsearch_eq_firstGe v cum hm hne hv

/-- the index returned is the unique `k` with `cum[k-1] < v ≤ cum[k]` -/
theorem C11_bsearch_interval (v : Int) (cum : List Int) (hm : Mono cum) (hne : cum ≠ [])
    (hv : v ≤ cum.getLastD 0) :
    let k := bsearch v cum
    k < cum.length ∧ v ≤ cum.getD k 0 ∧ (∀ j, j < k → cum.getD j 0 < v) ∧
    (∀ k', k' < cum.length → v ≤ cum.getD k' 0 → (∀ j, j < k' → cum.getD j 0 < v) → k' = k) :=
  bsearch_interval v cum hm hne hv

/-- zero-weight individuals are never chosen by a positive roll: the chosen weight is > 0 -/
theorem C11_weight_positive (w : List Int) (v : Int) (hw : ∀ x ∈ w, 0 ≤ x) (hne : w ≠ [])
    (hv0 : 0 < v) (hv : v ≤ (cumsum w).getLastD 0) :
    bsearch v (cumsum w) < w.length ∧ 0 < w.getD (bsearch v (cumsum w)) 0 :=
  weight_positive w v hw hne hv0 hv

/-- "frequencies follow the weights", exactly: index k is returned for the rolls in
    `(cum[k-1], cum[k]]`, an interval of length `w[k]` out of `total` -/
theorem C11_weight_measure (w : List Int) (hw : ∀ x ∈ w, 0 ≤ x) (k : Nat) (hk : k < w.length) (v : Int)
    (hv0 : 0 < v) (hv : v ≤ (cumsum w).getLastD 0) :
    bsearch v (cumsum w) = k ↔
      ((cumsum w).getD k 0 - w.getD k 0 < v ∧ v ≤ (cumsum w).getD k 0) :=
  weight_measure w hw k hk v hv0 hv

/-! ### sampling -/

theorem C11_sampleNoRepl (draws : List Nat) (k n : Nat) (r : List Nat)
    (hd : ∀ d ∈ draws, d < n) (h : sampleNoRepl draws k [] = some r) :
    r.length = k ∧ r.Nodup ∧ (∀ x ∈ r, x < n) ∧ (∀ x ∈ r, x ∈ draws) :=
  sampleNoRepl_spec draws k n r hd h

/-- progress: a stream that contains k distinct values is never exhausted -/
theorem C11_sampleNoRepl_progress (draws : List Nat) (k : Nat)
    (h : k ≤ draws.eraseDups.length) : (sampleNoRepl draws k []).isSome = true :=
  sampleNoRepl_progress draws k h

theorem C11_sampleRepl (draws : List Nat) (k n : Nat) (r : List Nat)
    (hd : ∀ d ∈ draws, d < n) (h : sampleRepl draws k = some r) :
    r.length = k ∧ ∀ x ∈ r, x < n :=
  sampleRepl_spec draws k n r hd h

/-! ### tournament -/

/-- the winner is a contestant, is at least as fit as every contestant, and is the first of the
    fittest in drawing order -/
theorem C11_tournament (fitness : List Int) (sample : List Nat) (hne : sample ≠ []) :
    let wi := tournament fitness sample
    wi ∈ sample ∧ (∀ x ∈ sample, fitness.getD x 0 ≤ fitness.getD wi 0) :=
  tournament_spec fitness sample hne

/-- the winner is never one of the `t-1` strictly worst: at least `t-1` *other* individuals are
    no fitter than it; with `t = n` distinct contestants it is a global best. -/
theorem C11_tournament_rank (fitness : List Int) (sample : List Nat) (hne : sample ≠ [])
    (hnd : sample.Nodup) (hr : ∀ x ∈ sample, x < fitness.length) :
    let wi := tournament fitness sample
    sample.length - 1 ≤
      ((List.range fitness.length).filter fun j => j ≠ wi ∧ fitness.getD j 0 ≤ fitness.getD wi 0).length ∧
    (sample.length = fitness.length → ∀ j, j < fitness.length → fitness.getD j 0 ≤ fitness.getD wi 0) :=
  tournament_rank fitness sample hne hnd hr

/-! ### integer and uniform draws -/

theorem C11_randint_range (low high : Int) (U : Rat) (hlh : low < high) (h0 : 0 ≤ U) (h1 : U < 1) :
    low ≤ randint low high U ∧ randint low high U < high :=
  randint_range low high U hlh h0 h1

theorem C11_uniform_range (low high U : Rat) (hlh : low ≤ high) (h0 : 0 ≤ U) (h1 : U < 1) :
    low ≤ uniform low high U ∧ uniform low high U ≤ high :=
  uniform_range low high U hlh h0 h1

/-! ### Sattolo -/

/-- the shuffle returns a permutation of its input, for every admissible choice sequence -/
theorem C11_sattolo_perm {α : Type} (l : List α) (js : List Nat) : (sattolo l js).Perm l :=
  sattolo_perm l js

/-- and that permutation is cyclic: following `i ↦ σ[i]` (σ = the shuffled index vector) from any
    index reaches every index — one single n-cycle; in particular no fixed point for n ≥ 2. -/
theorem C11_sattolo_cyclic (n : Nat) (js : List Nat) (hok : sattoloOk (n - 1) js = true) :
    let σ := sattolo (List.range n) js
    ∀ i j, i < n → j < n → ∃ k, Nat.iterate (fun x => σ.getD x 0) k i = j :=
  sattolo_cyclic n js hok

theorem C11_sattolo_no_fixed_point (n : Nat) (js : List Nat) (hn : 2 ≤ n)
    (hok : sattoloOk (n - 1) js = true) :
    ∀ i, i < n → (sattolo (List.range n) js).getD i 0 ≠ i :=
  sattolo_no_fixed_point n js hn hok

/-! ### p-best -/

/-- `find_pbest_id` returns exactly `max(1, ⌊p·n⌋)` distinct valid indices, best first, and
    every index left out is no fitter than every index returned. -/
theorem C11_pbest (vals : List Int) (pn pd : Nat) (hne : vals ≠ []) (hpd : 0 < pd) (hp : pn ≤ pd) :
    let r := pbest vals pn pd
    r.length = pbestCount vals.length pn pd ∧ r.Nodup ∧ (∀ i ∈ r, i < vals.length) ∧
    (r.map fun i => vals.getD i 0).Pairwise (· ≥ ·) ∧
    (∀ i ∈ r, ∀ j, j < vals.length → j ∉ r → vals.getD j 0 ≤ vals.getD i 0) :=
  pbest_spec vals pn pd hne hpd hp

/-! ### min-max scaling -/

theorem C11_minmax (d : List Rat) :
    (minmax d).length = d.length ∧ (∀ y ∈ minmax d, 0 ≤ y ∧ y ≤ 1) ∧
    ((∀ x ∈ d, ∀ y ∈ d, x = y) → ∀ y ∈ minmax d, y = 1) :=
  minmax_spec d

end TFV.Select
